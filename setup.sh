#!/bin/sh
# Builds the framework from files on disk only (offline): guarded implementation build, translated
# tables, Lean library + model driver.
set -e
cd "$(dirname "$0")"
mkdir -p .build evidence replays
export CARGO_NET_OFFLINE=true
(cd /repo && RUSTFLAGS="--cfg masscanned_verif" cargo build --offline --target-dir /verif/.build/cargo) >/dev/null 2>.build/cargo.log || { tail -30 .build/cargo.log; exit 1; }
cc -shared -fPIC -O2 -o .build/timeshim.so harness/timeshim.c -ldl
python3 harness/regen.py
(cd lean && lake build Masscanned mdriver $(ls Masscanned/Thm/*.lean | sed "s#/#.#g; s#\.lean##")) > .build/lake.log 2>&1 || { tail -40 .build/lake.log; exit 1; }
echo setup ok
