/-
  mdriver — executable of the Lean model (and, later, of the Spec judges).
    mdriver model   : reads the same op lines as the implementation's driver, answers in the
                      same block format (events instead of logger text).
-/
import Masscanned.Model.Net
import Masscanned.Model.Logger
import Masscanned.Spec.Judge
import Masscanned.Spec.LogGrammar
import Masscanned.Spec.LogText
import Masscanned.Spec.JudgeApp
import Masscanned.Model.SmackCompile
import Masscanned.Gen.HttpSmack
open Masscanned

def parseIp (s : String) : Option Ip :=
  -- "4:<hex>" or "6:<hex>"
  match s.splitOn ":" with
  | ["4", h] => (unhex h).map Ip.v4
  | ["6", h] => (unhex h).map Ip.v6
  | _ => none

def parseIps (s : String) : Option (List Ip) :=
  if s == "-" then none else some ((s.splitOn ",").filterMap parseIp)

def parseHex64 (s : String) : UInt64 :=
  (s.toList.foldl (fun acc c => acc * 16 + (unhexDigit c).getD 0) 0).toUInt64

def parseCfg (cfg : Cfg) (toks : List String) : Cfg :=
  toks.foldl (fun cfg tok =>
    match tok.splitOn "=" with
    | ["mac", v] => { cfg with mac := (unhex v).getD cfg.mac }
    | ["self", v] => { cfg with selfIps := parseIps v }
    | ["deny", v] => { cfg with deny := parseIps v }
    | ["key", v] => match v.splitOn "," with
      | [a, b] => { cfg with k0 := parseHex64 a, k1 := parseHex64 b }
      | _ => cfg
    | ["logger", v] => { cfg with logger := if v == "console" then .console else if v == "logfmt" then .logfmt else .none }
    | ["level", v] => { cfg with level := match v with
        | "error" => 1 | "warn" => 2 | "info" => 3 | "debug" => 4 | "trace" => 5 | _ => 0 }
    | ["ovf", v] => { cfg with ovf := v == "1" }
    | _ => cfg) cfg

def showIpOpt : Option Ip → String
  | none => "-"
  | some (.v4 a) => "4:" ++ hexOf a
  | some (.v6 a) => "6:" ++ hexOf a

def showNatOpt : Option Nat → String
  | none => "-"
  | some n => toString n

def showBytesOpt : Option Bytes → String
  | none => "-"
  | some b => if b.isEmpty then "-" else hexOf b

def layerName : Layer → String
  | .eth => "eth" | .arp => "arp" | .ipv4 => "ipv4" | .ipv6 => "ipv6"
  | .icmpv4 => "icmpv4" | .icmpv6 => "icmpv6" | .tcp => "tcp" | .udp => "udp"
def verbName : Verb → String
  | .recv => "recv" | .drop => "drop" | .send => "send"

def showEv (e : Ev) : String :=
  s!"EV {layerName e.layer} {verbName e.verb} {showBytesOpt e.ci.macSrc} {showBytesOpt e.ci.macDst} {showIpOpt e.ci.ipSrc} {showIpOpt e.ci.ipDst} {showNatOpt e.ci.transport} {showNatOpt e.ci.portSrc} {showNatOpt e.ci.portDst}"

def siteName (s : Site) : String := s!"{repr s}"

structure DState where
  cfg : Cfg := { mac := [0xc0, 0xff, 0xee, 0xc0, 0xff, 0xee], selfIps := none, deny := none, k0 := 0, k1 := 0,
                 logger := .none, level := 0, ovf := true }
  env : Env := { httpDate := [], unixSecs := 0 }
  st : Table := []

def showOut (o : Option Bytes) : String :=
  match o with
  | none => "-"
  | some b => hexOf b

def modelOp (s : DState) (line : String) : DState × List String :=
  let toks := (line.trimAscii.toString.splitOn " ").filter (· ≠ "")
  match toks with
  | "C" :: rest => ({ s with cfg := parseCfg s.cfg rest }, ["@@R ok"])
  | ["E", d, secs] => ({ s with env := { httpDate := (unhex d).getD [], unixSecs := secs.toNat?.getD 0 } }, [])
  | ["X"] => ({ s with st := [] }, ["@@R ok"])
  | ["Z", _] => (s, ["@@R ok"])      -- time passes: the model has no clock (wall-clock inputs are the explicit `Env`)
  | ["F", h] =>
    match unhex h with
    | none => (s, ["@@R bad-op"])
    | some f =>
      let o := step s.cfg s.env s.st f
      let evs := if s.cfg.logger = .none then [] else o.evs.map showEv
      let outOpt : Option Bytes := match o.out with | .ok r => r | .error _ => none
      let lns := (logLines s.cfg.logger f outOpt o.evs).map (fun l => "LN " ++ hexOf l)
      let r := match o.out with
        | .error e => "@@R PANIC " ++ siteName e
        | .ok r => "@@R " ++ showOut r
      ({ s with st := o.st }, evs ++ lns ++ [r])
  | ["A", tr, src, dst, sp, dp, ck, h] =>
    match parseIp src, parseIp dst, unhex h with
    | some src, some dst, some d =>
      let isTcp := tr == "tcp"
      let ci : ClientInfo := { ipSrc := some src, ipDst := some dst, portSrc := sp.toNat?, portDst := dp.toNat?,
                               transport := some (if isTcp then 6 else 17),
                               cookie := if isTcp then some (ck.toNat?.getD 0) else none }
      if isTcp then
        let c := ck.toNat?.getD 0
        let tcb := (s.st.get? c).getD {}
        match protoRepl s.cfg s.env ci (some tcb) d with
        | .error e => (s, ["@@R PANIC " ++ siteName e])
        | .ok (ci', tcb', r) =>
          let st' := if (s.st.get? c).isSome then s.st.set c (tcb'.getD tcb) else s.st ++ [(c, tcb'.getD tcb)]
          ({ s with st := st' }, [s!"@@R {showOut r} {ci'.portDst.getD 0}"])
      else
        match protoRepl s.cfg s.env ci none d with
        | .error e => (s, ["@@R PANIC " ++ siteName e])
        | .ok (ci', _, r) => (s, [s!"@@R {showOut r} {ci'.portDst.getD 0}"])
    | _, _, _ => (s, ["@@R bad-op"])
  | ["S", which, state, en, h] =>
    match unhex h with
    | none => (s, ["@@R bad-op"])
    | some d =>
      let T := if which == "http" then httpTbl else protoTbl
      match T.searchNext (state.toNat?.getD 0) d with
      | .error e => (s, ["@@R PANIC " ++ siteName e])
      | .ok (id, st, off) =>
        if en == "1" ∧ id = noMatch then
          match T.searchNextEnd st with
          | .error e => (s, ["@@R PANIC " ++ siteName e])
          | .ok (id', st') => (s, [s!"@@R {if id' = noMatch then "none" else toString id'} {st'} {off}"])
        else (s, [s!"@@R {if id = noMatch then "none" else toString id} {st} {off}"])
  | ["K", src, dst, sp, dp] =>
    match parseIp src, parseIp dst with
    | some a, some b => (s, [s!"@@R {cookie s.cfg.k0 s.cfg.k1 a b (sp.toNat?.getD 0) (dp.toNat?.getD 0)}"])
    | _, _ => (s, ["@@R bad-op"])
  | ["P", ck] =>
    match s.st.get? (ck.toNat?.getD 0) with
    | none => (s, ["@@R -"])
    | some t =>
      let ps := match t.protoState with | none => 0 | some (.http _) => 1 | some (.rpc _) => 2
      (s, [s!"@@R {t.smackState} {t.protoId} {ps}"])
  | _ => (s, ["@@R bad-op"])

partial def modelLoop (h : IO.FS.Stream) (out : IO.FS.Stream) (s : DState) : IO Unit := do
  let line ← h.getLine
  if line.isEmpty then return ()
  if line.trimAscii.toString.isEmpty then
    modelLoop h out s
  else
    let (s', lines) := modelOp s line
    if line.startsWith "E " then
      modelLoop h out s'
    else
      out.putStrLn "@@B"
      for l in lines do out.putStrLn l
      out.putStrLn s!"@@T {s'.st.length}"
      out.putStrLn "@@E"
      modelLoop h out s'

/-! ### judge mode: Spec predicates on the implementation's observations -/

structure JD where
  cfg : Cfg := ({} : DState).cfg
  js : Spec.JState := {}

def showVerdict (v : Spec.Verdict) : String :=
  if v.ok then s!"V ok {if v.nontrivial then 1 else 0}" else s!"V FAIL 1 {v.clause}"

def judgeFrame (prop : String) (s : JD) (f : Bytes) (r : Option Bytes) (t : Nat) : JD × Spec.Verdict :=
  match prop with
  | "C02" => (s, Spec.judgeC02 s.cfg f r)
  | "C03" => (s, Spec.judgeC03 s.cfg f r)
  | "C04" => (s, Spec.judgeC04 r)
  | "C05" => (s, Spec.judgeC05 s.cfg f r)
  | "C06" => (s, Spec.judgeC06 s.cfg f r)
  | "C07" => let (js, v) := Spec.judgeC07 s.cfg s.js f r; ({ s with js := js }, v)
  | "C09" => let (js, v) := Spec.judgeC09 s.cfg s.js f t; ({ s with js := js }, v)
  | _ => (s, Spec.pass false)

def judgeOp (prop : String) (s : JD) (line : String) : JD × Option String :=
  let toks := (line.trimAscii.toString.splitOn " ").filter (· ≠ "")
  match toks with
  | "C" :: rest => ({ s with cfg := parseCfg s.cfg rest }, none)
  | ["X"] => ({ s with js := {} }, none)
  | ["F", h, r, t] =>
    match unhex h with
    | none => (s, some "V skip 0 bad-op")
    | some f =>
      if r.startsWith "PANIC" then (s, some "V skip 0 panic")
      else
        let ro : Option Bytes := if r == "-" then none else unhex r
        let (s', v) := judgeFrame prop s f ro (t.toNat?.getD 0)
        (s', some (showVerdict v))
  | _ => (s, none)

def parseLayer : String → Option Layer
  | "eth" => some .eth | "arp" => some .arp | "ipv4" => some .ipv4 | "ipv6" => some .ipv6
  | "icmpv4" => some .icmpv4 | "icmpv6" => some .icmpv6 | "tcp" => some .tcp | "udp" => some .udp
  | _ => none
def parseVerb : String → Option Verb
  | "recv" => some .recv | "drop" => some .drop | "send" => some .send | _ => none
def optBytes (s : String) : Option Bytes := if s == "-" then none else unhex s
def optNat (s : String) : Option Nat := if s == "-" then none else s.toNat?

/-- "layer,verb,macsrc,macdst,ipsrc,ipdst,transport,psrc,pdst" -/
def parseEv (s : String) : Option Ev :=
  match s.splitOn "," with
  | [l, v, ms, md, is, id, tr, ps, pd] =>
    match parseLayer l, parseVerb v with
    | some l, some v =>
      some { layer := l, verb := v,
             ci := { macSrc := optBytes ms, macDst := optBytes md, ipSrc := parseIp is, ipDst := parseIp id,
                     transport := optNat tr, portSrc := optNat ps, portDst := optNat pd } }
    | _, _ => none
  | _ => none

def judgeLog (line : String) : Option String :=
  let toks := (line.trimAscii.toString.splitOn " ").filter (· ≠ "")
  match toks with
  | ["L", h, r, evs] =>
    match unhex h with
    | none => some "V skip 0 bad-op"
    | some f =>
      let ro : Option Bytes := if r == "-" then none else unhex r
      let parts := if evs == "-" then [] else evs.splitOn ";"
      let es := parts.map parseEv
      if es.any (·.isNone) then some "V FAIL 1 unparsable event line"
      else some (showVerdict (Spec.judgeC20 f ro (es.filterMap id)))
  | ["T", lg, h, r, lns] =>
    -- the real logger's stdout for one frame: every line must be a complete line of the format
    match unhex h with
    | none => some "V skip 0 bad-op"
    | some f =>
      let ro : Option Bytes := if r == "-" then none else unhex r
      let parts := if lns == "-" then [] else lns.splitOn ";"
      let es := parts.map (fun p => match unhex p with
        | some l => if lg == "console" then Spec.LogText.parseConsole l else Spec.LogText.parseLogfmt l
        | none => none)
      if es.any (·.isNone) then some "V FAIL 1 a logger line is not a syntactically complete line of the format"
      else some (showVerdict (Spec.judgeC20 f ro (es.filterMap id)))
  | _ => none

def judgeApp (prop : String) (line : String) : Option String :=
  let toks := (line.trimAscii.toString.splitOn " ").filter (· ≠ "")
  match toks with
  | "A" :: tr :: src :: dst :: sp :: dp :: _ck :: h :: r :: pa :: rest =>
    match parseIp src, parseIp dst, unhex h with
    | some s, some d, some pl =>
      if r.startsWith "PANIC" then some "V skip 0 panic" else
      let forced : Option Nat := match rest with | [f] => f.toNat? | _ => none
      let o : Spec.AppObs := { tcp := tr == "tcp", src := s, dst := d, sport := sp.toNat?.getD 0, dport := dp.toNat?.getD 0,
                               payload := pl, reply := if r == "-" then none else unhex r, portAfter := pa.toNat?.getD 0,
                               forced := forced }
      let v := match prop with
        | "C10" => Spec.judgeC10 o
        | "C13" => if forced.isSome then Spec.judgeC13s o else Spec.judgeC13 o
        | "C14" => Spec.judgeC14 o
        | "C15" => Spec.judgeC15 o
        | "C16" => Spec.judgeC16 o
        | "C17" => Spec.judgeC17 o
        | "C18" => Spec.judgeC18 o
        | _ => Spec.pass false
      some (showVerdict v)
    | _, _, _ => some "V skip 0 bad-op"
  | ["M", dg, h, id] =>
    match unhex h with
    | some s => some (showVerdict (Spec.judgeC10m (dg == "1") s (if id == "none" then none else id.toNat?)))
    | none => some "V skip 0 bad-op"
  | _ => none

partial def judgeLoop (prop : String) (h : IO.FS.Stream) (out : IO.FS.Stream) (s : JD) : IO Unit := do
  let line ← h.getLine
  if line.isEmpty then return ()
  let (s', o) := if line.startsWith "L " ∨ line.startsWith "T " then (s, judgeLog line)
                 else if line.startsWith "A " ∨ line.startsWith "M " then (s, judgeApp prop line)
                 else judgeOp prop s line
  match o with
  | some l => out.putStrLn l
  | none => pure ()
  judgeLoop prop h out s'

/-- translator round trip: print the regenerated table in the format of the implementation's dump -/
def dumpTable (T : SmackTbl) (nrows : Nat) : List String :=
  let cols := 2 ^ T.rowShift
  (List.range nrows).map (fun r =>
    "row " ++ toString r ++ String.join ((List.range cols).map (fun c => " " ++ toString (T.trans (r * cols + c))))) ++
  (List.range nrows).map (fun r =>
    "match " ++ toString r ++ " " ++ toString (T.cnt r) ++ String.join ((T.ids r).map (fun i => " " ++ toString i))) ++
  ["char_to_symbol" ++ String.join ((List.range 258).map (fun c => " " ++ toString (T.c2s c)))]

partial def compileLoop (stdin : IO.FS.Stream) : IO Unit := do
  let line ← stdin.getLine
  if line.isEmpty then return ()
  IO.println "@@B"
  match SmackCompile.parseY line with
  | none => IO.println "@@R bad-op"
  | some (nc, pats) =>
    match SmackCompile.compile nc pats with
    | .error e => IO.println s!"@@R PANIC {e}"
    | .ok c =>
      for l in c.dump do IO.println l
      IO.println "@@R ok"
  IO.println "@@E"
  compileLoop stdin

def main (args : List String) : IO UInt32 := do
  let stdin ← IO.getStdin
  let stdout ← IO.getStdout
  match args with
  | ["model"] => modelLoop stdin stdout {}; return 0
  | ["judge", prop] => judgeLoop prop stdin stdout {}; return 0
  | ["dump", which] =>
    let ls := if which == "http" then dumpTable httpTbl Gen.HttpSmack.nrows else dumpTable protoTbl Gen.ProtoSmack.nrows
    for l in ls do IO.println l
    return 0
  | ["compile-check"] =>
    -- the hand-written model of `Smack::compile`, run on the registered patterns, against the tables dumped from the code
    let mut bad := 0
    for (name, nc, pats, T, nrows, symc) in
        [("proto", Gen.ProtoSmack.nocase, Gen.ProtoSmack.patterns, Gen.ProtoSmack.tbl, Gen.ProtoSmack.nrows, Gen.ProtoSmack.symbolCount),
         ("http", Gen.HttpSmack.nocase, Gen.HttpSmack.patterns, Gen.HttpSmack.tbl, Gen.HttpSmack.nrows, Gen.HttpSmack.symbolCount)] do
      match SmackCompile.compile nc (SmackCompile.ofGen pats) with
      | .error e => IO.println s!"{name} error {e}"; bad := bad + 1
      | .ok c =>
        let d := c.diff T nrows symc
        if d.isEmpty then IO.println s!"{name} ok rows={c.stateCount} symbols={c.symbolCount} match_limit={c.matchLimit}"
        else
          IO.println s!"{name} differs {d.length}: {d.take 5}"
          bad := bad + 1
    return (if bad == 0 then 0 else 1)
  | ["compile"] =>
    -- `Y` ops: compile the given pattern set with the model and print the implementation's dump format
    compileLoop stdin
    return 0
  | _ => IO.eprintln "usage: mdriver model | judge Cxx | dump proto|http | compile-check | compile"; return 2
