/-
  GenAnn — prints the (untrusted) row annotations used by the kernel-checked closure proofs of C10:
  a Nat-encoded map "matcher row -> (position, alive signatures)" for the protocol matcher and for the
  HTTP verb matcher, computed by walking the tables regenerated from the running code.  The annotations
  are only witnesses: Thm/C10 re-checks them in the kernel (`okRows … = true`), a wrong or stale witness
  can only make the proof fail.   Run: lake env lean --run GenAnn.lean
-/
import Masscanned.Proofs.C10.Check
import Masscanned.Proofs.C10.HttpLang
import Masscanned.Model.Dispatch
open Masscanned Masscanned.C10 Masscanned.Spec

def main : IO Unit := do
  IO.println ("PROTO " ++ annHex protoTbl sigsK2)
  IO.println ("HTTP " ++ annHexV httpTbl lowerB verbsL)
