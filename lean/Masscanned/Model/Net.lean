/-
  Model/Net — layers 2-4 of masscanned: src/layer_2/{mod,arp}.rs, src/layer_3/{ipv4,ipv6}.rs,
  src/layer_4/{icmpv4,icmpv6,tcp,udp}.rs and `reply()` of src/masscanned.rs (after the fix
  commits D1, D2, D6, D7, D11).  pnet packet views are modelled as in DESIGN.md Appendix A.
-/
import Masscanned.Model.Checksum
import Masscanned.Model.SipHash
import Masscanned.Model.Dispatch
namespace Masscanned

/-- the connection table: association list keyed by the 32-bit cookie -/
abbrev Table := List (Nat × Tcb)

def Table.get? (t : Table) (k : Nat) : Option Tcb := (t.find? (·.1 = k)).map (·.2)
def Table.set (t : Table) (k : Nat) (v : Tcb) : Table :=
  if t.any (·.1 = k) then t.map (fun e => if e.1 = k then (k, v) else e) else t ++ [(k, v)]

/-- result of one layer: events logged so far in this layer and below, (maybe) a reply -/
structure LOut (α : Type) where
  evs : List Ev
  ci : ClientInfo
  st : Table
  out : Option α

def ev (l : Layer) (v : Verb) (ci : ClientInfo) : Ev := { layer := l, verb := v, ci := ci }

/-! ### ARP (src/layer_2/arp.rs) -/

/-- the client-info-shaped record printed by ARP events: sender/target hardware and protocol
    addresses of the packet handed to the logger (for `send`: target first, as the logger does) -/
def arpCi (sha tha spa tpa : Bytes) (op : Nat) : ClientInfo :=
  { macSrc := some sha, macDst := some tha, ipSrc := some (.v4 spa), ipDst := some (.v4 tpa), transport := some op }

def arpRepl (cfg : Cfg) (p : Bytes) : List Ev × Option Bytes :=
  let op := rdBE (slice p 6 2)
  let sha := slice p 8 6
  let spa := slice p 14 4
  let tha := slice p 18 6
  let tpa := slice p 24 4
  let rcv := ev .arp .recv (arpCi sha tha spa tpa op)
  if op = 1 then
    if !cfg.isSelf (.v4 tpa) then ([rcv, ev .arp .drop (arpCi sha tha spa tpa op)], none)
    else
      let r := [0, 1] ++ slice p 2 4 ++ [0, 2] ++ cfg.mac ++ tpa ++ sha ++ spa ++ p.drop 28
      -- arp_send prints (target_hw, sender_hw, target_proto, sender_proto) of the reply
      ([rcv, ev .arp .send (arpCi sha cfg.mac spa tpa 2)], some r)
  else ([rcv, ev .arp .drop (arpCi sha tha spa tpa op)], none)

/-! ### ICMPv4 (src/layer_4/icmpv4.rs) -/

def icmp4Repl (ci : ClientInfo) (p : Bytes) : List Ev × Option Bytes :=
  let ty := at8 p 0
  let code := at8 p 1
  if ty = 8 then
    if code ≠ 0 then ([ev .icmpv4 .recv ci, ev .icmpv4 .drop ci], none)
    else ([ev .icmpv4 .recv ci, ev .icmpv4 .send ci], some ([0, 0, 0, 0] ++ p.drop 4))
  else ([ev .icmpv4 .recv ci, ev .icmpv4 .drop ci], none)

/-! ### ICMPv6 (src/layer_4/icmpv6.rs) -/

/-- returns the ICMPv6 reply (checksum still zero) and, for ND-NS, the solicited target -/
def icmp6Repl (cfg : Cfg) (ci : ClientInfo) (p : Bytes) : List Ev × Option (Bytes × Option Bytes) :=
  let ty := at8 p 0
  let code := at8 p 1
  let rcv := ev .icmpv6 .recv ci
  let drp := ev .icmpv6 .drop ci
  if code ≠ 0 then ([rcv, drp], none)
  else if ty = 135 then
    if p.length < 24 then ([rcv, drp], none)
    else
      let target := slice p 8 16
      if !cfg.isSelf (.v6 target) then ([rcv, drp], none)
      else
        let na := [136, 0, 0, 0, 0x60, 0, 0, 0] ++ target ++ [2, 1] ++ cfg.mac
        ([rcv, ev .icmpv6 .send ci], some (na, some target))
  else if ty = 128 then
    let dstOk := match ci.ipDst with
      | some d => cfg.isSelf d
      | none => true
    if !dstOk then ([rcv, drp], none)
    else ([rcv, ev .icmpv6 .send ci], some ([129, 0, 0, 0] ++ p.drop 4, none))
  else ([rcv, drp], none)

/-! ### UDP (src/layer_4/udp.rs) -/

def udpRepl (cfg : Cfg) (env : Env) (ci : ClientInfo) (p : Bytes) :
    Except Site (List Ev × ClientInfo × Option Bytes) :=
  let ci := { ci with portSrc := some (rdBE (slice p 0 2)), portDst := some (rdBE (slice p 2 2)) }
  let rcv := ev .udp .recv ci
  match protoRepl cfg env ci none (p.drop 8) with
  | .error e => .error e
  | .ok (ci', _, none) => .ok ([rcv, ev .udp .drop ci'], ci', none)
  | .ok (ci', _, some r) =>
    let len := 8 + r.length
    let pkt := u16be (ci'.portDst.getD 0) ++ u16be (ci'.portSrc.getD 0) ++ u16be (len % 65536) ++ [0, 0] ++ r
    .ok ([rcv, ev .udp .send ci'], ci', some pkt)

/-! ### TCP (src/layer_4/tcp.rs) -/

def tcpFlags (p : Bytes) : Nat := (at8 p 12 % 2) * 256 + at8 p 13
def tcpPayload (p : Bytes) : Bytes :=
  let doff := at8 p 12 / 16
  if doff > 5 then p.drop (doff * 4) else p.drop 20

def tcpHdr (sport dport seq ack flags : Nat) : Bytes :=
  u16be sport ++ u16be dport ++ u32be seq ++ u32be ack ++ [byte (0x50 + flags / 256 % 2), byte flags]
  ++ [255, 255, 0, 0, 0, 0]

/-- SYN + any of P|U|C|E, but not both C and E -/
def synOk (flags : Nat) : Bool :=
  flags / 2 % 2 = 1 &&
  -- no other flag than S(2) P(8) U(32) E(64) C(128)
  (flags % 2 = 0 && flags / 4 % 2 = 0 && flags / 16 % 2 = 0 && flags / 256 % 2 = 0) &&
  (flags / 128 % 2 = 0 || flags / 64 % 2 = 0)

def tcpRepl (cfg : Cfg) (env : Env) (st : Table) (ci : ClientInfo) (p : Bytes) :
    Except Site (List Ev × ClientInfo × Table × Option Bytes) :=
  let sport := rdBE (slice p 0 2)
  let dport := rdBE (slice p 2 2)
  let seq := rdBE (slice p 4 4)
  let ack := rdBE (slice p 8 4)
  let flags := tcpFlags p
  let ci := { ci with portSrc := some sport, portDst := some dport }
  let rcv := ev .tcp .recv ci
  let ck : Nat := match ci.ipSrc, ci.ipDst with
    | some s, some d => cookie cfg.k0 cfg.k1 s d sport dport
    | _, _ => 0
  let finish (ci : ClientInfo) (st : Table) (seq' ack' flags' : Nat) (payload : Bytes) :
      Except Site (List Ev × ClientInfo × Table × Option Bytes) :=
    .ok ([rcv, ev .tcp .send ci], ci, st,
         some (tcpHdr (ci.portDst.getD 0) (ci.portSrc.getD 0) seq' ack' flags' ++ payload))
  if flags / 8 % 2 = 1 ∧ flags / 16 % 2 = 1 then
    -- PSH|ACK: data
    let ackno := if ack > 0 then ack - 1 else 4294967295
    let ci := { ci with cookie := some ck }
    match st.get? ck with
    | none =>
      if ck ≠ ackno then .ok ([rcv, ev .tcp .drop ci], ci, st, none)
      else
        let data := tcpPayload p
        match protoRepl cfg env ci (some {}) data with
        | .error e => .error e
        | .ok (ci', tcb', r) =>
          let st' := st ++ [(ck, tcb'.getD {})]
          match r with
          | some r => finish ci' st' ack ((seq + data.length) % 4294967296) 0x18 r
          | none => finish ci' st' ack ((seq + data.length) % 4294967296) 0x10 []
    | some tcb =>
      let data := tcpPayload p
      match protoRepl cfg env ci (some tcb) data with
      | .error e => .error e
      | .ok (ci', tcb', r) =>
        let st' := st.set ck (tcb'.getD tcb)
        match r with
        | some r => finish ci' st' ack ((seq + data.length) % 4294967296) 0x18 r
        | none => finish ci' st' ack ((seq + data.length) % 4294967296) 0x10 []
  else if flags = 0x10 then .ok ([rcv, ev .tcp .drop ci], ci, st, none)
  else if flags = 0x04 then .ok ([rcv, ev .tcp .drop ci], ci, st, none)
  else if flags = 0x11 then finish ci st ack ((seq + 1) % 4294967296) 0x11 []
  else if synOk flags then finish ci st ck ((seq + 1) % 4294967296) 0x12 []
  else .ok ([rcv, ev .tcp .drop ci], ci, st, none)

/-! ### IPv4 (src/layer_3/ipv4.rs) -/

def ipv4Payload (p : Bytes) : Bytes :=
  let ihl := at8 p 0 % 16
  let total := rdBE (slice p 2 2)
  let start := 20 + (ihl * 4 - 20)
  let stop := min (start + (total - ihl * 4)) p.length
  if p.length ≤ start then [] else (p.take stop).drop start

/-- IPv4 header of a reply; the checksum is computed (by layer 2) once every field is set -/
def ipv4Hdr (src dst : Bytes) (proto totalLen : Nat) : Bytes :=
  let h0 := [0x45, 0] ++ u16be (totalLen % 65536) ++ [0, 0, 0x40, 0, 64, byte proto, 0, 0] ++ src ++ dst
  setU16 h0 10 (csumPlain h0)

def ipv4Repl (cfg : Cfg) (env : Env) (st : Table) (ci : ClientInfo) (p : Bytes) :
    Except Site (List Ev × ClientInfo × Table × Option Bytes) :=
  let src := slice p 12 4
  let dst := slice p 16 4
  let proto := at8 p 9
  let ci := { ci with ipSrc := some (.v4 src), ipDst := some (.v4 dst) }
  let rcv := ev .ipv4 .recv ci
  if !cfg.isSelf (.v4 dst) then .ok ([rcv, ev .ipv4 .drop ci], ci, st, none)
  else if cfg.isDenied (.v4 src) then .ok ([rcv, ev .ipv4 .drop ci], ci, st, none)
  else
    let ci := { ci with transport := some proto }
    let pl := ipv4Payload p
    let wrap (evs : List Ev) (ci : ClientInfo) (st : Table) (l4 : Bytes) :
        Except Site (List Ev × ClientInfo × Table × Option Bytes) :=
      -- pnet's `set_payload` asserts the payload fits the length implied by `ip_len as u16`
      if 20 + l4.length > 65535 then .error .setPayload
      else .ok ([rcv] ++ evs ++ [ev .ipv4 .send ci], ci, st, some (ipv4Hdr dst src proto (20 + l4.length) ++ l4))
    let drop (evs : List Ev) (ci : ClientInfo) (st : Table) :
        Except Site (List Ev × ClientInfo × Table × Option Bytes) :=
      .ok ([rcv] ++ evs ++ [ev .ipv4 .drop ci], ci, st, none)
    if proto = 1 then
      if pl.length < 4 then drop [] ci st
      else
        match icmp4Repl ci pl with
        | (evs, none) => drop evs ci st
        | (evs, some r) => wrap evs ci st (setU16 r 2 (csumPlain r))
    else if proto = 6 then
      if pl.length < 20 then drop [] ci st
      else
        match tcpRepl cfg env st ci pl with
        | .error e => .error e
        | .ok (evs, ci', st', none) => drop evs ci' st'
        | .ok (evs, ci', st', some r) => wrap evs ci' st' (setU16 r 16 (csumPseudo dst src 6 r))
    else if proto = 17 then
      if pl.length < 8 then drop [] ci st
      else
        match udpRepl cfg env ci pl with
        | .error e => .error e
        | .ok (evs, ci', none) => drop evs ci' st
        | .ok (evs, ci', some r) =>
          if r.length > 65535 then .error .udpLen       -- `udp_len.try_into().unwrap()`
          else wrap evs ci' st (setU16 r 6 (csumPseudo dst src 17 r))
    else drop [] ci st

/-! ### IPv6 (src/layer_3/ipv6.rs) -/

def ipv6Payload (p : Bytes) : Bytes :=
  let plen := rdBE (slice p 4 2)
  let stop := min (40 + plen) p.length
  if p.length ≤ 40 then [] else (p.take stop).drop 40

def ipv6Hdr (src dst : Bytes) (nh payloadLen hlim : Nat) : Bytes :=
  [0x60, 0, 0, 0] ++ u16be (payloadLen % 65536) ++ [byte nh, byte hlim] ++ src ++ dst

def ipv6Repl (cfg : Cfg) (env : Env) (st : Table) (ci : ClientInfo) (p : Bytes) :
    Except Site (List Ev × ClientInfo × Table × Option Bytes) :=
  let src := slice p 8 16
  let dst := slice p 24 16
  let nh := at8 p 6
  let ci := { ci with ipSrc := some (.v6 src), ipDst := some (.v6 dst) }
  let rcv := ev .ipv6 .recv ci
  if !cfg.isSelf (.v6 dst) ∧ nh ≠ 58 then .ok ([rcv, ev .ipv6 .drop ci], ci, st, none)
  else if cfg.isDenied (.v6 src) then .ok ([rcv, ev .ipv6 .drop ci], ci, st, none)
  else
    let ci := { ci with transport := some nh }
    let pl := ipv6Payload p
    let wrap (evs : List Ev) (ci : ClientInfo) (st : Table) (from_ : Bytes) (hlim : Nat) (l4 : Bytes) :
        Except Site (List Ev × ClientInfo × Table × Option Bytes) :=
      if l4.length > 65535 then .error .setPayload
      else .ok ([rcv] ++ evs ++ [ev .ipv6 .send ci], ci, st, some (ipv6Hdr from_ src nh l4.length hlim ++ l4))
    let drop (evs : List Ev) (ci : ClientInfo) (st : Table) :
        Except Site (List Ev × ClientInfo × Table × Option Bytes) :=
      .ok ([rcv] ++ evs ++ [ev .ipv6 .drop ci], ci, st, none)
    if nh = 58 then
      if pl.length < 4 then drop [] ci st
      else
        match icmp6Repl cfg ci pl with
        | (evs, none) => drop evs ci st
        | (evs, some (r, tgt)) =>
          let from_ := tgt.getD dst
          let r' := setU16 r 2 (csumPseudo src from_ 58 r)
          wrap evs ci st from_ (if at8 r 0 = 136 then 255 else 64) r'
    else if nh = 6 then
      if pl.length < 20 then drop [] ci st
      else
        match tcpRepl cfg env st ci pl with
        | .error e => .error e
        | .ok (evs, ci', st', none) => drop evs ci' st'
        | .ok (evs, ci', st', some r) => wrap evs ci' st' dst 64 (setU16 r 16 (csumPseudo dst src 6 r))
    else if nh = 17 then
      if pl.length < 8 then drop [] ci st
      else
        match udpRepl cfg env ci pl with
        | .error e => .error e
        | .ok (evs, ci', none) => drop evs ci' st
        | .ok (evs, ci', some r) =>
          let c := csumPseudo dst src 17 r
          wrap evs ci' st dst 64 (setU16 r 6 (if c = 0 then 65535 else c))
    else drop [] ci st

/-! ### Ethernet (src/layer_2/mod.rs) and `reply()` -/

def authMacs (cfg : Cfg) : List Bytes :=
  [[255, 255, 255, 255, 255, 255], cfg.mac, [0x33, 0x33, 0, 0, 0, 1]] ++
  match cfg.selfIps with
  | none => []
  | some l => l.map (fun ip => match ip with
      | .v4 a => [1, 0, 0x5e, byte (at8 a 1 % 128), byte (at8 a 2), byte (at8 a 3)]
      | .v6 a => [0x33, 0x33, 0xff, byte (at8 a 13), byte (at8 a 14), byte (at8 a 15)])

structure StepOut where
  st : Table
  out : Except Site (Option Bytes)
  evs : List Ev

def ethRepl (cfg : Cfg) (env : Env) (st : Table) (f : Bytes) :
    Except Site (List Ev × Table × Option Bytes) :=
  let dstM := slice f 0 6
  let srcM := slice f 6 6
  let ety := rdBE (slice f 12 2)
  let ci : ClientInfo := { macSrc := some srcM, macDst := some dstM }
  let rcv := ev .eth .recv ci
  let pl := f.drop 14
  let wrap (evs : List Ev) (ci : ClientInfo) (st : Table) (l3 : Bytes) :
      Except Site (List Ev × Table × Option Bytes) :=
    .ok ([rcv] ++ evs ++ [ev .eth .send ci], st, some (srcM ++ cfg.mac ++ u16be ety ++ l3))
  let drop (evs : List Ev) (ci : ClientInfo) (st : Table) :
      Except Site (List Ev × Table × Option Bytes) :=
    .ok ([rcv] ++ evs ++ [ev .eth .drop ci], st, none)
  if !(authMacs cfg).contains dstM then drop [] ci st
  else if ety = 0x0806 then
    if pl.length < 28 then drop [] ci st
    else
      match arpRepl cfg pl with
      | (evs, none) => drop evs ci st
      | (evs, some r) => wrap evs ci st r
  else if ety = 0x0800 then
    if pl.length < 20 then drop [] ci st
    else
      match ipv4Repl cfg env st ci pl with
      | .error e => .error e
      | .ok (evs, ci', st', none) => drop evs ci' st'
      | .ok (evs, ci', st', some r) => wrap evs ci' st' r
  else if ety = 0x86dd then
    if pl.length < 40 then drop [] ci st
    else
      match ipv6Repl cfg env st ci pl with
      | .error e => .error e
      | .ok (evs, ci', st', none) => drop evs ci' st'
      | .ok (evs, ci', st', some r) => wrap evs ci' st' r
  else drop [] ci st

/-- `reply()`: one received frame -/
def step (cfg : Cfg) (env : Env) (st : Table) (f : Bytes) : StepOut :=
  if f.length < 14 then { st := st, out := .ok none, evs := [] }
  else
    match ethRepl cfg env st f with
    | .error e => { st := st, out := .error e, evs := [] }
    | .ok (evs, st', r) => { st := st', out := .ok r, evs := evs }

/-- a whole history from the empty table -/
def run (cfg : Cfg) (env : Env) : Table → List Bytes → Table
  | st, [] => st
  | st, f :: fs => run cfg env (step cfg env st f).st fs

end Masscanned
