/-
  Model/SipHash — SipHash-2-4 (siphasher 1.0.1 `SipHasher24`) and the SYN cookie of
  src/synackcookie/mod.rs: message = src address (as native-endian integer bytes, i.e. the
  address bytes reversed on x86-64) ‖ dst address reversed ‖ sport LE ‖ dport LE.
-/
import Masscanned.Model.Basic
namespace Masscanned

def rotl (x : UInt64) (b : UInt64) : UInt64 := (x <<< b) ||| (x >>> (64 - b))

structure SipSt where
  v0 : UInt64
  v1 : UInt64
  v2 : UInt64
  v3 : UInt64

def sipRound (s : SipSt) : SipSt :=
  let v0 := s.v0 + s.v1; let v1 := rotl s.v1 13; let v1 := v1 ^^^ v0; let v0 := rotl v0 32
  let v2 := s.v2 + s.v3; let v3 := rotl s.v3 16; let v3 := v3 ^^^ v2
  let v0 := v0 + v3; let v3 := rotl v3 21; let v3 := v3 ^^^ v0
  let v2 := v2 + v1; let v1 := rotl v1 17; let v1 := v1 ^^^ v2; let v2 := rotl v2 32
  ⟨v0, v1, v2, v3⟩

def le64 (bs : Bytes) : UInt64 :=
  (bs.zipIdx.foldl (fun acc (b, i) => acc ||| (b.toUInt64 <<< (8 * i).toUInt64)) 0)

def absorb (s : SipSt) (m : UInt64) : SipSt :=
  let s := { s with v3 := s.v3 ^^^ m }
  let s := sipRound (sipRound s)
  { s with v0 := s.v0 ^^^ m }

def sipBlocks (s : SipSt) (msg : Bytes) (total : Nat) (fuel : Nat) : SipSt :=
  match fuel with
  | 0 => s
  | fuel+1 =>
    if msg.length ≥ 8 then sipBlocks (absorb s (le64 (msg.take 8))) (msg.drop 8) total fuel
    else
      let last := le64 msg ||| ((total % 256).toUInt64 <<< 56)
      absorb s last

def siphash24 (k0 k1 : UInt64) (msg : Bytes) : UInt64 :=
  let s : SipSt := ⟨k0 ^^^ 0x736f6d6570736575, k1 ^^^ 0x646f72616e646f6d,
                    k0 ^^^ 0x6c7967656e657261, k1 ^^^ 0x7465646279746573⟩
  let s := sipBlocks s msg msg.length (msg.length / 8 + 1)
  let s := { s with v2 := s.v2 ^^^ 0xff }
  let s := sipRound (sipRound (sipRound (sipRound s)))
  s.v0 ^^^ s.v1 ^^^ s.v2 ^^^ s.v3

/-- the byte string fed to the hasher -/
def cookieMsg (src dst : Ip) (sport dport : Nat) : Bytes :=
  src.bytes.reverse ++ dst.bytes.reverse ++ u16le sport ++ u16le dport

/-- `synackcookie::generate`: low 32 bits of the hash -/
def cookie (k0 k1 : UInt64) (src dst : Ip) (sport dport : Nat) : Nat :=
  (siphash24 k0 k1 (cookieMsg src dst sport dport)).toNat % 4294967296

end Masscanned
