/-
  Model/Dns — src/proto/dns/{mod,header,query,rr}.rs: the section-driven incremental parser
  and the reply builder (after the D8 fix: QR=1 is not answered).
-/
import Masscanned.Model.Basic
namespace Masscanned

/-- a parsed question: the raw name bytes (labels up to and including the root label), type, class -/
structure DnsQ where
  name : Bytes
  qtype : Nat
  qclass : Nat
  deriving DecidableEq, Repr

/-- `DNSType::from(u16)` followed by `u16::from(DNSType)` (A=1, TXT=16, anything else 0) -/
def dnsTypeNorm (t : Nat) : Nat := if t = 1 then 1 else if t = 16 then 16 else 0
/-- same for the class (IN=1, CH=3, anything else 0) -/
def dnsClassNorm (c : Nat) : Nat := if c = 1 then 1 else if c = 3 then 3 else 0

/-- read one question from the front of `d`: the name label by label (a length octet, then that many octets of
    any value; the name ends at a zero length octet), then 4 bytes.  `left` = octets of the current label still
    to be read (`DNSQuery::_label_left`). -/
def dnsReadQL : Nat → Bytes → Bytes → Option (DnsQ × Bytes)
  | _, _, [] => none
  | left, acc, b :: t =>
    if left > 0 then dnsReadQL (left - 1) (acc ++ [b]) t
    else if b = 0 then
      if t.length < 4 then none
      else some ({ name := acc ++ [0], qtype := rdBE (t.take 2), qclass := rdBE (slice t 2 2) }, t.drop 4)
    else dnsReadQL b.toNat (acc ++ [b]) t

def dnsReadQ (acc d : Bytes) : Option (DnsQ × Bytes) := dnsReadQL 0 acc d

def dnsReadQs : Nat → Bytes → Option (List DnsQ × Bytes)
  | 0, d => some ([], d)
  | n + 1, d =>
    match dnsReadQ [] d with
    | none => none
    | some (q, rest) =>
      match dnsReadQs n rest with
      | none => none
      | some (qs, rest') => some (q :: qs, rest')

/-- skip one resource record: name label by label (as in `dnsReadQL`), type, class, ttl, rdlength, rdata -/
def dnsSkipRRL : Nat → Bytes → Option Bytes
  | _, [] => none
  | left, b :: t =>
    if left > 0 then dnsSkipRRL (left - 1) t
    else if b = 0 then
      if t.length < 10 then none
      else
        let rdlen := rdBE (slice t 8 2)
        let rest := t.drop 10
        if rest.length < rdlen then none else some (rest.drop rdlen)
    else dnsSkipRRL b.toNat t

def dnsSkipRR (d : Bytes) : Option Bytes := dnsSkipRRL 0 d

def dnsSkipRRs : Nat → Bytes → Option Bytes
  | 0, d => some d
  | n + 1, d =>
    match dnsSkipRR d with
    | none => none
    | some rest => dnsSkipRRs n rest

structure DnsMsg where
  id : Nat
  flags : Nat
  qd : List DnsQ
  qdcount : Nat
  deriving Repr

/-- `DNSPacket::try_from`: `some` iff the byte-at-a-time parser ends in state End
    (trailing bytes after End are ignored; authority/additional sections never reach End). -/
def dnsParse (d : Bytes) : Option DnsMsg :=
  if d.length < 12 then none else
  let id := rdBE (slice d 0 2)
  let flags := rdBE (slice d 2 2)
  let qdcount := rdBE (slice d 4 2)
  let ancount := rdBE (slice d 6 2)
  let nscount := rdBE (slice d 8 2)
  let arcount := rdBE (slice d 10 2)
  match dnsReadQs qdcount (d.drop 12) with
  | none => none
  | some (qs, rest) =>
    match dnsSkipRRs ancount rest with
    | none => none
    | some _ =>
      if nscount > 0 ∨ arcount > 0 then none
      else some { id := id, flags := flags, qd := qs, qdcount := qdcount }

/-- answer record for one question (`DNSQuery::repl` + `DNSRR` serialisation) -/
def dnsAnswer (ipDst : Option Ip) (q : DnsQ) : Bytes :=
  let rdata : Bytes := match ipDst with
    | some (.v4 a) => a
    | _ => []
  q.name ++ [0, 1, 0, 1] ++ u32be 43200 ++ u16be rdata.length ++ rdata

/-- `DNSPacket::repl` -/
def dnsRepl (ci : ClientInfo) (m : DnsMsg) : Option Bytes :=
  if m.flags / 32768 = 1 then none                      -- QR = 1 (D8 fix)
  else if m.qd.all (fun q => dnsTypeNorm q.qtype = 1 ∧ dnsClassNorm q.qclass = 1) then
    let opcode := m.flags / 2048 % 16
    let rd := m.flags / 256 % 2
    let hdr := u16be m.id ++ [byte (128 + opcode * 8 + 4 + rd), 0] ++ u16be m.qdcount ++ u16be m.qdcount
                 ++ [0, 0, 0, 0]
    some (hdr ++ (m.qd.map (fun q => q.name ++ [0, 1, 0, 1])).flatten
              ++ (m.qd.map (dnsAnswer ci.ipDst)).flatten)
  else none

end Masscanned
