/-
  Model/Rpc — src/proto/rpc.rs: call FSM (`rpc_parse`), reply construction, TCP record mark.
  The byte vectors creds_data / verif_data / payload of the Rust state are never read back
  and are not carried by the model.
-/
import Masscanned.Model.Basic
import Masscanned.Model.Http
import Masscanned.Gen.Texts
namespace Masscanned

inductive RpcPhase where
  | frag | xid | messageType | rpcVersion | program | programVersion | procedure
  | credsFlavor | credsLen | creds | verifFlavor | verifLen | verif | done
  deriving DecidableEq, Repr, Inhabited

structure RpcSt where
  state : RpcPhase := .frag
  lastFrag : Bool := false
  fragLen : Nat := 0
  xid : Nat := 0
  messageType : Nat := 0
  rpcVersion : Nat := 0
  program : Nat := 0
  progVersion : Nat := 0
  procedure : Nat := 0
  credsFlavor : Nat := 0
  verifFlavor : Nat := 0
  curLen : Nat := 0
  dataLen : Nat := 0
  deriving DecidableEq, Repr, Inhabited

/-- `value * 256 + byte as u32` (checked in debug, wrapping in release) -/
def rpcAcc (ovf : Bool) (value : Nat) (b : UInt8) : Except Site Nat :=
  let v := value * 256 + b.toNat
  if v < 4294967296 then .ok v else if ovf then .error .rpcOverflow else .ok (v % 4294967296)

/-- the state/cur_len part of `read_u32` -/
def rpcAdvance (s : RpcSt) (next : RpcPhase) : RpcSt :=
  if s.curLen + 1 = 4 then { s with state := next, curLen := 0 } else { s with curLen := s.curLen + 1 }

def rpcByte (ovf : Bool) (s : RpcSt) (b : UInt8) : Except Site RpcSt :=
  match s.state with
  | .frag =>
    let s := if s.curLen = 0 then { s with lastFrag := b.toNat ≥ 128, fragLen := b.toNat % 128 }
             else { s with fragLen := b.toNat }
    .ok (rpcAdvance s .xid)
  | .xid => match rpcAcc ovf s.xid b with
    | .error e => .error e | .ok v => .ok { rpcAdvance s .messageType with xid := v }
  | .messageType => match rpcAcc ovf s.messageType b with
    | .error e => .error e | .ok v => .ok { rpcAdvance s .rpcVersion with messageType := v }
  | .rpcVersion => match rpcAcc ovf s.rpcVersion b with
    | .error e => .error e | .ok v => .ok { rpcAdvance s .program with rpcVersion := v }
  | .program => match rpcAcc ovf s.program b with
    | .error e => .error e | .ok v => .ok { rpcAdvance s .programVersion with program := v }
  | .programVersion => match rpcAcc ovf s.progVersion b with
    | .error e => .error e | .ok v => .ok { rpcAdvance s .procedure with progVersion := v }
  | .procedure => match rpcAcc ovf s.procedure b with
    | .error e => .error e | .ok v => .ok { rpcAdvance s .credsFlavor with procedure := v }
  | .credsFlavor => match rpcAcc ovf s.credsFlavor b with
    | .error e => .error e | .ok v => .ok { rpcAdvance s .credsLen with credsFlavor := v }
  | .credsLen => match rpcAcc ovf s.dataLen b with
    | .error e => .error e
    | .ok v =>
      let s := { rpcAdvance s .creds with dataLen := v }
      .ok (if s.state = .creds ∧ s.dataLen = 0 then { s with state := .verifFlavor } else s)
  | .creds =>
    if s.dataLen = 0 then .error .rpcUnderflow          -- `data_len -= 1`
    else
      let s := { s with dataLen := s.dataLen - 1 }
      .ok (if s.dataLen = 0 then { s with state := .verifFlavor } else s)
  | .verifFlavor => match rpcAcc ovf s.verifFlavor b with
    | .error e => .error e | .ok v => .ok { rpcAdvance s .verifLen with verifFlavor := v }
  | .verifLen => match rpcAcc ovf s.dataLen b with
    | .error e => .error e
    | .ok v =>
      let s := { rpcAdvance s .verif with dataLen := v }
      -- the code tests `cur_len == 0` (always true here), so a verifier body is never read
      .ok (if s.state = .verif ∧ s.curLen = 0 then { s with state := .done } else s)
  | .verif =>
    if s.dataLen = 0 then .error .rpcUnderflow
    else
      let s := { s with dataLen := s.dataLen - 1 }
      .ok (if s.dataLen = 0 then { s with state := .done } else s)
  | .done => .ok s

def rpcParse (ovf : Bool) : RpcSt → Bytes → Except Site RpcSt
  | s, [] => .ok s
  | s, b :: t => match rpcByte ovf s b with
    | .error e => .error e
    | .ok s' => rpcParse ovf s' t

/-- XDR string: length, bytes, zero padding to a multiple of 4 -/
def xdrString (s : Bytes) : Bytes :=
  u32be s.length ++ s ++ zeros ((4 - s.length % 4) % 4)

def hexNoPad (n : Nat) : Bytes := (String.ofList (Nat.toDigits 16 n)).toUTF8.toList

/-- `Display` of `Ipv4Addr` -/
def showV4 (a : Bytes) : Bytes :=
  natDec (at8 a 0) ++ [46] ++ natDec (at8 a 1) ++ [46] ++ natDec (at8 a 2) ++ [46] ++ natDec (at8 a 3)

def v6Segments (a : Bytes) : List Nat :=
  (List.range 8).map (fun i => at8 a (2 * i) * 256 + at8 a (2 * i + 1))

/-- longest run of zero segments (first one on ties): (start, len) -/
def longestZeroRun (segs : List Nat) : Nat × Nat :=
  let r := segs.zipIdx.foldl
    (fun (acc : (Nat × Nat) × (Nat × Nat)) (p : Nat × Nat) =>
      let (longest, current) := acc
      if p.1 = 0 then
        let cur : Nat × Nat := if current.2 = 0 then (p.2, 1) else (current.1, current.2 + 1)
        (if cur.2 > longest.2 then cur else longest, cur)
      else (longest, (0, 0)))
    ((0, 0), (0, 0))
  r.1

def joinColon (l : List Nat) : Bytes :=
  match l with
  | [] => []
  | x :: t => t.foldl (fun acc y => acc ++ [58] ++ hexNoPad y) (hexNoPad x)

/-- `Display` of `Ipv6Addr` (RFC 5952 as implemented by Rust's core::net) -/
def showV6 (a : Bytes) : Bytes :=
  let segs := v6Segments a
  if segs.take 5 = [0, 0, 0, 0, 0] ∧ segs.getD 5 1 = 65535 then
    "::ffff:".toUTF8.toList ++ showV4 (a.drop 12)
  else
    let (st, len) := longestZeroRun segs
    if len > 1 then joinColon (segs.take st) ++ [58, 58] ++ joinColon (segs.drop (st + len))
    else joinColon segs

def showIp : Ip → Bytes
  | .v4 a => showV4 a
  | .v6 a => showV6 a

/-- universal address "<ip>.<port hi>.<port lo>" -/
def uaddr (ip : Ip) (port : Nat) : Bytes :=
  showIp ip ++ [46] ++ natDec (port / 256) ++ [46] ++ natDec (port % 256)

def rpcPortmap (s : RpcSt) (ip : Ip) (port : Nat) : Except Site Bytes :=
  if s.procedure = 3 then
    if s.progVersion = 2 then .ok ([0, 0, 0, 0] ++ u32be port)
    else if s.progVersion = 3 ∨ s.progVersion = 4 then .ok ([0, 0, 0, 0] ++ xdrString (uaddr ip port))
    else .error .rpcVersion
  else if s.procedure = 4 then
    let netid : Bytes := if ip.isV4 then "tcp".toUTF8.toList else "tcp6".toUTF8.toList
    let entry (v : Nat) : Except Site Bytes :=
      if s.progVersion = 2 then .ok ([0, 0, 0, 1] ++ u32be 100000 ++ u32be v ++ u32be 6 ++ u32be port)
      else if s.progVersion = 3 ∨ s.progVersion = 4 then
        .ok ([0, 0, 0, 1] ++ u32be 100000 ++ u32be v ++ xdrString netid ++ xdrString (uaddr ip port)
             ++ xdrString Gen.rpcOwner)
      else .error .rpcVersion
    match entry 2, entry 3, entry 4 with
    | .ok a, .ok b, .ok c => .ok ([0, 0, 0, 0] ++ a ++ b ++ c ++ [0, 0, 0, 0])
    | .error e, _, _ => .error e
    | _, .error e, _ => .error e
    | _, _, .error e => .error e
  else .ok [0, 0, 0, 3]

/-- `build_repl` -/
def rpcBuild (s : RpcSt) (ci : ClientInfo) : Except Site Bytes :=
  let hdr := u32be s.xid ++ [0, 0, 0, 1, 0, 0, 0, 0, 0, 0, 0, 0, 0, 0, 0, 0]
  if s.progVersion < 2 ∨ s.progVersion > 4 then .ok (hdr ++ [0, 0, 0, 2, 0, 0, 0, 2, 0, 0, 0, 4])
  else if s.procedure = 0 then .ok (hdr ++ [0, 0, 0, 0])
  else if s.program = 100000 then
    match ci.ipDst, ci.portDst with
    | some ip, some port =>
      match rpcPortmap s ip port with
      | .error e => .error e
      | .ok body => .ok (hdr ++ body)
    | _, _ => .error .arith          -- `.unwrap()` on an absent address/port (never absent)
  else .ok (hdr ++ [0, 0, 0, 1])

/-- `repl_tcp` from a given parser state -/
def rpcReplTcp (ovf : Bool) (s : RpcSt) (ci : ClientInfo) (d : Bytes) : Except Site (RpcSt × Option Bytes) :=
  match rpcParse ovf s d with
  | .error e => .error e
  | .ok s' =>
    if s'.state = .done then
      match rpcBuild s' ci with
      | .error e => .error e
      | .ok resp =>
        let l := resp.length
        -- the call has been answered: the stored parser state is reset (`*pstate = ProtocolState::new()`),
        -- the next call on the connection is parsed from scratch
        .ok ({}, some ([byte (l / 16777216 % 256 + (if l / 16777216 % 256 < 128 then 128 else 0)),
                        byte (l / 65536), byte (l / 256), byte l] ++ resp))
    else .ok (s', none)

/-- `repl_udp` -/
def rpcReplUdp (ovf : Bool) (ci : ClientInfo) (d : Bytes) : Except Site (Option Bytes) :=
  match rpcParse ovf { state := .xid, lastFrag := true, fragLen := d.length } d with
  | .error e => .error e
  | .ok s' =>
    if s'.state = .done then
      match rpcBuild s' ci with
      | .error e => .error e
      | .ok resp => .ok (some resp)
    else .ok none

end Masscanned
