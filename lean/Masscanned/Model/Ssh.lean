/-
  Model/Ssh — src/proto/ssh.rs: banner FSM with CR look-behind (`i -= 1`), reply only in EOB.
  A fresh state is used for every call (the Rust handler ignores the TCB).
-/
import Masscanned.Model.Basic
import Masscanned.Model.Http
namespace Masscanned

inductive SshSt where
  | pre (n : Nat)          -- S1, S2, H, DASH  (n = 0..3); START is `pre 0` (no byte consumed)
  | version | software | comment
  | lfSw | lfCm            -- SSH_STATE_LF with prev_state = SOFTWARE / COMMENT
  | eob | fail
  deriving DecidableEq, Repr, Inhabited

def sshMagic : List UInt8 := [83, 83, 72, 45]   -- "SSH-"

def sshSwStep (b : UInt8) : SshSt := if b = 13 then .lfSw else if b = 32 then .comment else .software
def sshCmStep (b : UInt8) : SshSt := if b = 13 then .lfCm else .comment

def sshByte (s : SshSt) (b : UInt8) : SshSt :=
  match s with
  | .pre n => if sshMagic[n]? = some b then (if n = 3 then .version else .pre (n + 1)) else .fail
  | .version => if b = 45 then .software else if !isDigit b && b ≠ 46 then .fail else .version
  | .software => sshSwStep b
  | .comment => sshCmStep b
  | .lfSw => if b = 10 then .eob else sshSwStep b     -- `i -= 1`: the byte is read again
  | .lfCm => if b = 10 then .eob else sshCmStep b
  | .eob => .eob
  | .fail => .fail

/-- the loop of `ssh_parse`, keeping the absolute index so that `i -= 1` is a checked operation -/
def sshLoop : SshSt → Bytes → Nat → Except Site SshSt
  | s, [], _ => .ok s
  | s, b :: t, pos =>
    if (s = .lfSw ∨ s = .lfCm) ∧ b ≠ 10 ∧ pos = 0 then .error .sshCursor
    else sshLoop (sshByte s b) t (pos + 1)

def sshBanner : Bytes := "SSH-2.0-1\r\n".toUTF8.toList

def sshRepl (d : Bytes) : Except Site (Option Bytes) :=
  match sshLoop (.pre 0) d 0 with
  | .error e => .error e
  | .ok s => .ok (if s = .eob then some sshBanner else none)

end Masscanned
