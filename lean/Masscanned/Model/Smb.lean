/-
  Model/Smb — src/proto/smb.rs: NetBIOS session framing, SMB1/SMB2 header + Negotiate /
  Session-Setup dissectors (fixed layouts, read byte-at-a-time by the code; a message that ends
  before the dissector reaches its End state is not answered), and the replies.
  After the D10 fix the SMB2 dialect list is complete when DialectCount entries were read.
-/
import Masscanned.Model.Basic
namespace Masscanned

def SECURITY_BLOB_NEG_PROTO : Bytes := [96, 130, 1, 60, 6, 6, 43, 6, 1, 5, 5, 2, 160, 130, 1, 48, 48, 130, 1, 44, 160, 26, 48, 24, 6, 10, 43, 6, 1, 4, 1, 130, 55, 2, 2, 30, 6, 10, 43, 6, 1, 4, 1, 130, 55, 2, 2, 10, 162, 130, 1, 12, 4, 130, 1, 8, 78, 69, 71, 79, 69, 88, 84, 83, 1, 0, 0, 0, 0, 0, 0, 0, 96, 0, 0, 0, 112, 0, 0, 0, 49, 60, 42, 58, 199, 43, 60, 169, 109, 172, 56, 116, 167, 221, 29, 91, 244, 82, 107, 23, 3, 138, 75, 145, 194, 9, 125, 154, 143, 230, 44, 150, 92, 81, 36, 47, 144, 77, 71, 199, 173, 143, 135, 107, 34, 2, 191, 198, 0, 0, 0, 0, 0, 0, 0, 0, 96, 0, 0, 0, 1, 0, 0, 0, 0, 0, 0, 0, 0, 0, 0, 0, 92, 51, 83, 13, 234, 249, 13, 77, 178, 236, 74, 227, 120, 110, 195, 8, 78, 69, 71, 79, 69, 88, 84, 83, 3, 0, 0, 0, 1, 0, 0, 0, 64, 0, 0, 0, 152, 0, 0, 0, 49, 60, 42, 58, 199, 43, 60, 169, 109, 172, 56, 116, 167, 221, 29, 91, 92, 51, 83, 13, 234, 249, 13, 77, 178, 236, 74, 227, 120, 110, 195, 8, 64, 0, 0, 0, 88, 0, 0, 0, 48, 86, 160, 84, 48, 82, 48, 39, 128, 37, 48, 35, 49, 33, 48, 31, 6, 3, 85, 4, 3, 19, 24, 84, 111, 107, 101, 110, 32, 83, 105, 103, 110, 105, 110, 103, 32, 80, 117, 98, 108, 105, 99, 32, 75, 101, 121, 48, 39, 128, 37, 48, 35, 49, 33, 48, 31, 6, 3, 85, 4, 3, 19, 24, 84, 111, 107, 101, 110, 32, 83, 105, 103, 110, 105, 110, 103, 32, 80, 117, 98, 108, 105, 99, 32, 75, 101, 121]
def SECURITY_BLOB_CHALLENGE : Bytes := [161, 129, 156, 48, 129, 153, 160, 3, 10, 1, 1, 161, 12, 6, 10, 43, 6, 1, 4, 1, 130, 55, 2, 2, 10, 162, 129, 131, 4, 129, 128, 78, 84, 76, 77, 83, 83, 80, 0, 2, 0, 0, 0, 8, 0, 8, 0, 56, 0, 0, 0, 21, 130, 138, 226, 36, 145, 168, 246, 243, 137, 45, 52, 0, 0, 0, 0, 0, 0, 0, 0, 64, 0, 64, 0, 64, 0, 0, 0, 10, 0, 97, 74, 0, 0, 0, 15, 87, 0, 73, 0, 78, 0, 49, 0, 2, 0, 8, 0, 87, 0, 73, 0, 78, 0, 49, 0, 1, 0, 8, 0, 87, 0, 73, 0, 78, 0, 49, 0, 4, 0, 8, 0, 87, 0, 73, 0, 78, 0, 49, 0, 3, 0, 8, 0, 87, 0, 73, 0, 78, 0, 49, 0, 7, 0, 8, 0, 255, 38, 57, 245, 66, 29, 216, 1, 0, 0, 0, 0]

def EPOCH_1601 : Nat := 11644473600

/-- FILETIME written by the negotiate replies -/
def smbTime (env : Env) : Nat := (EPOCH_1601 + env.unixSecs) * 10000000

/-! ### SMB1 -/

/-- the Dialects state of `SMB1NegotiateRequest::parse`: `i` counts bytes, a dialect ends at a
    NUL byte, and End is reached iff such a NUL is the `byte_count`-th byte.  Returns the dialect
    strings when End is reached. -/
def smb1Dialects (byteCount : Nat) : Bytes → Nat → Option Bytes → List Bytes → Option (List Bytes)
  | [], _, _, _ => none
  | b :: t, i, tmp, acc =>
    match tmp with
    | some s =>
      if b = 0 then
        if i + 1 = byteCount then some (acc ++ [s]) else smb1Dialects byteCount t (i + 1) none (acc ++ [s])
      else smb1Dialects byteCount t (i + 1) (some (s ++ [b])) acc
    | none => smb1Dialects byteCount t (i + 1) (some []) acc

def indexOf? (l : List Bytes) (x : Bytes) : Option Nat :=
  let i := l.findIdx (· = x)
  if i < l.length then some i else none

/-- dialect index chosen by the SMB1 negotiate reply -/
def smb1DialectIndex (ds : List Bytes) : Nat :=
  match indexOf? ds "NT LM 0.12".toUTF8.toList with
  | some i => i
  | none => match indexOf? ds "SMB 2.???".toUTF8.toList with
    | some i => i
    | none => match indexOf? ds "SMB 2.002".toUTF8.toList with
      | some i => i
      | none => 0

def smb1NegotiateReply (env : Env) (ds : List Bytes) : Bytes :=
  [17] ++ u16le (smb1DialectIndex ds % 65536) ++ [3] ++ u16le 50 ++ u16le 50 ++ u32le 65536 ++ u32le 65536
  ++ u32le 0 ++ u32le 0x8001e3fc ++ u64le (smbTime env) ++ u16le 60 ++ [0]
  ++ u16le (SECURITY_BLOB_NEG_PROTO.length + 16) ++ zeros 16 ++ SECURITY_BLOB_NEG_PROTO

def nativeOs : Bytes := [87, 0, 105, 0, 110, 0, 100, 0, 111, 0, 119, 0, 115, 0, 32, 0, 52, 0, 46, 0, 48, 0, 0, 0]

def smb1SessionSetupReply : Bytes :=
  [4, 255, 0] ++ u16le 0x44 ++ u16le 0 ++ u16le SECURITY_BLOB_CHALLENGE.length
  ++ u16le (SECURITY_BLOB_CHALLENGE.length + nativeOs.length + nativeOs.length)
  ++ SECURITY_BLOB_CHALLENGE ++ nativeOs ++ nativeOs

/-- payload reply of an SMB1 message body `p` (bytes after the 32-byte header) -/
def smb1Payload (env : Env) (command : Nat) (p : Bytes) : Option Bytes :=
  if command = 0x72 then
    if p.length < 3 then none else
    match smb1Dialects (rdLE (slice p 1 2)) (p.drop 3) 0 none [] with
    | some ds => some (smb1NegotiateReply env ds)
    | none => none
  else if command = 0x73 then
    if p.length < 27 then none else
    let secLen := rdLE (slice p 15 2)
    if secLen ≥ 1 ∧ (p.drop 27).length ≥ secLen then some smb1SessionSetupReply else none
  else none

/-- `SMB1Header` parse + repl on the bytes after the NetBIOS header -/
def smb1Message (env : Env) (m : Bytes) : Option Bytes :=
  if m.length < 33 then none else      -- the payload object is created by the first byte after the header
  let command := at8 m 4
  let flags := at8 m 9
  if flags ≥ 128 then none else
  match smb1Payload env command (m.drop 32) with
  | none => none
  | some body =>
    some ([255, 83, 77, 66, byte command] ++ u32le 0 ++ [0x98] ++ u16le 0xc807 ++ slice m 12 2 ++ zeros 8 ++ zeros 2
          ++ slice m 24 2 ++ slice m 26 2 ++ slice m 28 2 ++ slice m 30 2 ++ body)

/-! ### SMB2 -/

def smb2Versions : List Nat := [0x0202, 0x0210, 0x02ff, 0x0300, 0x0302, 0x0310, 0x0311]

/-- read `n` little-endian 16-bit dialects -/
def smb2Dialects : Nat → Bytes → Option (List Nat)
  | 0, _ => some []
  | n + 1, a :: b :: t =>
    match smb2Dialects n t with
    | some l => some ((a.toNat + 256 * b.toNat) :: l)
    | none => none
  | _ + 1, _ => none

def smb2NegotiateReply (env : Env) (dialect : Nat) (guid : Bytes) : Bytes :=
  u16le 0x41 ++ u16le 1 ++ u16le dialect ++ u16le 1 ++ guid ++ u32le 1 ++ u32le 65536 ++ u32le 65536 ++ u32le 65536
  ++ u64le (smbTime env) ++ u64le (smbTime env) ++ u16le 0x80 ++ u16le SECURITY_BLOB_NEG_PROTO.length ++ u32le 0
  ++ SECURITY_BLOB_NEG_PROTO

def smb2SessionSetupReply : Bytes :=
  u16le 9 ++ u16le 0 ++ u16le 0x48 ++ u16le SECURITY_BLOB_CHALLENGE.length ++ SECURITY_BLOB_CHALLENGE

def smb2Payload (env : Env) (command : Nat) (p : Bytes) : Option Bytes :=
  if command = 0 then
    if p.length < 36 then none else
    let count := rdLE (slice p 2 2)
    if count = 0 then none else
    match smb2Dialects count (p.drop 36) with
    | none => none
    | some ds =>
      match smb2Versions.find? (fun v => ds.contains v) with
      | none => none
      | some v => some (smb2NegotiateReply env v (slice p 12 16))
  else if command = 1 then
    if p.length < 24 then none else
    let secLen := rdLE (slice p 14 2)
    if secLen ≥ 1 ∧ (p.drop 24).length ≥ secLen then some smb2SessionSetupReply else none
  else none

def smb2Message (env : Env) (m : Bytes) : Option Bytes :=
  if m.length < 65 then none else
  let command := rdLE (slice m 12 2)
  let flags := rdLE (slice m 16 4)
  if flags % 2 = 1 then none else
  match smb2Payload env command (m.drop 64) with
  | none => none
  | some body =>
    some ([254, 83, 77, 66] ++ u16le 64 ++ u16le 0 ++ u32le 0 ++ u16le command ++ u16le 1 ++ u32le 1 ++ u32le 0
          ++ slice m 24 8 ++ slice m 32 8 ++ slice m 40 8 ++ zeros 16 ++ body)

/-- NetBIOS session wrapper of a reply -/
def nbtWrap (r : Bytes) : Bytes :=
  let size := r.length % 131072
  [0, byte (size / 65536)] ++ u16be (size % 65536) ++ r

def smb1Repl (env : Env) (d : Bytes) : Option Bytes :=
  match smb1Message env (d.drop 4) with
  | some r => some (nbtWrap r)
  | none => none

def smb2Repl (env : Env) (d : Bytes) : Option Bytes :=
  match smb2Message env (d.drop 4) with
  | some r => some (nbtWrap r)
  | none => none

end Masscanned
