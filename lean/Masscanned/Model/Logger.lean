/-
  Model/Logger — the text the two loggers (src/logger/console.rs, src/logger/logfmt.rs) print for
  one event, without the wall-clock prefix (`<secs>.<millis>\t` resp. `ts=<secs>.<millis> `).

  An event `e : Ev` carries the client-info snapshot handed to the logger.  The remaining columns
  are read from the packet handed to the logger: the received packet for `recv` / `drop`, the reply
  under construction for `send`.  Every field the loggers read from the reply is final when they
  are called, so the packet is recovered from the received frame `f` resp. the emitted frame `r`.

  Display tables of pnet (`EtherType`, `IpNextHeaderProtocol`) are regenerated from the running code
  (Gen/LogNames.lean).
-/
import Masscanned.Model.Net
import Masscanned.Gen.LogNames
namespace Masscanned
open Gen

def ascii (s : String) : Bytes := s.toUTF8.toList

def layerText : Layer → Bytes
  | .eth => ascii "eth" | .arp => ascii "arp" | .ipv4 => ascii "ipv4" | .ipv6 => ascii "ipv6"
  | .icmpv4 => ascii "icmpv4" | .icmpv6 => ascii "icmpv6" | .tcp => ascii "tcp" | .udp => ascii "udp"

def verbText : Verb → Bytes
  | .recv => ascii "recv" | .drop => ascii "drop" | .send => ascii "send"

def hex2 (n : Nat) : Bytes := [(hexDigit (n / 16 % 16)).toUInt8, (hexDigit (n % 16)).toUInt8]

/-- `Display` of pnet's `MacAddr`: six two-digit lower-case hex groups -/
def showMac (m : Bytes) : Bytes :=
  hex2 (at8 m 0) ++ [58] ++ hex2 (at8 m 1) ++ [58] ++ hex2 (at8 m 2) ++ [58] ++
  hex2 (at8 m 3) ++ [58] ++ hex2 (at8 m 4) ++ [58] ++ hex2 (at8 m 5)

/-- `Display` of pnet's `EtherType` -/
def showEtherType (t : Nat) : Bytes :=
  match etherTypeNames.find? (·.1 = t) with
  | some (_, n) => n
  | none => ascii "unknown"

/-- `Display` of pnet's `IpNextHeaderProtocol` -/
def showIpProto (p : Nat) : Bytes := ipProtoNames.getD p (ascii "unknown")

/-- `Debug` of a pnet newtype: `Name(value)` -/
def showWrapped (name : String) (v : Nat) : Bytes := ascii name ++ [40] ++ natDec v ++ [41]

/-- the transport-layer packet inside a frame (received or emitted), as pnet delimits it -/
def l4OfFrame (fr : Bytes) : Bytes :=
  let l3 := fr.drop 14
  if rdBE (slice fr 12 2) = 0x0800 then ipv4Payload l3 else ipv6Payload l3

/-- the columns after the client info: (logfmt key, printed value) -/
def extraCols (f r : Bytes) (e : Ev) : List (String × Bytes) :=
  let fr := if e.verb = .send then r else f
  let l3 := fr.drop 14
  let l4 := l4OfFrame fr
  match e.layer with
  | .eth => [("eth_type", showEtherType (rdBE (slice fr 12 2)))]
  | .ipv4 => [("next_proto", showIpProto (at8 l3 9))]
  | .ipv6 => [("next_proto", showIpProto (at8 l3 6))]
  | .icmpv4 => [("icmp_type", showWrapped "IcmpType" (at8 l4 0)), ("icmp_code", showWrapped "IcmpCode" (at8 l4 1))]
  | .icmpv6 => [("icmpv6_type", showWrapped "Icmpv6Type" (at8 l4 0)), ("icmpv6_code", showWrapped "Icmpv6Code" (at8 l4 1))]
  | .tcp => [("flags", natDec (tcpFlags l4)), ("seq", natDec (rdBE (slice l4 4 4))), ("ack", natDec (rdBE (slice l4 8 4)))]
  | .udp => []
  | .arp => []

def optCol (o : Option Bytes) : Bytes := o.getD []

/-- the seven client-info columns -/
def ciCols (c : ClientInfo) : List (String × Option Bytes) :=
  [("mac_src", c.macSrc.map showMac), ("mac_dst", c.macDst.map showMac),
   ("ip_src", c.ipSrc.map showIp), ("ip_dst", c.ipDst.map showIp),
   ("transport", c.transport.map showIpProto),
   ("port_src", c.portSrc.map natDec), ("port_dst", c.portDst.map natDec)]

def joinWith (sep : Bytes) : List Bytes → Bytes
  | [] => []
  | [x] => x
  | x :: t => x ++ sep ++ joinWith sep t

/-- ARP events: the four addresses as put into the event (console order: client first) and the operation -/
def arpCols (e : Ev) : List Bytes :=
  [optCol (e.ci.macSrc.map showMac), optCol (e.ci.macDst.map showMac),
   optCol (e.ci.ipSrc.map showIp), optCol (e.ci.ipDst.map showIp),
   showWrapped "ArpOperation" (e.ci.transport.getD 0)]

/-- console logger: `proto \t verb \t` then the columns, tab separated, then LF.
    The client info is printed with a TAB after each of its seven columns; UDP prints nothing after it. -/
def consoleLine (f r : Bytes) (e : Ev) : Bytes :=
  let head := layerText e.layer ++ [9] ++ verbText e.verb ++ [9]
  if e.layer = .arp then head ++ joinWith [9] (arpCols e) ++ [10]
  else
    let ci := (ciCols e.ci).foldr (fun c acc => optCol c.2 ++ [9] ++ acc) []
    head ++ ci ++ joinWith [9] ((extraCols f r e).map (·.2)) ++ [10]

/-- logfmt logger: `proto=… verb=… ` then ` key=value` for every present client-info field and every
    extra column, then LF.  The ARP `send` line labels the addresses from the reply's point of view. -/
def logfmtLine (f r : Bytes) (e : Ev) : Bytes :=
  let head := ascii "proto=" ++ layerText e.layer ++ ascii " verb=" ++ verbText e.verb ++ [32]
  let kv (k : String) (v : Bytes) : Bytes := [32] ++ ascii k ++ [61] ++ v
  if e.layer = .arp then
    let a := arpCols e
    let keys := if e.verb = .send then ["mac_dst", "mac_src", "ip_dst", "ip_src", "op"]
                else ["mac_src", "mac_dst", "ip_src", "ip_dst", "op"]
    head ++ (keys.zip a).foldr (fun p acc => kv p.1 p.2 ++ acc) [] ++ [10]
  else
    let ci := (ciCols e.ci).foldr (fun c acc => (match c.2 with | some v => kv c.1 v | none => []) ++ acc) []
    let ex := (extraCols f r e).foldr (fun c acc => kv c.1 c.2 ++ acc) []
    head ++ ci ++ ex ++ [10]

/-- what the configured logger prints for one frame: one line per event -/
def logLines (k : LoggerKind) (f : Bytes) (out : Option Bytes) (evs : List Ev) : List Bytes :=
  let r := out.getD []
  match k with
  | .none => []
  | .console => evs.map (consoleLine f r)
  | .logfmt => evs.map (logfmtLine f r)

end Masscanned
