/-
  Model/SmackCompile — the *compile* half of src/smack/smack.rs: `add_pattern`, `compile`
  (symbol table, stage0 prefixes/trie, stage1 failure links, stage2 link fails, row swap for the
  start anchor, stage3 sort of the match rows, stage4 final table, `fixup_wildcards`).

  The theorems about the matcher are stated over the tables *dumped from the running code*
  (`Gen/*.lean`, regenerated on every check); this file is the hand-written model of how the
  code computes those tables.  It is tied to the code by (1) `mdriver compile-check`: the table
  this model computes from the registered patterns equals the dumped table, field by field, on
  every C10 run, and (2) the `Y` op: the real `Smack::compile` and this model are run on the
  same generated pattern sets and their dumps are compared.

  Every loop of the Rust code that is not a `for` over a fixed range takes explicit fuel here;
  running out of fuel is reported as an error, never as a result.  Index errors of the Rust code
  (`m_state_table[r]`, `symbol_to_char[symbol]`, …) are `Except.error` too.
-/
import Masscanned.Model.Smack
namespace Masscanned
namespace SmackCompile

def alphabetSize : Nat := 258
def failState : Nat := 0xFFFFFFFF
def charAnchorStart : Nat := 256

/-- `SmackPattern` (bytes as `Nat`s below 256) -/
structure Pat where
  id : Nat
  pattern : List Nat
  anchorBegin : Bool
  anchorEnd : Bool
  wildcards : Bool
  deriving Repr, DecidableEq

/-- `u8::to_ascii_lowercase` -/
def lower (c : Nat) : Nat := if 65 ≤ c ∧ c ≤ 90 then c + 32 else c

/-- the mutable part of `struct Smack` during compilation -/
structure St where
  goto : Array (Array Nat)          -- m_state_table[r].next_state
  fail : Array Nat                  -- m_state_table[r].fail
  mids : Array (List Nat)           -- m_match[r].m_ids  (m_count = length, maintained by copy_matches)
  stateCount : Nat
  s2c : Array Nat                   -- symbol_to_char
  c2s : Array Nat                   -- char_to_symbol (u8)
  symbolCount : Nat
  deriving Repr

abbrev M := Except String

def rd (a : Array Nat) (i : Nat) (what : String) : M Nat :=
  match a[i]? with
  | some x => .ok x
  | none => .error ("index " ++ what)

def St.gt (s : St) (r a : Nat) : M Nat :=
  match s.goto[r]? with
  | some row => rd row a "goto column"
  | none => .error "index goto row"

def St.setGoto (s : St) (r a h : Nat) : M St :=
  match s.goto[r]? with
  | some row =>
    if a < row.size then .ok { s with goto := s.goto.set! r (row.set! a h) } else .error "index set_goto column"
  | none => .error "index set_goto row"

def St.gf (s : St) (r : Nat) : M Nat := rd s.fail r "fail"

def St.setFail (s : St) (r h : Nat) : M St :=
  if r < s.fail.size then .ok { s with fail := s.fail.set! r h } else .error "index set_goto_fail"

def St.ids (s : St) (r : Nat) : M (List Nat) :=
  match s.mids[r]? with
  | some l => .ok l
  | none => .error "index m_match"

/-- `SmackMatches::copy_matches` -/
def copyMatches (cur new : List Nat) : List Nat :=
  new.foldl (fun acc id => if acc.contains id then acc else acc ++ [id]) cur

def St.copyInto (s : St) (r : Nat) (new : List Nat) : M St :=
  match s.mids[r]? with
  | some l => .ok { s with mids := s.mids.set! r (copyMatches l new) }
  | none => .error "index m_match"

/-- `add_symbol` -/
def addSymbol (s : St) (c : Nat) : M St :=
  if ((List.range s.symbolCount).any fun i => s.s2c.getD (i + 1) 0 == c) then .ok s
  else
    let sym := s.symbolCount + 1
    if sym < s.s2c.size ∧ c < s.c2s.size then
      .ok { s with symbolCount := sym, s2c := s.s2c.set! sym c, c2s := s.c2s.set! c (sym % 256) }
    else .error "index add_symbol"

def addSymbols (nocase : Bool) (s : St) (p : List Nat) : M St :=
  p.foldlM (fun s c => addSymbol s (if nocase then lower c else c)) s

/-- `add_prefixes` -/
def addPrefixes (s : St) (p : Pat) : M St := do
  let mut s := s
  let mut state := baseState
  if p.anchorBegin then state ← s.gt state charAnchorStart
  -- the two `while` loops: walk while a transition exists, then create the missing states
  let mut creating := false
  for c in p.pattern do
    if !creating then
      let g ← s.gt state c
      if g != failState then state := g else creating := true
    if creating then
      let n := s.stateCount
      s ← ({ s with stateCount := n + 1 } : St).setGoto state c n
      state := n
  if p.anchorEnd then
    let n := s.stateCount
    s ← ({ s with stateCount := n + 1 } : St).setGoto state charAnchorEnd n
    state := n
  s.copyInto state [p.id]

/-- `stage0_compile_prefixes` -/
def stage0 (s : St) (stateMax : Nat) (anchorBegin : Bool) (pats : List Pat) : M St := do
  let mut s := { s with stateCount := 1,
                        goto := (Array.range stateMax).map fun _ => Array.replicate alphabetSize failState }
  if anchorBegin then
    let n := s.stateCount
    s ← ({ s with stateCount := n + 1 } : St).setGoto baseState charAnchorStart n
  for p in pats do s ← addPrefixes s p
  for a in List.range alphabetSize do
    if (← s.gt baseState a) == failState then s ← s.setGoto baseState a baseState
  return s

/-- the inner `while self.goto(f, a) == FAIL_STATE { f = self.goto_fail(f) }` -/
def failWalk (s : St) (a : Nat) : Nat → Nat → M Nat
  | 0, _ => .error "fuel failWalk"
  | fuel + 1, f => do
    if (← s.gt f a) == failState then failWalk s a fuel (← s.gf f) else return f

/-- `stage1_generate_fails`; the queue is a list, `fuel` bounds the number of dequeues -/
def stage1Loop (s : St) : Nat → List Nat → M St
  | _, [] => .ok s
  | 0, _ :: _ => .error "fuel stage1"
  | fuel + 1, r :: q => do
    let mut s := s
    let mut q := q
    for a in List.range alphabetSize do
      let t ← s.gt r a
      if t == failState then continue
      if t == r then continue
      q := q ++ [t]
      let f ← failWalk s a (s.stateCount + 2) (← s.gf r)
      let g ← s.gt f a
      s ← s.setFail t g
      let m ← s.ids g
      if m.length > 0 then s ← s.copyInto t m
    stage1Loop s fuel q

def stage1 (s : St) : M St := do
  let mut s := s
  let mut q : List Nat := []
  for a in List.range alphabetSize do
    let t ← s.gt baseState a
    if t != baseState then
      q := q ++ [t]
      s ← s.setFail t baseState
  stage1Loop s (s.stateCount + 2) q

/-- `stage2_link_fails` -/
def stage2Loop (s : St) : Nat → List Nat → M St
  | _, [] => .ok s
  | 0, _ :: _ => .error "fuel stage2"
  | fuel + 1, r :: q => do
    let mut s := s
    let mut q := q
    for a in List.range alphabetSize do
      let t ← s.gt r a
      if t == failState then s ← s.setGoto r a (← s.gt (← s.gf r) a)
      else if t == r then pure ()
      else q := q ++ [t]
    stage2Loop s fuel q

def stage2 (s : St) : M St := do
  let mut q : List Nat := []
  for a in List.range alphabetSize do
    let t ← s.gt baseState a
    if t != baseState then q := q ++ [t]
  stage2Loop s (s.stateCount + 2) q

/-- `swap_rows` (rows, fail links and match lists are exchanged, then every transition is relabelled) -/
def swapRows (s : St) (r1 r2 : Nat) : M St := do
  if r1 == r2 then throw "swap_rows on one row (the Rust code blanks it)"
  let (some a1, some a2) := (s.goto[r1]?, s.goto[r2]?) | throw "index swap_rows"
  let (some f1, some f2) := (s.fail[r1]?, s.fail[r2]?) | throw "index swap_rows"
  let (some m1, some m2) := (s.mids[r1]?, s.mids[r2]?) | throw "index swap_rows"
  let g := (s.goto.set! r1 a2).set! r2 a1
  let relabel (x : Nat) : Nat := if x == r1 then r2 else if x == r2 then r1 else x
  let g := (Array.range g.size).map fun i =>
    let row := g.getD i #[]
    if i < s.stateCount then row.map relabel else row
  return { s with goto := g, fail := (s.fail.set! r1 f2).set! r2 f1, mids := (s.mids.set! r1 m2).set! r2 m1 }

def cntOf (s : St) (r : Nat) : Nat := (s.mids.getD r []).length

/-- `stage3_sort`; returns the state and `m_match_limit` -/
def stage3Loop (s : St) : Nat → Nat → Nat → M (St × Nat)
  | 0, _, _ => .error "fuel stage3"
  | fuel + 1, start, stop => do
    -- while start < end && count[start] == 0 { start += 1 }
    let start := Id.run do
      let mut st := start
      for _ in List.range (stop - start) do
        if st < stop ∧ cntOf s st == 0 then st := st + 1
      return st
    let stop := Id.run do
      let mut e := stop
      for _ in List.range (stop - start) do
        if start < e ∧ cntOf s (e - 1) != 0 then e := e - 1
      return e
    if start ≥ stop then return (s, start)
    let s ← swapRows s start (stop - 1)
    stage3Loop s fuel start stop

def rowShiftOf (symbolCount : Nat) : Nat := Id.run do
  let mut rs := 1
  for _ in List.range 64 do
    if 2 ^ rs < symbolCount + 1 then rs := rs + 1
  return rs

/-- the compiled automaton, as `verif_dump` prints it -/
structure Compiled where
  nocase : Bool
  anchorBegin : Bool
  anchorEnd : Bool
  rowShift : Nat
  stateCount : Nat
  matchLimit : Nat
  matchLen : Nat
  symbolCount : Nat
  c2s : Array Nat
  trans : Array Nat
  mids : Array (List Nat)
  pats : List Pat
  deriving Repr

def Compiled.tbl (c : Compiled) : SmackTbl :=
  { rowShift := c.rowShift, transLen := c.trans.size, matchLen := c.matchLen, matchLimit := c.matchLimit,
    c2s := fun x => c.c2s.getD x 0, trans := fun k => c.trans.getD k 0,
    cnt := fun r => (c.mids.getD r []).length, ids := fun r => c.mids.getD r [] }

/-- `while offset < j { self.search_next(&mut row, &p.pattern[..j], &mut offset) }` -/
def fixupWalk (c : Compiled) (pre : Bytes) : Nat → Nat → Nat → M Nat
  | 0, _, _ => .error "fuel fixup"
  | fuel + 1, row, offset =>
    if offset < pre.length then
      match c.tbl.searchNext row (pre.drop offset) with
      | .error _ => .error "index search_next (fixup_wildcards)"
      | .ok (_, st, used) => fixupWalk c pre fuel st (offset + used)
    else .ok row

/-- `fixup_wildcards` -/
def fixupWildcards (c : Compiled) : M Compiled := do
  let mut c := c
  let rowSize := 2 ^ c.rowShift
  let base := if c.anchorBegin then unanchoredState else baseState
  for p in c.pats do
    if !p.wildcards then continue
    for j in List.range p.pattern.length do
      if p.pattern.getD j 0 != 42 then continue
      let pre : Bytes := (p.pattern.take j).map fun x => UInt8.ofNat x
      let row ← fixupWalk c pre (4 * j + 1024) 0 0
      let row := row % 16777216
      let star := c.c2s.getD 42 0
      let some next := c.trans[row * rowSize + star]? | throw "index fixup next_pattern"
      for k in List.range rowSize do
        let some t := c.trans[row * rowSize + k]? | throw "index fixup row"
        if t == base then c := { c with trans := c.trans.set! (row * rowSize + k) next }
  return c

def mkPat (nocase : Bool) (id : Nat) (pattern : List Nat) (ab ae wc : Bool) : Pat :=
  { id := id, pattern := if nocase then pattern.map lower else pattern, anchorBegin := ab, anchorEnd := ae, wildcards := wc }

/-- `Smack::new` + `add_pattern`* + `compile` -/
def compile (nocase : Bool) (raw : List Pat) : M Compiled := do
  let pats := raw.map fun p => mkPat nocase p.id p.pattern p.anchorBegin p.anchorEnd p.wildcards
  let ab := pats.any (·.anchorBegin)
  let ae := pats.any (·.anchorEnd)
  let mut s : St := { goto := #[], fail := #[], mids := #[], stateCount := 0,
                      s2c := Array.replicate alphabetSize 0, c2s := Array.replicate alphabetSize 0, symbolCount := 0 }
  for p in pats do s ← addSymbols nocase s p.pattern
  -- compile()
  if ab then s ← addSymbol s charAnchorStart
  if ae then s ← addSymbol s charAnchorEnd
  if nocase then
    for i in List.range 26 do
      s := { s with c2s := s.c2s.set! (65 + i) (s.c2s.getD (97 + i) 0) }
  let stateMax := pats.foldl (fun n p => n + (if p.anchorBegin then 1 else 0) + (if p.anchorEnd then 1 else 0) + p.pattern.length) 1
  s := { s with fail := Array.replicate stateMax 0, mids := Array.replicate stateMax [] }
  s ← stage0 s stateMax ab pats
  s ← stage1 s
  s ← stage2 s
  if ab then s ← swapRows s baseState unanchoredState
  let (s', limit) ← stage3Loop s (s.stateCount + 2) 0 s.stateCount
  s := s'
  -- stage4_make_final_table
  let rs := rowShiftOf s.symbolCount
  let cols := 2 ^ rs
  let mut trans : Array Nat := Array.replicate (s.stateCount * cols) 0
  for row in List.range s.stateCount do
    for ch in List.range alphabetSize do
      let sym := s.c2s.getD ch 0
      let t ← s.gt row ch
      if row * cols + sym < trans.size then trans := trans.set! (row * cols + sym) t
      else throw "index transitions"
  fixupWildcards { nocase := nocase, anchorBegin := ab, anchorEnd := ae, rowShift := rs, stateCount := s.stateCount,
                   matchLimit := limit, matchLen := stateMax, symbolCount := s.symbolCount, c2s := s.c2s,
                   trans := trans, mids := s.mids, pats := pats }

/-- the lines of `Smack::verif_dump` (without the `name` line) -/
def Compiled.dump (c : Compiled) : List String :=
  let cols := 2 ^ c.rowShift
  let rows := c.trans.size / cols
  let b (x : Bool) : String := if x then "1" else "0"
  let hex2 (n : Nat) : String := String.ofList [hexDigit (n / 16), hexDigit (n % 16)]
  ["nocase " ++ b c.nocase, "anchor_begin " ++ b c.anchorBegin, "anchor_end " ++ b c.anchorEnd,
   "row_shift " ++ toString c.rowShift, "rows " ++ toString rows, "state_count " ++ toString c.stateCount,
   "match_limit " ++ toString c.matchLimit, "match_len " ++ toString c.matchLen,
   "symbol_count " ++ toString c.symbolCount,
   "char_to_symbol" ++ String.join (c.c2s.toList.map fun x => " " ++ toString x)] ++
  (List.range rows).map (fun r =>
    "row " ++ toString r ++ String.join ((List.range cols).map fun k => " " ++ toString (c.trans.getD (r * cols + k) 0))) ++
  (List.range rows).map (fun r =>
    let l := c.mids.getD r []
    "match " ++ toString r ++ " " ++ toString l.length ++ String.join (l.map fun i => " " ++ toString i)) ++
  c.pats.map (fun p =>
    "pattern " ++ toString p.id ++ " " ++ b p.anchorBegin ++ " " ++ b p.anchorEnd ++ " " ++ b p.wildcards ++ " " ++
      String.join (p.pattern.map hex2))

/-! ### the two ties to the code (driven by `mdriver`) -/

def ofGen (l : List (Nat × Bool × Bool × Bool × List Nat)) : List Pat :=
  l.map fun (id, ab, ae, wc, bs) => { id := id, pattern := bs, anchorBegin := ab, anchorEnd := ae, wildcards := wc }

/-- field-by-field comparison of the table this model computes with a table dumped from the code
    (`Gen/*.lean`); the list of differences, empty when they agree -/
def Compiled.diff (c : Compiled) (T : SmackTbl) (nrows symc : Nat) : List String :=
  let cols := 2 ^ c.rowShift
  (if c.rowShift != T.rowShift then ["row_shift"] else []) ++
  (if c.stateCount != nrows then ["state_count"] else []) ++
  (if c.matchLimit != T.matchLimit then ["match_limit"] else []) ++
  (if c.matchLen != T.matchLen then ["match_len"] else []) ++
  (if c.symbolCount != symc then ["symbol_count"] else []) ++
  (if c.trans.size != T.transLen then ["transitions.len"] else []) ++
  ((List.range 258).filter (fun x => c.c2s.getD x 0 != T.c2s x)).map (fun x => s!"char_to_symbol[{x}]") ++
  ((List.range (nrows * cols)).filter (fun k => c.trans.getD k 0 != T.trans k)).map
    (fun k => s!"transitions[{k / cols}][{k % cols}]: model {c.trans.getD k 0}, code {T.trans k}") ++
  ((List.range nrows).filter (fun r => c.mids.getD r [] != T.ids r ∨ (c.mids.getD r []).length != T.cnt r)).map
    (fun r => s!"m_match[{r}]")

/-- `Y <nocase> <id>:<flags>:<hex>,…`  (flags: 1 anchor begin, 2 anchor end, 4 wildcards) -/
def parseY (line : String) : Option (Bool × List Pat) :=
  match line.trimAscii.toString.splitOn " " with
  | ["Y", nc, ps] =>
    let one (t : String) : Option Pat :=
      match t.splitOn ":" with
      | [i, f, h] =>
        match i.toNat?, f.toNat?, unhexList h.toList with
        | some i, some f, some b =>
          some { id := i, pattern := b.map (·.toNat), anchorBegin := f % 2 == 1, anchorEnd := (f / 2) % 2 == 1,
                 wildcards := (f / 4) % 2 == 1 }
        | _, _, _ => none
      | _ => none
    (ps.splitOn ",").mapM one |>.map fun l => (nc == "1", l)
  | _ => none

end SmackCompile
end Masscanned
