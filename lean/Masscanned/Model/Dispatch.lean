/-
  Model/Dispatch — src/proto/mod.rs `repl` (protocol identification + handler call) and the
  per-flow control block of src/proto/tcb.rs.
-/
import Masscanned.Model.Smack
import Masscanned.Model.Http
import Masscanned.Model.Ssh
import Masscanned.Model.Stun
import Masscanned.Model.Rpc
import Masscanned.Model.Dns
import Masscanned.Model.Smb
import Masscanned.Gen.ProtoSmack
import Masscanned.Gen.GhostBlob
namespace Masscanned

def PROTO_NONE : Nat := 0
def PROTO_HTTP : Nat := 1
def PROTO_STUN : Nat := 2
def PROTO_SSH : Nat := 3
def PROTO_GHOST : Nat := 4
def PROTO_RPC_TCP : Nat := 5
def PROTO_RPC_UDP : Nat := 6
def PROTO_SMB1 : Nat := 7
def PROTO_SMB2 : Nat := 8

def protoTbl : SmackTbl := Gen.ProtoSmack.tbl

inductive PState where
  | http (s : HttpSt)
  | rpc (s : RpcSt)
  deriving DecidableEq, Repr

structure Tcb where
  smackState : Nat := baseState
  protoId : Nat := PROTO_NONE
  protoState : Option PState := none
  deriving DecidableEq, Repr

/-- the handler call of `proto::repl` once `id` is known -/
def protoHandle (cfg : Cfg) (env : Env) (id : Nat) (ci : ClientInfo) (tcb : Option Tcb) (d : Bytes) :
    Except Site (ClientInfo × Option Tcb × Option Bytes) :=
  if id = PROTO_HTTP then
    match tcb with
    | none =>
      match httpRepl env {} d with
      | .error e => .error e
      | .ok (_, r) => .ok (ci, none, r)
    | some t =>
      match t.protoState with
      | some (.rpc _) => .error .protoStateMismatch
      | ps =>
        let s : HttpSt := match ps with | some (.http s) => s | _ => {}
        match httpRepl env s d with
        | .error e => .error e
        | .ok (s', r) => .ok (ci, some { t with protoState := some (.http s') }, r)
  else if id = PROTO_STUN then
    match stunRepl ci d with
    | .error e => .error e
    | .ok (ci', r) => .ok (ci', tcb, r)
  else if id = PROTO_SSH then
    match sshRepl d with
    | .error e => .error e
    | .ok r => .ok (ci, tcb, r)
  else if id = PROTO_GHOST then .ok (ci, tcb, some Gen.ghostReply)
  else if id = PROTO_RPC_TCP then
    match tcb with
    | none =>
      match rpcReplTcp cfg.ovf {} ci d with
      | .error e => .error e
      | .ok (_, r) => .ok (ci, none, r)
    | some t =>
      match t.protoState with
      | some (.http _) => .error .protoStateMismatch
      | ps =>
        let s : RpcSt := match ps with | some (.rpc s) => s | _ => {}
        match rpcReplTcp cfg.ovf s ci d with
        | .error e => .error e
        | .ok (s', r) => .ok (ci, some { t with protoState := some (.rpc s') }, r)
  else if id = PROTO_RPC_UDP then
    match rpcReplUdp cfg.ovf ci d with
    | .error e => .error e
    | .ok r => .ok (ci, tcb, r)
  else if id = PROTO_SMB1 then .ok (ci, tcb, smb1Repl env d)
  else if id = PROTO_SMB2 then .ok (ci, tcb, smb2Repl env d)
  else .ok (ci, tcb.map (fun t => { t with protoId := PROTO_NONE }), none)

/-- `proto::repl` -/
def protoRepl (cfg : Cfg) (env : Env) (ci : ClientInfo) (tcb : Option Tcb) (d : Bytes) :
    Except Site (ClientInfo × Option Tcb × Option Bytes) :=
  if ci.transport = some 6 ∧ ci.cookie = none then .ok (ci, tcb, none)
  else
    match tcb with
    | some t =>
      if t.protoId = PROTO_NONE then
        match protoTbl.searchNext t.smackState d with
        | .error e => .error e
        | .ok (id, st, _) => protoHandle cfg env id ci (some { t with protoId := id, smackState := st }) d
      else protoHandle cfg env t.protoId ci (some t) d
    | none =>
      match protoTbl.searchNext baseState d with
      | .error e => .error e
      | .ok (id, st, _) =>
        let idE : Except Site Nat :=
          if id = noMatch then
            match protoTbl.searchNextEnd st with
            | .error e => .error e
            | .ok (id', _) => .ok id'
          else .ok id
        match idE with
        | .error e => .error e
        | .ok id =>
          let dnsR : Option Bytes :=
            if id = noMatch then
              match dnsParse d with
              | some m => dnsRepl ci m
              | none => none
            else none
          match dnsR with
          | some r => .ok (ci, none, some r)
          | none => protoHandle cfg env id ci none d

end Masscanned
