/-
  Model/Stun — src/proto/stun.rs (after the fixes D3/D13/D14: a TLV that runs past the data makes
  the packet unparsable instead of panicking, attributes are skipped with their padding, and an
  attribute too short for its type is kept as a generic attribute).
-/
import Masscanned.Model.Basic
namespace Masscanned

inductive StunAttr where
  | mapped
  | changeRequest (changePort : Bool)
  | generic
  deriving DecidableEq, Repr

/-- `StunAttribute::try_from(v)`; returns the attribute and its declared length -/
def stunAttr (v : Bytes) : Option (StunAttr × Nat) :=
  if v.length < 4 then none else
  let ty := rdBE (slice v 0 2)
  let len := rdBE (slice v 2 2)
  if v.length < 4 + len then none else
  if ty = 1 ∧ len ≥ 8 ∧ at8 v 5 = 1 then some (.mapped, len)
  else if ty = 1 ∧ len ≥ 20 ∧ at8 v 5 = 2 then some (.mapped, len)
  else if ty = 3 ∧ len ≥ 4 then some (.changeRequest ((rdBE (slice v 4 4)) / 2 % 2 = 1), len)
  else some (.generic, len)

/-- `get_attributes`: `while i + 4 < data.len()`; each step skips the attribute padded to 4 bytes (D13 fix) -/
def stunAttrs : Nat → Bytes → Option (List StunAttr)
  | 0, _ => some []        -- fuel (never exhausted: every step drops ≥ 4 bytes)
  | fuel + 1, d =>
    if 4 < d.length then
      match stunAttr d with
      | none => none
      | some (a, len) =>
        match stunAttrs fuel (d.drop (4 + (len + 3) / 4 * 4)) with
        | none => none
        | some l => some (a :: l)
    else some []

structure StunReq where
  cls : Nat
  method : Nat
  id : Bytes
  attrs : List StunAttr
  deriving Repr

/-- `StunPacket::new` -/
def stunParse (d : Bytes) : Except Site (Option StunReq) :=
  if d.length < 20 then .ok none else
  let d0 := at8 d 0
  let d1 := at8 d 1
  let cls := (d0 % 2) * 2 + (d1 / 16 % 2)
  -- `(((data[0] & 0b00111110) as u16) << 7) | ((data[1] & 0b11101111) as u16)` (after fix D15)
  let method := (d0 / 2 % 32) * 256 + (d1 / 32 % 8) * 32 + d1 % 16
  let len := rdBE (slice d 2 2)
  if d.length < 20 + len then .ok none else
  if 20 + len > 65535 then .error .stunOverflow      -- `(20 + length) as usize` in u16
  else
    match stunAttrs (len + 1) (slice d 20 len) with
    | none => .ok none
    | some attrs => .ok (some { cls := cls, method := method, id := slice d 4 16, attrs := attrs })

def stunMapped (ip : Ip) (port : Nat) : Bytes :=
  match ip with
  | .v4 a => [0, 1, 0, 8, 0, 1] ++ u16be port ++ a
  | .v6 a => [0, 1, 0, 20, 0, 2] ++ u16be port ++ a

/-- `stun::repl`; returns the (possibly rewritten) client info and the reply -/
def stunRepl (ci : ClientInfo) (d : Bytes) : Except Site (ClientInfo × Option Bytes) :=
  match stunParse d with
  | .error e => .error e
  | .ok none => .ok (ci, none)
  | .ok (some req) =>
    if req.cls ≠ 0 then .ok (ci, none)
    else if req.method ≠ 1 then .ok (ci, none)
    else
      match ci.ipSrc, ci.portSrc with
      | some ip, some port =>
        let bumps := (req.attrs.filter (fun a => a = .changeRequest true)).length
        let ci' := { ci with portDst := ci.portDst.map (fun p => (p + bumps) % 65536) }
        let attr := stunMapped ip port
        .ok (ci', some ([1, 1] ++ u16be attr.length ++ req.id ++ attr))
      | _, _ => .ok (ci, none)

end Masscanned
