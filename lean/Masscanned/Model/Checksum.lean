/-
  Model/Checksum — pnet's Internet checksum helpers (`pnet_packet::util`), as read from the source:
  `sum_be_words` adds big-endian 16-bit words (an odd trailing byte counts as `b << 8`),
  `finalize_checksum` folds the carries and complements.
-/
import Masscanned.Model.Basic
namespace Masscanned

def sumWords : Bytes → Nat
  | [] => 0
  | [a] => a.toNat * 256
  | a :: b :: t => a.toNat * 256 + b.toNat + sumWords t

def fold16 (x : Nat) : Nat :=
  if _h : x < 65536 then x else fold16 (x / 65536 + x % 65536)
termination_by x
decreasing_by omega

/-- `finalize_checksum`: `!(folded sum) as u16` -/
def finalize (s : Nat) : Nat := 65535 - fold16 s

/-- IPv4 pseudo-header contribution: addresses, protocol number, L4 length -/
def pseudoSum (src dst : Bytes) (proto len : Nat) : Nat :=
  sumWords src + sumWords dst + proto + len

/-- checksum of an ICMP message / IPv4 header whose checksum field is (still) zero -/
def csumPlain (pkt : Bytes) : Nat := finalize (sumWords pkt)

/-- checksum of a TCP/UDP/ICMPv6 message whose checksum field is zero, with pseudo-header -/
def csumPseudo (src dst : Bytes) (proto : Nat) (pkt : Bytes) : Nat :=
  finalize (pseudoSum src dst proto pkt.length + sumWords pkt)

/-- write a 16-bit big-endian value at byte offset `off` -/
def setU16 (pkt : Bytes) (off v : Nat) : Bytes :=
  pkt.take off ++ u16be v ++ pkt.drop (off + 2)

end Masscanned
