/-
  Model/Smack — the *search* half of src/smack/smack.rs (`search_next`, `search_next_end`,
  `inner_match`) over a compiled table.  The table itself (`Smack::compile`) is not modelled:
  it is dumped from the running code and regenerated as `Gen/*.lean` on every run.
-/
import Masscanned.Model.Basic
namespace Masscanned

def noMatch : Nat := 18446744073709551615   -- usize::MAX
def baseState : Nat := 0
def unanchoredState : Nat := 1
def charAnchorEnd : Nat := 257

/-- a compiled automaton, as dumped from the implementation -/
structure SmackTbl where
  rowShift : Nat
  /-- `transitions.len()` -/
  transLen : Nat
  /-- `m_match.len()` -/
  matchLen : Nat
  matchLimit : Nat
  /-- `char_to_symbol[c]` for c in 0..257 (256, 257 = the two anchor pseudo-characters) -/
  c2s : Nat → Nat
  trans : Nat → Nat
  /-- `m_match[row].m_count` -/
  cnt : Nat → Nat
  /-- `m_match[row].m_ids` -/
  ids : Nat → List Nat

namespace SmackTbl

/-- `inner_match`: consume bytes until a row ≥ match_limit is entered (that byte is *not*
    counted) or the input ends. Returns (bytes consumed, row). -/
def innerMatch (T : SmackTbl) : Nat → Bytes → Nat → Except Site (Nat × Nat)
  | row, [], idx => .ok (idx, row)
  | row, b :: t, idx =>
    let k := row * 2 ^ T.rowShift + T.c2s b.toNat
    if k < T.transLen then
      let row' := T.trans k
      if row' ≥ T.matchLimit then .ok (idx, row') else innerMatch T row' t (idx + 1)
    else .error .smackIndex

/-- `search_next(&mut state, data[offset..], &mut i)` with `d = data[offset..]`;
    returns (id, new state, bytes consumed). -/
def searchNext (T : SmackTbl) (state : Nat) (d : Bytes) : Except Site (Nat × Nat × Nat) :=
  let row0 := state % 16777216
  let cm0 := state / 16777216
  let phase1 : Except Site (Nat × Nat × Nat) :=
    if cm0 = 0 then
      match innerMatch T row0 d 0 with
      | .error e => .error e
      | .ok (ii, row) =>
        if row < T.matchLen then
          if T.cnt row ≠ 0 then .ok (ii + 1, row, T.cnt row) else .ok (ii, row, 0)
        else .error .smackIndex
    else .ok (0, row0, cm0)
  match phase1 with
  | .error e => .error e
  | .ok (i, row, cm) =>
    if cm ≠ 0 then
      if row < T.matchLen then
        match (T.ids row)[cm - 1]? with
        | some id => .ok (id, row + (cm - 1) * 16777216, i)
        | none => .error .smackIds
      else .error .smackIndex
    else .ok (noMatch, row, i)

/-- `search_next_end(&mut state)`; returns (id, new state) -/
def searchNextEnd (T : SmackTbl) (state : Nat) : Except Site (Nat × Nat) :=
  let row := state % 16777216
  let cm := state / 16777216
  if cm = 255 then .ok (noMatch, state)
  else if cm ≠ 0 then
    if row < T.matchLen then
      match (T.ids row)[cm - 1]? with
      | some id => .ok (id, row + (cm - 1) * 16777216)
      | none => .error .smackIds
    else .error .smackIndex
  else
    let k := row * 2 ^ T.rowShift + T.c2s charAnchorEnd
    if k < T.transLen then
      let row' := T.trans k
      if row' < T.matchLen then
        if T.cnt row' = 0 then .ok (noMatch, state)
        else
          match (T.ids row')[T.cnt row' - 1]? with
          | some id => .ok (id, row' + (T.cnt row' - 1) * 16777216)
          | none => .error .smackIds
      else .error .smackIndex
    else .error .smackIndex

end SmackTbl
end Masscanned
