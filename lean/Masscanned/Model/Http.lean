/-
  Model/Http — src/proto/http.rs: `http_parse` (verb matcher phase + byte FSM) and `repl`.
  The verb/uri byte vectors of the Rust state are only used as log arguments (after the D4
  fix they cannot panic) and are not carried by the model.
-/
import Masscanned.Model.Smack
import Masscanned.Gen.HttpSmack
import Masscanned.Gen.Texts
namespace Masscanned

inductive HSt where
  | start | verb | space | uri
  | lit (k : Nat)          -- H, T1, T2, P, SLASH  (k = 0..4)
  | vmaj | vmin | fstart | fname | fvalue | content | fail
  deriving DecidableEq, Repr, Inhabited

structure HttpSt where
  state : HSt := .start
  smackState : Nat := baseState
  smackId : Nat := noMatch
  deriving DecidableEq, Repr, Inhabited

def isDigit (b : UInt8) : Bool := 48 ≤ b && b ≤ 57

def httpLit : List UInt8 := [72, 84, 84, 80, 47]   -- "HTTP/"

/-- one byte of the FSM in the states after the verb -/
def httpByte (s : HSt) (b : UInt8) : HSt :=
  match s with
  | .space => if b = 32 then .uri else .fail
  | .uri => if b ≠ 32 then .uri else .lit 0
  | .lit k => if httpLit[k]? = some b then (if k = 4 then .vmaj else .lit (k + 1)) else .fail
  | .vmaj => if b = 46 then .vmin else if !isDigit b then .fail else .vmaj
  | .vmin => if b = 13 then .vmin else if b = 10 then .fstart else if !isDigit b then .fail else .vmin
  | .fstart => if b = 13 then .fstart else if b = 10 then .content else .fname
  | .fname => if b = 13 ∨ b = 10 then .fail else if b = 58 then .fvalue else .fname
  | .fvalue => if b = 13 then .fvalue else if b = 10 then .fstart else .fvalue
  | s => s

def httpFold (s : HSt) (d : Bytes) : HSt := d.foldl httpByte s

def httpTbl : SmackTbl := Gen.HttpSmack.tbl

/-- the loop of `http_parse` while in START / VERB state; `pos` is the absolute index `i`.
    One iteration = one call of `search_next` (which may consume many bytes). -/
def httpVerbLoop : Nat → HttpSt → Bytes → Nat → Except Site HttpSt
  | 0, _, _, _ => .error .httpCursor        -- fuel exhausted (shown unreachable)
  | fuel + 1, ps, d, pos =>
    if d = [] then .ok ps else
    match httpTbl.searchNext ps.smackState d with
    | .error e => .error e
    | .ok (id, st', n) =>
      if n > d.length then .error .httpSlice            -- `&data[i_save..i]`
      else if pos + n = 0 then .error .httpCursor        -- `i -= 1`
      else
        let ps := { ps with smackState := st', smackId := id }
        if id = 0 then
          .ok { ps with state := httpFold .space (d.drop n) }
        else if id = noMatch then
          if st' = unanchoredState then .ok { ps with state := .fail }
          else httpVerbLoop fuel ps (d.drop n) (pos + n)
        else httpVerbLoop fuel ps (d.drop n) (pos + n)

def httpParse (ps : HttpSt) (d : Bytes) : Except Site HttpSt :=
  match ps.state with
  | .start | .verb =>
    if d = [] then .ok ps    -- loop body never runs: state stays START
    else httpVerbLoop (2 * d.length + 300) { ps with state := .verb } d 0
  | s => .ok { ps with state := httpFold s d }

def natDec (n : Nat) : Bytes := (toString n).toUTF8.toList

/-- the body and the header text come from the running code (Gen/Texts.lean); the Content-Length value is
    computed from the body, as the code does -/
def httpContent : Bytes := Gen.httpContent

def httpReplyBytes (env : Env) : Bytes :=
  Gen.httpHead1 ++ env.httpDate ++ Gen.httpHead2 ++ natDec httpContent.length ++ Gen.httpHead3 ++ httpContent

/-- `http::repl` given the parser state to start from; returns the new state and the reply -/
def httpRepl (env : Env) (ps : HttpSt) (d : Bytes) : Except Site (HttpSt × Option Bytes) :=
  match httpParse ps d with
  | .error e => .error e
  | .ok ps' =>
    -- the request has been answered: the stored parser state is reset (`*pstate = ProtocolState::new()`),
    -- the next request on the connection is parsed from scratch
    if ps'.state = .content then .ok ({}, some (httpReplyBytes env)) else .ok (ps', none)

end Masscanned
