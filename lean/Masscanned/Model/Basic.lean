/-
  Model/Basic — byte strings, integer (de)serialisation, configuration, client info, events.
  Mathlib-free, executable.  Fixed-width integers of the Rust code are `Nat`s here with
  explicit reduction (`% 2^k`) exactly where Rust wraps or truncates (`as u16`, wrapping_add).
-/
namespace Masscanned

abbrev Bytes := List UInt8

/-- big-endian read of a byte string -/
def rdBE (b : Bytes) : Nat := b.foldl (fun a x => a * 256 + x.toNat) 0

/-- little-endian read of a byte string -/
def rdLE : Bytes → Nat
  | [] => 0
  | x :: t => x.toNat + 256 * rdLE t

def byte (n : Nat) : UInt8 := UInt8.ofNat (n % 256)

def u16be (n : Nat) : Bytes := [byte (n / 256), byte n]
def u32be (n : Nat) : Bytes := [byte (n / 16777216), byte (n / 65536), byte (n / 256), byte n]
def u16le (n : Nat) : Bytes := [byte n, byte (n / 256)]
def u32le (n : Nat) : Bytes := [byte n, byte (n / 256), byte (n / 65536), byte (n / 16777216)]
def u64le (n : Nat) : Bytes := u32le (n % 4294967296) ++ u32le (n / 4294967296)

def slice (b : Bytes) (off len : Nat) : Bytes := (b.drop off).take len

/-- byte at a fixed offset (used only below the minimum size checked by the `new?` of a view) -/
def at8 (b : Bytes) (i : Nat) : Nat := (b.getD i 0).toNat

def zeros (n : Nat) : Bytes := List.replicate n 0

def hexDigit (n : Nat) : Char :=
  if n < 10 then Char.ofNat (48 + n) else Char.ofNat (87 + n)

def hexOf (b : Bytes) : String :=
  String.ofList (b.foldr (fun x acc => hexDigit (x.toNat / 16) :: hexDigit (x.toNat % 16) :: acc) [])

def unhexDigit (c : Char) : Option Nat :=
  if '0' ≤ c ∧ c ≤ '9' then some (c.toNat - 48)
  else if 'a' ≤ c ∧ c ≤ 'f' then some (c.toNat - 87)
  else if 'A' ≤ c ∧ c ≤ 'F' then some (c.toNat - 55)
  else none

def unhexList : List Char → Option Bytes
  | [] => some []
  | [_] => none
  | a :: b :: t =>
    match unhexDigit a, unhexDigit b, unhexList t with
    | some x, some y, some r => some (byte (x * 16 + y) :: r)
    | _, _, _ => none

def unhex (s : String) : Option Bytes :=
  if s == "-" then some [] else unhexList s.toList

/-! ### addresses and configuration -/

inductive Ip where
  | v4 (a : Bytes)
  | v6 (a : Bytes)
  deriving DecidableEq, Repr, Inhabited

def Ip.bytes : Ip → Bytes
  | .v4 a => a
  | .v6 a => a

def Ip.isV4 : Ip → Bool
  | .v4 _ => true
  | .v6 _ => false

inductive LoggerKind where
  | none | console | logfmt
  deriving DecidableEq, Repr, Inhabited

/-- log levels as in the `log` crate: 0 off, 1 error, 2 warn, 3 info, 4 debug, 5 trace -/
structure Cfg where
  mac : Bytes
  selfIps : Option (List Ip)
  deny : Option (List Ip)
  k0 : UInt64
  k1 : UInt64
  logger : LoggerKind
  level : Nat
  /-- overflow checks on (debug profile) -/
  ovf : Bool
  deriving Repr, Inhabited

/-- wall-clock inputs (opaque to the model) -/
structure Env where
  /-- the text `Utc::now().to_rfc2822()` -/
  httpDate : Bytes
  /-- `SystemTime::now()` as seconds since the Unix epoch (SMB FILETIME) -/
  unixSecs : Nat
  deriving Repr, Inhabited

def Cfg.isSelf (cfg : Cfg) (ip : Ip) : Bool :=
  match cfg.selfIps with
  | none => true
  | some l => l.contains ip

def Cfg.isDenied (cfg : Cfg) (ip : Ip) : Bool :=
  match cfg.deny with
  | none => false
  | some l => l.contains ip

/-! ### client info and events -/

structure ClientInfo where
  macSrc : Option Bytes := none
  macDst : Option Bytes := none
  ipSrc : Option Ip := none
  ipDst : Option Ip := none
  transport : Option Nat := none
  portSrc : Option Nat := none
  portDst : Option Nat := none
  cookie : Option Nat := none
  deriving DecidableEq, Repr, Inhabited

inductive Layer where
  | eth | arp | ipv4 | ipv6 | icmpv4 | icmpv6 | tcp | udp
  deriving DecidableEq, Repr, Inhabited

inductive Verb where
  | recv | drop | send
  deriving DecidableEq, Repr, Inhabited

/-- one logger notification; `ci` is the client-info snapshot printed with it
    (ARP events print the ARP addresses instead: they are put in `ci` the same way) -/
structure Ev where
  layer : Layer
  verb : Verb
  ci : ClientInfo
  deriving DecidableEq, Repr, Inhabited

/-- panic sites of the Rust code that the model keeps as checked operations -/
inductive Site where
  | smackIndex | smackIds | httpCursor | httpSlice | sshCursor
  | protoStateMismatch | rpcVersion | rpcUnderflow | rpcOverflow
  | stunOverflow | stunAttr | dnsIndex | smbIndex | udpLen | setPayload | arith
  deriving DecidableEq, Repr, Inhabited

end Masscanned
