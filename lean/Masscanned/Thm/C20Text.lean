/-
  C20, text level — "Both output formats (console, logfmt) obey this and emit one syntactically
  complete line per event."

  `Model/Logger` gives the text the two loggers print for one event (`consoleLine`, `logfmtLine`, with
  the final LF, without the wall-clock prefix); `Spec/LogText` is an independent reader of the two line
  formats (`parseConsole`, `parseLogfmt`), the one that judges the real program's stdout.  Proved here:

  1. `console_one_line`, `logfmt_one_line`, `logLines_count`: for EVERY event (no hypothesis) the line
     ends with its only LF and otherwise consists of visible ASCII and TAB (console) resp. printable
     ASCII (logfmt); `n` events give exactly `n` lines (`n` LF bytes on stdout).
  2. `console_roundtrip`, 3. `logfmt_roundtrip`: for every timestamp and every event whose addresses have
     the right length (`wfText`; ARP events of the `arpCi` shape) the reader returns `canon e`: the
     event itself, except for what the text does not carry — the cookie, and the next-protocol number
     when pnet prints it as `unknown`.  This includes absent fields (empty console column / omitted
     logfmt key), UDP lines (nothing after the last TAB), the doubled space after `verb=…`, and the ARP
     `send` line of logfmt whose labels are swapped by the logger and swapped back by the reader.
  4. `parseDec_natDec`, `parseMac_showMac`, `parseV4_showV4`, `parseV6_showV6` (all three RFC 5952 shapes),
     `parseTransport_showIpProto`, with the obligations on the regenerated Display tables
     (`ipProtoNames_*`, `etherTypeNames_ok`), checked by evaluation on `Gen.ipProtoNames` /
     `Gen.etherTypeNames` themselves.
  5. `step_events_wf`: every event of `step` is well-formed (`wfEv`, which also bounds the numeric
     fields); `log_text_tells_what_happened`: the lines printed for a processed frame, each prefixed
     with any timestamp, are all read back, and the events read satisfy `Spec.judgeC20`
     (`Spec.wellNested`, `Spec.terminalMatchesReply`, `Spec.fieldsOfFrame`).

  Helper lemmas: Proofs/C20Text/{Ascii,Split,Fields,Names,V6,V6b,Lines,Console,Logfmt,Logfmt2,Logfmt3,Wf}.lean.
-/
import Masscanned.Proofs.C20Text.Logfmt3
import Masscanned.Proofs.C20Text.Wf
import Masscanned.Thm.C20
namespace Masscanned.C20Text
open Masscanned Spec.LogText Gen

/-! ## definitions used in the statements -/

/-- the next-protocol number the printed name gives back: the number itself when pnet has a proper
    name for it, nothing when it is printed `unknown` -/
def nameBack (p : Nat) : Option Nat := if showIpProto p = ascii "unknown" then none else some p

/-- what a line determines of its event: everything but the cookie (never printed) and a next-protocol
    number without a name; the ARP operation (printed as a number) is kept exactly -/
def canon (e : Ev) : Ev :=
  { e with ci := { e.ci with
      cookie := none,
      transport := if e.layer = .arp then e.ci.transport else e.ci.transport.bind nameBack } }

/-- hypothesis of the round trip: MAC addresses of 6 bytes, IPv4 / IPv6 addresses of 4 / 16 bytes; an
    ARP event carries the four addresses (IPv4) and the operation, and no ports (`arpCi`) -/
def wfText (e : Ev) : Bool :=
  (match e.ci.macSrc with | some m => m.length == 6 | none => true) &&
  (match e.ci.macDst with | some m => m.length == 6 | none => true) &&
  (match e.ci.ipSrc with | some (.v4 a) => a.length == 4 | some (.v6 a) => a.length == 16 | none => true) &&
  (match e.ci.ipDst with | some (.v4 a) => a.length == 4 | some (.v6 a) => a.length == 16 | none => true) &&
  (e.layer != .arp ||
    (e.ci.macSrc.isSome && e.ci.macDst.isSome &&
     (match e.ci.ipSrc with | some (.v4 _) => true | _ => false) &&
     (match e.ci.ipDst with | some (.v4 _) => true | _ => false) &&
     e.ci.transport.isSome && e.ci.portSrc.isNone && e.ci.portDst.isNone))

/-- full well-formedness, as `step` guarantees it: `wfText`, next protocol < 256 (ARP operation < 65536),
    ports < 65536.  (The numeric bounds are not needed for the round trip.) -/
def wfEv (e : Ev) : Bool :=
  wfText e &&
  (match e.ci.transport with | some p => decide (p < (if e.layer = .arp then 65536 else 256)) | none => true) &&
  (match e.ci.portSrc with | some p => decide (p < 65536) | none => true) &&
  (match e.ci.portDst with | some p => decide (p < 65536) | none => true)

theorem canon_eq (e : Ev) : canon e = canonP e := rfl

theorem wfText_eq (e : Ev) : wfText e = wfTextP e := by
  obtain ⟨l, v, ⟨ms, md, is, i4, tr, ps, pd, ck⟩⟩ := e
  cases ms <;> cases md <;> rcases is with _ | _ | _ <;> rcases i4 with _ | _ | _ <;> rfl

theorem wfEv_eq (e : Ev) : wfEv e = wfEvP e := by
  unfold wfEv wfEvP
  rw [wfText_eq]
  obtain ⟨l, v, ⟨ms, md, is, i4, tr, ps, pd, ck⟩⟩ := e
  cases tr <;> cases ps <;> cases pd <;> rfl

theorem wfEv_wfText {e : Ev} (h : wfEv e = true) : wfText e = true := by
  simp only [wfEv, Bool.and_eq_true] at h
  exact h.1.1.1

/-- `canon` is idempotent and does not touch layer, verb, addresses and ports -/
theorem canon_fields (e : Ev) :
    (canon e).layer = e.layer ∧ (canon e).verb = e.verb ∧ (canon e).ci.macSrc = e.ci.macSrc ∧
    (canon e).ci.macDst = e.ci.macDst ∧ (canon e).ci.ipSrc = e.ci.ipSrc ∧ (canon e).ci.ipDst = e.ci.ipDst ∧
    (canon e).ci.portSrc = e.ci.portSrc ∧ (canon e).ci.portDst = e.ci.portDst :=
  ⟨rfl, rfl, rfl, rfl, rfl, rfl, rfl, rfl⟩

/-! ## 4. field by field -/

/-- every printed decimal number is read back -/
theorem parseDec_natDec (n : Nat) : parseDec (natDec n) = some n := parseDec_natDec_all n

/-- a MAC address (6 bytes) printed by pnet's `Display` is read back -/
theorem parseMac_showMac (m : Bytes) (h : m.length = 6) : parseMac (showMac m) = some m :=
  parseMac_showMac6 m h

/-- an IPv4 address (4 bytes) printed by `Display` is read back -/
theorem parseV4_showV4 (a : Bytes) (h : a.length = 4) : parseV4Text (showV4 a) = some a :=
  parseV4_showV4_4 a h

/-- an IPv6 address (16 bytes) printed by `Display` (RFC 5952: `::ffff:a.b.c.d`, one `::` for the
    longest run of at least two zero groups, or eight groups) is read back -/
theorem parseV6_showV6 (a : Bytes) (h : a.length = 16) : parseV6Text (showV6 a) = some a :=
  parseV6_showV6_16 a h

theorem parseIpText_showIp (ip : Ip)
    (h : match ip with | .v4 a => a.length = 4 | .v6 a => a.length = 16) :
    parseIpText (showIp ip) = some ip := by
  apply parseIp_showIp
  cases ip <;> simpa [ipOk] using h

/-- `Name(n)` (Debug of a pnet newtype) is read back -/
theorem parseWrapped_showWrapped' (name : String) (n : Nat) :
    parseWrapped name (showWrapped name n) = some n := parseWrapped_showWrapped name n

/-! ### the regenerated Display tables

  `Gen.ipProtoNames` has 256 entries, each a non-empty word of visible ASCII without `=` (hence without
  TAB, LF, space), pairwise distinct except for the placeholder `unknown`; the names of
  `Gen.etherTypeNames` are such words too.  These are statements about the generated tables themselves
  (`decide +kernel` in Proofs/C20Text/Names.lean): regenerating the tables re-checks them. -/

theorem ipProtoNames_256 : ipProtoNames.length = 256 := ipProtoNames_length

theorem ipProtoNames_words :
    ipProtoNames.all (fun n => !n.isEmpty && n.all (fun b => (33 ≤ b.toNat && b.toNat ≤ 126) && b != 61)) = true :=
  ipProtoNames_ok

theorem ipProtoNames_unique : (ipProtoNames.filter (fun n => n != ascii "unknown")).Nodup :=
  ipProtoNames_distinct

theorem etherTypeNames_words :
    etherTypeNames.all (fun p => !p.2.isEmpty && p.2.all (fun b => (33 ≤ b.toNat && b.toNat ≤ 126) && b != 61))
      = true :=
  etherTypeNames_ok

/-- the name column is read back to `nameBack p` -/
theorem parseTransport_showIpProto' (p : Nat) : parseTransport (showIpProto p) = some (nameBack p) :=
  parseTransport_showIpProto p

/-- `nameBack` in terms of the table: the number comes back iff it has a proper name -/
theorem nameBack_eq_some (p : Nat) : nameBack p = some p ↔ ipProtoNames.getD p (ascii "unknown") ≠ ascii "unknown" := by
  unfold nameBack showIpProto
  by_cases h : ipProtoNames.getD p (ascii "unknown") = ascii "unknown"
  · rw [if_pos h]; exact ⟨fun x => (by cases x), fun x => absurd h x⟩
  · rw [if_neg h]; exact ⟨fun _ => h, fun _ => rfl⟩

/-! ## 1. one syntactically complete line per event -/

/-- the console line of ANY event ends with LF, contains no other LF, and otherwise only visible ASCII
    (`!`..`~`) and TAB -/
theorem console_one_line (f r : Bytes) (e : Ev) :
    (consoleLine f r e).getLast? = some 10 ∧ (10 : UInt8) ∉ (consoleLine f r e).dropLast ∧
    ∀ b ∈ (consoleLine f r e).dropLast, b = 9 ∨ (33 ≤ b.toNat ∧ b.toNat ≤ 126) := by
  rw [consoleLine_eq, List.dropLast_concat]
  have h := consoleBody_con f r e
  refine ⟨List.getLast?_concat, fun hm => ?_, fun b hb => ?_⟩
  · have := h 10 hm; revert this; decide
  · have := h b hb
    simp only [conOk, vis, Bool.or_eq_true, Bool.and_eq_true, decide_eq_true_eq, beq_iff_eq] at this
    rcases this with h | h
    · exact .inr h
    · exact .inl h

/-- the logfmt line of ANY event ends with LF, contains no other LF, and otherwise only printable ASCII
    (space..`~`) -/
theorem logfmt_one_line (f r : Bytes) (e : Ev) :
    (logfmtLine f r e).getLast? = some 10 ∧ (10 : UInt8) ∉ (logfmtLine f r e).dropLast ∧
    ∀ b ∈ (logfmtLine f r e).dropLast, 32 ≤ b.toNat ∧ b.toNat ≤ 126 := by
  rw [logfmtLine_eq, List.dropLast_concat]
  have h := logfmtBody_pr f r e
  refine ⟨List.getLast?_concat, fun hm => ?_, fun b hb => ?_⟩
  · have := h 10 hm; revert this; decide
  · have := h b hb
    simpa only [pr, Bool.and_eq_true, decide_eq_true_eq] using this

/-- a line with one final LF and no other contains exactly one LF -/
theorem count_lf_one {l : Bytes} (h1 : l.getLast? = some 10) (h2 : (10 : UInt8) ∉ l.dropLast) :
    l.count 10 = 1 := by
  rcases List.eq_nil_or_concat l with rfl | ⟨b, x, rfl⟩
  · cases h1
  · rw [List.concat_eq_append] at h1 h2 ⊢
    rw [List.getLast?_concat] at h1
    rw [List.dropLast_concat] at h2
    cases h1
    rw [List.count_append, List.count_eq_zero_of_not_mem h2]; rfl

/-- `n` events are logged as exactly `n` lines: `n` byte strings, each one line, `n` LF on stdout -/
theorem logLines_count (k : LoggerKind) (hk : k ≠ .none) (f : Bytes) (out : Option Bytes) (evs : List Ev) :
    (logLines k f out evs).length = evs.length ∧
    (∀ l ∈ logLines k f out evs, l.getLast? = some 10 ∧ (10 : UInt8) ∉ l.dropLast) ∧
    (logLines k f out evs).flatten.count 10 = evs.length := by
  have hone : ∀ l ∈ logLines k f out evs, l.getLast? = some 10 ∧ (10 : UInt8) ∉ l.dropLast := by
    intro l hl
    cases k with
    | none => exact absurd rfl hk
    | console =>
      simp only [logLines, List.mem_map] at hl
      obtain ⟨e, _, rfl⟩ := hl
      exact ⟨(console_one_line f _ e).1, (console_one_line f _ e).2.1⟩
    | logfmt =>
      simp only [logLines, List.mem_map] at hl
      obtain ⟨e, _, rfl⟩ := hl
      exact ⟨(logfmt_one_line f _ e).1, (logfmt_one_line f _ e).2.1⟩
  have hlen : (logLines k f out evs).length = evs.length := by
    cases k with
    | none => exact absurd rfl hk
    | console => simp [logLines]
    | logfmt => simp [logLines]
  refine ⟨hlen, hone, ?_⟩
  rw [← hlen]
  generalize logLines k f out evs = ls at hone
  induction ls with
  | nil => rfl
  | cons l t ih =>
    have h1 := hone l (by simp)
    rw [List.flatten_cons, List.count_append, count_lf_one h1.1 h1.2,
      ih (fun x hx => hone x (by simp [hx]))]
    simp; omega

/-! ## 2. / 3. the reader reads every line back -/

/-- a timestamp consists of digits and dots: no TAB, no space -/
theorem timestamp_no_sep (ts : Bytes) (h : isTimestamp ts = true) : (9 : UInt8) ∉ ts ∧ (32 : UInt8) ∉ ts :=
  ⟨timestamp_no_tab h, timestamp_no_space h⟩

/-- every console line, behind any timestamp, is read back to the event it was printed for -/
theorem console_roundtrip (ts f r : Bytes) (e : Ev) (hts : isTimestamp ts = true) (hwf : wfText e = true) :
    parseConsole (ts ++ [9] ++ (consoleLine f r e).dropLast) = some (canon e) := by
  rw [consoleLine_eq, List.dropLast_concat]
  rw [wfText_eq] at hwf
  exact console_roundtrip_P ts f r e hts hwf

/-- every logfmt line, behind any timestamp, is read back to the event it was printed for -/
theorem logfmt_roundtrip (ts f r : Bytes) (e : Ev) (hts : isTimestamp ts = true) (hwf : wfText e = true) :
    parseLogfmt ("ts=".toUTF8.toList ++ ts ++ [32] ++ (logfmtLine f r e).dropLast) = some (canon e) := by
  rw [logfmtLine_eq, List.dropLast_concat]
  rw [wfText_eq] at hwf
  exact logfmt_roundtrip_P ts f r e hts hwf

/-- consequently the two formats carry the same information -/
theorem console_logfmt_agree (ts ts' f r : Bytes) (e : Ev) (hts : isTimestamp ts = true)
    (hts' : isTimestamp ts' = true) (hwf : wfText e = true) :
    parseConsole (ts ++ [9] ++ (consoleLine f r e).dropLast) =
      parseLogfmt ("ts=".toUTF8.toList ++ ts' ++ [32] ++ (logfmtLine f r e).dropLast) := by
  rw [console_roundtrip ts f r e hts hwf, logfmt_roundtrip ts' f r e hts' hwf]

/-- the well-formedness hypothesis is needed: a 5-byte "MAC address" is printed padded with `00` and
    read back as 6 bytes -/
theorem roundtrip_needs_wf :
    parseConsole ("1.2".toUTF8.toList ++ [9] ++
      (consoleLine [] [] (ev .eth .recv { macSrc := some [1, 2, 3, 4, 5] })).dropLast) =
      some (ev .eth .recv { macSrc := some [1, 2, 3, 4, 5, 0], transport := none }) := by
  decide +kernel

/-! ## 5. composition with C20 -/

/-- every event of a processed frame is well-formed -/
theorem step_events_wf (cfg : Cfg) (env : Env) (st : Table) (f : Bytes) (o : Option Bytes)
    (hm : cfg.mac.length = 6) (h : (step cfg env st f).out = .ok o) :
    ∀ e ∈ (step cfg env st f).evs, wfEv e = true := by
  intro e he
  rw [wfEv_eq]
  exact step_events_wf_P cfg env st f o hm h e he

/-- `canon` keeps what `Spec.fieldsOfFrame` checks (a next-protocol number may only disappear) -/
theorem fieldsOfFrame_canon (f : Bytes) (e : Ev) (s : Bool) (h : Spec.fieldsOfFrame f e s = true) :
    Spec.fieldsOfFrame f (canon e) s = true := by
  unfold Spec.fieldsOfFrame at h ⊢
  by_cases ha : e.layer = .arp
  · simp only [ha, if_true] at h
    simp only [canon, ha, if_true]
    exact h
  · simp only [ha, if_false, Bool.and_eq_true] at h
    obtain ⟨⟨⟨⟨⟨⟨h1, h2⟩, h3⟩, h4⟩, h5⟩, h6⟩, h7⟩ := h
    simp only [canon, ha, if_false, Bool.and_eq_true]
    refine ⟨⟨⟨⟨⟨⟨h1, h2⟩, h3⟩, h4⟩, ?_⟩, h6⟩, h7⟩
    cases ht : e.ci.transport with
    | none => rfl
    | some p =>
      rw [ht] at h5
      simp only [Option.bind_some, nameBack]
      by_cases hn : showIpProto p = ascii "unknown"
      · rw [if_pos hn]
      · rw [if_neg hn]; exact h5

/-- the three clauses of C20 on the events read from the text -/
theorem log_text_clauses (cfg : Cfg) (env : Env) (st : Table) (f : Bytes) (o : Option Bytes)
    (hm : cfg.mac.length = 6) (h : (step cfg env st f).out = .ok o) :
    Spec.wellNested (((step cfg env st f).evs.map canon).map (fun e => (e.layer, e.verb))) = true ∧
    Spec.terminalMatchesReply f (((step cfg env st f).evs.map canon).map (fun e => (e.layer, e.verb))) o.isSome
      = true ∧
    ∀ e ∈ (step cfg env st f).evs.map canon, Spec.fieldsOfFrame f e (C20.stunFlag o) = true := by
  have hlv : ((step cfg env st f).evs.map canon).map (fun e => (e.layer, e.verb)) =
      (step cfg env st f).evs.map (fun e => (e.layer, e.verb)) := by
    rw [List.map_map]; rfl
  rw [hlv]
  refine ⟨C20.events_balanced cfg env st f o h, C20.eth_send_iff_reply cfg env st f o h, ?_⟩
  intro e he
  simp only [List.mem_map] at he
  obtain ⟨e0, he0, rfl⟩ := he
  exact fieldsOfFrame_canon f e0 _ (C20.event_fields_are_frame_fields cfg env st f o hm h e0 he0)

/-- the judge that is run on the real loggers' stdout accepts the events read from the model's text -/
theorem judge_accepts_text (cfg : Cfg) (env : Env) (st : Table) (f : Bytes) (o : Option Bytes)
    (hm : cfg.mac.length = 6) (h : (step cfg env st f).out = .ok o) :
    (Spec.judgeC20 f o ((step cfg env st f).evs.map canon)).ok = true := by
  obtain ⟨h1, h2, h3⟩ := log_text_clauses cfg env st f o hm h
  have h3' : ((step cfg env st f).evs.map canon).all (fun e => Spec.fieldsOfFrame f e (C20.stunFlag o)) = true :=
    List.all_eq_true.mpr h3
  unfold Spec.judgeC20
  simp only [h1, h2, Bool.not_true, Bool.false_eq_true, if_false]
  generalize hb : ((step cfg env st f).evs.map canon).all _ = b
  have hbt : b = true := by rw [← hb]; exact h3'
  subst hbt
  rfl

/-- a line as it appears on stdout: the logger's wall-clock prefix, then the line without its LF -/
def stamped (k : LoggerKind) (ts line : Bytes) : Bytes :=
  match k with
  | .console => ts ++ [9] ++ line.dropLast
  | .logfmt => "ts=".toUTF8.toList ++ ts ++ [32] ++ line.dropLast
  | .none => line.dropLast

/-- the reader of the configured format -/
def readLine (k : LoggerKind) (l : Bytes) : Option Ev :=
  match k with
  | .console => parseConsole l
  | .logfmt => parseLogfmt l
  | .none => none

/-- C20, text level: for every processed frame (no panic), with either logger, whatever the wall clock
    shows when each line is printed (`tss`: one timestamp per event), every line on stdout is read by
    the independent reader, the events read are the canonical forms of the events logged, and they
    satisfy the C20 judge: balanced and nested from Ethernet inwards, Ethernet terminal `send` iff a
    reply frame is emitted, addresses and ports those of the frame. -/
theorem log_text_tells_what_happened (cfg : Cfg) (env : Env) (st : Table) (f : Bytes) (o : Option Bytes)
    (hm : cfg.mac.length = 6) (h : (step cfg env st f).out = .ok o) (hk : cfg.logger ≠ .none)
    (tss : List Bytes) (hts : ∀ t ∈ tss, isTimestamp t = true)
    (hlen : tss.length = (step cfg env st f).evs.length) :
    List.zipWith (fun t l => readLine cfg.logger (stamped cfg.logger t l)) tss
        (logLines cfg.logger f o (step cfg env st f).evs) =
      ((step cfg env st f).evs.map canon).map some ∧
    (Spec.judgeC20 f o ((step cfg env st f).evs.map canon)).ok = true := by
  refine ⟨?_, judge_accepts_text cfg env st f o hm h⟩
  have hwf := step_events_wf cfg env st f o hm h
  generalize (step cfg env st f).evs = evs at hwf hlen
  have key : ∀ (rd : Bytes → Option Ev) (stp : Bytes → Bytes → Bytes) (ln : Ev → Bytes),
      (∀ t e, isTimestamp t = true → wfText e = true → rd (stp t (ln e)) = some (canon e)) →
      List.zipWith (fun t l => rd (stp t l)) tss (evs.map ln) = (evs.map canon).map some := by
    intro rd stp ln hrt
    induction evs generalizing tss with
    | nil => simp
    | cons e es ih =>
      cases tss with
      | nil => simp at hlen
      | cons t ts =>
        simp only [List.map_cons, List.zipWith_cons_cons]
        rw [hrt t e (hts t (by simp)) (wfEv_wfText (hwf e (by simp))),
          ih ts (fun x hx => hts x (by simp [hx])) (fun x hx => hwf x (by simp [hx])) (by simpa using hlen)]
  cases hl : cfg.logger with
  | none => exact absurd hl hk
  | console =>
    exact key parseConsole (fun t l => t ++ [9] ++ l.dropLast) (consoleLine f (o.getD []))
      (fun t e ht he => console_roundtrip t f _ e ht he)
  | logfmt =>
    exact key parseLogfmt (fun t l => "ts=".toUTF8.toList ++ t ++ [32] ++ l.dropLast) (logfmtLine f (o.getD []))
      (fun t e ht he => logfmt_roundtrip t f _ e ht he)

/-! ## non-vacuity -/

namespace Ex

def ts : Bytes := "1700000000.123".toUTF8.toList
def cfgC : Cfg := { Masscanned.Ex.cfg with logger := .console }
def cfgL : Cfg := { Masscanned.Ex.cfg with logger := .logfmt }

/-- ipv6.recv of an ICMPv6 echo request fe80::2 → fe80::1 -/
def e6 : Ev := ev .ipv6 .recv
  { macSrc := some Masscanned.Ex.peerMac, macDst := some Masscanned.Ex.cfg.mac,
    ipSrc := some (.v6 Ex20.peerV6), ipDst := some (.v6 Ex20.selfV6) }

/-- tcp.send of a SYN-ACK, with cookie -/
def eTcp : Ev := ev .tcp .send
  { macSrc := some Masscanned.Ex.peerMac, macDst := some Masscanned.Ex.cfg.mac,
    ipSrc := some (.v4 [10, 0, 0, 2]), ipDst := some (.v4 [10, 0, 0, 1]), transport := some 6,
    portSrc := some 40000, portDst := some 80, cookie := some 12345 }

/-- arp.send of the reply to `who-has 10.0.0.1 tell 10.0.0.2` -/
def eArp : Ev := ev .arp .send (arpCi Masscanned.Ex.peerMac Masscanned.Ex.cfg.mac [10, 0, 0, 2] [10, 0, 0, 1] 2)

/-- udp.recv of a STUN request 10.0.0.2:4660 → 10.0.0.1:3478 -/
def eUdp : Ev := ev .udp .recv
  { macSrc := some Masscanned.Ex.peerMac, macDst := some Masscanned.Ex.cfg.mac,
    ipSrc := some (.v4 [10, 0, 0, 2]), ipDst := some (.v4 [10, 0, 0, 1]), transport := some 17,
    portSrc := some 4660, portDst := some 3478 }

/-- an IPv4 event whose next protocol (200) has no name -/
def eUnk : Ev := ev .ipv4 .drop
  { macSrc := some Masscanned.Ex.peerMac, macDst := some Masscanned.Ex.cfg.mac,
    ipSrc := some (.v4 [10, 0, 0, 2]), ipDst := some (.v4 [10, 0, 0, 1]), transport := some 200 }

end Ex

-- the hypotheses hold for concrete events of every kind
example : isTimestamp Ex.ts = true := by decide +kernel
example : wfText Ex.e6 = true ∧ wfText Ex.eTcp = true ∧ wfText Ex.eArp = true ∧ wfText Ex.eUnk = true := by
  decide +kernel
example : wfEv Ex.e6 = true ∧ wfEv Ex.eTcp = true ∧ wfEv Ex.eArp = true ∧ wfEv Ex.eUnk = true := by
  decide +kernel

-- the text itself: `::` compression, empty columns for absent fields, the extra column
example : consoleLine Ex20.echo6Req [] Ex.e6 =
    "ipv6\trecv\t02:00:00:00:00:02\t02:00:00:00:00:01\tfe80::2\tfe80::1\t\t\t\tIcmpv6\n".toUTF8.toList := by
  decide +kernel
example : logfmtLine Ex20.echo6Req [] Ex.e6 =
    "proto=ipv6 verb=recv  mac_src=02:00:00:00:00:02 mac_dst=02:00:00:00:00:01 ip_src=fe80::2 ip_dst=fe80::1 next_proto=Icmpv6\n".toUTF8.toList := by
  decide +kernel
-- UDP: the console prints nothing after the last TAB; logfmt: only the client info, after the doubled space
example : consoleLine [] [] Ex.eUdp =
    "udp\trecv\t02:00:00:00:00:02\t02:00:00:00:00:01\t10.0.0.2\t10.0.0.1\tUdp\t4660\t3478\t\n".toUTF8.toList := by
  decide +kernel
example : logfmtLine [] [] Ex.eUdp =
    "proto=udp verb=recv  mac_src=02:00:00:00:00:02 mac_dst=02:00:00:00:00:01 ip_src=10.0.0.2 ip_dst=10.0.0.1 transport=Udp port_src=4660 port_dst=3478\n".toUTF8.toList := by
  decide +kernel
example : wfEv Ex.eUdp = true ∧
    parseConsole (Ex.ts ++ [9] ++ (consoleLine [] [] Ex.eUdp).dropLast) = some Ex.eUdp ∧
    parseLogfmt ("ts=".toUTF8.toList ++ Ex.ts ++ [32] ++ (logfmtLine [] [] Ex.eUdp).dropLast) = some Ex.eUdp := by
  decide +kernel
-- ARP send: console prints client first; logfmt labels the same columns from the reply's point of view
example : consoleLine Masscanned.Ex.arpReq Masscanned.Ex.arpReply Ex.eArp =
    "arp\tsend\t02:00:00:00:00:02\t02:00:00:00:00:01\t10.0.0.2\t10.0.0.1\tArpOperation(2)\n".toUTF8.toList := by
  decide +kernel
example : logfmtLine Masscanned.Ex.arpReq Masscanned.Ex.arpReply Ex.eArp =
    "proto=arp verb=send  mac_dst=02:00:00:00:00:02 mac_src=02:00:00:00:00:01 ip_dst=10.0.0.2 ip_src=10.0.0.1 op=ArpOperation(2)\n".toUTF8.toList := by
  decide +kernel

-- the reader, run on these lines (evaluation of `Spec.LogText`, independent of the theorems)
example : parseConsole (Ex.ts ++ [9] ++ (consoleLine Ex20.echo6Req [] Ex.e6).dropLast) = some Ex.e6 := by
  decide +kernel
example : parseLogfmt ("ts=".toUTF8.toList ++ Ex.ts ++ [32] ++
    (logfmtLine Masscanned.Ex.arpReq Masscanned.Ex.arpReply Ex.eArp).dropLast) = some Ex.eArp := by
  decide +kernel
-- … and the same by the theorems
example : parseConsole (Ex.ts ++ [9] ++ (consoleLine Ex20.echo6Req [] Ex.e6).dropLast) = some (canon Ex.e6) :=
  console_roundtrip _ _ _ _ (by decide +kernel) (by decide +kernel)
example : parseLogfmt ("ts=".toUTF8.toList ++ Ex.ts ++ [32] ++
    (logfmtLine Masscanned.Ex.arpReq Masscanned.Ex.arpReply Ex.eArp).dropLast) = some (canon Ex.eArp) :=
  logfmt_roundtrip _ _ _ _ (by decide +kernel) (by decide +kernel)

-- what `canon` forgets: the cookie; a next-protocol number without a name — and nothing else
example : canon Ex.e6 = Ex.e6 ∧ canon Ex.eArp = Ex.eArp := by decide +kernel
example : canon Ex.eTcp = { Ex.eTcp with ci := { Ex.eTcp.ci with cookie := none } } := by decide +kernel
example : canon Ex.eUnk = { Ex.eUnk with ci := { Ex.eUnk.ci with transport := none } } := by decide +kernel
example : nameBack 6 = some 6 ∧ nameBack 17 = some 17 ∧ nameBack 58 = some 58 ∧ nameBack 200 = none ∧
    nameBack 300 = none := by decide +kernel

-- the address readers on the three shapes of RFC 5952 text
example : showV6 [0, 0, 0, 0, 0, 0, 0, 0, 0, 0, 255, 255, 192, 0, 2, 1] = "::ffff:192.0.2.1".toUTF8.toList ∧
    parseV6Text "::ffff:192.0.2.1".toUTF8.toList = some [0, 0, 0, 0, 0, 0, 0, 0, 0, 0, 255, 255, 192, 0, 2, 1] := by
  decide +kernel
example : showV6 [0x20, 1, 0xd, 0xb8, 0, 0, 0, 0, 0, 1, 0, 0, 0, 0, 0, 1] = "2001:db8::1:0:0:1".toUTF8.toList ∧
    parseV6Text "2001:db8::1:0:0:1".toUTF8.toList = some [0x20, 1, 0xd, 0xb8, 0, 0, 0, 0, 0, 1, 0, 0, 0, 0, 0, 1] := by
  decide +kernel
example : showV6 [0x20, 1, 0xd, 0xb8, 0, 1, 0, 2, 0, 3, 0, 4, 0, 5, 0, 6] = "2001:db8:1:2:3:4:5:6".toUTF8.toList ∧
    parseV6Text "2001:db8:1:2:3:4:5:6".toUTF8.toList = some [0x20, 1, 0xd, 0xb8, 0, 1, 0, 2, 0, 3, 0, 4, 0, 5, 0, 6] := by
  decide +kernel
-- the reader rejects malformed text
example : parseV6Text "1::2::3".toUTF8.toList = none ∧ parseV4Text "1.2.3".toUTF8.toList = none ∧
    parseMac "02:00:00:00:00".toUTF8.toList = none ∧ parseDec [] = none := by decide +kernel
example : parseConsole "1.2\teth\trecv".toUTF8.toList = none ∧
    parseLogfmt "ts=1.2 proto=eth verb=recv mac_src=zz".toUTF8.toList = none := by decide +kernel

-- composition: the ARP request is answered; its four events are printed as four lines and read back
example : (step Ex.cfgC Masscanned.Ex.env [] Masscanned.Ex.arpReq).out = .ok (some Masscanned.Ex.arpReply) := by rfl
example : Ex.cfgC.mac.length = 6 ∧ Ex.cfgC.logger ≠ .none := by decide
example : (logLines .console Masscanned.Ex.arpReq (some Masscanned.Ex.arpReply)
    (step Ex.cfgC Masscanned.Ex.env [] Masscanned.Ex.arpReq).evs).length = 4 := by decide +kernel
example :
    List.zipWith (fun t l => readLine .logfmt (stamped .logfmt t l)) [Ex.ts, Ex.ts, Ex.ts, Ex.ts]
      (logLines .logfmt Masscanned.Ex.arpReq (some Masscanned.Ex.arpReply)
        (step Ex.cfgL Masscanned.Ex.env [] Masscanned.Ex.arpReq).evs) =
      ((step Ex.cfgL Masscanned.Ex.env [] Masscanned.Ex.arpReq).evs.map canon).map some :=
  (log_text_tells_what_happened Ex.cfgL Masscanned.Ex.env [] Masscanned.Ex.arpReq _ rfl (by rfl) (by decide)
    [Ex.ts, Ex.ts, Ex.ts, Ex.ts] (by decide +kernel) (by decide +kernel)).1

end Masscanned.C20Text

#print axioms Masscanned.C20Text.parseDec_natDec
#print axioms Masscanned.C20Text.parseMac_showMac
#print axioms Masscanned.C20Text.parseV4_showV4
#print axioms Masscanned.C20Text.parseV6_showV6
#print axioms Masscanned.C20Text.parseTransport_showIpProto'
#print axioms Masscanned.C20Text.ipProtoNames_unique
#print axioms Masscanned.C20Text.console_one_line
#print axioms Masscanned.C20Text.logfmt_one_line
#print axioms Masscanned.C20Text.logLines_count
#print axioms Masscanned.C20Text.console_roundtrip
#print axioms Masscanned.C20Text.logfmt_roundtrip
#print axioms Masscanned.C20Text.step_events_wf
#print axioms Masscanned.C20Text.log_text_tells_what_happened
#print axioms Masscanned.C20Text.log_text_clauses
#print axioms Masscanned.C20Text.judge_accepts_text
