/-
  Thm/C01Bound — why property C01 (Thm/C01.lean) is stated for frames of at most 4096 bytes (the capture
  buffer): without a bound on the frame size the statement is false.

  This theorem lives in its own file only because `Thm/C05` (through `Proofs/Delivery.lean`) and `Thm/C15`
  (through `Proofs/C0203/Bytes.lean`), both needed by C01, cannot be imported into one module: the two
  helper files each declare `Masscanned.rdBE_slice2`.
-/
import Masscanned.Thm.C05
open Masscanned
namespace Masscanned.C01

/-- a 65550-byte frame (Ethernet + IPv4 header with IHL 0 and total length 0xFFFF + ICMP echo request with
    65508 payload bytes) makes `reply()` panic in pnet's `set_payload` assertion, under the default
    configuration, from every table: `C05.echo4_reply_counterexample` -/
theorem c01_bound_needed (env : Env) (st : Table) :
    ∃ cfg f, cfg.mac.length = 6 ∧ f.length = 65550 ∧ (step cfg env st f).out = .error .setPayload := by
  refine ⟨C05W.cfgD, C05W.hugeHdr ++ List.replicate 65508 0x41, by decide, ?_,
    (C05.echo4_reply_counterexample (List.replicate 65508 0x41) List.length_replicate).2⟩
  have : C05W.hugeHdr.length = 42 := by decide
  rw [List.length_append, List.length_replicate, this]

#print axioms c01_bound_needed

end Masscanned.C01
