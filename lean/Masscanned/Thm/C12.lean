/-
  Thm/C12 — messages that their own protocol marks as replies are never answered by that protocol's
  responder, and cannot sustain an exchange between responders.

  1. one theorem per protocol, for all field values:
       frame level (`step`): ARP op 2, ICMPv4 type 0, ICMPv6 types 129 and 136, TCP segments with RST or
       SYN+ACK (PSH+ACK not both set) — no reply, table unchanged;
       application interface (`protoRepl` / `protoHandle`): DNS QR=1, STUN non-requests, SMB reply flag,
       ONC-RPC message type 1.
  2. the shapes of the responder's own replies (`shape_*`): every reply of the DNS, STUN (well-formed
     source address), SMB1, SMB2 and ONC-RPC/UDP responder is itself a protocol-marked reply.
  3. the chain bound: `bounce` = application reply on a fresh flow, `chain`/`chainLen` = feeding each
     reply to the next hop (vocabulary in Proofs/C12/Bounce).  `reflection_le_two`: a protocol-marked
     reply of DNS / STUN / SMB / ONC-RPC triggers at most two replies in total, whatever the hops
     (configurations, clocks, client infos, transports) — for ONC-RPC in TCP framing under the exact
     condition that record mark + xid do not spell an SSH or Gh0st signature.
     `reflection_le_two_general`: the same for EVERY payload not identified as SSH or Gh0st.
     `reflection_le_two_wf`: the same for WELL-FORMED replies (ONC-RPC/TCP: correct record mark,
     `Spec.recordMarkOk`), with no side condition: a correct record mark starts with a byte ≥ 0x80
     (`rpc_tcp_wf_not_ssh_ghost`).
  4. non-vacuity: concrete chains evaluated in the kernel.

  FALSE AT FULL STRENGTH (counterexamples machine-checked below):
  * `rpc_tcp_reply_ssh_endless`: an ONC-RPC REPLY message in TCP framing whose record mark and xid are
    the bytes "SSH-2.0-" is answered with the SSH banner, and the SSH banner is answered with the SSH
    banner by every responder (`ssh_chain`; same for the Gh0st reply, `ghost_chain`): that chain never
    ends.  Over UDP this needs no handshake: the identification is transport-agnostic.

  The dispatcher facts are corollaries of the generic, annotation-driven matcher equivalence of C10
  (no fact of the concrete compiled table is written down): Proofs/C12/Matcher (`searchNext_sound`,
  `searchNextEnd_sound`).

  Note on imports: Thm/C05 (and Proofs/Delivery) cannot be imported together with the modules that
  depend on Proofs/Bytes (Thm/C07, C14–C17): duplicate top-level declarations.  The ARP / ICMP
  statements are therefore derived from a namespaced copy of the delivery lemmas (Proofs/C12/Delivery);
  they are the C05 statements `arp_other_ops_silent`, `icmp4_other_silent`, `icmp6_other_silent`
  specialised to the reply types.
-/
import Masscanned.Proofs.C12.Frames
import Masscanned.Proofs.C12.Echo
import Masscanned.Thm.C07
import Masscanned.Thm.C09
namespace Masscanned.C12
open Masscanned Spec

variable {cfg : Cfg} {env : Env} {st : Table} {f : Bytes}

/-! ## 1a. layers 2–4, frame level -/

theorem silent_table {cfg : Cfg} {env : Env} {st : Table} {f : Bytes} (h : (step cfg env st f).out = .ok none) :
    (step cfg env st f).out = .ok none ∧ (step cfg env st f).st = st :=
  ⟨h, step_table_silent cfg env st f (fun r hr => by rw [h] at hr; cases hr)⟩

/-- an ARP reply (operation 2) gets nothing, whatever its other fields (hardware/protocol types,
    addresses, padding), and leaves the table unchanged -/
theorem arp_reply_silent (ha : Spec.isArp f = true) (hop : Spec.be16 f 20 = 2) :
    (step cfg env st f).out = .ok none ∧ (step cfg env st f).st = st := by
  simp only [Spec.isArp, Bool.and_eq_true, decide_eq_true_eq] at ha
  apply silent_table
  rw [arp_out ha.1 ha.2, if_neg (fun hc => by omega)]

/-- a deliverable ICMPv4 Echo Reply (type 0, any code, identifier, sequence number, data) gets nothing -/
theorem icmp_echo_reply_silent (hd : Spec.deliverable cfg f false 1 4 = true)
    (ht : Spec.u8 (Spec.l4Bytes f) 0 = 0) :
    (step cfg env st f).out = .ok none ∧ (step cfg env st f).st = st :=
  silent_table (icmp4_silent hd (fun hc => by omega))

/-- a deliverable ICMPv6 Echo Reply (type 129) gets nothing -/
theorem icmp6_echo_reply_silent (hd : Spec.deliverable cfg f true 58 4 = true)
    (ht : Spec.u8 (Spec.l4Bytes f) 0 = 129) :
    (step cfg env st f).out = .ok none ∧ (step cfg env st f).st = st :=
  silent_table (icmp6_silent hd (fun hc => by omega))

/-- a deliverable Neighbour Advertisement (type 136; solicited or not, any target, any option) gets nothing -/
theorem na_silent (hd : Spec.deliverable cfg f true 58 4 = true)
    (ht : Spec.u8 (Spec.l4Bytes f) 0 = 136) :
    (step cfg env st f).out = .ok none ∧ (step cfg env st f).st = st :=
  silent_table (icmp6_silent hd (fun hc => by omega))

/-- a deliverable TCP segment (IPv4 or IPv6) whose 9 flag bits contain RST, or both SYN and ACK — with
    any other flags, as long as PSH and ACK are not both set (`replyFlags`) — gets nothing and leaves the
    table unchanged: SYN|ACK, SYN|ACK|ECE|CWR|URG|FIN…, RST, RST|ACK, RST|PSH, RST|SYN, … -/
theorem tcp_synack_rst_silent
    (hd : Spec.deliverable cfg f false 6 20 = true ∨ Spec.deliverable cfg f true 6 20 = true)
    (hf : replyFlags (Spec.tcpFlagsOf (Spec.l4Bytes f)) = true) :
    (step cfg env st f).out = .ok none ∧ (step cfg env st f).st = st := by
  rcases hd with hd | hd
  · exact silent_table (step_tcp_v4 hd hf)
  · exact silent_table (step_tcp_v6 hd hf)

/-- exactly which flag words `replyFlags` admits: RST or SYN+ACK, and not PSH+ACK -/
theorem replyFlags_iff (fl : Nat) (h : fl < 512) :
    replyFlags fl =
      decide ((fl / 4 % 2 = 1 ∨ (fl / 2 % 2 = 1 ∧ fl / 16 % 2 = 1)) ∧ ¬ (fl / 8 % 2 = 1 ∧ fl / 16 % 2 = 1)) := by
  have := forall_lt_of_all 512 (fun fl => replyFlags fl ==
      decide ((fl / 4 % 2 = 1 ∨ (fl / 2 % 2 = 1 ∧ fl / 16 % 2 = 1)) ∧ ¬ (fl / 8 % 2 = 1 ∧ fl / 16 % 2 = 1)))
    (by decide +kernel) fl h
  exact beq_iff_eq.mp this

/-- the same flags with PSH and ACK both set (SYN|ACK|PSH, RST|ACK|PSH, …) go to the data arm: such a
    segment is answered iff its flow's cookie value is in the table or it acknowledges cookie + 1 — i.e.
    only behind a valid cookie (C07) -/
theorem tcp_reply_flags_psh_data (cfg : Cfg) (env : Env) (st : Table) (ci : ClientInfo) (p : Bytes) (s d : Ip)
    (hl : p.length ≥ 20) (hs : ci.ipSrc = some s) (hd : ci.ipDst = some d)
    (hf : replyFlagsPsh (tcpFlags p) = true)
    {evs : List Ev} {ci' : ClientInfo} {st' : Table} {out : Option Bytes}
    (h : tcpRepl cfg env st ci p = .ok (evs, ci', st', out)) :
    let ck := cookie cfg.k0 cfg.k1 s d (Spec.be16 p 0) (Spec.be16 p 2)
    (out.isSome = true ↔ ((st.get? ck).isSome = true ∨ Spec.be32 p 8 = (ck + 1) % 4294967296)) := by
  have hb := replyFlagsPsh_facts _ (tcpFlags_lt p)
  rw [hf] at hb
  simp only [Bool.not_true, Bool.false_or, decide_eq_true_eq] at hb
  exact c07_partial cfg env st ci p s d hl hs hd hb h

/-! ## 1b. application interface -/

/-- DNS: over UDP a message with QR = 1 that no signature identifies gets no reply.
    (With the matcher results as hypotheses this is `C14.dns_c14_silent`.) -/
theorem dns_qr1_silent' (ci : ClientInfo) (p : Bytes) (hudp : ci.transport = some 17)
    (hq : dnsReply p = true) (hno : ∀ id, ¬ Ident p id) :
    protoRepl cfg env ci none p = .ok (ci, none, none) := by
  simp only [dnsReply, decide_eq_true_eq] at hq
  rcases protoRepl_none cfg env ci p with ⟨ht, _⟩ | ⟨id, hid, _⟩ | e
  · rw [hudp] at ht; cases ht
  · exact absurd hid (hno id)
  · rw [e]
    unfold dnsFallback
    cases hm : dnsParse p with
    | none => rfl
    | some m => simp only [C14.dns_qr1_silent ci hq m hm]

/-- DNS, without any hypothesis on the signatures: whatever answer a QR = 1 message gets on a datagram
    flow comes from the handler of a protocol a signature identified, never from the DNS responder -/
theorem dns_qr1_never_dns (ci ci' : ClientInfo) (t' : Option Tcb) (p r : Bytes) (hq : dnsReply p = true)
    (h : protoRepl cfg env ci none p = .ok (ci', t', some r)) :
    ∃ id, Ident p id ∧ protoHandle cfg env id ci none p = .ok (ci', t', some r) := by
  simp only [dnsReply, decide_eq_true_eq] at hq
  rcases protoRepl_none cfg env ci p with ⟨_, _, e⟩ | ⟨id, hid, e⟩ | e
  · rw [e] at h; cases h
  · exact ⟨id, hid, by rw [← e]; exact h⟩
  · rw [e] at h
    unfold dnsFallback at h
    cases hm : dnsParse p with
    | none => rw [hm] at h; cases h
    | some m => rw [hm] at h; simp only [C14.dns_qr1_silent ci hq m hm] at h; cases h

/-- STUN: a complete STUN message of class indication, success response or error response (any method,
    any attributes) of at most 65535 bytes gets nothing from the STUN responder, client info untouched;
    and no STUN signature identifies it in the first place -/
theorem stun_nonrequest_silent' (ci : ClientInfo) (tcb : Option Tcb) (p : Bytes) (hs : stunReply p = true)
    (hl : p.length ≤ 65535) :
    protoHandle cfg env PROTO_STUN ci tcb p = .ok (ci, tcb, none) ∧ ¬ Ident p 2 := by
  refine ⟨?_, stunReply_not_stun hs⟩
  unfold stunReply at hs
  split at hs
  · rename_i m hp
    simp only [ne_eq, decide_not, Bool.not_eq_true', decide_eq_false_iff_not] at hs
    have := C15.stun_nonrequest_silent ci p m hp hl hs
    simp [protoHandle, PROTO_HTTP, PROTO_STUN, this]
  · cases hs

/-- SMB: a message with the reply flag (SMB1 `SMB_FLAGS_REPLY`, SMB2 `SERVER_TO_REDIR`) gets nothing
    from the SMB responders, whatever the command and the rest of the message -/
theorem smb_reply_flag_silent' (ci : ClientInfo) (tcb : Option Tcb) (p : Bytes) :
    (smb1Reply p = true → protoHandle cfg env PROTO_SMB1 ci tcb p = .ok (ci, tcb, none)) ∧
    (smb2Reply p = true → protoHandle cfg env PROTO_SMB2 ci tcb p = .ok (ci, tcb, none)) := by
  constructor
  · intro h
    simp only [smb1Reply, Bool.and_eq_true] at h
    have := C17.smb1_must_ignore_silent env p _ rfl h.1
    simp [protoHandle, PROTO_HTTP, PROTO_STUN, PROTO_SSH, PROTO_GHOST, PROTO_RPC_TCP, PROTO_RPC_UDP, PROTO_SMB1,
      this]
  · intro h
    simp only [smb2Reply, Bool.and_eq_true] at h
    have := C17.smb2_must_ignore_silent env p _ rfl h.1
    simp [protoHandle, PROTO_HTTP, PROTO_STUN, PROTO_SSH, PROTO_GHOST, PROTO_RPC_TCP, PROTO_RPC_UDP, PROTO_SMB1,
      PROTO_SMB2, this]

/-- ONC-RPC: a payload whose message-type word is 1 (REPLY) completes neither ONC-RPC signature — in
    the pinned set (C16) and in the compiled matcher, end-of-datagram quirk included — so it never
    reaches the ONC-RPC responder (which would not look at the type: `C16.rpc_type_unchecked_example`) -/
theorem rpc_reply_silent' (p : Bytes) :
    (rpcReplyUdp p = true → ¬ Ident p 6 ∧
      ∀ g ∈ Spec.sigs, g.id = Spec.ID_RPC_UDP → Spec.prefixMatch g.pat p = false) ∧
    (rpcReplyTcp p = true → ¬ Ident p 5 ∧
      ∀ g ∈ Spec.sigs, g.id = Spec.ID_RPC_TCP → Spec.prefixMatch g.pat p = false) := by
  constructor
  · intro h
    refine ⟨rpcReplyUdp_not_rpc h, fun g hg hid => ?_⟩
    simp only [rpcReplyUdp, decide_eq_true_eq] at h
    cases hm : Spec.prefixMatch g.pat p with
    | false => rfl
    | true => have := C16.rpc_reply_type_silent.1 g hg hid p hm; omega
  · intro h
    refine ⟨rpcReplyTcp_not_rpc h, fun g hg hid => ?_⟩
    simp only [rpcReplyTcp, decide_eq_true_eq] at h
    cases hm : Spec.prefixMatch g.pat p with
    | false => rfl
    | true => have := C16.rpc_reply_type_silent.2 g hg hid p hm; omega

/-- … at the dispatcher: on a datagram flow a type-1 message is dropped, or handled by another
    protocol's handler, or left to the DNS fallback; on a fresh TCP flow likewise without the fallback -/
theorem rpc_reply_not_dispatched (ci : ClientInfo) (p : Bytes) :
    (rpcReplyUdp p = true →
      protoRepl cfg env ci none p = .ok (ci, none, none) ∨
      (∃ id, id ≠ PROTO_RPC_UDP ∧ Ident p id ∧ protoRepl cfg env ci none p = protoHandle cfg env id ci none p) ∨
      protoRepl cfg env ci none p = dnsFallback ci p) ∧
    (rpcReplyTcp p = true →
      (∃ t, protoRepl cfg env ci (some {}) p = .ok (ci, some t, none)) ∨
      (∃ id st, id ≠ PROTO_RPC_TCP ∧ Ident p id ∧
        protoRepl cfg env ci (some {}) p = protoHandle cfg env id ci (some { protoId := id, smackState := st }) p)) := by
  constructor
  · intro h
    rcases protoRepl_none cfg env ci p with ⟨_, _, e⟩ | ⟨id, hid, e⟩ | e
    · exact .inl e
    · refine .inr (.inl ⟨id, ?_, hid, e⟩)
      rintro rfl; exact rpcReplyUdp_not_rpc h hid
    · exact .inr (.inr e)
  · intro h
    rcases protoRepl_fresh cfg env ci p with ⟨_, _, e⟩ | ⟨id, st, hid, e⟩ | e
    · exact .inl ⟨_, e⟩
    · refine .inr ⟨id, st, ?_, hid, e⟩
      rintro rfl; exact rpcReplyTcp_not_rpc h hid
    · exact .inl e

/-! ## 2. what the responder's own replies look like -/

/-- HTTP: the reply starts with "HTTP/1.1 401" -/
theorem shape_http {r : Bytes} (h : IsHttp r) : "HTTP/1.1 401".toUTF8.toList <+: r := by
  obtain ⟨rest, rfl⟩ := http_shape h
  exact ⟨rest, by rw [show "HTTP/1.1 401".toUTF8.toList = httpHead by decide +kernel]⟩

/-- SSH: the reply is the banner "SSH-2.0-1\r\n" — a valid client banner too -/
theorem shape_ssh {r : Bytes} (h : IsSsh r) :
    r = "SSH-2.0-1\r\n".toUTF8.toList ∧ Spec.prefixMatch (Spec.lits "SSH-2.0") r = true := by
  subst h; exact ⟨rfl, by decide +kernel⟩

/-- Gh0st: the reply starts with the Gh0st signature -/
theorem shape_ghost {r : Bytes} (h : IsGhost r) : Spec.prefixMatch (Spec.lits "Gh0st") r = true := by
  subst h; decide +kernel

/-- STUN: bytes `01 01` (Binding success response), the length field, the request's transaction id and
    one MAPPED-ADDRESS attribute; with a 4- or 16-byte source address the length field is 12 or 24, the
    message is `20 + length` bytes long and is itself a protocol-marked reply -/
theorem shape_stun (ci ci' : ClientInfo) (d r : Bytes) (h : stunRepl ci d = .ok (ci', some r)) :
    Spec.u8 r 0 = 1 ∧ Spec.u8 r 1 = 1 ∧ 28 ≤ r.length ∧
    ((∀ ip, ci.ipSrc = some ip → IpWf ip) →
      (Spec.be16 r 2 = 12 ∨ Spec.be16 r 2 = 24) ∧ r.length = 20 + Spec.be16 r 2 ∧ stunReply r = true) := by
  obtain ⟨tid, ip, port, hip, htid, hr⟩ := stun_shape_ci h
  refine ⟨by rw [hr]; rfl, by rw [hr]; rfl, ?_, ?_⟩
  · rw [hr]; cases ip <;> simp [stunMapped, u16be, htid] <;> omega
  · intro hw
    have hl := C15.stun_reply_wellformed ci ci' d r hw h
    have hcls : stunReply r = true := by
      unfold Spec.looksStunResponse at hl
      unfold stunReply
      split at hl
      · rename_i m hm
        rw [hm]
        simp only [Bool.or_eq_true, decide_eq_true_eq] at hl
        simp only [ne_eq, decide_not, Bool.not_eq_true', decide_eq_false_iff_not]
        omega
      · cases hl
    have hwf : IpWf ip := hw ip hip
    refine ⟨?_, ?_, hcls⟩
    · rw [hr]
      cases ip <;> simp only [IpWf] at hwf <;> simp [stunMapped, u16be, Spec.be16, Spec.u8, hwf, byte]
    · rw [hr]
      cases ip <;> simp only [IpWf] at hwf <;>
        simp [stunMapped, u16be, Spec.be16, Spec.u8, hwf, byte, htid]

/-- ONC-RPC over UDP: the second word is 1 (REPLY) — the reply is a protocol-marked reply -/
theorem shape_rpc_udp {r : Bytes} (h : IsRpcUdp r) : rpcReplyUdp r = true ∧ 24 ≤ r.length := by
  obtain ⟨x0, x1, x2, x3, x, t, rfl⟩ := rpc_udp_shape h
  exact ⟨by simp [rpcReplyUdp, Spec.be32, Spec.be16, Spec.u8], by simp⟩

/-- ONC-RPC over TCP: last-fragment bit set in the record mark, third word 1 (REPLY) -/
theorem shape_rpc_tcp {r : Bytes} (h : IsRpcTcp r) :
    rpcReplyTcp r = true ∧ Spec.u8 r 0 ≥ 128 ∧ 28 ≤ r.length := by
  obtain ⟨m0, m1, m2, m3, x0, x1, x2, x3, x, t, hm, rfl⟩ := rpc_tcp_shape h
  exact ⟨by simp [rpcReplyTcp, Spec.be32, Spec.be16, Spec.u8], by simpa [Spec.u8] using hm, by simp⟩

/-- SMB1: the reply carries `SMB_FLAGS_REPLY` — it is a protocol-marked reply -/
theorem shape_smb1 {r : Bytes} (h : IsSmb1 r) : smb1Reply r = true := by
  obtain ⟨l2, l3, cmd, rest, _, hlen, rfl⟩ := smb1_shape h
  simp only [List.length_append, List.length_cons, List.length_nil] at hlen
  simp [smb1Reply, Spec.smb1MustIgnore, Spec.sub, Spec.u8]
  omega

/-- SMB2: the reply carries `SMB2_FLAGS_SERVER_TO_REDIR` — it is a protocol-marked reply -/
theorem shape_smb2 {r : Bytes} (h : IsSmb2 r) : smb2Reply r = true := by
  obtain ⟨l2, l3, c0, c1, rest, hlen, rfl⟩ := smb2_shape h
  simp only [List.length_append, List.length_cons, List.length_nil] at hlen
  simp [smb2Reply, Spec.smb2MustIgnore, Spec.sub, Spec.u8, Spec.le32, Spec.le16]
  omega

/-- DNS: at least the 12 header bytes, QR = 1 — the reply is a protocol-marked reply -/
theorem shape_dns {r : Bytes} (h : IsDns r) : dnsReply r = true ∧ 12 ≤ r.length := by
  obtain ⟨i0, i1, fl, q0, q1, rest, hfl, rfl, _⟩ := dns_shape h
  have := fl.toNat_lt
  refine ⟨?_, by simp⟩
  simp [dnsReply, Spec.be16, Spec.u8]
  omega

/-- every application reply of `proto::repl` on a fresh flow is a reply of one of the nine responders -/
theorem reply_classification (h : Hop) (p r : Bytes) (hb : bounce h p = .ok (some r)) :
    IsHttp r ∨ IsStun r ∨ IsSsh r ∨ IsGhost r ∨ IsRpcTcp r ∨ IsRpcUdp r ∨ IsSmb1 r ∨ IsSmb2 r ∨ IsDns r := by
  rcases bounce_cases h p with e | ⟨id, tcb, hid, e⟩ | e
  · rw [e] at hb; cases hb
  · rw [e] at hb
    obtain ⟨ci', t', hh⟩ := replyOf_some hb
    rcases protoHandle_reply hh with ⟨_, hr⟩ | ⟨_, hr⟩ | ⟨_, hr⟩ | ⟨_, hr⟩ | ⟨_, hr⟩ | ⟨_, hr⟩ | ⟨_, hr⟩ | ⟨_, hr⟩
    · exact .inl hr
    · exact .inr (.inl hr)
    · exact .inr (.inr (.inl hr))
    · exact .inr (.inr (.inr (.inl hr)))
    · exact .inr (.inr (.inr (.inr (.inl hr))))
    · exact .inr (.inr (.inr (.inr (.inr (.inl hr)))))
    · exact .inr (.inr (.inr (.inr (.inr (.inr (.inl hr))))))
    · exact .inr (.inr (.inr (.inr (.inr (.inr (.inr (.inl hr)))))))
  · rw [e] at hb
    cases hm : dnsParse p with
    | none => rw [hm] at hb; cases hb
    | some m =>
      rw [hm] at hb
      simp only [Option.bind_some, Except.ok.injEq] at hb
      exact .inr (.inr (.inr (.inr (.inr (.inr (.inr (.inr ⟨h.ci, p, m, hm, hb⟩)))))))

/-! ## 3. the chain bound -/

/-- what each kind of reply gets when fed to any hop: nothing (HTTP, ONC-RPC/TCP, SMB1, SMB2, DNS), or
    nothing / one DNS reply through the DNS fallback (STUN, ONC-RPC/UDP) — and a DNS reply gets nothing -/
theorem bounced_reply (h : Hop) (r : Bytes) :
    ((IsHttp r ∨ IsRpcTcp r ∨ IsSmb1 r ∨ IsSmb2 r ∨ IsDns r) → bounce h r = .ok none) ∧
    ((IsStun r ∨ IsRpcUdp r) →
      bounce h r = .ok none ∨ ∃ r2, bounce h r = .ok (some r2) ∧ IsDns r2 ∧ ∀ h2, bounce h2 r2 = .ok none) := by
  constructor
  · rintro (hr | hr | hr | hr | hr)
    · exact http_silent hr h
    · exact rpc_tcp_silent hr h
    · exact smb1_silent hr h
    · exact smb2_silent hr h
    · exact dns_silent hr h
  · intro hr
    have hq : Quiet r := by
      rcases hr with hr | hr
      · exact quiet_of_reply (.inr (.inl hr))
      · exact quiet_of_reply (.inr (.inr (.inr (.inl hr))))
    rcases hq h with e | ⟨r2, e, hd⟩
    · exact .inl e
    · exact .inr ⟨r2, e, hd, dns_silent hd⟩

/-- **C12, chain bound, general form**: a payload that the matcher cannot identify as SSH or Gh0st (it
    starts with none of "SSH-2.0", "SSH-1.99", "Gh0st") triggers at most two replies in total when
    each reply is bounced to a responder — whatever the hops, in any number -/
theorem reflection_le_two_general (p : Bytes) (h : startsSshOrGhost p = false) (hs : List Hop) :
    chainLen hs p ≤ 2 := by
  apply chain_le_two
  · intro hid; have := ident_ssh_ghost hid (.inl rfl); rw [h] at this; cases this
  · intro hid; have := ident_ssh_ghost hid (.inr rfl); rw [h] at this; cases this

/-- **C12, chain bound**: a protocol-marked reply of DNS (QR = 1), STUN (class ≠ request), SMB1/SMB2
    (reply flag) or ONC-RPC (type 1; in TCP framing: first eight bytes not an SSH or Gh0st signature)
    triggers at most two replies in total -/
theorem reflection_le_two (p : Bytes) (h : replyTyped p = true) (hs : List Hop) : chainLen hs p ≤ 2 :=
  chain_le_two (replyTyped_not_ssh h).1 (replyTyped_not_ssh h).2 hs

/-- the bound is reached only through the DNS fallback: when a protocol-marked reply triggers two
    replies, the first is a STUN or ONC-RPC/UDP reply (the payload was also a valid request of that
    protocol) and the second a DNS reply -/
theorem two_replies_only_via_dns (p : Bytes) (h : replyTyped p = true) (h1 h2 : Hop) (r1 r2 : Bytes)
    (hb1 : bounce h1 p = .ok (some r1)) (hb2 : bounce h2 r1 = .ok (some r2)) :
    (IsStun r1 ∨ IsRpcUdp r1) ∧ IsDns r2 := by
  have hns := replyTyped_not_ssh h
  have hsome : ∀ {r}, bounce h2 r = .ok none → bounce h2 r = .ok (some r2) → False := by
    intro r e e'; rw [e] at e'; cases e'
  rcases first_reply_kind h1 hns.1 hns.2 hb1 with hr | hr | hr | hr | hr | hr | hr
  · exact (hsome (http_silent hr h2) hb2).elim
  · refine ⟨.inl hr, ?_⟩
    rcases (bounced_reply h2 r1).2 (.inl hr) with e | ⟨r, e, hd, _⟩
    · exact (hsome e hb2).elim
    · rw [e] at hb2; cases hb2; exact hd
  · exact (hsome (rpc_tcp_silent hr h2) hb2).elim
  · refine ⟨.inr hr, ?_⟩
    rcases (bounced_reply h2 r1).2 (.inr hr) with e | ⟨r, e, hd, _⟩
    · exact (hsome e hb2).elim
    · rw [e] at hb2; cases hb2; exact hd
  · exact (hsome (smb1_silent hr h2) hb2).elim
  · exact (hsome (smb2_silent hr h2) hb2).elim
  · exact (hsome (dns_silent hr h2) hb2).elim

/-! ## 3b. where the bound fails: SSH banner and Gh0st reply answer themselves -/

/-- the SSH banner is answered with the SSH banner, the Gh0st reply with the Gh0st reply, by every hop
    that looks at payloads (any client info but TCP-without-cookie; datagram or fresh TCP flow): between
    such hops they bounce for ever — as many replies as hops.  (The real code does the same: `ssh::repl`
    answers any banner "SSH-…\r\n" with "SSH-2.0-1\r\n", `ghost::repl` answers anything identified by
    "Gh0st" with a blob starting "Gh0st"; identification does not depend on the transport.) -/
theorem ssh_ghost_echo_endless (hs : List Hop) (hl : ∀ h ∈ hs, h.looks) :
    chainLen hs sshBanner = hs.length ∧ chainLen hs Gen.ghostReply = hs.length :=
  ⟨ssh_chain hs hl, ghost_chain hs hl⟩

/-- an ONC-RPC REPLY message in TCP framing whose record mark and xid spell "SSH-2.0-", ending in CR LF -/
def rpcSsh : Bytes :=
  "SSH-2.0-".toUTF8.toList ++ [0, 0, 0, 1, 0, 0, 0, 0, 0, 0, 0, 0, 0, 0, 0, 0, 0, 0, 0, 0] ++ [13, 10]

/-- an ONC-RPC REPLY message in TCP framing whose record mark and xid start with "Gh0st" -/
def rpcGhost : Bytes :=
  "Gh0st".toUTF8.toList ++ [0, 0, 0] ++ [0, 0, 0, 1, 0, 0, 0, 0, 0, 0, 0, 0, 0, 0, 0, 0, 0, 0, 0, 0]

/-- **counterexample to the unrestricted statement** (ONC-RPC in TCP framing): `rpcSsh` and `rpcGhost`
    are ONC-RPC messages of type 1 (REPLY), yet every hop that looks at payloads answers them (SSH banner,
    Gh0st reply), and the exchange never ends: a chain over `n + 1` hops has `n + 1` replies.
    They are exactly the messages `replyTyped` excludes. -/
theorem rpc_tcp_reply_ssh_endless (h : Hop) (hs : List Hop) (hl : ∀ x ∈ h :: hs, x.looks) :
    rpcReplyTcp rpcSsh = true ∧ rpcReplyTcp rpcGhost = true ∧
    replyTyped rpcSsh = false ∧ replyTyped rpcGhost = false ∧
    chainLen (h :: hs) rpcSsh = hs.length + 1 ∧ chainLen (h :: hs) rpcGhost = hs.length + 1 := by
  have hh : h.looks := hl h (by simp)
  have hr : ∀ x ∈ hs, x.looks := fun x hx => hl x (by simp [hx])
  have b1 : bounce h rpcSsh = .ok (some sshBanner) :=
    bounce_of_search (id := 3) (st := stateAfter rpcSsh) (n := 7) hh (by decide) (okIs_eq (by decide +kernel)) (fun tcb => by
      have : sshRepl rpcSsh = .ok (some sshBanner) := okIs_eq (by decide +kernel)
      exact ⟨tcb, by simp [protoHandle, PROTO_HTTP, PROTO_STUN, PROTO_SSH, this]⟩)
  have b2 : bounce h rpcGhost = .ok (some Gen.ghostReply) :=
    bounce_of_search (id := 4) (st := stateAfter rpcGhost) (n := 5) hh (by decide) (okIs_eq (by decide +kernel)) (fun tcb =>
      ⟨tcb, protoHandle_ghost _ _ _ _ _⟩)
  refine ⟨by decide +kernel, by decide +kernel, by decide +kernel, by decide +kernel, ?_, ?_⟩
  · have := ssh_chain hs hr
    unfold chainLen at this ⊢
    simp only [chain, b1, List.length_cons, this]
  · have := ghost_chain hs hr
    unfold chainLen at this ⊢
    simp only [chain, b2, List.length_cons, this]

/-! ## 3c. well-formed ONC-RPC replies in TCP framing: the record mark rules the SSH / Gh0st prefixes out -/

/-- a payload with a correct TCP record mark (`Spec.recordMarkOk`: last-fragment bit set, 31-bit length =
    number of bytes that follow) starts with a byte ≥ 0x80, so it starts with none of "SSH-2.0",
    "SSH-1.99", "Gh0st".  (Why the record mark matters: `rpc_tcp_reply_ssh_endless`.) -/
theorem rpc_tcp_wf_not_ssh_ghost {p body : Bytes} (h : Spec.recordMarkOk p = some body) :
    startsSshOrGhost p = false := by
  have h0 : Spec.u8 p 0 ≥ 128 := by
    unfold Spec.recordMarkOk at h
    split at h
    · cases h
    · split at h
      · rename_i hc; exact hc.1
      · cases h
  have key : ∀ (w : List Sym) (c : UInt8), w[0]? = some (.lit c) → c.toNat < 128 →
      Spec.prefixMatch w p = false := by
    intro w c hw hc
    cases hm : Spec.prefixMatch w p with
    | false => rfl
    | true =>
      have := pm_getElem hm hw
      have : Spec.u8 p 0 = c.toNat := by simp [Spec.u8, List.getD_eq_getElem?_getD, this]
      omega
  unfold startsSshOrGhost
  rw [key (Spec.lits "SSH-2.0") 83 (by decide +kernel) (by decide),
    key (Spec.lits "SSH-1.99") 83 (by decide +kernel) (by decide),
    key (Spec.lits "Gh0st") 71 (by decide +kernel) (by decide)]
  rfl

/-- a WELL-FORMED protocol-marked reply: DNS QR = 1, STUN class ≠ request, SMB1/SMB2 reply flag, ONC-RPC
    type 1 in datagram framing, or ONC-RPC type 1 in TCP framing with a correct record mark — no side
    condition on the first bytes -/
def replyTypedWf (p : Bytes) : Bool :=
  dnsReply p || stunReply p || smb1Reply p || smb2Reply p || rpcReplyUdp p ||
  (rpcReplyTcp p && (Spec.recordMarkOk p).isSome)

theorem replyTypedWf_replyTyped {p : Bytes} (h : replyTypedWf p = true) : replyTyped p = true := by
  simp only [replyTypedWf, Bool.or_eq_true, Bool.and_eq_true] at h
  simp only [replyTyped, Bool.or_eq_true, Bool.and_eq_true, Bool.not_eq_true']
  rcases h with h | ⟨h1, h2⟩
  · exact .inl h
  · obtain ⟨body, hb⟩ := Option.isSome_iff_exists.mp h2
    exact .inr ⟨h1, rpc_tcp_wf_not_ssh_ghost hb⟩

/-- **C12, chain bound for well-formed replies**: a well-formed protocol-marked reply triggers at most
    two replies in total, whatever the hops — no condition about SSH / Gh0st prefixes -/
theorem reflection_le_two_wf (p : Bytes) (h : replyTypedWf p = true) (hs : List Hop) : chainLen hs p ≤ 2 :=
  reflection_le_two p (replyTypedWf_replyTyped h) hs

/-! ## 4. non-vacuity -/

section NonVacuity
open C07ex

def ethTo (ety : Bytes) : Bytes := [2, 0, 0, 0, 0, 1, 2, 0, 0, 0, 0, 9] ++ ety
/-- ARP reply 1.2.3.4 is-at 02:00:00:00:00:09, sent to us -/
def arpReplyFrame : Bytes :=
  ethTo [8, 6] ++ [0, 1, 8, 0, 6, 4, 0, 2] ++ [2, 0, 0, 0, 0, 9] ++ [1, 2, 3, 4] ++ [2, 0, 0, 0, 0, 1] ++ [10, 0, 0, 1]
def ip4Hdr (proto len : UInt8) : Bytes := [69, 0, 0, len, 0, 0, 64, 0, 64, proto, 0, 0, 1, 2, 3, 4, 10, 0, 0, 1]
def ip6Hdr (nh len : UInt8) : Bytes :=
  [0x60, 0, 0, 0, 0, len, nh, 64] ++ [0x20, 1, 0xd, 0xb8, 0, 0, 0, 0, 0, 0, 0, 0, 0, 0, 0, 2] ++
  [0x20, 1, 0xd, 0xb8, 0, 0, 0, 0, 0, 0, 0, 0, 0, 0, 0, 1]
def echoReplyFrame : Bytes := ethTo [8, 0] ++ ip4Hdr 1 28 ++ [0, 0, 0, 0, 0, 1, 0, 1]
def echo6ReplyFrame : Bytes := ethTo [0x86, 0xdd] ++ ip6Hdr 58 8 ++ [129, 0, 0, 0, 0, 1, 0, 1]
def naFrame : Bytes :=
  ethTo [0x86, 0xdd] ++ ip6Hdr 58 24 ++ [136, 0, 0, 0, 0x60, 0, 0, 0] ++
  [0x20, 1, 0xd, 0xb8, 0, 0, 0, 0, 0, 0, 0, 0, 0, 0, 0, 2]
def tcpSeg (flags : UInt8) : Bytes := [135, 64, 0, 80, 1, 2, 3, 4, 0, 0, 0, 1, 80, flags, 255, 255, 0, 0, 0, 0]
def tcpFrame4 (flags : UInt8) : Bytes := ethTo [8, 0] ++ ip4Hdr 6 40 ++ tcpSeg flags
def tcpFrame6 (flags : UInt8) : Bytes := ethTo [0x86, 0xdd] ++ ip6Hdr 6 20 ++ tcpSeg flags

-- hypotheses of the frame-level theorems hold on concrete frames …
example : Spec.isArp arpReplyFrame = true ∧ Spec.be16 arpReplyFrame 20 = 2 := by decide +kernel
example : Spec.deliverable cfg0 echoReplyFrame false 1 4 = true ∧ Spec.u8 (Spec.l4Bytes echoReplyFrame) 0 = 0 := by
  decide +kernel
example : Spec.deliverable cfg0 echo6ReplyFrame true 58 4 = true ∧
    Spec.u8 (Spec.l4Bytes echo6ReplyFrame) 0 = 129 := by decide +kernel
example : Spec.deliverable cfg0 naFrame true 58 4 = true ∧ Spec.u8 (Spec.l4Bytes naFrame) 0 = 136 := by
  decide +kernel
/-- SYN|ACK, RST|ACK, RST, SYN|ACK|ECE|CWR, SYN|ACK|ECE, RST|PSH — over IPv4 and IPv6 -/
example : ∀ fl ∈ [0x12, 0x14, 0x04, 0xd2, 0x52, 0x0c],
    Spec.deliverable cfg0 (tcpFrame4 fl) false 6 20 = true ∧
    replyFlags (Spec.tcpFlagsOf (Spec.l4Bytes (tcpFrame4 fl))) = true ∧
    Spec.deliverable cfg0 (tcpFrame6 fl) true 6 20 = true ∧
    replyFlags (Spec.tcpFlagsOf (Spec.l4Bytes (tcpFrame6 fl))) = true := by decide +kernel
-- … and the theorems apply, for every environment and table
example (env : Env) (st : Table) : (step cfg0 env st arpReplyFrame).out = .ok none :=
  (arp_reply_silent (by decide +kernel) (by decide +kernel)).1
example (env : Env) (st : Table) : (step cfg0 env st (tcpFrame4 0x12)).out = .ok none ∧
    (step cfg0 env st (tcpFrame4 0x12)).st = st :=
  tcp_synack_rst_silent (.inl (by decide +kernel)) (by decide +kernel)
/-- SYN|ACK|PSH and RST|ACK|PSH are data-arm flags (hypothesis of `tcp_reply_flags_psh_data`) -/
example : replyFlagsPsh (tcpFlags (tcpSeg 0x1a)) = true ∧ replyFlagsPsh (tcpFlags (tcpSeg 0x1c)) = true ∧
    (tcpSeg 0x1a).length ≥ 20 := by decide +kernel

/-! concrete protocol-marked replies -/

/-- `www.example.com IN A` with QR = 1 -/
def dnsRep : Bytes :=
  [0x12, 0x34, 0x81, 0, 0, 1, 0, 0, 0, 0, 0, 0,
   3, 119, 119, 119, 7, 101, 120, 97, 109, 112, 108, 101, 3, 99, 111, 109, 0,   0, 1, 0, 1]
/-- STUN Binding indication / success response / error response (no attributes) -/
def stunInd : Bytes := [0, 0x11, 0, 0] ++ List.replicate 16 7
def stunSuc : Bytes := [1, 0x01, 0, 0] ++ List.replicate 16 7
def stunErr : Bytes := [1, 0x11, 0, 0] ++ List.replicate 16 7
/-- SMB1 negotiate response header (flags 0x98) and SMB2 negotiate response header (flags 1) -/
def smb1Rep : Bytes :=
  [0, 0, 0, 35] ++ [0xff, 0x53, 0x4d, 0x42, 0x72, 0, 0, 0, 0, 0x98, 7, 0xc8] ++ zeros 20 ++ [0, 0, 0]
def smb2Rep : Bytes :=
  [0, 0, 0, 68] ++ [0xfe, 0x53, 0x4d, 0x42, 64, 0, 0, 0, 0, 0, 0, 0, 0, 0, 1, 0, 1, 0, 0, 0] ++ zeros 44 ++ [0, 0, 0, 0]
/-- ONC-RPC reply, xid 7, accepted, success — datagram framing and TCP framing -/
def rpcRep : Bytes := u32be 7 ++ u32be 1 ++ zeros 16
def rpcTcpRep : Bytes := [0x80, 0, 0, 24] ++ rpcRep
/-- a STUN Binding success response (20 bytes of attributes) that is also a complete ONC-RPC call
    (xid 0x01010014, portmapper v2 GETPORT) -/
def stunRpc : Bytes := [1, 1, 0, 20] ++ u32be 0 ++ u32be 2 ++ u32be 100000 ++ u32be 2 ++ u32be 3 ++ zeros 16
/-- RFC 3489 Binding request without magic cookie, transaction id zero -/
def stunReq0 : Bytes := [0, 1, 0, 0] ++ List.replicate 16 0

def cfgE : Cfg :=
  { mac := [2, 0, 0, 0, 0, 1], selfIps := none, deny := none, k0 := 0, k1 := 0, logger := .none, level := 0,
    ovf := true }
def ciU : ClientInfo :=
  { ipSrc := some (.v4 [1, 2, 3, 4]), ipDst := some (.v4 [10, 0, 0, 1]), transport := some 17,
    portSrc := some 4000, portDst := some 3478 }
def ciT : ClientInfo :=
  { ipSrc := some (.v4 [1, 2, 3, 4]), ipDst := some (.v4 [10, 0, 0, 1]), transport := some 6,
    portSrc := some 4000, portDst := some 445, cookie := some 7 }
/-- a datagram hop and a TCP hop -/
def hU : Hop := { cfg := cfgE, env := env0, ci := ciU, tcp := false }
def hT : Hop := { cfg := cfgE, env := env0, ci := ciT, tcp := true }

example : dnsReply dnsRep = true ∧ stunReply stunInd = true ∧ stunReply stunSuc = true ∧ stunReply stunErr = true ∧
    smb1Reply smb1Rep = true ∧ smb2Reply smb2Rep = true ∧ rpcReplyUdp rpcRep = true ∧ rpcReplyTcp rpcTcpRep = true ∧
    stunReply stunRpc = true := by decide +kernel
example : ∀ p ∈ [dnsRep, stunInd, stunSuc, stunErr, smb1Rep, smb2Rep, rpcRep, rpcTcpRep, stunRpc],
    replyTyped p = true := by decide +kernel
/-- hypothesis `∀ id, ¬ Ident p id` of `dns_qr1_silent'` holds for `dnsRep`, and the theorem applies -/
example (cfg : Cfg) (env : Env) : protoRepl cfg env ciU none dnsRep = .ok (ciU, none, none) := by
  refine dns_qr1_silent' ciU dnsRep rfl (by decide +kernel) ?_
  rintro id ⟨e, he, _, h1, h2⟩
  have : ∀ e ∈ identPats, ¬ (Spec.prefixMatch e.1 dnsRep = true) := by decide +kernel
  exact this e he h1
example : stunInd.length ≤ 65535 ∧ hU.looks ∧ hT.looks := by
  refine ⟨by decide, ?_, ?_⟩ <;> (unfold Hop.looks; decide)

/-- the chains, evaluated: silence for the DNS, STUN, SMB and ONC-RPC/TCP replies (datagram and TCP
    hops); the ONC-RPC/UDP reply gets one DNS reply from the DNS fallback; the STUN success response
    that is also a portmapper call gets the portmapper reply and then one DNS reply: two in total -/
example : ∀ p ∈ [dnsRep, stunInd, stunSuc, stunErr, smb1Rep, smb2Rep, rpcTcpRep],
    chain [hU, hU, hU] p = [] ∧ chain [hT, hT, hT] p = [] := by decide +kernel
example : chain [hU, hU, hU] rpcRep = [[0, 0, 0x84, 0, 0, 0, 0, 0, 0, 0, 0, 0]] ∧ chain [hT, hT] rpcRep = [] := by
  decide +kernel
example : chain [hU, hU, hU, hU] stunRpc =
    [[1, 1, 0, 0x14, 0, 0, 0, 1, 0, 0, 0, 0, 0, 0, 0, 0, 0, 0, 0, 0, 0, 0, 0, 0, 0, 0, 0x0d, 0x96],
     [1, 1, 0x84, 0, 0, 0, 0, 0, 0, 0, 0, 0]] := by decide +kernel
/-- the responder's own reply to a cookie-less STUN request with zero transaction id is a protocol-marked
    reply; bounced, the DNS fallback answers it once, with a 12-byte QR = 1 message, and that is all -/
example : chain [hU, hU, hU, hU] stunReq0 =
    [[1, 1, 0, 12, 0, 0, 0, 0, 0, 0, 0, 0, 0, 0, 0, 0, 0, 0, 0, 0, 0, 1, 0, 8, 0, 1, 0x0f, 0xa0, 1, 2, 3, 4],
     [1, 1, 0x84, 0, 0, 0, 0, 0, 0, 0, 0, 0]] := by decide +kernel
example : ∀ r ∈ chain [hU] stunReq0, replyTyped r = true ∧ stunReply r = true ∧
    chain [hU, hU, hU] r = [[1, 1, 0x84, 0, 0, 0, 0, 0, 0, 0, 0, 0]] ∧ chainLen [hU, hU, hU] r ≤ 2 := by
  decide +kernel
/-- through the theorem -/
example (hs : List Hop) : chainLen hs stunRpc ≤ 2 := reflection_le_two stunRpc (by decide +kernel) hs
/-- `reflection_le_two_wf`: the ONC-RPC reply in TCP framing has a correct record mark; the counterexamples do not -/
example : Spec.recordMarkOk rpcTcpRep = some rpcRep ∧ replyTypedWf rpcTcpRep = true ∧
    (∀ p ∈ [dnsRep, stunInd, stunSuc, stunErr, smb1Rep, smb2Rep, rpcRep, stunRpc], replyTypedWf p = true) ∧
    Spec.recordMarkOk rpcSsh = none ∧ Spec.recordMarkOk rpcGhost = none := by decide +kernel
example (hs : List Hop) : chainLen hs rpcTcpRep ≤ 2 := reflection_le_two_wf rpcTcpRep (by decide +kernel) hs
/-- the counterexamples, evaluated -/
example : chain [hU, hT, hU, hT] rpcSsh = [sshBanner, sshBanner, sshBanner, sshBanner] ∧
    chain [hT, hU, hT] rpcGhost = [Gen.ghostReply, Gen.ghostReply, Gen.ghostReply] := by decide +kernel

end NonVacuity

/-! ## axioms -/

#print axioms arp_reply_silent
#print axioms icmp_echo_reply_silent
#print axioms icmp6_echo_reply_silent
#print axioms na_silent
#print axioms tcp_synack_rst_silent
#print axioms replyFlags_iff
#print axioms tcp_reply_flags_psh_data
#print axioms dns_qr1_silent'
#print axioms dns_qr1_never_dns
#print axioms stun_nonrequest_silent'
#print axioms smb_reply_flag_silent'
#print axioms rpc_reply_silent'
#print axioms rpc_reply_not_dispatched
#print axioms shape_http
#print axioms shape_ssh
#print axioms shape_ghost
#print axioms shape_stun
#print axioms shape_rpc_udp
#print axioms shape_rpc_tcp
#print axioms shape_smb1
#print axioms shape_smb2
#print axioms shape_dns
#print axioms reply_classification
#print axioms bounced_reply
#print axioms reflection_le_two_general
#print axioms reflection_le_two
#print axioms rpc_tcp_wf_not_ssh_ghost
#print axioms reflection_le_two_wf
#print axioms two_replies_only_via_dns
#print axioms ssh_ghost_echo_endless
#print axioms rpc_tcp_reply_ssh_endless
#print axioms searchNext_sound
#print axioms searchNextEnd_sound

end Masscanned.C12
