/-
  Thm/C17Judge — soundness of the run-time judge `Spec.judgeC17` (SMB1 / SMB2) with respect to the model.

  * `judgeC17_accepts_model`: datagram (`tcb = none`) / first segment of a TCP flow (`tcb = some {}`), under
    the single hypothesis that the SYN-cookie gate is open (`E2E.Gate ci`; needed:
    `judgeC17_gate_needed`).  No hypothesis links the transport recorded in `ci` (which selects
    `refStream` or `refDatagram` inside `Spec.refOf`) to the kind of call: the published datagram
    reference reports SMB only through the stream rule (`J3.refDatagram_smb`).
    The judge consults the PUBLISHED reference; the two SMB signatures are untouched by the shadow set K2
    and are the first ones completed also for the compiled matcher (`J3.smb_pub_to_K2`) — even for a
    payload that is in `Spec.shadowed` (`00 00 ** ** ff S M B` followed by zero bytes spelling an ONC-RPC/TCP
    header, first byte 0: example below).
    A NetBIOS header with a non-zero second byte (`C10E2E.smb1_flags_witness`: well-formed for
    `Spec.nbtBody`, not identified, not answered) is no false alarm: the judge only demands an answer when
    `refOf` says SMB, i.e. when that byte is 0.
  * `judgeC17_accepts_model_sticky`: `forced = some id`, reply of `protoHandle … id …`, any id, any control
    block, any client info: no hypothesis.  Here `refOf = some id` whatever the segment starts with, and the
    SMB responders do not look at the NetBIOS header either, so the non-zero flags byte is accepted and
    answered consistently.

  No judge-vs-model discrepancy for C17.
-/
import Masscanned.Proofs.J3.Judge
open Masscanned
namespace Masscanned.C17Judge
open Masscanned.Spec Masscanned.E2E Masscanned.J3

/-- **`judgeC17` accepts the model** (datagram / first TCP segment) -/
theorem judgeC17_accepts_model (cfg : Cfg) (env : Env) (ci : ClientInfo) (p : Bytes) (tcb : Option Tcb)
    (ht : FreshTcb tcb) (hg : Gate ci) (ci' : ClientInfo) (tcb' : Option Tcb) (reply : Option Bytes)
    (h : protoRepl cfg env ci tcb p = .ok (ci', tcb', reply)) :
    (judgeC17 (obsOf ci p ci' reply)).ok = true := by
  rw [judgeC17_branches]
  cases hn : nbtBody p with
  | none => rfl
  | some m =>
    simp only
    obtain ⟨r1, r2⟩ := smb_fresh_reply ht hg h
    split
    · rename_i h1
      rw [r1 (refOf_smb ci p ci' reply _ (.inl rfl) h1)]
      exact smb1Branch_ok env p m hn
    · split
      · rename_i h2
        rw [r2 (refOf_smb ci p ci' reply _ (.inr rfl) h2)]
        exact smb2Branch_ok env p m hn
      · rfl

/-- **sticky case**: later segment of a flow identified as protocol `id` (any `id`) -/
theorem judgeC17_accepts_model_sticky (cfg : Cfg) (env : Env) (id : Nat) (ci : ClientInfo) (p : Bytes)
    (tcb : Option Tcb) (ci' : ClientInfo) (tcb' : Option Tcb) (reply : Option Bytes)
    (h : protoHandle cfg env id ci tcb p = .ok (ci', tcb', reply)) :
    (judgeC17 (obsOf ci p ci' reply (some id))).ok = true := by
  rw [judgeC17_branches]
  cases hn : nbtBody p with
  | none => rfl
  | some m =>
    simp only [refOf_obs, Option.some.injEq]
    split
    · rename_i h1
      subst h1
      rw [handle_smb1] at h
      simp only [Except.ok.injEq, Prod.mk.injEq] at h
      rw [← h.2.2]
      exact smb1Branch_ok env p m hn
    · split
      · rename_i h2
        subst h2
        rw [handle_smb2] at h
        simp only [Except.ok.injEq, Prod.mk.injEq] at h
        rw [← h.2.2]
        exact smb2Branch_ok env p m hn
      · rfl

/-- the same through `proto::repl` on a control block carrying the sticky id -/
theorem judgeC17_accepts_model_sticky_repl (cfg : Cfg) (env : Env) (ci : ClientInfo) (p : Bytes) (t : Tcb)
    (hg : Gate ci) (hid : t.protoId ≠ PROTO_NONE) (ci' : ClientInfo) (tcb' : Option Tcb) (reply : Option Bytes)
    (h : protoRepl cfg env ci (some t) p = .ok (ci', tcb', reply)) :
    (judgeC17 (obsOf ci p ci' reply (some t.protoId))).ok = true := by
  rw [model_sticky cfg env ci t p hg hid] at h
  exact judgeC17_accepts_model_sticky cfg env _ ci p _ ci' tcb' reply h

/-! ### the gate hypothesis is needed -/

theorem judgeC17_gate_needed (cfg : Cfg) (env : Env) :
    ¬ Gate ciNoCookie ∧ protoRepl cfg env ciNoCookie none C17.exNeg1 = .ok (ciNoCookie, none, none) ∧
    (judgeC17 (obsOf ciNoCookie C17.exNeg1 ciNoCookie none)).ok = false :=
  ⟨by decide, model_gate cfg env _ _ _ (by decide), by decide +kernel⟩

/-! ### non-vacuity -/

example : Gate C10E2E.ciUdp ∧ Gate C10E2E.ciTcp ∧ FreshTcb none ∧ FreshTcb (some {}) :=
  ⟨by decide, by decide, .inl rfl, .inr rfl⟩

/-- the SMB1 Negotiate of C17 as first segment of a TCP flow -/
example (cfg : Cfg) : ∃ ci' tcb' reply,
    protoRepl cfg C10E2E.envD C10E2E.ciTcp (some {}) C17.exNeg1 = .ok (ci', tcb', reply) ∧
    (judgeC17 (obsOf C10E2E.ciTcp C17.exNeg1 ci' reply)).ok = true ∧
    (judgeC17 (obsOf C10E2E.ciTcp C17.exNeg1 ci' reply)).nontrivial = true := by
  have hid : refStreamK2 C17.exNeg1 = some ID_SMB1 := by decide +kernel
  obtain ⟨st, hst⟩ := (dispatch_both cfg C10E2E.envD C10E2E.ciTcp C17.exNeg1 ID_SMB1 (by decide) hid).2
  rw [handle_smb1] at hst
  refine ⟨_, _, _, hst, judgeC17_accepts_model cfg _ _ _ _ (.inr rfl) (by decide) _ _ _ hst, ?_⟩
  rw [judgeC17_branches]
  have hn : nbtBody C17.exNeg1 = some (C17.exNeg1.drop 4) := by decide +kernel
  have href : refOf (obsOf C10E2E.ciTcp C17.exNeg1 C10E2E.ciTcp (smb1Repl C10E2E.envD C17.exNeg1)) = some ID_SMB1 := by
    rw [refOf_obs]; decide +kernel
  simp only [hn, href, if_true]
  have hr : (smb1Request (C17.exNeg1.drop 4)).isSome = true := by decide +kernel
  obtain ⟨req, hreq⟩ := Option.isSome_iff_exists.mp hr
  obtain ⟨r, hrep, hok⟩ := C17.smb1_reply C10E2E.envD C17.exNeg1 _ req hn hreq
  simp only [smb1Branch, hreq, hrep, hok, if_true]
  rfl

/-- sticky: the SMB2 Negotiate (dialects 0x0210 twice) as a later segment of an SMB2 flow -/
example (cfg : Cfg) (env : Env) (tcb : Option Tcb) : ∃ ci' tcb' reply,
    protoHandle cfg env ID_SMB2 C10E2E.ciTcp tcb C17.exNeg2Dup = .ok (ci', tcb', reply) ∧
    (judgeC17 (obsOf C10E2E.ciTcp C17.exNeg2Dup ci' reply (some ID_SMB2))).ok = true ∧
    (judgeC17 (obsOf C10E2E.ciTcp C17.exNeg2Dup ci' reply (some ID_SMB2))).nontrivial = true := by
  have hh := handle_smb2 cfg env C10E2E.ciTcp tcb C17.exNeg2Dup
  refine ⟨_, _, _, hh, judgeC17_accepts_model_sticky cfg env _ _ _ _ _ _ _ hh, ?_⟩
  rw [judgeC17_branches]
  have hn : nbtBody C17.exNeg2Dup = some (C17.exNeg2Dup.drop 4) := by decide +kernel
  have hreq : smb2Request (C17.exNeg2Dup.drop 4) = some (.negotiate [0x0210, 0x0210]) := by decide +kernel
  have hnc : smb2NoCommonDialect (C17.exNeg2Dup.drop 4) = false := by decide +kernel
  obtain ⟨r, hrep, hok⟩ := C17.smb2_reply env C17.exNeg2Dup _ _ hn hreq (by intro ds h; cases h; decide +kernel)
  simp only [hn, refOf_obs, smb2Branch, hreq, hnc, hrep, hok]
  have : (some ID_SMB2 = some ID_SMB1) = False := by decide
  simp only [this, if_false, if_true, Bool.false_eq_true]
  rfl

/-- a payload in the matcher's shadow set (first byte 0, then an ONC-RPC/TCP header behind the SMB1 magic)
    whose first completed signature is SMB1 in both references: SMB identification is not shadowed -/
def smbShadowed : Bytes :=
  [0, 0, 0, 24, 0xff, 0x53, 0x4d, 0x42, 0, 0, 0, 0, 0, 0, 0, 2, 0, 1, 0x86, 0xa0, 0, 0, 0, 2, 0, 0, 0, 3]

example : shadowed smbShadowed = true ∧ refStream smbShadowed = some ID_SMB1 ∧
    refStreamK2 smbShadowed = some ID_SMB1 ∧ (nbtBody smbShadowed).isSome = true := by decide +kernel

/-- the flags-byte witness of `C10E2E.smb1_flags_witness`: not identified, not answered, judge passes (trivially) -/
example : (judgeC17 (obsOf C18.ciE (C17.exNeg1.set 1 2) C18.ciE none)).ok = true ∧
    (judgeC17 (obsOf C18.ciE (C17.exNeg1.set 1 2) C18.ciE none)).nontrivial = false := by decide +kernel

end Masscanned.C17Judge

#print axioms Masscanned.C17Judge.judgeC17_accepts_model
#print axioms Masscanned.C17Judge.judgeC17_accepts_model_sticky
#print axioms Masscanned.C17Judge.judgeC17_accepts_model_sticky_repl
#print axioms Masscanned.C17Judge.judgeC17_gate_needed
