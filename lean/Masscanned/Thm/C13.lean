/-
  Thm/C13 — property C13: a complete HTTP request is answered with an `HTTP/1.1 401` response that
  carries a WWW-Authenticate challenge and a correct Content-Length; requests with an unknown method,
  a malformed request line or header line, or not yet terminated by the empty line are not answered.

  Scope: the HTTP responder `http::repl` (`httpRepl`) started from a fresh parser state, the TCP
  continuation lemmas (6), and EVERY message of a connection (7).  The protocol dispatcher (which only
  hands over payloads starting with `"<METHOD> /"`, upper case) is not part of this file.

  The property is quantified over requests AND histories.  `http::repl` resets the stored parser state
  once a request has been answered (`http_state_reset`: `*pstate = ProtocolState::new()`), so the next
  message of the connection is parsed from scratch: it is answered iff it is itself in the answered
  language (`http_every_request_answered`, `http_requests_all_answered`), and a later message that does
  not start with a method gets no reply (`http_later_junk_silent`).  (Before the repair of
  src/proto/http.rs the state stayed CONTENT and every further segment of the connection — an unknown
  method, a single junk byte — was answered with the 401 page again; formerly
  `C11.http_after_completion_repeats`.)

  Helper lemmas: `Proofs/C13/Fsm.lean` (FSM language), `Strict.lean` (strict ⊆ relaxed),
  `Table.lean` + `Verb.lean` (compiled matcher: on top of the annotation-driven closure proof of
  `Proofs/C10/HttpVerb`, re-checked by the kernel against the generated table on every run),
  `Silent.lean`, `Reply.lean`, `Proofs/HttpFix/Requests.lean` (reset, fresh control blocks).
-/
import Masscanned.Proofs.HttpFix.Requests
import Masscanned.Proofs.C13.Silent
import Masscanned.Proofs.C13.Verb
import Masscanned.Proofs.C13.Reply
import Masscanned.Proofs.C13.Lang
open Masscanned
namespace Masscanned.C13
open Spec Aux

/-- the nine methods, lower-cased (`Aux.lowerM` unfolded) -/
theorem lowerM_def : lowerM = httpMethods.map (·.map lowerB) := rfl

/-! ### 1. the language of the byte FSM (no tables involved) -/

/-- from the SPACE state (just after the verb) the FSM reaches CONTENT iff the bytes are
    `SP T SP "HTTP/" d* "." (d|CR)* LF headers`, T ∈ [^SP]* (`Aux.fsmTail`, a plain recursive
    recogniser built from the Spec's own `spanP`/`stripPrefix`/`relaxedHeaders`) -/
theorem fsm_language (rest : Bytes) : httpFold .space rest = .content ↔ fsmTail rest = true :=
  Aux.fsm_language rest

/-- same statement under the name used in the plan -/
theorem http_tail_iff (rest : Bytes) : httpFold .space rest = .content ↔ fsmTail rest = true :=
  Aux.fsm_language rest

/-- `Spec.relaxedRequest` is exactly: one of the nine methods, SP, a target starting with "/", and the
    bytes after the method in the FSM tail language -/
theorem relaxedRequest_unfold (p : Bytes) :
    relaxedRequest p = true ↔
      ∃ m ∈ httpMethods, ∃ r, p = m ++ 32 :: r ∧ r.head? = some 47 ∧ fsmTail (32 :: r) = true :=
  relaxedRequest_iff p

/-- the property's grammar is contained in the relaxed language -/
theorem strict_subset_relaxed (p : Bytes) (h : strictRequest p = true) : relaxedRequest p = true :=
  strict_relaxed p h

/-! ### 2. the verb phase -/

/-- each of the nine methods (in any letter case) is consumed exactly by the matcher, which reports
    the Verb id; the rest of the input is run through the FSM from SPACE and is never seen by the
    matcher -/
theorem verb_phase_nocase (m rest : Bytes) (hm : m.map lowerB ∈ httpMethods.map (·.map lowerB)) :
    httpParse {} (m ++ rest) =
      .ok { state := httpFold .space rest, smackState := methodRow (m.map lowerB), smackId := 0 } :=
  parse_method m rest hm

theorem verb_phase (m : Bytes) (hm : m ∈ httpMethods) (rest : Bytes) :
    httpParse {} (m ++ rest) =
      .ok { state := httpFold .space rest, smackState := methodRow (m.map lowerB), smackId := 0 } :=
  parse_method m rest (List.mem_map_of_mem hm)

/-- from a fresh state the parser never fails (no panic site is reached), and it leaves the verb
    phase only if the input starts, case-insensitively, with one of the nine methods -/
theorem verb_phase_sound (p : Bytes) :
    ∃ ps', httpParse {} p = .ok ps' ∧
      ((∃ m rest, p = m ++ rest ∧ m.map lowerB ∈ httpMethods.map (·.map lowerB) ∧
          ps'.state = httpFold .space rest ∧ ps'.smackId = 0) ∨
        ps'.state = .start ∨ ps'.state = .verb ∨ ps'.state = .fail) := by
  by_cases hp : p = []
  · subst hp
    exact ⟨{}, rfl, Or.inr (Or.inl rfl)⟩
  · obtain ⟨ps', h1, h2⟩ := parse_start p hp
    refine ⟨ps', h1, ?_⟩
    rcases h2 with h | h | h
    · exact Or.inl h
    · exact Or.inr (Or.inr (Or.inl h))
    · exact Or.inr (Or.inr (Or.inr h))

/-! ### the exact language answered by the responder -/

/-- `Aux.Answered`: the language answered by the responder — one of the nine methods in any letter
    case, followed by a member of the FSM tail language; `Aux.answeredB` is its executable form -/
theorem answered_def (p : Bytes) :
    Answered p ↔ ∃ m rest, p = m ++ rest ∧ m.map lowerB ∈ httpMethods.map (·.map lowerB) ∧
      fsmTail rest = true := Iff.rfl

theorem answered_decidable (p : Bytes) : Answered p ↔ answeredB p = true := answered_iff_B p

theorem nocase_prefix_decidable (p : Bytes) : NocaseMethodPrefix p ↔ nocasePrefixB p = true :=
  nocase_iff p

/-- **Language theorem**: from a fresh state `http::repl` never fails; it answers (always with the
    fixed 401 response) iff the payload is in `Answered`; otherwise it is silent.  (The state stored
    with an answer is the initial one: `http_every_request_answered`.) -/
theorem http_language (env : Env) (p : Bytes) :
    ∃ s o, httpRepl env {} p = .ok (s, o) ∧
      ((Answered p ∧ o = some (httpReplyBytes env)) ∨ (¬ Answered p ∧ o = none)) := by
  by_cases h : Answered p
  · exact ⟨{}, _, httpRepl_fresh_answered env p h, .inl ⟨h, rfl⟩⟩
  · obtain ⟨s, hs, _⟩ := httpRepl_fresh_silent env p h
    exact ⟨s, none, hs, .inr ⟨h, rfl⟩⟩

/-- the same with the executable recogniser: the responder computes exactly `answeredB` -/
theorem http_language_exec (env : Env) (p : Bytes) :
    ∃ s, httpRepl env {} p = .ok (s, if answeredB p then some (httpReplyBytes env) else none) := by
  obtain ⟨s, o, hs, hcase⟩ := http_language env p
  refine ⟨s, ?_⟩
  rcases hcase with ⟨h, ho⟩ | ⟨h, ho⟩
  · rw [(answered_iff_B p).1 h]; subst ho; exact hs
  · have : answeredB p = false := by
      cases hb : answeredB p
      · rfl
      · exact absurd ((answered_iff_B p).2 hb) h
    rw [this]; subst ho; exact hs

/-- answered ⇔ in the language -/
theorem answered_iff (env : Env) (p : Bytes) :
    (∃ s, httpRepl env {} p = .ok (s, some (httpReplyBytes env))) ↔ Answered p := by
  obtain ⟨s, o, hs, hcase⟩ := http_language env p
  constructor
  · rintro ⟨s', hs'⟩
    rw [hs] at hs'
    rcases hcase with ⟨h, _⟩ | ⟨_, ho⟩
    · exact h
    · subst ho; simp at hs'
  · intro h
    rcases hcase with ⟨_, ho⟩ | ⟨hn, _⟩
    · subst ho; exact ⟨s, hs⟩
    · exact absurd h hn

/-- silent (and no failure) ⇔ not in the language -/
theorem silent_iff (env : Env) (p : Bytes) :
    (∃ s, httpRepl env {} p = .ok (s, none)) ↔ ¬ Answered p := by
  obtain ⟨s, o, hs, hcase⟩ := http_language env p
  constructor
  · rintro ⟨s', hs'⟩ hn
    rw [hs] at hs'
    rcases hcase with ⟨_, ho⟩ | ⟨h, _⟩
    · subst ho; simp at hs'
    · exact h hn
  · intro h
    rcases hcase with ⟨hn, _⟩ | ⟨_, ho⟩
    · exact absurd hn h
    · subst ho; exact ⟨s, hs⟩

/-! ### 3./4. requests of the grammar are answered -/

/-- every member of `Spec.relaxedRequest` is answered with the 401 response -/
theorem relaxed_request_answered (env : Env) (p : Bytes) (h : relaxedRequest p = true) :
    ∃ s, httpRepl env {} p = .ok (s, some (httpReplyBytes env)) := by
  obtain ⟨m, hm, r, hp, _, ht⟩ := (relaxedRequest_iff p).1 h
  exact (answered_iff env p).2 ⟨m, 32 :: r, hp, List.mem_map_of_mem hm, ht⟩

/-- **C13, positive half**: every request of the property's grammar is answered -/
theorem grammar_request_answered (env : Env) (p : Bytes) (h : strictRequest p = true) :
    ∃ s, httpRepl env {} p = .ok (s, some (httpReplyBytes env)) :=
  relaxed_request_answered env p (strict_relaxed p h)

/-- converse on the dispatcher's domain: a payload that starts with an (upper-case) method, SP and "/"
    is answered only if it is in `Spec.relaxedRequest` -/
theorem answered_imp_relaxed (env : Env) (m : Bytes) (hm : m ∈ httpMethods) (r : Bytes)
    (h47 : r.head? = some 47) (s : HttpSt) (x : Bytes)
    (h : httpRepl env {} (m ++ 32 :: r) = .ok (s, some x)) : relaxedRequest (m ++ 32 :: r) = true := by
  rw [relaxedRequest_iff]
  refine ⟨m, hm, r, rfl, h47, ?_⟩
  have hpar := verb_phase m hm (32 :: r)
  unfold httpRepl at h
  rw [hpar] at h
  by_cases hc : httpFold .space (32 :: r) = .content
  · exact (Aux.fsm_language _).1 hc
  · simp [hc] at h

/-- on the dispatcher's domain the answered payloads are exactly `Spec.relaxedRequest` -/
theorem answered_iff_relaxed (env : Env) (m : Bytes) (hm : m ∈ httpMethods) (r : Bytes)
    (h47 : r.head? = some 47) :
    (∃ s, httpRepl env {} (m ++ 32 :: r) = .ok (s, some (httpReplyBytes env))) ↔
      relaxedRequest (m ++ 32 :: r) = true :=
  ⟨fun ⟨s, h⟩ => answered_imp_relaxed env m hm r h47 s _ h, relaxed_request_answered env _⟩

/-! ### 4. silence -/

/-- a correct method followed by anything outside the FSM tail language is not answered -/
theorem bad_tail_silent (env : Env) (m : Bytes) (hm : m.map lowerB ∈ httpMethods.map (·.map lowerB))
    (rest : Bytes) (h : fsmTail rest = false) :
    httpRepl env {} (m ++ rest) =
      .ok ({ state := httpFold .space rest, smackState := methodRow (m.map lowerB), smackId := 0 }, none) := by
  unfold httpRepl
  rw [parse_method m rest hm]
  have : httpFold .space rest ≠ .content := by
    intro hc
    rw [(Aux.fsm_language rest).1 hc] at h
    exact absurd h (by decide)
  simp [this]

/-- **malformed request line**: if no LF of `rest` is preceded by a well-formed request line
    (`SP target SP "HTTP/" digits "." digits/CRs`), the request is not answered -/
theorem malformed_request_line_silent (env : Env) (m : Bytes)
    (hm : m.map lowerB ∈ httpMethods.map (·.map lowerB)) (rest : Bytes)
    (h : ∀ l r, rest = l ++ 10 :: r → reqLineOk l = false) :
    ∃ s, httpRepl env {} (m ++ rest) = .ok (s, none) := by
  refine ⟨_, bad_tail_silent env m hm rest ?_⟩
  cases ht : fsmTail rest
  · rfl
  · obtain ⟨l, r, hr, hl, _⟩ := fsmTail_reqLine rest ht
    rw [h l r hr] at hl
    exact absurd hl (by decide)

/-- **header line without a colon**: after a request line and any complete header lines (`pre`: adding
    the empty line would complete the request), a line `h` with some byte other than CR but without
    ":" makes the responder silent, whatever follows -/
theorem header_without_colon_silent (env : Env) (m : Bytes)
    (hm : m.map lowerB ∈ httpMethods.map (·.map lowerB)) (pre h x : Bytes)
    (hpre : fsmTail (pre ++ [10]) = true) (hnb : hasBlankLine pre = false)
    (hh : ∀ b ∈ h, b ≠ 58 ∧ b ≠ 10) (hne : ∃ b ∈ h, b ≠ 13) :
    ∃ s, httpRepl env {} (m ++ (pre ++ (h ++ 10 :: x))) = .ok (s, none) := by
  refine ⟨_, bad_tail_silent env m hm _ ?_⟩
  cases ht : fsmTail (pre ++ (h ++ 10 :: x))
  · rfl
  · have := (Aux.fsm_language _).2 ht
    rw [fold_append, fold_pre_fstart pre hpre hnb, header_nocolon_fail h x hh hne] at this
    exact absurd this (by decide)

/-- **not terminated by the empty line**: a payload without `LF CR* LF` is never answered
    (whatever its method) -/
theorem unterminated_silent (env : Env) (p : Bytes) (h : hasBlankLine p = false) :
    ∃ s, httpRepl env {} p = .ok (s, none) := by
  rw [silent_iff]
  rintro ⟨m, rest, hp, _, ht⟩
  have := hasBlank_append m rest false (fsmTail_blank rest ht)
  rw [← hp] at this
  rw [hasBlankLine, this] at h
  exact absurd h (by decide)

/-- **unknown method**: a payload that does not begin (case-insensitively) with one of the nine
    methods is never answered — for ALL byte strings (simulation over the compiled table) -/
theorem unknown_method_silent (env : Env) (p : Bytes) (h : ¬ NocaseMethodPrefix p) :
    ∃ s, httpRepl env {} p = .ok (s, none) := by
  rw [silent_iff]
  rintro ⟨m, rest, hp, hm, _⟩
  exact h ⟨m, rest, hp, hm⟩

/-! ### 5. the response -/

/-- the 401 response is well-formed for every date text without CR/LF -/
theorem http_reply_wf (env : Env) (hd : ∀ b ∈ env.httpDate, b ≠ 10 ∧ b ≠ 13) :
    reply401Ok (httpReplyBytes env) = true :=
  reply_wf env hd

/-- **C13**: a request of the grammar gets a reply, and that reply is a well-formed 401 -/
theorem c13_answer (env : Env) (hd : ∀ b ∈ env.httpDate, b ≠ 10 ∧ b ≠ 13) (p : Bytes)
    (h : strictRequest p = true) :
    ∃ s r, httpRepl env {} p = .ok (s, some r) ∧ reply401Ok r = true := by
  obtain ⟨s, hs⟩ := grammar_request_answered env p h
  exact ⟨s, _, hs, reply_wf env hd⟩

/-! ### 6. TCP continuation -/

theorem http_fold_append (s : HSt) (a b : Bytes) :
    httpFold s (a ++ b) = httpFold (httpFold s a) b :=
  fold_append s a b

theorem http_byte_past_verb (s : HSt) (b : UInt8) (hs : s ≠ .start ∧ s ≠ .verb) :
    httpByte s b ≠ .start ∧ httpByte s b ≠ .verb := by
  obtain ⟨h1, h2⟩ := hs
  cases s <;> simp only [httpByte] <;> (try (exact absurd rfl h1)) <;> (try (exact absurd rfl h2)) <;>
    (try (exact ⟨by decide, by decide⟩))
  all_goals (repeat' split) <;> exact ⟨by simp, by simp⟩

theorem http_fold_past_verb (s : HSt) (d : Bytes) (hs : s ≠ .start ∧ s ≠ .verb) :
    httpFold s d ≠ .start ∧ httpFold s d ≠ .verb := by
  induction d generalizing s with
  | nil => exact hs
  | cons b t ih => rw [fold_cons]; exact ih _ (http_byte_past_verb s b hs)

/-- past the verb phase, `http_parse` is the byte FSM -/
theorem http_parse_past_verb (ps : HttpSt) (hs : ps.state ≠ .start ∧ ps.state ≠ .verb) (d : Bytes) :
    httpParse ps d = .ok { ps with state := httpFold ps.state d } := by
  unfold httpParse
  split
  · rename_i h; exact absurd h hs.1
  · rename_i h; exact absurd h hs.2
  · rfl

/-- parsing segment `a` then segment `b` equals parsing `a ++ b`, when the stored state is past the
    verb phase -/
theorem http_parse_append (ps : HttpSt) (hs : ps.state ≠ .start ∧ ps.state ≠ .verb) (a b : Bytes) :
    ∃ ps1, httpParse ps a = .ok ps1 ∧ (ps1.state ≠ .start ∧ ps1.state ≠ .verb) ∧
      httpParse ps1 b = httpParse ps (a ++ b) := by
  refine ⟨{ ps with state := httpFold ps.state a }, http_parse_past_verb ps hs a,
    http_fold_past_verb _ a hs, ?_⟩
  rw [http_parse_past_verb ps hs (a ++ b),
    http_parse_past_verb _ (http_fold_past_verb _ a hs) b, fold_append]

/-- the same at the level of `http::repl`, for the request in progress: AS LONG AS segment `a` does not
    complete the request, the reply decision after `a` then `b` is the one for `a ++ b`; if `a` completes
    it, `a` is answered — and so is `a ++ b` sent as one segment — and the stored state is the initial one
    (`b` is then the beginning of the NEXT request, see 7).
    (Restated: before the repair of `http::repl` the first alternative held unconditionally, the state
    CONTENT being kept.) -/
theorem http_repl_append (env : Env) (ps : HttpSt) (hs : ps.state ≠ .start ∧ ps.state ≠ .verb)
    (a b : Bytes) :
    ∃ ps1 o, httpRepl env ps a = .ok (ps1, o) ∧
      ((o = none ∧ (ps1.state ≠ .start ∧ ps1.state ≠ .verb) ∧
          httpRepl env ps1 b = httpRepl env ps (a ++ b)) ∨
       (o = some (httpReplyBytes env) ∧ ps1 = {} ∧
          httpRepl env ps (a ++ b) = .ok ({}, some (httpReplyBytes env)))) := by
  obtain ⟨ps1, h1, h2, h3⟩ := http_parse_append ps hs a b
  by_cases hc : ps1.state = .content
  · refine ⟨{}, some (httpReplyBytes env), ?_, .inr ⟨rfl, rfl, ?_⟩⟩
    · rw [httpRepl_of_parse h1]; simp only [hc, if_true]
    · have h4 := http_parse_past_verb ps1 h2 b
      rw [h3, hc, Aux.fold_content] at h4
      rw [httpRepl_of_parse h4]
      simp only [if_true]
  · refine ⟨ps1, none, ?_, .inl ⟨rfl, h2, ?_⟩⟩
    · rw [httpRepl_of_parse h1]; simp only [hc, if_false]
    · unfold httpRepl; rw [h3]

/-- a request whose method arrived in the first segment: the remaining segments are folded
    byte by byte (used by C11) -/
theorem http_parse_method_then (m : Bytes) (hm : m.map lowerB ∈ httpMethods.map (·.map lowerB))
    (a b : Bytes) :
    ∃ ps1, httpParse {} (m ++ a) = .ok ps1 ∧ httpParse ps1 b = httpParse {} (m ++ (a ++ b)) := by
  refine ⟨_, parse_method m a hm, ?_⟩
  rw [parse_method m (a ++ b) hm, http_parse_past_verb _ ?_ b, fold_append]
  exact http_fold_past_verb .space a ⟨by decide, by decide⟩

/-! ### 7. every message of a connection (the history half of the property)

  `http::repl` stores the INITIAL parser state once it has answered.  So on one TCP connection each
  message sent in a segment of its own is judged on its own: in the answered language ⇒ the 401 response
  again; not starting with a method ⇒ no reply. -/

/-- **the stored parser state is reset after a reply** (`*pstate = ProtocolState::new()`): whenever
    `http::repl` answers, from whatever stored state, the reply is the fixed 401 response and the state
    it stores is the initial one -/
theorem http_state_reset (env : Env) (s s' : HttpSt) (d r : Bytes)
    (h : httpRepl env s d = .ok (s', some r)) : s' = {} ∧ r = httpReplyBytes env :=
  httpRepl_reset h

/-- consequently a stored state is never the final state CONTENT of the parser (the state in which,
    before the repair, every further segment was answered) -/
theorem http_stored_not_content (env : Env) (s s' : HttpSt) (d : Bytes) (o : Option Bytes)
    (h : httpRepl env s d = .ok (s', o)) : s'.state ≠ .content :=
  httpRepl_not_content h

/-- **every request, `http::repl`**: from the initial parser state — the state stored after ANY answered
    request (`http_state_reset`) — a payload of the language `Answered` is answered with the 401 response
    and the state stored afterwards is the initial one again; a payload outside it is not answered -/
theorem http_every_request_answered (env : Env) (p : Bytes) :
    (Answered p → httpRepl env {} p = .ok ({}, some (httpReplyBytes env))) ∧
    (¬ Answered p → ∃ s, httpRepl env {} p = .ok (s, none)) :=
  ⟨httpRepl_fresh_answered env p, fun h => by
    obtain ⟨s, hs, _⟩ := httpRepl_fresh_silent env p h
    exact ⟨s, hs⟩⟩

/-- in the property's words: after an answered request (`s0`, `d0` arbitrary), a complete request of the
    grammar is answered with a well-formed 401 again, and the connection is ready for the next one -/
theorem http_next_grammar_request_answered (env : Env) (hd : ∀ b ∈ env.httpDate, b ≠ 10 ∧ b ≠ 13)
    (s0 s1 : HttpSt) (d0 r0 : Bytes) (h0 : httpRepl env s0 d0 = .ok (s1, some r0))
    (p : Bytes) (h : strictRequest p = true) :
    httpRepl env s1 p = .ok ({}, some (httpReplyBytes env)) ∧ reply401Ok (httpReplyBytes env) = true := by
  rw [(httpRepl_reset h0).1]
  obtain ⟨m, hm, r, hp, _, ht⟩ := (relaxedRequest_iff p).1 (strict_relaxed p h)
  exact ⟨httpRepl_fresh_answered env p ⟨m, 32 :: r, hp, List.mem_map_of_mem hm, ht⟩, reply_wf env hd⟩

/-- **a later message that does not start with a method**: after an answered request (`s0`, `d0`
    arbitrary), a segment `p` that does not begin with one of the nine methods in any letter case
    (`Spec.nocaseMethodPrefix p = false`: an unknown method, a single junk byte, nothing at all) gets NO
    reply.  The state stored is the initial one (`p` empty), VERB, or FAIL — never past the verb.
    (FAIL is absorbing, `http_fail_absorbing`; VERB need not be: `GE` then `T / HTTP/1.1` + empty line is a
    request cut inside its method, and is answered — example below.) -/
theorem http_later_junk_silent (env : Env) (s0 s1 : HttpSt) (d0 r0 : Bytes)
    (h0 : httpRepl env s0 d0 = .ok (s1, some r0)) (p : Bytes) (h : Spec.nocaseMethodPrefix p = false) :
    ∃ s2, httpRepl env s1 p = .ok (s2, none) ∧
      ((p = [] ∧ s2 = {}) ∨ (p ≠ [] ∧ s2.state = .verb) ∨ s2.state = .fail) := by
  rw [(httpRepl_reset h0).1]
  refine httpRepl_fresh_junk env p (fun hn => ?_)
  rw [(nocaseMethodPrefix_iff p).2 hn] at h
  cases h

/-- once the parser has failed (e.g. on an unknown method), nothing is answered any more on that
    connection, whatever is sent — not even a complete request — and the stored state does not change
    (observation: the property says nothing about messages FOLLOWING an unanswered one) -/
theorem http_fail_absorbing (env : Env) (s : HttpSt) (hs : s.state = .fail) (d : Bytes) :
    httpRepl env s d = .ok (s, none) :=
  httpRepl_fail env s hs d

/-- **every request, `proto::repl` with the flow's control block**: on a flow identified as HTTP whose
    stored parser state is the initial one (`FreshHttp`: in particular the block stored after any answered
    request, `resetBlock`), with the SYN-cookie gate open, a segment in the answered language gets the 401
    response and the block stored is `resetBlock t` — `FreshHttp` again -/
theorem http_reply_block (cfg : Cfg) (env : Env) (ci : ClientInfo) (hg : GateOpen ci) (t : Tcb) (hf : FreshHttp t)
    (p : Bytes) (hp : Answered p) :
    protoRepl cfg env ci (some t) p = .ok (ci, some (resetBlock t), some (httpReplyBytes env)) ∧
      FreshHttp (resetBlock t) :=
  ⟨protoRepl_fresh_request cfg env ci hg t hf p hp, freshHttp_resetBlock hf.1⟩

/-- … and a segment that does not start with a method gets a bare ACK; the block only records the parser
    state (START / VERB / FAIL) -/
theorem http_later_junk_silent_block (cfg : Cfg) (env : Env) (ci : ClientInfo) (hg : GateOpen ci) (t : Tcb)
    (hf : FreshHttp t) (p : Bytes) (h : Spec.nocaseMethodPrefix p = false) :
    ∃ s, protoRepl cfg env ci (some t) p = .ok (ci, some { t with protoState := some (.http s) }, none) ∧
      ((p = [] ∧ s = {}) ∨ (p ≠ [] ∧ s.state = .verb) ∨ s.state = .fail) := by
  have hn : ¬ NocaseMethodPrefix p := fun hn => by
    rw [(nocaseMethodPrefix_iff p).2 hn] at h; cases h
  obtain ⟨s, hs, hst⟩ := httpRepl_fresh_junk env p hn
  obtain ⟨s', hs', hr⟩ := protoRepl_fresh_silent cfg env ci hg t hf p
    (fun ⟨m, rest, hp, hm, _⟩ => hn ⟨m, rest, hp, hm⟩)
  rw [hs] at hs'
  simp only [Except.ok.injEq, Prod.mk.injEq, and_true] at hs'
  subst hs'
  exact ⟨s, hr, hst⟩

/-- **all requests of a connection are answered**: any list of segments each holding a payload of the
    answered language, fed one after the other to `proto::repl` with the flow's control block (`C11.feed`,
    as `tcp::repl` does): no panic, every segment gets the 401 response, and the block ends with the
    initial parser state -/
theorem http_requests_all_answered (cfg : Cfg) (env : Env) (ci : ClientInfo) (hg : GateOpen ci)
    (ps : List Bytes) (hps : ∀ p ∈ ps, Answered p) (t : Tcb) (hf : FreshHttp t) :
    ∃ t', C11.feed cfg env ci t ps = .ok (t', ps.map (fun _ => some (httpReplyBytes env))) ∧
      FreshHttp t' ∧ (ps ≠ [] → t' = resetBlock t) := by
  induction ps generalizing t with
  | nil => exact ⟨t, by rw [C11.feed_nil]; rfl, hf, fun h => absurd rfl h⟩
  | cons p ps ih =>
    obtain ⟨e, hf1⟩ := http_reply_block cfg env ci hg t hf p (hps p (List.mem_cons_self ..))
    obtain ⟨t', e', hf', ht'⟩ := ih (fun q h => hps q (List.mem_cons_of_mem _ h)) (resetBlock t) hf1
    refine ⟨t', ?_, hf', fun _ => ?_⟩
    · rw [C11.feed_cons_ok cfg env ci ci _ _ p _ _ e, e']
      rfl
    · by_cases hn : ps = []
      · subst hn
        rw [C11.feed_nil] at e'
        simp only [Except.ok.injEq, Prod.mk.injEq] at e'
        exact e'.1.symm
      · rw [ht' hn, resetBlock_idem]

/-- the same in the property's words: complete requests of the grammar, one per segment — each is
    answered with a well-formed 401 -/
theorem http_grammar_requests_all_answered (cfg : Cfg) (env : Env) (ci : ClientInfo) (hg : GateOpen ci)
    (hd : ∀ b ∈ env.httpDate, b ≠ 10 ∧ b ≠ 13)
    (ps : List Bytes) (hps : ∀ p ∈ ps, strictRequest p = true) (t : Tcb) (hf : FreshHttp t) :
    ∃ t' rs, C11.feed cfg env ci t ps = .ok (t', rs) ∧ rs.length = ps.length ∧ FreshHttp t' ∧
      ∀ k, k < ps.length → ∃ r, rs[k]? = some (some r) ∧ reply401Ok r = true := by
  obtain ⟨t', e, hf', _⟩ := http_requests_all_answered cfg env ci hg ps (fun p hp => by
    obtain ⟨m, hm, r, hpr, _, ht⟩ := (relaxedRequest_iff p).1 (strict_relaxed p (hps p hp))
    exact ⟨m, 32 :: r, hpr, List.mem_map_of_mem hm, ht⟩) t hf
  refine ⟨t', _, e, by simp, hf', fun k hk => ⟨httpReplyBytes env, ?_, reply_wf env hd⟩⟩
  simp [hk]

/-! ### non-vacuity examples -/

private def B (s : String) : Bytes := s.toUTF8.toList
private def env0 : Env := { httpDate := B "Tue, 29 Sep 2026 00:00:00 +0000", unixSecs := 0 }

/-- reply projection, for closed evaluation of the model -/
private def replyOf (env : Env) (p : Bytes) : Option (Option Bytes) :=
  match httpRepl env {} p with
  | .ok (_, o) => some o
  | .error _ => none

-- requests of the property's grammar (CRLF; bare LF with headers and a body)
example : strictRequest (B "GET / HTTP/1.1\r\n\r\n") = true := by decide +kernel
example : strictRequest (B "POST /a/b?c=d HTTP/1.0\nHost: x\nContent-Length: 0\n\nbody") = true := by
  decide +kernel
-- … evaluated through the model
example : replyOf env0 (B "GET / HTTP/1.1\r\n\r\n") = some (some (httpReplyBytes env0)) := by
  decide +kernel
example : replyOf env0 (B "POST /a/b?c=d HTTP/1.0\nHost: x\nContent-Length: 0\n\nbody") =
    some (some (httpReplyBytes env0)) := by decide +kernel
-- … and through the theorem, for every environment
example (env : Env) : ∃ s, httpRepl env {} (B "DELETE /x HTTP/1.1\r\nA: b\r\n\r\n") =
    .ok (s, some (httpReplyBytes env)) :=
  grammar_request_answered env _ (by decide +kernel)
-- the FSM tail language
example : fsmTail (B " / HTTP/1.1\r\n\r\n") = true := by decide +kernel
-- relaxed but not strict: empty version digits, LF-only, CRs before a header line
example : relaxedRequest (B "GET / HTTP/.\n\r\rX:\n\n") = true ∧
    strictRequest (B "GET / HTTP/.\n\r\rX:\n\n") = false := by decide +kernel
-- the responder itself is case-insensitive on the method (the dispatcher enforces upper case) and
-- does not require the leading "/" (the dispatcher's signature does)
example (env : Env) : ∃ s, httpRepl env {} (B "get / HTTP/1.1\r\n\r\n") = .ok (s, some (httpReplyBytes env)) :=
  (answered_iff env _).2 ((answered_iff_B _).2 (by decide +kernel))
example : answeredB (B "GET x HTTP/1.1\n\n") = true ∧ relaxedRequest (B "GET x HTTP/1.1\n\n") = false := by
  decide +kernel

-- unknown methods (no case-insensitive method prefix): silent
example (env : Env) : ∃ s, httpRepl env {} (B "BREW / HTTP/1.1\r\n\r\n") = .ok (s, none) :=
  unknown_method_silent env _ (fun h => absurd ((nocase_iff _).1 h) (by decide +kernel))
example (env : Env) : ∃ s, httpRepl env {} (B "XET / HTTP/1.1\r\n\r\n") = .ok (s, none) :=
  unknown_method_silent env _ (fun h => absurd ((nocase_iff _).1 h) (by decide +kernel))
example (env : Env) : ∃ s, httpRepl env {} (B "FOO / HTTP/1.1\r\n\r\n") = .ok (s, none) :=
  unknown_method_silent env _ (fun h => absurd ((nocase_iff _).1 h) (by decide +kernel))
-- GETS / PUTT begin with a method; they are silent because the byte after the method is not SP
example (env : Env) : ∃ s, httpRepl env {} (B "GET" ++ B "S / HTTP/1.1\r\n\r\n") = .ok (s, none) :=
  ⟨_, bad_tail_silent env (B "GET") (by decide +kernel) _ (by decide +kernel)⟩
example (env : Env) : ∃ s, httpRepl env {} (B "PUT" ++ B "T / HTTP/1.1\r\n\r\n") = .ok (s, none) :=
  ⟨_, bad_tail_silent env (B "PUT") (by decide +kernel) _ (by decide +kernel)⟩
example : replyOf env0 (B "GETS / HTTP/1.1\r\n\r\n") = some none ∧
    replyOf env0 (B "PUTT / HTTP/1.1\r\n\r\n") = some none ∧
    replyOf env0 (B "BREW / HTTP/1.1\r\n\r\n") = some none := by decide +kernel

/-- splitting criterion used to discharge the hypothesis of `malformed_request_line_silent` on
    concrete inputs -/
private theorem forall_split (rest : Bytes) (P : Bytes → Prop)
    (h : ∀ i ∈ List.range rest.length, rest[i]? = some 10 → P (rest.take i)) :
    ∀ l r, rest = l ++ 10 :: r → P l := by
  intro l r hr
  have h1 := h l.length (List.mem_range.2 (by rw [hr]; simp)) (by rw [hr]; simp)
  rw [hr, List.take_left'] at h1
  · exact h1
  · rfl

-- malformed request line: wrong protocol name
example (env : Env) : ∃ s, httpRepl env {} (B "GET" ++ B " / FTP/1.1\r\n\r\n") = .ok (s, none) :=
  malformed_request_line_silent env (B "GET") (by decide +kernel) _
    (forall_split _ (fun l => reqLineOk l = false) (by decide +kernel))
-- header line without a colon
example (env : Env) :
    ∃ s, httpRepl env {} (B "GET" ++ (B " / HTTP/1.1\r\nA: b\r\n" ++ (B "Host\r" ++ 10 :: B "\r\n"))) =
      .ok (s, none) :=
  header_without_colon_silent env (B "GET") (by decide +kernel) _ _ _ (by decide +kernel)
    (by decide +kernel) (by decide +kernel) (by decide +kernel)
-- not yet terminated by the empty line
example (env : Env) : ∃ s, httpRepl env {} (B "GET / HTTP/1.1\r\nHost: a\r\n") = .ok (s, none) :=
  unterminated_silent env _ (by decide +kernel)
-- the response, for a concrete RFC 2822 date
example : reply401Ok (httpReplyBytes env0) = true :=
  http_reply_wf env0 (by decide +kernel)
-- continuation: a stored state past the verb phase (the matcher state is the match row of GET, whatever
-- its number in the compiled table)
example : ∃ ps1, httpParse { state := .uri, smackState := methodRow (B "get"), smackId := 0 } (B "/ HT") = .ok ps1 ∧
    httpParse ps1 (B "TP/1.1\r\n\r\n") =
      httpParse { state := .uri, smackState := methodRow (B "get"), smackId := 0 } (B "/ HT" ++ B "TP/1.1\r\n\r\n") := by
  obtain ⟨ps1, h1, _, h3⟩ := http_parse_append { state := .uri, smackState := methodRow (B "get"), smackId := 0 }
    ⟨by decide, by decide⟩ (B "/ HT") (B "TP/1.1\r\n\r\n")
  exact ⟨ps1, h1, h3⟩

/-! #### several messages on one connection (closed terms, kernel evaluation; short date text) -/

private def envS : Env := { httpDate := B "d", unixSecs := 0 }
private def ciT : ClientInfo :=
  { ipSrc := some (.v4 [198, 51, 100, 9]), ipDst := some (.v4 [192, 0, 2, 7]), transport := some 6,
    portSrc := some 1000, portDst := some 80, cookie := some 7 }
private def cfgT : Cfg :=
  { mac := [2, 0, 0, 0, 0, 1], selfIps := none, deny := none, k0 := 1, k1 := 2, logger := .none, level := 0, ovf := true }

/-- the parser state in a control block, if it is an HTTP one -/
private def httpStateOf (t : Tcb) : Option HSt :=
  match t.protoState with
  | some (.http s) => some s.state
  | _ => none

/-- the segments `l` of one new connection through `proto::repl` (`C11.feed` from the empty block):
    protocol id and parser state stored at the end, the replies -/
private def runS (l : List Bytes) : Option (Nat × Option HSt × List (Option Bytes)) :=
  match C11.feed cfgT envS ciT {} l with
  | .ok (t, rs) => some (t.protoId, httpStateOf t, rs)
  | .error _ => none

/-- **three messages on one connection**: `GET / HTTP/1.1` answered; then `BREW / HTTP/1.1` (unknown
    method) NOT answered; then a single junk byte NOT answered (parser in FAIL).
    Before the repair all three were answered. -/
example : runS [B "GET / HTTP/1.1\r\n\r\n", B "BREW / HTTP/1.1\r\n\r\n", B "x"] =
    some (PROTO_HTTP, some .fail, [some (httpReplyBytes envS), none, none]) := by decide +kernel
/-- **a second connection with two valid requests**: both answered, the parser state stored at the end
    is the initial one -/
example : runS [B "GET / HTTP/1.1\r\n\r\n", B "POST /a HTTP/1.0\nHost: x\n\n"] =
    some (PROTO_HTTP, some .start, [some (httpReplyBytes envS), some (httpReplyBytes envS)]) := by decide +kernel
/-- three requests in a row; the later ones are judged by the responder alone (no dispatcher signature):
    lower-case method, target without "/" — all answered -/
example : runS [B "GET / HTTP/1.1\r\n\r\n", B "get / HTTP/1.1\r\n\r\n", B "GET x HTTP/1.1\n\n"] =
    some (PROTO_HTTP, some .start, [some (httpReplyBytes envS), some (httpReplyBytes envS),
      some (httpReplyBytes envS)]) := by decide +kernel
/-- later junk: a byte no method starts with → FAIL; an empty segment → nothing changes; `g` → VERB -/
example : runS [B "GET / HTTP/1.1\r\n\r\n", B "x"] =
    some (PROTO_HTTP, some .fail, [some (httpReplyBytes envS), none]) := by decide +kernel
example : runS [B "GET / HTTP/1.1\r\n\r\n", []] =
    some (PROTO_HTTP, some .start, [some (httpReplyBytes envS), none]) := by decide +kernel
example : runS [B "GET / HTTP/1.1\r\n\r\n", B "g"] =
    some (PROTO_HTTP, some .verb, [some (httpReplyBytes envS), none]) := by decide +kernel
/-- VERB is not absorbing: a later request cut inside its method (`GE` | `T / …`) is answered when complete
    (`GE` does not start with a method: `http_later_junk_silent` applies to it) -/
example : Spec.nocaseMethodPrefix (B "GE") = false ∧
    runS [B "GET / HTTP/1.1\r\n\r\n", B "GE", B "T / HTTP/1.1\r\n\r\n"] =
      some (PROTO_HTTP, some .start, [some (httpReplyBytes envS), none, some (httpReplyBytes envS)]) := by
  decide +kernel
/-- observation: after an UNANSWERED message the connection stays silent, even for a complete request
    (`http_fail_absorbing`; here the matcher is dead in VERB) -/
example : runS [B "GET / HTTP/1.1\r\n\r\n", B "BREW / HTTP/1.1\r\n\r\n", B "GET / HTTP/1.1\r\n\r\n"] =
    some (PROTO_HTTP, some .verb, [some (httpReplyBytes envS), none, none]) := by decide +kernel
-- hypotheses of `http_requests_all_answered` / `http_later_junk_silent(_block)` on these terms
example : GateOpen ciT ∧ FreshHttp { protoId := PROTO_HTTP } ∧
    FreshHttp { protoId := PROTO_HTTP, protoState := some (.http {}) } ∧
    answeredB (B "GET / HTTP/1.1\r\n\r\n") = true ∧ answeredB (B "POST /a HTTP/1.0\nHost: x\n\n") = true ∧
    strictRequest (B "POST /a HTTP/1.0\nHost: x\n\n") = true ∧
    Spec.nocaseMethodPrefix (B "BREW / HTTP/1.1\r\n\r\n") = false ∧ Spec.nocaseMethodPrefix (B "x") = false ∧
    Spec.nocaseMethodPrefix [] = false := by
  refine ⟨by decide, ⟨rfl, .inl rfl⟩, ⟨rfl, .inr rfl⟩, ?_⟩
  decide +kernel
-- … and the theorems on them, for every environment and configuration
example (cfg : Cfg) (env : Env) (t : Tcb) (hf : FreshHttp t) :
    ∃ t', C11.feed cfg env ciT t [B "GET / HTTP/1.1\r\n\r\n", B "POST /a HTTP/1.0\nHost: x\n\n"] =
      .ok (t', [some (httpReplyBytes env), some (httpReplyBytes env)]) ∧ FreshHttp t' := by
  obtain ⟨t', h1, h2, _⟩ := http_requests_all_answered cfg env ciT (by decide)
    [B "GET / HTTP/1.1\r\n\r\n", B "POST /a HTTP/1.0\nHost: x\n\n"]
    (fun p hp => (answered_iff_B p).2 (by
      simp only [List.mem_cons, List.mem_nil_iff, or_false] at hp
      rcases hp with rfl | rfl <;> decide +kernel)) t hf
  exact ⟨t', h1, h2⟩
example (env : Env) (s0 s1 : HttpSt) (d0 r0 : Bytes) (h0 : httpRepl env s0 d0 = .ok (s1, some r0)) :
    ∃ s2, httpRepl env s1 (B "BREW / HTTP/1.1\r\n\r\n") = .ok (s2, none) := by
  obtain ⟨s2, h, _⟩ := http_later_junk_silent env s0 s1 d0 r0 h0 (B "BREW / HTTP/1.1\r\n\r\n") (by decide +kernel)
  exact ⟨s2, h⟩

#print axioms http_state_reset
#print axioms http_stored_not_content
#print axioms http_every_request_answered
#print axioms http_next_grammar_request_answered
#print axioms http_later_junk_silent
#print axioms http_fail_absorbing
#print axioms http_reply_block
#print axioms http_later_junk_silent_block
#print axioms http_requests_all_answered
#print axioms http_grammar_requests_all_answered
#print axioms fsm_language
#print axioms http_tail_iff
#print axioms relaxedRequest_unfold
#print axioms strict_subset_relaxed
#print axioms verb_phase
#print axioms verb_phase_nocase
#print axioms verb_phase_sound
#print axioms http_language
#print axioms http_language_exec
#print axioms answered_iff
#print axioms silent_iff
#print axioms relaxed_request_answered
#print axioms grammar_request_answered
#print axioms answered_imp_relaxed
#print axioms answered_iff_relaxed
#print axioms bad_tail_silent
#print axioms malformed_request_line_silent
#print axioms header_without_colon_silent
#print axioms unterminated_silent
#print axioms unknown_method_silent
#print axioms http_reply_wf
#print axioms c13_answer
#print axioms http_fold_append
#print axioms http_parse_append
#print axioms http_repl_append
#print axioms http_parse_method_then

end Masscanned.C13
