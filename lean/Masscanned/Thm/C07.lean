/-
  C07 — application data is answered only behind a valid cookie, with exact seq/ack arithmetic
  (TCP layer, one segment), and the limit of the per-flow reading (32-bit cookie collisions).
-/
import Masscanned.Proofs.Ref
import Masscanned.Proofs.C07Ex
namespace Masscanned

/-- C07.1 the model's answer (or silence) to a TCP segment is exactly what the reference connection
    model `Spec.refTcp` prescribes, where "validated" is "the table has an entry for the flow's
    cookie": PSH|ACK is answered iff validated or ack = cookie+1 (mod 2^32, so ack = 0 ↔ cookie =
    0xFFFFFFFF); the reply has ACK, and PSH iff an application payload is present, seq = the peer's
    ack, ack = the peer's seq + payload length mod 2^32; a bare FIN|ACK gets FIN|ACK acking seq+1;
    a Linux-acceptable SYN gets SYN|ACK with seq = cookie; bare ACK, RST and everything else get
    nothing; and the flow is validated afterwards iff the reference model says so. -/
theorem tcp_refines_ref (cfg : Cfg) (env : Env) (st : Table) (ci : ClientInfo) (p : Bytes) (s d : Ip)
    (hl : p.length ≥ 20) (hs : ci.ipSrc = some s) (hd : ci.ipDst = some d)
    {evs : List Ev} {ci' : ClientInfo} {st' : Table} {out : Option Bytes}
    (h : tcpRepl cfg env st ci p = .ok (evs, ci', st', out)) :
    let ck := cookie cfg.k0 cfg.k1 s d (Spec.be16 p 0) (Spec.be16 p 2)
    Spec.meets (Spec.refTcp (st.get? ck).isSome ck (Spec.segOf p)).1 out = true ∧
    (st'.get? ck).isSome = (Spec.refTcp (st.get? ck).isSome ck (Spec.segOf p)).2 := by
  intro ck
  have := tcp_refines_ref' hl h
  rw [tcpCk_eq hl hs hd] at this
  exact this

/-! ### C07.2 the per-FLOW reading is false: the table is keyed by the 32-bit cookie -/

/-- two distinct IPv4 flows with the same cookie (1983115675) under the key (0, 0) -/
theorem c07_collision :
    cookie 0 0 (.v4 [1, 2, 3, 4]) (.v4 [10, 0, 0, 1]) 34624 80 = 1983115675 ∧
    cookie 0 0 (.v4 [1, 2, 3, 5]) (.v4 [10, 0, 0, 1]) 9175 80 = 1983115675 := by decide +kernel


open C07ex in
/-- C07.2 counterexample to the unrestricted per-flow statement ("a data segment of a flow is answered
    only if THAT flow acknowledged its cookie + 1"): flows A ≠ B collide on the 32-bit cookie;
    B's PSH|ACK carries a wrong acknowledgement number and is refused on an empty table, but once A
    has validated, the same segment of B is answered.  (`tcp_refines_ref` is the true variant:
    validation is per cookie value, not per flow.) -/
theorem c07_full_false :
    ∃ (cfg : Cfg) (env : Env) (ciA ciB : ClientInfo) (sA dA sB dB : Ip) (a b : Bytes),
      ciA.ipSrc = some sA ∧ ciA.ipDst = some dA ∧ ciB.ipSrc = some sB ∧ ciB.ipDst = some dB ∧
      a.length ≥ 20 ∧ b.length ≥ 20 ∧
      -- distinct flows
      (sA, dA, Spec.be16 a 0, Spec.be16 a 2) ≠ (sB, dB, Spec.be16 b 0, Spec.be16 b 2) ∧
      -- B's acknowledgement number is not B's cookie + 1
      Spec.be32 b 8 ≠ (cookie cfg.k0 cfg.k1 sB dB (Spec.be16 b 0) (Spec.be16 b 2) + 1) % 4294967296 ∧
      -- on the empty table B's segment is dropped and nothing is stored
      (∃ evs ci', tcpRepl cfg env [] ciB b = .ok (evs, ci', [], none)) ∧
      -- A validates, and then B's segment is answered
      (∃ evs ci1 st1 r1 evs2 ci2 st2 r2,
        tcpRepl cfg env [] ciA a = .ok (evs, ci1, st1, some r1) ∧
        tcpRepl cfg env st1 ciB b = .ok (evs2, ci2, st2, some r2)) := by
  refine ⟨cfg0, env0, ciA, ciB, _, _, _, _, segA, segB, rfl, rfl, rfl, rfl, by decide, by decide, by decide,
    by decide +kernel, ?_, ?_⟩
  · have h := chk_true
    unfold chk at h
    rw [Bool.and_eq_true] at h
    have h1 := h.1
    split at h1
    · rename_i e; exact ⟨_, _, e⟩
    · cases h1
  · have h := chk_true
    unfold chk at h
    rw [Bool.and_eq_true] at h
    have h2 := h.2
    split at h2
    · rename_i e1
      split at h2
      · rename_i e2; exact ⟨_, _, _, _, _, _, _, _, e1, e2⟩
      · cases h2
    · cases h2

open C07ex in
/-- the same consequence derived from `tcp_refines_ref`, for EVERY table in which the colliding
    cookie is present (flow A validated at some earlier time) and every environment: B's wrong-ack
    data segment is answered. -/
theorem c07_collision_answered (env : Env) (st : Table) (hA : (st.get? 1983115675).isSome = true)
    {evs : List Ev} {ci' : ClientInfo} {st' : Table} {out : Option Bytes}
    (h : tcpRepl cfg0 env st ciB segB = .ok (evs, ci', st', out)) : out.isSome = true := by
  have hm := (tcp_refines_ref cfg0 env st ciB segB _ _ (by decide) rfl rfl h).1
  have hck : cookie cfg0.k0 cfg0.k1 (.v4 [1, 2, 3, 5]) (.v4 [10, 0, 0, 1]) (Spec.be16 segB 0) (Spec.be16 segB 2)
      = 1983115675 := by decide +kernel
  rw [hck, hA] at hm
  cases out with
  | some r => rfl
  | none =>
    have : Spec.meets (Spec.refTcp true 1983115675 (Spec.segOf segB)).1 none = false := by decide +kernel
    rw [this] at hm; cases hm

/-- C07 per-flow reading, strongest true variant: a data segment (PSH and ACK set) is answered only if
    it acknowledges its flow's cookie + 1 (mod 2^32) or the table already holds an entry for that
    cookie VALUE (put there by this flow or, as in `c07_full_false`, by a colliding one); on a table
    without that cookie, "answered ↔ ack = cookie + 1" holds exactly. -/
theorem c07_partial (cfg : Cfg) (env : Env) (st : Table) (ci : ClientInfo) (p : Bytes) (s d : Ip)
    (hl : p.length ≥ 20) (hs : ci.ipSrc = some s) (hd : ci.ipDst = some d)
    (hdata : tcpFlags p / 8 % 2 = 1 ∧ tcpFlags p / 16 % 2 = 1)
    {evs : List Ev} {ci' : ClientInfo} {st' : Table} {out : Option Bytes}
    (h : tcpRepl cfg env st ci p = .ok (evs, ci', st', out)) :
    let ck := cookie cfg.k0 cfg.k1 s d (Spec.be16 p 0) (Spec.be16 p 2)
    (out.isSome = true ↔ ((st.get? ck).isSome = true ∨ Spec.be32 p 8 = (ck + 1) % 4294967296)) := by
  intro ck
  have hm := (tcp_refines_ref cfg env st ci p s d hl hs hd h).1
  rw [refTcp_data hdata] at hm
  split at hm
  · rename_i hv
    cases out with
    | none => simp [Spec.meets] at hm
    | some r => simp only [Option.isSome_some, true_iff]; exact hv
  · rename_i hv
    cases out with
    | none => simp only [Option.isSome_none, Bool.false_eq_true, false_iff]; exact hv
    | some r => simp [Spec.meets] at hm

/-! ### non-vacuity of `tcp_refines_ref` / `c07_partial` -/
open C07ex in
example : segA.length ≥ 20 ∧ ciA.ipSrc = some (.v4 [1, 2, 3, 4]) ∧ ciA.ipDst = some (.v4 [10, 0, 0, 1]) ∧
    Spec.tcpFlagsOf segA = 24 ∧
    (∃ evs ci' st' r, tcpRepl cfg0 env0 [] ciA segA = .ok (evs, ci', st', some r)) := by
  refine ⟨by decide, rfl, rfl, by decide, ?_⟩
  have h := chk_true
  unfold chk at h
  rw [Bool.and_eq_true] at h
  have h2 := h.2
  split at h2
  · rename_i e1; exact ⟨_, _, _, _, e1⟩
  · cases h2

#print axioms tcp_refines_ref
#print axioms c07_collision
#print axioms c07_full_false
#print axioms c07_collision_answered
#print axioms c07_partial

end Masscanned
