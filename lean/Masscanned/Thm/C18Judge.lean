/-
  Thm/C18Judge — soundness of the run-time judge `Spec.judgeC18` (SSH banner / Gh0st) with respect to
  the model: on an observation built from the model's own answer (`J3.obsOf`, the way `Main.judgeApp`
  builds it) the judge never fails.

  * `judgeC18_accepts_model`: datagram (`tcb = none`) and first segment of a TCP flow (`tcb = some {}`),
    under the single hypothesis that the SYN-cookie gate of `proto::repl` is open (`E2E.Gate ci`: not
    "TCP without cookie"; always true for the client infos the UDP and TCP layers produce).  The
    hypothesis is needed (`judgeC18_gate_needed`): with the gate closed nothing is answered and the
    judge rightly demands an answer to "Gh0st…".
  * `judgeC18_accepts_model_sticky`: later segment of an identified flow (`forced = some id`), reply of
    `protoHandle … id …`: no hypothesis at all (any id, any control block, any client info);
    `judgeC18_accepts_model_sticky_repl` is the same through `protoRepl` on a control block with a
    sticky id (gate open).

  * The judge recognises an SSH banner in a reply as a COMPLETE identification string (`Spec.sshIdent r`), not by
    its first four bytes.  Consequently its last branch does not depend on the shadow set K2 any more:
    `judgeC18_accepts_any_non_banner` (payload neither "Gh0st…" nor an answered identification string: every
    reply that is not an identification string, and silence, is accepted), `J3.handle_not_banner` (no handler
    but the SSH one produces an identification string — proved from the reply shapes alone, no fact about the
    matcher), `judgeC18_rpc_ssh_xid_ok` (the ONC-RPC/UDP responder's own reply to a portmapper call with xid
    "SSH-", which starts with "SSH-", is accepted: the byte after the xid is 0x00, not a version byte).  The
    judge keeps its teeth: `ssh_reply_is_banner` (the SSH responder's only reply is `sshBannerExpected`, which
    satisfies `sshIdent`) and `judgeC18_catches_banner` (the banner sent for anything that is not an answered
    identification string is rejected, fresh flow and sticky SSH flow).

  No judge-vs-model discrepancy for C18.
-/
import Masscanned.Proofs.J3.Judge
open Masscanned
namespace Masscanned.C18Judge
open Masscanned.Spec Masscanned.E2E Masscanned.J3

/-- **`judgeC18` accepts the model** (datagram / first TCP segment) -/
theorem judgeC18_accepts_model (cfg : Cfg) (env : Env) (ci : ClientInfo) (p : Bytes) (tcb : Option Tcb)
    (ht : FreshTcb tcb) (hg : Gate ci) (ci' : ClientInfo) (tcb' : Option Tcb) (reply : Option Bytes)
    (h : protoRepl cfg env ci tcb p = .ok (ci', tcb', reply)) :
    (judgeC18 (obsOf ci p ci' reply)).ok = true := by
  rw [judgeC18_obs]
  simp only [reduceCtorEq, if_false, Option.isSome_none, Bool.false_eq_true]
  by_cases hgh : "Gh0st".toUTF8.toList.isPrefixOf p = true
  · rw [if_pos hgh]
    obtain ⟨_, h1, ⟨t, h2, _⟩, hok⟩ := C10E2E.ghost_e2e cfg env ci p hg hgh
    have : reply = some Gen.ghostReply := by
      rcases ht with rfl | rfl
      · rw [h1] at h; simp only [Except.ok.injEq, Prod.mk.injEq] at h; exact h.2.2.symm
      · rw [h2] at h; simp only [Except.ok.injEq, Prod.mk.injEq] at h; exact h.2.2.symm
    subst this
    simp only [hok, if_true]
    rfl
  · rw [if_neg hgh]
    by_cases hs : sshAnswered p = true
    · rw [if_pos hs]
      obtain ⟨_, h1, t, h2, _⟩ := C10E2E.ssh_e2e cfg env ci p hg hs
      have : reply = some sshBannerExpected := by
        rcases ht with rfl | rfl
        · rw [h1] at h; simp only [Except.ok.injEq, Prod.mk.injEq] at h; exact h.2.2.symm
        · rw [h2] at h; simp only [Except.ok.injEq, Prod.mk.injEq] at h; exact h.2.2.symm
      rw [if_pos this]
      rfl
    · rw [if_neg hs]
      cases reply with
      | none => rfl
      | some r =>
        simp only
        have hc : sshIdent r = false := by
          rcases reply_banner_cases ht h with ⟨hid, hh⟩ | hn
          · exfalso
            apply hs
            rw [C18.spec_answered_iff]
            exact ⟨k2_ssh_inv p hid, ((C18.ssh_answered_iff p r).1 hh).2⟩
          · exact hn
        simp only [hc, Bool.false_eq_true, if_false]
        rfl

/-- **sticky case**: later segment of a flow already identified as protocol `id` (any `id`), judged on
    that segment alone against the reply of the handler of `id` -/
theorem judgeC18_accepts_model_sticky (cfg : Cfg) (env : Env) (id : Nat) (ci : ClientInfo) (p : Bytes)
    (tcb : Option Tcb) (ci' : ClientInfo) (tcb' : Option Tcb) (reply : Option Bytes)
    (h : protoHandle cfg env id ci tcb p = .ok (ci', tcb', reply)) :
    (judgeC18 (obsOf ci p ci' reply (some id))).ok = true := by
  rw [judgeC18_obs]
  simp only [Option.some.injEq, Option.isSome_some, if_true]
  by_cases hid : id = ID_SSH
  · subst hid
    rw [if_pos rfl]
    have hr := (ssh_arm h).1
    rw [C18.sshRepl_eq] at hr
    simp only [Except.ok.injEq] at hr
    by_cases hs : sshAnswered p = true
    · rw [if_pos hs]
      have hl := ((C18.spec_answered_iff p).1 hs).2
      rw [if_pos hl] at hr
      rw [if_pos (by rw [← hr]; rfl)]
      rfl
    · rw [if_neg hs]
      rw [sshIdent_eq]
      cases hl : C18.sshLang p with
      | true => rfl
      | false =>
        rw [hl] at hr
        simp only [Bool.false_eq_true, if_false] at hr
        subst hr
        rfl
  · rw [if_neg hid]
    rfl

/-- the same through `proto::repl` on a control block carrying the sticky id -/
theorem judgeC18_accepts_model_sticky_repl (cfg : Cfg) (env : Env) (ci : ClientInfo) (p : Bytes) (t : Tcb)
    (hg : Gate ci) (hid : t.protoId ≠ PROTO_NONE) (ci' : ClientInfo) (tcb' : Option Tcb) (reply : Option Bytes)
    (h : protoRepl cfg env ci (some t) p = .ok (ci', tcb', reply)) :
    (judgeC18 (obsOf ci p ci' reply (some t.protoId))).ok = true := by
  rw [model_sticky cfg env ci t p hg hid] at h
  exact judgeC18_accepts_model_sticky cfg env _ ci p _ ci' tcb' reply h

/-! ### the gate hypothesis is needed -/

/-- TCP client info without SYN cookie: the model answers nothing, the judge demands the Gh0st frame -/
theorem judgeC18_gate_needed (cfg : Cfg) (env : Env) :
    ¬ Gate ciNoCookie ∧ protoRepl cfg env ciNoCookie none C18.ghE = .ok (ciNoCookie, none, none) ∧
    (judgeC18 (obsOf ciNoCookie C18.ghE ciNoCookie none)).ok = false :=
  ⟨by decide, model_gate cfg env _ _ _ (by decide), by decide +kernel⟩

/-! ### the judge does not depend on the shadow set K2 -/

/-- payload neither "Gh0st…" nor an answered identification string, fresh flow: silence and every reply that is
    not a complete SSH identification string are accepted — whoever produced it, whatever it starts with -/
theorem judgeC18_accepts_any_non_banner (ci : ClientInfo) (p : Bytes) (ci' : ClientInfo) (reply : Option Bytes)
    (hgh : "Gh0st".toUTF8.toList.isPrefixOf p = false) (hs : sshAnswered p = false)
    (hr : ∀ r, reply = some r → sshIdent r = false) :
    (judgeC18 (obsOf ci p ci' reply)).ok = true := by
  rw [judgeC18_obs]
  simp only [reduceCtorEq, if_false, Option.isSome_none, Bool.false_eq_true, hgh, hs]
  cases reply with
  | none => rfl
  | some r =>
    simp only [hr r rfl, Bool.false_eq_true, if_false]
    rfl

/-- the same on a sticky SSH flow, for a segment that is not an identification string -/
theorem judgeC18_accepts_any_non_banner_sticky (ci : ClientInfo) (p : Bytes) (ci' : ClientInfo)
    (reply : Option Bytes) (hs : sshAnswered p = false) (hr : ∀ r, reply = some r → sshIdent r = false) :
    (judgeC18 (obsOf ci p ci' reply (some ID_SSH))).ok = true := by
  rw [judgeC18_obs]
  simp only [if_true, hs, Bool.false_eq_true, if_false]
  cases hi : sshIdent p with
  | true => rfl
  | false =>
    cases reply with
    | none => rfl
    | some r =>
      simp only [Bool.not_false, if_true, hr r rfl, Bool.false_eq_true, if_false]
      rfl

/-- the SSH responder's only reply is `sshBannerExpected`, and it is a complete identification string -/
theorem ssh_reply_is_banner (d r : Bytes) (h : sshRepl d = .ok (some r)) :
    r = sshBannerExpected ∧ sshIdent r = true := by
  have := C18.ssh_reply_exact d r h
  exact ⟨this, by rw [this]; exact sshIdent_banner⟩

/-- so the judge still catches a banner sent for a payload that is not an answered identification string:
    on a fresh flow (payload not "Gh0st…") and on a sticky SSH flow (segment not an identification string) -/
theorem judgeC18_catches_banner (ci : ClientInfo) (p : Bytes) (ci' : ClientInfo)
    (hs : sshAnswered p = false) :
    ("Gh0st".toUTF8.toList.isPrefixOf p = false →
      (judgeC18 (obsOf ci p ci' (some sshBannerExpected))).ok = false) ∧
    (sshIdent p = false → (judgeC18 (obsOf ci p ci' (some sshBannerExpected) (some ID_SSH))).ok = false) := by
  constructor
  · intro hgh
    rw [judgeC18_obs]
    simp only [reduceCtorEq, if_false, Option.isSome_none, Bool.false_eq_true, hgh, hs, sshIdent_banner, if_true]
    rfl
  · intro hi
    rw [judgeC18_obs]
    simp only [if_true, hs, Bool.false_eq_true, if_false, hi, Bool.not_false, sshIdent_banner]
    rfl

/-- a portmapper GETPORT call whose xid is the four bytes "SSH-" -/
def xidSsh : Bytes := C16.mkCall 0x5353482d 100000 2 3

/-- `xidSsh` completes the PUBLISHED ONC-RPC/UDP signature but lies in the shadow set (first byte 'S'): the
    model is silent (accepted).  If the program followed the published signatures (finding K2 fixed) the
    ONC-RPC/UDP responder would answer with a reply that starts with the echoed xid "SSH-" (`Spec.classify`
    calls it `.ssh`); it is not an identification string, and the judge accepts that observation too: the
    verdict on this call is the same with and without K2. -/
theorem judgeC18_rpc_ssh_xid_ok (cfg : Cfg) (env : Env) :
    refDatagram xidSsh = some ID_RPC_UDP ∧ shadowed xidSsh = true ∧ refDatagramK2 xidSsh = none ∧
    protoRepl cfg env C10E2E.ciUdp none xidSsh = .ok (C10E2E.ciUdp, none, none) ∧
    (judgeC18 (obsOf C10E2E.ciUdp xidSsh C10E2E.ciUdp none)).ok = true ∧
    (∃ r, protoHandle cfg env ID_RPC_UDP C10E2E.ciUdp none xidSsh = .ok (C10E2E.ciUdp, none, some r) ∧
      sshMagic.isPrefixOf r = true ∧ classify r = .ssh ∧ sshIdent r = false ∧
      (judgeC18 (obsOf C10E2E.ciUdp xidSsh C10E2E.ciUdp (some r))).ok = true) := by
  have hid : refDatagramK2 xidSsh = none := by decide +kernel
  have hgh : "Gh0st".toUTF8.toList.isPrefixOf xidSsh = false := by decide +kernel
  have hs : sshAnswered xidSsh = false := by decide +kernel
  refine ⟨by decide +kernel, by decide +kernel, hid, ?_,
    judgeC18_accepts_any_non_banner _ _ _ _ hgh hs (by intro r h; cases h), ?_⟩
  · rw [model_none cfg env _ _ (by decide), hid]
    have : dnsParse xidSsh = none := by decide +kernel
    simp only [this, Option.bind_none]
  · obtain ⟨c, hc⟩ := Option.isSome_iff_exists.mp (show (parseCall xidSsh).isSome = true by decide +kernel)
    obtain ⟨r, hq, _⟩ := C16.rpc_reply_udp cfg.ovf C10E2E.ciUdp xidSsh c _ 111 hc rfl rfl (by decide)
    have hh : protoHandle cfg env ID_RPC_UDP C10E2E.ciUdp none xidSsh = .ok (C10E2E.ciUdp, none, some r) := by
      rw [handle_rpc_udp, hq]
    have hni := handle_not_banner (by decide) hh
    have hx : ∃ x0 x1 x2 x3 x t, r = [x0, x1, x2, x3, 0, 0, 0, 1, 0, 0, 0, 0, 0, 0, 0, 0, 0, 0, 0, 0, 0, 0, 0, x] ++ t :=
      C12.rpc_udp_shape ⟨_, _, _, hq⟩
    have hmag : sshMagic.isPrefixOf r = true := by
      have h32 : u32be 0x5353482d = [83, 83, 72, 45] := by decide
      unfold rpcReplUdp at hq
      obtain ⟨s, hparse, hdone, hxid, _⟩ := C16.rpc_parse_header cfg.ovf xidSsh.length xidSsh (by decide +kernel)
      rw [hparse] at hq
      simp only [hdone, if_true] at hq
      cases hb : rpcBuild s C10E2E.ciUdp with
      | error e => rw [hb] at hq; cases hq
      | ok resp =>
        rw [hb] at hq
        simp only [Except.ok.injEq, Option.some.injEq] at hq
        subst hq
        obtain ⟨x, t, e⟩ := C12.rpcBuild_shape hb
        have hx32 : s.xid = 0x5353482d := by rw [hxid]; decide +kernel
        rw [e, hx32, h32]
        simp [sshMagic, List.isPrefixOf]
    refine ⟨r, hh, hmag, ?_, hni, judgeC18_accepts_any_non_banner _ _ _ _ hgh hs (by intro r' h; cases h; exact hni)⟩
    unfold classify
    rw [ssh4_eq, http7_eq, if_neg, if_pos hmag]
    obtain ⟨x0, x1, x2, x3, x, t, e⟩ := hx
    rw [e]
    simp [http7, List.isPrefixOf]

/-! ### non-vacuity: concrete requests, non-trivial verdicts -/

example : FreshTcb none ∧ FreshTcb (some {}) := ⟨.inl rfl, .inr rfl⟩
example : Gate C10E2E.ciUdp ∧ Gate C10E2E.ciTcp := by decide

/-- "SSH-2.0-OpenSSH_8.1 foo\r\n" over UDP: answered with the banner, verdict ok and non-trivial -/
example (cfg : Cfg) (env : Env) : ∃ ci' tcb' reply,
    protoRepl cfg env C10E2E.ciUdp none C18.ex1 = .ok (ci', tcb', reply) ∧
    (judgeC18 (obsOf C10E2E.ciUdp C18.ex1 ci' reply)).ok = true ∧
    (judgeC18 (obsOf C10E2E.ciUdp C18.ex1 ci' reply)).nontrivial = true :=
  ⟨_, _, _, (C10E2E.ssh_e2e cfg env C10E2E.ciUdp _ (by decide) (by decide +kernel)).2.1,
    by decide +kernel, by decide +kernel⟩

/-- "Gh0st…" as first segment of a TCP flow -/
example (cfg : Cfg) (env : Env) : ∃ ci' tcb' reply,
    protoRepl cfg env C10E2E.ciTcp (some {}) C18.ghE = .ok (ci', tcb', reply) ∧
    (judgeC18 (obsOf C10E2E.ciTcp C18.ghE ci' reply)).nontrivial = true := by
  obtain ⟨t, ht, _⟩ := (C10E2E.ghost_e2e cfg env C10E2E.ciTcp C18.ghE (by decide) (by decide +kernel)).2.2.1
  exact ⟨_, _, _, ht, by decide +kernel⟩

/-- an unterminated identification string is not answered: the silent branch is non-trivial too -/
def unterminated : Bytes := "SSH-2.0-OpenSSH_8.1".toUTF8.toList

example (cfg : Cfg) (env : Env) : ∃ ci' tcb' reply,
    protoRepl cfg env C10E2E.ciUdp none unterminated = .ok (ci', tcb', reply) ∧
    (judgeC18 (obsOf C10E2E.ciUdp unterminated ci' reply)).ok = true ∧
    (judgeC18 (obsOf C10E2E.ciUdp unterminated ci' reply)).nontrivial = true := by
  have hid : refDatagramK2 unterminated = some ID_SSH := by decide +kernel
  have hr : protoRepl cfg env C10E2E.ciUdp none unterminated = .ok (C10E2E.ciUdp, none, none) := by
    rw [dispatch_datagram_K2 cfg env _ _ _ (by decide) hid, handle_ssh, C18.sshRepl_eq]
    have hl : C18.sshLang unterminated = false := by decide +kernel
    rw [hl]; rfl
  exact ⟨_, _, _, hr, by decide +kernel, by decide +kernel⟩

/-- sticky: a second identification string on an SSH flow, answered again -/
example (cfg : Cfg) (env : Env) (tcb : Option Tcb) : ∃ ci' tcb' reply,
    protoHandle cfg env ID_SSH C10E2E.ciTcp tcb C18.ex3 = .ok (ci', tcb', reply) ∧
    (judgeC18 (obsOf C10E2E.ciTcp C18.ex3 ci' reply (some ID_SSH))).nontrivial = true := by
  refine ⟨_, _, _, by rw [handle_ssh, C18.ssh_spec C18.ex3 (by decide +kernel)], by decide +kernel⟩

end Masscanned.C18Judge

#print axioms Masscanned.C18Judge.judgeC18_accepts_model
#print axioms Masscanned.C18Judge.judgeC18_accepts_model_sticky
#print axioms Masscanned.C18Judge.judgeC18_accepts_model_sticky_repl
#print axioms Masscanned.C18Judge.judgeC18_gate_needed
#print axioms Masscanned.C18Judge.judgeC18_accepts_any_non_banner
#print axioms Masscanned.C18Judge.judgeC18_accepts_any_non_banner_sticky
#print axioms Masscanned.C18Judge.ssh_reply_is_banner
#print axioms Masscanned.C18Judge.judgeC18_catches_banner
#print axioms Masscanned.C18Judge.judgeC18_rpc_ssh_xid_ok
