/-
  Thm/C18Judge — soundness of the run-time judge `Spec.judgeC18` (SSH banner / Gh0st) with respect to
  the model: on an observation built from the model's own answer (`J3.obsOf`, the way `Main.judgeApp`
  builds it) the judge never fails.

  * `judgeC18_accepts_model`: datagram (`tcb = none`) and first segment of a TCP flow (`tcb = some {}`),
    under the single hypothesis that the SYN-cookie gate of `proto::repl` is open (`E2E.Gate ci`: not
    "TCP without cookie"; always true for the client infos the UDP and TCP layers produce).  The
    hypothesis is needed (`judgeC18_gate_needed`): with the gate closed nothing is answered and the
    judge rightly demands an answer to "Gh0st…".
  * `judgeC18_accepts_model_sticky`: later segment of an identified flow (`forced = some id`), reply of
    `protoHandle … id …`: no hypothesis at all (any id, any control block, any client info);
    `judgeC18_accepts_model_sticky_repl` is the same through `protoRepl` on a control block with a
    sticky id (gate open).

  No judge-vs-model discrepancy for C18.  The case that needed an argument: the judge's last branch
  (payload neither "Gh0st…" nor an answered identification string) fails on ANY reply that starts with
  "SSH-", whoever produced it; the ONC-RPC/UDP responder echoes the first four payload bytes (the xid) in
  front of its reply, so a portmapper call with xid "SSH-" would be a false alarm — it cannot happen
  because the compiled matcher does not identify an ONC-RPC call whose first byte is 'S' (known finding
  K2, `J3.k2_rpc_udp_head`): here the shadow set protects the judge.  `judgeC18_relies_on_K2` makes the
  dependence explicit: if K2 were fixed in the program, the judge would raise a false alarm on that call.
-/
import Masscanned.Proofs.J3.Judge
open Masscanned
namespace Masscanned.C18Judge
open Masscanned.Spec Masscanned.E2E Masscanned.J3

/-- **`judgeC18` accepts the model** (datagram / first TCP segment) -/
theorem judgeC18_accepts_model (cfg : Cfg) (env : Env) (ci : ClientInfo) (p : Bytes) (tcb : Option Tcb)
    (ht : FreshTcb tcb) (hg : Gate ci) (ci' : ClientInfo) (tcb' : Option Tcb) (reply : Option Bytes)
    (h : protoRepl cfg env ci tcb p = .ok (ci', tcb', reply)) :
    (judgeC18 (obsOf ci p ci' reply)).ok = true := by
  rw [judgeC18_obs]
  simp only [reduceCtorEq, if_false, Option.isSome_none, Bool.false_eq_true]
  by_cases hgh : "Gh0st".toUTF8.toList.isPrefixOf p = true
  · rw [if_pos hgh]
    obtain ⟨_, h1, ⟨t, h2, _⟩, hok⟩ := C10E2E.ghost_e2e cfg env ci p hg hgh
    have : reply = some Gen.ghostReply := by
      rcases ht with rfl | rfl
      · rw [h1] at h; simp only [Except.ok.injEq, Prod.mk.injEq] at h; exact h.2.2.symm
      · rw [h2] at h; simp only [Except.ok.injEq, Prod.mk.injEq] at h; exact h.2.2.symm
    subst this
    simp only [hok, if_true]
    rfl
  · rw [if_neg hgh]
    by_cases hs : sshAnswered p = true
    · rw [if_pos hs]
      obtain ⟨_, h1, t, h2, _⟩ := C10E2E.ssh_e2e cfg env ci p hg hs
      have : reply = some sshBannerExpected := by
        rcases ht with rfl | rfl
        · rw [h1] at h; simp only [Except.ok.injEq, Prod.mk.injEq] at h; exact h.2.2.symm
        · rw [h2] at h; simp only [Except.ok.injEq, Prod.mk.injEq] at h; exact h.2.2.symm
      rw [if_pos this]
      rfl
    · rw [if_neg hs]
      cases reply with
      | none => rfl
      | some r =>
        simp only
        have hc : classify r ≠ .ssh := by
          rcases reply_cases ht h with ⟨_, s, hh⟩ | ⟨hid, hh⟩ | hn
          · obtain ⟨s', o, hl, hcase⟩ := C13.http_language env p
            rw [hl] at hh
            simp only [Except.ok.injEq, Prod.mk.injEq] at hh
            rcases hcase with ⟨_, ho⟩ | ⟨_, ho⟩
            · rw [ho] at hh
              simp only [Option.some.injEq] at hh
              obtain ⟨rest, hr⟩ := C12.http_shape ⟨env, hh.2.symm⟩
              rw [hr]
              exact http_head_not_ssh rest
            · rw [ho] at hh; cases hh.2
          · exfalso
            apply hs
            rw [C18.spec_answered_iff]
            exact ⟨k2_ssh_inv p hid, ((C18.ssh_answered_iff p r).1 hh).2⟩
          · exact (notSH_classify hn).1
        rw [if_neg hc]
        rfl

/-- **sticky case**: later segment of a flow already identified as protocol `id` (any `id`), judged on
    that segment alone against the reply of the handler of `id` -/
theorem judgeC18_accepts_model_sticky (cfg : Cfg) (env : Env) (id : Nat) (ci : ClientInfo) (p : Bytes)
    (tcb : Option Tcb) (ci' : ClientInfo) (tcb' : Option Tcb) (reply : Option Bytes)
    (h : protoHandle cfg env id ci tcb p = .ok (ci', tcb', reply)) :
    (judgeC18 (obsOf ci p ci' reply (some id))).ok = true := by
  rw [judgeC18_obs]
  simp only [Option.some.injEq, Option.isSome_some, if_true]
  by_cases hid : id = ID_SSH
  · subst hid
    rw [if_pos rfl]
    have hr := (ssh_arm h).1
    rw [C18.sshRepl_eq] at hr
    simp only [Except.ok.injEq] at hr
    by_cases hs : sshAnswered p = true
    · rw [if_pos hs]
      have hl := ((C18.spec_answered_iff p).1 hs).2
      rw [if_pos hl] at hr
      rw [if_pos (by rw [← hr]; rfl)]
      rfl
    · rw [if_neg hs]
      rw [sshIdent_eq]
      cases hl : C18.sshLang p with
      | true => rfl
      | false =>
        rw [hl] at hr
        simp only [Bool.false_eq_true, if_false] at hr
        subst hr
        rfl
  · rw [if_neg hid]
    rfl

/-- the same through `proto::repl` on a control block carrying the sticky id -/
theorem judgeC18_accepts_model_sticky_repl (cfg : Cfg) (env : Env) (ci : ClientInfo) (p : Bytes) (t : Tcb)
    (hg : Gate ci) (hid : t.protoId ≠ PROTO_NONE) (ci' : ClientInfo) (tcb' : Option Tcb) (reply : Option Bytes)
    (h : protoRepl cfg env ci (some t) p = .ok (ci', tcb', reply)) :
    (judgeC18 (obsOf ci p ci' reply (some t.protoId))).ok = true := by
  rw [model_sticky cfg env ci t p hg hid] at h
  exact judgeC18_accepts_model_sticky cfg env _ ci p _ ci' tcb' reply h

/-! ### the gate hypothesis is needed -/

/-- TCP client info without SYN cookie: the model answers nothing, the judge demands the Gh0st frame -/
theorem judgeC18_gate_needed (cfg : Cfg) (env : Env) :
    ¬ Gate ciNoCookie ∧ protoRepl cfg env ciNoCookie none C18.ghE = .ok (ciNoCookie, none, none) ∧
    (judgeC18 (obsOf ciNoCookie C18.ghE ciNoCookie none)).ok = false :=
  ⟨by decide, model_gate cfg env _ _ _ (by decide), by decide +kernel⟩

/-! ### the judge's last branch is sound only because of the shadow set K2 -/

/-- a portmapper GETPORT call whose xid is the four bytes "SSH-" -/
def xidSsh : Bytes := C16.mkCall 0x5353482d 100000 2 3

/-- LATENT (would surface if finding K2 were fixed in the program): `xidSsh` completes the PUBLISHED
    ONC-RPC/UDP signature, but lies in the shadow set (first byte 'S'), so the compiled matcher identifies
    nothing and the model is silent — verdict ok.  The ONC-RPC/UDP responder itself would answer with a reply
    that starts with the echoed xid "SSH-", which `Spec.classify` takes for an SSH banner: on that
    observation `judgeC18` FAILS ("SSH banner sent for a malformed / unterminated identification string"),
    although the behaviour would be exactly what C10 + C16 prescribe. -/
theorem judgeC18_relies_on_K2 (cfg : Cfg) (env : Env) :
    refDatagram xidSsh = some ID_RPC_UDP ∧ shadowed xidSsh = true ∧ refDatagramK2 xidSsh = none ∧
    protoRepl cfg env C10E2E.ciUdp none xidSsh = .ok (C10E2E.ciUdp, none, none) ∧
    (judgeC18 (obsOf C10E2E.ciUdp xidSsh C10E2E.ciUdp none)).ok = true ∧
    (∃ r, protoHandle C18.cfgE env ID_RPC_UDP C10E2E.ciUdp none xidSsh = .ok (C10E2E.ciUdp, none, some r) ∧
      classify r = .ssh ∧ (judgeC18 (obsOf C10E2E.ciUdp xidSsh C10E2E.ciUdp (some r))).ok = false) := by
  have hid : refDatagramK2 xidSsh = none := by decide +kernel
  refine ⟨by decide +kernel, by decide +kernel, hid, ?_, by decide +kernel, ?_⟩
  · rw [model_none cfg env _ _ (by decide), hid]
    have : dnsParse xidSsh = none := by decide +kernel
    simp only [this, Option.bind_none]
  · obtain ⟨r, hr⟩ := Option.isSome_iff_exists.mp (show
      (match rpcReplUdp false C10E2E.ciUdp xidSsh with | .ok (some r) => some r | _ => none).isSome = true by
        decide +kernel)
    have hq : rpcReplUdp false C10E2E.ciUdp xidSsh = .ok (some r) := by
      split at hr
      · rename_i r' heq; cases hr; exact heq
      · cases hr
    refine ⟨r, ?_, ?_⟩
    · rw [handle_rpc_udp, show C18.cfgE.ovf = false from rfl, hq]
    · have hv : (match rpcReplUdp false C10E2E.ciUdp xidSsh with
          | .ok (some r) => decide (classify r = .ssh) &&
              !(judgeC18 (obsOf C10E2E.ciUdp xidSsh C10E2E.ciUdp (some r))).ok
          | _ => false) = true := by decide +kernel
      rw [hq] at hv
      simpa using hv

/-! ### non-vacuity: concrete requests, non-trivial verdicts -/

example : FreshTcb none ∧ FreshTcb (some {}) := ⟨.inl rfl, .inr rfl⟩
example : Gate C10E2E.ciUdp ∧ Gate C10E2E.ciTcp := by decide

/-- "SSH-2.0-OpenSSH_8.1 foo\r\n" over UDP: answered with the banner, verdict ok and non-trivial -/
example (cfg : Cfg) (env : Env) : ∃ ci' tcb' reply,
    protoRepl cfg env C10E2E.ciUdp none C18.ex1 = .ok (ci', tcb', reply) ∧
    (judgeC18 (obsOf C10E2E.ciUdp C18.ex1 ci' reply)).ok = true ∧
    (judgeC18 (obsOf C10E2E.ciUdp C18.ex1 ci' reply)).nontrivial = true :=
  ⟨_, _, _, (C10E2E.ssh_e2e cfg env C10E2E.ciUdp _ (by decide) (by decide +kernel)).2.1,
    by decide +kernel, by decide +kernel⟩

/-- "Gh0st…" as first segment of a TCP flow -/
example (cfg : Cfg) (env : Env) : ∃ ci' tcb' reply,
    protoRepl cfg env C10E2E.ciTcp (some {}) C18.ghE = .ok (ci', tcb', reply) ∧
    (judgeC18 (obsOf C10E2E.ciTcp C18.ghE ci' reply)).nontrivial = true := by
  obtain ⟨t, ht, _⟩ := (C10E2E.ghost_e2e cfg env C10E2E.ciTcp C18.ghE (by decide) (by decide +kernel)).2.2.1
  exact ⟨_, _, _, ht, by decide +kernel⟩

/-- an unterminated identification string is not answered: the silent branch is non-trivial too -/
def unterminated : Bytes := "SSH-2.0-OpenSSH_8.1".toUTF8.toList

example (cfg : Cfg) (env : Env) : ∃ ci' tcb' reply,
    protoRepl cfg env C10E2E.ciUdp none unterminated = .ok (ci', tcb', reply) ∧
    (judgeC18 (obsOf C10E2E.ciUdp unterminated ci' reply)).ok = true ∧
    (judgeC18 (obsOf C10E2E.ciUdp unterminated ci' reply)).nontrivial = true := by
  have hid : refDatagramK2 unterminated = some ID_SSH := by decide +kernel
  have hr : protoRepl cfg env C10E2E.ciUdp none unterminated = .ok (C10E2E.ciUdp, none, none) := by
    rw [dispatch_datagram_K2 cfg env _ _ _ (by decide) hid, handle_ssh, C18.sshRepl_eq]
    have hl : C18.sshLang unterminated = false := by decide +kernel
    rw [hl]; rfl
  exact ⟨_, _, _, hr, by decide +kernel, by decide +kernel⟩

/-- sticky: a second identification string on an SSH flow, answered again -/
example (cfg : Cfg) (env : Env) (tcb : Option Tcb) : ∃ ci' tcb' reply,
    protoHandle cfg env ID_SSH C10E2E.ciTcp tcb C18.ex3 = .ok (ci', tcb', reply) ∧
    (judgeC18 (obsOf C10E2E.ciTcp C18.ex3 ci' reply (some ID_SSH))).nontrivial = true := by
  refine ⟨_, _, _, by rw [handle_ssh, C18.ssh_spec C18.ex3 (by decide +kernel)], by decide +kernel⟩

end Masscanned.C18Judge

#print axioms Masscanned.C18Judge.judgeC18_accepts_model
#print axioms Masscanned.C18Judge.judgeC18_accepts_model_sticky
#print axioms Masscanned.C18Judge.judgeC18_accepts_model_sticky_repl
#print axioms Masscanned.C18Judge.judgeC18_gate_needed
#print axioms Masscanned.C18Judge.judgeC18_relies_on_K2
