/-
  Thm/C10Compile — companion of C10: facts about the hand-written model of `Smack::compile` (Model/SmackCompile.lean),
  which `mdriver compile-check` ties to the dumped tables on every C10 run.  Here: the model of `SmackMatches::copy_matches` (the only place where match lists of
  the compiled automaton are written): the list never holds an id twice, it only grows, it holds exactly the old and the
  copied ids, and `m_count` (kept by hand in the Rust code) is the length of `m_ids` — which is why the model keeps no
  separate counter.
-/
import Masscanned.Model.SmackCompile
namespace Masscanned.SmackCompile

theorem mem_copyMatches (cur new : List Nat) (x : Nat) :
    x ∈ copyMatches cur new ↔ x ∈ cur ∨ x ∈ new := by
  unfold copyMatches
  induction new generalizing cur with
  | nil => simp
  | cons a t ih =>
    simp only [List.foldl_cons]
    rw [ih]
    by_cases h : cur.contains a
    · simp only [h, if_true]
      have : a ∈ cur := by simpa using h
      constructor
      · rintro (h1 | h1)
        · exact .inl h1
        · exact .inr (List.mem_cons_of_mem _ h1)
      · rintro (h1 | h1)
        · exact .inl h1
        · rcases List.mem_cons.mp h1 with rfl | h2
          · exact .inl this
          · exact .inr h2
    · simp only [h]
      simp only [Bool.false_eq_true, if_false, List.mem_append, List.mem_cons, List.not_mem_nil, or_false]
      constructor
      · rintro ((h1 | h1) | h1)
        · exact .inl h1
        · exact .inr (.inl h1)
        · exact .inr (.inr h1)
      · rintro (h1 | h1 | h1)
        · exact .inl (.inl h1)
        · exact .inl (.inr h1)
        · exact .inr h1

theorem copyMatches_nodup (cur new : List Nat) (h : cur.Nodup) : (copyMatches cur new).Nodup := by
  unfold copyMatches
  induction new generalizing cur with
  | nil => simpa
  | cons a t ih =>
    simp only [List.foldl_cons]
    apply ih
    by_cases hc : cur.contains a
    · simp only [hc, if_true]; exact h
    · simp only [hc, Bool.false_eq_true, if_false]
      have hn : a ∉ cur := by simpa using hc
      rw [List.nodup_append]
      refine ⟨h, by simp, ?_⟩
      intro x hx y hy
      have : y = a := by simpa using hy
      subst this
      intro hxy
      exact hn (hxy ▸ hx)

/-- the list only grows, and by at most the number of copied ids: `m_count` never decreases -/
theorem copyMatches_length (cur new : List Nat) :
    cur.length ≤ (copyMatches cur new).length ∧ (copyMatches cur new).length ≤ cur.length + new.length := by
  unfold copyMatches
  induction new generalizing cur with
  | nil => simp
  | cons a t ih =>
    simp only [List.foldl_cons, List.length_cons]
    by_cases hc : cur.contains a
    · simp only [hc, if_true]
      have := ih cur
      omega
    · simp only [hc, Bool.false_eq_true, if_false]
      have := ih (cur ++ [a])
      simp only [List.length_append, List.length_singleton] at this
      omega

/-- copying a list that is already contained changes nothing (the second `stage1` visit of a state) -/
theorem copyMatches_idem (cur new : List Nat) (h : ∀ x ∈ new, x ∈ cur) : copyMatches cur new = cur := by
  unfold copyMatches
  induction new generalizing cur with
  | nil => rfl
  | cons a t ih =>
    simp only [List.foldl_cons]
    have ha : cur.contains a = true := by simpa using h a (List.mem_cons_self ..)
    simp only [ha, if_true]
    exact ih cur (fun x hx => h x (List.mem_cons_of_mem _ hx))

example : copyMatches [3, 1] [1, 2, 3, 2] = [3, 1, 2] := by decide

/-- `to_ascii_lowercase` is idempotent and stays a byte: normalising a pattern twice (as `add_pattern` followed by
    `add_symbols` does) is normalising it once -/
theorem lower_idem (c : Nat) : lower (lower c) = lower c := by
  by_cases h : 65 ≤ c ∧ c ≤ 90
  · have h1 : lower c = c + 32 := by unfold lower; rw [if_pos h]
    have h2 : ¬ (65 ≤ c + 32 ∧ c + 32 ≤ 90) := by omega
    rw [h1]; unfold lower; rw [if_neg h2]
  · have h1 : lower c = c := by unfold lower; rw [if_neg h]
    rw [h1, h1]

theorem lower_lt (c : Nat) (h : c < 256) : lower c < 256 := by
  unfold lower
  split <;> omega

theorem mkPat_idem (nc : Bool) (id : Nat) (p : List Nat) (ab ae wc : Bool) :
    mkPat nc id (mkPat nc id p ab ae wc).pattern ab ae wc = mkPat nc id p ab ae wc := by
  unfold mkPat
  cases nc <;> simp [lower_idem]

/-- case folding never changes a byte outside `A`..`Z`: the wildcard `*` and the bytes of binary signatures are kept -/
theorem lower_fix (c : Nat) (h : c < 65 ∨ 90 < c) : lower c = c := by
  unfold lower
  split <;> omega


#print axioms mem_copyMatches
#print axioms copyMatches_nodup
#print axioms copyMatches_length
#print axioms copyMatches_idem
#print axioms lower_idem
#print axioms lower_lt
#print axioms mkPat_idem
#print axioms lower_fix

end Masscanned.SmackCompile
