/-
  Thm/C06Judge — soundness of the run-time judge `Spec.judgeC06` with respect to the model:
  the judge never fails on an outcome the model can produce.

  The judge looks at frames delivered to the TCP layer (`Spec.tcpDelivered`) whose SYN bit is set and
  demands (1) "answered with exactly SYN|ACK, ack = seq + 1, no payload" ⇔ Linux rule
  (`syn_policy_all`), (2) the sequence number of that SYN|ACK is the flow's cookie (`syn_cookie`).
  Both are theorems about `tcpRepl`; `Proofs/J1/TcpFrame` carries them to the frame.
-/
import Masscanned.Thm.C06
import Masscanned.Proofs.J1.TcpFrame
import Masscanned.Proofs.C0203.Examples
namespace Masscanned.C06Judge
open Masscanned Masscanned.J1

/-- `judgeC06` accepts every outcome of the model, for every configuration with a 6-byte MAC, every
    environment, table and frame.  (`.ok` only excludes inputs on which the model reports a panic.) -/
theorem judgeC06_accepts_model (cfg : Cfg) (env : Env) (st : Table) (f : Bytes) (o : Option Bytes)
    (hm : cfg.mac.length = 6) (h : (step cfg env st f).out = .ok o) :
    (Spec.judgeC06 cfg f o).ok = true := by
  unfold Spec.judgeC06
  split
  · rfl
  · rename_i fl t htd
    obtain ⟨v6, hd, rfl, hsrc, hdst, hsp, hdp⟩ := tcpDelivered_some htd
    have h20 : (Spec.l4Bytes f).length ≥ 20 := by
      cases v6 with
      | false => exact (C12.deliverable4_elim hd).2.2.2.2.2.2
      | true => exact (C12.deliverable6_elim hd).2.2.2.2.2.2
    obtain ⟨evs, ci', st', ot, hr, hout⟩ := tcp_out v6 hm hd h
    have hck : Spec.flowCookie cfg fl =
        cookie cfg.k0 cfg.k1 (Spec.ipOf fl.src) (Spec.ipOf fl.dst) (Spec.be16 (Spec.l4Bytes f) 0)
          (Spec.be16 (Spec.l4Bytes f) 2) := by
      rw [Spec.flowCookie, hsp, hdp]
    simp only
    split
    · rfl
    · cases hlx : Spec.linuxSynOk (Spec.tcpFlagsOf (Spec.l4Bytes f)) with
      | true =>
        -- the Linux rule holds: the model answers SYN|ACK with the cookie
        obtain ⟨rt, rfl, hseq⟩ := syn_cookie cfg env st (ciL4 v6 f) (Spec.l4Bytes f) _ _ h20 hsrc hdst hlx hr
        obtain ⟨_, _, _, rt', hr', hfl, hack, hlen⟩ :=
          (syn_policy_all cfg env st (ciL4 v6 f) (Spec.l4Bytes f) h20).mpr hlx
        rw [hr] at hr'
        simp only [Except.ok.injEq, Prod.mk.injEq, Option.some.injEq] at hr'
        obtain ⟨-, -, -, rfl⟩ := hr'
        obtain ⟨r, c, rfl, hrt, hl⟩ := hout
        obtain ⟨e1, e2, e3, e4⟩ := seg_setU16 c hl
        simp [hrt, e1, e2, e3, e4, hfl, hack, hlen, hseq, hck, Spec.SYN, Spec.ACK, Spec.pass]
      | false =>
        -- the Linux rule fails: whatever the model sends is not "SYN|ACK, ack = seq + 1, empty"
        cases ot with
        | none =>
          cases hout
          simp [Spec.pass]
        | some rt =>
          obtain ⟨r, c, rfl, hrt, hl⟩ := hout
          obtain ⟨e1, e2, e3, e4⟩ := seg_setU16 c hl
          have hno : (decide (Spec.tcpFlagsOf rt = Spec.SYN + Spec.ACK) &&
              decide (Spec.be32 rt 8 = (Spec.be32 (Spec.l4Bytes f) 4 + 1) % 4294967296) &&
              decide (rt.length = 20)) = false := by
            refine Bool.eq_false_iff.mpr (fun hc => ?_)
            simp only [Bool.and_eq_true, decide_eq_true_eq] at hc
            have := (syn_policy_all cfg env st (ciL4 v6 f) (Spec.l4Bytes f) h20).mp
              ⟨_, _, _, rt, hr, hc.1.1, hc.1.2, hc.2⟩
            rw [show tcpFlags (Spec.l4Bytes f) = Spec.tcpFlagsOf (Spec.l4Bytes f) from rfl, hlx] at this
            cases this
          simp only [Option.bind_some, hrt, e1, e2, e3, e4]
          rw [hno]
          simp [Spec.pass]

/-! ### non-vacuity: on a concrete SYN the verdict is non-trivial, and the judge can fail -/

open C07ex

example : cfg0.mac.length = 6 := rfl
example : (match (step cfg0 env0 [] frameSyn).out with
    | .ok o => (Spec.judgeC06 cfg0 frameSyn o).ok && (Spec.judgeC06 cfg0 frameSyn o).nontrivial
    | .error _ => false) = true := by decide +kernel
example : (match (step Ex.cfg Ex.env [] Ex.synReq).out with
    | .ok o => (Spec.judgeC06 Ex.cfg Ex.synReq o).ok && (Spec.judgeC06 Ex.cfg Ex.synReq o).nontrivial
    | .error _ => false) = true := by decide +kernel
-- an unanswered SYN is refused by the judge
example : (Spec.judgeC06 cfg0 frameSyn none).ok = false := by decide +kernel
-- so is a SYN|ACK with a wrong sequence number (byte 38 = first byte of the TCP sequence number)
example : (match (step cfg0 env0 [] frameSyn).out with
    | .ok (some r) => (Spec.judgeC06 cfg0 frameSyn (some (r.set 38 ((r.getD 38 0) + 1)))).ok
    | _ => true) = false := by decide +kernel

end Masscanned.C06Judge

#print axioms Masscanned.C06Judge.judgeC06_accepts_model
