/-
  C10 — which application responder handles a payload is decided solely by its leading bytes
  against the published signature set, taking the first signature completed.

  All statements about the matcher are about `protoTbl = Gen.ProtoSmack.tbl`, the automaton dumped
  from the running code, so they are re-checked on every run.  Vocabulary:
  `Spec.refStream / refEnd / refDatagram / shadowed` (Spec/Signatures, the published set and the
  known shadow set K2), `Spec.refStreamK2 / refDatagramK2 / rpcOneShort` (Spec/SignaturesK2, what
  the matcher is known to implement), `datagramIdent`, `identify` (Proofs/C10/Proto: the
  identification part of `proto::repl`, which takes no client information), `ValidState`, `shiftN`,
  `idOf` (Proofs/C10/Smack).

  KNOWN FINDING K2: the full statement "matcher = published reference on all inputs" is FALSE
  (`c10_full_false`: one witness per shadow triple); the strongest true variants are proved:
  exact equality with the shadow-aware reference on ALL inputs, and equality with the published
  reference outside `Spec.shadowed` (and, for datagrams, outside `Spec.rpcOneShort`).
-/
import Masscanned.Proofs.C10.Proto
import Masscanned.Proofs.C10.HttpVerb
open Masscanned
namespace Masscanned.C10
open Masscanned.Spec

/-! ### B. range facts and totality of the protocol matcher -/

/-- every transition is a row, every column is inside a row, at most one id per row, `ids` has
    `cnt` entries, the match rows are exactly the rows ≥ `matchLimit` -/
theorem proto_table_ranges :
    protoTbl.transLen = Gen.ProtoSmack.nrows * 2 ^ protoTbl.rowShift ∧
    (∀ k, k < protoTbl.transLen → protoTbl.trans k < Gen.ProtoSmack.nrows) ∧
    (∀ c, c < 258 → protoTbl.c2s c < 2 ^ protoTbl.rowShift) ∧
    (∀ r, r < Gen.ProtoSmack.nrows → protoTbl.cnt r ≤ 1 ∧ (protoTbl.ids r).length = protoTbl.cnt r ∧
      (protoTbl.cnt r ≠ 0 ↔ protoTbl.matchLimit ≤ r)) ∧
    Gen.ProtoSmack.nrows ≤ protoTbl.matchLen ∧ Gen.ProtoSmack.nrows < 16777216 := by
  have w := proto_wf
  have hc := (allBelow_iff _ _).mp proto_cnt_le_one_check
  refine ⟨w.transLen_eq, w.trans_lt, w.c2s_lt, ?_, w.N_le, w.N_lt⟩
  intro r hr
  exact ⟨by simpa using hc r hr, w.ids_len r hr, w.match_iff r hr⟩

/-- `search_next` never panics from any state `row + pending * 2^24` with `row < nrows`,
    `pending ≤ cnt row`, and it returns such a state again -/
theorem proto_search_total (row pending : Nat) (d : Bytes)
    (hr : row < Gen.ProtoSmack.nrows) (hp : pending ≤ protoTbl.cnt row) :
    ∃ id row' pending' n, protoTbl.searchNext (row + pending * 16777216) d =
        .ok (id, row' + pending' * 16777216, n) ∧
      row' < Gen.ProtoSmack.nrows ∧ pending' ≤ protoTbl.cnt row' := by
  obtain ⟨id, st', n, h, row', p', rfl, h1, h2⟩ :=
    searchNext_total proto_wf (row + pending * 16777216) d ⟨row, pending, rfl, hr, hp⟩
  exact ⟨id, row', p', n, h, h1, h2⟩

/-- `search_next_end` never panics from such a state -/
theorem proto_search_end_total (row pending : Nat)
    (hr : row < Gen.ProtoSmack.nrows) (hp : pending ≤ protoTbl.cnt row) :
    ∃ id st', protoTbl.searchNextEnd (row + pending * 16777216) = .ok (id, st') :=
  searchNextEnd_total proto_wf _ ⟨row, pending, rfl, hr, hp⟩

example : (0 : Nat) < Gen.ProtoSmack.nrows ∧ 0 ≤ protoTbl.cnt 0 := by decide +kernel

/-! ### B. the compiled matcher equals the shadow-aware reference on ALL byte strings -/

/-- stream search from the base state: the id is `refStreamK2 s` (`noMatch` if none); on a match
    the consumed count `n` is the length of the least completed prefix; without a match the whole
    input is consumed and the new state is a non-match row -/
theorem matcher_eq_refK2_stream (s : Bytes) :
    ∃ st n, protoTbl.searchNext baseState s = .ok (idOf (refStreamK2 s), st, n) ∧
      (∀ i, refStreamK2 s = some i → 1 ≤ n ∧ n ≤ s.length ∧ completedAtK2 s n = some i ∧
        ∀ m, m < n → completedAtK2 s m = none) ∧
      (refStreamK2 s = none → n = s.length ∧ st < protoTbl.matchLimit) :=
  proto_stream s

/-- datagram identification (`search_next`, then `search_next_end` if nothing matched) -/
theorem matcher_eq_refK2_datagram (s : Bytes) :
    datagramIdent s = .ok (idOf (refDatagramK2 s)) :=
  proto_datagram s

example : refStreamK2 [71, 69, 84, 32, 47, 32] = some ID_HTTP := by decide +kernel
example : refDatagramK2 ([0, 1, 0, 0] ++ List.replicate 16 7) = some ID_STUN := by decide +kernel

/-! ### C. relation to the published signature set -/

theorem refK2_differs_only_in_shadow (s : Bytes) (h : refStreamK2 s ≠ refStream s) :
    shadowed s = true := by
  cases hs : shadowed s with
  | true => rfl
  | false => exact absurd (refStreamK2_eq_of_not_shadowed s hs) h

theorem refK2_datagram_differs_only_in_shadow (s : Bytes) (h : refDatagramK2 s ≠ refDatagram s) :
    shadowed s = true ∨ rpcOneShort s = true := by
  cases hs : shadowed s with
  | true => exact .inl rfl
  | false =>
    cases hq : rpcOneShort s with
    | true => exact .inr rfl
    | false => exact absurd (refDatagramK2_eq_of_not_shadowed s hs hq) h

/-- HEADLINE (stream): outside the known shadow set the matcher identifies exactly the first
    published signature completed by a prefix, at the length of that prefix -/
theorem matcher_eq_ref_outside_shadow (s : Bytes) (h : shadowed s = false) :
    ∃ st n, protoTbl.searchNext baseState s = .ok (idOf (refStream s), st, n) ∧
      (∀ i, refStream s = some i → 1 ≤ n ∧ n ≤ s.length ∧ completedAt s n = some i ∧
        ∀ m, m < n → completedAt s m = none) ∧
      (refStream s = none → n = s.length ∧ st < protoTbl.matchLimit) := by
  have := proto_stream s
  simp only [refStreamK2_eq_of_not_shadowed s h, completedAtK2_eq_of_not_shadowed s h] at this
  exact this

/-- HEADLINE (datagram) -/
theorem matcher_eq_ref_outside_shadow_datagram (s : Bytes) (h : shadowed s = false)
    (hq : rpcOneShort s = false) : datagramIdent s = .ok (idOf (refDatagram s)) := by
  rw [← refDatagramK2_eq_of_not_shadowed s h hq]
  exact proto_datagram s

example : shadowed [71, 69, 84, 32, 47, 32] = false ∧ refStream [71, 69, 84, 32, 47, 32] = some ID_HTTP := by
  decide +kernel
example : shadowed [1, 2, 3] = false ∧ rpcOneShort [1, 2, 3] = false ∧ refDatagram [1, 2, 3] = none := by
  decide +kernel

/-- the 20 shadow triples (index in `Spec.sigs`, position, byte) of finding K2 -/
def shadowTriples : List (Nat × Nat × UInt8) :=
  [(9, 2, 0)] ++ nineBytes.map (fun b => (15, 0, b)) ++ [(15, 4, 0)] ++ nineBytes.map (fun b => (16, 0, b))

/-- the signature with its wildcards set to 0x01, and the triple's byte at the triple's position -/
def witnessOf (t : Nat × Nat × UInt8) : Bytes :=
  match sigs[t.1]? with
  | some g => (g.pat.map fun | .lit b => b | .any => 1).set t.2.1 t.2.2
  | none => []

def matcherStreamId (s : Bytes) : Option Nat :=
  match protoTbl.searchNext baseState s with
  | .ok (id, _, _) => some id
  | .error _ => none

/-- The FULL statement (matcher = published reference on all inputs) is false, and `Spec.shadowed`
    is tight: for each of the 20 triples there is a payload that completes the shadowed signature
    (and nothing earlier), is in `Spec.shadowed`, and on which the matcher identifies nothing —
    neither on a stream nor as a datagram. -/
theorem c10_full_false : shadowTriples.length = 20 ∧ ∀ t ∈ shadowTriples,
    shadowed (witnessOf t) = true ∧
    refStream (witnessOf t) = sigs[t.1]?.map (·.id) ∧ (refStream (witnessOf t)).isSome = true ∧
    matcherStreamId (witnessOf t) = some noMatch ∧ (datagramIdent (witnessOf t)).toOption = some noMatch := by
  decide +kernel

/-- the end-of-datagram quirk is real: 23 / 27 bytes, one byte short of an ONC-RPC call, no
    published signature completed, yet identified as RPC at the end of the datagram -/
theorem rpc_one_short_witness :
    rpcOneShort ((witnessOf (16, 0, 1)).take 23) = true ∧ shadowed ((witnessOf (16, 0, 1)).take 23) = false ∧
    refDatagram ((witnessOf (16, 0, 1)).take 23) = none ∧
    (datagramIdent ((witnessOf (16, 0, 1)).take 23)).toOption = some ID_RPC_UDP ∧
    rpcOneShort ((witnessOf (15, 0, 1)).take 27) = true ∧ shadowed ((witnessOf (15, 0, 1)).take 27) = false ∧
    refDatagram ((witnessOf (15, 0, 1)).take 27) = none ∧
    (datagramIdent ((witnessOf (15, 0, 1)).take 27)).toOption = some ID_RPC_TCP := by
  decide +kernel

/-! ### D. corollaries -/

/-- incremental search = one-shot search: if the bytes `a` produced no match from row `st`, then
    searching `a ++ b` from `st` is searching `b` from the state reached after `a` (consumed count
    shifted by `|a|`).  The matcher state between TCP segments is just the row. -/
theorem tcp_segmentation_invariant_identification (st : Nat) (hst : st < Gen.ProtoSmack.nrows)
    (a b : Bytes) (st' n : Nat) (h : protoTbl.searchNext st a = .ok (noMatch, st', n)) :
    n = a.length ∧ st' < protoTbl.matchLimit ∧
      protoTbl.searchNext st (a ++ b) = shiftN a.length (protoTbl.searchNext st' b) := by
  obtain ⟨h1, _, h3, h4⟩ := searchNext_append proto_wf st hst a b st' n h
  exact ⟨h3, h1, h4⟩

/-- the same at the level of `proto::repl`'s identification step: a first segment `a` that
    identifies nothing leaves a control block from which segment `b` yields exactly the id and the
    control block that the unsplit payload `a ++ b` yields -/
theorem identify_tcp_split (t t' : Tcb) (ht : t.protoId = PROTO_NONE)
    (hs : t.smackState < Gen.ProtoSmack.nrows) (a b : Bytes)
    (h : identify (some t) a = .ok (noMatch, some t')) :
    identify (some { t' with protoId := PROTO_NONE }) b = identify (some t) (a ++ b) := by
  unfold identify at h ⊢
  simp only [ht, if_true] at h ⊢
  cases hsn : protoTbl.searchNext t.smackState a with
  | error e => rw [hsn] at h; cases h
  | ok r =>
    obtain ⟨id, st', n⟩ := r
    rw [hsn] at h
    simp only [Except.ok.injEq, Prod.mk.injEq, Option.some.injEq] at h
    obtain ⟨rfl, rfl⟩ := h
    obtain ⟨_, _, _, h4⟩ := searchNext_append proto_wf _ hs a b st' n hsn
    rw [h4]
    simp only
    cases protoTbl.searchNext st' b with
    | error e => rfl
    | ok r2 =>
      obtain ⟨id2, st2, m⟩ := r2
      simp only [shiftN]

/-- however the leading bytes are split into TCP segments: feeding the segments one after the
    other (each search resuming from the row left by the previous segment, until something is
    identified) yields the id and matcher state of the one-shot search over the concatenation -/
theorem tcp_any_segmentation (segs : List Bytes) :
    feedSegs baseState segs =
      match protoTbl.searchNext baseState segs.flatten with
      | .error e => .error e
      | .ok (id, st', _) => .ok (id, st') :=
  feedSegs_eq segs baseState proto_base_lt

/-- … and therefore identifies the first signature completed by the reassembled leading bytes -/
theorem tcp_any_segmentation_ref (segs : List Bytes) (h : shadowed segs.flatten = false) :
    ∃ st, feedSegs baseState segs = .ok (idOf (refStream segs.flatten), st) := by
  obtain ⟨st, n, hsn, _⟩ := matcher_eq_ref_outside_shadow segs.flatten h
  exact ⟨st, by rw [tcp_any_segmentation, hsn]⟩

example : (feedSegs baseState [[71], [69, 84, 32], [47, 32, 72]]).toOption.map (·.1) = some ID_HTTP := by
  decide +kernel

example : (identify (some {}) [71, 69]).toOption.map (·.1) = some noMatch := by
  decide +kernel

/-- `proto::repl` factors through `identify`, which sees neither the client information
    (addresses, ports) nor the configuration: apart from the SYN-cookie gate, `ci` is only passed
    on to the DNS fallback and to the selected handler -/
theorem ports_and_addresses_unused (cfg : Cfg) (env : Env) (ci : ClientInfo) (tcb : Option Tcb) (d : Bytes) :
    protoRepl cfg env ci tcb d =
      if ci.transport = some 6 ∧ ci.cookie = none then .ok (ci, tcb, none)
      else
        match identify tcb d with
        | .error e => .error e
        | .ok (id, tcb') =>
          match (if tcb = none ∧ id = noMatch then (dnsParse d).bind (dnsRepl ci) else none) with
          | some r => .ok (ci, none, some r)
          | none => protoHandle cfg env id ci tcb' d :=
  protoRepl_factors cfg env ci tcb d

theorem protoHandle_noMatch (cfg : Cfg) (env : Env) (ci : ClientInfo) (tcb : Option Tcb) (d : Bytes) :
    protoHandle cfg env noMatch ci tcb d =
      .ok (ci, tcb.map (fun t => { t with protoId := PROTO_NONE }), none) := by
  unfold protoHandle
  simp [noMatch, PROTO_HTTP, PROTO_STUN, PROTO_SSH, PROTO_GHOST, PROTO_RPC_TCP, PROTO_RPC_UDP, PROTO_SMB1,
    PROTO_SMB2]

/-- a datagram whose leading bytes complete no published signature is never answered by a
    signature-dispatched responder: no reply at all, or the DNS fallback's reply -/
theorem no_signature_no_sig_responder (cfg : Cfg) (env : Env) (ci : ClientInfo) (s : Bytes)
    (h1 : refDatagram s = none) (h2 : shadowed s = false) (h3 : rpcOneShort s = false) :
    protoRepl cfg env ci none s = .ok (ci, none, none) ∨
    ∃ m r, dnsParse s = some m ∧ dnsRepl ci m = some r ∧
      protoRepl cfg env ci none s = .ok (ci, none, some r) := by
  rw [protoRepl_factors]
  split
  · exact .inl rfl
  · have hid := matcher_eq_ref_outside_shadow_datagram s h2 h3
    rw [h1] at hid
    simp only [identify, hid, idOf, true_and, if_true]
    cases hp : dnsParse s with
    | none => simp only [Option.bind_none, protoHandle_noMatch, Option.map_none]; exact .inl trivial
    | some m =>
      simp only [Option.bind_some]
      cases hr : dnsRepl ci m with
      | none => simp only [protoHandle_noMatch, Option.map_none]; exact .inl trivial
      | some r => exact .inr ⟨m, r, rfl, hr, rfl⟩

/-- the same over TCP (fresh control block): the segment is not answered, and the control block
    stays unidentified -/
theorem no_signature_no_responder_tcp (cfg : Cfg) (env : Env) (ci : ClientInfo) (t : Tcb) (s : Bytes)
    (ht : t.protoId = PROTO_NONE) (hs : t.smackState = baseState)
    (h1 : refStream s = none) (h2 : shadowed s = false) :
    ∃ tcb', protoRepl cfg env ci (some t) s = .ok (ci, tcb', none) := by
  rw [protoRepl_factors]
  split
  · exact ⟨_, rfl⟩
  · obtain ⟨st, n, hsn, _, _⟩ := matcher_eq_ref_outside_shadow s h2
    rw [h1] at hsn
    simp only [identify, ht, if_true, hs, hsn, idOf, reduceCtorEq, false_and, if_false, protoHandle_noMatch]
    exact ⟨_, rfl⟩

example : refStream [71, 69, 88, 32] = none ∧ shadowed [71, 69, 88, 32] = false := by decide +kernel

/-- a datagram whose leading bytes complete a published signature (outside the known shadow set)
    is handed to that protocol's responder -/
theorem signature_dispatch_datagram (cfg : Cfg) (env : Env) (ci : ClientInfo) (s : Bytes) (i : Nat)
    (hg : ¬(ci.transport = some 6 ∧ ci.cookie = none))
    (h1 : refDatagram s = some i) (h2 : shadowed s = false) (h3 : rpcOneShort s = false) :
    protoRepl cfg env ci none s = protoHandle cfg env i ci none s ∧ 1 ≤ i ∧ i ≤ 8 := by
  have hid := matcher_eq_ref_outside_shadow_datagram s h2 h3
  have hk := refDatagramK2_id s i (by rw [refDatagramK2_eq_of_not_shadowed s h2 h3]; exact h1)
  rw [h1] at hid
  refine ⟨?_, hk.1, hk.2.1⟩
  rw [protoRepl_factors, if_neg hg]
  simp only [identify, hid, idOf, hk.2.2, and_false, if_false]

/-- the same over TCP, first data of a flow -/
theorem signature_dispatch_stream (cfg : Cfg) (env : Env) (ci : ClientInfo) (t : Tcb) (s : Bytes) (i : Nat)
    (hg : ¬(ci.transport = some 6 ∧ ci.cookie = none))
    (ht : t.protoId = PROTO_NONE) (hs : t.smackState = baseState)
    (h1 : refStream s = some i) (h2 : shadowed s = false) :
    ∃ st, protoRepl cfg env ci (some t) s =
      protoHandle cfg env i ci (some { t with protoId := i, smackState := st }) s := by
  obtain ⟨st, n, hsn, _, _⟩ := matcher_eq_ref_outside_shadow s h2
  rw [h1] at hsn
  refine ⟨st, ?_⟩
  rw [protoRepl_factors, if_neg hg]
  simp only [identify, ht, if_true, hs, hsn, idOf, reduceCtorEq, false_and, if_false]

example : refDatagram [83, 83, 72, 45, 50, 46, 48, 45] = some ID_SSH ∧
    shadowed [83, 83, 72, 45, 50, 46, 48, 45] = false ∧ rpcOneShort [83, 83, 72, 45, 50, 46, 48, 45] = false := by
  decide +kernel

/-! ### E. the HTTP verb/field matcher: range facts and totality -/

theorem http_table_ranges :
    httpTbl.transLen = Gen.HttpSmack.nrows * 2 ^ httpTbl.rowShift ∧
    (∀ k, k < httpTbl.transLen → httpTbl.trans k < Gen.HttpSmack.nrows) ∧
    (∀ c, c < 258 → httpTbl.c2s c < 2 ^ httpTbl.rowShift) ∧
    (∀ r, r < Gen.HttpSmack.nrows → httpTbl.cnt r ≤ 1 ∧ (httpTbl.ids r).length = httpTbl.cnt r ∧
      (httpTbl.cnt r ≠ 0 ↔ httpTbl.matchLimit ≤ r)) ∧
    Gen.HttpSmack.nrows ≤ httpTbl.matchLen ∧ Gen.HttpSmack.nrows < 16777216 := by
  have w := http_wf
  have hc := (allBelow_iff _ _).mp http_cnt_le_one_check
  refine ⟨w.transLen_eq, w.trans_lt, w.c2s_lt, ?_, w.N_le, w.N_lt⟩
  intro r hr
  exact ⟨by simpa using hc r hr, w.ids_len r hr, w.match_iff r hr⟩

theorem http_search_total (row pending : Nat) (d : Bytes)
    (hr : row < Gen.HttpSmack.nrows) (hp : pending ≤ httpTbl.cnt row) :
    ∃ id row' pending' n, httpTbl.searchNext (row + pending * 16777216) d =
        .ok (id, row' + pending' * 16777216, n) ∧
      row' < Gen.HttpSmack.nrows ∧ pending' ≤ httpTbl.cnt row' := by
  obtain ⟨id, st', n, h, row', p', rfl, h1, h2⟩ :=
    searchNext_total http_wf (row + pending * 16777216) d ⟨row, pending, rfl, hr, hp⟩
  exact ⟨id, row', p', n, h, h1, h2⟩

theorem http_search_end_total (row pending : Nat)
    (hr : row < Gen.HttpSmack.nrows) (hp : pending ≤ httpTbl.cnt row) :
    ∃ id st', httpTbl.searchNextEnd (row + pending * 16777216) = .ok (id, st') :=
  searchNextEnd_total http_wf _ ⟨row, pending, rfl, hr, hp⟩

/-- the language of id 0 (Verb): from the base state, `search_next` returns id 0 after `n` bytes
    exactly when the first `n` bytes are, case-insensitively, one of the nine method names of
    `Spec.httpVerbs` (`httpMethodNames` = those names lower-cased, `lowerB` = ASCII lower-casing) -/
theorem http_verb_language (d : Bytes) (n : Nat) :
    (∃ st, httpTbl.searchNext baseState d = .ok (0, st, n)) ↔
      (n ≤ d.length ∧ (d.take n).map lowerB ∈ httpMethodNames) :=
  http_verb_language' d n

/-- … and once the matcher has fallen back to the unanchored state it never returns id 0 -/
theorem http_unanchored_never_verb' (d : Bytes) (st n : Nat) :
    httpTbl.searchNext unanchoredState d ≠ .ok (0, st, n) :=
  http_unanchored_never_verb d st n

example : (httpTbl.searchNext baseState [103, 69, 84, 32, 47]).toOption.map (fun r => (r.1, r.2.2)) = some (0, 3) := by
  decide +kernel
example : ([71, 69, 84, 32, 47].take 3).map lowerB ∈ httpMethodNames := by decide +kernel

end Masscanned.C10

namespace Masscanned.C10
#print axioms proto_table_ranges
#print axioms proto_search_total
#print axioms proto_search_end_total
#print axioms matcher_eq_refK2_stream
#print axioms matcher_eq_refK2_datagram
#print axioms refK2_differs_only_in_shadow
#print axioms refK2_datagram_differs_only_in_shadow
#print axioms matcher_eq_ref_outside_shadow
#print axioms matcher_eq_ref_outside_shadow_datagram
#print axioms c10_full_false
#print axioms rpc_one_short_witness
#print axioms tcp_segmentation_invariant_identification
#print axioms identify_tcp_split
#print axioms tcp_any_segmentation
#print axioms tcp_any_segmentation_ref
#print axioms ports_and_addresses_unused
#print axioms no_signature_no_sig_responder
#print axioms no_signature_no_responder_tcp
#print axioms signature_dispatch_datagram
#print axioms signature_dispatch_stream
#print axioms http_table_ranges
#print axioms http_search_total
#print axioms http_search_end_total
#print axioms http_verb_language
#print axioms http_unanchored_never_verb'
end Masscanned.C10
