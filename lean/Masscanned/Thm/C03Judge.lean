/-
  Thm/C03Judge — soundness of the run-time judge `Spec.judgeC03` with respect to the model, and the
  property-level strengthening of C03's port rule that the judge's strict branch relies on.

  `Spec.judgeC03` has three branches for a reply `r` to a frame `f` (`pl`, `rp` = application
  payloads of request and reply, `Spec.appPayload`):
    (S) `rp` starts `01 01` and `pl` is a Spec-well-formed STUN message `m` of class 0 / method 1:
        `mirrors cfg f r (changePortCount m)` is demanded exactly                       [strict branch]
    (N) `rp` starts `01 01`, `pl` is a well-formed STUN message of another class/method: offset 0
    (F) otherwise: offset 0, or — when `rp` starts `01 01` — offset `k > 0` where `k` is the judge's own
        walk over the announced attribute area,
        `stunChangePorts (be16 pl 2 + 1) ((pl.drop 20).take (be16 pl 2))`                 [fallback]

  RESULTS
  * `reply_port_exact` — the model satisfies (S) for every input: no hypothesis on the payload.
    Ingredients (Proofs/J1): no responder other than STUN answers `01 …` to a request that does not start
    with `01` (`PortRule2`: HTTP/SSH/Gh0st/SMB/RPC-TCP replies start differently, RPC-UDP and DNS echo
    xid / id; `reply_01_is_stun`), and the STUN responder's offset `stunBumps` is `changePortCount m` on
    well-formed messages (C15).
  * `judgeC03_accepts_model` — the judge accepts EVERY outcome of the model (6-byte MAC, `.ok`);
    `judgeC03_on_model`: on a reply the verdict is `ok` and non-trivial.  On the fallback branch (F) the
    judge's walk over the attribute area announced by the length field, with fuel `length + 1`, is
    exactly what the responder's loop counts (`J1.stunBumps_eq_walk`).
  * HISTORY.  The previous fallback walked over everything after the 20-byte header with fuel 4096
    (`stunChangePorts 4096 (pl.drop 20)`) and rejected the model's own output on (1) a Binding Request
    followed by trailing bytes, (2) a Binding Request with more than 4096 attributes whose last TLV is
    unpadded.  Both inputs are kept as regression examples (`judgeC03_regression_trailing`,
    `judgeC03_regression_fuel`): the judge now accepts the model there.
-/
import Masscanned.Proofs.J1.PortExact
namespace Masscanned.C03Judge
open Masscanned Masscanned.J1

/-- the STUN responder's port offset on a Spec-well-formed message is `changePortCount` -/
theorem stunBumps_of_parseStun {pl : Bytes} {m : Spec.StunMsg} (hp : Spec.parseStun pl = some m)
    (hsa : StunAnswered pl) :
    stunBumps pl = Spec.changePortCount m ∧ m.cls = 0 ∧ m.method = 1 := by
  obtain ⟨req, hreq, hc, hmeth⟩ := hsa
  have hl : pl.length ≤ 65535 := by
    rcases Nat.lt_or_ge 65535 pl.length with hgt | hle
    · rw [stunParse_overflow hp hgt] at hreq; cases hreq
    · exact hle
  obtain ⟨attrs, hparse, hb⟩ := stunParse_of_parseStun hp hl
  rw [hparse] at hreq
  simp only [Except.ok.injEq, Option.some.injEq] at hreq
  subst hreq
  refine ⟨?_, hc, (rustMethod_eq_one_iff hp).1 hmeth⟩
  simp only [stunBumps, hparse]
  exact hb

/-- **C03, exact STUN port rule** (property-level strengthening of `C03.reply_port_rule`): a frame whose
    application payload is a well-formed Binding Request (`Spec.parseStun`, class 0, method 1), answered
    with a reply whose application payload starts `01 01`, is answered from destination port + number of
    change-port CHANGE-REQUESTs — for every configuration with a 6-byte MAC, environment, table, frame. -/
theorem reply_port_exact (cfg : Cfg) (env : Env) (st : Table) (f r : Bytes) (m : Spec.StunMsg)
    (hm : cfg.mac.length = 6) (h : (step cfg env st f).out = .ok (some r))
    (hp : Spec.parseStun (Spec.appPayload f) = some m) (hc : m.cls = 0) (hmeth : m.method = 1)
    (h0 : Spec.u8 (Spec.appPayload r) 0 = 1) (_h1 : Spec.u8 (Spec.appPayload r) 1 = 1) :
    Spec.mirrors cfg f r (Spec.changePortCount m) = true := by
  rcases port_rule_exact hm h with ⟨_, hfb⟩ | ⟨hb, hsa, -, -, -⟩
  · have := (binding_bytes hp hc hmeth).1
    rw [at8_eq_u8, hfb h0] at this
    cases this
  · rw [← (stunBumps_of_parseStun hp hsa).1]; exact hb

/-- no other responder: a reply starting `01` to a well-formed Binding Request comes with the STUN
    offset; in particular the judge's comment "no other responder's reply to a payload starting `00 01`
    starts with `01 01`" holds in the model -/
theorem reply_01_is_stun (cfg : Cfg) (env : Env) (st : Table) (f r : Bytes)
    (hm : cfg.mac.length = 6) (h : (step cfg env st f).out = .ok (some r))
    (hq : Spec.u8 (Spec.appPayload f) 0 ≠ 1) (h0 : Spec.u8 (Spec.appPayload r) 0 = 1) :
    Spec.mirrors cfg f r (stunBumps (Spec.appPayload f)) = true ∧
      Spec.u8 (Spec.appPayload r) 1 = 1 := by
  rcases port_rule_exact hm h with ⟨_, hfb⟩ | ⟨hb, _, -, h1, -⟩
  · exact absurd (hfb h0) hq
  · exact ⟨hb, h1⟩

/-- **the verdict of `judgeC03` on every reply of the model**: accepted, and the case counts as
    non-trivial.  No hypothesis beyond the 6-byte MAC. -/
theorem judgeC03_on_model (cfg : Cfg) (env : Env) (st : Table) (f r : Bytes)
    (hm : cfg.mac.length = 6) (h : (step cfg env st f).out = .ok (some r)) :
    (Spec.judgeC03 cfg f (some r)).ok = true ∧ (Spec.judgeC03 cfg f (some r)).nontrivial = true := by
  unfold Spec.judgeC03
  simp only
  rcases port_rule_exact hm h with ⟨h0, hfb⟩ | ⟨hb, hsa, hb0, hb1, htu⟩
  · -- no STUN answer: offset 0, and the reply starts `01` only if the request does
    split
    · rename_i m heq
      split at heq
      · rename_i hsr
        simp only [Bool.and_eq_true, decide_eq_true_eq] at hsr
        split
        · rename_i hbind
          have := (binding_bytes heq hbind.1 hbind.2).1
          rw [at8_eq_u8, hfb hsr.1] at this
          cases this
        · first | exact ⟨rfl, rfl⟩ | (rw [if_pos h0]; exact ⟨rfl, rfl⟩)
      · cases heq
    · first | exact ⟨rfl, rfl⟩ | (rw [if_pos h0]; exact ⟨rfl, rfl⟩)
  · -- the STUN responder answered
    have hsr : (decide (Spec.u8 (Spec.appPayload r) 0 = 1) && decide (Spec.u8 (Spec.appPayload r) 1 = 1)) = true := by
      simp [hb0, hb1]
    rw [hsr]
    simp only [if_true]
    cases hps : Spec.parseStun (Spec.appPayload f) with
    | some m =>
      obtain ⟨e, hc, hmeth⟩ := stunBumps_of_parseStun hps hsa
      simp only
      rw [if_pos ⟨hc, hmeth⟩, ← e, if_pos hb]; exact ⟨rfl, rfl⟩
    | none =>
      simp only
      by_cases h0 : Spec.mirrors cfg f r 0 = true
      · rw [if_pos h0]; exact ⟨rfl, rfl⟩
      · rw [if_neg h0]
        have hpos : stunBumps (Spec.appPayload f) ≠ 0 := by
          intro hz; rw [hz] at hb; exact h0 hb
        obtain ⟨req, hreq, -, -⟩ := hsa
        -- the judge's walk over the announced attribute area is what the responder counted
        have ek : Spec.stunChangePorts (Spec.be16 (Spec.appPayload f) 2 + 1)
            (((Spec.appPayload f).drop 20).take (Spec.be16 (Spec.appPayload f) 2)) =
            stunBumps (Spec.appPayload f) := (stunBumps_eq_walk hreq).symm
        rw [ek, if_pos ⟨by omega, by simp, hb⟩]; exact ⟨rfl, rfl⟩

/-- **`judgeC03` accepts every outcome of the model**: every configuration with a 6-byte MAC, every
    environment, table and frame (`.ok` only excludes the inputs on which the model reports a panic). -/
theorem judgeC03_accepts_model (cfg : Cfg) (env : Env) (st : Table) (f : Bytes) (o : Option Bytes)
    (hm : cfg.mac.length = 6) (h : (step cfg env st f).out = .ok o) :
    (Spec.judgeC03 cfg f o).ok = true := by
  cases o with
  | none => rfl
  | some r => exact (judgeC03_on_model cfg env st f r hm h).1

/-- in particular on Spec-well-formed STUN payloads (the strict branch) -/
theorem judgeC03_accepts_model_wf (cfg : Cfg) (env : Env) (st : Table) (f : Bytes) (o : Option Bytes)
    (m : Spec.StunMsg) (hm : cfg.mac.length = 6) (_hp : Spec.parseStun (Spec.appPayload f) = some m)
    (h : (step cfg env st f).out = .ok o) : (Spec.judgeC03 cfg f o).ok = true :=
  judgeC03_accepts_model cfg env st f o hm h

end Masscanned.C03Judge

/-! ### regression: the two inputs on which the PREVIOUS fallback walk (fuel 4096, over everything
    after the 20-byte header) rejected the model's own output -/
namespace Masscanned.C03Judge
open Masscanned Masscanned.J1

/-- 256 bytes of attributes: one CHANGE-REQUEST (change port), one 244-byte attribute of type 0x20 -/
def attrArea : Bytes := [0, 3, 0, 4, 0, 0, 0, 2] ++ [0, 0x20, 0, 244] ++ List.replicate 244 0

/-- an RFC 5389 Binding Request announcing those 256 bytes, FOLLOWED by 8 more bytes that look like a
    second change-port CHANGE-REQUEST -/
def stunTrail : Bytes :=
  [0, 1, 1, 0, 0x21, 0x12, 0xa4, 0x42, 1, 2, 3, 4, 5, 6, 7, 8, 9, 10, 11, 12] ++ attrArea ++
  [0, 3, 0, 4, 0, 0, 0, 2]

/-- … in a UDP datagram 10.0.0.2:4660 → 10.0.0.1:3478 (342-byte frame) -/
def frameTrail : Bytes :=
  Ex.eth4 (Ex.ip4 [10, 0, 0, 2] [10, 0, 0, 1] 17
    ([0x12, 0x34, 0x0d, 0x96] ++ u16be (8 + stunTrail.length) ++ [0, 0] ++ stunTrail))

/-- 4097 empty attributes of type 0x20, one CHANGE-REQUEST (change port), and a last attribute of
    length 1 without its padding (accepted by the responder, not by `Spec.stunTlvs`) -/
def attrAreaBig : Bytes :=
  (List.replicate 4097 [0, 0x20, 0, 0]).flatten ++ [0, 3, 0, 4, 0, 0, 0, 2] ++ [0, 0x20, 0, 1, 7]

def stunBig : Bytes :=
  [0, 1] ++ u16be attrAreaBig.length ++ [0x21, 0x12, 0xa4, 0x42, 1, 2, 3, 4, 5, 6, 7, 8, 9, 10, 11, 12] ++
  attrAreaBig

/-- 16 463-byte frame -/
def frameBig : Bytes :=
  Ex.eth4 (Ex.ip4 [10, 0, 0, 2] [10, 0, 0, 1] 17
    ([0x12, 0x34, 0x0d, 0x96] ++ u16be (8 + stunBig.length) ++ [0, 0] ++ stunBig))

/-- **regression 1** (trailing bytes): the model answers `frameTrail` from port 3479 = 3478 + 1 (it reads
    only the announced `20 + length` bytes, like `StunPacket::new`); the payload is not a Spec-well-formed
    STUN message (fallback branch); the judge's walk over the announced attribute area counts 1 — the old
    walk over everything counted 2 — and the verdict is `ok`, non-trivial.  Kernel-checked. -/
theorem judgeC03_regression_trailing :
    (match (step Ex.cfg Ex.env [] frameTrail).out with
      | .ok (some r) => (Spec.judgeC03 Ex.cfg frameTrail (some r)).ok &&
          (Spec.judgeC03 Ex.cfg frameTrail (some r)).nontrivial && Spec.be16 r 34 == 3479
      | _ => false) = true ∧
    Spec.parseStun (Spec.appPayload frameTrail) = none ∧
    Spec.stunChangePorts (Spec.be16 (Spec.appPayload frameTrail) 2 + 1)
      (((Spec.appPayload frameTrail).drop 20).take (Spec.be16 (Spec.appPayload frameTrail) 2)) = 1 ∧
    Spec.stunChangePorts 4096 ((Spec.appPayload frameTrail).drop 20) = 2 := by decide +kernel

/-- **regression 2** (more than 4096 attributes, last TLV unpadded), at the level of the walk: on `stunBig`
    the judge's walk now finds the change-port request behind the 4097 empty attributes (the old walk,
    fuel 4096, found 0).  At frame level `frameBig` (16 463 bytes) is too long for kernel evaluation; the
    general theorem covers it (next `example`), and the compiled evaluator gives
      `#eval match (step Ex.cfg Ex.env [] frameBig).out with`
      `  | .ok o => (o.map (Spec.be16 · 34), (Spec.judgeC03 Ex.cfg frameBig o).ok) | _ => (none, false)`
      `-- (some 3479, true)` -/
theorem judgeC03_regression_fuel :
    Spec.stunChangePorts (Spec.be16 stunBig 2 + 1) ((stunBig.drop 20).take (Spec.be16 stunBig 2)) = 1 ∧
    Spec.stunChangePorts 4096 (stunBig.drop 20) = 0 := by decide +kernel

example (o : Option Bytes) (h : (step Ex.cfg Ex.env [] frameBig).out = .ok o) :
    (Spec.judgeC03 Ex.cfg frameBig o).ok = true :=
  judgeC03_accepts_model Ex.cfg Ex.env [] frameBig o rfl h

/-! ### non-vacuity -/

example : Ex.cfg.mac.length = 6 := rfl
-- the strict branch is exercised by the model's answer to `Ex.stunReq` (one change-port attribute):
-- the payload is a well-formed Binding Request, the side condition holds, the verdict is non-trivial,
-- and `reply_port_exact` applies with `changePortCount = 1`
example : (step Ex.cfg Ex.env [] Ex.stunReq).out = .ok (some Ex.stunReply) :=
  Ex.outIs_sound (by decide +kernel)
example : (Spec.judgeC03 Ex.cfg Ex.stunReq (some Ex.stunReply)).ok = true ∧
    (Spec.judgeC03 Ex.cfg Ex.stunReq (some Ex.stunReply)).nontrivial = true := by decide +kernel
example : ∃ m, Spec.parseStun (Spec.appPayload Ex.stunReq) = some m ∧ m.cls = 0 ∧ m.method = 1 ∧
    Spec.changePortCount m = 1 ∧ Spec.u8 (Spec.appPayload Ex.stunReply) 0 = 1 ∧
    Spec.u8 (Spec.appPayload Ex.stunReply) 1 = 1 := by
  cases h : Spec.parseStun (Spec.appPayload Ex.stunReq) with
  | none => exact absurd h (by decide +kernel)
  | some m =>
    have hc : (match Spec.parseStun (Spec.appPayload Ex.stunReq) with
        | some m => decide (m.cls = 0) && decide (m.method = 1) && decide (Spec.changePortCount m = 1)
        | none => false) = true := by decide +kernel
    rw [h] at hc
    simp only [Bool.and_eq_true, decide_eq_true_eq] at hc
    exact ⟨m, rfl, hc.1.1, hc.1.2, hc.2, by decide +kernel, by decide +kernel⟩
-- the theorem applied: the offset-1 mirror relation follows from `reply_port_exact` …
example : Spec.mirrors Ex.cfg Ex.stunReq Ex.stunReply 1 = true := by
  have hs : (step Ex.cfg Ex.env [] Ex.stunReq).out = .ok (some Ex.stunReply) :=
    Ex.outIs_sound (by decide +kernel)
  cases h : Spec.parseStun (Spec.appPayload Ex.stunReq) with
  | none => exact absurd h (by decide +kernel)
  | some m =>
    have hc : (match Spec.parseStun (Spec.appPayload Ex.stunReq) with
        | some m => decide (m.cls = 0) && decide (m.method = 1) && decide (Spec.changePortCount m = 1)
        | none => false) = true := by decide +kernel
    rw [h] at hc
    simp only [Bool.and_eq_true, decide_eq_true_eq] at hc
    have := reply_port_exact Ex.cfg Ex.env [] Ex.stunReq Ex.stunReply m rfl hs h hc.1.1 hc.1.2
      (by decide +kernel) (by decide +kernel)
    rw [hc.2] at this; exact this
-- … and the judge is strict there: the same reply sent from the unshifted port 3478 is refused
-- (bytes 34–35 = UDP source port; the checksum is not the judge's business here)
example : (Spec.judgeC03 Ex.cfg Ex.stunReq (some (Ex.stunReply.set 35 150))).ok = false := by decide +kernel
-- other branches: ARP and SYN replies (offset 0) get a non-trivial verdict too
example : (Spec.judgeC03 Ex.cfg Ex.arpReq (some Ex.arpReply)).ok = true ∧
    (Spec.judgeC03 Ex.cfg Ex.arpReq (some Ex.arpReply)).nontrivial = true := by decide +kernel
example : (match (step Ex.cfg Ex.env [] Ex.synReq).out with
    | .ok o => (Spec.judgeC03 Ex.cfg Ex.synReq o).ok && (Spec.judgeC03 Ex.cfg Ex.synReq o).nontrivial
    | .error _ => false) = true := by decide +kernel
end Masscanned.C03Judge

#print axioms Masscanned.C03Judge.reply_port_exact
#print axioms Masscanned.C03Judge.reply_01_is_stun
#print axioms Masscanned.C03Judge.judgeC03_on_model
#print axioms Masscanned.C03Judge.judgeC03_accepts_model
#print axioms Masscanned.C03Judge.judgeC03_accepts_model_wf
#print axioms Masscanned.C03Judge.judgeC03_regression_trailing
#print axioms Masscanned.C03Judge.judgeC03_regression_fuel
