/-
  Thm/C10E2E — property C10, second half, END TO END at the application interface:
  "a complete valid request whose leading bytes complete a signature is answered by that protocol's
  responder", composed with what the answer is (C13–C18).

  Interface: `protoRepl cfg env ci none p` (a datagram) and `protoRepl cfg env ci (some {}) p` (first
  data segment of a TCP flow: fresh control block).  `hg` is the SYN-cookie gate of `proto::repl`
  (a TCP client info without cookie is never answered); at frame level it always holds
  (Thm/C10E2Eb: UDP frames, Thm/C10E2Ec: TCP frames).

  Identification is discharged from the request grammar itself:
  * Proofs/E2E/Ident: a matching signature that clashes (literal vs literal) with every other
    signature that is not longer is the first one completed; `dispatch_*_K2` = the dispatch theorems
    of Thm/C10 stated with the shadow-aware reference `Spec.refStreamK2` (which the compiled matcher
    equals on ALL inputs, `C10.matcher_eq_refK2_*`), so no `Spec.shadowed` hypothesis is needed;
  * Proofs/E2E/Sigs: per protocol, the bytes forced by the request grammar complete the signature,
    in the PUBLISHED set (`Spec.refStream p = some ID_…`, reported in each conclusion) and in the
    set the matcher implements.

  Findings (machine-checked below):
  * `http_shadowed_witness`: "`Spec.strictRequest p → Spec.shadowed p = false`" is FALSE (a request
    target may contain the bytes of an ONC-RPC header); harmless — `http_e2e` needs no such fact,
    because `Spec.shadowed` over-approximates: HTTP itself is never shadowed.
  * `stun_unanswered_witness` (known finding K2): a valid RFC 5389 Binding Request with magic cookie
    and an attribute area of 1..255 bytes (other than the single CHANGE-REQUEST form) is NOT answered.
    `stun_e2e_K2` + `stun_identified_iff_K2` give the exact set of Binding Requests that are; the usual
    RFC 5389 probe (cookie, no attributes) IS answered although it lies in `Spec.shadowed`
    (`stun_plain_witness`): the published-hypotheses form `stun_e2e` does not cover it, `stun_e2e_K2` does.
  * `smb1_flags_witness`: `Spec.nbtBody` accepts a NetBIOS session message whose second byte
    (flags / length bit 16) is not 0; the published signature `00 00 ** ** ff S M B` does not, and
    such a request is NOT answered: hence the hypothesis `Spec.u8 p 1 = 0` of `smb1_e2e`/`smb2_e2e`.
  * ONC-RPC over TCP: the matcher identifies a call if the first byte of the record mark is not one
    of the nine shadowed values (always true for a last-fragment mark, `≥ 0x80`,
    `E2E.last_fragment_not_nine`) and the first byte of the xid is not 0: `rpc_e2e_tcp`; the second
    condition cannot be dropped (K2): `rpc_tcp_xid0_witness` is a valid call with xid `00 00 00 01`
    that is not answered.
-/
import Masscanned.Proofs.E2E.Handle
import Masscanned.Thm.C10
import Masscanned.Thm.C13
import Masscanned.Thm.C14
import Masscanned.Thm.C15
import Masscanned.Thm.C16
import Masscanned.Thm.C17
import Masscanned.Thm.C18
import Masscanned.Proofs.C01.App
open Masscanned
namespace Masscanned.C10E2E
open Masscanned.Spec Masscanned.E2E

/-! ### HTTP -/

/-- **HTTP end to end**: a request of the property's grammar (`Spec.strictRequest`) completes the
    published HTTP signature first, and is answered — as a datagram and as first segment of a TCP
    flow — with the well-formed 401 response (`Spec.reply401Ok`, for a date text without CR/LF);
    over TCP the flow is recorded as HTTP. -/
theorem http_e2e (cfg : Cfg) (env : Env) (ci : ClientInfo) (p : Bytes) (hg : Gate ci)
    (hd : ∀ b ∈ env.httpDate, b ≠ 10 ∧ b ≠ 13) (h : strictRequest p = true) :
    refStream p = some ID_HTTP ∧
    (∃ r, protoRepl cfg env ci none p = .ok (ci, none, some r) ∧ r = httpReplyBytes env ∧
      reply401Ok r = true) ∧
    (∃ t r, protoRepl cfg env ci (some {}) p = .ok (ci, some t, some r) ∧ r = httpReplyBytes env ∧
      reply401Ok r = true ∧ t.protoId = PROTO_HTTP) := by
  obtain ⟨m, hm, r, hp, h47, _⟩ := (C13.relaxedRequest_unfold p).1 (C13.strict_subset_relaxed p h)
  obtain ⟨hK2, hpub⟩ := http_ident p m r hm hp h47
  obtain ⟨s, hs⟩ := C13.grammar_request_answered env p h
  obtain ⟨hdg, st, hst⟩ := dispatch_both cfg env ci p ID_HTTP hg hK2
  have hwf := C13.http_reply_wf env hd
  refine ⟨hpub, ⟨_, ?_, rfl, hwf⟩,
    ⟨{ protoId := ID_HTTP, smackState := st, protoState := some (.http s) }, _, ?_, rfl, hwf, rfl⟩⟩
  · rw [hdg, handle_http_none, hs]
  · rw [hst, handle_http_fresh, hs]

/-- … and over TCP the block recorded for the flow is ready for the NEXT request: `http::repl` resets the
    stored parser state once it has answered (`C13.http_state_reset`), the block is `C13.FreshHttp` -/
theorem http_e2e_fresh (cfg : Cfg) (env : Env) (ci : ClientInfo) (p : Bytes) (hg : Gate ci)
    (h : strictRequest p = true) :
    ∃ t, protoRepl cfg env ci (some {}) p = .ok (ci, some t, some (httpReplyBytes env)) ∧ C13.FreshHttp t := by
  obtain ⟨m, hm, r, hp, h47, ht⟩ := (C13.relaxedRequest_unfold p).1 (C13.strict_subset_relaxed p h)
  obtain ⟨hK2, _⟩ := http_ident p m r hm hp h47
  have hs := (C13.http_every_request_answered env p).1 ⟨m, 32 :: r, hp, List.mem_map_of_mem hm, ht⟩
  obtain ⟨_, st, hst⟩ := dispatch_both cfg env ci p ID_HTTP hg hK2
  refine ⟨{ protoId := ID_HTTP, smackState := st, protoState := some (.http {}) }, ?_, rfl, .inr rfl⟩
  rw [hst, handle_http_fresh, hs]

/-- **every request of an HTTP connection, end to end**: a new TCP flow (empty control block) whose data
    segments each hold one complete request of the property's grammar — the first one is identified as HTTP
    by the dispatcher, the later ones are judged by the responder alone —: no panic, EVERY segment is
    answered with the well-formed 401 response, and the flow's block ends ready for the next request.
    (Before the repair of `http::repl` the later segments were answered too — but so was everything else.
    What is NOT answered after an answered request: `C13.http_later_junk_silent`.) -/
theorem http_connection_all_answered (cfg : Cfg) (env : Env) (ci : ClientInfo) (hg : Gate ci)
    (hd : ∀ b ∈ env.httpDate, b ≠ 10 ∧ b ≠ 13) (p : Bytes) (ps : List Bytes)
    (hps : ∀ q ∈ p :: ps, strictRequest q = true) :
    ∃ t, C11.feed cfg env ci {} (p :: ps) = .ok (t, (p :: ps).map (fun _ => some (httpReplyBytes env))) ∧
      C13.FreshHttp t ∧ reply401Ok (httpReplyBytes env) = true := by
  obtain ⟨t1, h1, hf1⟩ := http_e2e_fresh cfg env ci p hg (hps p (List.mem_cons_self ..))
  obtain ⟨t, h2, hf2, _⟩ := C13.http_requests_all_answered cfg env ci hg ps (fun q hq => by
    obtain ⟨m, hm, r, hp, _, ht⟩ :=
      (C13.relaxedRequest_unfold q).1 (C13.strict_subset_relaxed q (hps q (List.mem_cons_of_mem _ hq)))
    exact ⟨m, 32 :: r, hp, List.mem_map_of_mem hm, ht⟩) t1 hf1
  refine ⟨t, ?_, hf2, C13.http_reply_wf env hd⟩
  rw [C11.feed_cons_ok cfg env ci ci _ _ p ps _ h1, h2]
  rfl

/-- FINDING (formulation, not implementation): a request of the grammar may lie in `Spec.shadowed`;
    "not shadowed" cannot be proved from the grammar.  "GET /" + target bytes spelling an ONC-RPC/TCP
    header.  `http_e2e` covers it all the same. -/
def httpShadowed : Bytes :=
  [71, 69, 84, 32, 47, 97, 97, 97, 0, 0, 0, 0, 0, 0, 0, 2, 0, 1, 134, 160, 0, 0, 0, 2, 0, 0, 0, 3] ++
  " HTTP/1.1\r\n\r\n".toUTF8.toList

theorem http_shadowed_witness : strictRequest httpShadowed = true ∧ shadowed httpShadowed = true := by
  decide +kernel

/-! ### SSH, Gh0st -/

/-- **SSH end to end**: an identification string of the Spec's language is answered with exactly
    the expected banner, over UDP and TCP -/
theorem ssh_e2e (cfg : Cfg) (env : Env) (ci : ClientInfo) (p : Bytes) (hg : Gate ci)
    (h : sshAnswered p = true) :
    refStream p = some ID_SSH ∧
    protoRepl cfg env ci none p = .ok (ci, none, some sshBannerExpected) ∧
    ∃ t, protoRepl cfg env ci (some {}) p = .ok (ci, some t, some sshBannerExpected) ∧
      t.protoId = PROTO_SSH := by
  have hpre : ("SSH-2.0".toUTF8.toList.isPrefixOf p || "SSH-1.99".toUTF8.toList.isPrefixOf p) = true := by
    unfold sshAnswered at h
    rw [Bool.and_eq_true] at h
    exact h.1
  obtain ⟨hK2, hpub⟩ := ssh_ident p hpre
  obtain ⟨hdg, st, hst⟩ := dispatch_both cfg env ci p ID_SSH hg hK2
  have hr := C18.ssh_spec p h
  refine ⟨hpub, ?_, { ({} : Tcb) with protoId := ID_SSH, smackState := st }, ?_, rfl⟩
  · rw [hdg, handle_ssh, hr]
  · rw [hst, handle_ssh, hr]

/-- **Gh0st end to end**: every payload starting with "Gh0st" is answered with the constant frame,
    which is a consistent Gh0st frame -/
theorem ghost_e2e (cfg : Cfg) (env : Env) (ci : ClientInfo) (p : Bytes) (hg : Gate ci)
    (h : "Gh0st".toUTF8.toList.isPrefixOf p = true) :
    refStream p = some ID_GHOST ∧
    protoRepl cfg env ci none p = .ok (ci, none, some Gen.ghostReply) ∧
    (∃ t, protoRepl cfg env ci (some {}) p = .ok (ci, some t, some Gen.ghostReply) ∧
      t.protoId = PROTO_GHOST) ∧
    ghostFrameOk Gen.ghostReply = true := by
  obtain ⟨hK2, hpub⟩ := ghost_ident p h
  obtain ⟨hdg, st, hst⟩ := dispatch_both cfg env ci p ID_GHOST hg hK2
  refine ⟨hpub, ?_, ⟨{ ({} : Tcb) with protoId := ID_GHOST, smackState := st }, ?_, rfl⟩, C18.ghost_frame_ok⟩
  · rw [hdg]; exact C18.ghost_reply_constant cfg env ci none p
  · rw [hst]; exact C18.ghost_reply_constant cfg env ci _ p

/-! ### STUN -/

/-- **STUN end to end** (general form; identification = what the compiled matcher implements, see
    `stun_identified_iff_K2` for the exact set): a complete well-formed Binding Request of at most
    65535 bytes from (`src`, `sp`) identified as STUN is answered with the Binding Success Response of
    `Spec.stunSuccessOk`; the client info's destination port (= the reply's source port) advances by
    the number of change-port CHANGE-REQUESTs, mod 2^16, nothing else changes. -/
theorem stun_e2e_K2 (cfg : Cfg) (env : Env) (ci : ClientInfo) (p : Bytes) (m : StunMsg) (src : Ip) (sp : Nat)
    (hg : Gate ci) (hp : parseStun p = some m) (hc : m.cls = 0) (hm : m.method = 1) (hl : p.length ≤ 65535)
    (hs : ci.ipSrc = some src) (hps : ci.portSrc = some sp) (hsp : sp < 65536) (hw : IpWf src)
    (hid : refDatagramK2 p = some ID_STUN) :
    ∃ ci' r, protoRepl cfg env ci none p = .ok (ci', none, some r) ∧ stunSuccessOk m r src sp = true ∧
      ci'.portDst = ci.portDst.map (fun d => (d + changePortCount m) % 65536) ∧
      ci' = { ci with portDst := ci'.portDst } ∧ r.length ≤ 44 := by
  obtain ⟨ci', r, hr, hok, hpd, hci⟩ := C15.stun_binding_success_partial ci p m src sp hp hc hm hl hs hps hsp hw
  have h16 : C01.ipLen16 ci.ipSrc := by
    intro ip hip
    rw [hs] at hip; cases hip
    cases src <;> simp only [IpWf] at hw <;> simp [Ip.bytes, hw]
  refine ⟨ci', r, ?_, hok, hpd, hci, C01.stunRepl_len ci ci' h16 p r hr⟩
  rw [dispatch_datagram_K2 cfg env ci p ID_STUN hg hid, handle_stun, hr]

/-- **STUN end to end, published hypotheses**: identification by the published signature set,
    outside the known shadow set.  (The one-byte-short quirk cannot occur: first byte 0.) -/
theorem stun_e2e (cfg : Cfg) (env : Env) (ci : ClientInfo) (p : Bytes) (m : StunMsg) (src : Ip) (sp : Nat)
    (hg : Gate ci) (hp : parseStun p = some m) (hc : m.cls = 0) (hm : m.method = 1) (hl : p.length ≤ 65535)
    (hs : ci.ipSrc = some src) (hps : ci.portSrc = some sp) (hsp : sp < 65536) (hw : IpWf src)
    (h1 : refDatagram p = some ID_STUN) (h2 : shadowed p = false) :
    ∃ ci' r, protoRepl cfg env ci none p = .ok (ci', none, some r) ∧ stunSuccessOk m r src sp = true ∧
      ci'.portDst = ci.portDst.map (fun d => (d + changePortCount m) % 65536) ∧
      ci' = { ci with portDst := ci'.portDst } ∧ r.length ≤ 44 := by
  obtain ⟨h20, h0, _, _⟩ := binding_facts hp hc hm
  have hq := not_oneShort_of_zero p (by omega) h0
  exact stun_e2e_K2 cfg env ci p m src sp hg hp hc hm hl hs hps hsp hw
    (by rw [C10.refDatagramK2_eq_of_not_shadowed p h2 hq]; exact h1)

/-- which Binding Requests are identified (sufficient conditions, byte level):
    (a) RFC 5389 magic cookie and an attribute area of at least 256 bytes (third byte ≠ 0);
    (b) no attributes at all (20 bytes; with or without magic cookie);
    (c) exactly one CHANGE-REQUEST attribute `00 03 00 04 00 00 00 xx` (28 bytes; with or without
        magic cookie). -/
theorem stun_identified (p : Bytes) (m : StunMsg) (hp : parseStun p = some m) (hc : m.cls = 0) (hm : m.method = 1) :
    (hasCookie p = true → u8 p 2 ≠ 0 → refDatagramK2 p = some ID_STUN) ∧
    (p.length = 20 → refDatagramK2 p = some ID_STUN) ∧
    (p.length = 28 → sub p 20 7 = [0, 3, 0, 4, 0, 0, 0] → refDatagramK2 p = some ID_STUN) ∧
    (hasCookie p = true → refDatagram p = some ID_STUN) := by
  obtain ⟨h20, h0, h1, hlen⟩ := binding_facts hp hc hm
  have b2 := E2E.u8_lt p 2; have b3 := E2E.u8_lt p 3
  refine ⟨?_, ?_, ?_, ?_⟩
  · intro hck h2
    exact refDatagramK2_of_stream p _ ((stun_cookie_ident p (by omega) h0 h1 hck).2 h2)
  · intro h
    have : be16 p 2 = 0 := by omega
    simp only [be16, Nat.reduceAdd] at this
    exact stunA_ident p h h0 h1 (by omega) (by omega)
  · intro h hb
    have : be16 p 2 = 8 := by omega
    simp only [be16, Nat.reduceAdd] at this
    have k := sub_u8 p 20 7 _ hb
    have k0 : u8 p 20 = 0 := k 0 (by decide)
    have k1 : u8 p 21 = 3 := k 1 (by decide)
    have k2 : u8 p 22 = 0 := k 2 (by decide)
    have k3 : u8 p 23 = 4 := k 3 (by decide)
    have k4 : u8 p 24 = 0 := k 4 (by decide)
    have k5 : u8 p 25 = 0 := k 5 (by decide)
    have k6 : u8 p 26 = 0 := k 6 (by decide)
    exact stunB_ident p h h0 h1 (by omega) (by omega) k0 k1 k2 k3 k4 k5 k6
  · intro hck
    exact refDatagram_of_stream p _ (stun_cookie_ident p (by omega) h0 h1 hck).1

/-- **which Binding Requests are identified, exactly**: the compiled matcher identifies a Binding
    Request as STUN iff it carries the magic cookie with an attribute area ≥ 256 bytes, or has no
    attributes, or has exactly one CHANGE-REQUEST `00 03 00 04 00 00 00 xx` -/
theorem stun_identified_iff_K2 (p : Bytes) (m : StunMsg) (hp : parseStun p = some m) (hc : m.cls = 0)
    (hm : m.method = 1) :
    refDatagramK2 p = some ID_STUN ↔
      (hasCookie p = true ∧ u8 p 2 ≠ 0) ∨ p.length = 20 ∨
      (p.length = 28 ∧ sub p 20 7 = [0, 3, 0, 4, 0, 0, 0]) := by
  obtain ⟨ha, hb, hc', _⟩ := stun_identified p m hp hc hm
  constructor
  · intro h
    rcases stun_ident_inv p h with h | ⟨hl, _⟩ | ⟨hl, h⟩
    · exact .inl (patStunK2_inv p h)
    · exact .inr (.inl hl)
    · exact .inr (.inr ⟨hl, patStunB_inv p hl h⟩)
  · rintro (⟨h1, h2⟩ | h | ⟨h1, h2⟩)
    · exact ha h1 h2
    · exact hb h
    · exact hc' h1 h2

/-- with the PUBLISHED hypotheses of `stun_e2e` (published reference = STUN, outside the shadow set)
    the same three shapes, minus the cookie-bearing requests of the two short forms (which are in
    `Spec.shadowed` although the matcher does identify them, `stun_plain_witness`) -/
theorem stun_published_imp (p : Bytes) (m : StunMsg) (hp : parseStun p = some m) (hc : m.cls = 0)
    (hm : m.method = 1) (h1 : refDatagram p = some ID_STUN) (h2 : shadowed p = false) :
    (hasCookie p = true ∧ u8 p 2 ≠ 0) ∨ p.length = 20 ∨
      (p.length = 28 ∧ sub p 20 7 = [0, 3, 0, 4, 0, 0, 0]) := by
  obtain ⟨h20, h0, _, _⟩ := binding_facts hp hc hm
  have hq := not_oneShort_of_zero p (by omega) h0
  exact (stun_identified_iff_K2 p m hp hc hm).1
    (by rw [C10.refDatagramK2_eq_of_not_shadowed p h2 hq]; exact h1)

/-- FINDING K2 seen end to end: a valid RFC 5389 Binding Request (magic cookie, one 4-byte SOFTWARE
    attribute "test") completes the published STUN signature and is a Binding Request of the Spec —
    and gets NO reply. -/
def stunSoftware : Bytes :=
  [0, 1, 0, 8, 0x21, 0x12, 0xa4, 0x42, 1, 2, 3, 4, 5, 6, 7, 8, 9, 10, 11, 12, 0x80, 0x22, 0, 4, 116, 101, 115, 116]

theorem stun_unanswered_witness :
    isBindingRequest stunSoftware = true ∧ refDatagram stunSoftware = some ID_STUN ∧
    shadowed stunSoftware = true ∧ refDatagramK2 stunSoftware = none ∧
    C18.okIs (protoRepl C18.cfgE C18.envE C15ex.ci4 none stunSoftware) (C15ex.ci4, none, none) = true := by
  decide +kernel

/-! ### ONC-RPC -/

/-- **ONC-RPC over UDP end to end**: a complete call (`Spec.parseCall`) whose fields are in the ranges
    of the published signature (RPC version < 256, program 99840..100095, procedure < 256) completes
    that signature first; it is outside `Spec.shadowed` iff its first byte (first byte of the xid) is
    not one of the nine values 00 'C' 'D' 'G' 'H' 'O' 'P' 'S' 'T'; then it is answered with the reply
    prescribed by C16 for the address and port the client contacted. -/
theorem rpc_e2e_udp (cfg : Cfg) (env : Env) (ci : ClientInfo) (p : Bytes) (c : RpcCall) (ip : Ip) (port : Nat)
    (hg : Gate ci) (hc : parseCall p = some c)
    (hv : c.rpcvers < 256) (hprog : inPortmapRange c.prog = true) (hproc : c.proc < 256)
    (hip : ci.ipDst = some ip) (hport : ci.portDst = some port) (hp : port < 65536) :
    refStream p = some ID_RPC_UDP ∧ shadowed p = nineBytes.contains (p.getD 0 1) ∧
    (shadowed p = false →
      ∃ r, protoRepl cfg env ci none p = .ok (ci, none, some r) ∧ rpcReplyOk c r ip port = true ∧
        r.length ≤ 1200) := by
  obtain ⟨hpub, hK2⟩ := rpc_udp_ident p c hc hv hprog hproc
  obtain ⟨h40, h4, e8, e12, e20⟩ := parseCall_inv p c hc
  have hsh : shadowed p = nineBytes.contains (p.getD 0 1) :=
    rpc_udp_shadowed p (patRpc_match .any p (by omega) h4 (e8 ▸ hv) (e12 ▸ hprog) (e20 ▸ hproc) rfl)
  refine ⟨hpub, hsh, fun hns => ?_⟩
  obtain ⟨r, hr, hok⟩ := C16.rpc_reply_udp cfg.ovf ci p c ip port hc hip hport hp
  refine ⟨r, ?_, hok, C01.rpcReplUdp_len cfg.ovf ci ip port p r hip hport hp hr⟩
  rw [dispatch_datagram_K2 cfg env ci p ID_RPC_UDP hg (refDatagramK2_of_stream p _ (hK2 (hsh ▸ hns))),
    handle_rpc_udp, hr]

/-- **ONC-RPC over TCP end to end** (first segment of a flow carrying record mark + complete call):
    if the first byte of the record mark is not one of the nine shadowed values (always the case for a
    last-fragment mark, whose first byte is ≥ 0x80) and the first byte of the xid is not 0, the
    payload is outside `Spec.shadowed`, completes the published ONC-RPC/TCP signature first, and is
    answered with the C16 reply behind a correct record mark. -/
theorem rpc_e2e_tcp (cfg : Cfg) (env : Env) (ci : ClientInfo) (p : Bytes) (c : RpcCall) (ip : Ip) (port : Nat)
    (hg : Gate ci) (hl : 4 ≤ p.length) (hc : parseCall (p.drop 4) = some c)
    (hv : c.rpcvers < 256) (hprog : inPortmapRange c.prog = true) (hproc : c.proc < 256)
    (h0 : nineBytes.contains (p.getD 0 1) = false) (hx : p.getD 4 1 ≠ 0)
    (hip : ci.ipDst = some ip) (hport : ci.portDst = some port) (hp : port < 65536) :
    refStream p = some ID_RPC_TCP ∧ shadowed p = false ∧
    ∃ t r body, protoRepl cfg env ci (some {}) p = .ok (ci, some t, some r) ∧
      recordMarkOk r = some body ∧ rpcReplyOk c body ip port = true ∧ t.protoId = PROTO_RPC_TCP ∧
      r.length ≤ 1204 := by
  obtain ⟨hK2, _⟩ := rpc_tcp_ident p c hl hc hv hprog hproc h0 hx
  have hns := not_shadowed_of_first p (by omega) h0 hx
  obtain ⟨s, r, body, hr, hmark, hok⟩ := C16.rpc_reply_tcp cfg.ovf ci p c ip port hl hc hip hport hp
  obtain ⟨st, hst⟩ := dispatch_stream_K2 cfg env ci {} p ID_RPC_TCP hg rfl rfl hK2
  refine ⟨by rw [← C10.refStreamK2_eq_of_not_shadowed p hns]; exact hK2, hns,
    { protoId := ID_RPC_TCP, smackState := st, protoState := some (.rpc s) }, r, body, ?_, hmark, hok, rfl,
    C01.rpcReplTcp_len cfg.ovf {} s ci ip port p r hip hport hp hr⟩
  rw [hst, handle_rpc_tcp_fresh, hr]

/-- FINDING K2 seen end to end: a valid call behind a last-fragment record mark whose xid starts
    with a zero byte (`00 00 00 01`) completes the published ONC-RPC/TCP signature and is NOT answered -/
def rpcXid0 : Bytes := C16.tcpMsg (C16.mkCall 1 100000 2 3)

theorem rpc_tcp_xid0_witness :
    parseCall (rpcXid0.drop 4) = some ⟨1, 2, 100000, 2, 3⟩ ∧ refStream rpcXid0 = some ID_RPC_TCP ∧
    shadowed rpcXid0 = true ∧
    (match protoRepl C18.cfgE C18.envE C18.ciE (some {}) rpcXid0 with
     | .ok (_, _, none) => true
     | _ => false) = true := by
  decide +kernel

/-! ### SMB -/

/-- **SMB1 end to end**: a well-formed Negotiate / Session-Setup request inside a NetBIOS session
    message whose second byte is 0 (length < 65536, no flag bits — what the published signature
    `00 00 ** ** ff 'S' 'M' 'B'` demands) is answered with a consistent response, over UDP and TCP -/
theorem smb1_e2e (cfg : Cfg) (env : Env) (ci : ClientInfo) (p m : Bytes) (req : Smb1Req) (hg : Gate ci)
    (hn : nbtBody p = some m) (h1 : u8 p 1 = 0) (hr : smb1Request m = some req) :
    refStream p = some ID_SMB1 ∧
    (∃ r, protoRepl cfg env ci none p = .ok (ci, none, some r) ∧ smb1ReplyOk m req r = true ∧ r.length ≤ 600) ∧
    (∃ t r, protoRepl cfg env ci (some {}) p = .ok (ci, some t, some r) ∧ smb1ReplyOk m req r = true ∧
      t.protoId = PROTO_SMB1 ∧ r.length ≤ 600) := by
  obtain ⟨hK2, hpub⟩ := smb1_ident p m req hn h1 hr
  obtain ⟨hdg, st, hst⟩ := dispatch_both cfg env ci p ID_SMB1 hg hK2
  obtain ⟨r, hrep, hok⟩ := C17.smb1_reply env p m req hn hr
  have hlen := C01.smb1Repl_len env p r hrep
  refine ⟨hpub, ⟨r, ?_, hok, hlen⟩,
    ⟨{ ({} : Tcb) with protoId := ID_SMB1, smackState := st }, r, ?_, hok, rfl, hlen⟩⟩
  · rw [hdg, handle_smb1, hrep]
  · rw [hst, handle_smb1, hrep]

/-- **SMB2 end to end** (a Negotiate must offer at least one supported dialect, C17) -/
theorem smb2_e2e (cfg : Cfg) (env : Env) (ci : ClientInfo) (p m : Bytes) (req : Smb2Req) (hg : Gate ci)
    (hn : nbtBody p = some m) (h1 : u8 p 1 = 0) (hr : smb2Request m = some req)
    (hcommon : ∀ ds, req = .negotiate ds → ds.any smb2Supported.contains = true) :
    refStream p = some ID_SMB2 ∧
    (∃ r, protoRepl cfg env ci none p = .ok (ci, none, some r) ∧ smb2ReplyOk m req r = true ∧ r.length ≤ 600) ∧
    (∃ t r, protoRepl cfg env ci (some {}) p = .ok (ci, some t, some r) ∧ smb2ReplyOk m req r = true ∧
      t.protoId = PROTO_SMB2 ∧ r.length ≤ 600) := by
  obtain ⟨hK2, hpub⟩ := smb2_ident p m req hn h1 hr
  obtain ⟨hdg, st, hst⟩ := dispatch_both cfg env ci p ID_SMB2 hg hK2
  obtain ⟨r, hrep, hok⟩ := C17.smb2_reply env p m req hn hr hcommon
  have hlen := C01.smb2Repl_len env p r hrep
  refine ⟨hpub, ⟨r, ?_, hok, hlen⟩,
    ⟨{ ({} : Tcb) with protoId := ID_SMB2, smackState := st }, r, ?_, hok, rfl, hlen⟩⟩
  · rw [hdg, handle_smb2, hrep]
  · rw [hst, handle_smb2, hrep]

/-- FINDING (Spec/Smb vs published signature): `Spec.nbtBody` ignores the upper seven bits of the
    second byte and reads bit 0 as length bit 16; the signature demands `00`.  The SMB1 Negotiate of
    C17 with that byte set to 2 is still a well-formed request for the Spec, completes no signature,
    and is NOT answered: the hypothesis `u8 p 1 = 0` of `smb1_e2e` cannot be dropped. -/
theorem smb1_flags_witness :
    nbtBody (C17.exNeg1.set 1 2) = some (C17.exNeg1.drop 4) ∧
    (smb1Request (C17.exNeg1.drop 4)).isSome = true ∧ refDatagram (C17.exNeg1.set 1 2) = none ∧
    C18.okIs (protoRepl C18.cfgE C18.envE C18.ciE none (C17.exNeg1.set 1 2)) (C18.ciE, none, none) = true := by
  decide +kernel

/-! ### DNS -/

/-- **DNS end to end** (C14 `dns_c14_full`, identification hypothesis restated on the signature sets): an
    IN/A query — any label layout, any octets inside the labels (`DnsFix.inAQueryAny`: `Spec.inAQuery`
    without its `labelsNoNul` conjunct) — over UDP to the IPv4 address `a` that the matcher does not
    identify is answered by the faithful reply -/
theorem dns_e2e_K2_full (cfg : Cfg) (env : Env) (ci : ClientInfo) (p a : Bytes) (q : DMsg)
    (hq : DnsFix.inAQueryAny p = some q) (hd : ci.ipDst = some (.v4 a)) (ha : a.length = 4)
    (hudp : ci.transport = some 17) (h1 : refDatagramK2 p = none) :
    ∃ r, protoRepl cfg env ci none p = .ok (ci, none, some r) ∧ dnsReplyOk q r a = true ∧
      r.length ≤ 7 * p.length := by
  obtain ⟨st, n, st', hs1, hs2⟩ := datagram_noMatch p h1
  obtain ⟨m, r, hm, hr, hok⟩ := C14.dns_reply_faithful_full (ci := ci) hq hd ha
  have h16 : C01.ipLen16 ci.ipDst := by
    intro ip hip
    rw [hd] at hip; cases hip
    simp [Ip.bytes, ha]
  exact ⟨r, C14.dns_fallback (by simp [hudp]) hs1 hs2 hm hr, hok, C01.dns_reply_len ci h16 p m r hm hr⟩

/-- … in the Spec's vocabulary (`Spec.inAQuery` implies `DnsFix.inAQueryAny`) -/
theorem dns_e2e_K2 (cfg : Cfg) (env : Env) (ci : ClientInfo) (p a : Bytes) (q : DMsg)
    (hq : inAQuery p = some q) (hd : ci.ipDst = some (.v4 a)) (ha : a.length = 4)
    (hudp : ci.transport = some 17) (h1 : refDatagramK2 p = none) :
    ∃ r, protoRepl cfg env ci none p = .ok (ci, none, some r) ∧ dnsReplyOk q r a = true ∧
      r.length ≤ 7 * p.length :=
  dns_e2e_K2_full cfg env ci p a q (DnsFix.inAQuery_any hq) hd ha hudp h1

/-- … with the published reference: no published signature completed, outside the shadow set, not one
    byte short of an ONC-RPC signature -/
theorem dns_e2e_full (cfg : Cfg) (env : Env) (ci : ClientInfo) (p a : Bytes) (q : DMsg)
    (hq : DnsFix.inAQueryAny p = some q) (hd : ci.ipDst = some (.v4 a)) (ha : a.length = 4)
    (hudp : ci.transport = some 17)
    (h1 : refDatagram p = none) (h2 : shadowed p = false) (h3 : rpcOneShort p = false) :
    ∃ r, protoRepl cfg env ci none p = .ok (ci, none, some r) ∧ dnsReplyOk q r a = true ∧
      r.length ≤ 7 * p.length :=
  dns_e2e_K2_full cfg env ci p a q hq hd ha hudp (by rw [C10.refDatagramK2_eq_of_not_shadowed p h2 h3]; exact h1)

theorem dns_e2e (cfg : Cfg) (env : Env) (ci : ClientInfo) (p a : Bytes) (q : DMsg)
    (hq : inAQuery p = some q) (hd : ci.ipDst = some (.v4 a)) (ha : a.length = 4)
    (hudp : ci.transport = some 17)
    (h1 : refDatagram p = none) (h2 : shadowed p = false) (h3 : rpcOneShort p = false) :
    ∃ r, protoRepl cfg env ci none p = .ok (ci, none, some r) ∧ dnsReplyOk q r a = true ∧
      r.length ≤ 7 * p.length :=
  dns_e2e_full cfg env ci p a q (DnsFix.inAQuery_any hq) hd ha hudp h1 h2 h3

end Masscanned.C10E2E

/-! ### non-vacuity: concrete requests satisfy the hypotheses, and the theorems apply -/
namespace Masscanned.C10E2E
open Masscanned.Spec Masscanned.E2E

private def B (s : String) : Bytes := s.toUTF8.toList
/-- client infos as the UDP / TCP layers hand them over -/
def ciUdp : ClientInfo :=
  { ipSrc := some (.v4 [1, 2, 3, 4]), ipDst := some (.v4 [10, 0, 0, 1]), transport := some 17,
    portSrc := some 40000, portDst := some 111 }
def ciTcp : ClientInfo := { ciUdp with transport := some 6, cookie := some 7 }
def envD : Env := { httpDate := B "Tue, 29 Sep 2026 00:00:00 +0000", unixSecs := 1700000000 }

example : Gate ciUdp ∧ Gate ciTcp := by decide
example : ∀ b ∈ envD.httpDate, b ≠ 10 ∧ b ≠ 13 := by decide +kernel

-- HTTP
example : strictRequest (B "GET / HTTP/1.1\r\nHost: a\r\n\r\n") = true ∧
    strictRequest (B "OPTIONS /x?y HTTP/1.0\n\n") = true := by decide +kernel
example (cfg : Cfg) : ∃ t r, protoRepl cfg envD ciTcp (some {}) (B "GET / HTTP/1.1\r\nHost: a\r\n\r\n") =
    .ok (ciTcp, some t, some r) ∧ r = httpReplyBytes envD ∧ reply401Ok r = true ∧ t.protoId = PROTO_HTTP :=
  (http_e2e cfg envD ciTcp _ (by decide) (by decide +kernel) (by decide +kernel)).2.2
-- a connection with three requests of the grammar, one per segment: all answered (hypotheses of
-- `http_connection_all_answered`, and the theorem on them)
example (cfg : Cfg) : ∃ t, C11.feed cfg envD ciTcp {}
      [B "GET / HTTP/1.1\r\nHost: a\r\n\r\n", B "OPTIONS /x?y HTTP/1.0\n\n", B "GET / HTTP/1.1\r\nHost: a\r\n\r\n"] =
      .ok (t, [some (httpReplyBytes envD), some (httpReplyBytes envD), some (httpReplyBytes envD)]) ∧
    C13.FreshHttp t := by
  obtain ⟨t, h1, h2, _⟩ := http_connection_all_answered cfg envD ciTcp (by decide) (by decide +kernel)
    (B "GET / HTTP/1.1\r\nHost: a\r\n\r\n") [B "OPTIONS /x?y HTTP/1.0\n\n", B "GET / HTTP/1.1\r\nHost: a\r\n\r\n"]
    (by decide +kernel)
  exact ⟨t, h1, h2⟩
-- … also for the request inside `Spec.shadowed`
example (cfg : Cfg) : ∃ r, protoRepl cfg envD ciUdp none httpShadowed = .ok (ciUdp, none, some r) ∧
    r = httpReplyBytes envD ∧ reply401Ok r = true :=
  (http_e2e cfg envD ciUdp _ (by decide) (by decide +kernel) http_shadowed_witness.1).2.1

-- SSH, Gh0st
example : sshAnswered C18.ex1 = true ∧ sshAnswered C18.ex3 = true := by decide +kernel
example (cfg : Cfg) (env : Env) : protoRepl cfg env ciUdp none C18.ex3 = .ok (ciUdp, none, some sshBannerExpected) :=
  (ssh_e2e cfg env ciUdp _ (by decide) (by decide +kernel)).2.1
example : "Gh0st".toUTF8.toList.isPrefixOf C18.ghE = true := by decide +kernel
example (cfg : Cfg) (env : Env) : protoRepl cfg env ciTcp none C18.ghE = .ok (ciTcp, none, some Gen.ghostReply) :=
  (ghost_e2e cfg env ciTcp _ (by decide) (by decide +kernel)).2.1

-- STUN: RFC 3489 request with one CHANGE-REQUEST (form c), cookie-bearing request with 268 attribute
-- bytes (form a), cookie-bearing request without attributes (form b, the usual RFC 5389 probe)
def stunPlain : Bytes := [0, 1, 0, 0, 0x21, 0x12, 0xa4, 0x42, 1, 2, 3, 4, 5, 6, 7, 8, 9, 10, 11, 12]

example : isBindingRequest C15ex.reqA = true ∧ C15ex.reqA.length = 28 ∧
    sub C15ex.reqA 20 7 = [0, 3, 0, 4, 0, 0, 0] ∧
    isBindingRequest C15ex.reqB = true ∧ hasCookie C15ex.reqB = true ∧ u8 C15ex.reqB 2 ≠ 0 ∧
    refDatagram C15ex.reqB = some ID_STUN ∧ shadowed C15ex.reqB = false ∧
    isBindingRequest stunPlain = true ∧ stunPlain.length = 20 ∧ hasCookie stunPlain = true ∧
    shadowed stunPlain = true := by decide +kernel

example (cfg : Cfg) (env : Env) (m : StunMsg) (hp : parseStun stunPlain = some m) (hc : m.cls = 0)
    (hm : m.method = 1) :
    ∃ ci' r, protoRepl cfg env ciUdp none stunPlain = .ok (ci', none, some r) ∧
      stunSuccessOk m r (.v4 [1, 2, 3, 4]) 40000 = true ∧
      ci'.portDst = ciUdp.portDst.map (fun d => (d + changePortCount m) % 65536) ∧
      ci' = { ciUdp with portDst := ci'.portDst } ∧ r.length ≤ 44 :=
  stun_e2e_K2 cfg env ciUdp _ m _ _ (by decide) hp hc hm (by decide) rfl rfl (by decide) (by decide)
    ((stun_identified _ m hp hc hm).2.1 (by decide))
example : (parseStun stunPlain).any (fun m => m.cls = 0 && m.method = 1) = true := by decide +kernel

/-- the usual RFC 5389 probe: published reference says STUN, `Spec.shadowed` holds, the matcher
    identifies it all the same (through the end-anchored 20-byte form) -/
theorem stun_plain_witness : isBindingRequest stunPlain = true ∧ refDatagram stunPlain = some ID_STUN ∧
    shadowed stunPlain = true ∧ refDatagramK2 stunPlain = some ID_STUN := by decide +kernel

-- ONC-RPC
example : parseCall (C16.mkCall 0x72fe1d13 100000 2 3) = some ⟨0x72fe1d13, 2, 100000, 2, 3⟩ ∧
    shadowed (C16.mkCall 0x72fe1d13 100000 2 3) = false ∧ inPortmapRange 100000 = true := by decide +kernel
example (cfg : Cfg) (env : Env) : ∃ r, protoRepl cfg env ciUdp none (C16.mkCall 0x72fe1d13 100000 2 3) =
    .ok (ciUdp, none, some r) ∧ rpcReplyOk ⟨0x72fe1d13, 2, 100000, 2, 3⟩ r (.v4 [10, 0, 0, 1]) 111 = true ∧
    r.length ≤ 1200 :=
  (rpc_e2e_udp cfg env ciUdp _ ⟨0x72fe1d13, 2, 100000, 2, 3⟩ _ 111 (by decide) (by decide +kernel)
    (by decide) (by decide) (by decide) rfl rfl (by decide)).2.2 (by decide +kernel)
example : parseCall ((C16.tcpMsg (C16.mkCall 0x01020304 100000 4 3)).drop 4) = some ⟨0x01020304, 2, 100000, 4, 3⟩ ∧
    128 ≤ u8 (C16.tcpMsg (C16.mkCall 0x01020304 100000 4 3)) 0 ∧
    (C16.tcpMsg (C16.mkCall 0x01020304 100000 4 3)).getD 4 1 ≠ 0 := by decide +kernel
example (cfg : Cfg) (env : Env) : ∃ t r body,
    protoRepl cfg env ciTcp (some {}) (C16.tcpMsg (C16.mkCall 0x01020304 100000 4 3)) = .ok (ciTcp, some t, some r) ∧
    recordMarkOk r = some body ∧
    rpcReplyOk ⟨0x01020304, 2, 100000, 4, 3⟩ body (.v4 [10, 0, 0, 1]) 111 = true ∧ t.protoId = PROTO_RPC_TCP ∧
    r.length ≤ 1204 :=
  (rpc_e2e_tcp cfg env ciTcp _ ⟨0x01020304, 2, 100000, 4, 3⟩ _ 111 (by decide) (by decide) (by decide +kernel)
    (by decide) (by decide) (by decide) (by decide +kernel) (by decide +kernel) rfl rfl (by decide)).2.2

-- SMB
example : nbtBody C17.exNeg1 = some (C17.exNeg1.drop 4) ∧ u8 C17.exNeg1 1 = 0 ∧
    (smb1Request (C17.exNeg1.drop 4)).isSome = true ∧
    nbtBody C17.exNeg2Dup = some (C17.exNeg2Dup.drop 4) ∧ u8 C17.exNeg2Dup 1 = 0 ∧
    smb2Request (C17.exNeg2Dup.drop 4) = some (.negotiate [0x0210, 0x0210]) := by decide +kernel
example (cfg : Cfg) (env : Env) : ∃ r, protoRepl cfg env ciUdp none C17.exNeg2Dup = .ok (ciUdp, none, some r) ∧
    smb2ReplyOk (C17.exNeg2Dup.drop 4) (.negotiate [0x0210, 0x0210]) r = true ∧ r.length ≤ 600 :=
  (smb2_e2e cfg env ciUdp _ _ _ (by decide) (by decide +kernel) (by decide +kernel) (by decide +kernel)
    (by intro ds h; cases h; decide +kernel)).2.1

-- DNS
example : (inAQuery C14.q1).isSome = true ∧ refDatagram C14.q1 = none ∧ shadowed C14.q1 = false ∧
    rpcOneShort C14.q1 = false := by decide +kernel
-- hypotheses of `dns_e2e_full` for `C14.qNul` (`a\0b IN A`: a 0x00 inside the label)
example : (DnsFix.inAQueryAny C14.qNul).isSome = true ∧
    refDatagram C14.qNul = none ∧ shadowed C14.qNul = false ∧ rpcOneShort C14.qNul = false := by decide +kernel

#print axioms http_e2e
#print axioms http_e2e_fresh
#print axioms http_connection_all_answered
#print axioms http_shadowed_witness
#print axioms ssh_e2e
#print axioms ghost_e2e
#print axioms stun_e2e_K2
#print axioms stun_e2e
#print axioms stun_identified
#print axioms stun_identified_iff_K2
#print axioms stun_published_imp
#print axioms stun_plain_witness
#print axioms stun_unanswered_witness
#print axioms rpc_e2e_udp
#print axioms rpc_e2e_tcp
#print axioms rpc_tcp_xid0_witness
#print axioms smb1_e2e
#print axioms smb2_e2e
#print axioms smb1_flags_witness
#print axioms dns_e2e_K2_full
#print axioms dns_e2e_full
#print axioms dns_e2e_K2
#print axioms dns_e2e

end Masscanned.C10E2E
