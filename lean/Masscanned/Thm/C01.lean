/-
  Thm/C01 — property C01: "For every byte string handed over as a received frame, after any sequence
  of earlier frames and under every configuration (self-IP list, deny list, log format, log
  verbosity), processing terminates normally with either one reply frame or silence.  The process
  never aborts."

  Quantifier: every configuration `cfg` (MAC, self-IP list, deny list, SipHash key, logger, level,
  both arithmetic profiles `ovf`), every environment `env`, every finite sequence of frames of at most
  4096 bytes each (the capture buffer).  Termination is by construction (the model is a total Lean
  function; the only fuel-bounded loop, `httpVerbLoop`, reports fuel exhaustion as a panic site, which
  is shown unreachable).  "Never aborts" = `(step cfg env st f).out` is never `.error site`.

  Side conditions (`Cond cfg env`), both about inputs that are opaque to the model:
    * `env.httpDate.length ≤ 64`: the text `Utc::now().to_rfc2822()` (31 bytes in reality);
    * `cfg.mac.length = 6`: the configured MAC address (a 6-byte `MacAddr` in the Rust code; `Cfg.mac` is
      a byte list in the model).
  The table invariant `Inv` and its preservation `inv_step` need neither.

  Helper lemmas: Proofs/C01/{Http,Reply,App,Net,Ip,Examples}.lean.  Cited: C10 (`searchNext_total`,
  `searchNextEnd_total`, `proto_wf`, `http_wf`), C15 (`stun_no_panic`), C16 (`rpc_no_panic`, `RpcInv`),
  C18 (`sshRepl_eq`), C05 (`echo4_reply_counterexample`, in Thm/C01Bound.lean), Proofs/Tcp (`tcpRepl_data`, `tcpRepl_nodata`).
-/
import Masscanned.Proofs.C01.Examples
open Masscanned
namespace Masscanned.C01

/-! ### 1. the table invariant -/

/-- `Inv` spelled out: for every entry (k, t) of the table
    * `t.smackState` is a valid state of the protocol matcher: `row + pending * 2^24` with
      `row < nrows` and `pending ≤ cnt row`;
    * a stored HTTP parser state sits in a block identified as HTTP and satisfies `HttpInv`;
    * a stored RPC parser state sits in a block identified as RPC/TCP and satisfies `C16.RpcInv`.
    (Consequently a block whose id is neither HTTP nor RPC/TCP — in particular an unidentified one,
    id 0 — carries no parser state: see `inv_no_state`.) -/
theorem inv_iff (st : Table) :
    Inv st ↔ ∀ k t, (k, t) ∈ st →
      (∃ row pending, t.smackState = row + pending * 16777216 ∧ row < Gen.ProtoSmack.nrows ∧
        pending ≤ protoTbl.cnt row) ∧
      (∀ s, t.protoState = some (.http s) → t.protoId = PROTO_HTTP ∧ HttpInv s) ∧
      (∀ s, t.protoState = some (.rpc s) → t.protoId = PROTO_RPC_TCP ∧ C16.RpcInv s) := by
  constructor
  · intro h k t hm
    obtain ⟨h1, h2, h3⟩ := h (k, t) hm
    exact ⟨h1, h2, h3⟩
  · intro h e he
    obtain ⟨h1, h2, h3⟩ := h e.1 e.2 he
    exact ⟨h1, h2, h3⟩

/-- `HttpInv` spelled out: while the verb has not been found (START / VERB) the stored matcher state is
    a row of the verb matcher's table (no pending match: that table has at most one id per row) -/
theorem httpInv_iff (s : HttpSt) :
    HttpInv s ↔ ((s.state = .start ∨ s.state = .verb) → s.smackState < Gen.HttpSmack.nrows) := Iff.rfl

/-- the parser-state tag agrees with the protocol id: the `panic!()` arms of `http::repl` /
    `rpc::repl_tcp` (`.protoStateMismatch`) cannot be reached from a table satisfying `Inv` -/
theorem inv_no_state {st : Table} (h : Inv st) (k : Nat) (t : Tcb) (hm : (k, t) ∈ st) :
    (t.protoId ≠ PROTO_HTTP → ∀ s, t.protoState ≠ some (.http s)) ∧
    (t.protoId ≠ PROTO_RPC_TCP → ∀ s, t.protoState ≠ some (.rpc s)) := by
  obtain ⟨_, h2, h3⟩ := h (k, t) hm
  exact ⟨fun hne s hs => hne (h2 s hs).1, fun hne s hs => hne (h3 s hs).1⟩

/-- the HTTP parser never panics from a stored state, and stores such a state again (the
    generalisation of `C13.verb_phase_sound` from the fresh state to every reachable one) -/
theorem http_parse_total (ps : HttpSt) (d : Bytes) (h : HttpInv ps) :
    ∃ ps', httpParse ps d = .ok ps' ∧ HttpInv ps' := httpParse_inv ps d h

/-- `http::repl` never panics from a stored state and stores such a state again: the state reached by the
    parser (`http_parse_total`) when the request is not complete yet; the INITIAL state once it has been
    answered (`*pstate = ProtocolState::new()`, `C13.http_state_reset`) — for which the invariant holds
    trivially (`httpInv_init`) -/
theorem http_repl_total (env : Env) (ps : HttpSt) (d : Bytes) (h : HttpInv ps) :
    ∃ ps' r, httpRepl env ps d = .ok (ps', r) ∧ HttpInv ps' ∧ (r ≠ none → ps' = {}) ∧
      ∀ x, r = some x → x.length ≤ 2000 + env.httpDate.length := by
  obtain ⟨ps', r, h1, h2, h3⟩ := httpRepl_ok env ps d h
  refine ⟨ps', r, h1, h2, ?_, h3⟩
  intro hr
  unfold httpRepl at h1
  split at h1
  · cases h1
  · split at h1
    · simp only [Except.ok.injEq, Prod.mk.injEq] at h1
      exact h1.1.symm
    · simp only [Except.ok.injEq, Prod.mk.injEq] at h1
      exact absurd h1.2.symm hr

/-- `proto::repl` on at most 65535 bytes from a control block satisfying the invariant: no panic, the
    new control block satisfies the invariant, the reply has at most `7·|d| + 2000 + |date|` bytes -/
theorem proto_repl_total (cfg : Cfg) (env : Env) (ci : ClientInfo) (tcb : Option Tcb) (d : Bytes)
    (hci : CiOk ci) (hl : d.length ≤ 65535) (ht : ∀ t, tcb = some t → TcbInv t) :
    ∃ ci' tcb' r, protoRepl cfg env ci tcb d = .ok (ci', tcb', r) ∧
      (∀ t, tcb' = some t → TcbInv t) ∧
      ∀ x, r = some x → x.length ≤ 7 * d.length + 2000 + env.httpDate.length :=
  protoRepl_ok cfg env ci tcb d hci hl ht

/-! ### 2. the invariant holds initially and is preserved by every frame -/

theorem inv_init : Inv [] := inv_nil

theorem inv_step (cfg : Cfg) (env : Env) (st : Table) (f : Bytes) (h : Inv st) (hf : f.length ≤ 4096) :
    Inv (step cfg env st f).st := (step_ok cfg env st f h hf).1

theorem inv_run (cfg : Cfg) (env : Env) (fs : List Bytes) : ∀ (st : Table), Inv st →
    (∀ f ∈ fs, f.length ≤ 4096) → Inv (run cfg env st fs) := by
  induction fs with
  | nil => intro st h _; exact h
  | cons f fs ih =>
    intro st h hl
    exact ih _ (inv_step cfg env st f h (hl f (List.mem_cons_self ..)))
      (fun g hg => hl g (List.mem_cons_of_mem _ hg))

/-! ### 3. no panic on one frame -/

/-- C01, one frame: from any table satisfying the invariant, a frame of at most 4096 bytes is
    processed without panic, under every configuration (both arithmetic profiles) -/
theorem no_panic (cfg : Cfg) (env : Env) (st : Table) (f : Bytes)
    (hm : cfg.mac.length = 6) (hd : env.httpDate.length ≤ 64) (h : Inv st) (hf : f.length ≤ 4096) :
    ∃ o, (step cfg env st f).out = .ok o := (step_ok cfg env st f h hf).2 ⟨hd, hm⟩

/-- frames that are not TCP never look at the table: ARP, ICMP, ICMPv6, UDP (DNS, STUN, RPC/UDP, SSH,
    SMB, … over UDP) traffic is processed without panic from ANY table -/
theorem no_panic_datagram (cfg : Cfg) (env : Env) (ci : ClientInfo) (p : Bytes)
    (hci : CiL3 ci) (hp : p.length ≤ 65535) :
    ∃ evs ci' r, udpRepl cfg env ci p = .ok (evs, ci', r) := by
  have h := udpRepl_ok cfg env ci p hci hp
  cases hr : udpRepl cfg env ci p with
  | error e => exact absurd trivial (h.elim_err hr)
  | ok x => exact ⟨x.1, x.2.1, x.2.2, rfl⟩

/-! ### 4. no panic along any history -/

/-- every step of the history returns normally -/
def allOk (cfg : Cfg) (env : Env) : Table → List Bytes → Prop
  | _, [] => True
  | st, f :: fs => (∃ o, (step cfg env st f).out = .ok o) ∧ allOk cfg env (step cfg env st f).st fs

theorem no_panic_all (cfg : Cfg) (env : Env) (hm : cfg.mac.length = 6) (hd : env.httpDate.length ≤ 64)
    (fs : List Bytes) : ∀ (st : Table), Inv st → (∀ f ∈ fs, f.length ≤ 4096) → allOk cfg env st fs := by
  induction fs with
  | nil => intro _ _ _; trivial
  | cons f fs ih =>
    intro st h hl
    have hf := hl f (List.mem_cons_self ..)
    exact ⟨no_panic cfg env st f hm hd h hf,
      ih _ (inv_step cfg env st f h hf) (fun g hg => hl g (List.mem_cons_of_mem _ hg))⟩

/-- C01: whatever frames (≤ 4096 bytes each) were received before, the next one is processed without
    panic — the process never aborts, and later traffic keeps being answered -/
theorem no_panic_run (cfg : Cfg) (env : Env) (hm : cfg.mac.length = 6) (hd : env.httpDate.length ≤ 64)
    (fs : List Bytes) (hl : ∀ f ∈ fs, f.length ≤ 4096) (i : Nat) (hi : i < fs.length) :
    ∃ o, (step cfg env (run cfg env [] (fs.take i)) fs[i]).out = .ok o :=
  no_panic cfg env _ _ hm hd
    (inv_run cfg env (fs.take i) [] inv_init (fun f hf => hl f (List.mem_of_mem_take hf)))
    (hl _ (List.getElem_mem hi))

/-! ### 5. why the frame-size bound is there -/

/-- without the bound the statement is false.  At the level of `reply()`: a 65550-byte ICMP echo
    request (IHL 0, total length 0xFFFF) panics in pnet's `set_payload` assertion — theorem
    `C01.c01_bound_needed` in `Thm/C01Bound.lean` (citing `C05.echo4_reply_counterexample`; it lives in
    its own file because `Thm/C05` and `Thm/C15` cannot be imported together: `Proofs/Delivery.lean` and
    `Proofs/C0203/Bytes.lean` both declare `Masscanned.rdBE_slice2`).  At the level of the STUN responder:
    the 65536-byte binding request of C15 hits the `u16` overflow of `20 + length`
    (`C15.stun_binding_oversize_panics`); `proto_repl_total` therefore needs `d.length ≤ 65535`.  Neither
    fits the 4096-byte capture buffer. -/
theorem c01_bound_needed_stun (ci : ClientInfo) :
    C15ex.big.length = 65536 ∧ stunRepl ci C15ex.big = .error .stunOverflow := by
  have h : C15ex.big.length = 65536 := by decide +kernel
  have hp : (Spec.parseStun C15ex.big).isSome = true := by decide +kernel
  obtain ⟨m, hm⟩ := Option.isSome_iff_exists.1 hp
  exact ⟨h, C15.stun_binding_oversize_panics ci _ m hm (by omega)⟩

/-! ### non-vacuity -/

section NonVacuity
open C01ex

-- the hypotheses of `no_panic` / `no_panic_run` hold for the example configuration (debug and release
-- profile), environment and history
example : cfgE.mac.length = 6 ∧ cfgR.mac.length = 6 ∧ envE.httpDate.length = 31 := by decide +kernel
example : ∀ f ∈ hist, f.length ≤ 4096 := by decide +kernel

/-- the history "first half of an HTTP request on flow A, a STUN datagram, an RPC call on flow B, second
    half of the HTTP request on flow A" leaves a table with two control blocks, one holding HTTP parser
    state under id 1 and one holding RPC parser state under id 5 -/
example : summary (run cfgE envE [] hist) = [(PROTO_HTTP, 1), (PROTO_RPC_TCP, 2)] := by decide +kernel

/-- the match row of "GET" in the compiled HTTP verb matcher (computed from the generated table; its
    number depends on the order in which the patterns were registered) -/
private def httpGetRow : Nat := ((httpTbl.searchNext baseState [71, 69, 84]).toOption.map (·.2.1)).getD 0

/-- after the first segment the stored HTTP state is in the middle of "HTTP/" (state `lit 2`), the stored
    matcher state is the match row of "GET" -/
example : (run cfgE envE [] [fA1]).map (fun e => e.2.protoState) =
    [some (.http { state := .lit 2, smackState := httpGetRow, smackId := 0 })] ∧
    httpTbl.matchLimit ≤ httpGetRow := by decide +kernel

/-- `Inv` holds of this concrete non-empty table (by `inv_run`), and `no_panic` applies to it -/
example : Inv (run cfgE envE [] hist) ∧ (run cfgE envE [] hist).length = 2 :=
  ⟨inv_run cfgE envE hist [] inv_init (by decide +kernel), by decide +kernel⟩

example (f : Bytes) (hf : f.length ≤ 4096) : ∃ o, (step cfgE envE (run cfgE envE [] hist) f).out = .ok o :=
  no_panic cfgE envE _ f (by decide) (by decide +kernel)
    (inv_run cfgE envE hist [] inv_init (by decide +kernel)) hf

-- … and the replies are real ones: the last frame of the history (continuing from stored HTTP state) is
-- answered with the 401 response (54 bytes of headers + the response; its text is generated, Gen/Texts.lean),
-- the RPC call with its reply, the STUN request too
example : outLen (step cfgE envE (run cfgE envE [] [fA1, fStun, fB]) fA2).out =
      some (54 + (httpReplyBytes envE).length) ∧
    outLen (step cfgE envE (run cfgE envE [] [fA1, fStun]) fB).out = some 86 ∧
    outLen (step cfgE envE (run cfgE envE [] [fA1]) fStun).out = some 74 := by decide +kernel

-- `no_panic_run` instantiated: every step of the example history returns normally
example (i : Nat) (hi : i < hist.length) :
    ∃ o, (step cfgE envE (run cfgE envE [] (hist.take i)) hist[i]).out = .ok o :=
  no_panic_run cfgE envE (by decide) (by decide +kernel) hist (by decide +kernel) i hi

-- hypotheses of `proto_repl_total` / `no_panic_datagram`: the client information built by layers 3/4
example : CiOk { ipSrc := some (.v4 srcA), ipDst := some (.v4 dstIp), portSrc := some 40000, portDst := some 80 } :=
  ⟨⟨_, _, rfl, rfl, by decide⟩, fun ip h => by cases h; decide, fun ip h => by cases h; decide⟩
example : CiL3 { ipSrc := some (.v4 srcA), ipDst := some (.v4 dstIp) } :=
  ⟨⟨_, rfl⟩, fun ip h => by cases h; decide, fun ip h => by cases h; decide⟩
example : TcbInv {} ∧ HttpInv {} ∧ C16.RpcInv {} := ⟨tcbInv_init, httpInv_init, C16.rpcInv_init⟩

-- release profile
example : summary (run cfgR envE [] hist) = [(PROTO_HTTP, 1), (PROTO_RPC_TCP, 2)] := by decide +kernel

/-- the match row of "GET /" in the compiled protocol matcher (computed from the generated table) -/
private def protoGetRow : Nat :=
  ((protoTbl.searchNext baseState [71, 69, 84, 32, 47]).toOption.map (·.2.1)).getD 0

/-- the matcher-state part of the invariant is not just "a non-match row": after "GET" + " /" in two
    segments the block stores the match row of "GET /" of the protocol matcher (a row ≥ `matchLimit`) and
    an HTTP parser in FAIL state (its matcher fell back to the unanchored state); a third segment is
    still processed without panic -/
example : (run cfgE envE [] histC).map (fun e => (e.2.smackState, e.2.protoId, e.2.protoState)) =
    [(protoGetRow, PROTO_HTTP,
      some (.http { state := .fail, smackState := unanchoredState, smackId := noMatch }))] ∧
    protoTbl.matchLimit ≤ protoGetRow := by decide +kernel

end NonVacuity

#print axioms inv_iff
#print axioms inv_no_state
#print axioms http_parse_total
#print axioms http_repl_total
#print axioms proto_repl_total
#print axioms inv_init
#print axioms inv_step
#print axioms inv_run
#print axioms no_panic
#print axioms no_panic_datagram
#print axioms no_panic_all
#print axioms no_panic_run
#print axioms c01_bound_needed_stun

end Masscanned.C01
