/-
  C14 — DNS: an IN/A query over UDP/IPv4 that completes no other protocol's signature is answered
  faithfully (same ID, opcode, RD; QR=1; question section echoed; one IN/A answer per question owned
  by the queried name with RDATA = the IPv4 address the query was sent to; all counts match, so the
  response parses completely); a message with a non-IN/A question, a truncated message, or a
  response (QR=1) is not answered.

  For ALL label layouts, whatever octets the labels contain.  Until the repair of the DNS dissectors
  (`src/proto/dns/{query,rr}.rs` read a name "up to the first 0x00 octet") this was proved only under the
  precondition "no 0x00 inside a label"; the dissectors now read names label by label (a length octet,
  then that many octets of any value; the name ends at a zero LENGTH octet) and the precondition is gone:
  the `…_full` theorems below are stated over `DnsFix.inAQueryAny` / `hasNonInAAny` / `dnsTruncatedAny`
  (`Proofs/DnsFix/Full.lean`), which are `Spec.inAQuery` / `Spec.hasNonInA` / `Spec.dnsTruncated` with the
  `Spec.labelsNoNul` conjunct (resp. the "0x00 inside a label ⇒ .bad" line of `Spec.scanName`) removed.
  `Spec/Dns.lean` itself still carries that restriction; the theorems under the old names
  (`dns_reply_faithful`, `dns_c14`, `dns_c14_silent`, …: hypotheses in the Spec's vocabulary) are
  corollaries of the `…_full` ones, since each Spec predicate implies its unrestricted twin.

  Length octets ≥ 64 (RFC 1035 reserves the two top bits): the Spec's parser rejects them, the responder
  treats them as plain label lengths — such messages are outside every hypothesis of C14 (§1, §7).
-/
import Masscanned.Proofs.C14.Parse
import Masscanned.Proofs.C14.Reparse
import Masscanned.Model.Dispatch
open Masscanned
namespace Masscanned.C14
open Masscanned.DnsFix

/-! ### 1. bridge: the Spec's RFC 1035 name reader and the model's label-wise reader -/

/-- C14.1a If `Spec.readName` reads the name `n` from `p` leaving `r` — labels of 1..63 octets of any
    value, 0x00 included, at most 255 octets in total — then the model's question reader ends the name
    at the same place: its question is `n`, then the two 16-bit fields, and it fails exactly when fewer
    than 4 bytes follow the name. -/
theorem bridge_name {fuel : Nat} {p n r : Bytes} (h : Spec.readName fuel [] p = some (n, r)) :
    dnsReadQ [] p =
      if r.length < 4 then none
      else some ({ name := n, qtype := Spec.be16 r 0, qclass := Spec.be16 r 2 }, r.drop 4) :=
  dnsReadQ_of_readName h

/-- C14.1b the same for a whole question section: same questions, same remaining bytes -/
theorem bridge_questions {k : Nat} {p r : Bytes} {qs : List Spec.DQ}
    (h : Spec.readQuestions k p = some (qs, r)) :
    dnsReadQs k p = some (qs.map toQ, r) :=
  dnsReadQs_of_readQuestions k p qs r h

/-- C14.1c … and for the name of a resource record (answer section of a message) -/
theorem bridge_rr_name {fuel : Nat} {p n r : Bytes} (h : Spec.readName fuel [] p = some (n, r)) :
    dnsSkipRR p =
      if r.length < 10 then none
      else if (r.drop 10).length < Spec.be16 r 8 then none
      else some ((r.drop 10).drop (Spec.be16 r 8)) :=
  dnsSkipRR_of_readName h

/-- C14.1d a length octet ≥ 64: the Spec's reader rejects the name, both truncation scanners say `.bad`
    (so the message is neither an `inAQuery`, nor `hasNonInA`, nor — because of this name —
    "truncated"), while the responder's readers take ANY non-zero octet `l` as a plain length: they copy
    (skip) `l` octets and go on with the next length octet. -/
theorem long_label (l : UInt8) (hl : l.toNat > 63) (t : Bytes) :
    (∀ fuel acc, Spec.readName fuel acc (l :: t) = none) ∧
    (∀ fuel, Spec.scanName (fuel + 1) (l :: t) = .bad ∧ scanNameAny (fuel + 1) (l :: t) = .bad) :=
  ⟨fun fuel acc => readName_long_label fuel acc l t hl, fun fuel => scanName_long_label fuel l t hl⟩

theorem any_label (l : UInt8) (hl : l ≠ 0) (lab : Bytes) (hlab : lab.length = l.toNat) (acc t : Bytes) :
    dnsReadQ acc (l :: (lab ++ t)) = dnsReadQ (acc ++ l :: lab) t ∧ dnsSkipRR (l :: (lab ++ t)) = dnsSkipRR t :=
  ⟨dnsReadQ_any_label l hl lab hlab acc t, dnsSkipRR_any_label l hl lab hlab t⟩

/-! ### 2. faithful answer -/

/-- C14.2 every IN/A query (any ID, any flag word with QR=0, any number of questions, any label layout,
    any octets inside the labels, nothing after the question section) sent to the IPv4 address `a` is
    parsed by the responder and answered, and the answer is the one C14 demands (`Spec.dnsReplyOk`). -/
theorem dns_reply_faithful_full {p a : Bytes} {q : Spec.DMsg} {ci : ClientInfo}
    (hq : inAQueryAny p = some q) (hd : ci.ipDst = some (.v4 a)) (ha : a.length = 4) :
    ∃ m r, dnsParse p = some m ∧ dnsRepl ci m = some r ∧ Spec.dnsReplyOk q r a = true := by
  unfold inAQueryAny at hq
  split at hq
  · cases hq
  · rename_i m' hp
    split at hq
    · rename_i hc
      simp only [Option.some.injEq] at hq
      subst hq
      obtain ⟨hqr, han, hns, har, hrest, hall⟩ := hc
      have hall' : ∀ x ∈ m'.qd, x.qtype = 1 ∧ x.qclass = 1 := by
        intro x hx
        simpa using (List.all_eq_true.mp hall) x hx
      obtain ⟨hl, hid, hfl, hnsc, harc, hqdl, hanl, r0, hqs, hrr⟩ := parseDns_some hp
      have han0 : Spec.be16 p 6 = 0 := by
        rw [← hanl]; simpa using han
      -- the model parses the query
      have hmq := dnsReadQs_of_readQuestions _ _ _ _ hqs
      have hparse : dnsParse p = some { id := m'.id, flags := m'.flags, qd := m'.qd.map toQ,
                                        qdcount := m'.qd.length } := by
        rw [dnsParse_eq p hl, hmq]
        simp only [han0, dnsSkipRRs]
        rw [if_neg (by omega), hid, hfl, hqdl]
      -- and answers it
      obtain ⟨r, hr⟩ : ∃ r, dnsRepl ci { id := m'.id, flags := m'.flags, qd := m'.qd.map toQ,
                                          qdcount := m'.qd.length } = some r := by
        unfold dnsRepl
        rw [if_neg (by simp only; omega), if_pos]
        · exact ⟨_, rfl⟩
        · simp only [List.all_map, List.all_eq_true]
          intro x hx
          have := hall' x hx
          simp [toQ, this.1, this.2, dnsTypeNorm, dnsClassNorm]
      refine ⟨_, r, hparse, hr, ?_⟩
      have hrdata : rdataOf ci = a := by simp [rdataOf, hd]
      have hwf : ∀ x ∈ m'.qd.map toQ, IsName x.name ∧ x.name.length ≤ 255 := by
        intro x hx
        simp only [List.mem_map] at hx
        obtain ⟨y, hy, rfl⟩ := hx
        exact readQuestions_names _ _ _ _ hqs y hy
      have hrp := parseDns_reply hr (by simp only [hid]; exact be16_lt p 0) (by simp)
        (by simp only [hqdl]; exact be16_lt p 4) hwf (by rw [hrdata]; omega)
      have hecho : (m'.qd.map toQ).map echoQ = m'.qd := by
        rw [List.map_map]
        conv => rhs; rw [← List.map_id m'.qd]
        apply List.map_congr_left
        intro x hx
        have := hall' x hx
        cases x
        simp_all [toQ, echoQ]
      unfold Spec.dnsReplyOk
      rw [hrp]
      simp only [hecho, hrdata, replyFlags_qr, replyFlags_opcode, replyFlags_rd, List.map_map, zip_map_all,
        List.length_map]
      simp [ansRR, toQ]
    · cases hq

/-- C14.2 in the Spec's vocabulary (`Spec.inAQuery` still demands `Spec.labelsNoNul`): a corollary -/
theorem dns_reply_faithful {p a : Bytes} {q : Spec.DMsg} {ci : ClientInfo}
    (hq : Spec.inAQuery p = some q) (hd : ci.ipDst = some (.v4 a)) (ha : a.length = 4) :
    ∃ m r, dnsParse p = some m ∧ dnsRepl ci m = some r ∧ Spec.dnsReplyOk q r a = true :=
  dns_reply_faithful_full (inAQuery_any hq) hd ha

/-! ### 3–5. silence -/

/-- C14.3 a query containing a question that is not IN/A is not answered (whatever octets the labels
    of its names contain) -/
theorem dns_non_ina_silent_full {p : Bytes} (ci : ClientInfo) (h : hasNonInAAny p = true) :
    (dnsParse p).bind (dnsRepl ci) = none := by
  unfold hasNonInAAny at h
  split at h
  · rename_i m' hp
    simp only [Bool.and_eq_true, decide_eq_true_eq, List.any_eq_true,
      Bool.not_eq_true', decide_eq_false_iff_not] at h
    obtain ⟨_, x, hx, hxn⟩ := h
    obtain ⟨hl, _, _, _, _, _, _, r0, hqs, _⟩ := parseDns_some hp
    have hmq := dnsReadQs_of_readQuestions _ _ _ _ hqs
    cases hm : dnsParse p with
    | none => rfl
    | some m =>
      obtain ⟨_, _, _, _, _, _, _, rest, hmq', _⟩ := dnsParse_some hm
      rw [hmq] at hmq'
      simp only [Option.some.injEq, Prod.mk.injEq] at hmq'
      simp only [Option.bind_some]
      cases hr : dnsRepl ci m with
      | none => rfl
      | some r =>
        exfalso
        obtain ⟨_, hall, _⟩ := dnsRepl_some hr
        rw [← hmq'.1] at hall
        exact hxn (hall (toQ x) (List.mem_map_of_mem hx))
  · cases h

/-- C14.3 in the Spec's vocabulary -/
theorem dns_non_ina_silent {p : Bytes} (ci : ClientInfo) (h : Spec.hasNonInA p = true) :
    (dnsParse p).bind (dnsRepl ci) = none :=
  dns_non_ina_silent_full ci (hasNonInA_any h)

/-- C14.4 a truncated message (the bytes end before the sections announced in the header are complete;
    the labels seen so far are legal — 1..63 octets of any value) is not even parsed, hence not answered -/
theorem dns_truncated_silent_full {p : Bytes} (h : dnsTruncatedAny p = true) : dnsParse p = none := by
  unfold dnsTruncatedAny at h
  split at h
  · rename_i hl; exact dnsParse_short p hl
  · rename_i hl
    rw [dnsParse_eq p (by omega)]
    obtain ⟨s1, s2⟩ := scanQuestionsAny_spec (Spec.be16 p 4) (p.drop 12)
    split at h
    · rename_i hs; rw [s1 hs]
    · cases h
    · rename_i r hs
      obtain ⟨qs, hqs⟩ := s2 r hs
      rw [hqs]
      simp only
      split at h
      · rename_i hs2; rw [(scanRRsAny_spec _ _).1 hs2]
      · cases h

/-- C14.4 in the Spec's vocabulary -/
theorem dns_truncated_silent {p : Bytes} (h : Spec.dnsTruncated p = true) : dnsParse p = none :=
  dns_truncated_silent_full (dnsTruncated_any h)

/-- C14.5 a response (QR=1) is never answered (used by C12: no reply loops between responders) -/
theorem dns_qr1_silent {p : Bytes} (ci : ClientInfo) (h : Spec.be16 p 2 / 32768 = 1) :
    ∀ m, dnsParse p = some m → dnsRepl ci m = none := by
  intro m hm
  obtain ⟨_, _, hfl, _⟩ := dnsParse_some hm
  unfold dnsRepl
  rw [if_pos (by rw [hfl]; exact h)]

/-! ### 6. every reply parses completely -/

/-- C14.6 whenever the responder answers a message it parsed, and the names it echoes are RFC 1035 names
    (`Spec.readName` reads each of them entirely: the responder's label-wise reader delimits the same
    labels, but also accepts labels longer than 63 octets and names longer than 255, which it echoes as
    they are — `long_label_reply_unparseable` below), the reply parses with the Spec's parser, all counts matching the records present: nothing is left over, there are as
    many questions and as many answers as the query had questions, no authority/additional records. -/
theorem dns_reply_counts {p r : Bytes} {m : DnsMsg} {ci : ClientInfo}
    (hm : dnsParse p = some m) (hr : dnsRepl ci m = some r)
    (hwf : ∀ q ∈ m.qd, Spec.readName (q.name.length + 1) [] q.name = some (q.name, []))
    (ha : ∀ a, ci.ipDst = some (.v4 a) → a.length < 65536) :
    ∃ x, Spec.parseDns r = some x ∧ x.rest = [] ∧ x.nscount = 0 ∧ x.arcount = 0 ∧
      x.id = m.id ∧ x.qd.map (·.name) = m.qd.map (·.name) ∧ x.an.map (·.name) = m.qd.map (·.name) ∧
      x.qd.length = m.qd.length ∧ x.an.length = m.qd.length := by
  obtain ⟨_, hid, _, hqd, hqc, _⟩ := dnsParse_some hm
  have hwf' : ∀ q ∈ m.qd, IsName q.name ∧ q.name.length ≤ 255 := by
    intro q hq
    obtain ⟨n', hN, hnn, _, hlen⟩ := readName_spec _ _ _ _ _ (hwf q hq)
    simp only [List.nil_append] at hnn
    rw [hnn]; rw [hnn] at hlen
    exact ⟨hN, hlen⟩
  have hrd : (rdataOf ci).length < 65536 := by
    unfold rdataOf
    split
    · rename_i a h; exact ha a h
    · simp
  have := parseDns_reply hr (by rw [hid]; exact be16_lt p 0) hqc (by rw [hqd]; exact be16_lt p 4) hwf' hrd
  refine ⟨_, this, rfl, rfl, rfl, rfl, ?_, ?_, by simp, by simp⟩
  · simp [List.map_map, echoQ, Function.comp_def]
  · simp [List.map_map, ansRR, Function.comp_def]

/-- C14.6' without any precondition on the names, every reply parses completely with the responder's
    own parser (section counts match the records present under its label-wise reading of names;
    this is what the Rust unit test `dispatch_dns` checks): same ID, same questions, QR=1 — so by
    `dns_qr1_silent` a reply is never answered in turn. -/
theorem dns_reply_reparses {p r : Bytes} {m : DnsMsg} {ci : ClientInfo}
    (hm : dnsParse p = some m) (hr : dnsRepl ci m = some r)
    (ha : ∀ a, ci.ipDst = some (.v4 a) → a.length < 65536) :
    ∃ m', dnsParse r = some m' ∧ m'.id = m.id ∧ m'.qd = m.qd ∧ m'.qdcount = m.qd.length ∧
      m'.flags / 32768 = 1 ∧ dnsRepl ci m' = none := by
  have hrd : (rdataOf ci).length < 65536 := by
    unfold rdataOf
    split
    · rename_i a h; exact ha a h
    · simp
  obtain ⟨_, _, _, _, hqc, _⟩ := dnsParse_some hm
  refine ⟨_, dnsParse_reply hm hr hrd, rfl, rfl, hqc, replyFlags_qr _, ?_⟩
  unfold dnsRepl
  rw [if_pos (replyFlags_qr _)]

/-- the well-formedness precondition of `dns_reply_counts` holds for every IN/A query -/
theorem inAQuery_names_wf_full {p : Bytes} {q : Spec.DMsg} (hq : inAQueryAny p = some q) :
    ∀ x ∈ q.qd, Spec.readName (x.name.length + 1) [] x.name = some (x.name, []) := by
  unfold inAQueryAny at hq
  split at hq
  · cases hq
  · rename_i m' hp
    split at hq
    · simp only [Option.some.injEq] at hq
      subst hq
      obtain ⟨_, _, _, _, _, _, _, r0, hqs, _⟩ := parseDns_some hp
      intro x hx
      obtain ⟨hN, hlen⟩ := readQuestions_names _ _ _ _ hqs x hx
      have := readName_of_isName hN (x.name.length + 1) [] [] (by omega) (by simpa using hlen)
      simpa using this
    · cases hq

theorem inAQuery_names_wf {p : Bytes} {q : Spec.DMsg} (hq : Spec.inAQuery p = some q) :
    ∀ x ∈ q.qd, Spec.readName (x.name.length + 1) [] x.name = some (x.name, []) :=
  inAQuery_names_wf_full (inAQuery_any hq)

/-! ### 7. 0x00 inside a label (no longer a precondition); labels longer than 63 octets -/

/-- a query whose only label `A\0\0\1\0\1` (6 bytes) contains NUL bytes — the witness that, before the
    repair, made `dns_reply_faithful` false without `labelsNoNul` (the responder saw the 3-byte name
    `\6A\0`, type 1, class 1 and five trailing bytes) -/
def nulQuery : Bytes :=
  [0x12, 0x34, 1, 0, 0, 1, 0, 0, 0, 0, 0, 0,   6, 0x41, 0, 0, 1, 0, 1, 0,   0, 1, 0, 1]

/-- C14.7 the two parsers now split that message the same way — one IN/A question for the 8-byte name
    `\6A\0\0\1\0\1\0` — although `Spec.labelsNoNul` is false of it (it is an `inAQueryAny`) … -/
theorem nul_in_label_parse_agrees :
    (Spec.parseDns nulQuery).map (fun m => m.qd) = some [{ name := [6, 0x41, 0, 0, 1, 0, 1, 0], qtype := 1, qclass := 1 }] ∧
    (dnsParse nulQuery).map (fun m => m.qd) = some [{ name := [6, 0x41, 0, 0, 1, 0, 1, 0], qtype := 1, qclass := 1 }] ∧
    Spec.labelsNoNul 256 [6, 0x41, 0, 0, 1, 0, 1, 0] = false ∧ (inAQueryAny nulQuery).isSome = true := by
  decide +kernel

/-- … and the answer is the faithful one -/
theorem nul_in_label_reply_faithful :
    (inAQueryAny nulQuery).any (fun q =>
      ((dnsParse nulQuery).bind (dnsRepl { ipDst := some (.v4 [192, 0, 2, 7]) })).any (fun r =>
        Spec.dnsReplyOk q r [192, 0, 2, 7])) = true := by decide +kernel

/-- a message whose name has a 64-octet label (`\x40` then 64 × `A`, root), type A, class IN -/
def longLabelQuery : Bytes :=
  [0x12, 0x34, 1, 0, 0, 1, 0, 0, 0, 0, 0, 0] ++ (64 :: List.replicate 64 0x41) ++ [0,   0, 1, 0, 1]

/-- the responder reads the length octet 64 as a plain length, echoes the name and answers; its reply
    does not parse with the Spec's RFC 1035 parser: the precondition of `dns_reply_counts` is needed.
    The query itself is outside C14: not parseable by the Spec, hence neither an IN/A query nor one with
    a non-IN/A question, and not "truncated" (both scanners say `.bad`) — C14 says nothing about it. -/
theorem long_label_reply_unparseable :
    ((dnsParse longLabelQuery).bind (dnsRepl { ipDst := some (.v4 [192, 0, 2, 7]) })).any (fun r =>
      (Spec.parseDns r).isNone) = true ∧
    (Spec.parseDns longLabelQuery).isNone = true ∧ (inAQueryAny longLabelQuery).isNone = true ∧
    hasNonInAAny longLabelQuery = false ∧ dnsTruncatedAny longLabelQuery = false ∧
    Spec.dnsTruncated longLabelQuery = false := by
  decide +kernel

/-- a message carrying a label of announced length 5 with fewer octets present than announced.  Before
    the repair the responder cut the name at the first 0x00 and answered (with an unparseable reply); the
    label-wise reader runs out of input inside the second "label" and the message is not parsed at all.
    The data ends inside a label: `dnsTruncatedAny` holds, so this silence is an instance of
    `dns_truncated_silent_full`. -/
def malformedQuery : Bytes := [0x12, 0x34, 1, 0, 0, 1, 0, 0, 0, 0, 0, 0,   5, 0x41, 0,   0, 1, 0, 1]

theorem malformed_name_silent :
    (dnsParse malformedQuery).isNone = true ∧ (Spec.parseDns malformedQuery).isNone = true ∧
    dnsTruncatedAny malformedQuery = true := by
  decide +kernel

/-! ### dispatcher -/

/-- C14.8 over anything but cookie-less TCP (in particular over UDP), when no signature matched — neither
    on the bytes nor at end of input — and the payload parses as DNS and `dnsRepl` answers, that
    answer is the reply of `proto::repl`, client info unchanged. -/
theorem dns_fallback {cfg : Cfg} {env : Env} {ci : ClientInfo} {p r : Bytes} {m : DnsMsg} {st st' n : Nat}
    (hudp : ¬ (ci.transport = some 6 ∧ ci.cookie = none))
    (h1 : protoTbl.searchNext baseState p = .ok (noMatch, st, n))
    (h2 : protoTbl.searchNextEnd st = .ok (noMatch, st'))
    (hm : dnsParse p = some m) (hr : dnsRepl ci m = some r) :
    protoRepl cfg env ci none p = .ok (ci, none, some r) := by
  unfold protoRepl
  rw [if_neg hudp]
  simp only [h1, h2, if_true, hm, hr]

/-- the literal statement without the transport hypothesis is false: a TCP client info without cookie is
    refused before any protocol is looked at (unreachable for UDP datagrams, whose `transport` is 17) -/
theorem dns_fallback_needs_transport (cfg : Cfg) (env : Env) (p : Bytes) :
    protoRepl cfg env { transport := some 6, cookie := none } none p =
      .ok ({ transport := some 6, cookie := none }, none, none) := by
  simp [protoRepl]

/-- in the same situation, when DNS does not answer, nothing does -/
theorem dns_fallback_silent {cfg : Cfg} {env : Env} {ci : ClientInfo} {p : Bytes} {st st' n : Nat}
    (hudp : ¬ (ci.transport = some 6 ∧ ci.cookie = none))
    (h1 : protoTbl.searchNext baseState p = .ok (noMatch, st, n))
    (h2 : protoTbl.searchNextEnd st = .ok (noMatch, st'))
    (hs : (dnsParse p).bind (dnsRepl ci) = none) :
    protoRepl cfg env ci none p = .ok (ci, none, none) := by
  unfold protoRepl
  rw [if_neg hudp]
  simp only [h1, h2, if_true]
  cases hm : dnsParse p with
  | none =>
    simp [protoHandle, noMatch, PROTO_HTTP, PROTO_STUN, PROTO_SSH, PROTO_GHOST, PROTO_RPC_TCP, PROTO_RPC_UDP,
      PROTO_SMB1, PROTO_SMB2]
  | some m =>
    rw [hm] at hs
    simp only [Option.bind_some] at hs
    simp [hs, protoHandle, noMatch, PROTO_HTTP, PROTO_STUN, PROTO_SSH, PROTO_GHOST, PROTO_RPC_TCP, PROTO_RPC_UDP,
      PROTO_SMB1, PROTO_SMB2]

/-- **C14** end to end at `proto::repl`: an IN/A query — any label layout, any octets inside the labels —
    over UDP to the IPv4 address `a` that completes no signature is answered by the faithful reply. -/
theorem dns_c14_full {cfg : Cfg} {env : Env} {ci : ClientInfo} {p a : Bytes} {q : Spec.DMsg} {st st' n : Nat}
    (hq : inAQueryAny p = some q) (hd : ci.ipDst = some (.v4 a)) (ha : a.length = 4)
    (hudp : ci.transport = some 17)
    (h1 : protoTbl.searchNext baseState p = .ok (noMatch, st, n))
    (h2 : protoTbl.searchNextEnd st = .ok (noMatch, st')) :
    ∃ r, protoRepl cfg env ci none p = .ok (ci, none, some r) ∧ Spec.dnsReplyOk q r a = true := by
  obtain ⟨m, r, hm, hr, hok⟩ := dns_reply_faithful_full hq hd ha
  exact ⟨r, dns_fallback (by simp [hudp]) h1 h2 hm hr, hok⟩

/-- **C14** in the Spec's vocabulary (corollary: `Spec.inAQuery` implies `inAQueryAny`) -/
theorem dns_c14 {cfg : Cfg} {env : Env} {ci : ClientInfo} {p a : Bytes} {q : Spec.DMsg} {st st' n : Nat}
    (hq : Spec.inAQuery p = some q) (hd : ci.ipDst = some (.v4 a)) (ha : a.length = 4)
    (hudp : ci.transport = some 17)
    (h1 : protoTbl.searchNext baseState p = .ok (noMatch, st, n))
    (h2 : protoTbl.searchNextEnd st = .ok (noMatch, st')) :
    ∃ r, protoRepl cfg env ci none p = .ok (ci, none, some r) ∧ Spec.dnsReplyOk q r a = true :=
  dns_c14_full (inAQuery_any hq) hd ha hudp h1 h2

/-- … and a non-IN/A question, a truncated message or a response gets nothing at all -/
theorem dns_c14_silent_full {cfg : Cfg} {env : Env} {ci : ClientInfo} {p : Bytes} {st st' n : Nat}
    (hudp : ci.transport = some 17)
    (h1 : protoTbl.searchNext baseState p = .ok (noMatch, st, n))
    (h2 : protoTbl.searchNextEnd st = .ok (noMatch, st'))
    (hbad : hasNonInAAny p = true ∨ dnsTruncatedAny p = true ∨ Spec.be16 p 2 / 32768 = 1) :
    protoRepl cfg env ci none p = .ok (ci, none, none) := by
  apply dns_fallback_silent (by simp [hudp]) h1 h2
  rcases hbad with h | h | h
  · exact dns_non_ina_silent_full ci h
  · rw [dns_truncated_silent_full h]; rfl
  · cases hm : dnsParse p with
    | none => rfl
    | some m => exact dns_qr1_silent ci h m hm

/-- … in the Spec's vocabulary -/
theorem dns_c14_silent {cfg : Cfg} {env : Env} {ci : ClientInfo} {p : Bytes} {st st' n : Nat}
    (hudp : ci.transport = some 17)
    (h1 : protoTbl.searchNext baseState p = .ok (noMatch, st, n))
    (h2 : protoTbl.searchNextEnd st = .ok (noMatch, st'))
    (hbad : Spec.hasNonInA p = true ∨ Spec.dnsTruncated p = true ∨ Spec.be16 p 2 / 32768 = 1) :
    protoRepl cfg env ci none p = .ok (ci, none, none) :=
  dns_c14_silent_full hudp h1 h2 (hbad.imp hasNonInA_any (Or.imp_left dnsTruncated_any))

/-! ### non-vacuity -/

/-- `www.example.com IN A`, id 0x1234, RD set -/
def q1 : Bytes :=
  [0x12, 0x34, 1, 0, 0, 1, 0, 0, 0, 0, 0, 0,
   3, 119, 119, 119, 7, 101, 120, 97, 109, 112, 108, 101, 3, 99, 111, 109, 0,   0, 1, 0, 1]

/-- three questions (`www.example.com`, `a`, the root), opcode 5, RD set -/
def q3 : Bytes :=
  [0x12, 0x34, 0x29, 0, 0, 3, 0, 0, 0, 0, 0, 0,
   3, 119, 119, 119, 7, 101, 120, 97, 109, 112, 108, 101, 3, 99, 111, 109, 0,   0, 1, 0, 1,
   1, 97, 0,   0, 1, 0, 1,
   0,   0, 1, 0, 1]

/-- no question at all -/
def q0 : Bytes := [0x12, 0x34, 0, 0, 0, 0, 0, 0, 0, 0, 0, 0]

def ci4 : ClientInfo := { ipDst := some (.v4 [192, 0, 2, 7]), transport := some 17, portDst := some 53 }

example : q1 = "\x12\x34\x01\x00\x00\x01\x00\x00\x00\x00\x00\x00\x03www\x07example\x03com\x00\x00\x01\x00\x01".toUTF8.toList := by
  decide +kernel

example : (Spec.inAQuery q1).isSome = true ∧ (Spec.inAQuery q3).isSome = true ∧
    (Spec.inAQuery q0).isSome = true := by decide +kernel

/-- the conclusion of `dns_reply_faithful` on the three queries, computed -/
example : ∀ p ∈ [q1, q3, q0], (Spec.inAQuery p).any (fun q =>
    ((dnsParse p).bind (dnsRepl ci4)).any (fun r => Spec.dnsReplyOk q r [192, 0, 2, 7])) = true := by
  decide +kernel

/-- the reply to `q1` -/
example : (dnsParse q1).bind (dnsRepl ci4) = some
    [0x12, 0x34, 0x85, 0, 0, 1, 0, 1, 0, 0, 0, 0,
     3, 119, 119, 119, 7, 101, 120, 97, 109, 112, 108, 101, 3, 99, 111, 109, 0,   0, 1, 0, 1,
     3, 119, 119, 119, 7, 101, 120, 97, 109, 112, 108, 101, 3, 99, 111, 109, 0,   0, 1, 0, 1,
     0, 0, 168, 192,   0, 4,   192, 0, 2, 7] := by decide +kernel

private def okIs {α : Type} [DecidableEq α] (o : Except Site α) (e : α) : Bool :=
  match o with
  | .ok x => decide (x = e)
  | _ => false

private theorem okIs_eq {α : Type} [DecidableEq α] {o : Except Site α} {e : α} (h : okIs o e = true) :
    o = .ok e := by
  unfold okIs at h
  split at h
  · simp only [decide_eq_true_eq] at h; subst h; rfl
  · simp at h

/-- hypotheses of `dns_c14` (no signature matched, neither on the bytes nor at end of input) hold for
    `q1` and `q3`, and the theorem applies -/
example (cfg : Cfg) (env : Env) : ∀ p ∈ [q1, q3], ∃ q r, Spec.inAQuery p = some q ∧
    protoRepl cfg env ci4 none p = .ok (ci4, none, some r) ∧ Spec.dnsReplyOk q r [192, 0, 2, 7] = true := by
  intro p hp
  simp only [List.mem_cons, List.not_mem_nil, or_false] at hp
  rcases hp with rfl | rfl
  · obtain ⟨q, hq⟩ := Option.isSome_iff_exists.mp (show (Spec.inAQuery q1).isSome = true by decide +kernel)
    obtain ⟨r, h⟩ := dns_c14 (cfg := cfg) (env := env) (ci := ci4) hq rfl rfl rfl
      (okIs_eq (e := (noMatch, 1, 33)) (by decide +kernel)) (okIs_eq (e := (noMatch, 1)) (by decide +kernel))
    exact ⟨q, r, hq, h⟩
  · obtain ⟨q, hq⟩ := Option.isSome_iff_exists.mp (show (Spec.inAQuery q3).isSome = true by decide +kernel)
    obtain ⟨r, h⟩ := dns_c14 (cfg := cfg) (env := env) (ci := ci4) hq rfl rfl rfl
      (okIs_eq (e := (noMatch, 1, 45)) (by decide +kernel)) (okIs_eq (e := (noMatch, 1)) (by decide +kernel))
    exact ⟨q, r, hq, h⟩

/-- the query `a\0b IN A` (one 3-octet label `61 00 62`), id 0x1234, RD set:
    `12 34 01 00 00 01 00 00 00 00 00 00 | 03 61 00 62 00 | 00 01 00 01` -/
def qNul : Bytes := [0x12, 0x34, 1, 0, 0, 1, 0, 0, 0, 0, 0, 0,   3, 0x61, 0, 0x62, 0,   0, 1, 0, 1]

def ci10 : ClientInfo := { ipDst := some (.v4 [10, 0, 0, 1]), transport := some 17, portDst := some 53 }

/-- `12 34 85 00 00 01 00 01 00 00 00 00 | 03 61 00 62 00 00 01 00 01 | 03 61 00 62 00 00 01 00 01 00 00 a8 c0 00 04 0a 00 00 01` -/
def qNulReply : Bytes :=
  [0x12, 0x34, 0x85, 0x00, 0x00, 0x01, 0x00, 0x01, 0x00, 0x00, 0x00, 0x00,
   0x03, 0x61, 0x00, 0x62, 0x00,   0x00, 0x01, 0x00, 0x01,
   0x03, 0x61, 0x00, 0x62, 0x00,   0x00, 0x01, 0x00, 0x01,   0x00, 0x00, 0xa8, 0xc0,   0x00, 0x04,
   0x0a, 0x00, 0x00, 0x01]

/-- sent to 10.0.0.1, `qNul` is answered with `qNulReply` -/
theorem qNul_reply : (dnsParse qNul).bind (dnsRepl ci10) = some qNulReply := by decide +kernel

/-- it is an IN/A query (the Spec reads the name `03 61 00 62 00`), with a 0x00 inside its label, and that
    answer is the faithful one, computed -/
example : (inAQueryAny qNul).map (fun m => m.qd) = some [{ name := [3, 0x61, 0, 0x62, 0], qtype := 1, qclass := 1 }] ∧
    Spec.labelsNoNul 256 [3, 0x61, 0, 0x62, 0] = false ∧
    (inAQueryAny qNul).any (fun q => Spec.dnsReplyOk q qNulReply [10, 0, 0, 1]) = true := by
  decide +kernel

/-- the general theorem `dns_c14_full` instantiated on it: all its hypotheses hold (no signature matched,
    neither on the 21 bytes nor at end of input), so `proto::repl` answers with the faithful reply — which
    is `qNulReply` -/
example (cfg : Cfg) (env : Env) : ∃ q, inAQueryAny qNul = some q ∧
    protoRepl cfg env ci10 none qNul = .ok (ci10, none, some qNulReply) ∧
    Spec.dnsReplyOk q qNulReply [10, 0, 0, 1] = true := by
  obtain ⟨q, hq⟩ := Option.isSome_iff_exists.mp (show (inAQueryAny qNul).isSome = true by decide +kernel)
  obtain ⟨r, h, hok⟩ := dns_c14_full (cfg := cfg) (env := env) (ci := ci10) hq rfl rfl rfl
    (okIs_eq (e := (noMatch, 1, 21)) (by decide +kernel)) (okIs_eq (e := (noMatch, 1)) (by decide +kernel))
  -- the reply the theorem speaks of is the computed one
  obtain ⟨m, r', hm, hr', _⟩ := dns_reply_faithful_full (ci := ci10) hq rfl rfl
  have h' := dns_fallback (cfg := cfg) (env := env) (ci := ci10) (by simp [ci10])
    (okIs_eq (e := (noMatch, 1, 21)) (by decide +kernel)) (okIs_eq (e := (noMatch, 1)) (by decide +kernel)) hm hr'
  have hval := qNul_reply
  rw [hm, Option.bind_some, hr'] at hval
  have e1 : r' = qNulReply := Option.some.inj hval
  have e2 : r = r' := Option.some.inj (Prod.mk.inj (Prod.mk.inj (Except.ok.inj (h.symm.trans h'))).2).2
  rw [e2, e1] at h hok
  exact ⟨q, hq, h, hok⟩

/-- hypotheses of the `…_full` silence theorems: `qNul` asking for TXT; `qNul` cut inside its label (after
    `03 61 00`) -/
example :
    hasNonInAAny (qNul.take 17 ++ [0, 16, 0, 1]) = true ∧ dnsTruncatedAny (qNul.take 15) = true := by decide +kernel

/-- `www.example.com IN TXT` has a non-IN/A question; `q1` cut after 20 bytes is truncated; `q1` with
    QR set is a response: hypotheses of C14.3–5 -/
example :
    Spec.hasNonInA (q1.take 29 ++ [0, 16, 0, 1]) = true ∧ Spec.dnsTruncated (q1.take 20) = true ∧
    Spec.dnsTruncated (q1.take 31) = true ∧
    Spec.be16 (q1.set 2 0x81) 2 / 32768 = 1 ∧ (dnsParse (q1.set 2 0x81)).isSome = true := by decide +kernel

/-- hypotheses of `dns_reply_counts` for `q3` -/
example : (dnsParse q3).any (fun m => (dnsRepl ci4 m).isSome &&
    m.qd.all (fun q => decide (Spec.readName (q.name.length + 1) [] q.name = some (q.name, [])))) = true := by
  decide +kernel

end Masscanned.C14

#print axioms Masscanned.C14.bridge_name
#print axioms Masscanned.C14.bridge_questions
#print axioms Masscanned.C14.bridge_rr_name
#print axioms Masscanned.C14.long_label
#print axioms Masscanned.C14.any_label
#print axioms Masscanned.C14.dns_reply_faithful_full
#print axioms Masscanned.C14.dns_non_ina_silent_full
#print axioms Masscanned.C14.dns_truncated_silent_full
#print axioms Masscanned.C14.inAQuery_names_wf_full
#print axioms Masscanned.C14.dns_c14_full
#print axioms Masscanned.C14.dns_c14_silent_full
#print axioms Masscanned.C14.dns_reply_faithful
#print axioms Masscanned.C14.dns_non_ina_silent
#print axioms Masscanned.C14.dns_truncated_silent
#print axioms Masscanned.C14.dns_qr1_silent
#print axioms Masscanned.C14.dns_reply_counts
#print axioms Masscanned.C14.dns_reply_reparses
#print axioms Masscanned.C14.inAQuery_names_wf
#print axioms Masscanned.C14.nul_in_label_parse_agrees
#print axioms Masscanned.C14.nul_in_label_reply_faithful
#print axioms Masscanned.C14.long_label_reply_unparseable
#print axioms Masscanned.C14.malformed_name_silent
#print axioms Masscanned.C14.qNul_reply
#print axioms Masscanned.C14.dns_fallback
#print axioms Masscanned.C14.dns_fallback_needs_transport
#print axioms Masscanned.C14.dns_fallback_silent
#print axioms Masscanned.C14.dns_c14
#print axioms Masscanned.C14.dns_c14_silent
