/-
  C14 — DNS: an IN/A query over UDP/IPv4 that completes no other protocol's signature is answered
  faithfully (same ID, opcode, RD; QR=1; question section echoed; one IN/A answer per question owned
  by the queried name with RDATA = the IPv4 address the query was sent to; all counts match, so the
  response parses completely); a message with a non-IN/A question, a truncated message, or a
  response (QR=1) is not answered.

  Precondition (DESIGN.md): label bytes contain no 0x00 — the responder ends a name at the FIRST zero
  byte (`Spec.labelsNoNul`, built into `Spec.inAQuery` / `Spec.hasNonInA` / `Spec.dnsTruncated`);
  `nul_in_label_*` below show the statement is false without it.
-/
import Masscanned.Proofs.C14.Parse
import Masscanned.Proofs.C14.Reparse
import Masscanned.Model.Dispatch
open Masscanned
namespace Masscanned.C14

/-! ### 1. bridge: the Spec's RFC 1035 name reader and the model's first-zero-byte reader -/

/-- C14.1a If `Spec.readName` reads the name `n` from `p` leaving `r`, and no label byte of `n` is 0x00,
    then the model's question reader ends the name at the same place: its question is `n`, then the
    two 16-bit fields, and it fails exactly when fewer than 4 bytes follow the name. -/
theorem bridge_name {fuel : Nat} {p n r : Bytes} (h : Spec.readName fuel [] p = some (n, r))
    (hn : Spec.labelsNoNul 256 n = true) :
    dnsReadQ [] p =
      if r.length < 4 then none
      else some ({ name := n, qtype := Spec.be16 r 0, qclass := Spec.be16 r 2 }, r.drop 4) :=
  dnsReadQ_of_readName h hn

/-- C14.1b the same for a whole question section: same questions, same remaining bytes -/
theorem bridge_questions {k : Nat} {p r : Bytes} {qs : List Spec.DQ}
    (h : Spec.readQuestions k p = some (qs, r)) (hn : ∀ q ∈ qs, Spec.labelsNoNul 256 q.name = true) :
    dnsReadQs k p = some (qs.map toQ, r) :=
  dnsReadQs_of_readQuestions k p qs r h hn

/-! ### 2. faithful answer -/

/-- C14.2 every IN/A query (any ID, any flag word with QR=0, any number of questions, any label layout
    with NUL-free labels, nothing after the question section) sent to the IPv4 address `a` is parsed by
    the responder and answered, and the answer is the one C14 demands (`Spec.dnsReplyOk`). -/
theorem dns_reply_faithful {p a : Bytes} {q : Spec.DMsg} {ci : ClientInfo}
    (hq : Spec.inAQuery p = some q) (hd : ci.ipDst = some (.v4 a)) (ha : a.length = 4) :
    ∃ m r, dnsParse p = some m ∧ dnsRepl ci m = some r ∧ Spec.dnsReplyOk q r a = true := by
  unfold Spec.inAQuery at hq
  split at hq
  · cases hq
  · rename_i m' hp
    split at hq
    · rename_i hc
      simp only [Option.some.injEq] at hq
      subst hq
      obtain ⟨hqr, han, hns, har, hrest, hall⟩ := hc
      have hall' : ∀ x ∈ m'.qd, x.qtype = 1 ∧ x.qclass = 1 ∧ Spec.labelsNoNul 256 x.name = true := by
        intro x hx
        simpa using (List.all_eq_true.mp hall) x hx
      obtain ⟨hl, hid, hfl, hnsc, harc, hqdl, hanl, r0, hqs, hrr⟩ := parseDns_some hp
      have han0 : Spec.be16 p 6 = 0 := by
        rw [← hanl]; simpa using han
      -- the model parses the query
      have hmq := dnsReadQs_of_readQuestions _ _ _ _ hqs (fun x hx => (hall' x hx).2.2)
      have hparse : dnsParse p = some { id := m'.id, flags := m'.flags, qd := m'.qd.map toQ,
                                        qdcount := m'.qd.length } := by
        rw [dnsParse_eq p hl, hmq]
        simp only [han0, dnsSkipRRs]
        rw [if_neg (by omega), hid, hfl, hqdl]
      -- and answers it
      obtain ⟨r, hr⟩ : ∃ r, dnsRepl ci { id := m'.id, flags := m'.flags, qd := m'.qd.map toQ,
                                          qdcount := m'.qd.length } = some r := by
        unfold dnsRepl
        rw [if_neg (by simp only; omega), if_pos]
        · exact ⟨_, rfl⟩
        · simp only [List.all_map, List.all_eq_true]
          intro x hx
          have := hall' x hx
          simp [toQ, this.1, this.2.1, dnsTypeNorm, dnsClassNorm]
      refine ⟨_, r, hparse, hr, ?_⟩
      have hrdata : rdataOf ci = a := by simp [rdataOf, hd]
      have hwf : ∀ x ∈ m'.qd.map toQ, IsName x.name ∧ x.name.length ≤ 255 := by
        intro x hx
        simp only [List.mem_map] at hx
        obtain ⟨y, hy, rfl⟩ := hx
        exact readQuestions_names _ _ _ _ hqs y hy
      have hrp := parseDns_reply hr (by simp only [hid]; exact be16_lt p 0) (by simp)
        (by simp only [hqdl]; exact be16_lt p 4) hwf (by rw [hrdata]; omega)
      have hecho : (m'.qd.map toQ).map echoQ = m'.qd := by
        rw [List.map_map]
        conv => rhs; rw [← List.map_id m'.qd]
        apply List.map_congr_left
        intro x hx
        have := hall' x hx
        cases x
        simp_all [toQ, echoQ]
      unfold Spec.dnsReplyOk
      rw [hrp]
      simp only [hecho, hrdata, replyFlags_qr, replyFlags_opcode, replyFlags_rd, List.map_map, zip_map_all,
        List.length_map]
      simp [ansRR, toQ]
    · cases hq

/-! ### 3–5. silence -/

/-- C14.3 a query containing a question that is not IN/A is not answered -/
theorem dns_non_ina_silent {p : Bytes} (ci : ClientInfo) (h : Spec.hasNonInA p = true) :
    (dnsParse p).bind (dnsRepl ci) = none := by
  unfold Spec.hasNonInA at h
  split at h
  · rename_i m' hp
    simp only [Bool.and_eq_true, decide_eq_true_eq, List.any_eq_true, List.all_eq_true,
      Bool.not_eq_true', decide_eq_false_iff_not] at h
    obtain ⟨⟨_, x, hx, hxn⟩, hnul⟩ := h
    obtain ⟨hl, _, _, _, _, _, _, r0, hqs, _⟩ := parseDns_some hp
    have hmq := dnsReadQs_of_readQuestions _ _ _ _ hqs hnul
    cases hm : dnsParse p with
    | none => rfl
    | some m =>
      obtain ⟨_, _, _, _, _, _, _, rest, hmq', _⟩ := dnsParse_some hm
      rw [hmq] at hmq'
      simp only [Option.some.injEq, Prod.mk.injEq] at hmq'
      simp only [Option.bind_some]
      cases hr : dnsRepl ci m with
      | none => rfl
      | some r =>
        exfalso
        obtain ⟨_, hall, _⟩ := dnsRepl_some hr
        rw [← hmq'.1] at hall
        exact hxn (hall (toQ x) (List.mem_map_of_mem hx))
  · cases h

/-- C14.4 a truncated message (the bytes end before the sections announced in the header are complete)
    is not even parsed, hence not answered -/
theorem dns_truncated_silent {p : Bytes} (h : Spec.dnsTruncated p = true) : dnsParse p = none := by
  unfold Spec.dnsTruncated at h
  split at h
  · rename_i hl; exact dnsParse_short p hl
  · rename_i hl
    rw [dnsParse_eq p (by omega)]
    obtain ⟨s1, s2⟩ := scanQuestions_spec (Spec.be16 p 4) (p.drop 12)
    split at h
    · rename_i hs; rw [s1 hs]
    · cases h
    · rename_i r hs
      obtain ⟨qs, hqs⟩ := s2 r hs
      rw [hqs]
      simp only
      split at h
      · rename_i hs2; rw [(scanRRs_spec _ _).1 hs2]
      · cases h

/-- C14.5 a response (QR=1) is never answered (used by C12: no reply loops between responders) -/
theorem dns_qr1_silent {p : Bytes} (ci : ClientInfo) (h : Spec.be16 p 2 / 32768 = 1) :
    ∀ m, dnsParse p = some m → dnsRepl ci m = none := by
  intro m hm
  obtain ⟨_, _, hfl, _⟩ := dnsParse_some hm
  unfold dnsRepl
  rw [if_pos (by rw [hfl]; exact h)]

/-! ### 6. every reply parses completely -/

/-- C14.6 whenever the responder answers a message it parsed, and the names it echoes are RFC 1035 names
    (`Spec.readName` reads each of them entirely — this is the same precondition as above: a name the
    responder cut at its first zero byte is a name iff no label contained that zero), the reply parses
    with the Spec's parser, all counts matching the records present: nothing is left over, there are as
    many questions and as many answers as the query had questions, no authority/additional records. -/
theorem dns_reply_counts {p r : Bytes} {m : DnsMsg} {ci : ClientInfo}
    (hm : dnsParse p = some m) (hr : dnsRepl ci m = some r)
    (hwf : ∀ q ∈ m.qd, Spec.readName (q.name.length + 1) [] q.name = some (q.name, []))
    (ha : ∀ a, ci.ipDst = some (.v4 a) → a.length < 65536) :
    ∃ x, Spec.parseDns r = some x ∧ x.rest = [] ∧ x.nscount = 0 ∧ x.arcount = 0 ∧
      x.id = m.id ∧ x.qd.map (·.name) = m.qd.map (·.name) ∧ x.an.map (·.name) = m.qd.map (·.name) ∧
      x.qd.length = m.qd.length ∧ x.an.length = m.qd.length := by
  obtain ⟨_, hid, _, hqd, hqc, _⟩ := dnsParse_some hm
  have hwf' : ∀ q ∈ m.qd, IsName q.name ∧ q.name.length ≤ 255 := by
    intro q hq
    obtain ⟨n', hN, hnn, _, hlen⟩ := readName_spec _ _ _ _ _ (hwf q hq)
    simp only [List.nil_append] at hnn
    rw [hnn]; rw [hnn] at hlen
    exact ⟨hN, hlen⟩
  have hrd : (rdataOf ci).length < 65536 := by
    unfold rdataOf
    split
    · rename_i a h; exact ha a h
    · simp
  have := parseDns_reply hr (by rw [hid]; exact be16_lt p 0) hqc (by rw [hqd]; exact be16_lt p 4) hwf' hrd
  refine ⟨_, this, rfl, rfl, rfl, rfl, ?_, ?_, by simp, by simp⟩
  · simp [List.map_map, echoQ, Function.comp_def]
  · simp [List.map_map, ansRR, Function.comp_def]

/-- C14.6' without any precondition on the names, every reply parses completely with the responder's
    own parser (section counts match the records present under the first-zero-byte reading of names;
    this is what the Rust unit test `dispatch_dns` checks): same ID, same questions, QR=1 — so by
    `dns_qr1_silent` a reply is never answered in turn. -/
theorem dns_reply_reparses {p r : Bytes} {m : DnsMsg} {ci : ClientInfo}
    (hm : dnsParse p = some m) (hr : dnsRepl ci m = some r)
    (ha : ∀ a, ci.ipDst = some (.v4 a) → a.length < 65536) :
    ∃ m', dnsParse r = some m' ∧ m'.id = m.id ∧ m'.qd = m.qd ∧ m'.qdcount = m.qd.length ∧
      m'.flags / 32768 = 1 ∧ dnsRepl ci m' = none := by
  have hrd : (rdataOf ci).length < 65536 := by
    unfold rdataOf
    split
    · rename_i a h; exact ha a h
    · simp
  obtain ⟨_, _, _, _, hqc, _⟩ := dnsParse_some hm
  refine ⟨_, dnsParse_reply hm hr hrd, rfl, rfl, hqc, replyFlags_qr _, ?_⟩
  unfold dnsRepl
  rw [if_pos (replyFlags_qr _)]

/-- the well-formedness precondition of `dns_reply_counts` holds for every `Spec.inAQuery` -/
theorem inAQuery_names_wf {p : Bytes} {q : Spec.DMsg} (hq : Spec.inAQuery p = some q) :
    ∀ x ∈ q.qd, Spec.readName (x.name.length + 1) [] x.name = some (x.name, []) := by
  unfold Spec.inAQuery at hq
  split at hq
  · cases hq
  · rename_i m' hp
    split at hq
    · simp only [Option.some.injEq] at hq
      subst hq
      obtain ⟨_, _, _, _, _, _, _, r0, hqs, _⟩ := parseDns_some hp
      intro x hx
      obtain ⟨hN, hlen⟩ := readQuestions_names _ _ _ _ hqs x hx
      have := readName_of_isName hN (x.name.length + 1) [] [] (by omega) (by simpa using hlen)
      simpa using this
    · cases hq

/-! ### 7. why the precondition is needed -/

/-- a query whose only label `A\0\0\1\0\1` (6 bytes) contains NUL bytes -/
def nulQuery : Bytes :=
  [0x12, 0x34, 1, 0, 0, 1, 0, 0, 0, 0, 0, 0,   6, 0x41, 0, 0, 1, 0, 1, 0,   0, 1, 0, 1]

/-- C14.7 with a NUL inside a label the two parsers split the message differently: the RFC 1035 reading
    is one IN/A question for the 8-byte name `\6A\0\0\1\0\1\0`, the responder sees the 3-byte name
    `\6A\0` followed by type 1, class 1 and five trailing bytes … -/
theorem nul_in_label_parse_differs :
    (Spec.parseDns nulQuery).map (fun m => m.qd) = some [{ name := [6, 0x41, 0, 0, 1, 0, 1, 0], qtype := 1, qclass := 1 }] ∧
    (dnsParse nulQuery).map (fun m => m.qd) = some [{ name := [6, 0x41, 0], qtype := 1, qclass := 1 }] ∧
    Spec.labelsNoNul 256 [6, 0x41, 0, 0, 1, 0, 1, 0] = false := by decide +kernel

/-- … and it answers — `nulQuery` is a QR=0 message made of one IN/A question and nothing else — with a
    message that is not the faithful reply (so `dns_reply_faithful` is false without `labelsNoNul`) -/
theorem nul_in_label_reply_unfaithful :
    (Spec.parseDns nulQuery).any (fun q =>
      decide (q.flags / 32768 = 0) && q.an.isEmpty && q.rest.isEmpty && decide (q.nscount = 0) &&
      decide (q.arcount = 0) && q.qd.all (fun x => x.qtype = 1 ∧ x.qclass = 1) &&
      ((dnsParse nulQuery).bind (dnsRepl { ipDst := some (.v4 [192, 0, 2, 7]) })).any (fun r =>
        !Spec.dnsReplyOk q r [192, 0, 2, 7])) = true := by decide +kernel

/-- a message carrying a name that is not an RFC 1035 name (label length 5, one byte present) -/
def malformedQuery : Bytes := [0x12, 0x34, 1, 0, 0, 1, 0, 0, 0, 0, 0, 0,   5, 0x41, 0,   0, 1, 0, 1]

/-- the responder echoes that name all the same, and its reply does not parse: the precondition of
    `dns_reply_counts` is needed.  (The query itself is neither parseable by the Spec nor "truncated":
    C14 says nothing about it.) -/
theorem malformed_name_reply_unparseable :
    ((dnsParse malformedQuery).bind (dnsRepl { ipDst := some (.v4 [192, 0, 2, 7]) })).any (fun r =>
      (Spec.parseDns r).isNone) = true ∧
    (Spec.parseDns malformedQuery).isNone = true ∧ Spec.dnsTruncated malformedQuery = false := by
  decide +kernel

/-! ### dispatcher -/

/-- C14.8 over anything but cookie-less TCP (in particular over UDP), when no signature matched — neither
    on the bytes nor at end of input — and the payload parses as DNS and `dnsRepl` answers, that
    answer is the reply of `proto::repl`, client info unchanged. -/
theorem dns_fallback {cfg : Cfg} {env : Env} {ci : ClientInfo} {p r : Bytes} {m : DnsMsg} {st st' n : Nat}
    (hudp : ¬ (ci.transport = some 6 ∧ ci.cookie = none))
    (h1 : protoTbl.searchNext baseState p = .ok (noMatch, st, n))
    (h2 : protoTbl.searchNextEnd st = .ok (noMatch, st'))
    (hm : dnsParse p = some m) (hr : dnsRepl ci m = some r) :
    protoRepl cfg env ci none p = .ok (ci, none, some r) := by
  unfold protoRepl
  rw [if_neg hudp]
  simp only [h1, h2, if_true, hm, hr]

/-- the literal statement without the transport hypothesis is false: a TCP client info without cookie is
    refused before any protocol is looked at (unreachable for UDP datagrams, whose `transport` is 17) -/
theorem dns_fallback_needs_transport (cfg : Cfg) (env : Env) (p : Bytes) :
    protoRepl cfg env { transport := some 6, cookie := none } none p =
      .ok ({ transport := some 6, cookie := none }, none, none) := by
  simp [protoRepl]

/-- in the same situation, when DNS does not answer, nothing does -/
theorem dns_fallback_silent {cfg : Cfg} {env : Env} {ci : ClientInfo} {p : Bytes} {st st' n : Nat}
    (hudp : ¬ (ci.transport = some 6 ∧ ci.cookie = none))
    (h1 : protoTbl.searchNext baseState p = .ok (noMatch, st, n))
    (h2 : protoTbl.searchNextEnd st = .ok (noMatch, st'))
    (hs : (dnsParse p).bind (dnsRepl ci) = none) :
    protoRepl cfg env ci none p = .ok (ci, none, none) := by
  unfold protoRepl
  rw [if_neg hudp]
  simp only [h1, h2, if_true]
  cases hm : dnsParse p with
  | none =>
    simp [protoHandle, noMatch, PROTO_HTTP, PROTO_STUN, PROTO_SSH, PROTO_GHOST, PROTO_RPC_TCP, PROTO_RPC_UDP,
      PROTO_SMB1, PROTO_SMB2]
  | some m =>
    rw [hm] at hs
    simp only [Option.bind_some] at hs
    simp [hs, protoHandle, noMatch, PROTO_HTTP, PROTO_STUN, PROTO_SSH, PROTO_GHOST, PROTO_RPC_TCP, PROTO_RPC_UDP,
      PROTO_SMB1, PROTO_SMB2]

/-- **C14** end to end at `proto::repl`: an IN/A query over UDP to the IPv4 address `a` that completes no
    signature is answered by the faithful reply. -/
theorem dns_c14 {cfg : Cfg} {env : Env} {ci : ClientInfo} {p a : Bytes} {q : Spec.DMsg} {st st' n : Nat}
    (hq : Spec.inAQuery p = some q) (hd : ci.ipDst = some (.v4 a)) (ha : a.length = 4)
    (hudp : ci.transport = some 17)
    (h1 : protoTbl.searchNext baseState p = .ok (noMatch, st, n))
    (h2 : protoTbl.searchNextEnd st = .ok (noMatch, st')) :
    ∃ r, protoRepl cfg env ci none p = .ok (ci, none, some r) ∧ Spec.dnsReplyOk q r a = true := by
  obtain ⟨m, r, hm, hr, hok⟩ := dns_reply_faithful hq hd ha
  exact ⟨r, dns_fallback (by simp [hudp]) h1 h2 hm hr, hok⟩

/-- … and a non-IN/A question, a truncated message or a response gets nothing at all -/
theorem dns_c14_silent {cfg : Cfg} {env : Env} {ci : ClientInfo} {p : Bytes} {st st' n : Nat}
    (hudp : ci.transport = some 17)
    (h1 : protoTbl.searchNext baseState p = .ok (noMatch, st, n))
    (h2 : protoTbl.searchNextEnd st = .ok (noMatch, st'))
    (hbad : Spec.hasNonInA p = true ∨ Spec.dnsTruncated p = true ∨ Spec.be16 p 2 / 32768 = 1) :
    protoRepl cfg env ci none p = .ok (ci, none, none) := by
  apply dns_fallback_silent (by simp [hudp]) h1 h2
  rcases hbad with h | h | h
  · exact dns_non_ina_silent ci h
  · rw [dns_truncated_silent h]; rfl
  · cases hm : dnsParse p with
    | none => rfl
    | some m => exact dns_qr1_silent ci h m hm

/-! ### non-vacuity -/

/-- `www.example.com IN A`, id 0x1234, RD set -/
def q1 : Bytes :=
  [0x12, 0x34, 1, 0, 0, 1, 0, 0, 0, 0, 0, 0,
   3, 119, 119, 119, 7, 101, 120, 97, 109, 112, 108, 101, 3, 99, 111, 109, 0,   0, 1, 0, 1]

/-- three questions (`www.example.com`, `a`, the root), opcode 5, RD set -/
def q3 : Bytes :=
  [0x12, 0x34, 0x29, 0, 0, 3, 0, 0, 0, 0, 0, 0,
   3, 119, 119, 119, 7, 101, 120, 97, 109, 112, 108, 101, 3, 99, 111, 109, 0,   0, 1, 0, 1,
   1, 97, 0,   0, 1, 0, 1,
   0,   0, 1, 0, 1]

/-- no question at all -/
def q0 : Bytes := [0x12, 0x34, 0, 0, 0, 0, 0, 0, 0, 0, 0, 0]

def ci4 : ClientInfo := { ipDst := some (.v4 [192, 0, 2, 7]), transport := some 17, portDst := some 53 }

example : q1 = "\x12\x34\x01\x00\x00\x01\x00\x00\x00\x00\x00\x00\x03www\x07example\x03com\x00\x00\x01\x00\x01".toUTF8.toList := by
  decide +kernel

example : (Spec.inAQuery q1).isSome = true ∧ (Spec.inAQuery q3).isSome = true ∧
    (Spec.inAQuery q0).isSome = true := by decide +kernel

/-- the conclusion of `dns_reply_faithful` on the three queries, computed -/
example : ∀ p ∈ [q1, q3, q0], (Spec.inAQuery p).any (fun q =>
    ((dnsParse p).bind (dnsRepl ci4)).any (fun r => Spec.dnsReplyOk q r [192, 0, 2, 7])) = true := by
  decide +kernel

/-- the reply to `q1` -/
example : (dnsParse q1).bind (dnsRepl ci4) = some
    [0x12, 0x34, 0x85, 0, 0, 1, 0, 1, 0, 0, 0, 0,
     3, 119, 119, 119, 7, 101, 120, 97, 109, 112, 108, 101, 3, 99, 111, 109, 0,   0, 1, 0, 1,
     3, 119, 119, 119, 7, 101, 120, 97, 109, 112, 108, 101, 3, 99, 111, 109, 0,   0, 1, 0, 1,
     0, 0, 168, 192,   0, 4,   192, 0, 2, 7] := by decide +kernel

private def okIs {α : Type} [DecidableEq α] (o : Except Site α) (e : α) : Bool :=
  match o with
  | .ok x => decide (x = e)
  | _ => false

private theorem okIs_eq {α : Type} [DecidableEq α] {o : Except Site α} {e : α} (h : okIs o e = true) :
    o = .ok e := by
  unfold okIs at h
  split at h
  · simp only [decide_eq_true_eq] at h; subst h; rfl
  · simp at h

/-- hypotheses of `dns_c14` (no signature matched, neither on the bytes nor at end of input) hold for
    `q1` and `q3`, and the theorem applies -/
example (cfg : Cfg) (env : Env) : ∀ p ∈ [q1, q3], ∃ q r, Spec.inAQuery p = some q ∧
    protoRepl cfg env ci4 none p = .ok (ci4, none, some r) ∧ Spec.dnsReplyOk q r [192, 0, 2, 7] = true := by
  intro p hp
  simp only [List.mem_cons, List.not_mem_nil, or_false] at hp
  rcases hp with rfl | rfl
  · obtain ⟨q, hq⟩ := Option.isSome_iff_exists.mp (show (Spec.inAQuery q1).isSome = true by decide +kernel)
    obtain ⟨r, h⟩ := dns_c14 (cfg := cfg) (env := env) (ci := ci4) hq rfl rfl rfl
      (okIs_eq (e := (noMatch, 1, 33)) (by decide +kernel)) (okIs_eq (e := (noMatch, 1)) (by decide +kernel))
    exact ⟨q, r, hq, h⟩
  · obtain ⟨q, hq⟩ := Option.isSome_iff_exists.mp (show (Spec.inAQuery q3).isSome = true by decide +kernel)
    obtain ⟨r, h⟩ := dns_c14 (cfg := cfg) (env := env) (ci := ci4) hq rfl rfl rfl
      (okIs_eq (e := (noMatch, 1, 45)) (by decide +kernel)) (okIs_eq (e := (noMatch, 1)) (by decide +kernel))
    exact ⟨q, r, hq, h⟩

/-- `www.example.com IN TXT` has a non-IN/A question; `q1` cut after 20 bytes is truncated; `q1` with
    QR set is a response: hypotheses of C14.3–5 -/
example :
    Spec.hasNonInA (q1.take 29 ++ [0, 16, 0, 1]) = true ∧ Spec.dnsTruncated (q1.take 20) = true ∧
    Spec.dnsTruncated (q1.take 31) = true ∧
    Spec.be16 (q1.set 2 0x81) 2 / 32768 = 1 ∧ (dnsParse (q1.set 2 0x81)).isSome = true := by decide +kernel

/-- hypotheses of `dns_reply_counts` for `q3` -/
example : (dnsParse q3).any (fun m => (dnsRepl ci4 m).isSome &&
    m.qd.all (fun q => decide (Spec.readName (q.name.length + 1) [] q.name = some (q.name, [])))) = true := by
  decide +kernel

end Masscanned.C14

#print axioms Masscanned.C14.bridge_name
#print axioms Masscanned.C14.bridge_questions
#print axioms Masscanned.C14.dns_reply_faithful
#print axioms Masscanned.C14.dns_non_ina_silent
#print axioms Masscanned.C14.dns_truncated_silent
#print axioms Masscanned.C14.dns_qr1_silent
#print axioms Masscanned.C14.dns_reply_counts
#print axioms Masscanned.C14.dns_reply_reparses
#print axioms Masscanned.C14.inAQuery_names_wf
#print axioms Masscanned.C14.nul_in_label_parse_differs
#print axioms Masscanned.C14.nul_in_label_reply_unfaithful
#print axioms Masscanned.C14.malformed_name_reply_unparseable
#print axioms Masscanned.C14.dns_fallback
#print axioms Masscanned.C14.dns_fallback_needs_transport
#print axioms Masscanned.C14.dns_fallback_silent
#print axioms Masscanned.C14.dns_c14
#print axioms Masscanned.C14.dns_c14_silent
