/-
  Thm/C15Judge — SOUNDNESS of the run-time judge `Spec.judgeC15` (STUN, Spec/JudgeApp.lean; its last branch
  recognises a STUN response by `Spec.classifyFor p r = .stun`: STUN shape, top bit of byte 2 clear, and the
  payload's bytes 4..19) with respect to the model: the verdict on the observation built from the MODEL's own
  answer to one call (`J4.obsOf`, built exactly as `Main.judgeApp` builds it from a call of the real program).

  FULL STRENGTH (datagram, `tcb = none`):
  * `judgeC15_accepts_model_outside_shadow` — outside `Spec.shadowed`: accepted;
  * `judgeC15_fails_only_shadowed` — with no hypothesis on the payload: accepted, or failed with the
    "[shadowed] " marker of known finding K2 (`judgeC15_datagram_cases`: and then the payload is shadowed).
  Key lemma `J4.no_alias_udp`: on model behaviour a reply that `classifyFor` takes for a STUN response comes
  from the STUN responder (ONC-RPC/UDP replies never carry the call's bytes 4..19: `J4.rpcudp_tid_ne`; DNS
  fallback replies have the QR bit set: `J4.dns_reply_never_stun`).
  FULL STRENGTH (first segment of a fresh TCP flow, `tcb = some {}`; the judge treats a segment that the
  published STREAM reference identifies as STUN — only the magic-cookie pattern can — exactly like a datagram:
  success response, transaction id, MAPPED-ADDRESS, change-port rule on `portAfter`):
  * `judgeC15_accepts_model_outside_shadow_tcp` — outside `Spec.shadowed`: accepted;
  * `judgeC15_fails_only_shadowed_tcp` — accepted, or failed with the "[shadowed] " marker
    (`judgeC15_tcp_cases`); hypotheses: gate open (`ci.cookie ≠ none`), `CiOk`, payload ≤ 65535 bytes;
  * `judgeC15_accepts_model_sticky` — later segment of a flow whose sticky id is STUN
    (`forced = some ID_STUN`, model = `protoHandle … ID_STUN …`): accepted, no shadow hypothesis.

  HISTORY: with `Spec.classify` alone the judge gave false alarms on an ONC-RPC call with xid `01 01 00 18` that is
  also a STUN message and on the DNS query `J4.dnsStunAlias` (first round); with the transaction-id test alone, on
  `J4.dnsTidAlias` (DNS message with QDCOUNT = ANCOUNT, second round).  All are kept below as regression examples,
  now accepted.

  Hypotheses of the theorems (`CiOk`): source address of 4 / 16 bytes, 16-bit source port, a destination port
  in the client info; payload of at most 65535 bytes (beyond, the responder panics:
  `C15.stun_binding_oversize_panics`).
-/
import Masscanned.Proofs.J4.Witness
import Masscanned.Thm.C10E2E
open Masscanned
namespace Masscanned.C15Judge
open Masscanned.Spec Masscanned.E2E Masscanned.J4 Masscanned.C10

/-- what the UDP / TCP layers guarantee about the client info they hand over: a source address of the
    right length, a 16-bit source port, a destination port -/
structure CiOk (ci : ClientInfo) : Prop where
  src : ∃ ip, ci.ipSrc = some ip ∧ IpWf ip
  sport : ∃ sp, ci.portSrc = some sp ∧ sp < 65536
  dport : ∃ dp, ci.portDst = some dp

/-- CORE: the verdict on the model's answer to a datagram is "ok", or a failure marked as K2 on a
    shadowed payload -/
theorem judgeC15_datagram_cases (cfg : Cfg) (env : Env) (ci ci' : ClientInfo) (tcb' : Option Tcb) (p : Bytes)
    (reply : Option Bytes) (hudp : ci.transport ≠ some 6) (hci : CiOk ci) (hl : p.length ≤ 65535)
    (hrun : protoRepl cfg env ci none p = .ok (ci', tcb', reply)) :
    (judgeC15 (obsOf ci p ci' reply)).ok = true ∨
    (shadowed p = true ∧ marked (judgeC15 (obsOf ci p ci' reply))) := by
  rw [judgeC15_obs_datagram _ _ _ _ hudp]
  have hg : Gate ci := fun h => hudp h.1
  cases hp : parseStun p with
  | none => exact .inl rfl
  | some m =>
    simp only
    by_cases hb : m.cls = 0 ∧ m.method = 1 ∧ u8 p 0 = 0 ∧ u8 p 1 = 1
    · rw [if_pos hb]
      by_cases hr : refDatagram p = some ID_STUN
      · rw [if_pos hr]
        obtain ⟨src, hs, hw⟩ := hci.src
        obtain ⟨sp, hps, hsp⟩ := hci.sport
        obtain ⟨dp, hdp⟩ := hci.dport
        by_cases hk : refDatagramK2 p = some ID_STUN
        · obtain ⟨ci'', r, hrep, hok, hpd, _, _⟩ :=
            C10E2E.stun_e2e_K2 cfg env ci p m src sp hg hp hb.1 hb.2.1 hl hs hps hsp hw hk
          rw [hrep] at hrun
          simp only [Except.ok.injEq, Prod.mk.injEq] at hrun
          obtain ⟨rfl, _, rfl⟩ := hrun
          left
          simp only [hs, hps, Option.getD_some, hok, Bool.not_true, Bool.false_eq_true, if_false, hpd, hdp,
            Option.map_some, ne_eq, not_true_eq_false]
          rfl
        · have hsh : shadowed p = true := by
            cases hsd : shadowed p with
            | true => rfl
            | false =>
              have h20 := (Masscanned.parseStun_inv hp).1
              have hq := not_oneShort_of_zero p (by omega) hb.2.2.1
              exact absurd (by rw [C10.refDatagramK2_eq_of_not_shadowed p hsd hq]; exact hr) hk
          right
          refine ⟨hsh, ?_⟩
          cases reply with
          | none => exact (failShadow_marked _ _ hsh).1
          | some r =>
            simp only
            have hno : stunSuccessOk m r (ci.ipSrc.getD (.v4 [])) (ci.portSrc.getD 0) = false := by
              cases hso : stunSuccessOk m r (ci.ipSrc.getD (.v4 [])) (ci.portSrc.getD 0) with
              | false => rfl
              | true =>
                exfalso
                have hshape := stunSuccessOk_stunShape _ _ _ _ hso
                rcases stun_class_source_datagram cfg env ci ci' tcb' p r hg hrun hshape with ⟨h1, _⟩ | ⟨_, h0, h1, _⟩
                · exact hk h1
                · exact not_stunShape_of_0001 r (by rw [h0]; exact hb.2.2.1) (by rw [h1]; exact hb.2.2.2) hshape
            rw [hno]
            exact (failShadow_marked _ _ hsh).1
      · rw [if_neg hr]; exact .inl rfl
    · rw [if_neg hb]
      cases reply with
      | none => exact .inl rfl
      | some r =>
        simp only
        by_cases hc : classifyFor p r = .stun
        · rw [if_pos hc]
          exfalso
          have hna := no_alias_udp cfg env ci ci' tcb' p (some r) hudp hrun
          suffices hal : stunAlias p (some r) = true by rw [hna] at hal; cases hal
          have h01 : ¬(u8 p 0 = 0 ∧ u8 p 1 = 1) := by
            intro h
            obtain ⟨_, _, _, _, hcls, hmeth, _⟩ := Masscanned.parseStun_inv hp
            apply hb
            rw [h.1, h.2] at hcls hmeth
            exact ⟨by omega, by omega, h.1, h.2⟩
          simp only [stunAlias, hc, decide_true, Bool.true_and, Bool.not_eq_true', Bool.and_eq_false_iff,
            decide_eq_false_iff_not]
          by_cases h0 : u8 p 0 = 0
          · exact .inr (fun h1 => h01 ⟨h0, h1⟩)
          · exact .inl h0
        · rw [if_neg hc]; exact .inl rfl

/-! ### the theorems -/

/-- **C15 judge, soundness outside the shadow set** (datagram; FULL STRENGTH): on the observation built from
    the model's own answer, outside `Spec.shadowed`, the verdict is "ok" -/
theorem judgeC15_accepts_model_outside_shadow (cfg : Cfg) (env : Env) (ci ci' : ClientInfo) (tcb' : Option Tcb)
    (p : Bytes) (reply : Option Bytes) (hudp : ci.transport ≠ some 6) (hci : CiOk ci) (hl : p.length ≤ 65535)
    (hrun : protoRepl cfg env ci none p = .ok (ci', tcb', reply)) (hns : shadowed p = false) :
    (judgeC15 (obsOf ci p ci' reply)).ok = true := by
  rcases judgeC15_datagram_cases cfg env ci ci' tcb' p reply hudp hci hl hrun with h | ⟨h, _⟩
  · exact h
  · rw [hns] at h; cases h

/-- **C15 judge, every failure on model behaviour is classified as K2** (datagram; FULL STRENGTH: no shadow,
    alias or counts hypothesis): the verdict on the model's own answer is "ok" or carries the "[shadowed] "
    marker -/
theorem judgeC15_fails_only_shadowed (cfg : Cfg) (env : Env) (ci ci' : ClientInfo) (tcb' : Option Tcb)
    (p : Bytes) (reply : Option Bytes) (hudp : ci.transport ≠ some 6) (hci : CiOk ci) (hl : p.length ≤ 65535)
    (hrun : protoRepl cfg env ci none p = .ok (ci', tcb', reply)) :
    okOrMarked (judgeC15 (obsOf ci p ci' reply)) := by
  rcases judgeC15_datagram_cases cfg env ci ci' tcb' p reply hudp hci hl hrun with h | ⟨_, h⟩
  · exact .inl h
  · exact .inr h

/-! ### TCP -/

/-- CORE, first segment of a fresh TCP flow (`tcb = some {}`): the verdict on the model's answer is "ok", or a
    failure marked as K2 on a shadowed payload.  A segment that the published stream reference identifies as STUN
    (only the magic-cookie pattern can: the two cookie-less forms are end-anchored and belong to `refDatagram`)
    is judged like a datagram; the model hands it to the same STUN responder. -/
theorem judgeC15_tcp_cases (cfg : Cfg) (env : Env) (ci ci' : ClientInfo) (tcb' : Option Tcb) (p : Bytes)
    (reply : Option Bytes) (htcp : ci.transport = some 6) (hck : ci.cookie ≠ none) (hci : CiOk ci)
    (hl : p.length ≤ 65535) (hrun : protoRepl cfg env ci (some {}) p = .ok (ci', tcb', reply)) :
    (judgeC15 (obsOf ci p ci' reply)).ok = true ∨
    (shadowed p = true ∧ marked (judgeC15 (obsOf ci p ci' reply))) := by
  have hg : Gate ci := fun h => hck h.2
  by_cases hr : refStream p = some ID_STUN
  · rw [judgeC15_obs_tcp _ _ _ _ htcp hr]
    obtain ⟨h0, h1⟩ := pub_stun_first_stream p hr
    cases hp : parseStun p with
    | none => exact .inl rfl
    | some m =>
      simp only
      have hb : m.cls = 0 ∧ m.method = 1 ∧ u8 p 0 = 0 ∧ u8 p 1 = 1 := by
        obtain ⟨_, _, _, _, hcls, hmeth, _⟩ := Masscanned.parseStun_inv hp
        rw [h0, h1] at hcls hmeth
        exact ⟨by omega, by omega, h0, h1⟩
      rw [if_pos hb]
      obtain ⟨src, hs, hw⟩ := hci.src
      obtain ⟨sp, hps, hsp⟩ := hci.sport
      obtain ⟨dp, hdp⟩ := hci.dport
      by_cases hk : refStreamK2 p = some ID_STUN
      · obtain ⟨ci'', r, hrep, hok, hpd, _⟩ :=
          C15.stun_binding_success_partial ci p m src sp hp hb.1 hb.2.1 hl hs hps hsp hw
        obtain ⟨st, hst⟩ := repl_stream_some cfg env ci p _ hg hk
        rw [hst, handle_stun, hrep] at hrun
        simp only [Except.ok.injEq, Prod.mk.injEq] at hrun
        obtain ⟨rfl, _, rfl⟩ := hrun
        left
        simp only [hs, hps, Option.getD_some, hok, Bool.not_true, Bool.false_eq_true, if_false, hpd, hdp,
          Option.map_some, ne_eq, not_true_eq_false]
        rfl
      · have hsh : shadowed p = true := by
          cases hsd : shadowed p with
          | true => rfl
          | false => exact absurd (by rw [C10.refStreamK2_eq_of_not_shadowed p hsd]; exact hr) hk
        right
        refine ⟨hsh, ?_⟩
        cases reply with
        | none => exact (failShadow_marked _ _ hsh).1
        | some r =>
          simp only
          have hno : stunSuccessOk m r (ci.ipSrc.getD (.v4 [])) (ci.portSrc.getD 0) = false := by
            cases hso : stunSuccessOk m r (ci.ipSrc.getD (.v4 [])) (ci.portSrc.getD 0) with
            | false => rfl
            | true =>
              exfalso
              have hshape := stunSuccessOk_stunShape _ _ _ _ hso
              rcases stun_class_source_stream cfg env ci ci' tcb' p r hg hrun hshape with ⟨h1', _⟩ | ⟨_, e0, e1, _⟩
              · exact hk h1'
              · exact not_stunShape_of_0001 r (by rw [e0]; exact h0) (by rw [e1]; exact h1) hshape
          rw [hno]
          exact (failShadow_marked _ _ hsh).1
  · rw [judgeC15_obs_tcp_other _ _ _ _ htcp hr]; exact .inl rfl

/-- **C15 judge, soundness outside the shadow set, first TCP segment** (FULL STRENGTH): hypotheses — the SYN-cookie
    gate is open (`ci.cookie ≠ none`, always the case at the TCP layer), `CiOk` (source address of 4 / 16 bytes,
    16-bit source port, a destination port), payload of at most 65535 bytes -/
theorem judgeC15_accepts_model_outside_shadow_tcp (cfg : Cfg) (env : Env) (ci ci' : ClientInfo)
    (tcb' : Option Tcb) (p : Bytes) (reply : Option Bytes) (htcp : ci.transport = some 6) (hck : ci.cookie ≠ none)
    (hci : CiOk ci) (hl : p.length ≤ 65535)
    (hrun : protoRepl cfg env ci (some {}) p = .ok (ci', tcb', reply)) (hns : shadowed p = false) :
    (judgeC15 (obsOf ci p ci' reply)).ok = true := by
  rcases judgeC15_tcp_cases cfg env ci ci' tcb' p reply htcp hck hci hl hrun with h | ⟨h, _⟩
  · exact h
  · rw [hns] at h; cases h

/-- **C15 judge, every failure on model behaviour is classified as K2, first TCP segment** (FULL STRENGTH): the
    verdict is "ok" or carries the "[shadowed] " marker — in particular the unmarked "STUN change-port rule
    violated" cannot occur on the model's answer: the reply's source port is advanced on the TCP path too -/
theorem judgeC15_fails_only_shadowed_tcp (cfg : Cfg) (env : Env) (ci ci' : ClientInfo)
    (tcb' : Option Tcb) (p : Bytes) (reply : Option Bytes) (htcp : ci.transport = some 6) (hck : ci.cookie ≠ none)
    (hci : CiOk ci) (hl : p.length ≤ 65535)
    (hrun : protoRepl cfg env ci (some {}) p = .ok (ci', tcb', reply)) :
    okOrMarked (judgeC15 (obsOf ci p ci' reply)) := by
  rcases judgeC15_tcp_cases cfg env ci ci' tcb' p reply htcp hck hci hl hrun with h | ⟨_, h⟩
  · exact .inl h
  · exact .inr h

/-- later segment of a flow whose sticky protocol id is STUN (the harness reads the id from the
    program's table and passes `forced = some 2`; the model's answer is the handler call
    `protoHandle … ID_STUN …` on this segment alone): accepted, whatever the payload — no shadow
    hypothesis, no alias hypothesis (the STUN responder only ever emits Binding Success Responses to
    Binding Requests) -/
theorem judgeC15_accepts_model_sticky (cfg : Cfg) (env : Env) (ci ci' : ClientInfo) (t : Tcb) (tcb' : Option Tcb)
    (p : Bytes) (reply : Option Bytes) (hci : CiOk ci) (hl : p.length ≤ 65535)
    (hrun : protoHandle cfg env ID_STUN ci (some t) p = .ok (ci', tcb', reply)) :
    (judgeC15 (obsOfForced ci p ci' reply ID_STUN)).ok = true := by
  obtain ⟨src, hs, hw⟩ := hci.src
  obtain ⟨sp, hps, hsp⟩ := hci.sport
  obtain ⟨dp, hdp⟩ := hci.dport
  rw [handle_stun] at hrun
  simp only [judgeC15, refOf, obsOfForced, obsOf, Option.isNone_some, Bool.false_eq_true, false_and, and_false,
    if_false, if_true]
  cases hp : parseStun p with
  | none => rfl
  | some m =>
    simp only
    by_cases hb : m.cls = 0 ∧ m.method = 1 ∧ u8 p 0 = 0 ∧ u8 p 1 = 1
    · rw [if_pos hb]
      obtain ⟨ci'', r, hrep, hok, hpd, _⟩ :=
        C15.stun_binding_success_partial ci p m src sp hp hb.1 hb.2.1 hl hs hps hsp hw
      rw [hrep] at hrun
      simp only [Except.ok.injEq, Prod.mk.injEq] at hrun
      obtain ⟨rfl, _, rfl⟩ := hrun
      simp only [hs, hps, Option.getD_some, hok, Bool.not_true, Bool.false_eq_true, if_false, hpd, hdp,
        Option.map_some, ne_eq, not_true_eq_false]
      rfl
    · rw [if_neg hb]
      have ho : stunOther p = true := by
        unfold stunOther; rw [hp]
        simp only [Bool.not_eq_true', Bool.and_eq_false_iff, decide_eq_false_iff_not]
        by_cases hc : m.cls = 0
        · right; intro hm
          obtain ⟨h0, h1⟩ := C15.stun_binding_bytes hp hc hm
          exact hb ⟨hc, hm, h0, h1⟩
        · exact .inl hc
      rw [C15.stun_other_silent_spec ci p hl ho] at hrun
      simp only [Except.ok.injEq, Prod.mk.injEq] at hrun
      obtain ⟨_, _, rfl⟩ := hrun
      rfl

/-! ### regression examples, non-vacuity -/
section examples
open C10E2E

theorem ciOk_ciUdp : CiOk ciUdp := ⟨⟨_, rfl, by decide⟩, ⟨_, rfl, by decide⟩, ⟨_, rfl⟩⟩

/-- REGRESSION (residual finding of the second round, fixed by the QR-bit test `u8 r 2 < 128` of
    `Spec.classifyFor`): `J4.dnsTidAlias` — a 32 688-byte DNS message with id `01 01` and QDCOUNT = ANCOUNT = 48 that
    is also a complete STUN message of class 2, outside `Spec.shadowed`; its 64 788-byte DNS reply has the STUN
    shape and the payload's bytes 4..19, but byte 2 = `fd` — is now ACCEPTED: stated through the theorem (the
    evaluation of the model on it takes 90 s in the kernel; `#eval`: ok, nontrivial) -/
theorem dnsTidAlias_accepted (ci' : ClientInfo) (tcb' : Option Tcb) (reply : Option Bytes)
    (hrun : protoRepl C18.cfgE C18.envE ciUdp none dnsTidAlias = .ok (ci', tcb', reply)) :
    dnsTidAlias.length = 32688 ∧ stunOther dnsTidAlias = true ∧ be16 dnsTidAlias 4 = be16 dnsTidAlias 6 ∧
    (judgeC15 (obsOf ciUdp dnsTidAlias ci' reply)).ok = true :=
  ⟨dnsTid_length, dnsTid_stunOther, dnsTid_counts,
    judgeC15_accepts_model_outside_shadow _ _ _ _ _ _ _ (by decide) ciOk_ciUdp dnsTid_le hrun dnsTid_not_shadowed⟩

/-- REGRESSION (findings D-A / D-B of the first round, fixed by the transaction-id test of
    `Spec.classifyFor`): the portmapper GETADDR (v3) call with xid `01 01 00 18` + 4 argument bytes (44 bytes; as
    a STUN message: type 0x0101, length 24) and its correct 44-byte ONC-RPC reply `01 01 00 18 00 00 00 01 …`
    (STUN-shaped: `stunShapeAlias`), and the 11 288-byte DNS query `J4.dnsStunAlias` with its 44 052-byte
    STUN-shaped reply, are now ACCEPTED by `judgeC15` (the replies do not carry the payloads' bytes 4..19) -/
def rpcStunAlias : Bytes := C16.mkCall 0x01010018 100000 3 3 ++ [0, 0, 0, 0]
def rpcStunAliasReply : Bytes :=
  [1, 1, 0, 24, 0, 0, 0, 1, 0, 0, 0, 0, 0, 0, 0, 0, 0, 0, 0, 0, 0, 0, 0, 0, 0, 0, 0, 14, 49, 48, 46, 48, 46, 48,
   46, 49, 46, 48, 46, 49, 49, 49, 0, 0]

example :
    C18.okIs (protoRepl C18.cfgE C18.envE ciUdp none rpcStunAlias) (ciUdp, none, some rpcStunAliasReply) = true ∧
    shadowed rpcStunAlias = false ∧ stunOther rpcStunAlias = true ∧ classify rpcStunAliasReply = .stun ∧
    stunShapeAlias rpcStunAlias (some rpcStunAliasReply) = true ∧
    classifyFor rpcStunAlias rpcStunAliasReply = .rpcUdp ∧
    stunAlias rpcStunAlias (some rpcStunAliasReply) = false ∧
    (modelVerdict judgeC15 C18.cfgE C18.envE ciUdp none rpcStunAlias).any (fun v => v.ok && v.nontrivial) = true ∧
    (modelVerdict judgeC16 C18.cfgE C18.envE ciUdp none rpcStunAlias).any (fun v => v.ok && v.nontrivial) = true := by
  decide +kernel

example :
    (match protoRepl C18.cfgE C18.envE ciUdp none dnsStunAlias with
     | .ok (ci', _, reply) =>
       stunShapeAlias dnsStunAlias reply && !stunAlias dnsStunAlias reply &&
       (judgeC15 (obsOf ciUdp dnsStunAlias ci' reply)).ok && (judgeC15 (obsOf ciUdp dnsStunAlias ci' reply)).nontrivial
     | .error _ => false) = true := by
  set_option maxRecDepth 100000 in decide +kernel

/-- non-vacuity of `judgeC15_accepts_model_outside_shadow`: the RFC 3489 Binding Request with a change-port
    CHANGE-REQUEST (`C15ex.reqA`) and the RFC 5389 request with 268 attribute bytes (`reqB`) satisfy the
    hypotheses, and the verdict on the model's answer is "ok" with `nontrivial = true`; a Binding success
    response sent as a request (`sucB`: the `else` branch) is accepted as well -/
example :
    shadowed C15ex.reqA = false ∧ shadowed C15ex.reqB = false ∧ shadowed C15ex.sucB = false ∧
    C15ex.reqB.length ≤ 65535 ∧ ciUdp.transport ≠ some 6 ∧
    (modelVerdict judgeC15 C18.cfgE C18.envE ciUdp none C15ex.reqA).any (fun v => v.ok && v.nontrivial) = true ∧
    (modelVerdict judgeC15 C18.cfgE C18.envE ciUdp none C15ex.reqB).any (fun v => v.ok && v.nontrivial) = true ∧
    (modelVerdict judgeC15 C18.cfgE C18.envE ciUdp none C15ex.sucB).any (fun v => v.ok && v.nontrivial) = true ∧
    (match protoRepl C18.cfgE C18.envE ciUdp none C15ex.reqA with
     | .ok (ci', _, reply) => !stunAlias C15ex.reqA reply && decide (ci'.portDst = some 112)
     | .error _ => false) = true := by
  decide +kernel

/-- the theorem applied to `reqA` -/
example (ci' : ClientInfo) (tcb' : Option Tcb) (reply : Option Bytes)
    (hrun : protoRepl C18.cfgE C18.envE ciUdp none C15ex.reqA = .ok (ci', tcb', reply)) :
    (judgeC15 (obsOf ciUdp C15ex.reqA ci' reply)).ok = true :=
  judgeC15_accepts_model_outside_shadow _ _ _ _ _ _ _ (by decide) ciOk_ciUdp (by decide) hrun (by decide +kernel)

/-- non-vacuity of `judgeC15_fails_only_shadowed`, inside the shadow set: the RFC 5389 request with
    one SOFTWARE attribute (`stunSoftware`, finding K2: not answered) fails WITH the marker; the usual
    RFC 5389 probe without attributes (`stunPlain`: shadowed, yet identified through the end-anchored
    20-byte form and answered) is accepted -/
example :
    shadowed stunSoftware = true ∧ shadowed stunPlain = true ∧
    (modelVerdict judgeC15 C18.cfgE C18.envE ciUdp none stunSoftware).any (fun v =>
      !v.ok && v.clause == "[shadowed] STUN binding request not answered") = true ∧
    (modelVerdict judgeC15 C18.cfgE C18.envE ciUdp none stunPlain).any (fun v => v.ok && v.nontrivial) = true := by
  decide +kernel

theorem ciOk_ciTcp : CiOk ciTcp := ⟨⟨_, rfl, by decide⟩, ⟨_, rfl, by decide⟩, ⟨_, rfl⟩⟩

/-- non-vacuity of the TCP theorems: the RFC 5389 Binding Request `C15ex.reqB` (magic cookie, 268 attribute
    bytes, one change-port CHANGE-REQUEST; 288 bytes) as FIRST SEGMENT of a TCP flow to port 111: outside
    `Spec.shadowed`, stream reference = STUN; the model answers, the verdict is "ok" with `nontrivial = true`, and
    the local port after the call is 111 + 1 = 112.  The RFC 3489 request `reqA` (no cookie) completes no stream
    signature: not a STUN exchange over TCP (`pass false`). -/
example :
    shadowed C15ex.reqB = false ∧ refStream C15ex.reqB = some ID_STUN ∧ C15ex.reqB.length ≤ 65535 ∧
    ciTcp.transport = some 6 ∧ ciTcp.cookie ≠ none ∧ ciTcp.portDst = some 111 ∧
    (match protoRepl C18.cfgE C18.envE ciTcp (some {}) C15ex.reqB with
     | .ok (ci', _, reply) =>
       (judgeC15 (obsOf ciTcp C15ex.reqB ci' reply)).ok && (judgeC15 (obsOf ciTcp C15ex.reqB ci' reply)).nontrivial &&
       reply.isSome && decide ((obsOf ciTcp C15ex.reqB ci' reply).portAfter = 112)
     | .error _ => false) = true ∧
    refStream C15ex.reqA = none ∧
    (modelVerdict judgeC15 C18.cfgE C18.envE ciTcp (some {}) C15ex.reqA).any (fun v => v.ok && !v.nontrivial) = true := by
  decide +kernel

/-- the theorem applied to `reqB` over TCP -/
example (ci' : ClientInfo) (tcb' : Option Tcb) (reply : Option Bytes)
    (hrun : protoRepl C18.cfgE C18.envE ciTcp (some {}) C15ex.reqB = .ok (ci', tcb', reply)) :
    (judgeC15 (obsOf ciTcp C15ex.reqB ci' reply)).ok = true :=
  judgeC15_accepts_model_outside_shadow_tcp _ _ _ _ _ _ _ rfl (by decide) ciOk_ciTcp (by decide +kernel) hrun
    (by decide +kernel)

/-- inside the shadow set, over TCP: `stunSoftware` (cookie, one SOFTWARE attribute) and `stunPlain` (cookie, no
    attribute — answered as a DATAGRAM through the end-anchored 20-byte form, which does not exist on a stream)
    complete the published cookie signature, are not identified by the compiled matcher and not answered: the
    verdict fails WITH the marker -/
example :
    shadowed stunSoftware = true ∧ refStream stunSoftware = some ID_STUN ∧
    shadowed stunPlain = true ∧ refStream stunPlain = some ID_STUN ∧
    (modelVerdict judgeC15 C18.cfgE C18.envE ciTcp (some {}) stunSoftware).any (fun v =>
      !v.ok && v.clause == "[shadowed] STUN binding request not answered") = true ∧
    (modelVerdict judgeC15 C18.cfgE C18.envE ciTcp (some {}) stunPlain).any (fun v =>
      !v.ok && v.clause == "[shadowed] STUN binding request not answered") = true := by
  decide +kernel

/-- `judgeC15_accepts_model_sticky`: a Binding Request as later segment of a STUN flow (`nontrivial`) -/
example :
    (match protoHandle C18.cfgE C18.envE ID_STUN ciTcp (some { protoId := ID_STUN }) C15ex.reqA with
     | .ok (ci', _, reply) =>
       (judgeC15 (obsOfForced ciTcp C15ex.reqA ci' reply ID_STUN)).ok &&
       (judgeC15 (obsOfForced ciTcp C15ex.reqA ci' reply ID_STUN)).nontrivial
     | .error _ => false) = true := by decide +kernel

end examples

#print axioms judgeC15_datagram_cases
#print axioms judgeC15_accepts_model_outside_shadow
#print axioms judgeC15_fails_only_shadowed
#print axioms judgeC15_tcp_cases
#print axioms judgeC15_accepts_model_outside_shadow_tcp
#print axioms judgeC15_fails_only_shadowed_tcp
#print axioms judgeC15_accepts_model_sticky
#print axioms no_alias_udp
#print axioms dnsTidAlias_accepted

end Masscanned.C15Judge
