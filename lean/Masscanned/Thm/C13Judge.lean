/-
  Thm/C13Judge — soundness of the run-time judges `Spec.judgeC13` and `Spec.judgeC13s` (HTTP) with respect
  to the model.

  * `judgeC13_accepts_model`: datagram (`tcb = none`) / first segment of a TCP flow (`tcb = some {}`).
    Hypotheses: the SYN-cookie gate is open (`E2E.Gate ci`) and the date text of the environment contains
    neither CR nor LF (`DateOk env`).  Both are needed: `judgeC13_gate_needed`, `judgeC13_date_needed`.
    Requests of the grammar that lie in the matcher's shadow set (`C10E2E.http_shadowed_witness`) are
    covered: the judge does not consult the published reference, and HTTP itself is never shadowed.
  * `judgeC13_accepts_model_stream`: "stream" mode of the harness (a request cut into TCP segments after its
    signature `METHOD SP "/"`; each observation = cumulative byte stream so far + reply to the latest
    segment): accepted for every segment UP TO AND INCLUDING THE FIRST ANSWERED ONE, by C11
    (`http_seg_indep_partial`: that reply is the reply of the unsegmented cumulative stream) and the
    first-segment case.  Since `http::repl` resets the stored parser state after a reply, the segments after
    the answered one start the next request and the cumulative stream says nothing about them
    (`judgeC13_stream_after_answer_false`: the unrestricted statement, true before the repair, is false
    now); the harness (`judge_lines`, `stream_done`) stops judging a flow in this mode once it was answered.
  * **`judgeC13s_accepts_model`**: LATER message of a TCP flow already identified as HTTP
    (`forced = some ID_HTTP`) whose stored parser state is the fresh one — `none`, or `some (.http {})` as
    after ANY answered request (`C13.http_state_reset`): `Spec.judgeC13s` accepts the model's reply from
    `protoHandle … ID_HTTP …`: a strict-grammar request gets a well-formed 401 again, a message that does not
    start with one of the nine methods in any letter case gets no HTTP response
    (`judgeC13s_accepts_model_repl`: the same through `proto::repl` on a `C13.FreshHttp` block).
  * Sticky observations (`forced = some id`) and `judgeC13`: `judgeC13` does NOT look at `forced`, and is NOT
    sound there:
      - `judgeC13_sticky_false_other`: on a flow identified as SSH a later segment that is a complete HTTP
        request is (correctly) not answered by the SSH responder; `judgeC13` fails "complete HTTP request
        not answered" (`judgeC13s` passes trivially);
      - `judgeC13_sticky_false_http`: on a flow identified as HTTP whose parser is in its initial state,
        "get / HTTP/1.1" (lower-case method) is answered — `http::repl` matches methods case-insensitively,
        only the dispatcher's signature is upper-case — and `judgeC13` fails "HTTP response to an unknown
        method".  Since the repair of `http::repl` this state is REACHED on every HTTP flow after an answered
        request (it used to need a fabricated control block); later messages of an answered HTTP flow must
        therefore be judged with `judgeC13s`, which accepts this observation (same theorem).
    Strongest true variants for `judgeC13`: `judgeC13_accepts_model_sticky_partial` (id ≠ HTTP: accepted iff
    the segment is not a request of the strict grammar) and `judgeC13_accepts_model_sticky_http_partial`
    (id = HTTP, fresh parser state, segment on the dispatcher's domain `METHOD SP "/"…`).
    The first counterexample is MOOT for the checking machinery: harness (`/verif/harness/props.py`):
    `judge_lines` builds a `forced` observation only for an op tagged `meta.mode = sticky`, and
    `gen_appcases` tags ops so only in its `shape == 0` branch, which requires
    `kind ∈ {stun, ssh, smb1, smb2, ghost}`; model (`sticky_id_http_iff`, `sticky_first_never_http`): `forced`
    is the protocol id read from the flow's control block after its first segment; it is HTTP iff that
    segment starts with `METHOD SP "/"`; the first segments of those sticky flows start with "SSH-",
    "Gh0st", or a zero byte (STUN `00 01`, NetBIOS `00`), so they never carry `forced = some ID_HTTP`.
-/
import Masscanned.Proofs.J3.Judge
import Masscanned.Proofs.J3.Stream
open Masscanned
namespace Masscanned.C13Judge
open Masscanned.Spec Masscanned.E2E Masscanned.J3

/-- the date text `http::repl` inserts (strftime of the wall clock) has no CR / LF -/
def DateOk (env : Env) : Prop := ∀ b ∈ env.httpDate, b ≠ 10 ∧ b ≠ 13

example : DateOk C10E2E.envD := by unfold DateOk; decide +kernel

/-- **`judgeC13` accepts the model** (datagram / first TCP segment) -/
theorem judgeC13_accepts_model (cfg : Cfg) (env : Env) (ci : ClientInfo) (p : Bytes) (tcb : Option Tcb)
    (ht : FreshTcb tcb) (hg : Gate ci) (hd : DateOk env) (ci' : ClientInfo) (tcb' : Option Tcb)
    (reply : Option Bytes) (h : protoRepl cfg env ci tcb p = .ok (ci', tcb', reply)) :
    (judgeC13 (obsOf ci p ci' reply)).ok = true := by
  rw [judgeC13_obs]
  dsimp only
  by_cases hst : strictRequest p = true
  · rw [if_pos hst]
    obtain ⟨_, ⟨r1, h1, _, ok1⟩, t, r2, h2, _, ok2, _⟩ := C10E2E.http_e2e cfg env ci p hg hd hst
    rcases ht with rfl | rfl
    · rw [h1] at h; simp only [Except.ok.injEq, Prod.mk.injEq] at h
      rw [← h.2.2]; simp only [ok1, if_true]; rfl
    · rw [h2] at h; simp only [Except.ok.injEq, Prod.mk.injEq] at h
      rw [← h.2.2]; simp only [ok2, if_true]; rfl
  · rw [if_neg hst]
    by_cases hrel : relaxedRequest p = true
    · simp only [hrel, Bool.not_true, Bool.false_eq_true, if_false]
      cases reply with
      | none => rfl
      | some r =>
        simp only
        by_cases hc : classify r = .http
        · obtain ⟨_, s, hs⟩ := http_class_origin ht h hc
          have hok : reply401Ok r = true := by rw [http_fresh_reply hs]; exact C13.http_reply_wf env hd
          simp only [hok, Bool.not_true, Bool.false_eq_true, and_false, if_false]
          rfl
        · simp only [hc, decide_false, Bool.false_eq_true, false_and, if_false]
          rfl
    · simp only [hrel, Bool.not_false, if_true]
      cases reply with
      | none => rfl
      | some r =>
        simp only
        by_cases hc : classify r = .http
        · exfalso
          obtain ⟨hid, s, hs⟩ := http_class_origin ht h hc
          obtain ⟨m, hm, r', rfl, h47⟩ := k2_http_inv p hid
          exact hrel (C13.answered_imp_relaxed env m hm r' h47 s r hs)
        · simp only [hc, decide_false, Bool.false_eq_true, if_false]
          rfl

/-! ### the hypotheses are needed -/

theorem judgeC13_gate_needed (cfg : Cfg) (env : Env) :
    ¬ Gate ciNoCookie ∧
    protoRepl cfg env ciNoCookie none "GET / HTTP/1.1\r\n\r\n".toUTF8.toList = .ok (ciNoCookie, none, none) ∧
    (judgeC13 (obsOf ciNoCookie "GET / HTTP/1.1\r\n\r\n".toUTF8.toList ciNoCookie none)).ok = false :=
  ⟨by decide, model_gate cfg env _ _ _ (by decide), by decide +kernel⟩

/-- a "date" with an empty line in it: the model's 401 is cut in two and the judge rejects it -/
def envBadDate : Env := { httpDate := [10, 10], unixSecs := 0 }

theorem judgeC13_date_needed (cfg : Cfg) :
    ¬ DateOk envBadDate ∧
    protoRepl cfg envBadDate C10E2E.ciUdp none "GET / HTTP/1.1\r\n\r\n".toUTF8.toList =
      .ok (C10E2E.ciUdp, none, some (httpReplyBytes envBadDate)) ∧
    (judgeC13 (obsOf C10E2E.ciUdp "GET / HTTP/1.1\r\n\r\n".toUTF8.toList C10E2E.ciUdp
      (some (httpReplyBytes envBadDate)))).ok = false := by
  refine ⟨by unfold DateOk; decide, ?_, by decide +kernel⟩
  have hid : refDatagramK2 "GET / HTTP/1.1\r\n\r\n".toUTF8.toList = some ID_HTTP := by decide +kernel
  obtain ⟨s, hs⟩ := C13.grammar_request_answered envBadDate "GET / HTTP/1.1\r\n\r\n".toUTF8.toList (by decide +kernel)
  rw [dispatch_datagram_K2 cfg envBadDate _ _ _ (by decide) hid, handle_http_none, hs]

/-! ### stream mode: the cumulative byte stream of a flow, judged against the reply to its latest segment -/

/-- **stream mode** (`judge_lines`, meta mode `stream`): a flow whose first segment contains the signature
    `METHOD SP "/"`; `C11.feed` feeds the segments one after the other through `proto::repl`, `rs` are the
    replies.  For every segment `k` such that no earlier segment was answered (`hprev`: the segments up to and
    including the first answered one — afterwards the parser starts over with the next request and the
    harness stops judging the flow in this mode) the judge accepts the observation (cumulative stream up to
    and including segment `k`, reply to segment `k`).
    (Restated: before the repair of `http::repl` this held for every `k`; now
    `judgeC13_stream_after_answer_false`.) -/
theorem judgeC13_accepts_model_stream (cfg : Cfg) (env : Env) (ci : ClientInfo) (hg : Gate ci) (hd : DateOk env)
    (m : Bytes) (hm : m ∈ httpMethods) (a' : Bytes) (segs : List Bytes) (t : Tcb) (rs : List (Option Bytes))
    (hfeed : C11.feed cfg env ci {} ((m ++ 32 :: 47 :: a') :: segs) = .ok (t, rs))
    (k : Nat) (hk : k ≤ segs.length) (hprev : ∀ j, j < k → rs[j]? = some none) (ci' : ClientInfo) :
    ∃ r, rs[k]? = some r ∧
      (judgeC13 (obsOf ci (((m ++ 32 :: 47 :: a') :: segs).take (k + 1)).flatten ci' r)).ok = true := by
  obtain ⟨R, hun, hrs⟩ := stream_reply cfg env ci m hm a' segs t rs hfeed k hk hprev
  refine ⟨R, hrs, ?_⟩
  unfold C11.unseg at hun
  cases hp : protoRepl cfg env ci (some {}) (((m ++ 32 :: 47 :: a') :: segs).take (k + 1)).flatten with
  | error e => rw [hp] at hun; cases hun
  | ok x =>
    obtain ⟨c, t', r'⟩ := x
    rw [hp] at hun
    simp only [Except.ok.injEq] at hun
    subst hun
    have := judgeC13_accepts_model cfg env ci _ (some {}) (.inr rfl) hg hd c t' r' hp
    rw [judgeC13_obs] at this ⊢
    exact this

/-- "GET / HTTP/1.1\r\n\r\n" -/
def getReq : Bytes := "GET / HTTP/1.1\r\n\r\n".toUTF8.toList
/-- "get / HTTP/1.1\r\n\r\n" -/
def getLower : Bytes := "get / HTTP/1.1\r\n\r\n".toUTF8.toList

/-- the hypothesis `hprev` of `judgeC13_accepts_model_stream` is needed (since the repair of `http::repl`):
    the request, answered, then a junk byte in a segment of its own — correctly NOT answered; the cumulative
    stream `GET / HTTP/1.1 CRLF CRLF x` is a request of the grammar ("then anything"), and the stream-mode
    observation (cumulative stream, no reply) is rejected: "complete HTTP request not answered" -/
theorem judgeC13_stream_after_answer_false :
    (∃ t, C11.feed C18.cfgE C10E2E.envD C10E2E.ciTcp {} [getReq, [120]] =
      .ok (t, [some (httpReplyBytes C10E2E.envD), none])) ∧
    (judgeC13 (obsOf C10E2E.ciTcp ([getReq, [120]].take 2).flatten C10E2E.ciTcp none)).ok = false := by
  refine ⟨?_, by decide +kernel⟩
  have h : (match C11.feed C18.cfgE C10E2E.envD C10E2E.ciTcp {} [getReq, [120]] with
    | .ok (_, rs) => decide (rs = [some (httpReplyBytes C10E2E.envD), none])
    | .error _ => false) = true := by decide +kernel
  split at h
  · rename_i t rs heq
    exact ⟨t, by rw [heq, of_decide_eq_true h]⟩
  · cases h

/-! ### later messages of an answered HTTP flow: `judgeC13s` -/

theorem judgeC13s_obs (ci : ClientInfo) (p : Bytes) (ci' : ClientInfo) (reply : Option Bytes) (forced : Option Nat) :
    judgeC13s (obsOf ci p ci' reply forced) =
      let isHttp : Bool := match reply with | some r => classify r = .http | none => false
      if forced ≠ some ID_HTTP then pass false
      else if strictRequest p then
        match reply with
        | some r => if reply401Ok r then pass true else failv "401 response malformed (later request of a connection)"
        | none => failv "complete HTTP request on an answered HTTP connection not answered"
      else if !nocaseMethodPrefix p then
        (if isHttp then failv "HTTP response to a message that does not start with a method (later message of an answered connection)"
         else pass true)
      else pass false := rfl

/-- the stored parser state of the control block handed to the HTTP handler is the fresh one: no block
    (datagram), a block without parser state, or — as after ANY answered request — the initial state -/
def FreshHttpState (tcb : Option Tcb) : Prop :=
  tcb = none ∨ ∃ t, tcb = some t ∧ (t.protoState = none ∨ t.protoState = some (.http {}))

/-- the HTTP arm on such a block is `http::repl` from the initial parser state -/
theorem http_arm_fresh_state {cfg : Cfg} {env : Env} {ci ci' : ClientInfo} {tcb tcb' : Option Tcb} {p : Bytes}
    {o : Option Bytes} (hf : FreshHttpState tcb)
    (h : protoHandle cfg env ID_HTTP ci tcb p = .ok (ci', tcb', o)) :
    ∃ s, httpRepl env {} p = .ok (s, o) := by
  rcases hf with rfl | ⟨t, rfl, ht⟩
  · obtain ⟨s, hs, _⟩ := http_arm_none h
    exact ⟨s, hs⟩
  · have h' : protoHandle cfg env PROTO_HTTP ci (some t) p = .ok (ci', tcb', o) := h
    rw [C13.protoHandle_http_of_fresh cfg env ci t ht] at h'
    cases hq : httpRepl env {} p with
    | error e => rw [hq] at h'; cases h'
    | ok x =>
      obtain ⟨s, o'⟩ := x
      rw [hq] at h'
      simp only [Except.ok.injEq, Prod.mk.injEq] at h'
      exact ⟨s, by rw [h'.2.2]⟩

/-- **`judgeC13s` accepts the model**: a later message `p` of a TCP flow identified as HTTP
    (`forced = some ID_HTTP`) whose stored parser state is the fresh one (`FreshHttpState`: as after any
    answered request, `C13.http_state_reset`), the reply being the model's (`protoHandle … ID_HTTP …`): a
    request of the strict grammar is answered with a well-formed 401 again; a message that does not start
    with one of the nine methods in any letter case is not answered at all. -/
theorem judgeC13s_accepts_model (cfg : Cfg) (env : Env) (ci : ClientInfo) (p : Bytes) (tcb : Option Tcb)
    (hf : FreshHttpState tcb) (hd : DateOk env) (ci' : ClientInfo) (tcb' : Option Tcb) (reply : Option Bytes)
    (h : protoHandle cfg env ID_HTTP ci tcb p = .ok (ci', tcb', reply)) :
    (judgeC13s (obsOf ci p ci' reply (some ID_HTTP))).ok = true := by
  obtain ⟨s, hs⟩ := http_arm_fresh_state hf h
  rw [judgeC13s_obs]
  dsimp only
  simp only [ne_eq, not_true_eq_false, if_false]
  by_cases hst : strictRequest p = true
  · rw [if_pos hst]
    obtain ⟨s', hs'⟩ := C13.grammar_request_answered env p hst
    rw [hs] at hs'
    simp only [Except.ok.injEq, Prod.mk.injEq] at hs'
    rw [hs'.2]
    simp only [C13.http_reply_wf env hd, if_true]
    rfl
  · rw [if_neg hst]
    by_cases hn : nocaseMethodPrefix p = true
    · simp only [hn, Bool.not_true, Bool.false_eq_true, if_false]
      rfl
    · obtain ⟨s2, hs2, _⟩ := C13.httpRepl_fresh_junk env p (fun hh => hn ((C13.nocaseMethodPrefix_iff p).2 hh))
      rw [hs] at hs2
      simp only [Except.ok.injEq, Prod.mk.injEq] at hs2
      rw [hs2.2]
      simp only [hn, Bool.not_false, if_true, Bool.false_eq_true, if_false]
      rfl

/-- the same through `proto::repl` with the flow's control block (gate open, block `C13.FreshHttp`: identified
    as HTTP, parser state fresh — in particular `C13.resetBlock t`, the block stored after any answered
    request) -/
theorem judgeC13s_accepts_model_repl (cfg : Cfg) (env : Env) (ci : ClientInfo) (hg : Gate ci) (p : Bytes) (t : Tcb)
    (hf : C13.FreshHttp t) (hd : DateOk env) (ci' : ClientInfo) (tcb' : Option Tcb) (reply : Option Bytes)
    (h : protoRepl cfg env ci (some t) p = .ok (ci', tcb', reply)) :
    (judgeC13s (obsOf ci p ci' reply (some ID_HTTP))).ok = true := by
  rw [C13.protoRepl_of_identified cfg env ci hg t (by rw [hf.1]; decide), hf.1] at h
  exact judgeC13s_accepts_model cfg env ci p (some t) (.inr ⟨t, rfl, hf.2⟩) hd ci' tcb' reply h

/-- the date hypothesis is needed here as well -/
theorem judgeC13s_date_needed (cfg : Cfg) :
    protoHandle cfg envBadDate ID_HTTP C10E2E.ciTcp none getReq =
      .ok (C10E2E.ciTcp, none, some (httpReplyBytes envBadDate)) ∧
    (judgeC13s (obsOf C10E2E.ciTcp getReq C10E2E.ciTcp (some (httpReplyBytes envBadDate)) (some ID_HTTP))).ok = false := by
  refine ⟨?_, by decide +kernel⟩
  obtain ⟨s, hs⟩ := C13.grammar_request_answered envBadDate getReq (by decide +kernel)
  rw [handle_http_none, hs]

/-! ### sticky observations: `judgeC13` ignores `forced` -/

/-- FALSE ALARM of `judgeC13` (latent): a complete HTTP request as later segment of an SSH flow
    (`judgeC13s` has nothing to say about flows not identified as HTTP and passes trivially) -/
theorem judgeC13_sticky_false_other (cfg : Cfg) (env : Env) (tcb : Option Tcb) :
    protoHandle cfg env ID_SSH C10E2E.ciTcp tcb getReq = .ok (C10E2E.ciTcp, tcb, none) ∧
    (judgeC13 (obsOf C10E2E.ciTcp getReq C10E2E.ciTcp none (some ID_SSH))).ok = false ∧
    (judgeC13s (obsOf C10E2E.ciTcp getReq C10E2E.ciTcp none (some ID_SSH))).ok = true := by
  refine ⟨?_, by decide +kernel, by decide +kernel⟩
  rw [handle_ssh, C18.sshRepl_eq]
  have : C18.sshLang getReq = false := by decide +kernel
  rw [this]; rfl

/-- FALSE ALARM of `judgeC13` on a later message: lower-case method on an HTTP flow with a fresh parser state
    — since the repair of `http::repl` the state of EVERY HTTP flow after an answered request (here: the
    block `resetBlock` stores; also with no block at all).  The model answers (`http::repl` matches methods
    case-insensitively; only the dispatcher's signature is upper-case); `judgeC13` rejects "HTTP response to
    an unknown method"; `judgeC13s`, the judge for such observations, accepts. -/
theorem judgeC13_sticky_false_http (cfg : Cfg) (t : Tcb) :
    protoHandle cfg C10E2E.envD ID_HTTP C10E2E.ciTcp none getLower =
      .ok (C10E2E.ciTcp, none, some (httpReplyBytes C10E2E.envD)) ∧
    protoHandle cfg C10E2E.envD ID_HTTP C10E2E.ciTcp (some (C13.resetBlock t)) getLower =
      .ok (C10E2E.ciTcp, some (C13.resetBlock t), some (httpReplyBytes C10E2E.envD)) ∧
    (judgeC13 (obsOf C10E2E.ciTcp getLower C10E2E.ciTcp (some (httpReplyBytes C10E2E.envD)) (some ID_HTTP))).ok
      = false ∧
    (judgeC13s (obsOf C10E2E.ciTcp getLower C10E2E.ciTcp (some (httpReplyBytes C10E2E.envD)) (some ID_HTTP))).ok
      = true := by
  have ha : C13.Aux.Answered getLower := (C13.Aux.answered_iff_B _).2 (by decide +kernel)
  have hs := C13.httpRepl_fresh_answered C10E2E.envD getLower ha
  refine ⟨?_, ?_, by decide +kernel, by decide +kernel⟩
  · rw [handle_http_none, hs]
  · show protoHandle cfg C10E2E.envD PROTO_HTTP C10E2E.ciTcp (some (C13.resetBlock t)) getLower = _
    rw [C13.protoHandle_http_of_fresh cfg C10E2E.envD C10E2E.ciTcp _ (.inr rfl), hs]
    rfl

/-- **which flows get the sticky id HTTP**: after the first segment `p` of a flow (gate open), the control block
    carries `ID_HTTP` iff `p` starts with an upper-case method, SP, "/" -/
theorem sticky_id_http_iff (cfg : Cfg) (env : Env) (ci ci' : ClientInfo) (t : Tcb) (p : Bytes) (r : Option Bytes)
    (hg : Gate ci) (h : protoRepl cfg env ci (some {}) p = .ok (ci', some t, r)) :
    t.protoId = ID_HTTP ↔ ∃ m ∈ httpMethods, ∃ r', p = m ++ 32 :: r' ∧ r'.head? = some 47 := by
  rw [sticky_id_of_first hg h]
  constructor
  · intro hid
    cases hs : refStreamK2 p with
    | none => rw [hs] at hid; cases hid
    | some i =>
      rw [hs] at hid
      simp only [Option.getD_some] at hid
      subst hid
      exact k2_http_inv p hs
  · rintro ⟨m, hm, r', hp, h47⟩
    rw [(http_ident p m r' hm hp h47).1]
    rfl

/-- the first segments of the harness's sticky flows (`gen_ssh`: "SSH-…", `gen_ghost`: "Gh0st…", `gen_stun_long`:
    `00 01 …`, `gen_smb1` / `gen_smb2`: NetBIOS type `00`) never produce the sticky id HTTP: the observations of
    `judgeC13_sticky_false_http` (`forced = some ID_HTTP`) are never built -/
theorem sticky_first_never_http (cfg : Cfg) (env : Env) (ci ci' : ClientInfo) (t : Tcb) (p : Bytes)
    (r : Option Bytes) (hg : Gate ci) (h : protoRepl cfg env ci (some {}) p = .ok (ci', some t, r))
    (hp : sshMagic.isPrefixOf p = true ∨ gh5.isPrefixOf p = true ∨ p.head? = some 0) :
    t.protoId ≠ ID_HTTP := by
  intro hid
  obtain ⟨m, hm, r', rfl, _⟩ := (sticky_id_http_iff cfg env ci ci' t p r hg h).1 hid
  obtain ⟨hl, h1, h2, h3⟩ := methods_heads m hm
  have htake : (m ++ 32 :: r').take 2 = m.take 2 := by
    rw [List.take_append_of_le_length (by omega)]
  rcases hp with hp | hp | hp
  · rw [List.isPrefixOf_iff_prefix] at hp
    obtain ⟨x, hx⟩ := hp
    apply h1
    rw [← htake, ← hx]; rfl
  · rw [List.isPrefixOf_iff_prefix] at hp
    obtain ⟨x, hx⟩ := hp
    apply h2
    rw [← htake, ← hx]; rfl
  · apply h3
    cases m with
    | nil => simp at hl
    | cons b tl => simpa using hp

/-- sticky, id ≠ HTTP (strongest true variant): accepted whenever the segment is not a request of the strict
    grammar; no other handler's reply is mistaken for an HTTP response -/
theorem judgeC13_accepts_model_sticky_partial (cfg : Cfg) (env : Env) (id : Nat) (ci : ClientInfo) (p : Bytes)
    (tcb : Option Tcb) (hid : id ≠ ID_HTTP) (hns : strictRequest p = false)
    (ci' : ClientInfo) (tcb' : Option Tcb) (reply : Option Bytes)
    (h : protoHandle cfg env id ci tcb p = .ok (ci', tcb', reply)) :
    (judgeC13 (obsOf ci p ci' reply (some id))).ok = true := by
  rw [judgeC13_obs]
  dsimp only
  simp only [hns, Bool.false_eq_true, if_false]
  have hc : ∀ r, reply = some r → classify r ≠ .http := by
    intro r hr hc
    subst hr
    have := (classify_http_iff r).1 hc
    rw [handle_not_http hid h] at this
    cases this
  cases reply with
  | none => split <;> rfl
  | some r =>
    simp only [hc r rfl, decide_false, Bool.false_eq_true, false_and, if_false]
    split <;> rfl

/-- sticky, id = HTTP with a fresh parser state, segment on the dispatcher's domain -/
theorem judgeC13_accepts_model_sticky_http_partial (cfg : Cfg) (env : Env) (ci : ClientInfo) (tcb : Option Tcb)
    (m r : Bytes) (hm : m ∈ httpMethods) (h47 : r.head? = some 47) (hd : DateOk env)
    (hfresh : tcb = none ∨ ∃ st, tcb = some { ({} : Tcb) with protoId := ID_HTTP, smackState := st })
    (ci' : ClientInfo) (tcb' : Option Tcb) (reply : Option Bytes)
    (h : protoHandle cfg env ID_HTTP ci tcb (m ++ 32 :: r) = .ok (ci', tcb', reply)) :
    (judgeC13 (obsOf ci (m ++ 32 :: r) ci' reply (some ID_HTTP))).ok = true := by
  obtain ⟨s, hs⟩ : ∃ s, httpRepl env {} (m ++ 32 :: r) = .ok (s, reply) := by
    rcases hfresh with rfl | ⟨st, rfl⟩
    · obtain ⟨s, hs, _⟩ := http_arm_none h; exact ⟨s, hs⟩
    · obtain ⟨s, hs, _⟩ := http_arm_fresh h; exact ⟨s, hs⟩
  rw [judgeC13_obs]
  dsimp only
  by_cases hrel : relaxedRequest (m ++ 32 :: r) = true
  · obtain ⟨s', hs'⟩ := C13.relaxed_request_answered env _ hrel
    rw [hs] at hs'
    simp only [Except.ok.injEq, Prod.mk.injEq] at hs'
    rw [hs'.2]
    have hok := C13.http_reply_wf env hd
    simp only [hok, if_true, hrel, Bool.not_true, Bool.false_eq_true, and_false, if_false]
    split <;> rfl
  · have hns : strictRequest (m ++ 32 :: r) = false := by
      cases hq : strictRequest (m ++ 32 :: r) with
      | false => rfl
      | true => exact absurd (C13.strict_subset_relaxed _ hq) hrel
    simp only [hns, Bool.false_eq_true, if_false, hrel, Bool.not_false, if_true]
    cases reply with
    | none => rfl
    | some x => exact absurd (C13.answered_imp_relaxed env m hm r h47 s x hs) hrel

/-! ### non-vacuity -/

example : Gate C10E2E.ciUdp ∧ Gate C10E2E.ciTcp ∧ FreshTcb none ∧ FreshTcb (some {}) :=
  ⟨by decide, by decide, .inl rfl, .inr rfl⟩

/-- "GET / HTTP/1.1\r\nHost: a\r\n\r\n" as first segment of a TCP flow: answered, verdict ok and non-trivial -/
example (cfg : Cfg) : ∃ ci' tcb' reply,
    protoRepl cfg C10E2E.envD C10E2E.ciTcp (some {}) "GET / HTTP/1.1\r\nHost: a\r\n\r\n".toUTF8.toList =
      .ok (ci', tcb', reply) ∧
    (judgeC13 (obsOf C10E2E.ciTcp "GET / HTTP/1.1\r\nHost: a\r\n\r\n".toUTF8.toList ci' reply)).ok = true ∧
    (judgeC13 (obsOf C10E2E.ciTcp "GET / HTTP/1.1\r\nHost: a\r\n\r\n".toUTF8.toList ci' reply)).nontrivial = true := by
  obtain ⟨t, r, h, hr, _⟩ := (C10E2E.http_e2e cfg C10E2E.envD C10E2E.ciTcp _ (by decide) (by decide +kernel)
    (by decide +kernel : strictRequest "GET / HTTP/1.1\r\nHost: a\r\n\r\n".toUTF8.toList = true)).2.2
  subst hr
  exact ⟨_, _, _, h, by decide +kernel, by decide +kernel⟩

/-- the request of the grammar that lies in the matcher's shadow set: accepted all the same -/
example (cfg : Cfg) : ∃ ci' tcb' reply,
    protoRepl cfg C10E2E.envD C10E2E.ciUdp none C10E2E.httpShadowed = .ok (ci', tcb', reply) ∧
    shadowed C10E2E.httpShadowed = true ∧
    (judgeC13 (obsOf C10E2E.ciUdp C10E2E.httpShadowed ci' reply)).ok = true ∧
    (judgeC13 (obsOf C10E2E.ciUdp C10E2E.httpShadowed ci' reply)).nontrivial = true := by
  obtain ⟨r, h, hr, _⟩ := (C10E2E.http_e2e cfg C10E2E.envD C10E2E.ciUdp _ (by decide) (by decide +kernel)
    C10E2E.http_shadowed_witness.1).2.1
  subst hr
  exact ⟨_, _, _, h, C10E2E.http_shadowed_witness.2, by decide +kernel, by decide +kernel⟩

/-- an unknown method ("GEX / …") over UDP: not answered, non-trivial verdict -/
example (cfg : Cfg) (env : Env) (hd : DateOk env) : ∃ ci' tcb' reply,
    protoRepl cfg env C10E2E.ciUdp none "GEX / HTTP/1.1\r\n\r\n".toUTF8.toList = .ok (ci', tcb', reply) ∧
    (judgeC13 (obsOf C10E2E.ciUdp "GEX / HTTP/1.1\r\n\r\n".toUTF8.toList ci' reply)).ok = true ∧
    (judgeC13 (obsOf C10E2E.ciUdp "GEX / HTTP/1.1\r\n\r\n".toUTF8.toList ci' reply)).nontrivial = true := by
  have hid : refDatagramK2 "GEX / HTTP/1.1\r\n\r\n".toUTF8.toList = none := by decide +kernel
  have hdns : dnsParse "GEX / HTTP/1.1\r\n\r\n".toUTF8.toList = none := by decide +kernel
  have hr : protoRepl cfg env C10E2E.ciUdp none "GEX / HTTP/1.1\r\n\r\n".toUTF8.toList =
      .ok (C10E2E.ciUdp, none, none) := by
    rw [model_none cfg env _ _ (by decide), hid]
    simp only [hdns, Option.bind_none]
  exact ⟨_, _, _, hr, judgeC13_accepts_model cfg env _ _ none (.inl rfl) (by decide) hd _ _ _ hr, by decide +kernel⟩

/-- stream mode: "GET / HT" then "TP/1.1\r\n\r\n": the first segment gets a bare ACK, the second the 401; both
    observations are accepted, the second one non-trivially -/
example : ∃ t rs, C11.feed C18.cfgE C10E2E.envD C10E2E.ciTcp {}
      [("GET" : String).toUTF8.toList ++ 32 :: 47 :: " HT".toUTF8.toList, "TP/1.1\r\n\r\n".toUTF8.toList] = .ok (t, rs) ∧
    rs = [none, some (httpReplyBytes C10E2E.envD)] ∧
    (judgeC13 (obsOf C10E2E.ciTcp "GET / HTTP/1.1\r\n\r\n".toUTF8.toList C10E2E.ciTcp
      (some (httpReplyBytes C10E2E.envD)))).nontrivial = true := by
  have h : (match C11.feed C18.cfgE C10E2E.envD C10E2E.ciTcp {}
      [("GET" : String).toUTF8.toList ++ 32 :: 47 :: " HT".toUTF8.toList, "TP/1.1\r\n\r\n".toUTF8.toList] with
    | .ok (_, rs) => decide (rs = [none, some (httpReplyBytes C10E2E.envD)])
    | .error _ => false) = true := by decide +kernel
  split at h
  · rename_i t rs heq
    exact ⟨t, rs, heq, by simpa using h, by decide +kernel⟩
  · cases h

/-- `judgeC13s`: hypotheses on concrete terms, and non-trivial verdicts — the block stored after an answered
    request; `GET / …` answered again (non-trivially accepted), `BREW / …` and a junk byte not answered
    (non-trivially accepted), through the theorem for every configuration -/
example : FreshHttpState none ∧ FreshHttpState (some { protoId := ID_HTTP }) ∧
    FreshHttpState (some (C13.resetBlock { protoId := ID_HTTP, protoState := some (.http { state := .uri }) })) ∧
    C13.FreshHttp (C13.resetBlock { protoId := ID_HTTP }) :=
  ⟨.inl rfl, .inr ⟨_, rfl, .inl rfl⟩, .inr ⟨_, rfl, .inr rfl⟩, ⟨rfl, .inr rfl⟩⟩
example (cfg : Cfg) (t : Tcb) (hf : C13.FreshHttp t) : ∃ ci' tcb' reply,
    protoRepl cfg C10E2E.envD C10E2E.ciTcp (some t) getReq = .ok (ci', tcb', reply) ∧
    reply = some (httpReplyBytes C10E2E.envD) ∧
    (judgeC13s (obsOf C10E2E.ciTcp getReq ci' reply (some ID_HTTP))).ok = true ∧
    (judgeC13s (obsOf C10E2E.ciTcp getReq ci' reply (some ID_HTTP))).nontrivial = true := by
  have h := (C13.http_reply_block cfg C10E2E.envD C10E2E.ciTcp (by decide) t hf getReq
    ((C13.Aux.answered_iff_B _).2 (by decide +kernel))).1
  exact ⟨_, _, _, h, rfl,
    judgeC13s_accepts_model_repl cfg C10E2E.envD C10E2E.ciTcp (by decide) getReq t hf (by unfold DateOk; decide +kernel)
      _ _ _ h, by decide +kernel⟩
example (cfg : Cfg) (env : Env) (hd : DateOk env) (t : Tcb) (hf : C13.FreshHttp t) : ∃ ci' tcb',
    protoRepl cfg env C10E2E.ciTcp (some t) "BREW / HTTP/1.1\r\n\r\n".toUTF8.toList = .ok (ci', tcb', none) ∧
    (judgeC13s (obsOf C10E2E.ciTcp "BREW / HTTP/1.1\r\n\r\n".toUTF8.toList ci' none (some ID_HTTP))).ok = true ∧
    (judgeC13s (obsOf C10E2E.ciTcp "BREW / HTTP/1.1\r\n\r\n".toUTF8.toList ci' none (some ID_HTTP))).nontrivial = true := by
  obtain ⟨s, h, _⟩ := C13.http_later_junk_silent_block cfg env C10E2E.ciTcp (by decide) t hf
    "BREW / HTTP/1.1\r\n\r\n".toUTF8.toList (by decide +kernel)
  exact ⟨_, _, h, judgeC13s_accepts_model_repl cfg env C10E2E.ciTcp (by decide) _ t hf hd _ _ _ h, by decide +kernel⟩
/-- the judge does reject what the defect produced: the 401 page in reply to a junk byte or to an unknown
    method on an answered connection -/
example : (judgeC13s (obsOf C10E2E.ciTcp [120] C10E2E.ciTcp (some (httpReplyBytes C10E2E.envD)) (some ID_HTTP))).ok = false ∧
    (judgeC13s (obsOf C10E2E.ciTcp "BREW / HTTP/1.1\r\n\r\n".toUTF8.toList C10E2E.ciTcp
      (some (httpReplyBytes C10E2E.envD)) (some ID_HTTP))).ok = false ∧
    (judgeC13s (obsOf C10E2E.ciTcp getReq C10E2E.ciTcp none (some ID_HTTP))).ok = false := by decide +kernel

end Masscanned.C13Judge

#print axioms Masscanned.C13Judge.judgeC13_accepts_model_stream
#print axioms Masscanned.C13Judge.judgeC13_accepts_model
#print axioms Masscanned.C13Judge.judgeC13_gate_needed
#print axioms Masscanned.C13Judge.judgeC13_date_needed
#print axioms Masscanned.C13Judge.judgeC13_stream_after_answer_false
#print axioms Masscanned.C13Judge.judgeC13s_accepts_model
#print axioms Masscanned.C13Judge.judgeC13s_accepts_model_repl
#print axioms Masscanned.C13Judge.judgeC13s_date_needed
#print axioms Masscanned.C13Judge.judgeC13_sticky_false_other
#print axioms Masscanned.C13Judge.judgeC13_sticky_false_http
#print axioms Masscanned.C13Judge.sticky_id_http_iff
#print axioms Masscanned.C13Judge.sticky_first_never_http
#print axioms Masscanned.C13Judge.judgeC13_accepts_model_sticky_partial
#print axioms Masscanned.C13Judge.judgeC13_accepts_model_sticky_http_partial
