/-
  Thm/C13Judge — soundness of the run-time judge `Spec.judgeC13` (HTTP) with respect to the model.

  * `judgeC13_accepts_model`: datagram (`tcb = none`) / first segment of a TCP flow (`tcb = some {}`).
    Hypotheses: the SYN-cookie gate is open (`E2E.Gate ci`) and the date text of the environment contains
    neither CR nor LF (`DateOk env`).  Both are needed: `judgeC13_gate_needed`, `judgeC13_date_needed`.
    Requests of the grammar that lie in the matcher's shadow set (`C10E2E.http_shadowed_witness`) are
    covered: the judge does not consult the published reference, and HTTP itself is never shadowed.
  * `judgeC13_accepts_model_stream`: "stream" mode of the harness (a request cut into TCP segments after its
    signature `METHOD SP "/"`; each observation = cumulative byte stream so far + reply to the latest
    segment): accepted for every segment, by C11 (`http_seg_indep_partial`: that reply is the reply of the
    unsegmented cumulative stream) and the first-segment case.
  * Sticky observations (`forced = some id`): `judgeC13` does NOT look at `forced`, and is NOT sound there:
      - `judgeC13_sticky_false_other`: on a flow identified as SSH a later segment that is a complete HTTP
        request is (correctly) not answered by the SSH responder; the judge fails "complete HTTP request
        not answered";
      - `judgeC13_sticky_false_http`: on a flow identified as HTTP whose parser is in its initial state,
        "get / HTTP/1.1" (lower-case method) is answered — `http::repl` matches methods case-insensitively,
        only the dispatcher's signature is upper-case — and the judge fails "HTTP response to an unknown
        method".  (An HTTP flow never has a fresh parser after its first segment, so this needs a
        fabricated control block; the harness judges HTTP continuations in "stream" mode instead.)
    Strongest true variants: `judgeC13_accepts_model_sticky_partial` (id ≠ HTTP: accepted iff the segment
    is not a request of the strict grammar) and `judgeC13_accepts_model_sticky_http_partial` (id = HTTP,
    fresh parser state, segment on the dispatcher's domain `METHOD SP "/"…`).
    Both counterexamples are MOOT for the checking machinery, for two independent reasons:
      (a) harness (`/verif/harness/props.py`): `judge_lines` builds a `forced` observation only for an op tagged
          `meta.mode = sticky`, and `gen_appcases` tags ops so only in its `shape == 0` branch, which requires
          `kind ∈ {stun, ssh, smb1, smb2, ghost}`; property C13 runs `gen_appcases(['http','http','http','raw'])`,
          so no C13 observation ever carries `forced` — HTTP continuations are judged in "stream" mode;
      (b) model (`sticky_id_http_iff`, `sticky_first_never_http`): `forced` is the protocol id read from the
          flow's control block after its first segment; it is HTTP iff that segment starts with
          `METHOD SP "/"`.  The first segments of the harness's sticky flows start with "SSH-", "Gh0st", or a
          zero byte (STUN `00 01`, NetBIOS `00`), so `forced = some ID_HTTP` is never read — and a flow whose
          first segment does start with `METHOD SP "/"` has a parser state past the verb phase, not the
          fresh one of `judgeC13_sticky_false_http`.
-/
import Masscanned.Proofs.J3.Judge
import Masscanned.Proofs.J3.Stream
open Masscanned
namespace Masscanned.C13Judge
open Masscanned.Spec Masscanned.E2E Masscanned.J3

/-- the date text `http::repl` inserts (strftime of the wall clock) has no CR / LF -/
def DateOk (env : Env) : Prop := ∀ b ∈ env.httpDate, b ≠ 10 ∧ b ≠ 13

example : DateOk C10E2E.envD := by unfold DateOk; decide +kernel

/-- **`judgeC13` accepts the model** (datagram / first TCP segment) -/
theorem judgeC13_accepts_model (cfg : Cfg) (env : Env) (ci : ClientInfo) (p : Bytes) (tcb : Option Tcb)
    (ht : FreshTcb tcb) (hg : Gate ci) (hd : DateOk env) (ci' : ClientInfo) (tcb' : Option Tcb)
    (reply : Option Bytes) (h : protoRepl cfg env ci tcb p = .ok (ci', tcb', reply)) :
    (judgeC13 (obsOf ci p ci' reply)).ok = true := by
  rw [judgeC13_obs]
  dsimp only
  by_cases hst : strictRequest p = true
  · rw [if_pos hst]
    obtain ⟨_, ⟨r1, h1, _, ok1⟩, t, r2, h2, _, ok2, _⟩ := C10E2E.http_e2e cfg env ci p hg hd hst
    rcases ht with rfl | rfl
    · rw [h1] at h; simp only [Except.ok.injEq, Prod.mk.injEq] at h
      rw [← h.2.2]; simp only [ok1, if_true]; rfl
    · rw [h2] at h; simp only [Except.ok.injEq, Prod.mk.injEq] at h
      rw [← h.2.2]; simp only [ok2, if_true]; rfl
  · rw [if_neg hst]
    by_cases hrel : relaxedRequest p = true
    · simp only [hrel, Bool.not_true, Bool.false_eq_true, if_false]
      cases reply with
      | none => rfl
      | some r =>
        simp only
        by_cases hc : classify r = .http
        · obtain ⟨_, s, hs⟩ := http_class_origin ht h hc
          have hok : reply401Ok r = true := by rw [http_fresh_reply hs]; exact C13.http_reply_wf env hd
          simp only [hok, Bool.not_true, Bool.false_eq_true, and_false, if_false]
          rfl
        · simp only [hc, decide_false, Bool.false_eq_true, false_and, if_false]
          rfl
    · simp only [hrel, Bool.not_false, if_true]
      cases reply with
      | none => rfl
      | some r =>
        simp only
        by_cases hc : classify r = .http
        · exfalso
          obtain ⟨hid, s, hs⟩ := http_class_origin ht h hc
          obtain ⟨m, hm, r', rfl, h47⟩ := k2_http_inv p hid
          exact hrel (C13.answered_imp_relaxed env m hm r' h47 s r hs)
        · simp only [hc, decide_false, Bool.false_eq_true, if_false]
          rfl

/-! ### the hypotheses are needed -/

theorem judgeC13_gate_needed (cfg : Cfg) (env : Env) :
    ¬ Gate ciNoCookie ∧
    protoRepl cfg env ciNoCookie none "GET / HTTP/1.1\r\n\r\n".toUTF8.toList = .ok (ciNoCookie, none, none) ∧
    (judgeC13 (obsOf ciNoCookie "GET / HTTP/1.1\r\n\r\n".toUTF8.toList ciNoCookie none)).ok = false :=
  ⟨by decide, model_gate cfg env _ _ _ (by decide), by decide +kernel⟩

/-- a "date" with an empty line in it: the model's 401 is cut in two and the judge rejects it -/
def envBadDate : Env := { httpDate := [10, 10], unixSecs := 0 }

theorem judgeC13_date_needed (cfg : Cfg) :
    ¬ DateOk envBadDate ∧
    protoRepl cfg envBadDate C10E2E.ciUdp none "GET / HTTP/1.1\r\n\r\n".toUTF8.toList =
      .ok (C10E2E.ciUdp, none, some (httpReplyBytes envBadDate)) ∧
    (judgeC13 (obsOf C10E2E.ciUdp "GET / HTTP/1.1\r\n\r\n".toUTF8.toList C10E2E.ciUdp
      (some (httpReplyBytes envBadDate)))).ok = false := by
  refine ⟨by unfold DateOk; decide, ?_, by decide +kernel⟩
  have hid : refDatagramK2 "GET / HTTP/1.1\r\n\r\n".toUTF8.toList = some ID_HTTP := by decide +kernel
  obtain ⟨s, hs⟩ := C13.grammar_request_answered envBadDate "GET / HTTP/1.1\r\n\r\n".toUTF8.toList (by decide +kernel)
  rw [dispatch_datagram_K2 cfg envBadDate _ _ _ (by decide) hid, handle_http_none, hs]

/-! ### stream mode: the cumulative byte stream of a flow, judged against the reply to its latest segment -/

/-- **stream mode** (`judge_lines`, meta mode `stream`): a flow whose first segment contains the signature
    `METHOD SP "/"`; `C11.feed` feeds the segments one after the other through `proto::repl`, `rs` are the
    replies.  For every segment `k` the judge accepts the observation (cumulative stream up to and including
    segment `k`, reply to segment `k`). -/
theorem judgeC13_accepts_model_stream (cfg : Cfg) (env : Env) (ci : ClientInfo) (hg : Gate ci) (hd : DateOk env)
    (m : Bytes) (hm : m ∈ httpMethods) (a' : Bytes) (segs : List Bytes) (t : Tcb) (rs : List (Option Bytes))
    (hfeed : C11.feed cfg env ci {} ((m ++ 32 :: 47 :: a') :: segs) = .ok (t, rs))
    (k : Nat) (hk : k ≤ segs.length) (ci' : ClientInfo) :
    ∃ r, rs[k]? = some r ∧
      (judgeC13 (obsOf ci (((m ++ 32 :: 47 :: a') :: segs).take (k + 1)).flatten ci' r)).ok = true := by
  obtain ⟨R, hun, hrs⟩ := stream_reply cfg env ci m hm a' segs t rs hfeed k hk
  refine ⟨R, hrs, ?_⟩
  unfold C11.unseg at hun
  cases hp : protoRepl cfg env ci (some {}) (((m ++ 32 :: 47 :: a') :: segs).take (k + 1)).flatten with
  | error e => rw [hp] at hun; cases hun
  | ok x =>
    obtain ⟨c, t', r'⟩ := x
    rw [hp] at hun
    simp only [Except.ok.injEq] at hun
    subst hun
    have := judgeC13_accepts_model cfg env ci _ (some {}) (.inr rfl) hg hd c t' r' hp
    rw [judgeC13_obs] at this ⊢
    exact this

/-! ### sticky observations: the judge ignores `forced` -/

/-- "GET / HTTP/1.1\r\n\r\n" -/
def getReq : Bytes := "GET / HTTP/1.1\r\n\r\n".toUTF8.toList
/-- "get / HTTP/1.1\r\n\r\n" -/
def getLower : Bytes := "get / HTTP/1.1\r\n\r\n".toUTF8.toList

/-- FALSE ALARM (latent): a complete HTTP request as later segment of an SSH flow -/
theorem judgeC13_sticky_false_other (cfg : Cfg) (env : Env) (tcb : Option Tcb) :
    protoHandle cfg env ID_SSH C10E2E.ciTcp tcb getReq = .ok (C10E2E.ciTcp, tcb, none) ∧
    (judgeC13 (obsOf C10E2E.ciTcp getReq C10E2E.ciTcp none (some ID_SSH))).ok = false := by
  refine ⟨?_, by decide +kernel⟩
  rw [handle_ssh, C18.sshRepl_eq]
  have : C18.sshLang getReq = false := by decide +kernel
  rw [this]; rfl

/-- FALSE ALARM (latent, fabricated control block): lower-case method on an HTTP flow with a fresh parser -/
theorem judgeC13_sticky_false_http (cfg : Cfg) :
    protoHandle cfg C10E2E.envD ID_HTTP C10E2E.ciTcp none getLower =
      .ok (C10E2E.ciTcp, none, some (httpReplyBytes C10E2E.envD)) ∧
    (judgeC13 (obsOf C10E2E.ciTcp getLower C10E2E.ciTcp (some (httpReplyBytes C10E2E.envD)) (some ID_HTTP))).ok
      = false := by
  refine ⟨?_, by decide +kernel⟩
  have ha : C13.Aux.answeredB getLower = true := by decide +kernel
  obtain ⟨s, hs⟩ := C13.http_language_exec C10E2E.envD getLower
  rw [ha] at hs
  rw [handle_http_none, hs]
  rfl

/-- **which flows get the sticky id HTTP**: after the first segment `p` of a flow (gate open), the control block
    carries `ID_HTTP` iff `p` starts with an upper-case method, SP, "/" -/
theorem sticky_id_http_iff (cfg : Cfg) (env : Env) (ci ci' : ClientInfo) (t : Tcb) (p : Bytes) (r : Option Bytes)
    (hg : Gate ci) (h : protoRepl cfg env ci (some {}) p = .ok (ci', some t, r)) :
    t.protoId = ID_HTTP ↔ ∃ m ∈ httpMethods, ∃ r', p = m ++ 32 :: r' ∧ r'.head? = some 47 := by
  rw [sticky_id_of_first hg h]
  constructor
  · intro hid
    cases hs : refStreamK2 p with
    | none => rw [hs] at hid; cases hid
    | some i =>
      rw [hs] at hid
      simp only [Option.getD_some] at hid
      subst hid
      exact k2_http_inv p hs
  · rintro ⟨m, hm, r', hp, h47⟩
    rw [(http_ident p m r' hm hp h47).1]
    rfl

/-- the first segments of the harness's sticky flows (`gen_ssh`: "SSH-…", `gen_ghost`: "Gh0st…", `gen_stun_long`:
    `00 01 …`, `gen_smb1` / `gen_smb2`: NetBIOS type `00`) never produce the sticky id HTTP: the observations of
    `judgeC13_sticky_false_http` (`forced = some ID_HTTP`) are never built -/
theorem sticky_first_never_http (cfg : Cfg) (env : Env) (ci ci' : ClientInfo) (t : Tcb) (p : Bytes)
    (r : Option Bytes) (hg : Gate ci) (h : protoRepl cfg env ci (some {}) p = .ok (ci', some t, r))
    (hp : sshMagic.isPrefixOf p = true ∨ gh5.isPrefixOf p = true ∨ p.head? = some 0) :
    t.protoId ≠ ID_HTTP := by
  intro hid
  obtain ⟨m, hm, r', rfl, _⟩ := (sticky_id_http_iff cfg env ci ci' t p r hg h).1 hid
  obtain ⟨hl, h1, h2, h3⟩ := methods_heads m hm
  have htake : (m ++ 32 :: r').take 2 = m.take 2 := by
    rw [List.take_append_of_le_length (by omega)]
  rcases hp with hp | hp | hp
  · rw [List.isPrefixOf_iff_prefix] at hp
    obtain ⟨x, hx⟩ := hp
    apply h1
    rw [← htake, ← hx]; rfl
  · rw [List.isPrefixOf_iff_prefix] at hp
    obtain ⟨x, hx⟩ := hp
    apply h2
    rw [← htake, ← hx]; rfl
  · apply h3
    cases m with
    | nil => simp at hl
    | cons b tl => simpa using hp

/-- sticky, id ≠ HTTP (strongest true variant): accepted whenever the segment is not a request of the strict
    grammar; no other handler's reply is mistaken for an HTTP response -/
theorem judgeC13_accepts_model_sticky_partial (cfg : Cfg) (env : Env) (id : Nat) (ci : ClientInfo) (p : Bytes)
    (tcb : Option Tcb) (hid : id ≠ ID_HTTP) (hns : strictRequest p = false)
    (ci' : ClientInfo) (tcb' : Option Tcb) (reply : Option Bytes)
    (h : protoHandle cfg env id ci tcb p = .ok (ci', tcb', reply)) :
    (judgeC13 (obsOf ci p ci' reply (some id))).ok = true := by
  rw [judgeC13_obs]
  dsimp only
  simp only [hns, Bool.false_eq_true, if_false]
  have hc : ∀ r, reply = some r → classify r ≠ .http := by
    intro r hr hc
    subst hr
    have := (classify_http_iff r).1 hc
    rw [handle_not_http hid h] at this
    cases this
  cases reply with
  | none => split <;> rfl
  | some r =>
    simp only [hc r rfl, decide_false, Bool.false_eq_true, false_and, if_false]
    split <;> rfl

/-- sticky, id = HTTP with a fresh parser state, segment on the dispatcher's domain -/
theorem judgeC13_accepts_model_sticky_http_partial (cfg : Cfg) (env : Env) (ci : ClientInfo) (tcb : Option Tcb)
    (m r : Bytes) (hm : m ∈ httpMethods) (h47 : r.head? = some 47) (hd : DateOk env)
    (hfresh : tcb = none ∨ ∃ st, tcb = some { ({} : Tcb) with protoId := ID_HTTP, smackState := st })
    (ci' : ClientInfo) (tcb' : Option Tcb) (reply : Option Bytes)
    (h : protoHandle cfg env ID_HTTP ci tcb (m ++ 32 :: r) = .ok (ci', tcb', reply)) :
    (judgeC13 (obsOf ci (m ++ 32 :: r) ci' reply (some ID_HTTP))).ok = true := by
  obtain ⟨s, hs⟩ : ∃ s, httpRepl env {} (m ++ 32 :: r) = .ok (s, reply) := by
    rcases hfresh with rfl | ⟨st, rfl⟩
    · obtain ⟨s, hs, _⟩ := http_arm_none h; exact ⟨s, hs⟩
    · obtain ⟨s, hs, _⟩ := http_arm_fresh h; exact ⟨s, hs⟩
  rw [judgeC13_obs]
  dsimp only
  by_cases hrel : relaxedRequest (m ++ 32 :: r) = true
  · obtain ⟨s', hs'⟩ := C13.relaxed_request_answered env _ hrel
    rw [hs] at hs'
    simp only [Except.ok.injEq, Prod.mk.injEq] at hs'
    rw [hs'.2]
    have hok := C13.http_reply_wf env hd
    simp only [hok, if_true, hrel, Bool.not_true, Bool.false_eq_true, and_false, if_false]
    split <;> rfl
  · have hns : strictRequest (m ++ 32 :: r) = false := by
      cases hq : strictRequest (m ++ 32 :: r) with
      | false => rfl
      | true => exact absurd (C13.strict_subset_relaxed _ hq) hrel
    simp only [hns, Bool.false_eq_true, if_false, hrel, Bool.not_false, if_true]
    cases reply with
    | none => rfl
    | some x => exact absurd (C13.answered_imp_relaxed env m hm r h47 s x hs) hrel

/-! ### non-vacuity -/

example : Gate C10E2E.ciUdp ∧ Gate C10E2E.ciTcp ∧ FreshTcb none ∧ FreshTcb (some {}) :=
  ⟨by decide, by decide, .inl rfl, .inr rfl⟩

/-- "GET / HTTP/1.1\r\nHost: a\r\n\r\n" as first segment of a TCP flow: answered, verdict ok and non-trivial -/
example (cfg : Cfg) : ∃ ci' tcb' reply,
    protoRepl cfg C10E2E.envD C10E2E.ciTcp (some {}) "GET / HTTP/1.1\r\nHost: a\r\n\r\n".toUTF8.toList =
      .ok (ci', tcb', reply) ∧
    (judgeC13 (obsOf C10E2E.ciTcp "GET / HTTP/1.1\r\nHost: a\r\n\r\n".toUTF8.toList ci' reply)).ok = true ∧
    (judgeC13 (obsOf C10E2E.ciTcp "GET / HTTP/1.1\r\nHost: a\r\n\r\n".toUTF8.toList ci' reply)).nontrivial = true := by
  obtain ⟨t, r, h, hr, _⟩ := (C10E2E.http_e2e cfg C10E2E.envD C10E2E.ciTcp _ (by decide) (by decide +kernel)
    (by decide +kernel : strictRequest "GET / HTTP/1.1\r\nHost: a\r\n\r\n".toUTF8.toList = true)).2.2
  subst hr
  exact ⟨_, _, _, h, by decide +kernel, by decide +kernel⟩

/-- the request of the grammar that lies in the matcher's shadow set: accepted all the same -/
example (cfg : Cfg) : ∃ ci' tcb' reply,
    protoRepl cfg C10E2E.envD C10E2E.ciUdp none C10E2E.httpShadowed = .ok (ci', tcb', reply) ∧
    shadowed C10E2E.httpShadowed = true ∧
    (judgeC13 (obsOf C10E2E.ciUdp C10E2E.httpShadowed ci' reply)).ok = true ∧
    (judgeC13 (obsOf C10E2E.ciUdp C10E2E.httpShadowed ci' reply)).nontrivial = true := by
  obtain ⟨r, h, hr, _⟩ := (C10E2E.http_e2e cfg C10E2E.envD C10E2E.ciUdp _ (by decide) (by decide +kernel)
    C10E2E.http_shadowed_witness.1).2.1
  subst hr
  exact ⟨_, _, _, h, C10E2E.http_shadowed_witness.2, by decide +kernel, by decide +kernel⟩

/-- an unknown method ("GEX / …") over UDP: not answered, non-trivial verdict -/
example (cfg : Cfg) (env : Env) (hd : DateOk env) : ∃ ci' tcb' reply,
    protoRepl cfg env C10E2E.ciUdp none "GEX / HTTP/1.1\r\n\r\n".toUTF8.toList = .ok (ci', tcb', reply) ∧
    (judgeC13 (obsOf C10E2E.ciUdp "GEX / HTTP/1.1\r\n\r\n".toUTF8.toList ci' reply)).ok = true ∧
    (judgeC13 (obsOf C10E2E.ciUdp "GEX / HTTP/1.1\r\n\r\n".toUTF8.toList ci' reply)).nontrivial = true := by
  have hid : refDatagramK2 "GEX / HTTP/1.1\r\n\r\n".toUTF8.toList = none := by decide +kernel
  have hdns : dnsParse "GEX / HTTP/1.1\r\n\r\n".toUTF8.toList = none := by decide +kernel
  have hr : protoRepl cfg env C10E2E.ciUdp none "GEX / HTTP/1.1\r\n\r\n".toUTF8.toList =
      .ok (C10E2E.ciUdp, none, none) := by
    rw [model_none cfg env _ _ (by decide), hid]
    simp only [hdns, Option.bind_none]
  exact ⟨_, _, _, hr, judgeC13_accepts_model cfg env _ _ none (.inl rfl) (by decide) hd _ _ _ hr, by decide +kernel⟩

/-- stream mode: "GET / HT" then "TP/1.1\r\n\r\n": the first segment gets a bare ACK, the second the 401; both
    observations are accepted, the second one non-trivially -/
example : ∃ t rs, C11.feed C18.cfgE C10E2E.envD C10E2E.ciTcp {}
      [("GET" : String).toUTF8.toList ++ 32 :: 47 :: " HT".toUTF8.toList, "TP/1.1\r\n\r\n".toUTF8.toList] = .ok (t, rs) ∧
    rs = [none, some (httpReplyBytes C10E2E.envD)] ∧
    (judgeC13 (obsOf C10E2E.ciTcp "GET / HTTP/1.1\r\n\r\n".toUTF8.toList C10E2E.ciTcp
      (some (httpReplyBytes C10E2E.envD)))).nontrivial = true := by
  have h : (match C11.feed C18.cfgE C10E2E.envD C10E2E.ciTcp {}
      [("GET" : String).toUTF8.toList ++ 32 :: 47 :: " HT".toUTF8.toList, "TP/1.1\r\n\r\n".toUTF8.toList] with
    | .ok (_, rs) => decide (rs = [none, some (httpReplyBytes C10E2E.envD)])
    | .error _ => false) = true := by decide +kernel
  split at h
  · rename_i t rs heq
    exact ⟨t, rs, heq, by simpa using h, by decide +kernel⟩
  · cases h

end Masscanned.C13Judge

#print axioms Masscanned.C13Judge.judgeC13_accepts_model_stream
#print axioms Masscanned.C13Judge.judgeC13_accepts_model
#print axioms Masscanned.C13Judge.judgeC13_gate_needed
#print axioms Masscanned.C13Judge.judgeC13_date_needed
#print axioms Masscanned.C13Judge.judgeC13_sticky_false_other
#print axioms Masscanned.C13Judge.judgeC13_sticky_false_http
#print axioms Masscanned.C13Judge.sticky_id_http_iff
#print axioms Masscanned.C13Judge.sticky_first_never_http
#print axioms Masscanned.C13Judge.judgeC13_accepts_model_sticky_partial
#print axioms Masscanned.C13Judge.judgeC13_accepts_model_sticky_http_partial
