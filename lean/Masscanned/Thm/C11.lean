/-
  Thm/C11 — property C11: "For the protocols parsed incrementally across TCP segments (HTTP, ONC-RPC
  over TCP), whether the first request on a flow is answered, the stream byte at which the reply is
  triggered, and the reply's content depend only on the byte stream, not on how it is cut into
  segments. Nothing but bare ACKs is sent before the request is complete, and exactly the segment
  that completes it carries the reply."

  The unrestricted statement is FALSE (finding K3, `c11_full_false`): the protocol id is found
  incrementally across segments (`ident_incremental`, `ident_segmentation_indep`), but the handler is
  then called with the CURRENT segment only, so the bytes of a signature cut by the first segment
  boundary never reach the parser.  Proved here: the statement for every segmentation whose first
  (non-empty: `seg_indep_leading_empty`) segment contains the whole signature
  (`http_seg_indep_partial`: first segment = METHOD SP "/" …; `rpc_seg_indep_partial`: the matcher reports
  RPC-over-TCP within the first segment), `two_segmentations` (any two such segmentations of one stream
  agree), and the TCP layer around it (`tcp_flow_segments`: bare ACK / PSH|ACK + reply, ack = seq + len).

  Vocabulary (`Proofs/C11/Feed.lean`): `feed` (segments of one flow through `proto::repl`, the block
  updated in place as `tcp::repl` does), `unseg` (the stream as one segment on a fresh block), `trig`
  (least prefix length the unsegmented parser answers), `begOff`/`endOff`; the conclusion comes in two
  strengths:
  * `SegIndepFirst` (`Proofs/RpcFix/SegFirst.lean`) — exactly what the property says about the FIRST
    request: bare ACKs before the trigger position, the segment containing the trigger byte carries the
    reply of the unsegmented stream; nothing about later segments.  All corollaries of §2 need only this.
  * `SegIndep` (⇒ `SegIndepFirst`, `SegIndep.first`) — in addition every LATER segment is answered with
    the same reply again.  It WAS true of both responders while they kept the parser in its final state
    after a reply (ONC-RPC: the stale-reply defect; HTTP: every later segment — an unknown method, a junk
    byte — answered with the 401 page again, formerly `http_after_completion_repeats`).  Since the repairs
    (the stored state is reset after a reply: `C16.rpc_tcp_state_reset`, `C13.http_state_reset`) later
    segments start the NEXT request, `SegIndep` is false for ONC-RPC (`rpc_later_segments_not_repeated`)
    and for HTTP (`http_later_segments_not_repeated`), and the theorems of §3 and §4 conclude
    `SegIndepFirst`.  `SegIndep` is no longer the conclusion of any protocol theorem: it remains as the
    vocabulary of these two negative statements and of `c11_full_false` (and holds trivially without a
    cookie, `segIndep_nocookie`).  How LATER requests are answered does depend on the segmentation
    (`rpc_later_calls_depend_on_cut`, `http_later_requests_depend_on_cut`: bytes following a request in
    the same segment are dropped) — outside the property, which speaks of the first request; what holds
    for later requests sent one per segment is `C16.rpc_tcp_calls_all_answered` /
    `C13.http_requests_all_answered`.
  Helper lemmas: `Proofs/C11/{Ident,Feed,Proto,Tcp}.lean`, `Proofs/RpcFix/SegFirst.lean`.
-/
import Masscanned.Proofs.C11.Proto
import Masscanned.Proofs.C11.Tcp
open Masscanned
namespace Masscanned.C11
open Aux

/-! ## 1. the vocabulary, unfolded -/

theorem feed_cons (cfg : Cfg) (env : Env) (ci : ClientInfo) (t : Tcb) (d : Bytes) (ds : List Bytes) :
    feed cfg env ci t (d :: ds) =
      match protoRepl cfg env ci (some t) d with
      | .error e => .error e
      | .ok (_, t', r) =>
        match feed cfg env ci (t'.getD t) ds with
        | .error e => .error e
        | .ok (t'', rs) => .ok (t'', r :: rs) := by
  rw [feed]
  cases protoRepl cfg env ci (some t) d with
  | error e => rfl
  | ok p =>
    obtain ⟨c, t', r⟩ := p
    dsimp only
    cases feed cfg env ci (t'.getD t) ds with
    | error e => rfl
    | ok q => obtain ⟨a, b⟩ := q; rfl

/-- `trig s = some n` iff `n ≤ |s|` is the least prefix length the unsegmented parser answers -/
theorem trig_eq_some_iff (cfg : Cfg) (env : Env) (ci : ClientInfo) (s : Bytes) (n : Nat) :
    trig cfg env ci s = some n ↔
      n ≤ s.length ∧ answers cfg env ci (s.take n) = true ∧ ∀ j, j < n → answers cfg env ci (s.take j) = false := by
  constructor
  · intro h
    obtain ⟨_, h2, h3, h4⟩ := leastFrom_some _ _ _ _ h
    exact ⟨by omega, h3, fun j hj => h4 j (Nat.zero_le _) hj⟩
  · rintro ⟨h1, h2, h3⟩
    exact leastFrom_eq_some _ _ _ _ (Nat.zero_le _) (by omega) h2 (fun j _ hj => h3 j hj)

theorem trig_eq_none_iff (cfg : Cfg) (env : Env) (ci : ClientInfo) (s : Bytes) :
    trig cfg env ci s = none ↔ ∀ j, j ≤ s.length → answers cfg env ci (s.take j) = false := by
  constructor
  · intro h j hj
    exact leastFrom_none _ _ _ h j (Nat.zero_le _) (by omega)
  · intro h
    cases ht : trig cfg env ci s with
    | none => rfl
    | some n =>
      obtain ⟨h1, h2, _⟩ := (trig_eq_some_iff cfg env ci s n).1 ht
      rw [h n h1] at h2; cases h2

/-! ## 2. what `SegIndepFirst` says (protocol-independent corollaries; `SegIndep` implies it) -/

/-- (i) every segment that ends before the trigger position gets a bare ACK -/
theorem bare_acks_before_trigger {cfg : Cfg} {env : Env} {ci : ClientInfo} {all : List Bytes}
    (h : SegIndepFirst cfg env ci all) {t : Tcb} {rs : List (Option Bytes)}
    (hfeed : feed cfg env ci {} all = .ok (t, rs)) {n : Nat} (htr : trig cfg env ci all.flatten = some n)
    (k : Nat) (hk : k < all.length) (hend : endOff all k < n) : rs[k]? = some none := by
  obtain ⟨t', rs', R, h1, _, _, h4⟩ := h
  rw [hfeed] at h1
  simp only [Except.ok.injEq, Prod.mk.injEq] at h1
  obtain ⟨_, e⟩ := h1
  subst e
  rw [htr] at h4
  exact (h4.2.2.2 k hk).1 hend

/-- (ii) the segment containing the trigger byte (stream byte number `n`, 1-based) gets exactly the
    reply the unsegmented stream gets, and that is a reply -/
theorem reply_at_trigger {cfg : Cfg} {env : Env} {ci : ClientInfo} {all : List Bytes}
    (h : SegIndepFirst cfg env ci all) {t : Tcb} {rs : List (Option Bytes)}
    (hfeed : feed cfg env ci {} all = .ok (t, rs)) {n : Nat} (htr : trig cfg env ci all.flatten = some n)
    {R : Option Bytes} (hR : unseg cfg env ci all.flatten = .ok R)
    (k : Nat) (hk : k < all.length) (hbeg : begOff all k < n) (hend : n ≤ endOff all k) :
    rs[k]? = some R ∧ R ≠ none := by
  obtain ⟨t', rs', R', h1, _, h3, h4⟩ := h
  rw [hfeed] at h1
  simp only [Except.ok.injEq, Prod.mk.injEq] at h1
  obtain ⟨_, e⟩ := h1
  subst e
  rw [hR] at h3
  simp only [Except.ok.injEq] at h3
  subst h3
  rw [htr] at h4
  exact ⟨(h4.2.2.2 k hk).2 hbeg hend, h4.1⟩

/-- (iii) without a trigger position no segment is answered (and neither is the unsegmented stream) -/
theorem no_trigger_no_reply {cfg : Cfg} {env : Env} {ci : ClientInfo} {all : List Bytes}
    (h : SegIndepFirst cfg env ci all) {t : Tcb} {rs : List (Option Bytes)}
    (hfeed : feed cfg env ci {} all = .ok (t, rs)) (htr : trig cfg env ci all.flatten = none) :
    unseg cfg env ci all.flatten = .ok none ∧ ∀ k, k < all.length → rs[k]? = some none := by
  obtain ⟨t', rs', R, h1, _, h3, h4⟩ := h
  rw [hfeed] at h1
  simp only [Except.ok.injEq, Prod.mk.injEq] at h1
  obtain ⟨_, e⟩ := h1
  subst e
  rw [htr] at h4
  rw [h3, h4.1]
  exact ⟨rfl, h4.2⟩

/-- "exactly the segment that completes the request carries the reply": there is a segment `k`
    containing the trigger byte; all earlier segments get bare ACKs; segment `k` gets the reply `R`
    of the unsegmented stream -/
theorem first_reply_segment {cfg : Cfg} {env : Env} {ci : ClientInfo} {all : List Bytes}
    (h : SegIndepFirst cfg env ci all) {n : Nat} (htr : trig cfg env ci all.flatten = some n) :
    ∃ t rs R k, feed cfg env ci {} all = .ok (t, rs) ∧ unseg cfg env ci all.flatten = .ok R ∧ R ≠ none ∧
      k < all.length ∧ begOff all k < n ∧ n ≤ endOff all k ∧
      (∀ j, j < k → rs[j]? = some none) ∧ rs[k]? = some R := by
  obtain ⟨t, rs, R, h1, _, h3, h4⟩ := h
  rw [htr] at h4
  obtain ⟨hR, hpos, hle, hall⟩ := h4
  obtain ⟨k, hk, hb, he⟩ := exists_segment all n hpos hle
  refine ⟨t, rs, R, k, h1, h3, hR, hk, hb, he, ?_, (hall k hk).2 hb he⟩
  intro j hj
  refine (hall j (by omega)).1 ?_
  have : endOff all j ≤ begOff all k := by
    cases k with
    | zero => omega
    | succ k => rw [begOff_succ]; exact endOff_mono all j k (by omega)
  omega

/-- **two segmentations of the same stream** that both satisfy `SegIndepFirst` agree on everything the
    property names: whether the stream is answered (`trig`), the stream byte `n` that triggers the reply,
    the reply `R`; in each, the first answered segment is the one containing byte `n`. -/
theorem two_segmentations {cfg : Cfg} {env : Env} {ci : ClientInfo} {all₁ all₂ : List Bytes}
    (h₁ : SegIndepFirst cfg env ci all₁) (h₂ : SegIndepFirst cfg env ci all₂) (he : all₁.flatten = all₂.flatten) :
    ∃ t₁ rs₁ t₂ rs₂, feed cfg env ci {} all₁ = .ok (t₁, rs₁) ∧ feed cfg env ci {} all₂ = .ok (t₂, rs₂) ∧
      match trig cfg env ci all₁.flatten with
      | none => (∀ k, k < all₁.length → rs₁[k]? = some none) ∧ (∀ k, k < all₂.length → rs₂[k]? = some none)
      | some n => ∃ R k₁ k₂, R ≠ none ∧
          (k₁ < all₁.length ∧ begOff all₁ k₁ < n ∧ n ≤ endOff all₁ k₁ ∧
            (∀ j, j < k₁ → rs₁[j]? = some none) ∧ rs₁[k₁]? = some R) ∧
          (k₂ < all₂.length ∧ begOff all₂ k₂ < n ∧ n ≤ endOff all₂ k₂ ∧
            (∀ j, j < k₂ → rs₂[j]? = some none) ∧ rs₂[k₂]? = some R) := by
  cases htr : trig cfg env ci all₁.flatten with
  | none =>
    obtain ⟨t₁, rs₁, _, f₁, _, _, _⟩ := id h₁
    obtain ⟨t₂, rs₂, _, f₂, _, _, _⟩ := id h₂
    exact ⟨t₁, rs₁, t₂, rs₂, f₁, f₂, (no_trigger_no_reply h₁ f₁ htr).2,
      (no_trigger_no_reply h₂ f₂ (he ▸ htr)).2⟩
  | some n =>
    obtain ⟨t₁, rs₁, R₁, k₁, f₁, u₁, ne₁, a₁, b₁, c₁, d₁, e₁⟩ := first_reply_segment h₁ htr
    obtain ⟨t₂, rs₂, R₂, k₂, f₂, u₂, _, a₂, b₂, c₂, d₂, e₂⟩ := first_reply_segment h₂ (he ▸ htr)
    rw [he, u₂] at u₁
    simp only [Except.ok.injEq] at u₁
    subst u₁
    exact ⟨t₁, rs₁, t₂, rs₂, f₁, f₂, R₂, k₁, k₂, ne₁, ⟨a₁, b₁, c₁, d₁, e₁⟩, ⟨a₂, b₂, c₂, d₂, e₂⟩⟩

/-- leading empty segments (PSH|ACK without payload) do not matter: the hypothesis "the first segment
    contains the signature" of the theorems below can be read "the first NON-EMPTY segment" -/
theorem seg_indep_leading_empty (cfg : Cfg) (env : Env) (ci : ClientInfo) (all : List Bytes)
    (h : SegIndep cfg env ci all) (j : Nat) : SegIndep cfg env ci (List.replicate j [] ++ all) := by
  induction j with
  | zero => exact h
  | succ j ih => exact segIndep_cons_nil cfg env ci _ ih

theorem seg_indep_first_leading_empty (cfg : Cfg) (env : Env) (ci : ClientInfo) (all : List Bytes)
    (h : SegIndepFirst cfg env ci all) (j : Nat) : SegIndepFirst cfg env ci (List.replicate j [] ++ all) := by
  induction j with
  | zero => exact h
  | succ j ih => exact segIndepFirst_cons_nil cfg env ci _ (protoRepl_fresh_nil cfg env ci) ih

/-! ## 3. HTTP -/

/-- **C11 for HTTP (partial: first segment contains the signature `METHOD SP /`)**: for each of the
    nine methods `m`, every continuation `a'` of the first segment and every list `segs` of further
    segments (empty ones allowed), feeding the segments never panics and the replies of the FIRST request
    are determined by the stream alone: bare ACKs before the trigger position, the unsegmented reply on
    the segment containing it, nothing if there is no trigger position (`SegIndepFirst`).  Holds for every
    client info.  Since `http::repl` resets the stored parser state after a reply, the segments after the
    one carrying the reply belong to the next request and `SegIndep` no longer holds
    (`http_later_segments_not_repeated`; see `C13.http_requests_all_answered`). -/
theorem http_seg_indep_partial (cfg : Cfg) (env : Env) (ci : ClientInfo) (m : Bytes) (hm : m ∈ Spec.httpMethods)
    (a' : Bytes) (segs : List Bytes) : SegIndepFirst cfg env ci ((m ++ 32 :: 47 :: a') :: segs) := by
  by_cases hc : HasCookie ci
  · have e : m ++ 32 :: 47 :: a' = (m ++ [32, 47]) ++ a' := by simp
    rw [e]
    exact segIndepFirst_of_sig cfg env ci (m ++ [32, 47]) (httpBlock m) (httpOut env) HttpBlockInv
      (fun x => ⟨ci, http_fresh cfg env ci hc m hm x⟩) (fun x d hx => ⟨ci, http_step cfg env ci hc m x d hx⟩)
      (fun x => httpBlock_inv m x) (fun t d ht => http_total cfg env ci hc t d ht)
      (fun n hn => protoRepl_short cfg env ci hc (http_sig m hm) n hn) (sig_ne_nil (http_sig m hm))
      (http_mono env) a' segs
  · exact (segIndep_nocookie cfg env ci hc _).first

/-- the unsegmented parser on a prefix of such a stream: answered iff the prefix contains the
    signature and the byte FSM, started after the method, has reached CONTENT; always the 401 reply.
    So the trigger position is a function of the FSM alone (its language is `C13.fsm_language`). -/
theorem http_unseg_prefix (cfg : Cfg) (env : Env) (ci : ClientInfo) (hc : HasCookie ci) (m : Bytes)
    (hm : m ∈ Spec.httpMethods) (x : Bytes) (n : Nat) :
    unseg cfg env ci ((m ++ 32 :: 47 :: x).take n) =
      .ok (if m.length + 2 ≤ n ∧ httpFold .space (32 :: 47 :: x.take (n - (m.length + 2))) = .content
           then some (httpReplyBytes env) else none) := by
  have e : m ++ 32 :: 47 :: x = (m ++ [32, 47]) ++ x := by simp
  have hl : (m ++ [32, 47]).length = m.length + 2 := by simp
  rw [e]
  unfold unseg
  by_cases hn : m.length + 2 ≤ n
  · rw [List.take_append, List.take_of_length_le (by omega), hl, http_fresh cfg env ci hc m hm]
    simp only [httpOut, hn, true_and]
  · obtain ⟨ci', t', hs⟩ := protoRepl_short cfg env ci hc (http_sig m hm) n (by omega)
    rw [List.take_append_of_le_length (by omega), hs]
    simp only [hn, false_and, if_false]

/-- the reply carried by the completing segment is the 401 response -/
theorem http_seg_reply (cfg : Cfg) (env : Env) (ci : ClientInfo) (m : Bytes) (hm : m ∈ Spec.httpMethods)
    (x : Bytes) (R : Option Bytes) (hR : unseg cfg env ci (m ++ 32 :: 47 :: x) = .ok R) (hne : R ≠ none) :
    R = some (httpReplyBytes env) := by
  by_cases hc : HasCookie ci
  · have := http_unseg_prefix cfg env ci hc m hm x (m ++ 32 :: 47 :: x).length
    rw [List.take_length, hR] at this
    simp only [Except.ok.injEq] at this
    rw [this] at hne ⊢
    split
    · rfl
    · rename_i h; rw [if_neg h] at hne; exact absurd rfl hne
  · unfold unseg at hR
    rw [protoRepl_nocookie cfg env ci hc] at hR
    simp only [Except.ok.injEq] at hR
    exact absurd hR.symm hne

/-- once the request is complete and answered, the parser state stored in the flow's block is the
    INITIAL one (whatever the state `ps` before): the reply is the 401 response, the block is otherwise
    unchanged, and it is a block on which the next segment is parsed as a new request
    (`C13.FreshHttp`: `C13.http_reply_block`, `C13.http_later_junk_silent_block`).
    (Replaces `http_after_completion_repeats`: before the repair of `http::repl` the state CONTENT was
    kept and every further segment of the flow, whatever it contained, got the 401 response again.) -/
theorem http_after_completion_reset (cfg : Cfg) (env : Env) (ci : ClientInfo) (hc : HasCookie ci) (t : Tcb)
    (hid : t.protoId = PROTO_HTTP) (ps : HttpSt) (hps : t.protoState = some (.http ps)) (d r : Bytes)
    (ci' : ClientInfo) (t' : Option Tcb) (h : protoRepl cfg env ci (some t) d = .ok (ci', t', some r)) :
    r = httpReplyBytes env ∧ t' = some (C13.resetBlock t) ∧ C13.FreshHttp (C13.resetBlock t) := by
  rw [protoRepl_identified cfg env ci hc t (by rw [hid]; decide), hid,
    protoHandle_http_cont cfg env ci t ps hps] at h
  cases hq : httpRepl env ps d with
  | error e => rw [hq] at h; cases h
  | ok q =>
    obtain ⟨s', o⟩ := q
    rw [hq] at h
    simp only [Except.ok.injEq, Prod.mk.injEq] at h
    obtain ⟨_, h2, h3⟩ := h
    subst h3
    obtain ⟨e1, e2⟩ := C13.http_state_reset env ps s' d r hq
    subst e1
    exact ⟨e2, h2.symm, C13.freshHttp_resetBlock hid⟩

/-! ## 4. ONC-RPC over TCP -/

/-- the signature form: the first segment is `sg ++ a'` where the matcher completes the RPC-over-TCP
    signature exactly on `sg`.  Conclusion `SegIndepFirst` (the first call): since `repl_tcp` resets the
    stored parser state after a reply, the segments after the one carrying the reply belong to the next
    call and `SegIndep` no longer holds (`rpc_later_segments_not_repeated`). -/
theorem rpc_seg_indep_sig (cfg : Cfg) (env : Env) (ci : ClientInfo) (ip : Ip) (port : Nat)
    (hip : ci.ipDst = some ip) (hport : ci.portDst = some port) (sg : Bytes) (st : Nat)
    (hsig : Sig sg PROTO_RPC_TCP st) (a' : Bytes) (segs : List Bytes) :
    SegIndepFirst cfg env ci ((sg ++ a') :: segs) := by
  by_cases hc : HasCookie ci
  · exact segIndepFirst_of_sig cfg env ci sg (rpcBlock cfg.ovf sg st)
      (fun x => rpcOut cfg.ovf ci (rpcSt cfg.ovf (sg ++ x))) RpcBlockInv
      (fun x => ⟨ci, rpc_fresh cfg env ci hc ip port hip hport sg st hsig x⟩)
      (fun x d hx => ⟨ci, rpc_step cfg env ci hc ip port hip hport sg st x d hx⟩)
      (fun x => rpcBlock_inv cfg.ovf sg st x)
      (fun t d ht => rpc_total cfg env ci hc ip port hip hport t d ht)
      (fun n hn => protoRepl_short cfg env ci hc hsig n hn) (sig_ne_nil hsig)
      (fun x y h => rpc_mono cfg.ovf ci sg x y h) a' segs
  · exact (segIndep_nocookie cfg env ci hc _).first

/-- **C11 for ONC-RPC over TCP (partial: the matcher identifies the protocol within the first
    segment)**: for ANY first segment `a` on which `search_next` reports `PROTO_RPC_TCP` — i.e. any
    segmentation whose first cut is at or after the end of the signature as determined by the matcher —
    and any further segments, with and without overflow checks: never a panic, bare ACKs before the
    trigger position of the first call, the unsegmented reply on the segment containing it
    (`SegIndepFirst`; the further segments are the next calls, see `C16.rpc_tcp_calls_all_answered`).
    (`ipDst`/`portDst` are always set when `tcp::repl` hands data up; without them `build_repl` panics on
    `.unwrap()`.) -/
theorem rpc_seg_indep_partial (cfg : Cfg) (env : Env) (ci : ClientInfo) (ip : Ip) (port : Nat)
    (hip : ci.ipDst = some ip) (hport : ci.portDst = some port) (a : Bytes) (st n : Nat)
    (hid : protoTbl.searchNext baseState a = .ok (PROTO_RPC_TCP, st, n)) (segs : List Bytes) :
    SegIndepFirst cfg env ci (a :: segs) := by
  obtain ⟨hsig, _⟩ := sig_of_found hid (by decide)
  have := rpc_seg_indep_sig cfg env ci ip port hip hport (a.take n) st hsig (a.drop n) segs
  rwa [List.take_append_drop] at this

/-- the reply carried by the completing segment is `repl_tcp`'s reply in the parser state reached on
    the whole stream; within one segment it does not change with further bytes
    (`C16.rpc_tcp_trailing_ignored`; `rpc_mono`) -/
theorem rpc_seg_reply (cfg : Cfg) (env : Env) (ci : ClientInfo) (hc : HasCookie ci) (ip : Ip) (port : Nat)
    (hip : ci.ipDst = some ip) (hport : ci.portDst = some port) (sg : Bytes) (st : Nat)
    (hsig : Sig sg PROTO_RPC_TCP st) (x : Bytes) :
    unseg cfg env ci (sg ++ x) = .ok (rpcOut cfg.ovf ci (rpcSt cfg.ovf (sg ++ x))) ∧
    rpcParse cfg.ovf {} (sg ++ x) = .ok (rpcSt cfg.ovf (sg ++ x)) := by
  refine ⟨?_, (rpcSt_spec cfg.ovf (sg ++ x)).1⟩
  unfold unseg
  rw [rpc_fresh cfg env ci hc ip port hip hport sg st hsig x]

/-! ## 5. identification across segments -/

/-- the generated table of `proto_init()` is well-formed: transitions stay inside the table, rows
    below `match_limit` carry no match, rows above carry exactly the ids 1..8 -/
theorem proto_table_ok : TblOk protoTbl Gen.ProtoSmack.nrows := protoTbl_ok

/-- `inner_match` over `a ++ b` (any table): run over `a`; stop if a match row was entered, otherwise
    continue over `b` from the row and offset reached -/
theorem inner_match_incremental (T : SmackTbl) (a b : Bytes) (row idx : Nat) (h : row < T.matchLimit) :
    T.innerMatch row (a ++ b) idx =
      match T.innerMatch row a idx with
      | .error e => .error e
      | .ok (i, r) => if r ≥ T.matchLimit then .ok (i, r) else T.innerMatch r b i :=
  innerMatch_append T a b row idx h

/-- **incremental identification**: `search_next` over `a ++ b` from a stored row equals `search_next`
    over `a` and then, if that reported `NO_MATCH`, over `b` from the row it stored -/
theorem ident_incremental (st : Nat) (hst : st < protoTbl.matchLimit) (a b : Bytes) :
    protoTbl.searchNext st (a ++ b) =
      match protoTbl.searchNext st a with
      | .error e => .error e
      | .ok (id, st', n) =>
        if id = noMatch then
          match protoTbl.searchNext st' b with
          | .error e => .error e
          | .ok (id', st'', n') => .ok (id', st'', n + n')
        else .ok (id, st', n) :=
  searchNext_append protoTbl_ok st hst a b

/-- while no signature is completed: bare ACK, and the block stores only the matcher row -/
theorem unidentified_segment (cfg : Cfg) (env : Env) (ci : ClientInfo) (hc : HasCookie ci) (t : Tcb)
    (ht : t.protoId = PROTO_NONE) (hst : t.smackState < protoTbl.matchLimit) (d : Bytes) :
    (∃ id st n, protoTbl.searchNext t.smackState d = .ok (id, st, n) ∧ id ≠ noMatch ∧ 0 < n ∧ n ≤ d.length) ∨
    (∃ st, st < protoTbl.matchLimit ∧ protoTbl.searchNext t.smackState d = .ok (noMatch, st, d.length) ∧
      protoRepl cfg env ci (some t) d = .ok (ci, some { t with smackState := st }, none)) := by
  obtain ⟨id, st, n, h1, h2⟩ := searchNext_total protoTbl_ok t.smackState hst d
  rcases h2 with ⟨e1, e2, e3⟩ | ⟨e1, e2, e3⟩
  · subst e1 e3
    exact .inr ⟨st, e2, h1, protoRepl_noMatch cfg env ci hc t ht d st _ h1⟩
  · exact .inl ⟨id, st, n, h1, e1, e2, e3⟩

/-- **the protocol id does not depend on the segmentation**: running the matcher segment by segment
    (`identSegs`, as `proto::repl` does while `proto_id == PROTO_NONE`) reports the same id and stores
    the same state as one run over the concatenation -/
theorem ident_segmentation_indep (segs : List Bytes) :
    identSegs baseState segs =
      match protoTbl.searchNext baseState segs.flatten with
      | .error e => .error e
      | .ok (id, st, _) => .ok (id, st) :=
  identSegs_flatten baseState base_lt segs

/-- segments before the one completing a signature: all bare ACKs, block = matcher row only -/
theorem unidentified_segments_bare_ack (cfg : Cfg) (env : Env) (ci : ClientInfo) (hc : HasCookie ci)
    (segs : List Bytes) (st : Nat) (h : identSegs baseState segs = .ok (noMatch, st)) :
    feed cfg env ci {} segs = .ok ({ smackState := st }, segs.map (fun _ => none)) :=
  feed_unidentified cfg env ci hc {} rfl base_lt segs st h

/-- what depends on the segmentation (K3): once the id is found in segment `d`, the handler is called
    with `d` alone — not with the stream so far -/
theorem handler_sees_current_segment_only (cfg : Cfg) (env : Env) (ci : ClientInfo) (hc : HasCookie ci) (t : Tcb)
    (ht : t.protoId = PROTO_NONE) (d : Bytes) (id st n : Nat)
    (hs : protoTbl.searchNext t.smackState d = .ok (id, st, n)) :
    protoRepl cfg env ci (some t) d =
      protoHandle cfg env id ci (some { t with protoId := id, smackState := st }) d :=
  protoRepl_unidentified cfg env ci hc t ht d id st n hs

/-! ## 6. the TCP layer: bare ACK / PSH|ACK + reply, one answer per data segment -/

/-- the data segments `p0 :: ps` of a new flow (first one acknowledging the SYN cookie) through
    `tcp::repl`: never a panic when `feed` on their payloads does not panic, one segment sent back per
    segment received, with ack = seq + len, flags = ACK and no payload where `feed` says `none`, flags =
    PSH|ACK followed by the reply where it says `some` (`Replies`, `ReplyFor`); the table entry of the
    flow ends up holding `feed`'s final block. -/
theorem tcp_flow_segments (cfg : Cfg) (env : Env) (ci : ClientInfo) (sp dp : Nat) (p0 : Bytes) (ps : List Bytes)
    (hps : ∀ p, p ∈ p0 :: ps → DataSeg sp dp p) (st : Table)
    (hg : st.get? (flowCk cfg ci sp dp) = none) (hack : flowCk cfg ci sp dp = tcpAckno p0)
    (h : SegIndepFirst cfg env (flowCi cfg ci sp dp) ((p0 :: ps).map tcpPayload)) :
    ∃ st' outs t rs, tcpFeed cfg env ci st (p0 :: ps) = .ok (st', outs) ∧
      feed cfg env (flowCi cfg ci sp dp) {} ((p0 :: ps).map tcpPayload) = .ok (t, rs) ∧
      st'.get? (flowCk cfg ci sp dp) = some t ∧ Replies (p0 :: ps) rs outs := by
  obtain ⟨t, rs, _, hfeed, _⟩ := h
  obtain ⟨st', outs, h1, h2, h3⟩ := tcp_flow_new cfg env ci sp dp p0 ps hps st hg hack t rs hfeed
  exact ⟨st', outs, t, rs, h1, hfeed, h2, h3⟩

/-- the client info handed up by `tcp::repl` always carries the cookie -/
theorem flowCi_hasCookie (cfg : Cfg) (ci : ClientInfo) (sp dp : Nat) : HasCookie (flowCi cfg ci sp dp) := by
  intro h
  exact absurd h.2 (by simp [flowCi])

/-! ## 7. the unrestricted statement is false (K3) -/

private def B (s : String) : Bytes := s.toUTF8.toList

/-- decidable equality of model results, for closed evaluation -/
private instance {α : Type} [DecidableEq α] : DecidableEq (Except Site α) := fun a b =>
  match a, b with
  | .ok x, .ok y => if h : x = y then isTrue (by rw [h]) else isFalse (by intro e; cases e; exact h rfl)
  | .error x, .error y => if h : x = y then isTrue (by rw [h]) else isFalse (by intro e; cases e; exact h rfl)
  | .ok _, .error _ => isFalse (by intro e; cases e)
  | .error _, .ok _ => isFalse (by intro e; cases e)
private def cfg0 : Cfg :=
  { mac := [2, 0, 0, 0, 0, 1], selfIps := none, deny := none, k0 := 1, k1 := 2, logger := .none, level := 0, ovf := true }
private def env0 : Env := { httpDate := B "Tue, 29 Sep 2026 00:00:00 +0000", unixSecs := 0 }
/-- as handed up by `tcp::repl`: addresses, ports, cookie -/
private def ci0 : ClientInfo :=
  { ipSrc := some (.v4 [198, 51, 100, 9]), ipDst := some (.v4 [192, 0, 2, 7]), transport := some 6,
    portSrc := some 1000, portDst := some 111, cookie := some 7 }

/-- replies of a feed (`none` on a panic) -/
private def repliesOf (all : List Bytes) : Option (List (Option Bytes)) :=
  match feed cfg0 env0 ci0 {} all with
  | .ok (_, rs) => some rs
  | .error _ => none

private def unsegOf (p : Bytes) : Option (Option Bytes) :=
  match unseg cfg0 env0 ci0 p with
  | .ok r => some r
  | .error _ => none

private theorem not_segIndepFirst_of (all : List Bytes) (n k : Nat)
    (hrs : (repliesOf all).map (fun rs => rs[k]?) = some (some none))
    (htr : trig cfg0 env0 ci0 all.flatten = some n) (hk : k < all.length) (hbeg : begOff all k < n)
    (hend : n ≤ endOff all k) :
    ¬ SegIndepFirst cfg0 env0 ci0 all := by
  rintro ⟨t, rs, R, hfeed, _, _, h4⟩
  rw [htr] at h4
  have h5 := (h4.2.2.2 k hk).2 hbeg hend
  unfold repliesOf at hrs
  rw [hfeed] at hrs
  simp only [Option.map_some, Option.some.injEq] at hrs
  rw [hrs] at h5
  simp only [Option.some.injEq] at h5
  exact h4.1 h5.symm

/-- the same for `SegIndep`, any segment ending at or after the trigger position -/
private theorem not_segIndep_of (all : List Bytes) (n k : Nat)
    (hrs : (repliesOf all).map (fun rs => rs[k]?) = some (some none))
    (htr : trig cfg0 env0 ci0 all.flatten = some n) (hk : k < all.length) (hend : n ≤ endOff all k) :
    ¬ SegIndep cfg0 env0 ci0 all := by
  rintro ⟨t, rs, R, hfeed, _, _, h4⟩
  rw [htr] at h4
  have h5 := (h4.2.2.2 k hk).2 hend
  unfold repliesOf at hrs
  rw [hfeed] at hrs
  simp only [Option.map_some, Option.some.injEq] at hrs
  rw [hrs] at h5
  simp only [Option.some.injEq] at h5
  exact h4.1 h5.symm

/-- the stream `GET / HTTP/1.1\r\n\r\n` cut after `GE` -/
private def k3Http : List Bytes := [B "GE", B "T / HTTP/1.1\r\n\r\n"]

/-- … is never answered (both segments get bare ACKs) … -/
theorem k3_http_segmented_silent : repliesOf k3Http = some [none, none] := by decide +kernel

/-- … while unsegmented it is answered, on its last byte -/
theorem k3_http_unsegmented_answered :
    unsegOf k3Http.flatten = some (some (httpReplyBytes env0)) ∧ trig cfg0 env0 ci0 k3Http.flatten = some 18 := by
  decide +kernel

/-- a portmapper GETPORT call (record mark + 40 bytes) -/
private def call : Bytes := C16.tcpMsg (C16.mkCall 0x01020304 100000 2 3)

/-- the call cut inside the 28-byte signature (after 10 bytes): never answered; unsegmented: answered
    on its last byte (44) -/
private def k3Rpc : List Bytes := [call.take 10, call.drop 10]

theorem k3_rpc_segmented_silent : repliesOf k3Rpc = some [none, none] := by decide +kernel

theorem k3_rpc_unsegmented_answered :
    (unsegOf k3Rpc.flatten).map (·.map hexOf) =
      some (some "8000001c0102030400000001000000000000000000000000000000000000006f") ∧
    trig cfg0 env0 ci0 k3Rpc.flatten = some 44 := by
  decide +kernel

/-- **K3**: the unrestricted statement of C11 is false — for HTTP and for ONC-RPC, with a client info as
    `tcp::repl` produces it — already in its first-request form `SegIndepFirst` (hence also as `SegIndep`) -/
theorem c11_full_false :
    ¬ (∀ (cfg : Cfg) (env : Env) (ci : ClientInfo) (all : List Bytes), HasCookie ci → SegIndepFirst cfg env ci all) ∧
    ¬ (∀ (cfg : Cfg) (env : Env) (ci : ClientInfo) (all : List Bytes), HasCookie ci → SegIndep cfg env ci all) := by
  have key : ¬ SegIndepFirst cfg0 env0 ci0 k3Http :=
    not_segIndepFirst_of k3Http 18 1 (by decide +kernel) (by decide +kernel) (by decide) (by decide +kernel)
      (by decide +kernel)
  exact ⟨fun h => key (h cfg0 env0 ci0 k3Http (by unfold HasCookie; decide)),
    fun h => key (h cfg0 env0 ci0 k3Http (by unfold HasCookie; decide)).first⟩

theorem c11_full_false_rpc : ¬ SegIndepFirst cfg0 env0 ci0 k3Rpc :=
  not_segIndepFirst_of k3Rpc 44 1 (by decide +kernel) (by decide +kernel) (by decide) (by decide +kernel)
    (by decide +kernel)

/-! ### ONC-RPC after the first reply: the next call, not a repetition

  Since `repl_tcp` resets the stored parser state, `SegIndep` (every later segment gets the first reply
  again) is false for ONC-RPC, and rightly so. -/

/-- the complete call followed by an empty segment: the call is answered, the empty segment gets a
    bare ACK — not the reply again (`SegIndep` would demand the reply) -/
private def rpcThenEmpty : List Bytes := [call, []]

theorem rpc_later_segments_not_repeated :
    (repliesOf rpcThenEmpty).map (·.map (·.map hexOf)) =
      some [some "8000001c0102030400000001000000000000000000000000000000000000006f", none] ∧
    ¬ SegIndep cfg0 env0 ci0 rpcThenEmpty :=
  ⟨by decide +kernel,
   not_segIndep_of rpcThenEmpty 44 1 (by decide +kernel) (by decide +kernel) (by decide) (by decide +kernel)⟩

/-- a second call (NULL procedure, xid 0x0a0b0c0d) -/
private def call2 : Bytes := C16.tcpMsg (C16.mkCall 0x0a0b0c0d 100000 2 0)

/-- observation (outside the property, which speaks of the first request): how LATER calls are answered
    depends on the cut.  Sent as two segments both calls are answered, each with its own xid; sent in ONE
    segment only the first is (the bytes after the end of a call are dropped,
    `C16.rpc_tcp_trailing_ignored`); cut inside the second call, its first bytes are dropped with the
    first segment and the rest does not make a call. -/
theorem rpc_later_calls_depend_on_cut :
    (repliesOf [call, call2]).map (·.map (·.map (fun r => hexOf (r.take 8)))) =
      some [some "8000001c01020304", some "800000180a0b0c0d"] ∧
    (repliesOf [call ++ call2]).map (·.map (·.map (fun r => hexOf (r.take 8)))) =
      some [some "8000001c01020304"] ∧
    (repliesOf [call ++ call2.take 10, call2.drop 10]).map (·.map (·.map (fun r => hexOf (r.take 8)))) =
      some [some "8000001c01020304", none] := by
  decide +kernel

/-! ### HTTP after the first reply: the next request, not a repetition

  Since `http::repl` resets the stored parser state, `SegIndep` (every later segment gets the first reply
  again) is false for HTTP as well, and rightly so: that WAS the defect. -/

/-- "GET / HTTP/1.1\r\n\r\n" -/
private def getReq : Bytes := B "GET / HTTP/1.1\r\n\r\n"

/-- the complete request followed by an empty segment, by an unknown method, by a junk byte -/
private def httpThenEmpty : List Bytes := [getReq, []]
private def httpThenJunk : List Bytes := [getReq, B "BREW / HTTP/1.1\r\n\r\n", B "x"]

/-- **later segments are not answered with the first reply again**: the request is answered, the empty
    segment gets a bare ACK (`SegIndep` would demand the 401 again); an unknown method and a junk byte
    after the answered request get bare ACKs too.  (Replaces `http_after_completion_repeats`.) -/
theorem http_later_segments_not_repeated :
    repliesOf httpThenEmpty = some [some (httpReplyBytes env0), none] ∧
    repliesOf httpThenJunk = some [some (httpReplyBytes env0), none, none] ∧
    ¬ SegIndep cfg0 env0 ci0 httpThenEmpty ∧ ¬ SegIndep cfg0 env0 ci0 httpThenJunk :=
  ⟨by decide +kernel, by decide +kernel,
   not_segIndep_of httpThenEmpty 18 1 (by decide +kernel) (by decide +kernel) (by decide) (by decide +kernel),
   not_segIndep_of httpThenJunk 18 1 (by decide +kernel) (by decide +kernel) (by decide) (by decide +kernel)⟩

/-- a second request -/
private def postReq : Bytes := B "POST /a HTTP/1.0\nHost: x\n\n"

/-- observation (outside the property, which speaks of the first request): how LATER requests are answered
    depends on the cut.  Sent as two segments both requests are answered; sent in ONE segment only the
    first is (within a segment the bytes after the empty line are swallowed by the absorbing CONTENT
    state); cut inside the second request, its first bytes are dropped with the first segment and the
    rest does not make a request. -/
theorem http_later_requests_depend_on_cut :
    repliesOf [getReq, postReq] = some [some (httpReplyBytes env0), some (httpReplyBytes env0)] ∧
    repliesOf [getReq ++ postReq] = some [some (httpReplyBytes env0)] ∧
    repliesOf [getReq ++ postReq.take 10, postReq.drop 10] = some [some (httpReplyBytes env0), none] := by
  decide +kernel

/-- the identification itself is not affected: segment by segment the matcher reports the same id as on
    the whole stream — HTTP found in the second segment of `GE | T / …`, RPC in the second of the cut call -/
example : (identSegs baseState k3Http).toOption.map (·.1) = some PROTO_HTTP ∧
    (identSegs baseState k3Rpc).toOption.map (·.1) = some PROTO_RPC_TCP ∧
    -- … ending in the very matcher state of the one-shot search (a match row, whatever its number)
    (identSegs baseState k3Http).toOption.map (·.2) =
      (protoTbl.searchNext baseState k3Http.flatten).toOption.map (·.2.1) ∧
    (identSegs baseState k3Rpc).toOption.map (·.2) =
      (protoTbl.searchNext baseState k3Rpc.flatten).toOption.map (·.2.1) ∧
    ((identSegs baseState k3Http).toOption.map (fun r => decide (protoTbl.matchLimit ≤ r.2))) = some true := by
  decide +kernel

/-! ## 8. non-vacuity: concrete splits against the theorems' conclusions -/

/-- the conclusion of `SegIndepFirst`, computed: trigger position `n`, the unsegmented reply `R` is a
    reply; bare ACKs for the segments ending before `n`, `R` for the segment containing stream byte `n` -/
private def splitOk (all : List Bytes) (n : Nat) : Bool :=
  match unsegOf all.flatten, repliesOf all with
  | some R, some rs =>
    decide (trig cfg0 env0 ci0 all.flatten = some n) && R.isSome && decide (rs.length = all.length) &&
    (List.range all.length).all (fun k =>
      (if endOff all k < n then decide (rs[k]? = some none) else true) &&
      (if begOff all k < n ∧ n ≤ endOff all k then decide (rs[k]? = some R) else true))
  | _, _ => false

private def http2 : List Bytes := [B "GET" ++ 32 :: 47 :: B " HTTP/1.1\r\n", B "\r\n"]
private def http3 : List Bytes := [B "GET" ++ 32 :: 47 :: B " HT", B "TP/1.1\r\n", B "\r\n"]
/-- an empty segment, a body after the empty line, segments after completion -/
private def http5 : List Bytes := [B "POST" ++ 32 :: 47 :: B "a HTTP/1.0\n", [], B "Host: x\n\nbo", B "dy", []]

-- hypotheses of `http_seg_indep_partial`
example : B "GET" ∈ Spec.httpMethods ∧ B "POST" ∈ Spec.httpMethods := by decide +kernel
-- its conclusion through the theorem …
example : SegIndepFirst cfg0 env0 ci0 http2 := http_seg_indep_partial cfg0 env0 ci0 (B "GET") (by decide +kernel) _ _
example : SegIndepFirst cfg0 env0 ci0 http3 := http_seg_indep_partial cfg0 env0 ci0 (B "GET") (by decide +kernel) _ _
example : SegIndepFirst cfg0 env0 ci0 http5 := http_seg_indep_partial cfg0 env0 ci0 (B "POST") (by decide +kernel) _ _
-- … and computed on the model: trigger positions 18, 18, 26
example : splitOk http2 18 = true ∧ splitOk http3 18 = true ∧ splitOk http5 26 = true := by decide +kernel
example : repliesOf http3 = some [none, none, some (httpReplyBytes env0)] := by decide +kernel
-- the segment containing byte 26 (the LF of the empty line) carries the 401; the two segments after it
-- (`dy`, and an empty one) belong to the next request and get bare ACKs — not the 401 again
example : repliesOf http5 = some [none, none, some (httpReplyBytes env0), none, none] ∧
    begOff http5 2 = 17 ∧ endOff http5 2 = 28 := by decide +kernel
-- a stream that is never completed: no trigger position, no reply
example : trig cfg0 env0 ci0 (B "GET / HTTP/1.1\r\nHost: a\r\n") = none ∧
    repliesOf [B "GET / HTTP/1.1", B "\r\nHost: a\r\n"] = some [none, none] := by decide +kernel

/-- the match row of the ONC-RPC-over-TCP signature in the compiled table (computed, not written down) -/
private def rpcRow : Nat := ((protoTbl.searchNext baseState (call.take 28)).toOption.map (·.2.1)).getD 0

private def rpc2 : List Bytes := [call.take 28, call.drop 28]
private def rpc3 : List Bytes := [call.take 30, (call.drop 30).take 5, call.drop 35]

-- hypotheses of `rpc_seg_indep_partial`: the matcher reports RPC-over-TCP at byte 28 of the first segment
example : protoTbl.searchNext baseState (call.take 28) = .ok (PROTO_RPC_TCP, rpcRow, 28) ∧
    protoTbl.searchNext baseState (call.take 30) = .ok (PROTO_RPC_TCP, rpcRow, 28) ∧
    protoTbl.matchLimit ≤ rpcRow := by decide +kernel
example : SegIndepFirst cfg0 env0 ci0 rpc2 :=
  rpc_seg_indep_partial cfg0 env0 ci0 _ _ rfl rfl (call.take 28) rpcRow 28 (by decide +kernel) _
example : SegIndepFirst cfg0 env0 ci0 rpc3 :=
  rpc_seg_indep_partial cfg0 env0 ci0 _ _ rfl rfl (call.take 30) rpcRow 28 (by decide +kernel) _
example : splitOk rpc2 44 = true ∧ splitOk rpc3 44 = true := by decide +kernel
example : (repliesOf rpc3).map (·.map (·.map hexOf)) =
    some [none, none, some "8000001c0102030400000001000000000000000000000000000000000000006f"] := by
  decide +kernel
-- with further segments after the first call (a second call cut in two): the theorem applies, the first
-- call is answered on the segment completing it, and — beyond the theorem — so is the second
private def rpc5 : List Bytes := [call.take 30, (call.drop 30).take 5, call.drop 35, call2.take 7, call2.drop 7]
example : SegIndepFirst cfg0 env0 ci0 rpc5 :=
  rpc_seg_indep_partial cfg0 env0 ci0 _ _ rfl rfl (call.take 30) rpcRow 28 (by decide +kernel) _
example : trig cfg0 env0 ci0 rpc5.flatten = some 44 ∧ begOff rpc5 2 = 35 ∧ endOff rpc5 2 = 44 ∧
    (repliesOf rpc5).map (·.map (·.map (fun r => hexOf (r.take 8)))) =
      some [none, none, some "8000001c01020304", none, some "800000180a0b0c0d"] := by decide +kernel

/-! ### the TCP layer on a concrete flow -/

/-- as handed to `tcp::repl` by the IPv4 layer -/
private def ciL3 : ClientInfo :=
  { ipSrc := some (.v4 [198, 51, 100, 9]), ipDst := some (.v4 [192, 0, 2, 7]), transport := some 6 }

/-- PSH|ACK from port 1000 to port 80 acknowledging cookie + 1 -/
private def seg (seq : Nat) (pl : Bytes) : Bytes :=
  [3, 232, 0, 80] ++ u32be seq ++ [145, 226, 234, 134] ++ [0x50, 0x18, 255, 255, 0, 0, 0, 0] ++ pl

private def tcp3 : List Bytes := [seg 1 (B "GET" ++ 32 :: 47 :: B " HT"), seg 9 (B "TP/1.1\r\n"), seg 17 (B "\r\n")]

-- hypotheses of `tcp_flow_segments`
example : (∀ p, p ∈ tcp3 → DataSeg 1000 80 p) ∧ Table.get? [] (flowCk cfg0 ciL3 1000 80) = none ∧
    flowCk cfg0 ciL3 1000 80 = tcpAckno (seg 1 (B "GET" ++ 32 :: 47 :: B " HT")) ∧
    tcp3.map tcpPayload = http3 := by
  refine ⟨?_, rfl, by decide +kernel, by decide +kernel⟩
  have : tcp3.all (fun p => decide ((tcpFlags p / 8 % 2 = 1 ∧ tcpFlags p / 16 % 2 = 1) ∧ rdBE (slice p 0 2) = 1000 ∧
      rdBE (slice p 2 2) = 80)) = true := by decide +kernel
  intro p hp
  simpa [DataSeg] using List.all_eq_true.1 this p hp
-- … and its conclusion computed: two bare ACKs (20 bytes, flags ACK, ack = seq + len), then PSH|ACK + the 401
example : (match tcpFeed cfg0 env0 ciL3 [] tcp3 with
    | .ok (st, outs) =>
      decide (outs.map (fun (o : Option Bytes) => o.map (fun (x : Bytes) => (x.length, Spec.tcpFlagsOf x, Spec.be32 x 8))) =
        [some (20, 16, 9), some (20, 16, 17), some (20 + (httpReplyBytes env0).length, 24, 19)]) &&
      decide (outs[2]?.map (fun (o : Option Bytes) => o.map (fun (x : Bytes) => x.drop 20)) = some (some (httpReplyBytes env0))) &&
      decide (st.map (fun (e : Nat × Tcb) => e.1) = [2447567493])
    | .error _ => false) = true := by decide +kernel

#print axioms trig_eq_some_iff
#print axioms trig_eq_none_iff
#print axioms bare_acks_before_trigger
#print axioms reply_at_trigger
#print axioms no_trigger_no_reply
#print axioms first_reply_segment
#print axioms two_segmentations
#print axioms seg_indep_leading_empty
#print axioms seg_indep_first_leading_empty
#print axioms http_seg_indep_partial
#print axioms http_unseg_prefix
#print axioms http_seg_reply
#print axioms http_after_completion_reset
#print axioms http_later_segments_not_repeated
#print axioms http_later_requests_depend_on_cut
#print axioms rpc_seg_indep_sig
#print axioms rpc_seg_indep_partial
#print axioms rpc_seg_reply
#print axioms proto_table_ok
#print axioms inner_match_incremental
#print axioms ident_incremental
#print axioms unidentified_segment
#print axioms ident_segmentation_indep
#print axioms unidentified_segments_bare_ack
#print axioms handler_sees_current_segment_only
#print axioms tcp_flow_segments
#print axioms k3_http_segmented_silent
#print axioms k3_http_unsegmented_answered
#print axioms k3_rpc_segmented_silent
#print axioms k3_rpc_unsegmented_answered
#print axioms c11_full_false
#print axioms c11_full_false_rpc
#print axioms rpc_later_segments_not_repeated
#print axioms rpc_later_calls_depend_on_cut

end Masscanned.C11
