/-
  Thm/C10E2Eb — property C10 (second half) END TO END at FRAME level, UDP:
  a deliverable UDP frame (IPv4 or IPv6) whose payload is a valid request of one of the protocols
  (class `Req`, the hypotheses of Thm/C10E2E) yields exactly one reply frame, which is well-formed at
  every layer (C04), mirrors the request's addresses and ports (C03; source port advanced by the
  number of change-port CHANGE-REQUESTs for STUN), and whose UDP payload satisfies the protocol's
  Spec predicate (C13–C18).

  Composition of: Proofs/C12/Delivery (delivery to layer 4, namespaced copy of Proofs/Delivery),
  Proofs/E2E/Frame (`udp_frame_v4/v6`), Thm/C10E2E (application interface), Thm/C03
  (`reply_port_rule`), Proofs/E2E/WfCopy (`reply_wf` of Thm/C04, namespaced copy: Thm/C04 itself
  cannot be imported together with Thm/C03 / Thm/C15).

  Size side conditions (a reply that does not fit a datagram makes the Rust code panic —
  `udp_len.try_into().unwrap()` / pnet `set_payload`; C01 excludes this by the 4096-byte capture
  buffer and a 64-byte date text): HTTP response ≤ 65507 bytes — `Texts.httpFixedLen` bytes of generated
  text (Gen/Texts.lean; at most 2000 by the kernel-checked fact `Texts.httpFixed_le`) plus the date text —,
  DNS query ≤ 9000 bytes.
-/
import Masscanned.Thm.C10E2E
import Masscanned.Thm.C03
import Masscanned.Proofs.E2E.Frame
import Masscanned.Proofs.E2E.Bridge
import Masscanned.Proofs.E2E.WfCopy
import Masscanned.Proofs.Texts.Facts
open Masscanned
namespace Masscanned.C10E2E
open Masscanned.Spec Masscanned.E2E

/-- The valid requests of Thm/C10E2E as one class.  `Req env src dst sport dport p J k`: the UDP
    payload `p`, sent from (`src`, `sport`) to (`dst`, `dport`), is a valid request of one of the
    protocols; `J a` is the Spec's judgement "`a` is a correct answer to `p`"; `k` is the offset the
    reply's source port must have (0 except for STUN). -/
inductive Req (env : Env) (src dst : Ip) (sport dport : Nat) (p : Bytes) : (Bytes → Prop) → Nat → Prop
  | http (h : strictRequest p = true) (hd : ∀ b ∈ env.httpDate, b ≠ 10 ∧ b ≠ 13)
      (hl : Texts.httpFixedLen + env.httpDate.length ≤ 65507) :
      Req env src dst sport dport p (fun a => a = httpReplyBytes env ∧ reply401Ok a = true) 0
  | ssh (h : sshAnswered p = true) : Req env src dst sport dport p (fun a => a = sshBannerExpected) 0
  | ghost (h : "Gh0st".toUTF8.toList.isPrefixOf p = true) :
      Req env src dst sport dport p (fun a => a = Gen.ghostReply ∧ ghostFrameOk a = true) 0
  | stun (m : StunMsg) (hp : parseStun p = some m) (hc : m.cls = 0) (hm : m.method = 1)
      (hid : refDatagramK2 p = some ID_STUN) :
      Req env src dst sport dport p (fun a => stunSuccessOk m a src sport = true) (changePortCount m)
  | rpc (c : RpcCall) (hc : parseCall p = some c) (hv : c.rpcvers < 256)
      (hprog : inPortmapRange c.prog = true) (hproc : c.proc < 256) (hns : shadowed p = false) :
      Req env src dst sport dport p (fun a => rpcReplyOk c a dst dport = true) 0
  | smb1 (m : Bytes) (req : Smb1Req) (hn : nbtBody p = some m) (h1 : u8 p 1 = 0)
      (hr : smb1Request m = some req) :
      Req env src dst sport dport p (fun a => smb1ReplyOk m req a = true) 0
  | smb2 (m : Bytes) (req : Smb2Req) (hn : nbtBody p = some m) (h1 : u8 p 1 = 0)
      (hr : smb2Request m = some req)
      (hcommon : ∀ ds, req = .negotiate ds → ds.any smb2Supported.contains = true) :
      Req env src dst sport dport p (fun a => smb2ReplyOk m req a = true) 0
  | dns (q : DMsg) (a4 : Bytes) (hq : DnsFix.inAQueryAny p = some q) (hdst : dst = .v4 a4)
      (hid : refDatagramK2 p = none) (hsz : p.length ≤ 9000) :
      Req env src dst sport dport p (fun a => dnsReplyOk q a a4 = true) 0

/-- **Application interface, all protocols in one statement**: a valid request (class `Req`) in a
    datagram of at most 65535 bytes is answered; the answer is judged correct by the protocol's Spec
    predicate, fits in a datagram, and the client info comes back with the destination port advanced
    by `k` (mod 2^16) and nothing else the UDP layer reads changed. -/
theorem app_of_req (cfg : Cfg) (env : Env) (ci : ClientInfo) (src dst : Ip) (sport dport : Nat) (p : Bytes)
    (J : Bytes → Prop) (k : Nat)
    (hudp : ci.transport = some 17) (hsrc : ci.ipSrc = some src) (hdst : ci.ipDst = some dst)
    (hps : ci.portSrc = some sport) (hpd : ci.portDst = some dport) (hsp : sport < 65536)
    (hdp : dport < 65536) (hws : IpWf src) (hwd : IpWf dst) (hlp : p.length ≤ 65535)
    (h : Req env src dst sport dport p J k) :
    ∃ ci' a, protoRepl cfg env ci none p = .ok (ci', none, some a) ∧ J a ∧
      ci'.portDst = some ((dport + k) % 65536) ∧ ci'.portSrc = some sport ∧ a.length ≤ 65507 := by
  have hg : Gate ci := by simp [hudp]
  have hp0 : some dport = some ((dport + 0) % 65536) := by rw [Nat.add_zero, Nat.mod_eq_of_lt hdp]
  cases h with
  | http h hd hl =>
    obtain ⟨r, hr, he, hok⟩ := (http_e2e cfg env ci p hg hd h).2.1
    refine ⟨ci, r, hr, ⟨he, hok⟩, by rw [hpd, hp0], hps, ?_⟩
    rw [he, C01.httpReply_length]; omega
  | ssh h =>
    refine ⟨ci, _, (ssh_e2e cfg env ci p hg h).2.1, rfl, by rw [hpd, hp0], hps, ?_⟩
    have : sshBannerExpected.length = 11 := by decide +kernel
    omega
  | ghost h =>
    obtain ⟨_, hr, _, hok⟩ := ghost_e2e cfg env ci p hg h
    refine ⟨ci, _, hr, ⟨rfl, hok⟩, by rw [hpd, hp0], hps, ?_⟩
    rw [C01.ghost_len]; omega
  | stun m hp hc hm hid =>
    obtain ⟨ci', r, hr, hok, hpd', hci, hlen⟩ :=
      stun_e2e_K2 cfg env ci p m src sport hg hp hc hm hlp hsrc hps hsp hws hid
    refine ⟨ci', r, hr, hok, by rw [hpd', hpd]; rfl, by rw [hci]; exact hps, by omega⟩
  | rpc c hc hv hprog hproc hns =>
    obtain ⟨r, hr, hok, hlen⟩ := (rpc_e2e_udp cfg env ci p c dst dport hg hc hv hprog hproc hdst hpd hdp).2.2 hns
    exact ⟨ci, r, hr, hok, by rw [hpd, hp0], hps, by omega⟩
  | smb1 m req hn h1 hr =>
    obtain ⟨r, hrep, hok, hlen⟩ := (smb1_e2e cfg env ci p m req hg hn h1 hr).2.1
    exact ⟨ci, r, hrep, hok, by rw [hpd, hp0], hps, by omega⟩
  | smb2 m req hn h1 hr hcommon =>
    obtain ⟨r, hrep, hok, hlen⟩ := (smb2_e2e cfg env ci p m req hg hn h1 hr hcommon).2.1
    exact ⟨ci, r, hrep, hok, by rw [hpd, hp0], hps, by omega⟩
  | dns q a4 hq hd4 hid hsz =>
    subst hd4
    obtain ⟨r, hr, hok, hlen⟩ := dns_e2e_K2_full cfg env ci p a4 q hq hdst hwd hudp hid
    exact ⟨ci, r, hr, hok, by rw [hpd, hp0], hps, by omega⟩

/-! ### frame level -/

/-- source / destination address of an IP frame, as `Spec.srcIp` / `Spec.dstIp` read them -/
def srcOf (v6 : Bool) (f : Bytes) : Ip := if v6 then .v6 (sub f 22 16) else .v4 (sub f 26 4)
def dstOf (v6 : Bool) (f : Bytes) : Ip := if v6 then .v6 (sub f 38 16) else .v4 (sub f 30 4)

/-- **UDP, frame level, all protocols** (`udp_request_e2e`): for every configuration with a 6-byte MAC,
    every environment and connection table, a deliverable UDP frame `f` (IPv4 for `v6 = false`, IPv6
    for `v6 = true`) whose payload `(Spec.l4Bytes f).drop 8` is a valid request (class `Req`, with the
    addresses and ports of the frame) gets exactly one reply frame `r`:
    * `Spec.frameWf r` (C04: lengths, IPv4 header checksum, UDP checksum over the pseudo-header, …),
    * `Spec.mirrors cfg f r k` (C03: MACs, addresses, ports swapped; source port = request's
      destination port + `k` mod 2^16, `k` = number of change-port CHANGE-REQUESTs for STUN, else 0),
    * the UDP payload of `r` is judged correct by the protocol's Spec predicate (`J`). -/
theorem udp_request_e2e (v6 : Bool) {cfg : Cfg} {env : Env} {st : Table} {f : Bytes}
    (hm : cfg.mac.length = 6) (hd : deliverable cfg f v6 17 8 = true) {J : Bytes → Prop} {k : Nat}
    (hreq : Req env (srcOf v6 f) (dstOf v6 f) (be16 (l4Bytes f) 0) (be16 (l4Bytes f) 2)
      ((l4Bytes f).drop 8) J k) :
    ∃ r, (step cfg env st f).out = .ok (some r) ∧ frameWf r = true ∧ mirrors cfg f r k = true ∧
      J ((l4Bytes r).drop 8) := by
  obtain ⟨hlen, hety, hproto, h8, -, -⟩ := Fr.deliverable_facts hd
  have hws : IpWf (srcOf v6 f) := by
    cases v6 <;> simp only [srcOf, IpWf, Bool.false_eq_true, if_false, if_true] <;> simp [sub] <;>
      simp at hlen <;> omega
  have hwd : IpWf (dstOf v6 f) := by
    cases v6 <;> simp only [dstOf, IpWf, Bool.false_eq_true, if_false, if_true] <;> simp [sub] <;>
      simp at hlen <;> omega
  have hpl : ((l4Bytes f).drop 8).length ≤ 65535 := by
    have := Br.l4Bytes_length_le f; simp; omega
  obtain ⟨ci', a, ha, hJ, hpd, hps, hal⟩ := app_of_req cfg env (Fr.ciUdp v6 f) (srcOf v6 f) (dstOf v6 f)
    (be16 (l4Bytes f) 0) (be16 (l4Bytes f) 2) ((l4Bytes f).drop 8) J k rfl rfl rfl rfl rfl
    (Br.be16_lt' _ _) (Br.be16_lt' _ _) hws hwd hpl hreq
  obtain ⟨r, hout, hpay, hrl, hp0, hp2⟩ : ∃ r, (step cfg env st f).out = .ok (some r) ∧
      (l4Bytes r).drop 8 = a ∧ (l4Bytes r).length = 8 + a.length ∧
      be16 (l4Bytes r) 0 = ci'.portDst.getD 0 % 65536 ∧ be16 (l4Bytes r) 2 = ci'.portSrc.getD 0 % 65536 := by
    cases v6 with
    | false => exact Fr.udp_frame_v4 hm hd ha hal
    | true => exact Fr.udp_frame_v6 hm hd ha (by omega)
  refine ⟨r, hout, WfC.reply_wf cfg env st f r hm hout, ?_, by rw [hpay]; exact hJ⟩
  -- the mirror relation of C03, with the offset pinned by the reply's source port
  have hne : be16 f 12 ≠ 0x0806 := by rw [hety]; cases v6 <;> decide
  have htu : isTcpUdp f = true := by simp [isTcpUdp, hproto]
  obtain ⟨k', hk'⟩ : ∃ k', mirrors cfg f r k' = true := by
    rcases C03.reply_port_rule cfg env st f r hm hout with h | ⟨h, -⟩
    · exact ⟨0, h⟩
    · exact ⟨_, h⟩
  have e1 := Br.mirrors_port cfg f r k' hk' hne htu
  have e2 := Br.be16_l4Bytes r 0 (by omega)
  have e3 := Br.be16_l4Bytes f 2 (by omega)
  rw [Nat.add_zero] at e2
  rw [hpd] at hp0
  simp only [Option.getD_some, Nat.mod_mod] at hp0
  rw [Br.mirrors_congr cfg f r k k' (by rw [← e3, ← hp0, e2, e1, e3]), hk']

end Masscanned.C10E2E

/-! ### non-vacuity -/
namespace Masscanned.C10E2E
open Masscanned.Spec Masscanned.E2E

/-- UDP/IPv4 frame 10.0.0.1:1234 → 10.0.0.2:`dport` to the MAC of `C18.cfgE` -/
def udp4 (dport : Nat) (p : Bytes) : Bytes :=
  [2, 0, 0, 0, 0, 1, 2, 0, 0, 0, 0, 9, 8, 0] ++
  [0x45, 0] ++ u16be (28 + p.length) ++ [0, 0, 0, 0, 64, 17, 0, 0, 10, 0, 0, 1, 10, 0, 0, 2] ++
  [0x04, 0xd2] ++ u16be dport ++ u16be (8 + p.length) ++ [0, 0] ++ p

/-- UDP/IPv6 frame [fe80::1]:1234 → [fe80::2]:`dport` -/
def udp6 (dport : Nat) (p : Bytes) : Bytes :=
  [2, 0, 0, 0, 0, 1, 2, 0, 0, 0, 0, 9, 0x86, 0xdd] ++
  [0x60, 0, 0, 0] ++ u16be (8 + p.length) ++ [17, 64] ++
  [0xfe, 0x80, 0, 0, 0, 0, 0, 0, 0, 0, 0, 0, 0, 0, 0, 1, 0xfe, 0x80, 0, 0, 0, 0, 0, 0, 0, 0, 0, 0, 0, 0, 0, 2] ++
  [0x04, 0xd2] ++ u16be dport ++ u16be (8 + p.length) ++ [0, 0] ++ p

example : C18.cfgE.mac.length = 6 := by decide

-- IPv4, STUN with one change-port CHANGE-REQUEST (`C15ex.reqA`): answered from port 3478 + 1
example : deliverable C18.cfgE (udp4 3478 C15ex.reqA) false 17 8 = true ∧
    (l4Bytes (udp4 3478 C15ex.reqA)).drop 8 = C15ex.reqA ∧ (parseStun C15ex.reqA).isSome = true := by
  decide +kernel

example (env : Env) (st : Table) : ∃ m, parseStun C15ex.reqA = some m ∧ changePortCount m = 1 ∧
    ∃ r, (step C18.cfgE env st (udp4 3478 C15ex.reqA)).out = .ok (some r) ∧ frameWf r = true ∧
      mirrors C18.cfgE (udp4 3478 C15ex.reqA) r 1 = true ∧
      stunSuccessOk m ((l4Bytes r).drop 8) (.v4 [10, 0, 0, 1]) 1234 = true := by
  have hany : (parseStun C15ex.reqA).any (fun m => m.cls = 0 && m.method = 1 && changePortCount m = 1) = true := by
    decide +kernel
  obtain ⟨m, hp, hall⟩ : ∃ m, parseStun C15ex.reqA = some m ∧
      (decide (m.cls = 0) && decide (m.method = 1) && decide (changePortCount m = 1)) = true := by
    cases hq : parseStun C15ex.reqA with
    | none => rw [hq] at hany; cases hany
    | some m => rw [hq] at hany; exact ⟨m, rfl, hany⟩
  simp only [Bool.and_eq_true, decide_eq_true_eq] at hall
  obtain ⟨⟨hc, hm⟩, hk⟩ := hall
  have hid := (stun_identified _ _ hp hc hm).2.2.1 (by decide) (by decide +kernel)
  have e : (l4Bytes (udp4 3478 C15ex.reqA)).drop 8 = C15ex.reqA := by decide +kernel
  refine ⟨m, hp, hk, ?_⟩
  have := udp_request_e2e false (cfg := C18.cfgE) (env := env) (st := st) (f := udp4 3478 C15ex.reqA)
    (by decide) (by decide +kernel) (by rw [e]; exact Req.stun _ hp hc hm hid)
  rw [hk] at this
  exact this

-- IPv6, HTTP over UDP
example : deliverable C18.cfgE (udp6 80 "GET / HTTP/1.1\r\n\r\n".toUTF8.toList) true 17 8 = true ∧
    (l4Bytes (udp6 80 "GET / HTTP/1.1\r\n\r\n".toUTF8.toList)).drop 8 = "GET / HTTP/1.1\r\n\r\n".toUTF8.toList ∧
    strictRequest "GET / HTTP/1.1\r\n\r\n".toUTF8.toList = true := by decide +kernel

example (st : Table) : ∃ r, (step C18.cfgE envD st (udp6 80 "GET / HTTP/1.1\r\n\r\n".toUTF8.toList)).out = .ok (some r) ∧
    frameWf r = true ∧ mirrors C18.cfgE (udp6 80 "GET / HTTP/1.1\r\n\r\n".toUTF8.toList) r 0 = true ∧
    (l4Bytes r).drop 8 = httpReplyBytes envD ∧ reply401Ok ((l4Bytes r).drop 8) = true := by
  have e : (l4Bytes (udp6 80 "GET / HTTP/1.1\r\n\r\n".toUTF8.toList)).drop 8 = "GET / HTTP/1.1\r\n\r\n".toUTF8.toList := by
    decide +kernel
  have hfit : Texts.httpFixedLen + envD.httpDate.length ≤ 65507 := by
    have := Texts.httpFixed_le
    have : envD.httpDate.length = 31 := by decide +kernel
    omega
  exact udp_request_e2e true (cfg := C18.cfgE) (env := envD)
    (f := udp6 80 "GET / HTTP/1.1\r\n\r\n".toUTF8.toList) (by decide) (by decide +kernel)
    (by rw [e]; exact Req.http (env := envD) (by decide +kernel) (by decide +kernel) hfit)

-- IPv4, DNS IN/A query (`C14.q1`): completes no signature, answered by the fallback
example : deliverable C18.cfgE (udp4 53 C14.q1) false 17 8 = true ∧
    (l4Bytes (udp4 53 C14.q1)).drop 8 = C14.q1 ∧ (DnsFix.inAQueryAny C14.q1).isSome = true ∧
    refDatagramK2 C14.q1 = none ∧ dstOf false (udp4 53 C14.q1) = .v4 [10, 0, 0, 2] := by decide +kernel

-- the same for `C14.qNul` (`a\0b IN A`: a 0x00 inside the label)
example : deliverable C18.cfgE (udp4 53 C14.qNul) false 17 8 = true ∧
    (l4Bytes (udp4 53 C14.qNul)).drop 8 = C14.qNul ∧ (DnsFix.inAQueryAny C14.qNul).isSome = true ∧
    refDatagramK2 C14.qNul = none ∧ dstOf false (udp4 53 C14.qNul) = .v4 [10, 0, 0, 2] := by decide +kernel

#print axioms app_of_req
#print axioms udp_request_e2e

end Masscanned.C10E2E
