/-
  C15 — STUN: a Binding Request (RFC 3489 or RFC 5389) is answered with a Binding Success Response
  carrying the same 128-bit transaction id, a length field equal to the attribute bytes that follow
  and a MAPPED-ADDRESS = (IP version, source address, source port) of the request; every
  CHANGE-REQUEST with the change-port flag moves the reply's source port to the next port number
  (mod 2^16); other classes get no response.

  Stated at the responder `stunRepl` (src/proto/stun.rs) and, for the port, at `udpRepl`
  (src/layer_4/udp.rs).  Whether a payload reaches the responder is property C10.

  One gap w.r.t. the informal property, with a machine-checked witness below: messages longer than
  65535 bytes make `20 + length` overflow its `u16` (panic site `stunOverflow`; unreachable through
  IPv4/IPv6 without jumbograms) — hence the hypothesis `p.length ≤ 65535` of
  `stun_binding_success_partial` (and of the silence / no-panic theorems).

  History: before fix D15 the Rust "method" was `data[1] & 0xEF` only (the method bits of `data[0]`
  were shifted out of the `u8`), so requests of method 0x081, 0x101, … were answered as Binding
  Requests.  With the fix (`((data[0] & 0x3E) as u16) << 7 | …`) `stun_other_silent_spec` holds in
  full; `02 01 00 00 07×16` is now silent (example below).
-/
import Masscanned.Proofs.C15.Repl
import Masscanned.Proofs.C15.Examples
open Masscanned
namespace Masscanned.C15

/-! ### 1. the attribute loop against the Spec's TLV parser -/

/-- C15.1 Bridge: if the Spec parses the attribute area `a` (whole buffer, TLVs padded to 4 bytes) into
    `m.attrs`, the Rust loop (`while i + 4 < len`, any fuel above the length — `stunParse` uses
    `a.length + 1`) succeeds, and the number of change-port CHANGE-REQUESTs it finds is
    `Spec.changePortCount m`. -/
theorem stun_attrs_bridge (f : Nat) (a : Bytes) (m : Spec.StunMsg)
    (h : Spec.stunTlvs f a = some m.attrs) (fuel : Nat) (hf : a.length < fuel) :
    ∃ l, stunAttrs fuel a = some l ∧
      (l.filter (fun x => x = .changeRequest true)).length = Spec.changePortCount m := by
  obtain ⟨l, h1, h2⟩ := stunAttrs_of_tlvs f a m.attrs h fuel hf
  exact ⟨l, h1, by rw [changePortCount_eq]; exact h2⟩

/-- C15.1 the corner of the loop condition: a trailing 4-byte attribute (necessarily of length 0) is
    not visited by the Rust loop, and is not a change-port CHANGE-REQUEST for the Spec either -/
theorem stun_trailing_attr (f : Nat) (a : Bytes) (m : Spec.StunMsg) (ha : a.length = 4)
    (h : Spec.stunTlvs f a = some m.attrs) (fuel : Nat) :
    stunAttrs fuel a = some [] ∧ Spec.changePortCount m = 0 := by
  have hs : stunAttrs fuel a = some [] := by
    cases fuel with
    | zero => rfl
    | succ n => simp [stunAttrs, ha]
  obtain ⟨l, h1, h2⟩ := stunAttrs_of_tlvs f a m.attrs h 5 (by omega)
  have h5 : stunAttrs 5 a = some [] := by simp [stunAttrs, ha]
  rw [h5] at h1; cases h1
  exact ⟨hs, by rw [changePortCount_eq, ← h2]; rfl⟩

/-! ### 2. Binding Request ⇒ Binding Success Response -/

/-- class 0 and method 1 (as the Spec decodes the 14-bit type) already force the first two bytes to
    `00 01`: the hypotheses `at8 p 0 = 0`, `at8 p 1 = 1` are not needed below -/
theorem stun_binding_bytes {p : Bytes} {m : Spec.StunMsg} (hp : Spec.parseStun p = some m)
    (hc : m.cls = 0) (hm : m.method = 1) : at8 p 0 = 0 ∧ at8 p 1 = 1 :=
  binding_bytes hp hc hm

/-- C15.2 A complete, well-formed Binding Request `p` of at most 65535 bytes, from source address `src`
    (4 or 16 bytes) and source port `sp`, is answered; the answer is a complete STUN message
    (length field = attribute bytes) of class success / method Binding with the request's 128-bit
    transaction id and a MAPPED-ADDRESS of the family of `src`, port `sp`, address `src`
    (`Spec.stunSuccessOk`); the destination port of the client info (the reply's source port) is
    advanced by the number of change-port CHANGE-REQUESTs, mod 2^16.
    `_partial`: the bound `p.length ≤ 65535` is necessary, see `stun_binding_oversize_panics`. -/
theorem stun_binding_success_partial (ci : ClientInfo) (p : Bytes) (m : Spec.StunMsg) (src : Ip) (sp : Nat)
    (hp : Spec.parseStun p = some m) (hc : m.cls = 0) (hm : m.method = 1)
    (hl : p.length ≤ 65535)
    (hs : ci.ipSrc = some src) (hps : ci.portSrc = some sp) (hsp : sp < 65536) (hw : IpWf src) :
    ∃ ci' r, stunRepl ci p = .ok (ci', some r) ∧ Spec.stunSuccessOk m r src sp = true ∧
      ci'.portDst = ci.portDst.map (fun d => (d + Spec.changePortCount m) % 65536) ∧
      ci' = { ci with portDst := ci'.portDst } := by
  have h := stunRepl_binding hp hc hm hl hs hps
  exact ⟨_, _, h, stunSuccessOk_reply m m.tid src sp (tid_length hp) rfl hw hsp, rfl, rfl⟩

/-- the complement of the length bound: a message the Spec accepts but longer than 65535 bytes hits
    the `u16` overflow of `20 + length` (in Rust: a panic in the debug profile, a reversed slice range —
    also a panic — in release) -/
theorem stun_binding_oversize_panics (ci : ClientInfo) (p : Bytes) (m : Spec.StunMsg)
    (hp : Spec.parseStun p = some m) (hl : 65535 < p.length) :
    stunRepl ci p = .error .stunOverflow := by
  unfold stunRepl; rw [stunParse_overflow hp hl]

/-! ### 3. the reply's ports at the UDP layer -/

/-- C15.3 A UDP datagram `u` whose payload the dispatcher hands to the STUN responder (hypothesis `hd`,
    the business of C10) and which is a Binding Request: the reply datagram's source port is the
    request's destination port plus the number of change-port CHANGE-REQUESTs, mod 2^16; its destination
    port is the request's source port; its length field is its length; its payload is the Binding
    Success Response for (`src`, source port of `u`). -/
theorem stun_change_port_udp (cfg : Cfg) (env : Env) (ci : ClientInfo) (u : Bytes) (m : Spec.StunMsg) (src : Ip)
    (hu : 8 ≤ u.length) (hl : u.length ≤ 65535)
    (hd : protoRepl cfg env { ci with portSrc := some (Spec.be16 u 0), portDst := some (Spec.be16 u 2) } none (u.drop 8)
        = protoHandle cfg env PROTO_STUN
            { ci with portSrc := some (Spec.be16 u 0), portDst := some (Spec.be16 u 2) } none (u.drop 8))
    (hp : Spec.parseStun (u.drop 8) = some m) (hc : m.cls = 0) (hm : m.method = 1)
    (hs : ci.ipSrc = some src) (hw : IpWf src) :
    ∃ evs ci' r, udpRepl cfg env ci u = .ok (evs, ci', some r) ∧
      Spec.be16 r 0 = (Spec.be16 u 2 + Spec.changePortCount m) % 65536 ∧
      Spec.be16 r 2 = Spec.be16 u 0 ∧
      Spec.be16 r 4 = r.length ∧
      Spec.stunSuccessOk m (r.drop 8) src (Spec.be16 u 0) = true ∧
      ci'.portDst = some ((Spec.be16 u 2 + Spec.changePortCount m) % 65536) := by
  have e0 : rdBE (slice u 0 2) = Spec.be16 u 0 := rdBE_slice2 (by omega)
  have e2 : rdBE (slice u 2 2) = Spec.be16 u 2 := rdBE_slice2 (by omega)
  have hsp := be16_lt u 0
  have hr := stunRepl_binding
    (ci := { ci with portSrc := some (Spec.be16 u 0), portDst := some (Spec.be16 u 2) })
    (sp := Spec.be16 u 0) hp hc hm (by simp; omega) hs rfl
  have hok := stunSuccessOk_reply m m.tid src (Spec.be16 u 0) (tid_length hp) rfl hw hsp
  have hal := stunMapped_length_le hw (Spec.be16 u 0)
  have hid := tid_length hp
  generalize hrd : [1, 1] ++ u16be (stunMapped src (Spec.be16 u 0)).length ++ m.tid ++
    stunMapped src (Spec.be16 u 0) = r at hr hok
  have hrl : r.length ≤ 44 := by
    rw [← hrd]; simp [u16be, hid]; omega
  simp only [Option.map_some] at hr
  have hudp : udpRepl cfg env ci u = .ok
      ([ev .udp .recv { ci with portSrc := some (Spec.be16 u 0), portDst := some (Spec.be16 u 2) },
        ev .udp .send { ci with portSrc := some (Spec.be16 u 0),
                                portDst := some ((Spec.be16 u 2 + Spec.changePortCount m) % 65536) }],
       { ci with portSrc := some (Spec.be16 u 0),
                 portDst := some ((Spec.be16 u 2 + Spec.changePortCount m) % 65536) },
       some (u16be ((Spec.be16 u 2 + Spec.changePortCount m) % 65536) ++ u16be (Spec.be16 u 0) ++
             u16be ((8 + r.length) % 65536) ++ [0, 0] ++ r)) := by
    unfold udpRepl
    simp only [e0, e2, hd]
    unfold protoHandle
    simp only [PROTO_HTTP, PROTO_STUN, hr]
    simp only [show (2 : Nat) ≠ 1 by decide, if_false, if_true]
    rfl
  refine ⟨_, _, _, hudp, ?_, ?_, ?_, ?_, rfl⟩
  · simp only [List.append_assoc]
    rw [be16_u16be]; omega
  · simp only [List.append_assoc]
    have : ∀ (a b : Nat) (t : Bytes), Spec.be16 (u16be a ++ (u16be b ++ t)) 2 = b % 65536 := by
      intro a b t
      exact (be16_append_right (a := u16be a) (n := 2) (u16be b ++ t) rfl 0).trans (be16_u16be b t)
    rw [this]; omega
  · simp [Spec.be16, Spec.u8, u16be, byte_toNat]; omega
  · have : ∀ a b c : Nat, (u16be a ++ u16be b ++ u16be c ++ [0, 0] ++ r).drop 8 = r := by
      intro a b c; simp [u16be]
    rw [this]; exact hok

/-! ### 4. other classes and methods -/

/-- C15.4 (Rust notion of class and method) a message the responder parses with class ≠ 0 or
    "method" ≠ 1 gets no reply and leaves the client info untouched -/
theorem stun_other_silent (ci : ClientInfo) (d : Bytes)
    (h : ∃ req, stunParse d = .ok (some req) ∧ (req.cls ≠ 0 ∨ req.method ≠ 1)) :
    stunRepl ci d = .ok (ci, none) := by
  obtain ⟨req, hp, ho⟩ := h
  unfold stunRepl
  rw [hp]
  dsimp only
  by_cases hc : req.cls = 0
  · have hm : req.method ≠ 1 := by rcases ho with h | h; exact absurd hc h; exact h
    rw [if_neg (by simpa using hc), if_pos hm]
  · rw [if_pos hc]

/-- what the Rust bit computation distinguishes (after fix D15): the class is bit 0 of byte 0 and bit 4
    of byte 1 (as in RFC 5389); the "method" keeps the raw bit positions — bits 1..5 of byte 0 at
    positions 8..12, byte 1 with bit 4 cleared at positions 0..7 — and is compared with 1; the two top
    bits of byte 0 are ignored -/
theorem stun_parse_class_method (d : Bytes) (req : StunReq) (h : stunParse d = .ok (some req)) :
    req.cls = (at8 d 0 % 2) * 2 + (at8 d 1 / 16 % 2) ∧
    req.method = (at8 d 0 / 2 % 32) * 256 + (at8 d 1 / 32 % 8) * 32 + at8 d 1 % 16 ∧
    req.id = slice d 4 16 := by
  unfold stunParse at h
  split at h
  · cases h
  · dsimp only at h
    split at h
    · cases h
    · split at h
      · cases h
      · split at h
        · cases h
        · cases h; exact ⟨rfl, rfl, rfl⟩

/-- a reply is only ever produced when the low six bits of byte 0 are zero and byte 1 is exactly `0x01` -/
theorem stun_reply_bytes (ci ci' : ClientInfo) (d r : Bytes) (h : stunRepl ci d = .ok (ci', some r)) :
    at8 d 0 % 64 = 0 ∧ at8 d 1 = 1 := by
  unfold stunRepl at h
  split at h
  · cases h
  · cases h
  · rename_i req hp
    obtain ⟨hc, hm, _⟩ := stun_parse_class_method d req hp
    split at h
    · cases h
    · rename_i hc0
      split at h
      · cases h
      · rename_i hm1
        have := u8_lt d 1
        rw [at8_eq_u8] at hc hm ⊢
        rw [at8_eq_u8] at hc hm ⊢
        omega

/-- C15.4 (Spec notion, full) a complete STUN message of another class (indication, success or error
    response — of ANY method) or of another method than Binding (`Spec.stunOther`) gets no reply and
    leaves the client info untouched -/
theorem stun_other_silent_spec (ci : ClientInfo) (p : Bytes) (hl : p.length ≤ 65535)
    (ho : Spec.stunOther p = true) : stunRepl ci p = .ok (ci, none) := by
  unfold Spec.stunOther at ho
  split at ho
  · rename_i m hp
    obtain ⟨attrs, hparse, _⟩ := stunParse_of_parseStun hp hl
    refine stun_other_silent ci p ⟨_, hparse, ?_⟩
    by_cases hc : m.cls = 0
    · right
      show rustMethod p ≠ 1
      intro hr
      have hm := (rustMethod_eq_one_iff hp).1 hr
      simp [hc, hm] at ho
    · exact .inl hc
  · cases ho

/-- C15.4 in particular: indications (class 1), success responses (2) and error responses (3) of ANY
    method get no reply -/
theorem stun_nonrequest_silent (ci : ClientInfo) (p : Bytes) (m : Spec.StunMsg)
    (hp : Spec.parseStun p = some m) (hl : p.length ≤ 65535) (hc : m.cls ≠ 0) :
    stunRepl ci p = .ok (ci, none) := by
  apply stun_other_silent_spec ci p hl
  unfold Spec.stunOther; rw [hp]; simp [hc]

/-- C15.4 and requests of ANY other method than Binding (0x081, 0x101, … included) get no reply -/
theorem stun_other_method_silent (ci : ClientInfo) (p : Bytes) (m : Spec.StunMsg)
    (hp : Spec.parseStun p = some m) (hl : p.length ≤ 65535) (hm : m.method ≠ 1) :
    stunRepl ci p = .ok (ci, none) := by
  apply stun_other_silent_spec ci p hl
  unfold Spec.stunOther; rw [hp]; simp [hm]

/-- exactly which complete STUN messages are answered: the Binding Requests (class 0 and the 12 method
    bits equal to 0x001, i.e. first bytes `00 01`) -/
theorem stun_answered_iff (ci : ClientInfo) (p : Bytes) (src : Ip) (sp : Nat)
    (hv : (Spec.parseStun p).isSome = true) (hl : p.length ≤ 65535)
    (hs : ci.ipSrc = some src) (hps : ci.portSrc = some sp) :
    (∃ ci' r, stunRepl ci p = .ok (ci', some r)) ↔ Spec.isBindingRequest p = true := by
  cases hp : Spec.parseStun p with
  | none => rw [hp] at hv; cases hv
  | some m =>
    constructor
    · rintro ⟨ci', r, h⟩
      by_cases hb : Spec.isBindingRequest p = true
      · exact hb
      · have ho : Spec.stunOther p = true := by
          unfold Spec.isBindingRequest at hb; unfold Spec.stunOther
          rw [hp] at hb ⊢
          dsimp only at hb ⊢
          cases hd : (decide (m.cls = 0) && decide (m.method = 1)) with
          | true => rw [hd] at hb; exact absurd rfl hb
          | false => rfl
        rw [stun_other_silent_spec ci p hl ho] at h; cases h
    · intro hb
      unfold Spec.isBindingRequest at hb
      rw [hp] at hb
      simp only [Bool.and_eq_true, decide_eq_true_eq] at hb
      exact ⟨_, _, stunRepl_binding hp hb.1 hb.2 hl hs hps⟩

/-! ### 5. no panic -/

/-- C15.5 on at most 65535 bytes the responder never panics (its only checked operation is the `u16`
    sum `20 + length`, and `20 + length ≤ d.length` when it is reached) -/
theorem stun_no_panic (ci : ClientInfo) (d : Bytes) (hl : d.length ≤ 65535) :
    ∃ x, stunRepl ci d = .ok x := by
  unfold stunRepl
  have : ∃ y, stunParse d = .ok y := by
    unfold stunParse
    split
    · exact ⟨_, rfl⟩
    · dsimp only
      split
      · exact ⟨_, rfl⟩
      · rw [if_neg (by omega)]
        split <;> exact ⟨_, rfl⟩
  obtain ⟨y, hy⟩ := this
  rw [hy]
  cases y with
  | none => exact ⟨_, rfl⟩
  | some req =>
    dsimp only
    split
    · exact ⟨_, rfl⟩
    · split
      · exact ⟨_, rfl⟩
      · split <;> exact ⟨_, rfl⟩

/-! ### 6. malformed input never produces garbage -/

/-- C15.6 whatever the input (any length, malformed TLVs, wrong length field, …): if the responder
    produces bytes at all, they are a complete, well-formed STUN success response -/
theorem stun_reply_wellformed (ci ci' : ClientInfo) (d r : Bytes)
    (hw : ∀ ip, ci.ipSrc = some ip → IpWf ip)
    (h : stunRepl ci d = .ok (ci', some r)) : Spec.looksStunResponse r = true := by
  unfold stunRepl at h
  split at h
  · cases h
  · cases h
  · rename_i req hp
    obtain ⟨_, _, hid⟩ := stun_parse_class_method d req hp
    have h20 : 20 ≤ d.length := by
      unfold stunParse at hp
      split at hp
      · cases hp
      · omega
    split at h
    · cases h
    · split at h
      · cases h
      · split at h
        · rename_i ip port hip _
          simp only [Except.ok.injEq, Prod.mk.injEq, Option.some.injEq] at h
          rw [← h.2]
          exact looksStunResponse_reply req.id ip port (by rw [hid]; exact slice_length_of_le (by omega)) (hw ip hip)
        · cases h

/-- C15.6 for every input of at most 65535 bytes: silence, or a well-formed success response -/
theorem stun_malformed_silent_or_answered (ci : ClientInfo) (d : Bytes) (hl : d.length ≤ 65535)
    (hw : ∀ ip, ci.ipSrc = some ip → IpWf ip) :
    (∃ ci', stunRepl ci d = .ok (ci', none)) ∨
    (∃ ci' r, stunRepl ci d = .ok (ci', some r) ∧ Spec.looksStunResponse r = true) := by
  obtain ⟨⟨ci', o⟩, hx⟩ := stun_no_panic ci d hl
  cases o with
  | none => exact .inl ⟨ci', hx⟩
  | some r => exact .inr ⟨ci', r, hx, stun_reply_wellformed ci ci' d r hw hx⟩

/-! ### non-vacuity -/
section examples
open C15ex C07ex

/-- hypotheses of `stun_binding_success_partial` on the RFC 3489 change-request request (one bump),
    on the cookie-bearing request with a padded SOFTWARE attribute of length 253 followed by a
    change-request (one bump), and on a request ending in a 4-byte attribute (one bump, not two) -/
example :
    (Spec.parseStun reqA).any (fun m => m.cls = 0 && m.method = 1 && Spec.changePortCount m = 1 &&
        m.attrs.length = 1) = true ∧
    (Spec.parseStun reqB).any (fun m => m.cls = 0 && m.method = 1 && Spec.changePortCount m = 1 &&
        m.attrs.length = 2) = true ∧
    (Spec.parseStun reqC).any (fun m => m.cls = 0 && m.method = 1 && Spec.changePortCount m = 1 &&
        m.attrs.length = 2) = true ∧
    reqA.length ≤ 65535 ∧ reqB.length = 288 ∧ ci4.ipSrc = some src4 ∧ ci4.portSrc = some 65535 ∧
    IpWf src4 ∧ ci6.ipSrc = some src6 ∧ IpWf src6 := by decide +kernel

/-- … and the conclusions, computed: source port 65535 reflected, reply port 65535 + 1 = 0 (IPv4);
    family 2 / 16-byte address, port 3478 + 1 (IPv6) -/
example :
    (match stunRepl ci4 reqA, Spec.parseStun reqA with
     | .ok (ci', some r), some m => Spec.stunSuccessOk m r src4 65535 && ci'.portDst = some 0 && r.length = 32
     | _, _ => false) = true ∧
    (match stunRepl ci4 reqB, Spec.parseStun reqB with
     | .ok (ci', some r), some m => Spec.stunSuccessOk m r src4 65535 && ci'.portDst = some 0
     | _, _ => false) = true ∧
    (match stunRepl ci4 reqC, Spec.parseStun reqC with
     | .ok (ci', some r), some m => Spec.stunSuccessOk m r src4 65535 && ci'.portDst = some 0
     | _, _ => false) = true ∧
    (match stunRepl ci6 reqB, Spec.parseStun reqB with
     | .ok (ci', some r), some m => Spec.stunSuccessOk m r src6 55000 && ci'.portDst = some 3479 && r.length = 44
     | _, _ => false) = true := by decide +kernel

/-- `stun_attrs_bridge` / `stun_trailing_attr`: attribute areas of `reqB` and the last 4 bytes of `reqC` -/
example :
    (Spec.stunTlvs 269 (reqB.drop 20)).isSome = true ∧ (stunAttrs 269 (reqB.drop 20)).isSome = true ∧
    (Spec.stunTlvs 5 [0, 3, 0, 0]) = some [(3, [])] := by decide +kernel

/-- `stun_change_port_udp`: the dispatcher hypothesis holds for the datagrams carrying `reqA` and `reqB`
    (55000 → 65535), and the reply leaves from port 0 to port 55000 -/
example :
    protoRepl cfg0 env0 { ciU with portSrc := some (Spec.be16 udpA 0), portDst := some (Spec.be16 udpA 2) } none (udpA.drop 8)
      = protoHandle cfg0 env0 PROTO_STUN
          { ciU with portSrc := some (Spec.be16 udpA 0), portDst := some (Spec.be16 udpA 2) } none (udpA.drop 8) ∧
    protoRepl cfg0 env0 { ciU with portSrc := some (Spec.be16 udpB 0), portDst := some (Spec.be16 udpB 2) } none (udpB.drop 8)
      = protoHandle cfg0 env0 PROTO_STUN
          { ciU with portSrc := some (Spec.be16 udpB 0), portDst := some (Spec.be16 udpB 2) } none (udpB.drop 8) ∧
    8 ≤ udpA.length ∧ udpA.length ≤ 65535 ∧ Spec.isBindingRequest (udpA.drop 8) = true ∧
    Spec.isBindingRequest (udpB.drop 8) = true ∧ ciU.ipSrc = some src4 := by decide +kernel
example :
    (match udpRepl cfg0 env0 ciU udpA with
     | .ok (_, _, some r) => Spec.be16 r 0 = 0 && Spec.be16 r 2 = 55000 && Spec.be16 r 4 = 40
     | _ => false) = true ∧
    (match udpRepl cfg0 env0 ciU udpB with
     | .ok (_, _, some r) => Spec.be16 r 0 = 0 && Spec.be16 r 2 = 55000 && Spec.be16 r 4 = 40
     | _ => false) = true := by decide +kernel

/-- `stun_other_silent`, `stun_other_silent_spec`, `stun_nonrequest_silent`, `stun_other_method_silent`:
    a Binding indication, success response, error response, an Allocate request and the request of
    method 0x081 `02 01 00 00 07×16` (answered before fix D15) are complete STUN messages
    (`Spec.stunOther`) and are not answered -/
example :
    Spec.stunOther indB = true ∧ Spec.stunOther sucB = true ∧ Spec.stunOther errB = true ∧
    Spec.stunOther reqAlloc = true ∧ Spec.stunOther reqM81 = true ∧
    (Spec.parseStun indB).any (fun m => m.cls = 1) = true ∧
    (Spec.parseStun sucB).any (fun m => m.cls = 2) = true ∧
    (Spec.parseStun errB).any (fun m => m.cls = 3) = true ∧
    (Spec.parseStun reqAlloc).any (fun m => m.cls = 0 && m.method = 3) = true ∧
    (Spec.parseStun reqM81).any (fun m => m.cls = 0 && m.method = 0x081) = true ∧
    stunRepl ci4 indB = .ok (ci4, none) ∧ stunRepl ci4 sucB = .ok (ci4, none) ∧
    stunRepl ci4 errB = .ok (ci4, none) ∧ stunRepl ci4 reqAlloc = .ok (ci4, none) ∧
    stunRepl ci4 reqM81 = .ok (ci4, none) := by decide +kernel

/-- `stun_answered_iff`: both sides occur -/
example :
    (Spec.parseStun reqA).isSome = true ∧ Spec.isBindingRequest reqA = true ∧
    (Spec.parseStun reqM81).isSome = true ∧ Spec.isBindingRequest reqM81 = false := by decide +kernel

/-- `stun_malformed_silent_or_answered`: a TLV running past the data gives silence; the hypothesis on
    the client info holds -/
example : stunRepl ci4 badTlv = .ok (ci4, none) ∧ (∀ ip, ci4.ipSrc = some ip → IpWf ip) := by
  refine ⟨by decide +kernel, ?_⟩
  intro ip h; cases h; decide

/-- `stun_binding_oversize_panics`: a 65536-byte Binding Request the Spec accepts -/
example : big.length = 65536 ∧ Spec.isBindingRequest big = true := by decide +kernel

end examples

#print axioms stun_attrs_bridge
#print axioms stun_trailing_attr
#print axioms stun_binding_bytes
#print axioms stun_binding_success_partial
#print axioms stun_binding_oversize_panics
#print axioms stun_change_port_udp
#print axioms stun_other_silent
#print axioms stun_parse_class_method
#print axioms stun_reply_bytes
#print axioms stun_other_silent_spec
#print axioms stun_nonrequest_silent
#print axioms stun_other_method_silent
#print axioms stun_answered_iff
#print axioms stun_no_panic
#print axioms stun_reply_wellformed
#print axioms stun_malformed_silent_or_answered

end Masscanned.C15
