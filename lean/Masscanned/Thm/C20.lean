/-
  C20 — "The log tells what happened" (first sentence; the two text formats are checked on the
  real logger's output).

  For every processed frame the event log contains, for each layer the frame reached, exactly one
  `recv` event and later exactly one terminal event (`send` or `drop`) of that layer, nested from
  Ethernet inwards (`Spec.wellNested`: `eth.recv (arp.recv arp.T | ipX.recv (l4.recv l4.T)? ipX.T)? eth.T`
  with consistent terminals); the Ethernet-level terminal is `send` exactly when a reply frame is
  emitted (`Spec.terminalMatchesReply`; no events at all iff the frame is a runt < 14 bytes); and
  every address / port carried by an event is the frame's own (`Spec.fieldsOfFrame`), the one
  exception being the destination port on `send` events of a reply that is a STUN Binding Success
  Response (payload `01 01 …`), where masscanned prints the port it answers from.

  All theorems hold for EVERY configuration, environment, connection table and frame; the hypothesis
  `(step …).out = .ok o` only excludes the frames on which the model reports a panic of the Rust
  code (no events are modelled for those).  `cfg.mac.length = 6` (a MAC address has 6 bytes) is
  needed only where the reply frame is read back (the STUN flag).
-/
import Masscanned.Proofs.C20.Grammar
import Masscanned.Proofs.C20.Examples
namespace Masscanned.C20
open Masscanned

/-- C20 (1): the event sequence of a frame is balanced and nested from Ethernet inwards. -/
theorem events_balanced (cfg : Cfg) (env : Env) (st : Table) (f : Bytes) (o : Option Bytes)
    (h : (step cfg env st f).out = .ok o) :
    Spec.wellNested ((step cfg env st f).evs.map (fun e => (e.layer, e.verb))) = true := by
  rcases step_evs h with ⟨_, he, _⟩ | ⟨_, hs⟩
  · rw [he]; rfl
  · exact wellNested_of_shape hs

/-- C20 (2): no events iff the frame is a runt; otherwise the Ethernet terminal event is `send`
    exactly when a reply frame is emitted (and `drop` exactly when none is). -/
theorem eth_send_iff_reply (cfg : Cfg) (env : Env) (st : Table) (f : Bytes) (o : Option Bytes)
    (h : (step cfg env st f).out = .ok o) :
    Spec.terminalMatchesReply f ((step cfg env st f).evs.map (fun e => (e.layer, e.verb))) o.isSome
      = true := by
  rcases step_evs h with ⟨hlt, he, rfl⟩ | ⟨hge, hs⟩
  · rw [he]; simp [Spec.terminalMatchesReply, hlt]
  · exact terminalMatches_of_shape hge hs

/-- (2) spelled out: for a frame of at least 14 bytes the last event is the Ethernet terminal, and it
    is `send` iff there is a reply. -/
theorem eth_terminal_send_iff (cfg : Cfg) (env : Env) (st : Table) (f : Bytes) (o : Option Bytes)
    (h : (step cfg env st f).out = .ok o) (hf : 14 ≤ f.length) :
    Spec.ethTerminal ((step cfg env st f).evs.map (fun e => (e.layer, e.verb))) =
      some (if o.isSome then .send else .drop) := by
  rcases step_evs h with ⟨hlt, _, _⟩ | ⟨_, hs⟩
  · omega
  · exact terminal_of_shape hs

/-- the flag `Spec.judgeC20` computes from the observed reply (`C20.stunFlag`, Proofs/C20/Fields) -/
theorem stunFlag_eq (o : Option Bytes) :
    stunFlag o = (match o with
      | some r => let a := Spec.appPayload r; Spec.u8 a 0 = 1 && Spec.u8 a 1 = 1
      | none => false) := rfl

/-- C20 (3): every address and port carried by an event is the frame's own: MACs of the Ethernet
    header, IP addresses / next protocol of the IP header, ports of the L4 header at `Spec.l4Off f`,
    ARP addresses of the ARP body.  The destination port may differ only on `send` events of a
    reply whose application payload starts with `01 01` (`stunFlag o`). -/
theorem event_fields_are_frame_fields (cfg : Cfg) (env : Env) (st : Table) (f : Bytes) (o : Option Bytes)
    (hm : cfg.mac.length = 6) (h : (step cfg env st f).out = .ok o) :
    ∀ e ∈ (step cfg env st f).evs, Spec.fieldsOfFrame f e (stunFlag o) = true := by
  rcases step_evs h with ⟨_, he, _⟩ | ⟨hge, hs⟩
  · rw [he]; intro e h; cases h
  · exact fields_of_shape hm hge hs

/-- C20 (3'), away from STUN: if the reply is not a STUN success response (in particular if there
    is no reply) no exception is needed at all. -/
theorem event_fields_no_stun (cfg : Cfg) (env : Env) (st : Table) (f : Bytes) (o : Option Bytes)
    (hm : cfg.mac.length = 6) (h : (step cfg env st f).out = .ok o) (hs : stunFlag o = false) :
    ∀ e ∈ (step cfg env st f).evs, Spec.fieldsOfFrame f e false = true := by
  have := event_fields_are_frame_fields cfg env st f o hm h
  rwa [hs] at this

/-- C20 (4): the judge that is run on the real implementation's output accepts the model's. -/
theorem judge_accepts_model (cfg : Cfg) (env : Env) (st : Table) (f : Bytes) (o : Option Bytes)
    (hm : cfg.mac.length = 6) (h : (step cfg env st f).out = .ok o) :
    (Spec.judgeC20 f o (step cfg env st f).evs).ok = true := by
  have h1 := events_balanced cfg env st f o h
  have h2 := eth_send_iff_reply cfg env st f o h
  have h3 : (step cfg env st f).evs.all (fun e => Spec.fieldsOfFrame f e (stunFlag o)) = true :=
    List.all_eq_true.mpr (event_fields_are_frame_fields cfg env st f o hm h)
  unfold Spec.judgeC20
  simp only [h1, h2, Bool.not_true, Bool.false_eq_true, if_false]
  generalize hb : (step cfg env st f).evs.all _ = b
  have hbt : b = true := by rw [← hb]; exact h3
  subst hbt
  rfl

/-- the judge's verdict is non-trivial exactly when the frame produced events, i.e. is not a runt -/
theorem judge_nontrivial (cfg : Cfg) (env : Env) (st : Table) (f : Bytes) (o : Option Bytes)
    (hm : cfg.mac.length = 6) (h : (step cfg env st f).out = .ok o) :
    (Spec.judgeC20 f o (step cfg env st f).evs).nontrivial = decide (14 ≤ f.length) := by
  have h1 := events_balanced cfg env st f o h
  have h2 := eth_send_iff_reply cfg env st f o h
  have h3 : (step cfg env st f).evs.all (fun e => Spec.fieldsOfFrame f e (stunFlag o)) = true :=
    List.all_eq_true.mpr (event_fields_are_frame_fields cfg env st f o hm h)
  unfold Spec.judgeC20
  simp only [h1, h2, Bool.not_true, Bool.false_eq_true, if_false]
  generalize hb : (step cfg env st f).evs.all _ = b
  have hbt : b = true := by rw [← hb]; exact h3
  subst hbt
  rw [if_pos rfl]
  rcases step_evs h with ⟨hlt, he, _⟩ | ⟨hge, hs⟩
  · rw [he]; simp [Spec.pass]; omega
  · have : (step cfg env st f).evs ≠ [] := by
      rcases hs with ⟨he, _⟩ | ⟨_, _, _, _, he⟩ | ⟨_, _, _, _, he, _⟩ | ⟨_, _, _, _, he, _⟩ <;>
        (rw [he]; simp)
    cases hevs : (step cfg env st f).evs with
    | nil => exact absurd hevs this
    | cons a l => simp [Spec.pass, hge]

/-! ### non-vacuity -/

example : Ex.cfg.mac.length = 6 := rfl
-- the hypotheses of the theorems are satisfiable: the ARP request is answered (no panic) …
example : (step Ex.cfg Ex.env [] Ex.arpReq).out = .ok (some Ex.arpReply) := by rfl
-- … so the theorems apply to it
example : (Spec.judgeC20 Ex.arpReq (some Ex.arpReply) (step Ex.cfg Ex.env [] Ex.arpReq).evs).ok = true :=
  judge_accepts_model Ex.cfg Ex.env [] Ex.arpReq _ rfl (by rfl)
example : (step Ex.cfg Ex.env [] Ex.stunReq).out = .ok (some Ex.stunReply) := Ex.outIs_sound (by decide +kernel)

-- ARP request for our address: eth.recv arp.recv arp.send eth.send, and a reply
example : Ex20.trace Ex.arpReq = [(.eth, .recv), (.arp, .recv), (.arp, .send), (.eth, .send)] := by
  decide +kernel
example : Ex20.replied Ex.arpReq = true := by decide +kernel
example : Ex20.judged Ex.arpReq = some (true, true) := by decide +kernel

-- TCP SYN over IPv4: three nested layers, all `send`
example : Ex20.trace Ex.synReq =
    [(.eth, .recv), (.ipv4, .recv), (.tcp, .recv), (.tcp, .send), (.ipv4, .send), (.eth, .send)] := by
  decide +kernel
example : Ex20.replied Ex.synReq = true := by decide +kernel
example : Ex20.judged Ex.synReq = some (true, true) := by decide +kernel

-- UDP STUN Binding Request with CHANGE-REQUEST(change port), 10.0.0.2:4660 → 10.0.0.1:3478:
-- the `recv` event prints port 3478, the three `send` events print 3479 — the STUN exception of
-- clause (3) is real, and needed
example : Ex20.trace Ex.stunReq =
    [(.eth, .recv), (.ipv4, .recv), (.udp, .recv), (.udp, .send), (.ipv4, .send), (.eth, .send)] := by
  decide +kernel
example : Ex20.dstPorts Ex.stunReq =
    [(.eth, .recv, none), (.ipv4, .recv, none), (.udp, .recv, some 3478), (.udp, .send, some 3479),
     (.ipv4, .send, some 3479), (.eth, .send, some 3479)] := by decide +kernel
example : Ex20.judged Ex.stunReq = some (true, true) := by decide +kernel
example : stunFlag (some Ex.stunReply) = true := by decide +kernel
example : ((step Ex.cfg Ex.env [] Ex.stunReq).evs.all (fun e => Spec.fieldsOfFrame Ex.stunReq e false))
    = false := by decide +kernel

-- ICMPv6 echo request fe80::2 → fe80::1
example : Ex20.trace Ex20.echo6Req =
    [(.eth, .recv), (.ipv6, .recv), (.icmpv6, .recv), (.icmpv6, .send), (.ipv6, .send), (.eth, .send)] := by
  decide +kernel
example : Ex20.replied Ex20.echo6Req = true := by decide +kernel
example : Ex20.judged Ex20.echo6Req = some (true, true) := by decide +kernel

-- a frame to a foreign MAC: eth.recv eth.drop, no reply
example : Ex20.trace Ex.arpReqForeign = [(.eth, .recv), (.eth, .drop)] := by decide +kernel
example : Ex20.replied Ex.arpReqForeign = false := by decide +kernel
example : Ex20.judged Ex.arpReqForeign = some (true, true) := by decide +kernel

-- dropped at L3 (denied source; unhandled protocol): the drop propagates outwards
example : Ex20.trace Ex.echoReqDenied = [(.eth, .recv), (.ipv4, .recv), (.ipv4, .drop), (.eth, .drop)] := by
  decide +kernel
example : Ex20.trace Ex.greFrame = [(.eth, .recv), (.ipv4, .recv), (.ipv4, .drop), (.eth, .drop)] := by
  decide +kernel

-- a 5-byte runt: no event, no reply; the judge passes trivially
example : Ex20.trace Ex20.runt = [] := by decide +kernel
example : Ex20.judged Ex20.runt = some (true, false) := by decide +kernel

-- the grammar can fail: two `arp.recv` in a row, a missing terminal, a terminal of the wrong
-- layer, an inner `send` under an outer `drop`, an L4 layer of the other IP version
example : Spec.wellNested [(.eth, .recv), (.arp, .recv), (.arp, .recv), (.eth, .drop)] = false := by decide
example : Spec.wellNested [(.eth, .recv), (.arp, .recv), (.arp, .recv), (.arp, .drop), (.eth, .drop)] = false := by
  decide
example : Spec.wellNested [(.eth, .recv)] = false := by decide
example : Spec.wellNested [(.eth, .recv), (.ipv4, .recv), (.ipv6, .drop), (.eth, .drop)] = false := by decide
example : Spec.wellNested [(.eth, .recv), (.arp, .recv), (.arp, .send), (.eth, .drop)] = false := by decide
example : Spec.wellNested
    [(.eth, .recv), (.ipv4, .recv), (.icmpv6, .recv), (.icmpv6, .drop), (.ipv4, .drop), (.eth, .drop)] = false := by
  decide
example : Spec.wellNested [(.eth, .recv), (.eth, .send)] = false := by decide
-- … and so can the terminal/reply clause: `eth.send` without a reply, events for a runt
example : Spec.terminalMatchesReply Ex.arpReq [(.eth, .recv), (.arp, .recv), (.arp, .send), (.eth, .send)] false
    = false := by decide
example : Spec.terminalMatchesReply Ex20.runt [(.eth, .recv), (.eth, .drop)] false = false := by decide
-- … and the fields clause: an event printing somebody else's source MAC
example : Spec.fieldsOfFrame Ex.arpReqForeign (ev .eth .recv { macSrc := some Ex.cfg.mac, macDst := some [2, 0, 0, 0, 0, 9] })
    false = false := by decide

end Masscanned.C20

#print axioms Masscanned.C20.events_balanced
#print axioms Masscanned.C20.eth_send_iff_reply
#print axioms Masscanned.C20.eth_terminal_send_iff
#print axioms Masscanned.C20.event_fields_are_frame_fields
#print axioms Masscanned.C20.event_fields_no_stun
#print axioms Masscanned.C20.judge_accepts_model
#print axioms Masscanned.C20.judge_nontrivial
