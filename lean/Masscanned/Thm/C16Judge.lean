/-
  Thm/C16Judge — SOUNDNESS of the run-time judge `Spec.judgeC16` (ONC-RPC, Spec/JudgeApp.lean) with
  respect to the model: the verdict on the observation built from the MODEL's own answer to one call
  (`J4.obsOf`, built exactly as `Main.judgeApp` builds it from a call of the real program).

  * `judgeC16_accepts_model_outside_shadow_udp` / `_tcp` — a datagram / the first segment of a fresh TCP
    flow outside `Spec.shadowed`: accepted.  (The one-byte-short quirk `Spec.rpcOneShort` needs no
    hypothesis: a complete call has at least 40 bytes, the quirk concerns 23 / 27 bytes.)
  * `judgeC16_fails_only_shadowed_udp` / `_tcp` — with NO shadow hypothesis: accepted, or failed with the
    "[shadowed]" marker of known finding K2.  FULL STRENGTH: no counterexample for `forced = none`; every
    failure branch of `judgeC16` goes through `failShadow`.
  Hypotheses: the client info carries the contacted address and a 16-bit port (always the case, the reply
  builder would `unwrap()` them otherwise), and over TCP the SYN-cookie gate of `proto::repl` is open
  (`ci.cookie ≠ none`: the TCP layer always sets it; with the gate closed nothing is ever answered and
  the judge would report "call not answered" — `gate_needed` below).

  Examined and found harmless: a record mark WITHOUT the last-fragment bit.  `rpcReplTcp` reads the mark
  and answers all the same (`C16.rpc_reply_tcp` has no hypothesis on the mark), and so does the judge
  expect; first byte `00` of such a mark is one of the nine shadowed values (marker), any other value
  below 0x80 outside the nine is answered and accepted (`example` below, mark `01 00 00 28`).

  A whole connection: `rpc_tcp_flow_all_answered` — first call identified outside the shadow set, then any
  number of further calls, one per segment: every one answered with the prescribed reply for its own xid.

  Later segment of a flow whose sticky id is ONC-RPC/TCP (`forced = some 5`): `judgeC16_accepts_model_sticky`
  — on a control block whose stored parser state is the initial one (`RPC {}`: the state stored after ANY
  answered call since `repl_tcp` resets it, `C16.rpc_tcp_state_reset`; the harness judges a later call only
  when the previous message of the flow was answered, which is exactly this situation) the verdict on the
  model's answer is "ok", FULL STRENGTH: no shadow hypothesis (in sticky mode the matcher is not consulted),
  whatever the segment contains.  The hypothesis on the stored state is needed (`sticky_fresh_needed`: after an
  incomplete call the next segment continues that call).  Regression: `judgeC16_sticky_second_call` — the
  second call of a connection gets the reply for its own xid and is accepted with `nontrivial = true` (before
  the repair of src/proto/rpc.rs it got the FIRST call's reply and the judge failed on it without marker:
  formerly `judgeC16_sticky_stale_witness`).
-/
import Masscanned.Proofs.J4.Judge
import Masscanned.Thm.C10E2E
open Masscanned
namespace Masscanned.C16Judge
open Masscanned.Spec Masscanned.E2E Masscanned.J4 Masscanned.C10

/-- what the UDP / TCP layers guarantee about the client info they hand over: the contacted address and
    a 16-bit contacted port -/
structure CiOk (ci : ClientInfo) : Prop where
  dst : ∃ ip, ci.ipDst = some ip
  dport : ∃ dp, ci.portDst = some dp ∧ dp < 65536

/-! ### datagram -/

/-- **C16 judge, soundness outside the shadow set, datagram** -/
theorem judgeC16_accepts_model_outside_shadow_udp (cfg : Cfg) (env : Env) (ci ci' : ClientInfo) (tcb' : Option Tcb)
    (p : Bytes) (reply : Option Bytes) (hudp : ci.transport ≠ some 6) (hci : CiOk ci)
    (hrun : protoRepl cfg env ci none p = .ok (ci', tcb', reply)) (hns : shadowed p = false) :
    (judgeC16 (obsOf ci p ci' reply)).ok = true := by
  rw [judgeC16_obs_udp _ _ _ _ hudp]
  have hg : Gate ci := fun h => hudp h.1
  obtain ⟨ip, hip⟩ := hci.dst
  obtain ⟨dp, hdp, hlt⟩ := hci.dport
  cases hc : parseCall p with
  | none => rfl
  | some c =>
    simp only
    by_cases hr : refDatagram p = some ID_RPC_UDP
    · rw [if_pos hr]
      have h40 : 40 ≤ p.length := (parseCall_inv p c hc).1
      have hq : rpcOneShort p = false := by
        cases hq : rpcOneShort p with
        | false => rfl
        | true => have := oneShort_length p hq; omega
      have hk : refDatagramK2 p = some ID_RPC_UDP := by
        rw [C10.refDatagramK2_eq_of_not_shadowed p hns hq]; exact hr
      obtain ⟨r, hrep, hok⟩ := C16.rpc_reply_udp cfg.ovf ci p c ip dp hc hip hdp hlt
      rw [repl_datagram_some cfg env ci p _ hg hk, handle_rpc_udp, hrep] at hrun
      simp only [Except.ok.injEq, Prod.mk.injEq] at hrun
      obtain ⟨_, _, rfl⟩ := hrun
      simp only [hip, hdp, Option.getD_some, hok, if_true]
      rfl
    · rw [if_neg hr]; rfl

/-- **C16 judge, every failure on model behaviour is classified as K2, datagram** (full strength) -/
theorem judgeC16_fails_only_shadowed_udp (cfg : Cfg) (env : Env) (ci ci' : ClientInfo) (tcb' : Option Tcb)
    (p : Bytes) (reply : Option Bytes) (hudp : ci.transport ≠ some 6) (hci : CiOk ci)
    (hrun : protoRepl cfg env ci none p = .ok (ci', tcb', reply)) :
    okOrMarked (judgeC16 (obsOf ci p ci' reply)) := by
  cases hs : shadowed p with
  | false => exact .inl (judgeC16_accepts_model_outside_shadow_udp cfg env ci ci' tcb' p reply hudp hci hrun hs)
  | true => exact judgeC16_shadowed _ hs

/-! ### first segment of a TCP flow -/

/-- **C16 judge, soundness outside the shadow set, first TCP segment** -/
theorem judgeC16_accepts_model_outside_shadow_tcp (cfg : Cfg) (env : Env) (ci ci' : ClientInfo) (tcb' : Option Tcb)
    (p : Bytes) (reply : Option Bytes) (htcp : ci.transport = some 6) (hck : ci.cookie ≠ none) (hci : CiOk ci)
    (hrun : protoRepl cfg env ci (some {}) p = .ok (ci', tcb', reply)) (hns : shadowed p = false) :
    (judgeC16 (obsOf ci p ci' reply)).ok = true := by
  rw [judgeC16_obs_tcp _ _ _ _ htcp]
  have hg : Gate ci := fun h => hck h.2
  obtain ⟨ip, hip⟩ := hci.dst
  obtain ⟨dp, hdp, hlt⟩ := hci.dport
  split
  · rfl
  · rename_i h4
    cases hc : parseCall (p.drop 4) with
    | none => rfl
    | some c =>
      simp only
      by_cases hr : refStream p = some ID_RPC_TCP
      · rw [if_pos hr]
        have hk : refStreamK2 p = some ID_RPC_TCP := by
          rw [C10.refStreamK2_eq_of_not_shadowed p hns]; exact hr
        obtain ⟨s, r, body, hrep, hmark, hok⟩ := C16.rpc_reply_tcp cfg.ovf ci p c ip dp (by omega) hc hip hdp hlt
        obtain ⟨st, hst⟩ := repl_stream_some cfg env ci p _ hg hk
        rw [hst, handle_rpc_tcp_fresh, hrep] at hrun
        simp only [Except.ok.injEq, Prod.mk.injEq] at hrun
        obtain ⟨_, _, rfl⟩ := hrun
        simp only [hmark, hip, hdp, Option.getD_some, hok, if_true]
        rfl
      · rw [if_neg hr]; rfl

/-- **C16 judge, every failure on model behaviour is classified as K2, first TCP segment** (full strength) -/
theorem judgeC16_fails_only_shadowed_tcp (cfg : Cfg) (env : Env) (ci ci' : ClientInfo) (tcb' : Option Tcb)
    (p : Bytes) (reply : Option Bytes) (htcp : ci.transport = some 6) (hck : ci.cookie ≠ none) (hci : CiOk ci)
    (hrun : protoRepl cfg env ci (some {}) p = .ok (ci', tcb', reply)) :
    okOrMarked (judgeC16 (obsOf ci p ci' reply)) := by
  cases hs : shadowed p with
  | false =>
    exact .inl (judgeC16_accepts_model_outside_shadow_tcp cfg env ci ci' tcb' p reply htcp hck hci hrun hs)
  | true => exact judgeC16_shadowed _ hs

/-! ### later segment of a flow whose sticky id is ONC-RPC/TCP -/

/-- **C16 judge, sticky mode** (the harness reads the sticky id from the program's table and passes
    `forced = some 5`; the model's answer is the handler call `protoHandle … ID_RPC_TCP …` on this segment
    alone): on a control block whose stored parser state is the initial one — `RPC {}` as after any answered
    call, or not yet created — the verdict is "ok".  FULL STRENGTH: any client info carrying the contacted
    address and port, any payload, no shadow hypothesis, no gate hypothesis (the handler is behind the gate). -/
theorem judgeC16_accepts_model_sticky (cfg : Cfg) (env : Env) (ci ci' : ClientInfo) (t : Tcb) (tcb' : Option Tcb)
    (p : Bytes) (reply : Option Bytes) (hci : CiOk ci)
    (hst : t.protoState = none ∨ t.protoState = some (.rpc {}))
    (hrun : protoHandle cfg env ID_RPC_TCP ci (some t) p = .ok (ci', tcb', reply)) :
    (judgeC16 (obsOfForced ci p ci' reply ID_RPC_TCP)).ok = true := by
  obtain ⟨ip, hip⟩ := hci.dst
  obtain ⟨dp, hdp, hlt⟩ := hci.dport
  simp only [judgeC16, refOf, obsOfForced, obsOf]
  by_cases htcp : ci.transport = some 6
  · simp only [htcp, decide_true, if_true, true_and]
    split
    · rfl
    · rename_i h4
      cases hc : parseCall (p.drop 4) with
      | none => rfl
      | some c =>
        simp only
        obtain ⟨r, body, hrep, hmark, hok, _⟩ :=
          C16.rpc_reply_tcp_every_call cfg.ovf ci p c ip dp (by omega) hc hip hdp hlt
        rw [show ID_RPC_TCP = PROTO_RPC_TCP from rfl, C16.protoHandle_rpc_of_fresh cfg env ci t hst, hrep] at hrun
        simp only [Except.ok.injEq, Prod.mk.injEq] at hrun
        obtain ⟨_, _, rfl⟩ := hrun
        simp only [hmark, hip, hdp, Option.getD_some, hok, if_true]
        rfl
  · simp only [htcp, decide_false, Bool.false_eq_true, false_and, if_false]
    cases parseCall p with
    | none => rfl
    | some c => rfl

/-- hence also in the weaker form shared by the other judges -/
theorem judgeC16_sticky_ok_or_marked (cfg : Cfg) (env : Env) (ci ci' : ClientInfo) (t : Tcb) (tcb' : Option Tcb)
    (p : Bytes) (reply : Option Bytes) (hci : CiOk ci)
    (hst : t.protoState = none ∨ t.protoState = some (.rpc {}))
    (hrun : protoHandle cfg env ID_RPC_TCP ci (some t) p = .ok (ci', tcb', reply)) :
    okOrMarked (judgeC16 (obsOfForced ci p ci' reply ID_RPC_TCP)) :=
  .inl (judgeC16_accepts_model_sticky cfg env ci ci' t tcb' p reply hci hst hrun)

/-! ### a whole connection -/

/-- **every call of a connection is answered**: on a fresh flow, a first segment holding a complete call
    that is identified as ONC-RPC/TCP outside the shadow set (the hypotheses of
    `judgeC16_accepts_model_outside_shadow_tcp`), followed by ANY number of further segments each holding a
    complete call: `proto::repl`, fed the segments one after the other with the flow's control block
    (`C11.feed`), never panics and answers the k-th call with the prescribed reply to the k-th call — its own
    xid (`C16.AllAnswered`); the block ends identified as ONC-RPC/TCP with the initial parser state. -/
theorem rpc_tcp_flow_all_answered (cfg : Cfg) (env : Env) (ci : ClientInfo) (hck : ¬(ci.transport = some 6 ∧ ci.cookie = none))
    (ip : Ip) (dp : Nat) (hip : ci.ipDst = some ip) (hdp : ci.portDst = some dp) (hlt : dp < 65536)
    (p1 : Bytes) (c1 : RpcCall) (h1 : C16.TcpCall p1 c1) (hr : refStream p1 = some ID_RPC_TCP)
    (hns : shadowed p1 = false)
    (cs : List (Bytes × RpcCall)) (hcs : ∀ pc ∈ cs, C16.TcpCall pc.1 pc.2) :
    ∃ t rs, C11.feed cfg env ci {} (p1 :: cs.map (·.1)) = .ok (t, rs) ∧
      C16.AllAnswered ip dp ((p1, c1) :: cs) rs ∧ C16.FreshRpc t := by
  have hk : refStreamK2 p1 = some ID_RPC_TCP := by
    rw [C10.refStreamK2_eq_of_not_shadowed p1 hns]; exact hr
  obtain ⟨st, hst⟩ := repl_stream_some cfg env ci p1 _ hck hk
  obtain ⟨r, body, hrep, hmark, hok, _⟩ :=
    C16.rpc_reply_tcp_every_call cfg.ovf ci p1 c1 ip dp h1.1 h1.2 hip hdp hlt
  have hfirst : protoRepl cfg env ci (some {}) p1 =
      .ok (ci, some (C16.resetBlock { protoId := ID_RPC_TCP, smackState := st }), some r) := by
    rw [hst, show ID_RPC_TCP = PROTO_RPC_TCP from rfl,
      C16.protoHandle_rpc_of_fresh cfg env ci _ (.inl rfl), hrep]
    rfl
  obtain ⟨t, rs, hfeed, hall, hfresh, _⟩ :=
    C16.rpc_tcp_calls_all_answered cfg env ci hck ip dp hip hdp hlt cs hcs
      (C16.resetBlock { protoId := ID_RPC_TCP, smackState := st }) (C16.freshRpc_resetBlock rfl)
  exact ⟨t, some r :: rs, by rw [C11.feed_cons_ok cfg env ci ci _ _ p1 _ _ hfirst, hfeed],
    ⟨⟨r, body, rfl, hmark, hok⟩, hall⟩, hfresh⟩

/-! ### non-vacuity, the hypotheses are needed, the sticky case -/
section examples
open C10E2E

theorem ciOk_ciUdp : CiOk ciUdp := ⟨⟨_, rfl⟩, ⟨_, rfl, by decide⟩⟩
theorem ciOk_ciTcp : CiOk ciTcp := ⟨⟨_, rfl⟩, ⟨_, rfl, by decide⟩⟩

/-- a GETPORT call over UDP / behind a last-fragment record mark over TCP / behind a record mark WITHOUT
    the last-fragment bit (`01 00 00 28`): outside `Spec.shadowed`, answered, verdict "ok" with
    `nontrivial = true` -/
def callU : Bytes := C16.mkCall 0x72fe1d13 100000 2 3
def callT : Bytes := C16.tcpMsg (C16.mkCall 0x01020304 100000 4 3)
def callNonFinal : Bytes := [1, 0, 0, 40] ++ C16.mkCall 0x01020304 100000 4 3

example :
    shadowed callU = false ∧ shadowed callT = false ∧ shadowed callNonFinal = false ∧
    ciUdp.transport ≠ some 6 ∧ ciTcp.transport = some 6 ∧ ciTcp.cookie ≠ none ∧
    (modelVerdict judgeC16 C18.cfgE C18.envE ciUdp none callU).any (fun v => v.ok && v.nontrivial) = true ∧
    (modelVerdict judgeC16 C18.cfgE C18.envE ciTcp (some {}) callT).any (fun v => v.ok && v.nontrivial) = true ∧
    (modelVerdict judgeC16 C18.cfgE C18.envE ciTcp (some {}) callNonFinal).any
      (fun v => v.ok && v.nontrivial) = true := by
  decide +kernel

/-- the theorems applied -/
example (ci' : ClientInfo) (tcb' : Option Tcb) (reply : Option Bytes)
    (hrun : protoRepl C18.cfgE C18.envE ciUdp none callU = .ok (ci', tcb', reply)) :
    (judgeC16 (obsOf ciUdp callU ci' reply)).ok = true :=
  judgeC16_accepts_model_outside_shadow_udp _ _ _ _ _ _ _ (by decide) ciOk_ciUdp hrun (by decide +kernel)
example (ci' : ClientInfo) (tcb' : Option Tcb) (reply : Option Bytes)
    (hrun : protoRepl C18.cfgE C18.envE ciTcp (some {}) callNonFinal = .ok (ci', tcb', reply)) :
    (judgeC16 (obsOf ciTcp callNonFinal ci' reply)).ok = true :=
  judgeC16_accepts_model_outside_shadow_tcp _ _ _ _ _ _ _ rfl (by decide) ciOk_ciTcp hrun (by decide +kernel)

/-- inside the shadow set (finding K2): a UDP call whose xid starts with 'G', and the TCP call with xid
    `00 00 00 01` (`rpc_tcp_xid0_witness`), are not answered; the verdict fails WITH the marker -/
example :
    shadowed (C16.mkCall 0x47000001 100000 2 3) = true ∧ shadowed rpcXid0 = true ∧
    (modelVerdict judgeC16 C18.cfgE C18.envE ciUdp none (C16.mkCall 0x47000001 100000 2 3)).any (fun v =>
      !v.ok && v.clause == "[shadowed] ONC-RPC call not answered") = true ∧
    (modelVerdict judgeC16 C18.cfgE C18.envE ciTcp (some {}) rpcXid0).any (fun v =>
      !v.ok && v.clause == "[shadowed] ONC-RPC call not answered") = true := by
  decide +kernel

/-- the gate hypothesis `ci.cookie ≠ none` is needed: a TCP client info without cookie is never answered
    (`proto::repl` returns at once), and the judge reports an unmarked failure; the TCP layer never
    produces such a client info (Thm/C10E2Ec) and the harness always passes a cookie -/
theorem gate_needed :
    (modelVerdict judgeC16 C18.cfgE C18.envE { ciTcp with cookie := none } (some {}) callT).any (fun v =>
      !v.ok && v.clause == "ONC-RPC call not answered") = true := by
  decide +kernel

/-- the second call of the sticky case: a NULL call with xid 0x22222222 -/
def callT2 : Bytes := C16.tcpMsg (C16.mkCall 0x22222222 100000 2 0)

/-- STICKY CASE, regression (`forced = some 5`): the second call on a TCP connection — `callT` first, then
    `callT2`, judged as a later segment of a flow whose sticky id is ONC-RPC/TCP.  The block stored after
    the first reply has the sticky id and the initial parser state (hypotheses of
    `judgeC16_accepts_model_sticky`); the second call is answered with the reply for ITS OWN xid and the
    verdict is "ok" with `nontrivial = true`.  (Before the repair of `repl_tcp` the answer carried the
    first call's xid 0x01020304 and the verdict failed, unmarked.) -/
theorem judgeC16_sticky_second_call :
    shadowed callT2 = false ∧
    (match protoRepl C18.cfgE C18.envE ciTcp (some {}) callT with
     | .ok (_, some t1, some _) =>
       t1.protoId == ID_RPC_TCP && decide (t1.protoState = some (.rpc {})) &&
       (match protoRepl C18.cfgE C18.envE ciTcp (some t1) callT2 with
        | .ok (ci', _, reply) =>
          let v := judgeC16 (obsOfForced ciTcp callT2 ci' reply ID_RPC_TCP)
          v.ok && v.nontrivial &&
          (reply.map (fun r => hexOf (r.take 8)) == some "8000001822222222")
        | .error _ => false)
     | _ => false) = true := by
  decide +kernel

/-- hypotheses of `rpc_tcp_flow_all_answered` on `callT` followed by `callT2` -/
example : C16.TcpCall callT ⟨0x01020304, 2, 100000, 4, 3⟩ ∧ refStream callT = some ID_RPC_TCP ∧
    shadowed callT = false ∧ C16.TcpCall callT2 ⟨0x22222222, 2, 100000, 2, 0⟩ :=
  ⟨⟨by decide, by decide +kernel⟩, by decide +kernel, by decide +kernel, ⟨by decide, by decide +kernel⟩⟩

/-- the theorem applied to the second call -/
example (t : Tcb) (ht : t.protoState = some (.rpc {})) (ci' : ClientInfo) (tcb' : Option Tcb) (reply : Option Bytes)
    (hrun : protoHandle C18.cfgE C18.envE ID_RPC_TCP ciTcp (some t) callT2 = .ok (ci', tcb', reply)) :
    (judgeC16 (obsOfForced ciTcp callT2 ci' reply ID_RPC_TCP)).ok = true :=
  judgeC16_accepts_model_sticky _ _ _ _ t _ _ _ ciOk_ciTcp (.inr ht) hrun

/-- the hypothesis on the stored state is needed: on a block storing the parser state reached after the
    first 10 bytes of a call (a cut call whose rest is still to come — such a segment is not judged by the
    harness), a complete call is read as the continuation of the pending one; what comes back is not the
    prescribed reply to it and the verdict fails, unmarked -/
theorem sticky_fresh_needed :
    (match protoRepl C18.cfgE C18.envE ciTcp (some { protoId := ID_RPC_TCP }) (callT.take 10) with
     | .ok (_, some t1, none) =>
       decide (t1.protoState ≠ some (.rpc {})) &&
       (match protoHandle C18.cfgE C18.envE ID_RPC_TCP ciTcp (some t1) callT2 with
        | .ok (ci', _, reply) => !(judgeC16 (obsOfForced ciTcp callT2 ci' reply ID_RPC_TCP)).ok
        | .error _ => false)
     | _ => false) = true := by
  decide +kernel

end examples

#print axioms judgeC16_accepts_model_outside_shadow_udp
#print axioms judgeC16_fails_only_shadowed_udp
#print axioms judgeC16_accepts_model_outside_shadow_tcp
#print axioms judgeC16_fails_only_shadowed_tcp
#print axioms gate_needed
#print axioms rpc_tcp_flow_all_answered
#print axioms judgeC16_accepts_model_sticky
#print axioms judgeC16_sticky_ok_or_marked
#print axioms judgeC16_sticky_second_call
#print axioms sticky_fresh_needed

end Masscanned.C16Judge
