/-
  C09Judge — soundness of the run-time judge `Spec.judgeC09` with respect to the model.
  The judge demands, after every frame, "connection-table size = number of validated flows" (validated
  per FLOW, by the reference connection model `Spec.refTcp`).  The program and the model key the table
  by the 32-bit cookie (K1), so what holds is: table size = number of DISTINCT COOKIES of the validated
  flows (`judgeC09_table_size`, the judge-side form of `C09.run_table_exact`).  Hence along the joint run
  `J2.runC09` (Proofs/J2/Defs) from the empty table:

  * if the flows validated along the run have pairwise distinct cookies (`J2.NoCollision`, a decidable
    predicate of the final judge state), every verdict is `ok` — `judgeC09_accepts_run`;
  * without that hypothesis a failing verdict carries the clause `J2.collisionClauseC09`
    ("… (cookie collision)"), and two validated flows do share a cookie —
    `judgeC09_fails_only_with_collision`.

  Runs are those in which no step of the model panics; by C01 that is every run of frames of at most
  4096 bytes (`judgeC09_run_total`).
-/
import Masscanned.Proofs.J2.Sim
import Masscanned.Proofs.J2.NoPanic
import Masscanned.Proofs.J2.Examples
open Masscanned
namespace Masscanned.C09Judge
open Masscanned.Spec Masscanned.J2

/-- at the end of every joint run from the empty table: the final table is the model's table after the
    history, its keys are (in order) the distinct cookies of the validated flows, and its size is the
    number of distinct cookies of the validated flows — the number of validated flows when these do not
    collide -/
theorem judgeC09_table_size (cfg : Cfg) (env : Env) (fs : List Bytes)
    {vs : List Verdict} {jsF : JState} {stF : Table} (h : runC09 cfg env [] {} fs = .ok (vs, jsF, stF)) :
    stF = run cfg env [] fs ∧ vs.length = fs.length ∧
    stF.map Prod.fst = dedup (jsF.validated.map (flowCookie cfg)) ∧
    stF.length = (dedup (jsF.validated.map (flowCookie cfg))).length ∧
    (NoCollision cfg jsF → stF.length = jsF.validated.length) := by
  obtain ⟨hI, -, hlen, hrun, -⟩ := runC09_sound fs [] {} vs jsF stF (inv_init cfg) h
  refine ⟨hrun, hlen, hI, hI.length, fun hnc => ?_⟩
  rw [hI.length, dedup_of_nodup _ hnc, List.length_map]

/-- a frame that is not delivered to the TCP layer changes neither the model's table nor the judge's state -/
theorem not_delivered_invisible (cfg : Cfg) (env : Env) (st : Table) (js : JState) (f : Bytes) (n : Nat)
    (h : tcpDelivered cfg f = none) :
    (step cfg env st f).st = st ∧ (judgeC09 cfg js f n).1 = js := by
  refine ⟨step_not_delivered env st h, ?_⟩
  obtain ⟨js', hjs, h1, -⟩ := judgeC09_eq cfg js f n
  rw [h] at hjs
  rw [h1, hjs]

/-- C09 judge accepts the model.  Along a joint run from the empty table in which the model does not
    panic, if the flows validated along the run have pairwise distinct cookies, every verdict is `ok`:
    the table size after each frame is the number of flows validated so far. -/
theorem judgeC09_accepts_run (cfg : Cfg) (env : Env) (fs : List Bytes)
    {vs : List Verdict} {jsF : JState} {stF : Table} (h : runC09 cfg env [] {} fs = .ok (vs, jsF, stF))
    (hnc : NoCollision cfg jsF) :
    ∀ v ∈ vs, v.ok = true := by
  obtain ⟨-, -, -, -, hall⟩ := runC09_sound fs [] {} vs jsF stF (inv_init cfg) h
  intro v hv
  rcases hall v hv with h | ⟨-, hn⟩
  · exact h
  · exact absurd hnc hn

/-- C09 judge, soundness without the hypothesis: a failing verdict carries the "cookie collision" clause,
    and two flows validated during the run share a cookie (K1) -/
theorem judgeC09_fails_only_with_collision (cfg : Cfg) (env : Env) (fs : List Bytes)
    {vs : List Verdict} {jsF : JState} {stF : Table} (h : runC09 cfg env [] {} fs = .ok (vs, jsF, stF)) :
    ∀ v ∈ vs, v.ok = false → v.clause = collisionClauseC09 ∧ ¬ NoCollision cfg jsF := by
  obtain ⟨-, -, -, -, hall⟩ := runC09_sound fs [] {} vs jsF stF (inv_init cfg) h
  intro v hv hok
  rcases hall v hv with h | h
  · rw [hok] at h; cases h
  · exact h

/-- no panic, hence a joint run, for every history of frames of at most 4096 bytes (C01) -/
theorem judgeC09_run_total (cfg : Cfg) (env : Env) (hm : cfg.mac.length = 6) (hd : env.httpDate.length ≤ 64)
    (fs : List Bytes) (hl : ∀ f ∈ fs, f.length ≤ 4096) :
    ∃ vs jsF, runC09 cfg env [] {} fs = .ok (vs, jsF, run cfg env [] fs) := by
  obtain ⟨⟨vs, jsF, stF⟩, hx⟩ := runC09_ok_of_allOk fs [] {} (C01.no_panic_all cfg env hm hd fs [] C01.inv_init hl)
  obtain ⟨-, -, -, hrun, -⟩ := runC09_sound fs [] {} vs jsF stF (inv_init cfg) hx
  exact ⟨vs, jsF, by rw [hx, hrun]⟩

/-- the two main statements for captured traffic (frames ≤ 4096 bytes), without a no-panic hypothesis -/
theorem judgeC09_sound_on_traffic (cfg : Cfg) (env : Env) (hm : cfg.mac.length = 6) (hd : env.httpDate.length ≤ 64)
    (fs : List Bytes) (hl : ∀ f ∈ fs, f.length ≤ 4096) :
    ∃ vs jsF, runC09 cfg env [] {} fs = .ok (vs, jsF, run cfg env [] fs) ∧
      (NoCollision cfg jsF → ∀ v ∈ vs, v.ok = true) ∧
      (∀ v ∈ vs, v.ok = false → v.clause = collisionClauseC09 ∧ ¬ NoCollision cfg jsF) := by
  obtain ⟨vs, jsF, h⟩ := judgeC09_run_total cfg env hm hd fs hl
  exact ⟨vs, jsF, h, judgeC09_accepts_run cfg env fs h, judgeC09_fails_only_with_collision cfg env fs h⟩

/-! ### non-vacuity -/
section NonVacuity
open C07ex C08ex J2ex

/-- the clause really is the judge's "cookie collision" clause -/
example : collisionClauseC09 = "table smaller than the number of validated flows (cookie collision)" := rfl

/-- SYN of flow A, valid first data of A, valid first data of a second flow C: the hypothesis of
    `judgeC09_accepts_run` holds, the three verdicts are non-trivial (and `ok`), two flows are validated
    and the table has two entries -/
example : ∃ vs jsF stF, runC09 cfg0 env0 [] {} [frameSyn, frameA, frameC] = .ok (vs, jsF, stF) ∧
    NoCollision cfg0 jsF ∧
    vs.map (fun v => (v.ok, v.nontrivial)) = [(true, true), (true, true), (true, true)] ∧
    jsF.validated = [flowA, flowC] ∧ stF.length = 2 := by
  obtain ⟨vs, st, hr, hvs, hst⟩ := summary_ok c09_three
  exact ⟨vs, _, st, hr, hyps_three.2, hvs, rfl, hst⟩

/-- K1 as a joint run: the colliding flows A and B of Thm/C07 both send valid first data; the judge holds
    two flows validated, the table has one entry; the second verdict fails with the collision clause -/
example : ∃ vs jsF stF v, runC09 cfg0 env0 [] {} [frameA, frameB2] = .ok (vs, jsF, stF) ∧
    v ∈ vs ∧ v.ok = false ∧ v.clause = collisionClauseC09 ∧
    jsF.validated = [flowA, flowB] ∧ stF.length = 1 ∧ ¬ NoCollision cfg0 jsF := by
  obtain ⟨vs, st, hr, hvs, hst⟩ := summary_ok c09_k1
  match vs, hvs, hr with
  | [v1, v2], hvs, hr =>
    simp only [List.map_cons, List.map_nil, List.cons.injEq, Prod.mk.injEq, and_true] at hvs
    have hm : v2 ∈ [v1, v2] := by simp
    exact ⟨_, _, st, v2, hr, hm, hvs.2.1,
      (judgeC09_fails_only_with_collision cfg0 env0 _ hr v2 hm hvs.2.1).1, rfl, hst, hyps_k1.2.2⟩

/-- hypotheses of `judgeC09_run_total` / `judgeC09_sound_on_traffic` -/
example : (∀ f ∈ [frameSyn, frameA, frameC], f.length ≤ 4096) ∧ cfg0.mac.length = 6 ∧ env0.httpDate.length ≤ 64 :=
  small

end NonVacuity

#print axioms judgeC09_table_size
#print axioms not_delivered_invisible
#print axioms judgeC09_accepts_run
#print axioms judgeC09_fails_only_with_collision
#print axioms judgeC09_run_total
#print axioms judgeC09_sound_on_traffic

end Masscanned.C09Judge
