/-
  Thm/C05 — ARP, Neighbour Discovery and echo are answered correctly, and only those.

  For every configuration `cfg` (with a 6-byte MAC where a reply is read back), environment and
  connection table, `step cfg env st f` answers
    * an Ethernet/IPv4 ARP request for a handled address with the ARP reply of `Spec.arpReplyOk`,
    * a code-0 Neighbour Solicitation for a handled target with the Neighbour Advertisement of
      `Spec.naReplyOk`,
    * a code-0 ICMPv4 / ICMPv6 Echo Request with the Echo Reply of `Spec.echo4ReplyOk` /
      `Spec.echo6ReplyOk` (same identifier, sequence number, data),
  and stays silent on every other ARP operation, ICMP type and code.

  One statement is false at full strength: `echo4_reply`.  An IPv4 header with IHL < 5 lets the
  receiver delimit up to 65 535 bytes of ICMP payload; when the frame really carries more than
  65 515 of them the reply needs a total length > 65 535 and the responder panics (pnet's
  `set_payload` assertion, after `ip_len as u16` wrapped).  See `echo4_oversize_panics` (the exact
  failure set) and `echo4_reply_partial` (its exact complement).  Such a frame is ≥ 65 550 bytes long.
-/
import Masscanned.Proofs.C05
namespace Masscanned.C05
open Masscanned

variable {cfg : Cfg} {env : Env} {st : Table} {f : Bytes}

/-! ### ARP -/

/-- An Ethernet/IPv4 ARP request for a handled address gets the ARP reply demanded by C05. -/
theorem arp_request_reply (hm : cfg.mac.length = 6) :
    Spec.arpRequestFor cfg f = true →
    ∃ r, (step cfg env st f).out = .ok (some r) ∧ Spec.arpReplyOk cfg f r = true := by
  intro h
  refine ⟨ethWrap cfg f (arpMsg cfg f), ?_, arp_reply_ok cfg f hm h⟩
  simp only [Spec.arpRequestFor, Bool.and_eq_true, decide_eq_true_eq] at h
  obtain ⟨⟨⟨⟨⟨⟨⟨⟨hl, ha⟩, he⟩, -⟩, -⟩, -⟩, -⟩, h1⟩, hh⟩ := h
  rw [arp_out hl he, if_pos ⟨ha, h1, hh⟩]

/-- Every ARP operation other than 1 (request) gets nothing, whatever the other fields. -/
theorem arp_other_ops_silent :
    Spec.isArp f = true → Spec.be16 f 20 ≠ 1 → (step cfg env st f).out = .ok none := by
  intro h hop
  simp only [Spec.isArp, Bool.and_eq_true, decide_eq_true_eq] at h
  rw [arp_out h.1 h.2, if_neg (fun hc => hop hc.2.1)]

/-- An ARP request whose target protocol address is not handled gets nothing. -/
theorem arp_unhandled_silent :
    Spec.isArp f = true → Spec.handled cfg (.v4 (Spec.sub f 38 4)) = false →
    (step cfg env st f).out = .ok none := by
  intro h hh
  simp only [Spec.isArp, Bool.and_eq_true, decide_eq_true_eq] at h
  rw [arp_out h.1 h.2, if_neg (fun hc => by simp [hh] at hc)]

/-- An ARP frame sent to a MAC address that is not ours gets nothing. -/
theorem arp_foreign_mac_silent :
    Spec.isArp f = true → Spec.authMac cfg (Spec.sub f 0 6) = false →
    (step cfg env st f).out = .ok none := by
  intro h ha
  simp only [Spec.isArp, Bool.and_eq_true, decide_eq_true_eq] at h
  rw [arp_out h.1 h.2, if_neg (fun hc => by simp [ha] at hc)]

/-! ### ICMPv4 echo -/

/-- A code-0 ICMPv4 Echo Request whose ICMP message is at most 65 515 bytes long (always the case
    when the frame is shorter than 65 550 bytes or IHL ≥ 5) gets an Echo Reply with identical
    identifier, sequence number and data.  Strongest true variant of `echo4_reply`: the bound is exact,
    see `echo4_oversize_panics`. -/
theorem echo4_reply_partial (hm : cfg.mac.length = 6) (hsz : (Spec.l4Bytes f).length ≤ 65515) :
    Spec.echo4Request cfg f = true →
    ∃ r, (step cfg env st f).out = .ok (some r) ∧ Spec.echo4ReplyOk f r = true := by
  intro h
  simp only [Spec.echo4Request, Bool.and_eq_true, decide_eq_true_eq] at h
  obtain ⟨⟨hd, h8⟩, h0⟩ := h
  have h4 := (deliverable4_elim hd).2.2.2.2.2.2
  refine ⟨_, ?_, echo4_reply_ok cfg f hm hd hsz⟩
  rw [icmp4_out hd, if_pos ⟨h8, h0⟩, if_neg (by rw [echo4Msg_length _ h4]; omega)]

/-- The missing part of `echo4_reply`: an Echo Request carrying more than 65 515 bytes of ICMP (only
    possible with IHL < 5 in a frame of at least 65 550 bytes) makes the responder panic. -/
theorem echo4_oversize_panics (hsz : 65515 < (Spec.l4Bytes f).length) :
    Spec.echo4Request cfg f = true → (step cfg env st f).out = .error .setPayload := by
  intro h
  simp only [Spec.echo4Request, Bool.and_eq_true, decide_eq_true_eq] at h
  obtain ⟨⟨hd, h8⟩, h0⟩ := h
  have h4 := (deliverable4_elim hd).2.2.2.2.2.2
  rw [icmp4_out hd, if_pos ⟨h8, h0⟩, if_pos (by rw [echo4Msg_length _ h4]; omega)]

/-- `echo4_reply` for every frame a 16-bit length can describe (any frame shorter than 65 550 bytes). -/
theorem echo4_reply_of_frame_le (hm : cfg.mac.length = 6) (hf : f.length ≤ 65549) :
    Spec.echo4Request cfg f = true →
    ∃ r, (step cfg env st f).out = .ok (some r) ∧ Spec.echo4ReplyOk f r = true :=
  echo4_reply_partial hm (by have := l4Bytes_length_le f; omega)

/-- `echo4_reply` for every frame length when the IPv4 header length is a real one (IHL ≥ 5). -/
theorem echo4_reply_of_ihl (hm : cfg.mac.length = 6) (hi : 5 ≤ Spec.u8 f 14 % 16) :
    Spec.echo4Request cfg f = true →
    ∃ r, (step cfg env st f).out = .ok (some r) ∧ Spec.echo4ReplyOk f r = true := by
  intro h
  have hd : Spec.deliverable cfg f false 1 4 = true := by
    simp only [Spec.echo4Request, Bool.and_eq_true] at h; exact h.1.1
  exact echo4_reply_partial hm (l4Bytes_v4_le f (deliverable4_elim hd).2.2.1 hi) h

/-- Every deliverable ICMPv4 message whose (type, code) is not (8, 0) gets nothing. -/
theorem icmp4_other_silent :
    Spec.icmp4Other cfg f = true → (step cfg env st f).out = .ok none := by
  intro h
  simp only [Spec.icmp4Other, Bool.and_eq_true, Bool.not_eq_true', Bool.and_eq_false_iff, decide_eq_false_iff_not] at h
  rw [icmp4_out h.1, if_neg (by rcases h.2 with h2 | h2 <;> simp [h2])]

/-! ### ICMPv6 echo and Neighbour Discovery -/

/-- A code-0 ICMPv6 Echo Request to a handled address gets an Echo Reply with identical identifier,
    sequence number and data (every payload length). -/
theorem echo6_reply (hm : cfg.mac.length = 6) :
    Spec.echo6Request cfg f = true →
    ∃ r, (step cfg env st f).out = .ok (some r) ∧ Spec.echo6ReplyOk f r = true := by
  intro h
  simp only [Spec.echo6Request, Spec.dst6, Bool.and_eq_true, decide_eq_true_eq] at h
  obtain ⟨⟨⟨hd, h128⟩, h0⟩, hh⟩ := h
  obtain ⟨r, hr, hok⟩ := echo6_reply_ok cfg f hm hd
  refine ⟨r, ?_, hok⟩
  rw [icmp6_out hd, if_neg (by simp [h0]), if_neg (by simp [h128]), if_pos h128, if_neg (by simp [hh]), hr]

/-- A code-0 Neighbour Solicitation for a handled target gets the Neighbour Advertisement of C05. -/
theorem ns_gets_na (hm : cfg.mac.length = 6) :
    Spec.nsRequest cfg f = true →
    ∃ r, (step cfg env st f).out = .ok (some r) ∧ Spec.naReplyOk cfg f r = true := by
  intro h
  simp only [Spec.nsRequest, Spec.ndTarget, Bool.and_eq_true, decide_eq_true_eq] at h
  obtain ⟨⟨⟨hd, h135⟩, h0⟩, hh⟩ := h
  obtain ⟨r, hr, hok⟩ := na_reply_ok cfg f hm hd
  have h24 := (deliverable6_elim hd).2.2.2.2.2.2
  have hd4 : Spec.deliverable cfg f true 58 4 = true := by
    simp only [Spec.deliverable, Bool.and_eq_true, decide_eq_true_eq] at hd ⊢
    refine ⟨hd.1, ?_⟩; omega
  refine ⟨r, ?_, hok⟩
  rw [icmp6_out hd4, if_neg (by simp [h0]), if_pos h135, if_neg (by omega), if_neg (by simp [hh]), hr]

/-- Every deliverable ICMPv6 message whose (type, code) is neither (128, 0) nor (135, 0) gets nothing. -/
theorem icmp6_other_silent :
    Spec.icmp6Other cfg f = true → (step cfg env st f).out = .ok none := by
  intro h
  simp only [Spec.icmp6Other, Bool.and_eq_true, Bool.not_eq_true', Bool.and_eq_false_iff, Bool.or_eq_false_iff,
    decide_eq_false_iff_not] at h
  obtain ⟨hd, h2⟩ := h
  rw [icmp6_out hd]
  rcases h2 with h2 | ⟨h128, h135⟩
  · rw [if_pos h2]
  · by_cases hc : Spec.u8 (Spec.l4Bytes f) 1 = 0
    · rw [if_neg (by simp [hc]), if_neg h135, if_neg h128]
    · rw [if_pos hc]

/-- A code-0 Neighbour Solicitation for a target that is not handled gets nothing. -/
theorem ns_unhandled_silent :
    Spec.deliverable cfg f true 58 24 = true → Spec.u8 (Spec.l4Bytes f) 0 = 135 → Spec.u8 (Spec.l4Bytes f) 1 = 0 →
    Spec.handled cfg (.v6 (Spec.ndTarget (Spec.l4Bytes f))) = false →
    (step cfg env st f).out = .ok none := by
  intro hd h135 h0 hh
  simp only [Spec.ndTarget] at hh
  have hd4 : Spec.deliverable cfg f true 58 4 = true := by
    simp only [Spec.deliverable, Bool.and_eq_true, decide_eq_true_eq] at hd ⊢
    refine ⟨hd.1, ?_⟩; omega
  have h24 := (deliverable6_elim hd).2.2.2.2.2.2
  rw [icmp6_out hd4, if_neg (by simp [h0]), if_pos h135, if_neg (by omega), if_pos hh]

/-- A code-0 Neighbour Solicitation shorter than its 24 fixed bytes gets nothing. -/
theorem ns_short_silent :
    Spec.deliverable cfg f true 58 4 = true → Spec.u8 (Spec.l4Bytes f) 0 = 135 → Spec.u8 (Spec.l4Bytes f) 1 = 0 →
    (Spec.l4Bytes f).length < 24 → (step cfg env st f).out = .ok none := by
  intro hd h135 h0 hlt
  rw [icmp6_out hd, if_neg (by simp [h0]), if_pos h135, if_pos hlt]

/-- A code-0 ICMPv6 Echo Request to an address that is not handled gets nothing. -/
theorem echo6_unhandled_silent :
    Spec.deliverable cfg f true 58 4 = true → Spec.u8 (Spec.l4Bytes f) 0 = 128 → Spec.u8 (Spec.l4Bytes f) 1 = 0 →
    Spec.handled cfg (Spec.dst6 f) = false → (step cfg env st f).out = .ok none := by
  intro hd h128 h0 hh
  simp only [Spec.dst6] at hh
  rw [icmp6_out hd, if_neg (by simp [h0]), if_neg (by simp [h128]), if_pos h128, if_pos hh]

/-! ### the counterexample to `echo4_reply`, machine-checked

  Default configuration, Ethernet + IPv4 header with IHL 0 and total length 0xFFFF + ICMP echo header,
  followed by any 65 508 bytes: a code-0 Echo Request in the sense of `Spec.echo4Request`, and the
  responder panics instead of replying.  (On the model:
  `#eval (step cfgD env [] (hugeHdr ++ List.replicate 65508 0x41)).out` gives `error setPayload`; the
  Rust code does the same: `ip_len as u16` wraps to 0 and pnet's `set_payload` assertion fails.) -/

open C05W in
theorem echo4_reply_counterexample (t : Bytes) (ht : t.length = 65508) :
    Spec.echo4Request cfgD (hugeHdr ++ t) = true ∧
    (step cfgD env st (hugeHdr ++ t)).out = .error .setPayload :=
  ⟨(huge_request t ht).1, echo4_oversize_panics (huge_request t ht).2 (huge_request t ht).1⟩

/-! ### non-vacuity: concrete frames satisfy the hypotheses (default and scoped configuration) -/

section NonVacuity
open C05W

example : cfgD.mac.length = 6 ∧ cfgS.mac.length = 6 := by decide

-- arp_request_reply
example : Spec.arpRequestFor cfgD (arpFrame 1 [10, 0, 0, 1]) = true := by decide +kernel
example : Spec.arpRequestFor cfgS (arpFrame 1 [10, 0, 0, 1]) = true := by decide +kernel
-- arp_other_ops_silent (an ARP reply, and operation 0xff)
example : Spec.isArp (arpFrame 2 [10, 0, 0, 1]) = true ∧ Spec.be16 (arpFrame 2 [10, 0, 0, 1]) 20 ≠ 1 := by
  decide +kernel
example : Spec.isArp (arpFrame 255 [10, 0, 0, 1]) = true ∧ Spec.be16 (arpFrame 255 [10, 0, 0, 1]) 20 ≠ 1 := by
  decide +kernel
-- arp_unhandled_silent
example : Spec.isArp (arpFrame 1 [10, 0, 0, 9]) = true ∧
    Spec.handled cfgS (.v4 (Spec.sub (arpFrame 1 [10, 0, 0, 9]) 38 4)) = false := by decide +kernel
-- arp_foreign_mac_silent
example : Spec.isArp ([2, 0, 0, 0, 0, 9] ++ (arpFrame 1 [10, 0, 0, 1]).drop 6) = true ∧
    Spec.authMac cfgD (Spec.sub ([2, 0, 0, 0, 0, 9] ++ (arpFrame 1 [10, 0, 0, 1]).drop 6) 0 6) = false := by
  decide +kernel

-- echo4_reply_partial / echo4_reply_of_frame_le / echo4_reply_of_ihl
example : Spec.echo4Request cfgD (icmp4Frame 8 0) = true ∧ (Spec.l4Bytes (icmp4Frame 8 0)).length ≤ 65515 ∧
    (icmp4Frame 8 0).length ≤ 65549 ∧ 5 ≤ Spec.u8 (icmp4Frame 8 0) 14 % 16 := by decide +kernel
example : Spec.echo4Request cfgS (icmp4Frame 8 0) = true := by decide +kernel
-- echo4_oversize_panics: see `echo4_reply_counterexample`
-- icmp4_other_silent (timestamp request; echo request with code 1)
example : Spec.icmp4Other cfgD (icmp4Frame 13 0) = true ∧ Spec.icmp4Other cfgS (icmp4Frame 8 1) = true := by
  decide +kernel

-- echo6_reply
example : Spec.echo6Request cfgD (icmp6Frame ip6Self 128 0) = true := by decide +kernel
example : Spec.echo6Request cfgS (icmp6Frame ip6Self 128 0) = true := by decide +kernel
-- echo6_unhandled_silent
example : Spec.deliverable cfgS (icmp6Frame ip6Other 128 0) true 58 4 = true ∧
    Spec.u8 (Spec.l4Bytes (icmp6Frame ip6Other 128 0)) 0 = 128 ∧
    Spec.u8 (Spec.l4Bytes (icmp6Frame ip6Other 128 0)) 1 = 0 ∧
    Spec.handled cfgS (Spec.dst6 (icmp6Frame ip6Other 128 0)) = false := by decide +kernel
-- ns_gets_na
example : Spec.nsRequest cfgD (nsFrame ip6Self 0) = true := by decide +kernel
example : Spec.nsRequest cfgS (nsFrame ip6Self 0) = true := by decide +kernel
-- ns_unhandled_silent
example : Spec.deliverable cfgS (nsFrame ip6Other 0) true 58 24 = true ∧
    Spec.u8 (Spec.l4Bytes (nsFrame ip6Other 0)) 0 = 135 ∧ Spec.u8 (Spec.l4Bytes (nsFrame ip6Other 0)) 1 = 0 ∧
    Spec.handled cfgS (.v6 (Spec.ndTarget (Spec.l4Bytes (nsFrame ip6Other 0)))) = false := by decide +kernel
-- ns_short_silent
example : Spec.deliverable cfgS nsShortFrame true 58 4 = true ∧ Spec.u8 (Spec.l4Bytes nsShortFrame) 0 = 135 ∧
    Spec.u8 (Spec.l4Bytes nsShortFrame) 1 = 0 ∧ (Spec.l4Bytes nsShortFrame).length < 24 := by decide +kernel
-- icmp6_other_silent (router solicitation; echo request with code 1; NS with code 1)
example : Spec.icmp6Other cfgD (icmp6Frame ip6Self 133 0) = true ∧
    Spec.icmp6Other cfgS (icmp6Frame ip6Self 128 1) = true ∧
    Spec.icmp6Other cfgS (nsFrame ip6Self 1) = true := by decide +kernel

-- the theorems applied: the replies exist and are judged correct
example : ∃ r, (step cfgS env st (arpFrame 1 [10, 0, 0, 1])).out = .ok (some r) ∧
    Spec.arpReplyOk cfgS (arpFrame 1 [10, 0, 0, 1]) r = true :=
  arp_request_reply (by decide) (by decide +kernel)
example : ∃ r, (step cfgS env st (nsFrame ip6Self 0)).out = .ok (some r) ∧
    Spec.naReplyOk cfgS (nsFrame ip6Self 0) r = true :=
  ns_gets_na (by decide) (by decide +kernel)

end NonVacuity

/-! ### axioms -/

#print axioms arp_request_reply
#print axioms arp_other_ops_silent
#print axioms arp_unhandled_silent
#print axioms arp_foreign_mac_silent
#print axioms echo4_reply_partial
#print axioms echo4_oversize_panics
#print axioms echo4_reply_of_frame_le
#print axioms echo4_reply_of_ihl
#print axioms echo4_reply_counterexample
#print axioms icmp4_other_silent
#print axioms echo6_reply
#print axioms ns_gets_na
#print axioms icmp6_other_silent
#print axioms ns_unhandled_silent
#print axioms ns_short_silent
#print axioms echo6_unhandled_silent

end Masscanned.C05
