/-
  Thm/C01Config — companion of C01 / C20 (both quantify over the log format and the log verbosity): in the model, format and
  verbosity are not inputs of the data path. The reply, the error site if any, the connection table and the list of events are
  literally the same for every logger and level; only the rendering of the events (Model/Logger.lean) differs.
  (The implementation side is what C01's exploration tests: the same hostile histories under all 3 x 6 logger / level
  combinations with the log arguments evaluated; four of the repaired defects, D4, D5 and the `warn!` arguments of two seeded
  changes, were panics inside log arguments.)
-/
import Masscanned.Model.Net
namespace Masscanned.Config
open Masscanned

theorem step_verbosity (cfg : Cfg) (l : LoggerKind) (v : Nat) (env : Env) (st : Table) (f : Bytes) :
    step { cfg with logger := l, level := v } env st f = step cfg env st f := by
  rfl

theorem run_verbosity (cfg : Cfg) (l : LoggerKind) (v : Nat) (env : Env) (st : Table) (fs : List Bytes) :
    run { cfg with logger := l, level := v } env st fs = run cfg env st fs := by
  induction fs generalizing st with
  | nil => rfl
  | cons f fs ih => simp only [run, step_verbosity]; exact ih _

#print axioms step_verbosity
#print axioms run_verbosity

end Masscanned.Config
