/-
  C03 — "Replies go back to the asker".

  Every reply frame mirrors the request (Spec/Wire `mirrors`): Ethernet source = configured MAC,
  Ethernet destination = the request's source MAC, same EtherType; for IP: reply destination =
  request source, reply source = request destination (for a Neighbour Solicitation: the solicited
  target), same next protocol; for TCP/UDP: reply destination port = request source port and
  reply source port = (request destination port + k) mod 65536, where k = 0 except possibly when
  the reply is a STUN Binding Success Response (transport payload starts with `01 01`), the only
  place where masscanned changes the port (CHANGE-REQUEST with the change-port flag).

  "At most one reply per frame" needs no theorem: `step` returns `out : Except Site (Option Bytes)`,
  i.e. by its type one received frame yields a panic, silence, or exactly one reply frame.
-/
import Masscanned.Proofs.C0203.Mirror
import Masscanned.Proofs.C0203.Examples
namespace Masscanned.C03
open Masscanned

/-- C03.  The STUN side condition is stated on the wire: the request is TCP or UDP and the two
    bytes following the reply's transport header (20 bytes for TCP, 8 for UDP, located with the
    Spec's `l4Off`) are `01 01`. -/
theorem reply_mirrors (cfg : Cfg) (env : Env) (st : Table) (f r : Bytes) (hm : cfg.mac.length = 6)
    (h : (step cfg env st f).out = .ok (some r)) :
    ∃ k, Spec.mirrors cfg f r k = true ∧
      (k = 0 ∨
       (Spec.isTcpUdp f = true ∧
        Spec.sub r (Spec.l4Off r + (if Spec.ipProto f = some 6 then 20 else 8)) 2 = [1, 1])) := by
  obtain ⟨k, h1, h2⟩ := mirrors_of_shape hm (step_shape h)
  exact ⟨k, h1, h2.imp id (fun h => h.2)⟩

/-- C03, port rule pinned down: the reply mirrors the request with offset 0, or it is a STUN
    Binding Success Response and mirrors it with offset `stunBumps` = the number of CHANGE-REQUEST
    attributes with the change-port flag in the request's application data (`reqAppData f`:
    the bytes after the TCP/UDP header of the L3 payload as delimited by `Spec.l4Bytes`). -/
theorem reply_port_rule (cfg : Cfg) (env : Env) (st : Table) (f r : Bytes) (hm : cfg.mac.length = 6)
    (h : (step cfg env st f).out = .ok (some r)) :
    Spec.mirrors cfg f r 0 = true ∨
    (Spec.mirrors cfg f r (stunBumps (reqAppData f)) = true ∧ Spec.isTcpUdp f = true ∧
     Spec.sub r (Spec.l4Off r + (if Spec.ipProto f = some 6 then 20 else 8)) 2 = [1, 1]) := by
  obtain ⟨k, h1, h2 | ⟨h2, h3⟩⟩ := mirrors_of_shape hm (step_shape h)
  · subst h2; exact .inl h1
  · subst h2; exact .inr ⟨h1, h3⟩

/-- for everything that is not TCP/UDP (ARP, ICMP, ICMPv6/ND) the offset is 0 -/
theorem reply_mirrors_non_l4 (cfg : Cfg) (env : Env) (st : Table) (f r : Bytes) (hm : cfg.mac.length = 6)
    (h : (step cfg env st f).out = .ok (some r)) (hn : Spec.isTcpUdp f = false) :
    Spec.mirrors cfg f r 0 = true := by
  rcases reply_port_rule cfg env st f r hm h with h | ⟨_, h, _⟩
  · exact h
  · rw [hn] at h; cases h

/-! ### non-vacuity -/

example : Ex.cfg.mac.length = 6 := rfl
-- an ARP request and a TCP SYN get a reply (k = 0 branch) …
example : (step Ex.cfg Ex.env [] Ex.arpReq).out = .ok (some Ex.arpReply) := by rfl
example : Spec.mirrors Ex.cfg Ex.arpReq Ex.arpReply 0 = true := by decide
example : ∃ r, (step Ex.cfg Ex.env [] Ex.synReq).out = .ok (some r) := ⟨_, by rfl⟩
-- … and the STUN branch is real: a Binding Request with one change-port attribute to port 3478
-- is answered from port 3479; the reply mirrors with k = 1 and not with k = 0
example : (step Ex.cfg Ex.env [] Ex.stunReq).out = .ok (some Ex.stunReply) :=
  Ex.outIs_sound (by decide +kernel)
example : stunBumps (reqAppData Ex.stunReq) = 1 := by decide
example : Spec.mirrors Ex.cfg Ex.stunReq Ex.stunReply 1 = true := by decide
example : Spec.mirrors Ex.cfg Ex.stunReq Ex.stunReply 0 = false := by decide
example : Spec.sub Ex.stunReply (Spec.l4Off Ex.stunReply + 8) 2 = [1, 1] := by decide
-- `mirrors` can fail: swapping nothing (echoing the frame back unchanged) is not a mirror
example : Spec.mirrors Ex.cfg Ex.arpReq Ex.arpReq 0 = false := by decide

end Masscanned.C03

#print axioms Masscanned.C03.reply_mirrors
#print axioms Masscanned.C03.reply_port_rule
#print axioms Masscanned.C03.reply_mirrors_non_l4
