/-
  Thm/C04 — property C04: every emitted frame is well-formed at every layer.

  Main theorem `reply_wf`: for every configuration with a 6-byte MAC address, every wall-clock
  environment, every connection table and every received frame (of any length), if the model
  emits a reply frame `r` then `Spec.frameWf r` holds: Ethernet/ARP sizes, IPv4/IPv6 header fields
  and lengths, IPv4 header checksum, ICMP/ICMPv6/TCP/UDP checksums over the right pseudo-header,
  UDP-over-IPv6 checksum never zero, TCP data offset, non-zero window, hop limit 255 on NAs.
  Helper lemmas live in `Proofs/Checksum.lean` and `Proofs/Wf.lean`.
-/
import Masscanned.Proofs.Wf
namespace Masscanned
open Spec

/-! ### 1–3: the Internet checksum -/

/-- writing the complement of the folded sum makes the total fold to 0xFFFF (arbitrary `s`) -/
theorem csum_insert_valid (s : Nat) : fold16 (s + finalize s) = 65535 :=
  fold16_add_finalize s

/-- the model's carry-folding agrees with the spec's modular ones-complement value -/
theorem fold16_eq_ones (n : Nat) : fold16 n = Spec.ones n :=
  fold16_ones n

/-- the model's word sum is the spec's word sum -/
theorem sumWords_eq_wsum (b : Bytes) : sumWords b = Spec.wsum b :=
  sumWords_wsum b

/-- word sums are additive over an even-length prefix -/
theorem wsum_append_of_even (a b : Bytes) (h : a.length % 2 = 0) :
    Spec.wsum (a ++ b) = Spec.wsum a + Spec.wsum b :=
  wsum_append_even a b h

/-- writing `v` into a zeroed 16-bit field at an even offset adds `v` to the word sum -/
theorem wsum_setU16_zeroed (pkt : Bytes) (off v : Nat) (heven : off % 2 = 0) (hlen : off + 2 ≤ pkt.length)
    (h0 : pkt.getD off 0 = 0) (h1 : pkt.getD (off + 1) 0 = 0) (hv : v < 65536) :
    Spec.wsum (setU16 pkt off v) = Spec.wsum pkt + v :=
  wsum_setU16 pkt off v heven hlen h0 h1 hv

/-- inserting `finalize (sum of pseudo-header and packet)` into the zeroed checksum field of `pkt`
    yields a block that verifies, for any even-length pseudo-header `pre` (possibly empty) -/
theorem csumOk_after_insert (pre pkt : Bytes) (off : Nat) (hpre : pre.length % 2 = 0)
    (heven : off % 2 = 0) (hlen : off + 2 ≤ pkt.length)
    (h0 : pkt.getD off 0 = 0) (h1 : pkt.getD (off + 1) 0 = 0) :
    Spec.csumOk (pre ++ setU16 pkt off (finalize (Spec.wsum pre + Spec.wsum pkt))) = true :=
  csumOk_insert pre pkt off hpre heven hlen h0 h1

/-- the UDP-over-IPv6 rule: when the computed checksum is 0, transmitting 0xFFFF keeps the block valid -/
theorem csumOk_after_insert_ffff (pre pkt : Bytes) (off : Nat) (hpre : pre.length % 2 = 0)
    (heven : off % 2 = 0) (hlen : off + 2 ≤ pkt.length)
    (h0 : pkt.getD off 0 = 0) (h1 : pkt.getD (off + 1) 0 = 0)
    (hz : finalize (Spec.wsum pre + Spec.wsum pkt) = 0) :
    Spec.csumOk (pre ++ setU16 pkt off 65535) = true :=
  csumOk_insert_ffff pre pkt off hpre heven hlen h0 h1 hz

/-! ### 4: every emitted frame is well-formed -/

/-- C04, full strength: any configuration with a 6-byte MAC, any environment, any table, any frame -/
theorem reply_wf (cfg : Cfg) (env : Env) (st : Table) (f r : Bytes) (hm : cfg.mac.length = 6)
    (h : (step cfg env st f).out = .ok (some r)) : Spec.frameWf r = true := by
  unfold step at h
  split at h
  · simp at h
  · split at h
    · simp at h
    · rename_i heq
      simp only [Except.ok.injEq] at h
      subst h
      exact ethRepl_wf _ _ _ _ _ _ _ hm (by omega) heq

/-- C04 along a whole history: whatever was received before, the next reply is well-formed -/
theorem reply_wf_run (cfg : Cfg) (env : Env) (fs : List Bytes) (f r : Bytes) (hm : cfg.mac.length = 6)
    (h : (step cfg env (run cfg env [] fs) f).out = .ok (some r)) : Spec.frameWf r = true :=
  reply_wf cfg env _ f r hm h

/-! ### 5: non-vacuity -/

section NonVacuity

/-- the default configuration of masscanned: MAC c0:ff:ee:c0:ff:ee, no IP list, no deny list -/
def c04Cfg : Cfg :=
  { mac := [0xc0, 0xff, 0xee, 0xc0, 0xff, 0xee], selfIps := none, deny := none, k0 := 0, k1 := 0,
    logger := LoggerKind.none, level := 0, ovf := false }
def c04Env : Env := { httpDate := [], unixSecs := 0 }

/-- ICMP echo request 10.0.0.1 → 10.0.0.2, id 1 seq 1, payload "hi" -/
def c04IcmpReq : Bytes :=
  [0xc0, 0xff, 0xee, 0xc0, 0xff, 0xee, 2, 0, 0, 0, 0, 1, 8, 0,
   0x45, 0, 0, 30, 0, 0, 0, 0, 64, 1, 0, 0, 10, 0, 0, 1, 10, 0, 0, 2,
   8, 0, 0, 0, 0, 1, 0, 1, 0x68, 0x69]
def c04IcmpRep : Bytes :=
  [2, 0, 0, 0, 0, 1, 192, 255, 238, 192, 255, 238, 8, 0,
   69, 0, 0, 30, 0, 0, 64, 0, 64, 1, 38, 221, 10, 0, 0, 2, 10, 0, 0, 1,
   0, 0, 151, 148, 0, 1, 0, 1, 104, 105]

/-- ARP who-has 10.0.0.2 tell 10.0.0.1 (broadcast) -/
def c04ArpReq : Bytes :=
  [0xff, 0xff, 0xff, 0xff, 0xff, 0xff, 2, 0, 0, 0, 0, 1, 8, 6,
   0, 1, 8, 0, 6, 4, 0, 1, 2, 0, 0, 0, 0, 1, 10, 0, 0, 1, 0, 0, 0, 0, 0, 0, 10, 0, 0, 2]
def c04ArpRep : Bytes :=
  [2, 0, 0, 0, 0, 1, 192, 255, 238, 192, 255, 238, 8, 6,
   0, 1, 8, 0, 6, 4, 0, 2, 192, 255, 238, 192, 255, 238, 10, 0, 0, 2, 2, 0, 0, 0, 0, 1, 10, 0, 0, 1]

/-- TCP SYN 10.0.0.1:1234 → 10.0.0.2:80, seq 1 -/
def c04SynReq : Bytes :=
  [0xc0, 0xff, 0xee, 0xc0, 0xff, 0xee, 2, 0, 0, 0, 0, 1, 8, 0,
   0x45, 0, 0, 40, 0, 0, 0, 0, 64, 6, 0, 0, 10, 0, 0, 1, 10, 0, 0, 2,
   0x04, 0xd2, 0, 80, 0, 0, 0, 1, 0, 0, 0, 0, 0x50, 0x02, 0xff, 0xff, 0, 0, 0, 0]
/-- SYN-ACK carrying the SipHash cookie 0x5eafb980 as sequence number -/
def c04SynRep : Bytes :=
  [2, 0, 0, 0, 0, 1, 192, 255, 238, 192, 255, 238, 8, 0,
   69, 0, 0, 40, 0, 0, 64, 0, 64, 6, 38, 206, 10, 0, 0, 2, 10, 0, 0, 1,
   0, 80, 4, 210, 94, 175, 185, 128, 0, 0, 0, 2, 80, 18, 255, 255, 126, 124, 0, 0]

/-- the data segment completing that handshake: ack = cookie + 1, payload "GET / HTTP/1.0\r\n\r\n" -/
def c04DataReq : Bytes :=
  [0xc0, 0xff, 0xee, 0xc0, 0xff, 0xee, 2, 0, 0, 0, 0, 1, 8, 0,
   0x45, 0, 0, 58, 0, 0, 0, 0, 64, 6, 0, 0, 10, 0, 0, 1, 10, 0, 0, 2,
   0x04, 0xd2, 0, 80, 0, 0, 0, 2, 94, 175, 185, 129, 0x50, 0x18, 0xff, 0xff, 0, 0, 0, 0,
   71, 69, 84, 32, 47, 32, 72, 84, 84, 80, 47, 49, 46, 48, 13, 10, 13, 10]

/-- UDP STUN binding request 10.0.0.1:1234 → 10.0.0.2:3478 -/
def c04StunReq : Bytes :=
  [0xc0, 0xff, 0xee, 0xc0, 0xff, 0xee, 2, 0, 0, 0, 0, 1, 8, 0,
   0x45, 0, 0, 48, 0, 0, 0, 0, 64, 17, 0, 0, 10, 0, 0, 1, 10, 0, 0, 2,
   0x04, 0xd2, 0x0d, 0x96, 0, 28, 0, 0,
   0, 1, 0, 0, 0x21, 0x12, 0xa4, 0x42, 1, 2, 3, 4, 5, 6, 7, 8, 9, 10, 11, 12]
def c04StunRep : Bytes :=
  [2, 0, 0, 0, 0, 1, 192, 255, 238, 192, 255, 238, 8, 0,
   69, 0, 0, 60, 0, 0, 64, 0, 64, 17, 38, 175, 10, 0, 0, 2, 10, 0, 0, 1,
   13, 150, 4, 210, 0, 40, 223, 202,
   1, 1, 0, 12, 33, 18, 164, 66, 1, 2, 3, 4, 5, 6, 7, 8, 9, 10, 11, 12, 0, 1, 0, 8, 0, 1, 4, 210, 10, 0, 0, 1]

/-- ICMPv6 echo request fe80::1 → fe80::2 -/
def c04Echo6Req : Bytes :=
  [0xc0, 0xff, 0xee, 0xc0, 0xff, 0xee, 2, 0, 0, 0, 0, 1, 0x86, 0xdd,
   0x60, 0, 0, 0, 0, 8, 58, 64,
   0xfe, 0x80, 0, 0, 0, 0, 0, 0, 0, 0, 0, 0, 0, 0, 0, 1,
   0xfe, 0x80, 0, 0, 0, 0, 0, 0, 0, 0, 0, 0, 0, 0, 0, 2,
   128, 0, 0, 0, 0, 1, 0, 1]
def c04Echo6Rep : Bytes :=
  [2, 0, 0, 0, 0, 1, 192, 255, 238, 192, 255, 238, 134, 221,
   96, 0, 0, 0, 0, 8, 58, 64,
   254, 128, 0, 0, 0, 0, 0, 0, 0, 0, 0, 0, 0, 0, 0, 2,
   254, 128, 0, 0, 0, 0, 0, 0, 0, 0, 0, 0, 0, 0, 0, 1,
   129, 0, 129, 182, 0, 1, 0, 1]

/-- ND Neighbour Solicitation for fe80::2, sent to the all-nodes multicast MAC -/
def c04NsReq : Bytes :=
  [0x33, 0x33, 0, 0, 0, 1, 2, 0, 0, 0, 0, 1, 0x86, 0xdd,
   0x60, 0, 0, 0, 0, 24, 58, 255,
   0xfe, 0x80, 0, 0, 0, 0, 0, 0, 0, 0, 0, 0, 0, 0, 0, 1,
   0xff, 0x02, 0, 0, 0, 0, 0, 0, 0, 0, 0, 1, 0xff, 0, 0, 2,
   135, 0, 0, 0, 0, 0, 0, 0,
   0xfe, 0x80, 0, 0, 0, 0, 0, 0, 0, 0, 0, 0, 0, 0, 0, 2]
/-- the Neighbour Advertisement: sourced from the target, hop limit 255 -/
def c04NaRep : Bytes :=
  [2, 0, 0, 0, 0, 1, 192, 255, 238, 192, 255, 238, 134, 221,
   96, 0, 0, 0, 0, 32, 58, 255,
   254, 128, 0, 0, 0, 0, 0, 0, 0, 0, 0, 0, 0, 0, 0, 2,
   254, 128, 0, 0, 0, 0, 0, 0, 0, 0, 0, 0, 0, 0, 0, 1,
   136, 0, 106, 108, 96, 0, 0, 0,
   254, 128, 0, 0, 0, 0, 0, 0, 0, 0, 0, 0, 0, 0, 0, 2, 2, 1, 192, 255, 238, 192, 255, 238]

/-- UDP STUN binding request fe80::1 :1234 → fe80::2 :3478 -/
def c04Stun6Req : Bytes :=
  [0xc0, 0xff, 0xee, 0xc0, 0xff, 0xee, 2, 0, 0, 0, 0, 1, 0x86, 0xdd,
   0x60, 0, 0, 0, 0, 28, 17, 64,
   0xfe, 0x80, 0, 0, 0, 0, 0, 0, 0, 0, 0, 0, 0, 0, 0, 1,
   0xfe, 0x80, 0, 0, 0, 0, 0, 0, 0, 0, 0, 0, 0, 0, 0, 2,
   0x04, 0xd2, 0x0d, 0x96, 0, 28, 0, 0,
   0, 1, 0, 0, 0x21, 0x12, 0xa4, 0x42, 1, 2, 3, 4, 5, 6, 7, 8, 9, 10, 11, 12]
def c04Stun6Rep : Bytes :=
  [2, 0, 0, 0, 0, 1, 192, 255, 238, 192, 255, 238, 134, 221,
   96, 0, 0, 0, 0, 52, 17, 64,
   254, 128, 0, 0, 0, 0, 0, 0, 0, 0, 0, 0, 0, 0, 0, 2,
   254, 128, 0, 0, 0, 0, 0, 0, 0, 0, 0, 0, 0, 0, 0, 1,
   13, 150, 4, 210, 0, 52, 2, 23,
   1, 1, 0, 24, 33, 18, 164, 66, 1, 2, 3, 4, 5, 6, 7, 8, 9, 10, 11, 12,
   0, 1, 0, 20, 0, 2, 4, 210, 254, 128, 0, 0, 0, 0, 0, 0, 0, 0, 0, 0, 0, 0, 0, 1]

/-- TCP SYN fe80::1 :1234 → fe80::2 :80 -/
def c04Syn6Req : Bytes :=
  [0xc0, 0xff, 0xee, 0xc0, 0xff, 0xee, 2, 0, 0, 0, 0, 1, 0x86, 0xdd,
   0x60, 0, 0, 0, 0, 20, 6, 64,
   0xfe, 0x80, 0, 0, 0, 0, 0, 0, 0, 0, 0, 0, 0, 0, 0, 1,
   0xfe, 0x80, 0, 0, 0, 0, 0, 0, 0, 0, 0, 0, 0, 0, 0, 2,
   0x04, 0xd2, 0, 80, 0, 0, 0, 1, 0, 0, 0, 0, 0x50, 0x02, 0xff, 0xff, 0, 0, 0, 0]
def c04Syn6Rep : Bytes :=
  [2, 0, 0, 0, 0, 1, 192, 255, 238, 192, 255, 238, 134, 221,
   96, 0, 0, 0, 0, 20, 6, 64,
   254, 128, 0, 0, 0, 0, 0, 0, 0, 0, 0, 0, 0, 0, 0, 2,
   254, 128, 0, 0, 0, 0, 0, 0, 0, 0, 0, 0, 0, 0, 0, 1,
   0, 80, 4, 210, 109, 238, 77, 71, 0, 0, 0, 2, 80, 18, 255, 255, 242, 116, 0, 0]

/-- executable check "the output is exactly the reply `e`" (avoids a global `DecidableEq (Except ..)` instance) -/
private def outIs (o : Except Site (Option Bytes)) (e : Bytes) : Bool :=
  match o with
  | .ok (some r) => r == e
  | _ => false

private theorem outIs_eq {o : Except Site (Option Bytes)} {e : Bytes} (h : outIs o e = true) :
    o = .ok (some e) := by
  unfold outIs at h
  split at h
  · simp only [beq_iff_eq] at h; subst h; rfl
  · simp at h

example : c04Cfg.mac.length = 6 := by decide

-- the hypotheses of `reply_wf` are met by a concrete request of every reply-producing branch
example : (step c04Cfg c04Env [] c04IcmpReq).out = .ok (some c04IcmpRep) := outIs_eq (by decide +kernel)
example : (step c04Cfg c04Env [] c04ArpReq).out = .ok (some c04ArpRep) := outIs_eq (by decide +kernel)
example : (step c04Cfg c04Env [] c04SynReq).out = .ok (some c04SynRep) := outIs_eq (by decide +kernel)
example : (step c04Cfg c04Env [] c04StunReq).out = .ok (some c04StunRep) := outIs_eq (by decide +kernel)
example : (step c04Cfg c04Env [] c04Echo6Req).out = .ok (some c04Echo6Rep) := outIs_eq (by decide +kernel)
example : (step c04Cfg c04Env [] c04NsReq).out = .ok (some c04NaRep) := outIs_eq (by decide +kernel)
example : (step c04Cfg c04Env [] c04Stun6Req).out = .ok (some c04Stun6Rep) := outIs_eq (by decide +kernel)
example : (step c04Cfg c04Env [] c04Syn6Req).out = .ok (some c04Syn6Rep) := outIs_eq (by decide +kernel)

-- … and the theorem applies to them
example : Spec.frameWf c04IcmpRep = true :=
  reply_wf c04Cfg c04Env [] c04IcmpReq _ (by decide) (outIs_eq (by decide +kernel))
example : Spec.frameWf c04SynRep = true :=
  reply_wf c04Cfg c04Env [] c04SynReq _ (by decide) (outIs_eq (by decide +kernel))
example : Spec.frameWf c04NaRep = true :=
  reply_wf c04Cfg c04Env [] c04NsReq _ (by decide) (outIs_eq (by decide +kernel))
example : Spec.frameWf c04Stun6Rep = true :=
  reply_wf c04Cfg c04Env [] c04Stun6Req _ (by decide) (outIs_eq (by decide +kernel))

/-- a TCP data segment (HTTP request, valid cookie) gets a reply frame carrying the HTTP 401 page
    (54 bytes of Ethernet/IPv4/TCP headers + the response, whose text is generated: Gen/Texts.lean) -/
example : ∃ r, (step c04Cfg c04Env [] c04DataReq).out = .ok (some r) ∧
    r.length = 54 + (httpReplyBytes c04Env).length ∧ Spec.frameWf r = true := by
  have hc : (match (step c04Cfg c04Env [] c04DataReq).out with
      | .ok (some r) => r.length == 54 + (httpReplyBytes c04Env).length
      | _ => false) = true := by decide +kernel
  split at hc
  · rename_i r hr
    exact ⟨r, hr, by simpa using hc, reply_wf _ _ _ _ _ (by decide) hr⟩
  · simp at hc

-- the spec predicate is not trivially true: corrupting one checksum byte of a reply is rejected
example : Spec.frameWf (c04IcmpRep.set 36 0) = false := by decide +kernel
example : Spec.frameWf (c04SynRep.set 50 0) = false := by decide +kernel

end NonVacuity

section Axioms
#print axioms csum_insert_valid
#print axioms fold16_eq_ones
#print axioms sumWords_eq_wsum
#print axioms wsum_append_of_even
#print axioms wsum_setU16_zeroed
#print axioms csumOk_after_insert
#print axioms csumOk_after_insert_ffff
#print axioms reply_wf
#print axioms reply_wf_run
end Axioms

end Masscanned
