/-
  C09 — unvalidated traffic allocates no state: the connection table grows only on a TCP data
  segment (PSH|ACK) that acknowledges the flow's cookie + 1, by exactly one entry with a fresh key.
  Vocabulary (`frameCookie`, `isTcpData`, `validData`, `KeysDistinct`, `appendSteps`) is in Proofs/Run.
-/
import Masscanned.Proofs.Run
import Masscanned.Proofs.C07Ex
namespace Masscanned

/-- C09.1 one TCP segment: the table is returned literally unchanged, or the existing entry of the
    flow's cookie is updated in place (same length, same keys, segment has PSH and ACK), or — only
    when the cookie has no entry, the segment has PSH and ACK and acknowledges cookie+1 mod 2^32 —
    exactly one entry for that cookie is appended.  In the last two cases the segment is answered. -/
theorem tcp_table_step (cfg : Cfg) (env : Env) (st : Table) (ci : ClientInfo) (p : Bytes) (s d : Ip)
    (hl : p.length ≥ 20) (hs : ci.ipSrc = some s) (hd : ci.ipDst = some d)
    {evs : List Ev} {ci' : ClientInfo} {st' : Table} {out : Option Bytes}
    (h : tcpRepl cfg env st ci p = .ok (evs, ci', st', out)) :
    let ck := cookie cfg.k0 cfg.k1 s d (Spec.be16 p 0) (Spec.be16 p 2)
    st' = st ∨
    ((st.get? ck).isSome = true ∧ (tcpFlags p / 8 % 2 = 1 ∧ tcpFlags p / 16 % 2 = 1) ∧ out.isSome = true ∧
      (∃ v, st' = st.set ck v) ∧ st'.length = st.length ∧ st'.map Prod.fst = st.map Prod.fst) ∨
    (st.get? ck = none ∧ (tcpFlags p / 8 % 2 = 1 ∧ tcpFlags p / 16 % 2 = 1) ∧
      Spec.be32 p 8 = (ck + 1) % 4294967296 ∧ out.isSome = true ∧ ∃ v, st' = st ++ [(ck, v)]) := by
  intro ck
  have := tcp_table_step' hl h
  rw [tcpCk_eq hl hs hd] at this
  rcases this with h | ⟨hg, hb, hr, v, hv⟩ | h
  · exact .inl h
  · exact .inr (.inl ⟨hg, hb, hr, ⟨v, hv⟩, by rw [hv, Table.set_length _ _ _ hg], by rw [hv, Table.set_keys _ _ _ hg]⟩)
  · exact .inr (.inr h)

/-- C09.1 in particular: SYN (any flags without PSH+ACK), FIN, RST, bare ACK, and PSH|ACK with a wrong
    acknowledgement number on an unknown flow leave the table literally unchanged -/
theorem tcp_table_unchanged (cfg : Cfg) (env : Env) (st : Table) (ci : ClientInfo) (p : Bytes) (s d : Ip)
    (hl : p.length ≥ 20) (hs : ci.ipSrc = some s) (hd : ci.ipDst = some d)
    {evs : List Ev} {ci' : ClientInfo} {st' : Table} {out : Option Bytes}
    (h : tcpRepl cfg env st ci p = .ok (evs, ci', st', out))
    (hu : ¬(tcpFlags p / 8 % 2 = 1 ∧ tcpFlags p / 16 % 2 = 1) ∨
          (st.get? (cookie cfg.k0 cfg.k1 s d (Spec.be16 p 0) (Spec.be16 p 2)) = none ∧
            Spec.be32 p 8 ≠ (cookie cfg.k0 cfg.k1 s d (Spec.be16 p 0) (Spec.be16 p 2) + 1) % 4294967296)) :
    st' = st := by
  rcases tcp_table_step cfg env st ci p s d hl hs hd h with h | ⟨hg, hb, _⟩ | ⟨hg, hb, hack, _⟩
  · exact h
  · rcases hu with hu | ⟨hn, _⟩
    · exact absurd hb hu
    · rw [hn] at hg; cases hg
  · rcases hu with hu | ⟨_, hne⟩
    · exact absurd hb hu
    · exact absurd hack hne

/-- C09.2 one frame: the table is unchanged, or (TCP data frame of a flow whose cookie is in the table)
    that entry is updated in place, or (valid first data: PSH|ACK acknowledging cookie+1, cookie not in
    the table) exactly one entry with that fresh key is appended.  The last two only when the frame is
    answered. -/
theorem step_table (cfg : Cfg) (env : Env) (st : Table) (f : Bytes) :
    (step cfg env st f).st = st ∨
    (∃ ck v, frameCookie cfg f = some ck ∧ isTcpData f = true ∧ (st.get? ck).isSome = true ∧
        (∃ r, (step cfg env st f).out = .ok (some r)) ∧ (step cfg env st f).st = st.set ck v) ∨
    (∃ ck v, frameCookie cfg f = some ck ∧ validData cfg f = true ∧ st.get? ck = none ∧
        (∃ r, (step cfg env st f).out = .ok (some r)) ∧ (step cfg env st f).st = st ++ [(ck, v)]) :=
  step_table' cfg env st f

/-- C09.2 ARP, ICMP, ICMPv6, UDP, and any frame that is not IP/TCP leave the table unchanged -/
theorem step_table_not_tcp (cfg : Cfg) (env : Env) (st : Table) (f : Bytes)
    (h : Spec.ipProto f ≠ some 6) : (step cfg env st f).st = st := by
  rcases step_inv cfg env st f with h' | ⟨_, _, _, _, _, _, _, _, _, hp, _⟩
  · exact h'
  · exact absurd hp h

/-- C09.2 every frame that is not answered (dropped at any layer, or a panic) leaves the table unchanged -/
theorem step_table_silent (cfg : Cfg) (env : Env) (st : Table) (f : Bytes)
    (h : ∀ r, (step cfg env st f).out ≠ .ok (some r)) : (step cfg env st f).st = st := by
  rcases step_table cfg env st f with h' | ⟨_, _, _, _, _, ⟨r, hr⟩, _⟩ | ⟨_, _, _, _, _, ⟨r, hr⟩, _⟩
  · exact h'
  · exact absurd hr (h r)
  · exact absurd hr (h r)

/-- C09.2 a frame that is not valid first data does not make the table longer -/
theorem step_table_length (cfg : Cfg) (env : Env) (st : Table) (f : Bytes) :
    (step cfg env st f).st.length ≤ st.length + (if validData cfg f = true then 1 else 0) :=
  step_length_le cfg env st f

/-- C09.2 invariant: keys stay pairwise distinct -/
theorem step_keys_distinct (cfg : Cfg) (env : Env) (st : Table) (f : Bytes) (hk : KeysDistinct st) :
    KeysDistinct (step cfg env st f).st :=
  step_keysDistinct cfg env st f hk

theorem run_keys_distinct (cfg : Cfg) (env : Env) (st : Table) (fs : List Bytes) (hk : KeysDistinct st) :
    KeysDistinct (run cfg env st fs) := by
  induction fs generalizing st with
  | nil => exact hk
  | cons f fs ih => exact ih _ (step_keysDistinct cfg env st f hk)

/-- C09.3 the table after a history is no longer than the initial table plus the number of frames of
    the history that are valid first data (TCP, PSH|ACK, ack = cookie+1): its size does not depend
    on the volume of anything else (SYNs, wrong-ack data, FIN, RST, ACK, UDP, ICMP, ARP, garbage). -/
theorem run_table_bound (cfg : Cfg) (env : Env) (st : Table) (fs : List Bytes) :
    (run cfg env st fs).length ≤ st.length + (fs.filter (validData cfg)).length := by
  induction fs generalizing st with
  | nil => simp [run]
  | cons f fs ih =>
    have h1 := ih (step cfg env st f).st
    have h2 := step_length_le cfg env st f
    simp only [run, List.filter_cons]
    by_cases hv : validData cfg f = true
    · rw [if_pos hv] at h2; rw [if_pos hv]; simp only [List.length_cons]; omega
    · rw [if_neg hv] at h2; rw [if_neg hv]; omega

theorem run_table_bound_empty (cfg : Cfg) (env : Env) (fs : List Bytes) :
    (run cfg env [] fs).length ≤ (fs.filter (validData cfg)).length := by
  simpa using run_table_bound cfg env [] fs

/-- C09.3 exact form: the table length is the initial length plus the number of steps at which an entry
    was appended … -/
theorem run_table_exact (cfg : Cfg) (env : Env) (st : Table) (fs : List Bytes) :
    (run cfg env st fs).length = st.length + (appendSteps cfg env st fs).length := by
  induction fs generalizing st with
  | nil => simp [run, appendSteps]
  | cons f fs ih =>
    simp only [run, appendSteps, List.length_append]
    rw [ih]
    rcases step_length_cases cfg env st f with h | ⟨h, _⟩
    · rw [h, if_neg (by omega)]; simp
    · rw [h, if_pos rfl]; simp; omega

/-- … and each such step (table `x.1` before, frame `x.2`) is valid first data of a flow whose cookie
    was not in the table, appends exactly that cookie, and is answered. -/
theorem appendSteps_valid (cfg : Cfg) (env : Env) (st : Table) (fs : List Bytes) :
    ∀ x ∈ appendSteps cfg env st fs,
      validData cfg x.2 = true ∧
      ∃ ck, frameCookie cfg x.2 = some ck ∧ x.1.get? ck = none ∧
        (∃ v, (step cfg env x.1 x.2).st = x.1 ++ [(ck, v)]) ∧
        ∃ r, (step cfg env x.1 x.2).out = .ok (some r) := by
  induction fs generalizing st with
  | nil => intro x hx; simp [appendSteps] at hx
  | cons f fs ih =>
    intro x hx
    simp only [appendSteps, List.mem_append] at hx
    rcases hx with hx | hx
    · split at hx
      · rename_i hlen
        simp only [List.mem_singleton] at hx
        subst hx
        rcases step_length_cases cfg env st f with h | ⟨_, hv, hrest⟩
        · omega
        · exact ⟨hv, hrest⟩
      · cases hx
    · exact ih _ x hx

/-- C09.3 every key stored after a history from the empty table is the cookie of some valid-first-data
    frame of that history (and keys are pairwise distinct, `run_keys_distinct`): the table size is at
    most the number of distinct validated cookies. -/
theorem run_keys_valid (cfg : Cfg) (env : Env) (st : Table) (fs : List Bytes) (k : Nat)
    (hk : k ∈ (run cfg env st fs).map Prod.fst) :
    k ∈ st.map Prod.fst ∨ ∃ f ∈ fs, validData cfg f = true ∧ frameCookie cfg f = some k := by
  induction fs generalizing st with
  | nil => exact .inl hk
  | cons f fs ih =>
    rcases ih _ hk with h | ⟨g, hg, hv⟩
    · rcases step_keys_sub cfg env st f k h with h | h
      · exact .inl h
      · exact .inr ⟨f, List.mem_cons_self, h⟩
    · exact .inr ⟨g, List.mem_cons_of_mem _ hg, hv⟩

/-! ### non-vacuity -/
open C07ex

/-- hypotheses of `tcp_table_step` on a concrete segment; the append case really occurs -/
example : segA.length ≥ 20 ∧ ciA.ipSrc = some (.v4 [1, 2, 3, 4]) ∧ ciA.ipDst = some (.v4 [10, 0, 0, 1]) := by
  decide
/-- a valid-first-data frame (Ethernet/IPv4/TCP carrying `segA`): recognised by `validData`,
    and the step from the empty table appends one entry and answers -/
example : validData cfg0 frameA = true ∧ (step cfg0 env0 [] frameA).st.length = 1 := by decide +kernel
/-- a SYN frame and a wrong-ack data frame are not valid first data … -/
example : validData cfg0 frameSyn = false ∧ validData cfg0 frameB = false := by decide +kernel
/-- … so any number of them, in any order, leaves the table empty -/
example (fs : List Bytes) (h : ∀ f ∈ fs, f = frameSyn ∨ f = frameB) : run cfg0 env0 [] fs = [] := by
  have hb := run_table_bound_empty cfg0 env0 fs
  have hf : fs.filter (validData cfg0) = [] := by
    rw [List.filter_eq_nil_iff]
    intro f hf
    have hv : validData cfg0 frameSyn = false ∧ validData cfg0 frameB = false := by decide +kernel
    rcases h f hf with h | h <;> subst h <;> simp [hv.1, hv.2]
  rw [hf] at hb
  exact List.eq_nil_of_length_eq_zero (by simpa using hb)
example : KeysDistinct [] := by simp [KeysDistinct]

#print axioms tcp_table_step
#print axioms tcp_table_unchanged
#print axioms step_table
#print axioms step_table_not_tcp
#print axioms step_table_silent
#print axioms step_table_length
#print axioms step_keys_distinct
#print axioms run_keys_distinct
#print axioms run_table_bound
#print axioms run_table_bound_empty
#print axioms run_table_exact
#print axioms appendSteps_valid
#print axioms run_keys_valid

end Masscanned
