/-
  C02 — "Silence outside scope".

  (a) A frame whose destination MAC is not authorised, or whose source IP is on the deny list,
      or whose EtherType is not ARP/IPv4/IPv6, or whose next protocol is not ICMP/TCP/UDP
      (ICMPv6/TCP/UDP for IPv6), never elicits a reply.
  (b) With a self-IP list configured, the source IP of every reply and every address advertised
      in an ARP reply / Neighbour Advertisement belongs to the list.

  Vocabulary: Spec/Wire (`mustBeSilent`, `authMac`, `replyInScope`, …), independent of the model.
  Proofs: Proofs/Net (shape of each layer's output), Proofs/Frame (offsets in the emitted frame).
-/
import Masscanned.Proofs.C0203.Frame
import Masscanned.Proofs.C0203.Examples
namespace Masscanned.C02
open Masscanned

/-- the model's list of accepted destination MACs is exactly the Spec's `authMac` -/
theorem authMacs_iff (cfg : Cfg) (m : Bytes) :
    (authMacs cfg).contains m = true ↔ Spec.authMac cfg m = true := by
  rw [authMacs_contains]

/-- C02 (a) -/
theorem silent_outside_scope (cfg : Cfg) (env : Env) (st : Table) (f : Bytes)
    (h : Spec.mustBeSilent cfg f = true) : ∀ r, (step cfg env st f).out ≠ .ok (some r) := by
  intro r hr
  have := not_mustBeSilent_of_shape (step_shape hr)
  rw [h] at this
  cases this

/-- C02 (b) -/
theorem reply_in_scope (cfg : Cfg) (env : Env) (st : Table) (f r : Bytes) (hm : cfg.mac.length = 6)
    (h : (step cfg env st f).out = .ok (some r)) : Spec.replyInScope cfg r = true :=
  replyInScope_of_shape hm (step_shape h)

/-! ### the four disjuncts of (a), one by one -/

theorem silent_if_dst_mac_unauthorised (cfg : Cfg) (env : Env) (st : Table) (f : Bytes)
    (h : Spec.authMac cfg (Spec.sub f 0 6) = false) : ∀ r, (step cfg env st f).out ≠ .ok (some r) :=
  silent_outside_scope cfg env st f (by simp [Spec.mustBeSilent, h])

theorem silent_if_src_denied (cfg : Cfg) (env : Env) (st : Table) (f : Bytes) (s : Ip)
    (hs : Spec.srcIp f = some s) (h : Spec.inList cfg.deny s = true) :
    ∀ r, (step cfg env st f).out ≠ .ok (some r) :=
  silent_outside_scope cfg env st f (by simp [Spec.mustBeSilent, hs, h])

theorem silent_if_ethertype_unsupported (cfg : Cfg) (env : Env) (st : Table) (f : Bytes)
    (h1 : Spec.be16 f 12 ≠ 0x0806) (h2 : Spec.be16 f 12 ≠ 0x0800) (h3 : Spec.be16 f 12 ≠ 0x86dd) :
    ∀ r, (step cfg env st f).out ≠ .ok (some r) :=
  silent_outside_scope cfg env st f (by simp [Spec.mustBeSilent, h1, h2, h3])

theorem silent_if_l4_unsupported (cfg : Cfg) (env : Env) (st : Table) (f : Bytes) (p : Nat)
    (hp : Spec.ipProto f = some p)
    (h : if Spec.be16 f 12 = 0x0800 then p ≠ 1 ∧ p ≠ 6 ∧ p ≠ 17 else p ≠ 58 ∧ p ≠ 6 ∧ p ≠ 17) :
    ∀ r, (step cfg env st f).out ≠ .ok (some r) := by
  apply silent_outside_scope
  unfold Spec.mustBeSilent
  rw [hp]
  split at h <;> rename_i he <;> simp [he, h]

/-! ### non-vacuity -/

-- (a): frames that must be silenced, one per disjunct
example : Spec.mustBeSilent Ex.cfg Ex.arpReqForeign = true := by decide   -- foreign destination MAC
example : Spec.mustBeSilent Ex.cfg Ex.echoReqDenied = true := by decide   -- denied source
example : Spec.mustBeSilent Ex.cfg Ex.lldpFrame = true := by decide       -- EtherType 0x88cc
example : Spec.mustBeSilent Ex.cfg Ex.greFrame = true := by decide        -- IPv4 protocol 47
-- … and `mustBeSilent` is not constantly true: the plain ARP / echo requests are in scope
example : Spec.mustBeSilent Ex.cfg Ex.arpReq = false := by decide
example : Spec.mustBeSilent Ex.cfg Ex.echoReq = false := by decide
-- (b): frames that do get a reply (hypotheses of `reply_in_scope`), with a self-IP list configured
example : Ex.cfg.mac.length = 6 := rfl
example : (step Ex.cfg Ex.env [] Ex.arpReq).out = .ok (some Ex.arpReply) := by rfl
example : ∃ r, (step Ex.cfg Ex.env [] Ex.echoReq).out = .ok (some r) := ⟨_, by rfl⟩
example : Spec.replyInScope Ex.cfg Ex.arpReply = true := by decide
-- `replyInScope` can fail: an ARP reply advertising an address we do not handle
example : Spec.replyInScope Ex.cfg (Ex.arpReply.set 31 9) = false := by decide

end Masscanned.C02

#print axioms Masscanned.C02.silent_outside_scope
#print axioms Masscanned.C02.reply_in_scope
#print axioms Masscanned.C02.authMacs_iff
#print axioms Masscanned.C02.silent_if_dst_mac_unauthorised
#print axioms Masscanned.C02.silent_if_src_denied
#print axioms Masscanned.C02.silent_if_ethertype_unsupported
#print axioms Masscanned.C02.silent_if_l4_unsupported
