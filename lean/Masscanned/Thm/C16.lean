/-
  Thm/C16 — ONC-RPC responder (src/proto/rpc.rs).

  C16: "An ONC-RPC call for a program in the portmapper range is answered with an accepted reply
  carrying the same XID and a null verifier, XDR-well-formed (4-byte aligned, padded strings), and
  over TCP framed by a record mark with the last-fragment bit set and a length equal to the reply
  length. In this order of precedence: versions outside 2-4 get PROG_MISMATCH(2,4), procedure 0 an
  empty success, portmapper GETPORT/GETADDR and DUMP advertise exactly the IP address and port the
  client contacted (port number or universal address, netid matching the IP version), other
  procedures PROC_UNAVAIL and other programs PROG_UNAVAIL."

  Over TCP this holds for EVERY call of a connection, not only the first one: `repl_tcp` resets the
  stored parser state once a call has been answered (`rpc_tcp_state_reset`), so the next call is parsed
  from scratch and answered with its own XID (`rpc_reply_tcp_every_call`, `rpc_tcp_two_calls`,
  `rpc_tcp_calls_all_answered`).  (Before the repair of src/proto/rpc.rs the state stayed `End` and every
  further segment was answered with the reply to the FIRST call — formerly `rpc_tcp_second_call_stale`.)

  Helper lemmas: Proofs/C16/{Parse,Ip,Reply,Build,Glue}.lean, Proofs/RpcFix/Calls.lean.
-/
import Masscanned.Proofs.C16.Glue
import Masscanned.Proofs.RpcFix.Calls
open Masscanned
namespace Masscanned.C16

/-! ## 6. the parser is a byte fold (reused by C11) -/

theorem rpc_parse_append (ovf : Bool) (s : RpcSt) (a b : Bytes) :
    rpcParse ovf s (a ++ b) = (rpcParse ovf s a).bind (fun s' => rpcParse ovf s' b) :=
  rpcParse_append ovf s a b

/-! ## 1. parsing a datagram whose call header is complete -/

/-- Full strength: the whole final state is determined (`hdrState`); in particular the parser reaches
    `done` with the four fields the reply depends on, with and without overflow checks. -/
theorem rpc_parse_header (ovf : Bool) (n : Nat) (p : Bytes) (h : Spec.callHeaderComplete p = true) :
    ∃ s, rpcParse ovf { state := .xid, lastFrag := true, fragLen := n } p = .ok s ∧
      s.state = .done ∧ s.xid = Spec.be32 p 0 ∧ s.program = Spec.be32 p 12 ∧
      s.progVersion = Spec.be32 p 16 ∧ s.procedure = Spec.be32 p 20 ∧
      s.messageType = Spec.be32 p 4 ∧ s.rpcVersion = Spec.be32 p 8 := by
  obtain ⟨h40, _, hc⟩ := complete_facts p h
  exact ⟨_, parse_header_from ovf true n p h40 hc, rfl, rfl, rfl, rfl, rfl, rfl, rfl⟩

/-! ## 2. the UDP reply -/

/-- No well-formedness hypothesis on `ip` is needed: the equality of the two address formatters
    (`showV4_eq`, `showV6_eq` in Proofs/C16/Ip) holds for every byte string. -/
theorem rpc_reply_udp (ovf : Bool) (ci : ClientInfo) (p : Bytes) (c : Spec.RpcCall) (ip : Ip) (port : Nat)
    (hc : Spec.parseCall p = some c) (hip : ci.ipDst = some ip) (hport : ci.portDst = some port)
    (hp : port < 65536) :
    ∃ r, rpcReplUdp ovf ci p = .ok (some r) ∧ Spec.rpcReplyOk c r ip port = true := by
  obtain ⟨hcomp, hx, hpr, hv, hq⟩ := parseCall_facts p c hc
  obtain ⟨h40, _, hcl⟩ := complete_facts p hcomp
  have hparse := parse_header_from ovf true p.length p h40 hcl
  obtain ⟨r, hb, hok, _⟩ := build_spec (hdrState true p.length p) ci ip port c hip hport hp
    (be32_lt p 0) hx hpr hv hq
  refine ⟨r, ?_, hok⟩
  unfold rpcReplUdp
  rw [hparse]
  simp only [hdrState, if_true] at hb ⊢
  rw [hb]

/-- the two address formatters agree on every input (RFC 5952: longest zero run, leftmost on ties,
    length ≥ 2, IPv4-mapped form) -/
theorem rpc_ip_text (ip : Ip) : showIp ip = Spec.ipText ip := showIp_eq ip

/-! ## 3. the TCP reply -/

/-- **the stored parser state is reset after a reply** (`*pstate = ProtocolState::new()`): whenever
    `repl_tcp` answers, from whatever stored state, the state it stores is the initial one -/
theorem rpc_tcp_state_reset (ovf : Bool) (s s' : RpcSt) (ci : ClientInfo) (d r : Bytes)
    (h : rpcReplTcp ovf s ci d = .ok (s', some r)) : s' = {} :=
  rpcReplTcp_reset h

/-- consequently a stored state is never the final state `End` of the parser -/
theorem rpc_tcp_stored_not_done (ovf : Bool) (s s' : RpcSt) (ci : ClientInfo) (d : Bytes) (o : Option Bytes)
    (h : rpcReplTcp ovf s ci d = .ok (s', o)) : s'.state ≠ .done :=
  rpcReplTcp_not_done h

/-- the first call of a flow (fresh parser state) -/
theorem rpc_reply_tcp (ovf : Bool) (ci : ClientInfo) (p : Bytes) (c : Spec.RpcCall) (ip : Ip) (port : Nat)
    (hlen : 4 ≤ p.length) (hc : Spec.parseCall (p.drop 4) = some c)
    (hip : ci.ipDst = some ip) (hport : ci.portDst = some port) (hp : port < 65536) :
    ∃ s r body, rpcReplTcp ovf {} ci p = .ok (s, some r) ∧ Spec.recordMarkOk r = some body ∧
      Spec.rpcReplyOk c body ip port = true := by
  obtain ⟨r, body, h1, h2, h3⟩ := rpcReplTcp_fresh_call ovf ci p c ip port hlen hc hip hport hp
  exact ⟨{}, r, body, h1, h2, h3⟩

/-- **every call, `repl_tcp`**: from the initial parser state — the state stored after ANY answered call
    (`rpc_tcp_state_reset`) — a complete call behind a record mark is answered with a record mark and the
    prescribed reply for ITS OWN xid, and the state stored afterwards is the initial one again -/
theorem rpc_reply_tcp_every_call (ovf : Bool) (ci : ClientInfo) (p : Bytes) (c : Spec.RpcCall) (ip : Ip) (port : Nat)
    (hlen : 4 ≤ p.length) (hc : Spec.parseCall (p.drop 4) = some c)
    (hip : ci.ipDst = some ip) (hport : ci.portDst = some port) (hp : port < 65536) :
    ∃ r body, rpcReplTcp ovf {} ci p = .ok ({}, some r) ∧ Spec.recordMarkOk r = some body ∧
      Spec.rpcReplyOk c body ip port = true ∧ Spec.be32 body 0 = c.xid :=
  by
  obtain ⟨r, body, h1, h2, h3⟩ := rpcReplTcp_fresh_call ovf ci p c ip port hlen hc hip hport hp
  exact ⟨r, body, h1, h2, h3, rpcReplyOk_xid c body ip port h3⟩

/-- **every call, `proto::repl` with the flow's control block**: on a flow identified as ONC-RPC over TCP
    whose stored parser state is the initial one (`FreshRpc`: in particular the block stored after any
    answered call, `resetBlock`), with the SYN-cookie gate open, a segment holding a complete call is
    answered with the reply for its own xid and the block stored is `resetBlock t` — `FreshRpc` again -/
theorem rpc_reply_tcp_block (cfg : Cfg) (env : Env) (ci : ClientInfo) (hg : GateOpen ci) (t : Tcb) (hf : FreshRpc t)
    (p : Bytes) (c : Spec.RpcCall) (ip : Ip) (port : Nat) (hcall : TcpCall p c)
    (hip : ci.ipDst = some ip) (hport : ci.portDst = some port) (hp : port < 65536) :
    ∃ r, protoRepl cfg env ci (some t) p = .ok (ci, some (resetBlock t), r) ∧ TcpReplyOk c ip port r ∧
      FreshRpc (resetBlock t) := by
  obtain ⟨r, h1, h2⟩ := protoRepl_fresh_call cfg env ci hg t hf p c ip port hcall hip hport hp
  exact ⟨r, h1, h2, freshRpc_resetBlock hf.1⟩

/-- **two consecutive calls** `c1`, `c2` sent as two segments `p1`, `p2` of the same flow: both are
    answered, each with the reply for its own call (own xid) -/
theorem rpc_tcp_two_calls (cfg : Cfg) (env : Env) (ci : ClientInfo) (hg : GateOpen ci) (t : Tcb) (hf : FreshRpc t)
    (p1 p2 : Bytes) (c1 c2 : Spec.RpcCall) (ip : Ip) (port : Nat) (h1 : TcpCall p1 c1) (h2 : TcpCall p2 c2)
    (hip : ci.ipDst = some ip) (hport : ci.portDst = some port) (hp : port < 65536) :
    ∃ r1 r2, C11.feed cfg env ci t [p1, p2] = .ok (resetBlock t, [r1, r2]) ∧
      TcpReplyOk c1 ip port r1 ∧ TcpReplyOk c2 ip port r2 := by
  obtain ⟨r1, e1, k1, hf1⟩ := rpc_reply_tcp_block cfg env ci hg t hf p1 c1 ip port h1 hip hport hp
  obtain ⟨r2, e2, k2, _⟩ := rpc_reply_tcp_block cfg env ci hg _ hf1 p2 c2 ip port h2 hip hport hp
  refine ⟨r1, r2, ?_, k1, k2⟩
  rw [C11.feed_cons_ok cfg env ci ci _ _ p1 [p2] r1 e1, C11.feed_cons_ok cfg env ci ci _ _ p2 [] r2 e2,
    C11.feed_nil]
  rfl

/-- **all calls of a connection are answered**: any list of segments each holding a complete call, fed
    one after the other to `proto::repl` with the flow's control block (`C11.feed`, as `tcp::repl` does):
    no panic, one reply per call, the k-th reply is the prescribed reply to the k-th call (`AllAnswered`),
    and the block ends with the initial parser state -/
theorem rpc_tcp_calls_all_answered (cfg : Cfg) (env : Env) (ci : ClientInfo) (hg : GateOpen ci) (ip : Ip) (port : Nat)
    (hip : ci.ipDst = some ip) (hport : ci.portDst = some port) (hp : port < 65536)
    (cs : List (Bytes × Spec.RpcCall)) (hcs : ∀ pc ∈ cs, TcpCall pc.1 pc.2) (t : Tcb) (hf : FreshRpc t) :
    ∃ t' rs, C11.feed cfg env ci t (cs.map (·.1)) = .ok (t', rs) ∧ AllAnswered ip port cs rs ∧
      FreshRpc t' ∧ (cs ≠ [] → t' = resetBlock t) := by
  induction cs generalizing t with
  | nil => exact ⟨t, [], by rw [List.map_nil, C11.feed_nil], trivial, hf, fun h => absurd rfl h⟩
  | cons pc cs ih =>
    obtain ⟨p, c⟩ := pc
    obtain ⟨r, e, k, hf1⟩ := rpc_reply_tcp_block cfg env ci hg t hf p c ip port
      (hcs (p, c) (List.mem_cons_self ..)) hip hport hp
    obtain ⟨t', rs, e', k', hf', ht'⟩ := ih (fun pc h => hcs pc (List.mem_cons_of_mem _ h)) (resetBlock t) hf1
    refine ⟨t', r :: rs, ?_, ⟨k, k'⟩, hf', fun _ => ?_⟩
    · rw [List.map_cons, C11.feed_cons_ok cfg env ci ci _ _ p _ r e, e']
    · by_cases hn : cs = []
      · subst hn
        rw [List.map_nil, C11.feed_nil] at e'
        simp only [Except.ok.injEq, Prod.mk.injEq] at e'
        exact e'.1.symm
      · rw [ht' hn, resetBlock_idem]

/-- each of the k-th replies, spelled out -/
theorem rpc_tcp_kth_call_answered (cfg : Cfg) (env : Env) (ci : ClientInfo) (hg : GateOpen ci) (ip : Ip) (port : Nat)
    (hip : ci.ipDst = some ip) (hport : ci.portDst = some port) (hp : port < 65536)
    (cs : List (Bytes × Spec.RpcCall)) (hcs : ∀ pc ∈ cs, TcpCall pc.1 pc.2) (t : Tcb) (hf : FreshRpc t)
    (k : Nat) (p : Bytes) (c : Spec.RpcCall) (hk : cs[k]? = some (p, c)) :
    ∃ t' rs x body, C11.feed cfg env ci t (cs.map (·.1)) = .ok (t', rs) ∧ rs[k]? = some (some x) ∧
      Spec.recordMarkOk x = some body ∧ Spec.rpcReplyOk c body ip port = true := by
  obtain ⟨t', rs, e, ha, _, _⟩ := rpc_tcp_calls_all_answered cfg env ci hg ip port hip hport hp cs hcs t hf
  obtain ⟨r, hr, x, body, rfl, hm, hok⟩ := allAnswered_get ha k p c hk
  exact ⟨t', rs, x, body, e, hr, hm, hok⟩

/-! ## 4. the message type is not checked by the responder; the dispatcher's signatures require 0 -/

/-- a payload matching the UDP signature has message type 0 (CALL), RPC version < 256, a program in
    the portmapper range 99840..100095 and a procedure < 256 -/
theorem rpc_sig_udp (p : Bytes) (h : Spec.prefixMatch Spec.rpcCall p = true) :
    Spec.be32 p 4 = 0 ∧ Spec.be32 p 8 < 256 ∧ Spec.inPortmapRange (Spec.be32 p 12) = true ∧
      Spec.be32 p 20 < 256 ∧ 24 ≤ p.length := by
  rw [rpcCall_eq] at h
  obtain ⟨b0, t, rfl, -, h⟩ := pm_cons _ _ _ h
  obtain ⟨b1, t, rfl, -, h⟩ := pm_cons _ _ _ h
  obtain ⟨b2, t, rfl, -, h⟩ := pm_cons _ _ _ h
  obtain ⟨b3, t, rfl, -, h⟩ := pm_cons _ _ _ h
  obtain ⟨b4, t, rfl, h4, h⟩ := pm_cons _ _ _ h
  obtain ⟨b5, t, rfl, h5, h⟩ := pm_cons _ _ _ h
  obtain ⟨b6, t, rfl, h6, h⟩ := pm_cons _ _ _ h
  obtain ⟨b7, t, rfl, h7, h⟩ := pm_cons _ _ _ h
  obtain ⟨b8, t, rfl, h8, h⟩ := pm_cons _ _ _ h
  obtain ⟨b9, t, rfl, h9, h⟩ := pm_cons _ _ _ h
  obtain ⟨b10, t, rfl, h10, h⟩ := pm_cons _ _ _ h
  obtain ⟨b11, t, rfl, -, h⟩ := pm_cons _ _ _ h
  obtain ⟨b12, t, rfl, h12, h⟩ := pm_cons _ _ _ h
  obtain ⟨b13, t, rfl, h13, h⟩ := pm_cons _ _ _ h
  obtain ⟨b14, t, rfl, h14, h⟩ := pm_cons _ _ _ h
  obtain ⟨b15, t, rfl, -, h⟩ := pm_cons _ _ _ h
  obtain ⟨b16, t, rfl, -, h⟩ := pm_cons _ _ _ h
  obtain ⟨b17, t, rfl, -, h⟩ := pm_cons _ _ _ h
  obtain ⟨b18, t, rfl, -, h⟩ := pm_cons _ _ _ h
  obtain ⟨b19, t, rfl, -, h⟩ := pm_cons _ _ _ h
  obtain ⟨b20, t, rfl, h20, h⟩ := pm_cons _ _ _ h
  obtain ⟨b21, t, rfl, h21, h⟩ := pm_cons _ _ _ h
  obtain ⟨b22, t, rfl, h22, h⟩ := pm_cons _ _ _ h
  obtain ⟨b23, t, rfl, -, h⟩ := pm_cons _ _ _ h
  simp only [Spec.symMatch, decide_eq_true_eq] at h4 h5 h6 h7 h8 h9 h10 h12 h13 h14 h20 h21 h22
  subst h4 h5 h6 h7 h8 h9 h10 h12 h13 h14 h20 h21 h22
  have := b11.toNat_lt; have := b15.toNat_lt; have := b23.toNat_lt
  simp [Spec.be32, Spec.be16, Spec.u8, Spec.inPortmapRange]
  omega

/-- over TCP the same fields sit 4 bytes further (after the record mark) -/
theorem rpc_sig_tcp (p : Bytes) (h : Spec.prefixMatch (Spec.anyN 4 ++ Spec.rpcCall) p = true) :
    Spec.be32 p 8 = 0 ∧ Spec.be32 p 12 < 256 ∧ Spec.inPortmapRange (Spec.be32 p 16) = true ∧
      Spec.be32 p 24 < 256 ∧ 28 ≤ p.length := by
  have e : Spec.anyN 4 ++ Spec.rpcCall = .any :: .any :: .any :: .any :: Spec.rpcCall := rfl
  rw [e] at h
  obtain ⟨a0, t, rfl, -, h⟩ := pm_cons _ _ _ h
  obtain ⟨a1, t, rfl, -, h⟩ := pm_cons _ _ _ h
  obtain ⟨a2, t, rfl, -, h⟩ := pm_cons _ _ _ h
  obtain ⟨a3, t, rfl, -, h⟩ := pm_cons _ _ _ h
  obtain ⟨h1, h2, h3, h4, h5⟩ := rpc_sig_udp t h
  have e4 : ∀ j, Spec.be32 (a0 :: a1 :: a2 :: a3 :: t) (4 + j) = Spec.be32 t j := fun j =>
    (be32_drop (a0 :: a1 :: a2 :: a3 :: t) 4 j).symm
  rw [show (8 : Nat) = 4 + 4 from rfl, show (12 : Nat) = 4 + 8 from rfl, show (16 : Nat) = 4 + 12 from rfl,
    show (24 : Nat) = 4 + 20 from rfl, e4, e4, e4, e4]
  exact ⟨h1, h2, h3, h4, by simp only [List.length_cons]; omega⟩

/-- the pinned signature set has exactly one ONC-RPC signature per transport, the ones above -/
theorem rpc_sigs_pinned :
    (Spec.sigs.filter (fun g => g.id = Spec.ID_RPC_UDP)).map (fun g => (g.pat, g.endAnchored)) =
      [(Spec.rpcCall, false)] ∧
    (Spec.sigs.filter (fun g => g.id = Spec.ID_RPC_TCP)).map (fun g => (g.pat, g.endAnchored)) =
      [(Spec.anyN 4 ++ Spec.rpcCall, false)] := by
  decide +kernel

/-- what `rpc_reply_type_silent` can truthfully say: the responder itself never looks at the message
    type (a REPLY message is answered like a CALL: `rpc_type_unchecked_example` below); every payload
    the dispatcher hands to it, i.e. completing an ONC-RPC signature, has message type 0 -/
theorem rpc_reply_type_silent :
    (∀ g ∈ Spec.sigs, g.id = Spec.ID_RPC_UDP → ∀ p, Spec.prefixMatch g.pat p = true → Spec.be32 p 4 = 0) ∧
    (∀ g ∈ Spec.sigs, g.id = Spec.ID_RPC_TCP → ∀ p, Spec.prefixMatch g.pat p = true → Spec.be32 p 8 = 0) := by
  obtain ⟨hu, ht⟩ := rpc_sigs_pinned
  constructor
  · intro g hg hid p hm
    have : (g.pat, g.endAnchored) ∈ [(Spec.rpcCall, false)] := by
      rw [← hu]; exact List.mem_map.2 ⟨g, List.mem_filter.2 ⟨hg, by simpa using hid⟩, rfl⟩
    simp only [List.mem_singleton, Prod.mk.injEq] at this
    rw [this.1] at hm
    exact (rpc_sig_udp p hm).1
  · intro g hg hid p hm
    have : (g.pat, g.endAnchored) ∈ [(Spec.anyN 4 ++ Spec.rpcCall, false)] := by
      rw [← ht]; exact List.mem_map.2 ⟨g, List.mem_filter.2 ⟨hg, by simpa using hid⟩, rfl⟩
    simp only [List.mem_singleton, Prod.mk.injEq] at this
    rw [this.1] at hm
    exact (rpc_sig_tcp p hm).1

/-! ## 5. no panic -/

/-- every state reachable from the initial one satisfies `RpcInv` (`rpcInv_init`, `rpcByte_inv`);
    from such a state no byte string makes the FSM overflow or underflow, with or without overflow
    checks, and the reply builder does not panic: UDP handler, and TCP handler from any stored state
    (the new stored state satisfies the invariant again). -/
theorem rpc_no_panic (ovf : Bool) (ci : ClientInfo) (ip : Ip) (port : Nat)
    (hip : ci.ipDst = some ip) (hport : ci.portDst = some port) :
    RpcInv {} ∧
    (∀ s b, RpcInv s → ∃ s', rpcByte ovf s b = .ok s' ∧ RpcInv s') ∧
    (∀ s d, RpcInv s → ∃ s', rpcParse ovf s d = .ok s' ∧ RpcInv s') ∧
    (∀ d, ∃ r, rpcReplUdp ovf ci d = .ok r) ∧
    (∀ s d, RpcInv s → ∃ s' r, rpcReplTcp ovf s ci d = .ok (s', r) ∧ RpcInv s') := by
  refine ⟨rpcInv_init, fun s b h => rpcByte_inv ovf s b h, fun s d h => rpcParse_inv ovf s d h, ?_, ?_⟩
  · intro d
    obtain ⟨s', hp, _⟩ := rpcParse_inv ovf _ d (rpcInv_udp d.length)
    unfold rpcReplUdp
    rw [hp]
    by_cases hd : s'.state = .done
    · obtain ⟨r, hr⟩ := rpcBuild_total s' ci ip port hip hport
      exact ⟨some r, by simp only [hd, if_true, hr]⟩
    · exact ⟨none, by simp only [hd, if_false]⟩
  · intro s d h
    obtain ⟨s', hp, hi⟩ := rpcParse_inv ovf s d h
    unfold rpcReplTcp
    rw [hp]
    by_cases hd : s'.state = .done
    · obtain ⟨r, hr⟩ := rpcBuild_total s' ci ip port hip hport
      simp only [hd, if_true, hr]
      exact ⟨{}, _, rfl, rpcInv_init⟩
    · exact ⟨s', none, by simp only [hd, if_false], hi⟩

/-! ## within one segment: bytes after the end of a call are not parsed

  Inside `rpc_parse` the final state `End` is absorbing (`RpcState::End => pstate.payload.push(*byte)`):
  the bytes of a segment that follow the end of a call are dropped — the reply is built for that call, the
  state is reset, and the NEXT SEGMENT starts a new call.  So calls are answered one per segment; a
  second call pipelined in the same segment as the first is not answered (observation, outside C16 which
  speaks of a call; example below). -/

theorem rpc_tcp_trailing_ignored (ovf : Bool) (ci : ClientInfo) (s s1 : RpcSt) (d e : Bytes)
    (h : rpcParse ovf s d = .ok s1) (hd : s1.state = .done) :
    rpcReplTcp ovf s ci (d ++ e) = rpcReplTcp ovf s ci d := by
  unfold rpcReplTcp
  rw [rpcParse_append, h]
  show (match rpcParse ovf s1 e with | .error x => _ | .ok s' => _) = _
  rw [rpcParse_done ovf s1 e hd]

/-! ## non-vacuity and tests (closed terms, kernel evaluation) -/

-- GETPORT v2 over IPv4: port 111 as u32
example : udpCase true ci4 ip4 (mkCall 0x72fe1d13 100000 2 3) ⟨0x72fe1d13, 2, 100000, 2, 3⟩
    "72fe1d1300000001000000000000000000000000000000000000006f" = true := by decide +kernel
-- GETADDR v3 over IPv6: universal address "2001:db8::1.0.111", padded
example : udpCase false ci6 ip6 (mkCall 0x72fe1d13 100000 3 3) ⟨0x72fe1d13, 2, 100000, 3, 3⟩
    "72fe1d13000000010000000000000000000000000000000000000011323030313a6462383a3a312e302e313131000000" = true := by
  decide +kernel
-- DUMP v4 over IPv4: three rpcb entries, netid "tcp", universal address "192.0.0.1.0.111", owner = the
-- generated owner string (Gen/Texts.lean) as XDR string (length, bytes, padding)
example : udpCase true ci4 ip4 (mkCall 0x72fe1d13 100000 4 4) ⟨0x72fe1d13, 2, 100000, 4, 4⟩
    ("72fe1d13000000010000000000000000000000000000000000000001000186a00000000200000003746370000000000f3139322e302e302e312e302e31313100"
      ++ hexOf (xdrString Gen.rpcOwner) ++
     "00000001000186a00000000300000003746370000000000f3139322e302e302e312e302e31313100"
      ++ hexOf (xdrString Gen.rpcOwner) ++
     "00000001000186a00000000400000003746370000000000f3139322e302e302e312e302e31313100"
      ++ hexOf (xdrString Gen.rpcOwner) ++ "00000000") = true := by
  decide +kernel
-- DUMP v2 over IPv6: three pmap entries (protocol 6, port 111)
example : udpCase true ci6 ip6 (mkCall 0x72fe1d13 100000 2 4) ⟨0x72fe1d13, 2, 100000, 2, 4⟩
    "72fe1d13000000010000000000000000000000000000000000000001000186a000000002000000060000006f00000001000186a000000003000000060000006f00000001000186a000000004000000060000006f00000000" = true := by
  decide +kernel
-- NULL procedure
example : udpCase true ci4 ip4 (mkCall 0x72fe1d13 100000 2 0) ⟨0x72fe1d13, 2, 100000, 2, 0⟩
    "72fe1d130000000100000000000000000000000000000000" = true := by decide +kernel
-- version 104316 (Nmap RPCCheck): PROG_MISMATCH(2,4), also for procedure 0
example : udpCase true ci4 ip4 (mkCall 0x72fe1d13 100000 104316 0) ⟨0x72fe1d13, 2, 100000, 104316, 0⟩
    "72fe1d1300000001000000000000000000000000000000020000000200000004" = true := by decide +kernel
-- program 100003 (NFS): PROG_UNAVAIL
example : udpCase true ci4 ip4 (mkCall 0x72fe1d13 100003 3 1) ⟨0x72fe1d13, 2, 100003, 3, 1⟩
    "72fe1d130000000100000000000000000000000000000001" = true := by decide +kernel
-- portmapper procedure 7: PROC_UNAVAIL
example : udpCase true ci4 ip4 (mkCall 0x72fe1d13 100000 3 7) ⟨0x72fe1d13, 2, 100000, 3, 7⟩
    "72fe1d130000000100000000000000000000000000000003" = true := by decide +kernel
-- credentials of 5 bytes: the FSM skips 5 bytes, not 8, and reads the verifier 3 bytes early; same reply
example : udpCase true ci4 ip4 (mkCallCred 0x72fe1d13 100000 2 3) ⟨0x72fe1d13, 2, 100000, 2, 3⟩
    "72fe1d1300000001000000000000000000000000000000000000006f" = true := by decide +kernel
-- header complete but call incomplete (5 credential bytes not yet padded, 45 bytes): already answered
example : Spec.callHeaderComplete ((mkCallCred 0x72fe1d13 100000 2 3).take 45) = true ∧
    Spec.parseCall ((mkCallCred 0x72fe1d13 100000 2 3).take 45) = none ∧
    (match rpcReplUdp true ci4 ((mkCallCred 0x72fe1d13 100000 2 3).take 45) with
     | .ok (some r) => hexOf r == "72fe1d1300000001000000000000000000000000000000000000006f"
     | _ => false) = true := by decide +kernel
-- TCP: GETADDR v4 over IPv6, DUMP v3 over IPv4
example : tcpCase true ci6 ip6 (tcpMsg (mkCall 0x01020304 100000 4 3)) ⟨0x01020304, 2, 100000, 4, 3⟩ = true := by
  decide +kernel
example : tcpCase false ci4 ip4 (tcpMsg (mkCall 0x01020304 100000 3 4)) ⟨0x01020304, 2, 100000, 3, 4⟩ = true := by
  decide +kernel
-- the signatures are matched by these calls (hypothesis of `rpc_sig_udp` / `rpc_sig_tcp`)
example : Spec.prefixMatch Spec.rpcCall (mkCall 0x72fe1d13 100000 2 3) = true := by decide +kernel
example : Spec.prefixMatch (Spec.anyN 4 ++ Spec.rpcCall) (tcpMsg (mkCall 0x72fe1d13 100000 2 3)) = true := by
  decide +kernel

/-- the responder does not look at the message type: a REPLY message (type 1) is answered like a call -/
theorem rpc_type_unchecked_example :
    (match rpcReplUdp true ci4 (u32be 7 ++ u32be 1 ++ (mkCall 7 100000 2 3).drop 8) with
     | .ok (some r) => hexOf r == "0000000700000001000000000000000000000000000000000000006f"
     | _ => false) = true ∧
    Spec.parseCall (u32be 7 ++ u32be 1 ++ (mkCall 7 100000 2 3).drop 8) = none := by decide +kernel

/-- two calls on one connection (`rpc_tcp_two_calls` on closed terms): GETPORT with xid 0x11111111, then
    a NULL call with xid 0x22222222 from the state stored after the first reply — the initial one — each
    answered with its own reply: `8000001c 11111111 …` and `80000018 22222222 …` -/
theorem rpc_tcp_second_call_own_xid :
    (match rpcReplTcp true {} ci4 (tcpMsg (mkCall 0x11111111 100000 2 3)) with
     | .ok (s, some r1) =>
       decide (s = {}) && hexOf r1 == "8000001c1111111100000001000000000000000000000000000000000000006f" &&
       (match rpcReplTcp true s ci4 (tcpMsg (mkCall 0x22222222 100000 2 0)) with
        | .ok (s2, some r2) =>
          decide (s2 = {}) && hexOf r2 == "80000018222222220000000100000000000000000000000000000000" &&
          (match Spec.recordMarkOk r2 with
           | some body => Spec.rpcReplyOk ⟨0x22222222, 2, 100000, 2, 0⟩ body ip4 111
           | none => false)
        | _ => false)
     | _ => false) = true := by decide +kernel

/-- the same through `proto::repl` and the control block (`C11.feed`), with a third call (DUMP v2) and an
    incomplete segment in between: `none` for the incomplete one, the others answered with their own xid -/
private def ciT : ClientInfo := { ci4 with transport := some 6, cookie := some 7 }
private def cfgT : Cfg :=
  { mac := [2, 0, 0, 0, 0, 1], selfIps := none, deny := none, k0 := 1, k1 := 2, logger := .none, level := 0, ovf := true }
private def envT : Env := { httpDate := [], unixSecs := 0 }
example :
    (match C11.feed cfgT envT ciT {}
        [tcpMsg (mkCall 0x11111111 100000 2 3), tcpMsg (mkCall 0x22222222 100000 2 0),
         (tcpMsg (mkCall 0x33333333 100000 2 4)).take 30, (tcpMsg (mkCall 0x33333333 100000 2 4)).drop 30] with
     | .ok (t, rs) =>
       decide (t.protoId = PROTO_RPC_TCP ∧ t.protoState = some (.rpc {})) &&
       rs.map (·.map (fun r => hexOf (r.take 8))) ==
         [some "8000001c11111111", some "8000001822222222", none, some "8000005833333333"]
     | .error _ => false) = true := by decide +kernel
-- hypotheses of `rpc_tcp_two_calls` / `rpc_tcp_calls_all_answered` on these terms
example : GateOpen ciT ∧ FreshRpc { protoId := PROTO_RPC_TCP } ∧
    FreshRpc { protoId := PROTO_RPC_TCP, protoState := some (.rpc {}) } ∧
    TcpCall (tcpMsg (mkCall 0x11111111 100000 2 3)) ⟨0x11111111, 2, 100000, 2, 3⟩ ∧
    TcpCall (tcpMsg (mkCall 0x22222222 100000 2 0)) ⟨0x22222222, 2, 100000, 2, 0⟩ := by
  refine ⟨by unfold GateOpen; decide, ⟨rfl, .inl rfl⟩, ⟨rfl, .inr rfl⟩, ⟨by decide, by decide +kernel⟩,
    ⟨by decide, by decide +kernel⟩⟩
-- observation: two calls pipelined in ONE segment — only the first is answered (`rpc_tcp_trailing_ignored`),
-- and the following segment starts a new call
example :
    (match rpcReplTcp true {} ci4 (tcpMsg (mkCall 0x11111111 100000 2 3) ++ tcpMsg (mkCall 0x22222222 100000 2 0)) with
     | .ok (s, some r) => decide (s = {}) && hexOf r == "8000001c1111111100000001000000000000000000000000000000000000006f"
     | _ => false) = true := by decide +kernel

/-! ### tests of the address formatters against the RFC 5952 texts (both equal by `rpc_ip_text`) -/

example : v6Test [0, 0, 0, 0, 0, 0, 0, 0] "::" = true := by decide +kernel
example : v6Test [0, 0, 0, 0, 0, 0, 0, 1] "::1" = true := by decide +kernel
example : v6Test [1, 0, 0, 0, 0, 0, 0, 0] "1::" = true := by decide +kernel
example : v6Test [0x2001, 0xdb8, 0, 0, 0, 0, 0, 1] "2001:db8::1" = true := by decide +kernel
example : v6Test [1, 0, 0, 2, 0, 0, 0, 3] "1:0:0:2::3" = true := by decide +kernel
example : v6Test [1, 0, 0, 0, 2, 0, 0, 0] "1::2:0:0:0" = true := by decide +kernel
example : v6Test [0, 0, 0, 0, 0, 0xffff, 0x0102, 0x0304] "::ffff:1.2.3.4" = true := by decide +kernel
example : v6Test [0, 0, 0, 0, 0, 0xfffe, 0x0102, 0x0304] "::fffe:102:304" = true := by decide +kernel
example : v6Test [0, 0, 0, 0, 0, 0, 0x0102, 0x0304] "::102:304" = true := by decide +kernel
example : v6Test [0xfe80, 0, 0, 0, 1, 0, 0, 1] "fe80::1:0:0:1" = true := by decide +kernel
example : v6Test [0xa, 0xb, 0xc, 0xd, 0xe, 0xf, 0, 0] "a:b:c:d:e:f::" = true := by decide +kernel
example : v6Test [0, 0, 1, 0, 0, 0, 0, 0] "0:0:1::" = true := by decide +kernel
example : v6Test [1, 2, 3, 0, 5, 6, 7, 8] "1:2:3:0:5:6:7:8" = true := by decide +kernel
example : v6Test [1, 2, 3, 4, 5, 6, 7, 8] "1:2:3:4:5:6:7:8" = true := by decide +kernel
example : v6Test [0xffff, 0xffff, 0xffff, 0xffff, 0xffff, 0xffff, 0xffff, 0xffff]
    "ffff:ffff:ffff:ffff:ffff:ffff:ffff:ffff" = true := by decide +kernel
example : v6Test [0, 1, 0, 1, 0, 1, 0, 1] "0:1:0:1:0:1:0:1" = true := by decide +kernel
example : v6Test [0, 0, 1, 0, 0, 1, 0, 0] "::1:0:0:1:0:0" = true := by decide +kernel
example : v6Test [1, 0, 0, 1, 0, 0, 0, 1] "1:0:0:1::1" = true := by decide +kernel
example : v6Test [0, 1, 2, 3, 4, 5, 6, 7] "0:1:2:3:4:5:6:7" = true := by decide +kernel
example : v6Test [1, 2, 3, 4, 5, 6, 7, 0] "1:2:3:4:5:6:7:0" = true := by decide +kernel
example : v6Test [0x1000, 0x0100, 0x0010, 0x0001, 0, 0, 0xabcd, 0xef] "1000:100:10:1::abcd:ef" = true := by
  decide +kernel
example : v6Test [0, 0, 0, 0, 0, 0xffff, 0xffff, 0xffff] "::ffff:255.255.255.255" = true := by decide +kernel
example : showV4 [10, 0, 200, 255] = txt "10.0.200.255" ∧ Spec.ipv4Text [10, 0, 200, 255] = txt "10.0.200.255" := by
  decide +kernel

#print axioms rpc_parse_append
#print axioms rpc_parse_header
#print axioms rpc_reply_udp
#print axioms rpc_ip_text
#print axioms rpc_tcp_state_reset
#print axioms rpc_tcp_stored_not_done
#print axioms rpc_reply_tcp
#print axioms rpc_reply_tcp_every_call
#print axioms rpc_reply_tcp_block
#print axioms rpc_tcp_two_calls
#print axioms rpc_tcp_calls_all_answered
#print axioms rpc_tcp_kth_call_answered
#print axioms rpc_sig_udp
#print axioms rpc_sig_tcp
#print axioms rpc_reply_type_silent
#print axioms rpc_no_panic
#print axioms rpc_tcp_trailing_ignored
#print axioms rpc_type_unchecked_example
#print axioms rpc_tcp_second_call_own_xid

end Masscanned.C16
