/-
  Thm/C02Judge — soundness of the run-time judge `Spec.judgeC02` with respect to the model:
  the judge never fails on an outcome the model can produce
  (`C02.silent_outside_scope`, `C02.reply_in_scope` in `Thm/C02.lean`).
-/
import Masscanned.Thm.C02
import Masscanned.Spec.Judge
namespace Masscanned.C02Judge
open Masscanned

/-- `judgeC02` accepts every outcome of the model.  Silence is always accepted; a reply is
    accepted because the frame was not outside scope (`silent_outside_scope`) and the reply's
    source / advertised addresses are in the self-IP list (`reply_in_scope`).  No hypothesis on
    the self-IP list. -/
theorem judgeC02_accepts_model (cfg : Cfg) (env : Env) (st : Table) (f : Bytes) (o : Option Bytes)
    (hm : cfg.mac.length = 6) (h : (step cfg env st f).out = .ok o) :
    (Spec.judgeC02 cfg f o).ok = true := by
  cases o with
  | none => rfl
  | some r =>
    have h1 : Spec.mustBeSilent cfg f = false := by
      cases hs : Spec.mustBeSilent cfg f with
      | false => rfl
      | true => exact absurd h (C02.silent_outside_scope cfg env st f hs r)
    have h2 := C02.reply_in_scope cfg env st f r hm h
    simp [Spec.judgeC02, h1, h2, Spec.pass]

/-- the verdict is exact on the silence side too: when the judge calls a silent outcome
    non-trivial the frame was indeed outside scope, and then the model is silent -/
theorem judgeC02_silent_of_outside (cfg : Cfg) (env : Env) (st : Table) (f : Bytes) (o : Option Bytes)
    (h : (step cfg env st f).out = .ok o) (hs : Spec.mustBeSilent cfg f = true) :
    o = none ∧ (Spec.judgeC02 cfg f o).nontrivial = true := by
  cases o with
  | none => exact ⟨rfl, by simp [Spec.judgeC02, Spec.pass, hs]⟩
  | some r => exact absurd h (C02.silent_outside_scope cfg env st f hs r)

/-! ### non-vacuity -/

example : Ex.cfg.mac.length = 6 := rfl
-- a reply, self-IP list configured: non-trivial verdict on the model's output
example : (step Ex.cfg Ex.env [] Ex.arpReq).out = .ok (some Ex.arpReply) := by rfl
example : (Spec.judgeC02 Ex.cfg Ex.arpReq (some Ex.arpReply)).ok = true ∧
    (Spec.judgeC02 Ex.cfg Ex.arpReq (some Ex.arpReply)).nontrivial = true := by decide
-- silence outside scope: non-trivial verdict on the model's output
example : (step Ex.cfg Ex.env [] Ex.arpReqForeign).out = .ok none := by rfl
example : (Spec.judgeC02 Ex.cfg Ex.arpReqForeign none).nontrivial = true := by decide
example : (match (step Ex.cfg Ex.env [] Ex.echoReq).out with
    | .ok o => (Spec.judgeC02 Ex.cfg Ex.echoReq o).ok && (Spec.judgeC02 Ex.cfg Ex.echoReq o).nontrivial
    | .error _ => false) = true := by decide +kernel
-- the judge can fail, on both clauses
example : (Spec.judgeC02 Ex.cfg Ex.arpReqForeign (some Ex.arpReply)).ok = false := by decide
example : (Spec.judgeC02 Ex.cfg Ex.arpReq (some (Ex.arpReply.set 31 9))).ok = false := by decide

end Masscanned.C02Judge

#print axioms Masscanned.C02Judge.judgeC02_accepts_model
#print axioms Masscanned.C02Judge.judgeC02_silent_of_outside
