/-
  C07Judge — soundness of the run-time judge `Spec.judgeC07` with respect to the model.
  The judge compares every reply of the real program to a delivered TCP segment with the per-FLOW
  reference connection model `Spec.refTcp`; the program (and the model) key the connection table by
  the 32-bit SYN cookie (known finding K1).  Along the joint run of model and judge from the empty
  table (`J2.runC07`, Proofs/J2/Defs) the table keys are exactly the distinct cookies of the flows the
  judge holds validated (`judge_table_invariant`), hence:

  * a verdict can only fail on a delivered data segment of a flow whose cookie is the cookie of a
    DIFFERENT, validated flow, and then it carries the clause `J2.collisionClauseC07`
    ("… (cookie collision)") — `judgeC07_fails_only_with_collision`: the judge never raises a false
    alarm on model behaviour, and every failure on model behaviour is classified as K1;
  * when no delivered data segment of the run is in that situation (`J2.noCollisionSeen`), every verdict
    is `ok` — `judgeC07_accepts_run_partial`.  The statement with the weaker hypothesis "the VALIDATED
    flows have pairwise distinct cookies" (`J2.NoCollision`) is FALSE — `judgeC07_accepts_run_false`: the
    K1 run (A validates; B, same cookie, sends data with a wrong acknowledgement number and is answered
    through A's entry) never validates B, so its validated flows `[A]` do not collide, yet the verdict on
    B's segment fails (with the collision clause).  Under `NoCollision` the verdicts on the segments of
    the flows that are validated at the end of the run are all `ok` (`judgeC07_accepts_validated_flows`).

  Runs are those in which no step of the model panics (`runC07 … = .ok _`); by C01 that is every run
  of frames of at most 4096 bytes (`judgeC07_run_total`).  `cfg.mac.length = 6`: the judge locates the
  reply's TCP segment at the fixed offsets of an Ethernet frame with 6-byte addresses.
-/
import Masscanned.Proofs.J2.Sim
import Masscanned.Proofs.J2.NoPanic
import Masscanned.Proofs.J2.Examples
open Masscanned
namespace Masscanned.C07Judge
open Masscanned.Spec Masscanned.J2

/-- the simulation invariant at the end of every joint run from the empty table: the final table is the
    model's table after the history, and a cookie has an entry in it iff it is the cookie of a flow the
    judge holds validated -/
theorem judge_table_invariant (cfg : Cfg) (env : Env) (hm : cfg.mac.length = 6) (fs : List Bytes)
    {vs : List Verdict} {jsF : JState} {stF : Table} (h : runC07 cfg env [] {} fs = .ok (vs, jsF, stF)) :
    stF = run cfg env [] fs ∧ vs.length = fs.length ∧
    ∀ c, (stF.get? c).isSome = true ↔ ∃ fl ∈ jsF.validated, flowCookie cfg fl = c := by
  obtain ⟨hI, -, hlen, hrun, -⟩ := runC07_sound hm fs [] {} vs jsF stF (inv_init cfg) h
  exact ⟨hrun, hlen, hI.get?_iff⟩

/-- the invariant (in its exact form: the table keys, in order, are the distinct cookies of the validated
    flows, in order of first validation) is preserved by one frame from ANY related pair of states, and the
    judge's `validated` list only grows -/
theorem judge_table_invariant_step (cfg : Cfg) (env : Env) (hm : cfg.mac.length = 6) (st : Table) (js : JState)
    (f : Bytes) {o : Option Bytes}
    (hk : st.map Prod.fst = dedup (js.validated.map (flowCookie cfg)))
    (ho : (step cfg env st f).out = .ok o) :
    (step cfg env st f).st.map Prod.fst = dedup ((judgeC07 cfg js f o).1.validated.map (flowCookie cfg)) ∧
    ∃ l, (judgeC07 cfg js f o).1.validated = js.validated ++ l := by
  obtain ⟨h1, h2, -⟩ := judgeC07_step (env := env) (f := f) hm (show Inv cfg st js from hk) ho
  exact ⟨h1, h2⟩

/-- a frame that is not delivered to the TCP layer is invisible to both sides: the model's table and
    the judge's state are unchanged, and the verdict is the trivial pass -/
theorem not_delivered_invisible (cfg : Cfg) (env : Env) (st : Table) (js : JState) (f : Bytes) (r : Option Bytes)
    (h : tcpDelivered cfg f = none) :
    (step cfg env st f).st = st ∧ (judgeC07 cfg js f r).1 = js ∧
    (judgeC07 cfg js f r).2.ok = true ∧ (judgeC07 cfg js f r).2.nontrivial = false := by
  rw [judgeC07_not_delivered h]
  exact ⟨step_not_delivered env st h, rfl, rfl, rfl⟩

/-- C07 judge, soundness.  Along a joint run from the empty table in which the model does not panic,
    every failing verdict carries the "cookie collision" clause, and its frame is a delivered TCP data
    segment of a flow `fl` such that some OTHER flow `g`, validated during the run, has the same cookie
    (`J2.Collides`).  So a failure of `judgeC07` on behaviour that agrees with the model is always the
    known finding K1, never a new violation. -/
theorem judgeC07_fails_only_with_collision (cfg : Cfg) (env : Env) (hm : cfg.mac.length = 6) (fs : List Bytes)
    {vs : List Verdict} {jsF : JState} {stF : Table} (h : runC07 cfg env [] {} fs = .ok (vs, jsF, stF)) :
    ∀ f v, (f, v) ∈ fs.zip vs → v.ok = false →
      v.clause = collisionClauseC07 ∧
      ∃ fl t, tcpDelivered cfg f = some (fl, t) ∧ isData t = true ∧
        ∃ g ∈ jsF.validated, g ≠ fl ∧ flowCookie cfg g = flowCookie cfg fl := by
  obtain ⟨-, -, -, -, hall⟩ := runC07_sound hm fs [] {} vs jsF stF (inv_init cfg) h
  intro f v hfv hok
  rcases hall f v hfv with h | h
  · rw [hok] at h; cases h
  · exact h

/-- the same without the frames: a failing verdict has the collision clause -/
theorem judgeC07_failure_clause (cfg : Cfg) (env : Env) (hm : cfg.mac.length = 6) (fs : List Bytes)
    {vs : List Verdict} {jsF : JState} {stF : Table} (h : runC07 cfg env [] {} fs = .ok (vs, jsF, stF)) :
    ∀ v ∈ vs, v.ok = false → v.clause = collisionClauseC07 := by
  obtain ⟨-, -, hlen, -, -⟩ := runC07_sound hm fs [] {} vs jsF stF (inv_init cfg) h
  intro v hv hok
  obtain ⟨f, hf⟩ := exists_zip_of_mem fs vs hlen v hv
  exact (judgeC07_fails_only_with_collision cfg env hm fs h f v hf hok).1

/-- C07 judge accepts the model, strongest true variant.  If no delivered TCP data segment of the run
    belongs to a flow whose cookie is that of a different flow validated during the run
    (`noCollisionSeen cfg fs jsF`, a decidable predicate of the frames and the final judge state), every
    verdict is `ok`.  (With the hypothesis on the validated flows only the statement is false:
    `judgeC07_accepts_run_false`.) -/
theorem judgeC07_accepts_run_partial (cfg : Cfg) (env : Env) (hm : cfg.mac.length = 6) (fs : List Bytes)
    {vs : List Verdict} {jsF : JState} {stF : Table} (h : runC07 cfg env [] {} fs = .ok (vs, jsF, stF))
    (hnc : noCollisionSeen cfg fs jsF = true) :
    ∀ v ∈ vs, v.ok = true := by
  obtain ⟨-, -, hlen, -, -⟩ := runC07_sound hm fs [] {} vs jsF stF (inv_init cfg) h
  intro v hv
  cases hok : v.ok with
  | true => rfl
  | false =>
    exfalso
    obtain ⟨f, hf⟩ := exists_zip_of_mem fs vs hlen v hv
    obtain ⟨-, fl, t, hd, hdat, g, hg, hne, hc⟩ := judgeC07_fails_only_with_collision cfg env hm fs h f v hf hok
    exact hne ((noCollisionSeen_iff cfg fs jsF).mp hnc f (List.of_mem_zip hf).1 fl t hd hdat g hg hc)

/-- under the weaker hypothesis that the VALIDATED flows have pairwise distinct cookies
    (`NoCollision cfg jsF`, i.e. `(jsF.validated.map (flowCookie cfg)).Nodup`): every verdict on a segment
    of a flow that is validated at the end of the run is `ok` — failures can only concern flows that never
    presented a valid cookie -/
theorem judgeC07_accepts_validated_flows (cfg : Cfg) (env : Env) (hm : cfg.mac.length = 6) (fs : List Bytes)
    {vs : List Verdict} {jsF : JState} {stF : Table} (h : runC07 cfg env [] {} fs = .ok (vs, jsF, stF))
    (hnc : NoCollision cfg jsF) :
    ∀ f v, (f, v) ∈ fs.zip vs → (∀ fl t, tcpDelivered cfg f = some (fl, t) → fl ∈ jsF.validated) → v.ok = true := by
  intro f v hfv hval
  cases hok : v.ok with
  | true => rfl
  | false =>
    exfalso
    obtain ⟨-, fl, t, hd, -, g, hg, hne, hc⟩ := judgeC07_fails_only_with_collision cfg env hm fs h f v hfv hok
    exact hne (nodup_map_inj _ _ hnc g hg fl (hval fl t hd) hc)

open C07ex J2ex in
/-- the statement asked for — "if the flows validated along the run have pairwise distinct cookies, every
    verdict is ok" — is FALSE, because of K1: under key (0,0), flow A (1.2.3.4:34624 → 10.0.0.1:80) sends
    valid first data; flow B (1.2.3.5:9175 → 10.0.0.1:80, same cookie 1983115675) sends data acknowledging
    12345.  The model (as the program) answers B through A's table entry; the reference model, per flow,
    expects silence.  B is never validated, so the validated flows `[A]` have distinct cookies. -/
theorem judgeC07_accepts_run_false :
    ¬ ∀ (cfg : Cfg) (env : Env) (_ : cfg.mac.length = 6) (fs : List Bytes) (vs : List Verdict) (jsF : JState)
        (stF : Table), runC07 cfg env [] {} fs = .ok (vs, jsF, stF) → NoCollision cfg jsF → ∀ v ∈ vs, v.ok = true := by
  intro hall
  obtain ⟨vs, st, hr, hvs, -⟩ := summary_ok c07_k1
  have h := hall cfg0 env0 (by decide) [frameA, frameB] vs _ st hr hyps_k1.2.1
  match vs, hvs, h with
  | [v1, v2], hvs, h =>
    simp only [List.map_cons, List.map_nil, List.cons.injEq, Prod.mk.injEq, and_true] at hvs
    have := h v2 (by simp)
    rw [hvs.2.1] at this; cases this

/-- no panic, hence a joint run, for every history of frames of at most 4096 bytes (C01) -/
theorem judgeC07_run_total (cfg : Cfg) (env : Env) (hm : cfg.mac.length = 6) (hd : env.httpDate.length ≤ 64)
    (fs : List Bytes) (hl : ∀ f ∈ fs, f.length ≤ 4096) :
    ∃ vs jsF, runC07 cfg env [] {} fs = .ok (vs, jsF, run cfg env [] fs) := by
  obtain ⟨⟨vs, jsF, stF⟩, hx⟩ := runC07_ok_of_allOk fs [] {} (C01.no_panic_all cfg env hm hd fs [] C01.inv_init hl)
  obtain ⟨-, -, -, hrun, -⟩ := runC07_sound hm fs [] {} vs jsF stF (inv_init cfg) hx
  exact ⟨vs, jsF, by rw [hx, hrun]⟩

/-- the two main statements for captured traffic (frames ≤ 4096 bytes), without a no-panic hypothesis -/
theorem judgeC07_sound_on_traffic (cfg : Cfg) (env : Env) (hm : cfg.mac.length = 6) (hd : env.httpDate.length ≤ 64)
    (fs : List Bytes) (hl : ∀ f ∈ fs, f.length ≤ 4096) :
    ∃ vs jsF, runC07 cfg env [] {} fs = .ok (vs, jsF, run cfg env [] fs) ∧
      (noCollisionSeen cfg fs jsF = true → ∀ v ∈ vs, v.ok = true) ∧
      (∀ v ∈ vs, v.ok = false → v.clause = collisionClauseC07) := by
  obtain ⟨vs, jsF, h⟩ := judgeC07_run_total cfg env hm hd fs hl
  exact ⟨vs, jsF, h, judgeC07_accepts_run_partial cfg env hm fs h, judgeC07_failure_clause cfg env hm fs h⟩

/-! ### non-vacuity -/
section NonVacuity
open C07ex C08ex J2ex

/-- the clause really is the judge's "cookie collision" clause -/
example : collisionClauseC07 = "segment judged through another flow's table entry (cookie collision)" := rfl

/-- SYN of flow A, valid first data of A (ack = cookie + 1), valid first data of a second flow C: the
    hypotheses of `judgeC07_accepts_run_partial` hold, the three verdicts are non-trivial (and `ok`), two
    flows are validated and the table has two entries -/
example : ∃ vs jsF stF, runC07 cfg0 env0 [] {} [frameSyn, frameA, frameC] = .ok (vs, jsF, stF) ∧
    cfg0.mac.length = 6 ∧ noCollisionSeen cfg0 [frameSyn, frameA, frameC] jsF = true ∧ NoCollision cfg0 jsF ∧
    vs.map (fun v => (v.ok, v.nontrivial)) = [(true, true), (true, true), (true, true)] ∧
    jsF.validated = [flowA, flowC] ∧ stF.length = 2 := by
  obtain ⟨vs, st, hr, hvs, hst⟩ := summary_ok c07_three
  exact ⟨vs, _, st, hr, by decide, hyps_three.1, hyps_three.2, hvs, rfl, hst⟩

/-- a longer mixed history (ARP, SYN, data, ICMP, data of another flow, UDP, an undelivered frame, more
    data): eight `ok` verdicts, four of them non-trivial -/
example : ∃ vs jsF stF, runC07 cfg0 env0 [] {} hist = .ok (vs, jsF, stF) ∧
    vs.map (fun v => (v.ok, v.nontrivial)) =
      [(true, false), (true, true), (true, true), (true, false), (true, true), (true, false), (true, false),
       (true, true)] := by
  obtain ⟨vs, st, hr, hvs, -⟩ := summary_ok c07_hist
  exact ⟨vs, _, st, hr, hvs⟩

/-- the K1 witness of Thm/C07 (`c07_full_false`, `c07_collision`) as a joint run: the collision clause
    really fires — the verdict on B's segment fails, carries the clause, and A ≠ B is the validated flow
    with B's cookie; `noCollisionSeen` is false on this run while `NoCollision` holds -/
example : ∃ vs jsF stF v, runC07 cfg0 env0 [] {} [frameA, frameB] = .ok (vs, jsF, stF) ∧
    (frameB, v) ∈ [frameA, frameB].zip vs ∧ v.ok = false ∧ v.clause = collisionClauseC07 ∧
    jsF.validated = [flowA] ∧ tcpDelivered cfg0 frameB = some (flowB, segB) ∧
    flowA ≠ flowB ∧ flowCookie cfg0 flowA = flowCookie cfg0 flowB ∧
    noCollisionSeen cfg0 [frameA, frameB] jsF = false ∧ NoCollision cfg0 jsF := by
  obtain ⟨vs, st, hr, hvs, -⟩ := summary_ok c07_k1
  match vs, hvs, hr with
  | [v1, v2], hvs, hr =>
    simp only [List.map_cons, List.map_nil, List.cons.injEq, Prod.mk.injEq, and_true] at hvs
    have hz : (frameB, v2) ∈ [frameA, frameB].zip [v1, v2] := by simp
    refine ⟨_, _, st, v2, hr, hz, hvs.2.1, ?_, rfl, by decide +kernel, flows_collide.1, flows_collide.2,
      hyps_k1.1, hyps_k1.2.1⟩
    exact (judgeC07_fails_only_with_collision cfg0 env0 (by decide) _ hr frameB v2 hz hvs.2.1).1

/-- hypotheses of `judgeC07_run_total` / `judgeC07_sound_on_traffic` -/
example : (∀ f ∈ [frameSyn, frameA, frameC], f.length ≤ 4096) ∧ cfg0.mac.length = 6 ∧ env0.httpDate.length ≤ 64 :=
  small

end NonVacuity

#print axioms judge_table_invariant
#print axioms judge_table_invariant_step
#print axioms not_delivered_invisible
#print axioms judgeC07_fails_only_with_collision
#print axioms judgeC07_failure_clause
#print axioms judgeC07_accepts_run_partial
#print axioms judgeC07_accepts_validated_flows
#print axioms judgeC07_accepts_run_false
#print axioms judgeC07_run_total
#print axioms judgeC07_sound_on_traffic

end Masscanned.C07Judge
