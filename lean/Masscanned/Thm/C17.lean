/-
  C17 — SMB1 and SMB2 Negotiate / Session-Setup requests inside a NetBIOS session message are answered
  with the matching response (NetBIOS length, reply flag, command and correlation fields echoed,
  embedded lengths/offsets consistent with the security blob, selected dialect offered by the client);
  responses, other commands, SMB2 negotiates without a common dialect and truncated requests are not
  answered.  Vocabulary: Spec/Smb.  Helper lemmas: Proofs/C17/*.
-/
import Masscanned.Proofs.C17.Trunc
import Masscanned.Proofs.C17.Examples
open Masscanned
namespace Masscanned.C17
open Masscanned.Spec (u8 le16 le32 sub)

/-! ### C17.1 SMB1 requests are answered consistently -/

/-- C17.1 a well-formed SMB1 Negotiate / Session-Setup request (any ids, any dialect list, any blob
    length) in a NetBIOS session message is answered, for every clock value, with a reply satisfying
    `Spec.smb1ReplyOk`: NetBIOS length = bytes that follow, `\xffSMB`, command echoed, reply flag set,
    PIDHigh/TID/PIDLow/UID/MID echoed, ByteCount = bytes that follow, DialectIndex < number of offered
    dialects and — whenever the client offered one of `NT LM 0.12`, `SMB 2.???`, `SMB 2.002` — designating
    such a dialect in the list as sent on the wire, duplicates included (negotiate),
    1 ≤ SecurityBlobLength ≤ ByteCount (session setup). -/
theorem smb1_reply (env : Env) (p m : Bytes) (req : Spec.Smb1Req)
    (hn : Spec.nbtBody p = some m) (hr : Spec.smb1Request m = some req) :
    ∃ r, smb1Repl env p = some r ∧ Spec.smb1ReplyOk m req r = true := by
  have hm := nbtBody_eq hn
  obtain ⟨h32, hfl, hcase⟩ := smb1Request_inv hr
  unfold smb1Repl; rw [hm]
  rcases hcase with ⟨hc, ds, rfl, hne, h3, hbc, hds⟩ | ⟨hc, rfl, h27, h1, h2⟩
  · have hp := smb1Payload_neg env (m.drop 32) ds h3 hbc hds hne
    have hlen : m.length ≥ 35 := by simp at h3; omega
    rw [smb1Message_some (by omega) hfl (by rw [at8_eq_u8, hc]; exact hp)]
    exact ⟨_, rfl, smb1ReplyOk_frame m _ _ h32 (by rw [negBody_length]; omega) (by rw [negBody_length]; omega)
      (hder := negBody_der env ds)
      (negBody_ok env ds (smb1DialectIndex_lt ds hne)
        (by have := smb1DialectList_length _ _ _ hds; have := le16_lt (m.drop 32) 1; omega)
        (smb1DialectIndex_speaks ds))⟩
  · have hp := smb1Payload_ss env (m.drop 32) h27 h1 h2
    have hlen : m.length ≥ 59 := by simp at h27; omega
    rw [smb1Message_some (by omega) hfl (by rw [at8_eq_u8, hc]; exact hp)]
    exact ⟨_, rfl, smb1ReplyOk_frame m _ _ h32 (by rw [ssBody_length]; omega) (by rw [ssBody_length]; omega)
      ssBody_ok ssBody_der⟩

/-! ### C17.2 SMB2 requests are answered consistently -/

/-- C17.2 a well-formed SMB2 Negotiate (offering at least one supported dialect; duplicates and unknown
    dialects allowed) / Session-Setup request is answered with a reply satisfying `Spec.smb2ReplyOk`:
    NetBIOS length, `\xfeSMB`, StructureSize 64, command echoed, response flag, MessageId/AsyncId/SessionId
    echoed, DialectRevision offered ∧ supported, SecurityBufferOffset 128 / 72 and
    offset + length = message length. -/
theorem smb2_reply (env : Env) (p m : Bytes) (req : Spec.Smb2Req)
    (hn : Spec.nbtBody p = some m) (hr : Spec.smb2Request m = some req)
    (hcommon : ∀ ds, req = .negotiate ds → ds.any Spec.smb2Supported.contains = true) :
    ∃ r, smb2Repl env p = some r ∧ Spec.smb2ReplyOk m req r = true := by
  have hm := nbtBody_eq hn
  obtain ⟨h64, hfl, hcase⟩ := smb2Request_inv hr
  unfold smb2Repl; rw [hm]
  rcases hcase with ⟨hc, h36, hn0, hl, rfl⟩ | ⟨hc, rfl, h24, h1, h2⟩
  · obtain ⟨v, hv⟩ := find_versions_isSome (hcommon _ rfl)
    obtain ⟨hv1, hv2, hv3⟩ := find_versions hv
    have hp := smb2Payload_neg env (m.drop 64) v h36 hn0 hl hv
    have hlen : m.length ≥ 100 := by simp at h36; omega
    have hg : (slice (m.drop 64) 12 16).length = 16 := slice_length _ 12 16 (by omega)
    rw [smb2Message_some (by omega) hfl (by rw [hc]; exact hp)]
    exact ⟨_, rfl, smb2ReplyOk_frame m _ _ h64 (by rw [neg2Body_length _ _ _ hg]; omega)
      (by rw [neg2Body_length _ _ _ hg]; exact neg2Body_ok env _ v _ hg hv1 hv2 hv3)⟩
  · have hp := smb2Payload_ss env (m.drop 64) h24 h1 h2
    have hlen : m.length ≥ 88 := by simp at h24; omega
    rw [smb2Message_some (by omega) hfl (by rw [hc]; exact hp)]
    exact ⟨_, rfl, smb2ReplyOk_frame m _ _ h64 (by rw [ss2Body_length]; omega)
      (by rw [ss2Body_length]; exact ss2Body_ok)⟩

/-! ### C17.3 SMB2 negotiate without a common dialect -/

/-- C17.3 an SMB2 Negotiate whose dialect list contains no supported dialect is not answered -/
theorem smb2_no_common_dialect_silent (env : Env) (p m : Bytes)
    (hn : Spec.nbtBody p = some m) (hnc : Spec.smb2NoCommonDialect m = true) :
    smb2Repl env p = none := by
  have hm := nbtBody_eq hn
  unfold Spec.smb2NoCommonDialect at hnc
  split at hnc
  · rename_i ds hr
    obtain ⟨h64, hfl, hcase⟩ := smb2Request_inv hr
    rcases hcase with ⟨hc, h36, hn0, hl, hreq⟩ | ⟨_, hreq, _⟩
    · cases hreq
      have hnone := find_versions_none (by rw [Bool.not_eq_true'] at hnc; exact hnc)
      unfold smb2Repl
      rw [hm, smb2Message_none_of_payload (by rw [hc]; exact smb2Payload_neg_none env _ hnone)]
    · cases hreq
  · cases hnc

/-! ### C17.4 responses and other commands are not answered -/

/-- C17.4 (SMB1) reply flag set, or any of the 254 commands other than 0x72 / 0x73: no reply.
    (The NetBIOS header is not even looked at: only `p.drop 4 = m` is needed.) -/
theorem smb1_must_ignore_silent (env : Env) (p m : Bytes) (hm : p.drop 4 = m)
    (hi : Spec.smb1MustIgnore m = true) : smb1Repl env p = none := by
  unfold Spec.smb1MustIgnore at hi
  simp only [Bool.and_eq_true, Bool.or_eq_true, decide_eq_true_eq, Bool.not_eq_true',
    Bool.or_eq_false_iff, decide_eq_false_iff_not] at hi
  obtain ⟨_, hi⟩ := hi
  unfold smb1Repl; rw [hm]
  rcases hi with hfl | ⟨h1, h2⟩
  · rw [smb1Message_none_of_flag hfl]
  · rw [smb1Message_none_of_payload (smb1Payload_other env _ _ h1 h2)]

/-- C17.4 (SMB2) response flag set, or any of the 65534 commands other than 0 / 1: no reply -/
theorem smb2_must_ignore_silent (env : Env) (p m : Bytes) (hm : p.drop 4 = m)
    (hi : Spec.smb2MustIgnore m = true) : smb2Repl env p = none := by
  unfold Spec.smb2MustIgnore at hi
  simp only [Bool.and_eq_true, Bool.or_eq_true, decide_eq_true_eq, Bool.not_eq_true',
    Bool.or_eq_false_iff, decide_eq_false_iff_not] at hi
  obtain ⟨_, hi⟩ := hi
  unfold smb2Repl; rw [hm]
  rcases hi with hfl | ⟨h1, h2⟩
  · rw [smb2Message_none_of_flag hfl]
  · rw [smb2Message_none_of_payload (smb2Payload_other env _ _ h1 h2)]

/-! ### C17.5 every reply is a NetBIOS session message of the right length -/

/-- C17.5 every SMB1 / SMB2 reply (to any input whatsoever) has NetBIOS type 0 and a 17-bit length equal
    to the number of bytes that follow -/
theorem nbt_length (env : Env) (p r : Bytes)
    (h : smb1Repl env p = some r ∨ smb2Repl env p = some r) :
    Spec.nbtBody r = some (r.drop 4) := by
  rcases h with h | h
  · unfold smb1Repl at h
    split at h
    · rename_i a ha
      cases h
      have := smb1Message_length ha
      rw [nbtBody_nbtWrap a (by omega), nbtWrap_drop]
    · cases h
  · unfold smb2Repl at h
    split at h
    · rename_i a ha
      cases h
      have := smb2Message_length ha
      rw [nbtBody_nbtWrap a (by omega), nbtWrap_drop]
    · cases h

/-- C17.5 every reply is non-empty: a NetBIOS header, a 32- resp. 64-byte SMB header and the negotiate or
    session-setup response body — exactly 409 / 254 bytes (SMB1), 452 / 235 bytes (SMB2) -/
theorem smb_reply_nonempty (env : Env) (p r : Bytes) :
    (smb1Repl env p = some r → r.length = 4 + 32 + 373 ∨ r.length = 4 + 32 + 218) ∧
    (smb2Repl env p = some r → r.length = 4 + 64 + 384 ∨ r.length = 4 + 64 + 167) := by
  constructor
  · intro h
    unfold smb1Repl at h
    split at h
    · rename_i a ha
      cases h
      have := smb1Message_length ha
      simp [nbtWrap, u16be]; omega
    · cases h
  · intro h
    unfold smb2Repl at h
    split at h
    · rename_i a ha
      cases h
      have := smb2Message_length ha
      simp [nbtWrap, u16be]; omega
    · cases h

/-! ### C17.6 truncated requests are not answered -/

-- `smb1Needed m` / `smb2Needed m` (Proofs/C17/Trunc): number of bytes of the SMB message the dissector must
-- have consumed to reach End: 35 + ByteCount | 59 + SecurityBlobLength, 100 + 2·DialectCount | 88 + SecurityBufferLength

/-- C17.6 a message shorter than what the dissector needs (SMB1 negotiate data block shorter than
    ByteCount, session setup with fewer than SecurityBlobLength blob bytes, SMB2 negotiate with fewer than
    2·DialectCount dialect bytes, …) is not answered -/
theorem smb_truncated_silent (env : Env) (p : Bytes) :
    ((p.drop 4).length < smb1Needed (p.drop 4) → smb1Repl env p = none) ∧
    ((p.drop 4).length < smb2Needed (p.drop 4) → smb2Repl env p = none) := by
  constructor
  · intro h
    unfold smb1Needed at h
    unfold smb1Repl
    split at h
    · rename_i hc; rw [smb1Message_neg_short env _ hc h]
    · by_cases hc : u8 (p.drop 4) 4 = 0x73
      · rw [smb1Message_ss_short env _ hc h]
      · rw [smb1Message_none_of_payload (smb1Payload_other env _ _ (by assumption) hc)]
  · intro h
    unfold smb2Needed at h
    unfold smb2Repl
    split at h
    · rename_i hc; rw [smb2Message_neg_short env _ hc h]
    · by_cases hc : le16 (p.drop 4) 12 = 1
      · rw [smb2Message_ss_short env _ hc h]
      · rw [smb2Message_none_of_payload (smb2Payload_other env _ _ (by assumption) hc)]

/-- for a well-formed request the needed bytes are all there (so `smb_truncated_silent` is about proper
    prefixes only); an SMB1 negotiate needs its very last byte -/
theorem smb1_needed_le (m : Bytes) (req : Spec.Smb1Req) (hr : Spec.smb1Request m = some req) :
    35 ≤ smb1Needed m ∧ smb1Needed m ≤ m.length ∧ (u8 m 4 = 0x72 → smb1Needed m = m.length) := by
  obtain ⟨h32, hfl, hcase⟩ := smb1Request_inv hr
  unfold smb1Needed
  rcases hcase with ⟨hc, ds, _, _, h3, hbc, _⟩ | ⟨hc, _, h27, h1, h2⟩
  · have e : le16 (m.drop 32) 1 = le16 m 33 := le16_drop m 32 1
    rw [if_pos hc]; simp at h3 hbc; omega
  · have e : le16 (m.drop 32) 15 = le16 m 47 := le16_drop m 32 15
    rw [if_neg (by omega)]; simp at h27 h2; omega

theorem smb2_needed_le (m : Bytes) (req : Spec.Smb2Req) (hr : Spec.smb2Request m = some req) :
    89 ≤ smb2Needed m ∧ smb2Needed m ≤ m.length := by
  obtain ⟨h64, hfl, hcase⟩ := smb2Request_inv hr
  unfold smb2Needed
  rcases hcase with ⟨hc, h36, hn0, hl, _⟩ | ⟨hc, _, h24, h1, h2⟩
  · have e : le16 (m.drop 64) 2 = le16 m 66 := le16_drop m 64 2
    rw [if_pos hc]; simp at h36 hl; omega
  · have e : le16 (m.drop 64) 14 = le16 m 78 := le16_drop m 64 14
    rw [if_neg (by omega)]; simp at h24 h2; omega

/-- C17.6, prefix form: a proper prefix of a well-formed SMB1 request that stops before the last needed
    byte (behind any 4-byte NetBIOS header) is not answered -/
theorem smb1_prefix_silent (env : Env) (hdr m : Bytes) (req : Spec.Smb1Req) (k : Nat)
    (hh : hdr.length = 4) (hr : Spec.smb1Request m = some req) (hk : k < smb1Needed m) :
    smb1Repl env (hdr ++ m.take k) = none := by
  have hd : (hdr ++ m.take k).drop 4 = m.take k := drop_append_len _ _ 4 hh
  have hl : (m.take k).length ≤ k := by simp; omega
  by_cases h33 : k < 33
  · unfold smb1Repl; rw [hd, smb1Message_short env _ (by omega)]
  have hnd := smb1_needed_le m req hr
  apply (smb_truncated_silent env _).1
  rw [hd]
  unfold smb1Needed at hk ⊢
  rw [u8_take m k 4 (by omega)]
  split at hk
  · rw [if_pos (by assumption)]
    by_cases h35 : k < 35
    · omega
    · rw [le16_take m k 33 (by omega)]; omega
  · rw [if_neg (by assumption)]
    by_cases h49 : k < 49
    · omega
    · rw [le16_take m k 47 (by omega)]; omega

/-- C17.6, prefix form, SMB2 -/
theorem smb2_prefix_silent (env : Env) (hdr m : Bytes) (req : Spec.Smb2Req) (k : Nat)
    (hh : hdr.length = 4) (hr : Spec.smb2Request m = some req) (hk : k < smb2Needed m) :
    smb2Repl env (hdr ++ m.take k) = none := by
  have hd : (hdr ++ m.take k).drop 4 = m.take k := drop_append_len _ _ 4 hh
  have hl : (m.take k).length ≤ k := by simp; omega
  by_cases h65 : k < 65
  · unfold smb2Repl; rw [hd, smb2Message_short env _ (by omega)]
  have hnd := smb2_needed_le m req hr
  apply (smb_truncated_silent env _).2
  rw [hd]
  unfold smb2Needed at hk ⊢
  rw [le16_take m k 12 (by omega)]
  split at hk
  · rw [if_pos (by assumption)]
    by_cases h68 : k < 68
    · omega
    · rw [le16_take m k 66 (by omega)]; omega
  · rw [if_neg (by assumption)]
    by_cases h80 : k < 80
    · omega
    · rw [le16_take m k 78 (by omega)]; omega

/-- C17.6, converse (the bound is tight): a prefix of a well-formed SMB1 request that contains the last
    needed byte is answered — bytes after the dissector's End state are irrelevant -/
theorem smb1_prefix_answered (env : Env) (hdr m : Bytes) (req : Spec.Smb1Req) (k : Nat)
    (hh : hdr.length = 4) (hr : Spec.smb1Request m = some req) (hk : smb1Needed m ≤ k) :
    (smb1Repl env (hdr ++ m.take k)).isSome = true := by
  have hd : (hdr ++ m.take k).drop 4 = m.take k := drop_append_len _ _ 4 hh
  have hnd := smb1_needed_le m req hr
  obtain ⟨h32, hfl, hcase⟩ := smb1Request_inv hr
  unfold smb1Repl; rw [hd]
  rcases hcase with ⟨hc, ds, _, hne, h3, hbc, hds⟩ | ⟨hc, _, h27, h1, h2⟩
  · rw [List.take_of_length_le (by have := hnd.2.2 hc; omega),
      smb1Message_neg_enough env m ds hc hfl h3 hbc hds hne]; rfl
  · have e : le16 (m.drop 32) 15 = le16 m 47 := le16_drop m 32 15
    unfold smb1Needed at hk
    rw [if_neg (by omega)] at hk
    rw [smb1Message_ss_enough env (m.take k) (by rw [u8_take m k 4 (by omega)]; exact hc)
      (by rw [u8_take m k 9 (by omega)]; exact hfl)
      (by rw [le16_take m k 47 (by omega)]; omega)
      (by rw [le16_take m k 47 (by omega)]; simp at h2 ⊢; omega)]
    rfl

/-- C17.6, converse, SMB2 -/
theorem smb2_prefix_answered (env : Env) (hdr m : Bytes) (req : Spec.Smb2Req) (k : Nat)
    (hh : hdr.length = 4) (hr : Spec.smb2Request m = some req)
    (hcommon : ∀ ds, req = .negotiate ds → ds.any Spec.smb2Supported.contains = true)
    (hk : smb2Needed m ≤ k) :
    (smb2Repl env (hdr ++ m.take k)).isSome = true := by
  have hd : (hdr ++ m.take k).drop 4 = m.take k := drop_append_len _ _ 4 hh
  have hnd := smb2_needed_le m req hr
  obtain ⟨h64, hfl, hcase⟩ := smb2Request_inv hr
  have hfl' : le32 (m.take k) 16 % 2 = 0 := by
    unfold le32 at hfl ⊢
    rw [le16_take m k 16 (by omega), le16_take m k (16 + 2) (by omega)]; exact hfl
  unfold smb2Repl; rw [hd]
  unfold smb2Needed at hk
  rcases hcase with ⟨hc, h36, hn0, hl, hreq⟩ | ⟨hc, _, h24, h1, h2⟩
  · have e : le16 (m.drop 64) 2 = le16 m 66 := le16_drop m 64 2
    have e2 : (m.drop 64).drop 36 = m.drop 100 := by rw [List.drop_drop]
    rw [if_pos hc] at hk
    have hany := hcommon _ hreq
    rw [e, e2] at hany
    have e3 : (m.take k).drop 100 = (m.drop 100).take (k - 100) := by rw [List.drop_take]
    obtain ⟨v, hv⟩ := smb2Message_neg_enough env (m.take k) (by rw [le16_take m k 12 (by omega)]; exact hc) hfl'
      (by rw [le16_take m k 66 (by omega)]; omega)
      (by rw [le16_take m k 66 (by omega)]; simp at hl ⊢; omega)
      (by rw [le16_take m k 66 (by omega), e3, le16List_take _ _ _ (by omega)]; exact hany)
    rw [hv]; rfl
  · have e : le16 (m.drop 64) 14 = le16 m 78 := le16_drop m 64 14
    rw [if_neg (by omega)] at hk
    rw [smb2Message_ss_enough env (m.take k) (by rw [le16_take m k 12 (by omega)]; exact hc) hfl'
      (by rw [le16_take m k 78 (by omega)]; omega)
      (by rw [le16_take m k 78 (by omega)]; simp at h2 ⊢; omega)]
    rfl

/-! ### non-vacuity: concrete requests satisfy the hypotheses (and the conclusions, by evaluation) -/

section Examples

/-- "NT LM 0.12", "NT LANMAN 1.0", "SMB 2.002", "SMB 2.???" as bytes -/
private abbrev ntlm012 : Bytes := [78, 84, 32, 76, 77, 32, 48, 46, 49, 50]
private abbrev lanman10 : Bytes := [78, 84, 32, 76, 65, 78, 77, 65, 78, 32, 49, 46, 48]
private abbrev smb2002 : Bytes := [83, 77, 66, 32, 50, 46, 48, 48, 50]
private abbrev smb2xxx : Bytes := [83, 77, 66, 32, 50, 46, 63, 63, 63]

-- C17.1, SMB1 negotiate `\x00\x00\x00\x2f\xffSMB\x72…\x02NT LM 0.12\x00`
example : Spec.nbtBody exNeg1 = some (exNeg1.drop 4) ∧
    Spec.smb1Request (exNeg1.drop 4) = some (.negotiate [ntlm012]) := by decide +kernel
example : (smb1Repl env0 exNeg1).map (Spec.smb1ReplyOk (exNeg1.drop 4) (.negotiate [ntlm012])) = some true := by
  decide +kernel
example (env : Env) : ∃ r, smb1Repl env exNeg1 = some r ∧
    Spec.smb1ReplyOk (exNeg1.drop 4) (.negotiate [ntlm012]) r = true :=
  smb1_reply env _ _ _ (by decide +kernel) (by decide +kernel)

-- C17.1, the negotiate of the repo's unit test: 4 dialects, "NT LM 0.12" is the second, DialectIndex = 1
example : Spec.nbtBody repoNeg1 = some (repoNeg1.drop 4) ∧
    Spec.smb1Request (repoNeg1.drop 4) = some (.negotiate [lanman10, ntlm012, smb2002, smb2xxx]) := by
  decide +kernel
example : (smb1Repl env0 repoNeg1).map (fun r =>
    (Spec.smb1ReplyOk (repoNeg1.drop 4) (.negotiate [lanman10, ntlm012, smb2002, smb2xxx]) r,
     r.length, le16 r (4 + 32 + 1))) = some (true, 409, 1) := by
  decide +kernel

-- C17.1, the session setup of the repo's unit test (SecurityBlobLength 74, ByteCount 97)
example : Spec.nbtBody repoSs1 = some (repoSs1.drop 4) ∧
    Spec.smb1Request (repoSs1.drop 4) = some .sessionSetup := by decide +kernel
example : (smb1Repl env0 repoSs1).map (fun r => (Spec.smb1ReplyOk (repoSs1.drop 4) .sessionSetup r, r.length))
    = some (true, 254) := by decide +kernel

-- C17.2, SMB2 negotiate offering [0x0210, 0x0210] (duplicate): answered with 0x0210
example : Spec.nbtBody exNeg2Dup = some (exNeg2Dup.drop 4) ∧
    Spec.smb2Request (exNeg2Dup.drop 4) = some (.negotiate [0x0210, 0x0210]) ∧
    [0x0210, 0x0210].any Spec.smb2Supported.contains = true := by decide +kernel
example : (smb2Repl env0 exNeg2Dup).map (fun r =>
    (Spec.smb2ReplyOk (exNeg2Dup.drop 4) (.negotiate [0x0210, 0x0210]) r, r.length, le16 r (4 + 64 + 4)))
    = some (true, 452, 0x0210) := by decide +kernel
example (env : Env) : ∃ r, smb2Repl env exNeg2Dup = some r ∧
    Spec.smb2ReplyOk (exNeg2Dup.drop 4) (.negotiate [0x0210, 0x0210]) r = true :=
  smb2_reply env _ _ _ (by decide +kernel) (by decide +kernel)
    (by intro ds h; cases h; decide +kernel)

-- C17.2, unknown dialects and duplicates mixed: [0x1234, 0x0311, 0x0404, 0x0202, 0x0311] → 0x0202
example : Spec.smb2Request (exNeg2Mixed.drop 4) = some (.negotiate [0x1234, 0x0311, 0x0404, 0x0202, 0x0311]) ∧
    (smb2Repl env0 exNeg2Mixed).map (fun r =>
      (Spec.smb2ReplyOk (exNeg2Mixed.drop 4) (.negotiate [0x1234, 0x0311, 0x0404, 0x0202, 0x0311]) r,
       le16 r (4 + 64 + 4))) = some (true, 0x0202) := by decide +kernel

-- C17.2, the negotiate and the session setup of the repo's unit tests
example : Spec.nbtBody repoNeg2 = some (repoNeg2.drop 4) ∧
    Spec.smb2Request (repoNeg2.drop 4) = some (.negotiate [514, 528, 546, 548, 768, 770, 784, 785]) ∧
    (smb2Repl env0 repoNeg2).map (Spec.smb2ReplyOk (repoNeg2.drop 4)
      (.negotiate [514, 528, 546, 548, 768, 770, 784, 785])) = some true := by decide +kernel
example : Spec.nbtBody repoSs2 = some (repoSs2.drop 4) ∧
    Spec.smb2Request (repoSs2.drop 4) = some .sessionSetup ∧
    (smb2Repl env0 repoSs2).map (fun r => (Spec.smb2ReplyOk (repoSs2.drop 4) .sessionSetup r, r.length))
      = some (true, 235) := by decide +kernel

-- C17.3, SMB2 negotiate offering only [0x0404, 0x1234]
example : Spec.nbtBody exNeg2None = some (exNeg2None.drop 4) ∧
    Spec.smb2NoCommonDialect (exNeg2None.drop 4) = true ∧ smb2Repl env0 exNeg2None = none := by
  decide +kernel

-- C17.4, response flag / other command
example : Spec.smb1MustIgnore (exNeg1Resp.drop 4) = true ∧ Spec.smb1MustIgnore (exNeg1Other.drop 4) = true ∧
    smb1Repl env0 exNeg1Resp = none ∧ smb1Repl env0 exNeg1Other = none := by decide +kernel
example : Spec.smb2MustIgnore ((exNeg2Dup.set 20 1).drop 4) = true ∧
    Spec.smb2MustIgnore ((exNeg2Dup.set 16 3).drop 4) = true ∧
    smb2Repl env0 (exNeg2Dup.set 20 1) = none ∧ smb2Repl env0 (exNeg2Dup.set 16 3) = none := by
  decide +kernel

-- C17.5
example : ∀ r, smb1Repl env0 repoSs1 = some r → Spec.nbtBody r = some (r.drop 4) :=
  fun r h => nbt_length env0 repoSs1 r (.inl h)
example : (smb1Repl env0 repoSs1).isSome = true ∧ (smb2Repl env0 repoSs2).isSome = true := by decide +kernel

-- C17.6: the last needed byte is byte 51 of exNeg1, byte 4+133 of repoSs1 (of 160), byte 4+116 of repoNeg2
-- (of 212); one byte less is not answered, with that byte it is
example : smb1Needed (exNeg1.drop 4) = 47 ∧ (smb1Repl env0 (exNeg1.take 50)) = none ∧
    (smb1Repl env0 (exNeg1.take 51)).isSome = true := by decide +kernel
example : smb1Needed (repoSs1.drop 4) = 133 ∧ (smb1Repl env0 (repoSs1.take (4 + 132))) = none ∧
    (smb1Repl env0 (repoSs1.take (4 + 133))).isSome = true := by decide +kernel
example : smb2Needed (repoNeg2.drop 4) = 116 ∧ (smb2Repl env0 (repoNeg2.take (4 + 115))) = none ∧
    (smb2Repl env0 (repoNeg2.take (4 + 116))).isSome = true := by decide +kernel
example : smb2Needed (repoSs2.drop 4) = 162 ∧ (smb2Repl env0 (repoSs2.take (4 + 161))) = none ∧
    (smb2Repl env0 repoSs2).isSome = true := by decide +kernel
example (env : Env) : smb1Repl env (repoSs1.take 4 ++ (repoSs1.drop 4).take 132) = none :=
  smb1_prefix_silent env _ _ .sessionSetup 132 (by decide) (by decide +kernel) (by decide +kernel)

end Examples

#print axioms smb1_reply
#print axioms smb2_reply
#print axioms smb2_no_common_dialect_silent
#print axioms smb1_must_ignore_silent
#print axioms smb2_must_ignore_silent
#print axioms nbt_length
#print axioms smb_reply_nonempty
#print axioms smb_truncated_silent
#print axioms smb1_needed_le
#print axioms smb2_needed_le
#print axioms smb1_prefix_silent
#print axioms smb2_prefix_silent
#print axioms smb1_prefix_answered
#print axioms smb2_prefix_answered

end Masscanned.C17
