/-
  C06 — SYN policy and SYN cookie, at the TCP layer (one segment).
-/
import Masscanned.Proofs.Tcp
import Masscanned.Proofs.Cookie
import Masscanned.Proofs.C07Ex
namespace Masscanned
open Spec (linuxSynOk)

/-- C06.1 the model's SYN test is the Linux rule, on all 512 values of the 9 flag bits -/
theorem synOk_eq_linux : ∀ flags, flags < 512 → synOk flags = Spec.linuxSynOk flags := by
  intro f hf
  exact beq_iff_eq.mp (synOk_eq_linux' f hf)

/-- C06.2, without the (redundant) hypothesis that the SYN bit is set: a segment is answered with
    exactly SYN|ACK, ack = seq+1 mod 2^32, no payload, iff its flags satisfy the Linux rule. -/
theorem syn_policy_all (cfg : Cfg) (env : Env) (st : Table) (ci : ClientInfo) (p : Bytes)
    (hl : p.length ≥ 20) :
    (∃ evs ci' st' r, tcpRepl cfg env st ci p = .ok (evs, ci', st', some r) ∧
        Spec.tcpFlagsOf r = 18 ∧ Spec.be32 r 8 = (Spec.be32 p 4 + 1) % 4294967296 ∧ r.length = 20)
      ↔ Spec.linuxSynOk (tcpFlags p) = true := by
  constructor
  · rintro ⟨evs, ci', st', r, h, hf, _, _⟩
    have hc := tcpRepl_inv h
    generalize hout : some r = out at hc
    cases hc with
    | nodata hd => exact nodataRes_synack hout.symm hf
    | badAck => cases hout
    | first _ _ _ _ _ _ _ => have := dataOut_flags hout.symm; omega
    | known _ _ _ _ _ _ _ => have := dataOut_flags hout.symm; omega
  · intro h
    have e := tcpRepl_nodata cfg env st ci p (linux_not_data h)
    rw [nodataRes_syn h] at e
    refine ⟨_, _, _, _, e, ?_, ?_, ?_⟩
    · exact tcpHdr_flags _ _ _ _ _ _ (by omega)
    · rw [tcpHdr_ack, rdBE_slice4 p 4 (by omega)]; omega
    · rw [tcpHdr_append_length]; rfl

/-- C06.2 as stated: among the segments with the SYN bit set -/
theorem syn_policy (cfg : Cfg) (env : Env) (st : Table) (ci : ClientInfo) (p : Bytes)
    (hl : p.length ≥ 20) (_hsyn : tcpFlags p / 2 % 2 = 1) :
    (∃ evs ci' st' r, tcpRepl cfg env st ci p = .ok (evs, ci', st', some r) ∧
        Spec.tcpFlagsOf r = 18 ∧ Spec.be32 r 8 = (Spec.be32 p 4 + 1) % 4294967296 ∧ r.length = 20)
      ↔ Spec.linuxSynOk (tcpFlags p) = true :=
  syn_policy_all cfg env st ci p hl

/-- C06.3 a SYN is handled statelessly: the table comes back unchanged, and events, client info
    and reply do not depend on it -/
theorem syn_stateless (cfg : Cfg) (env : Env) (ci : ClientInfo) (p : Bytes)
    (h : Spec.linuxSynOk (tcpFlags p) = true) :
    ∃ evs ci' r, ∀ st : Table, tcpRepl cfg env st ci p = .ok (evs, ci', st, some r) :=
  ⟨_, _, _, fun st => by rw [tcpRepl_nodata cfg env st ci p (linux_not_data h), nodataRes_syn h]⟩

/-- C06.3 in the two-table form -/
theorem syn_stateless' (cfg : Cfg) (env : Env) (ci : ClientInfo) (p : Bytes)
    (h : Spec.linuxSynOk (tcpFlags p) = true) (st st2 : Table) :
    ∃ evs ci' r, tcpRepl cfg env st ci p = .ok (evs, ci', st, r) ∧
                 tcpRepl cfg env st2 ci p = .ok (evs, ci', st2, r) := by
  obtain ⟨evs, ci', r, hr⟩ := syn_stateless cfg env ci p h
  exact ⟨evs, ci', some r, hr st, hr st2⟩

/-- C06.4 the sequence number of the SYN|ACK is the cookie of (src, dst, sport, dport) under the key -/
theorem syn_cookie (cfg : Cfg) (env : Env) (st : Table) (ci : ClientInfo) (p : Bytes) (s d : Ip)
    (hl : p.length ≥ 20) (hs : ci.ipSrc = some s) (hd : ci.ipDst = some d)
    (h : Spec.linuxSynOk (tcpFlags p) = true)
    {evs : List Ev} {ci' : ClientInfo} {st' : Table} {out : Option Bytes}
    (hr : tcpRepl cfg env st ci p = .ok (evs, ci', st', out)) :
    ∃ r, out = some r ∧
      Spec.be32 r 4 = cookie cfg.k0 cfg.k1 s d (Spec.be16 p 0) (Spec.be16 p 2) := by
  rw [tcpRepl_nodata cfg env st ci p (linux_not_data h), nodataRes_syn h] at hr
  cases hr
  refine ⟨_, rfl, ?_⟩
  rw [tcpHdr_seq, tcpCk_eq hl hs hd, Nat.mod_eq_of_lt (cookie_lt ..)]

/-- C06.5 the hashed byte string determines the 4-tuple, within and across IP versions: changing any
    one of source address, destination address, source port, destination port changes the message
    given to SipHash.
    That a different message gives a different 32-bit cookie except with probability 2^-32 is the
    PRF assumption on keyed SipHash-2-4; it is a cryptographic assumption and deliberately NOT a
    theorem here (and `c07_full_false` in Thm/C07 exhibits a concrete collision). -/
theorem cookieMsg_injective {s d s' d' : Ip} {sp dp sp' dp' : Nat}
    (hs : s.Wf) (hd : d.Wf) (hs' : s'.Wf) (hd' : d'.Wf)
    (hv : s.isV4 = d.isV4) (hv' : s'.isV4 = d'.isV4)
    (hsp : sp < 65536) (hdp : dp < 65536) (hsp' : sp' < 65536) (hdp' : dp' < 65536) :
    cookieMsg s d sp dp = cookieMsg s' d' sp' dp' → s = s' ∧ d = d' ∧ sp = sp' ∧ dp = dp' :=
  cookieMsg_inj hs hd hs' hd' hv hv' hsp hdp hsp' hdp'

/-! ### C06.6 tests of the SipHash-2-4 model against the reference vectors of the SipHash paper /
    reference implementation (key 00..0f, message 00..(n-1)) -/

/-- TEST: Appendix A of the paper, 15-byte message -/
example : siphash24 0x0706050403020100 0x0f0e0d0c0b0a0908 [0,1,2,3,4,5,6,7,8,9,10,11,12,13,14]
    = 0xa129ca6149be45e5 := by decide +kernel
/-- TEST: empty message (vector 0 of the reference implementation) -/
example : siphash24 0x0706050403020100 0x0f0e0d0c0b0a0908 [] = 0x726fdb47dd0e0e31 := by decide +kernel
/-- TEST: 8-byte message (vector 8 of the reference implementation; exercises a full block) -/
example : siphash24 0x0706050403020100 0x0f0e0d0c0b0a0908 [0,1,2,3,4,5,6,7] = 0x93f5f5799a932462 := by
  decide +kernel

theorem siphash_vector :
    siphash24 0x0706050403020100 0x0f0e0d0c0b0a0908 [0,1,2,3,4,5,6,7,8,9,10,11,12,13,14]
      = 0xa129ca6149be45e5 := by decide +kernel

/-! ### non-vacuity (witnesses `synSeg`, `synPshAckSeg`, `cfg0`, … are in Proofs/C07Ex) -/
open C07ex

example : synSeg.length ≥ 20 ∧ tcpFlags synSeg / 2 % 2 = 1 ∧ Spec.linuxSynOk (tcpFlags synSeg) = true := by
  decide
example : synPshAckSeg.length ≥ 20 ∧ tcpFlags synPshAckSeg / 2 % 2 = 1 ∧
    Spec.linuxSynOk (tcpFlags synPshAckSeg) = false := by decide
/-- hypotheses of `syn_cookie` / `cookieMsg_injective` on concrete addresses -/
example : (Ip.v4 [1, 2, 3, 4]).Wf ∧ (Ip.v4 [10, 0, 0, 1]).Wf ∧
    (Ip.v4 [1, 2, 3, 4]).isV4 = (Ip.v4 [10, 0, 0, 1]).isV4 ∧ Spec.be16 synSeg 0 < 65536 := by decide
/-- the concrete SYN is answered with SYN|ACK by the model (through `syn_policy`) -/
example : ∃ evs ci' st' r, tcpRepl cfg0 env0 [] ciA synSeg = .ok (evs, ci', st', some r) ∧
    Spec.tcpFlagsOf r = 18 ∧ Spec.be32 r 8 = (Spec.be32 synSeg 4 + 1) % 4294967296 ∧ r.length = 20 :=
  (syn_policy cfg0 env0 [] ciA synSeg (by decide) (by decide)).mpr (by decide)
example : (Ip.v6 [0,0,0,0,0,0,0,0,0,0,0,0,0,0,0,1]).Wf := by decide
/-- across versions: an IPv6 pair and an IPv4 pair never give the same message -/
example : cookieMsg (.v4 [1, 2, 3, 4]) (.v4 [10, 0, 0, 1]) 34624 80 ≠
    cookieMsg (.v6 [0,0,0,0,0,0,0,0,0,0,0,0,0,0,0,1]) (.v6 [0,0,0,0,0,0,0,0,0,0,0,0,0,0,0,2]) 34624 80 := by
  decide

#print axioms synOk_eq_linux
#print axioms syn_policy
#print axioms syn_policy_all
#print axioms syn_stateless
#print axioms syn_stateless'
#print axioms syn_cookie
#print axioms cookieMsg_injective
#print axioms siphash_vector

end Masscanned
