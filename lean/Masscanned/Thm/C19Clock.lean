/-
  Thm/C19Clock — companion of C19 (and of C06 / C08, whose statements list what a reply may depend on: the clock is not in
  the list, C19 names wall-clock timestamps as the one other exception). The model takes the wall clock as an explicit `Env`
  (the text of the HTTP `Date` header, the seconds behind the SMB FILETIME). Proved here, layer by layer from `proto::repl` up to
  `reply()`: two clock readings give the same error site, the same rewritten client info, the same control block, the same
  connection table and the same events; a reply is present under both or under neither, with the same length (the Date text
  keeping its length) -- so the clock can only change bytes inside an HTTP or SMB reply (and the checksums over them).
  The implementation side of the same claim is tested by shifting the process's clocks (`Z` op, harness/timeshim.c).
-/
import Masscanned.Model.Net
namespace Masscanned.Clock
open Masscanned

/-- two replies of the same shape: both absent, or both present with the same number of bytes -/
def RelO : Option Bytes → Option Bytes → Prop
  | none, none => True
  | some x, some y => x.length = y.length
  | _, _ => False

theorem RelO.refl (a : Option Bytes) : RelO a a := by cases a <;> simp [RelO]

theorem setU16_len_congr {r r' : Bytes} (h : r.length = r'.length) (k v v' : Nat) :
    (setU16 r k v).length = (setU16 r' k v').length := by
  simp [setU16, u16be, h]

variable {env env' : Env}

theorem httpReply_len (h : env.httpDate.length = env'.httpDate.length) :
    (httpReplyBytes env).length = (httpReplyBytes env').length := by
  simp [httpReplyBytes, h]

/-- result of `proto::repl` under two clocks -/
def RelP : Except Site (ClientInfo × Option Tcb × Option Bytes) → Except Site (ClientInfo × Option Tcb × Option Bytes) → Prop
  | .error e, .error e' => e = e'
  | .ok (c, t, r), .ok (c', t', r') => c = c' ∧ t = t' ∧ RelO r r'
  | _, _ => False

theorem RelP.refl (x : Except Site (ClientInfo × Option Tcb × Option Bytes)) : RelP x x := by
  match x with
  | .error e => simp [RelP]
  | .ok (c, t, r) => simp [RelP, RelO.refl]

def RelH : Except Site (HttpSt × Option Bytes) → Except Site (HttpSt × Option Bytes) → Prop
  | .error e, .error e' => e = e'
  | .ok (s1, r), .ok (s2, r') => s1 = s2 ∧ RelO r r'
  | _, _ => False

theorem httpRepl_rel (h : env.httpDate.length = env'.httpDate.length) (s : HttpSt) (d : Bytes) :
    RelH (httpRepl env s d) (httpRepl env' s d) := by
  unfold httpRepl
  cases httpParse s d with
  | error e => simp [RelH]
  | ok ps' =>
    by_cases hc : ps'.state = .content
    · simp [hc, RelH, RelO, httpReply_len h]
    · simp [hc, RelH, RelO]

theorem u64le_len (n : Nat) : (u64le n).length = 8 := by simp [u64le, u32le]

theorem RelO_some {a b : Bytes} (h : a.length = b.length) : RelO (some a) (some b) := h

theorem smb1Neg_len (ds : List Bytes) : (smb1NegotiateReply env ds).length = (smb1NegotiateReply env' ds).length := by
  simp [smb1NegotiateReply, u64le, u32le, u16le]

theorem smb2Neg_len (v : Nat) (g : Bytes) : (smb2NegotiateReply env v g).length = (smb2NegotiateReply env' v g).length := by
  simp [smb2NegotiateReply, u64le, u32le, u16le]

theorem smb1Payload_rel (c : Nat) (p : Bytes) : RelO (smb1Payload env c p) (smb1Payload env' c p) := by
  unfold smb1Payload
  by_cases h1 : c = 0x72
  · simp only [h1, if_true]
    by_cases h2 : p.length < 3
    · simp [h2, RelO]
    · simp only [h2, if_false]
      cases smb1Dialects (rdLE (slice p 1 2)) (p.drop 3) 0 none [] with
      | none => simp [RelO]
      | some ds => dsimp only; exact RelO_some (smb1Neg_len ds)
  · simp only [h1, if_false]
    exact RelO.refl _

theorem smb2Payload_rel (c : Nat) (p : Bytes) : RelO (smb2Payload env c p) (smb2Payload env' c p) := by
  unfold smb2Payload
  by_cases h1 : c = 0
  · simp only [h1, if_true]
    by_cases h2 : p.length < 36
    · simp [h2, RelO]
    · simp only [h2, if_false]
      by_cases h3 : rdLE (slice p 2 2) = 0
      · simp [h3, RelO]
      · simp only [h3, if_false]
        cases smb2Dialects (rdLE (slice p 2 2)) (p.drop 36) with
        | none => simp [RelO]
        | some ds =>
          dsimp only
          cases List.find? (fun v => ds.contains v) smb2Versions with
          | none => simp [RelO]
          | some v => exact RelO_some (smb2Neg_len v _)
  · simp only [h1, if_false]
    exact RelO.refl _

theorem smb1Message_rel (m : Bytes) : RelO (smb1Message env m) (smb1Message env' m) := by
  unfold smb1Message
  by_cases h1 : m.length < 33
  · simp [h1, RelO]
  · simp only [h1, if_false]
    by_cases h2 : at8 m 9 ≥ 128
    · simp [h2, RelO]
    · simp only [h2, if_false]
      have h := smb1Payload_rel (env := env) (env' := env') (at8 m 4) (m.drop 32)
      revert h
      cases smb1Payload env (at8 m 4) (m.drop 32) <;> cases smb1Payload env' (at8 m 4) (m.drop 32) <;> simp [RelO]

theorem smb2Message_rel (m : Bytes) : RelO (smb2Message env m) (smb2Message env' m) := by
  unfold smb2Message
  by_cases h1 : m.length < 65
  · simp [h1, RelO]
  · simp only [h1, if_false]
    by_cases h2 : rdLE (slice m 16 4) % 2 = 1
    · simp [h2, RelO]
    · simp only [h2, if_false]
      have h := smb2Payload_rel (env := env) (env' := env') (rdLE (slice m 12 2)) (m.drop 64)
      revert h
      cases smb2Payload env (rdLE (slice m 12 2)) (m.drop 64) <;> cases smb2Payload env' (rdLE (slice m 12 2)) (m.drop 64) <;> simp [RelO]

theorem smb1Repl_rel (d : Bytes) : RelO (smb1Repl env d) (smb1Repl env' d) := by
  unfold smb1Repl
  have h := smb1Message_rel (env := env) (env' := env') (d.drop 4)
  revert h
  cases smb1Message env (d.drop 4) <;> cases smb1Message env' (d.drop 4) <;> simp [RelO, nbtWrap, u16be]

theorem smb2Repl_rel (d : Bytes) : RelO (smb2Repl env d) (smb2Repl env' d) := by
  unfold smb2Repl
  have h := smb2Message_rel (env := env) (env' := env') (d.drop 4)
  revert h
  cases smb2Message env (d.drop 4) <;> cases smb2Message env' (d.drop 4) <;> simp [RelO, nbtWrap, u16be]

theorem protoHandle_rel (h : env.httpDate.length = env'.httpDate.length) (cfg : Cfg) (id : Nat) (ci : ClientInfo)
    (tcb : Option Tcb) (d : Bytes) :
    RelP (protoHandle cfg env id ci tcb d) (protoHandle cfg env' id ci tcb d) := by
  unfold protoHandle
  by_cases h1 : id = PROTO_HTTP
  · simp only [h1, if_true]
    cases tcb with
    | none =>
      dsimp only
      have := httpRepl_rel h {} d
      revert this
      cases httpRepl env {} d <;> cases httpRepl env' {} d <;> simp [RelH, RelP]
      all_goals (try (intro a b; exact b))
    | some t =>
      dsimp only
      cases hps : t.protoState with
      | none =>
        dsimp only
        have := httpRepl_rel h {} d
        revert this
        cases httpRepl env {} d <;> cases httpRepl env' {} d <;> simp [RelH, RelP]
        all_goals (try (intro a b; exact ⟨a, b⟩))
      | some ps =>
        cases ps with
        | rpc r => simp [RelP]
        | http s0 =>
          dsimp only
          have := httpRepl_rel h s0 d
          revert this
          cases httpRepl env s0 d <;> cases httpRepl env' s0 d <;> simp [RelH, RelP]
          all_goals (try (intro a b; exact ⟨a, b⟩))
  · simp only [h1, if_false]
    by_cases h2 : id = PROTO_STUN
    · simp only [h2, if_true]; exact RelP.refl _
    · simp only [h2, if_false]
      by_cases h3 : id = PROTO_SSH
      · simp only [h3, if_true]; exact RelP.refl _
      · simp only [h3, if_false]
        by_cases h4 : id = PROTO_GHOST
        · simp only [h4, if_true]; exact RelP.refl _
        · simp only [h4, if_false]
          by_cases h5 : id = PROTO_RPC_TCP
          · simp only [h5, if_true]; exact RelP.refl _
          · simp only [h5, if_false]
            by_cases h6 : id = PROTO_RPC_UDP
            · simp only [h6, if_true]; exact RelP.refl _
            · simp only [h6, if_false]
              by_cases h7 : id = PROTO_SMB1
              · simp only [h7, if_true]
                exact ⟨rfl, rfl, smb1Repl_rel d⟩
              · simp only [h7, if_false]
                by_cases h8 : id = PROTO_SMB2
                · simp only [h8, if_true]
                  exact ⟨rfl, rfl, smb2Repl_rel d⟩
                · simp only [h8, if_false]; exact RelP.refl _

theorem protoRepl_rel (h : env.httpDate.length = env'.httpDate.length) (cfg : Cfg) (ci : ClientInfo)
    (tcb : Option Tcb) (d : Bytes) :
    RelP (protoRepl cfg env ci tcb d) (protoRepl cfg env' ci tcb d) := by
  unfold protoRepl
  by_cases h0 : ci.transport = some 6 ∧ ci.cookie = none
  · simp only [h0, and_self, if_true]; exact RelP.refl _
  · simp only [h0, if_false]
    cases tcb with
    | some t =>
      dsimp only
      by_cases hn : t.protoId = PROTO_NONE
      · simp only [hn, if_true]
        cases protoTbl.searchNext t.smackState d with
        | error e => simp [RelP]
        | ok v =>
          obtain ⟨id, st, k⟩ := v
          exact protoHandle_rel h cfg id ci _ d
      · simp only [hn, if_false]
        exact protoHandle_rel h cfg _ ci _ d
    | none =>
      dsimp only
      cases protoTbl.searchNext baseState d with
      | error e => simp [RelP]
      | ok v =>
        obtain ⟨id, st, k⟩ := v
        dsimp only
        by_cases hm : id = noMatch
        · simp only [hm, if_true]
          cases protoTbl.searchNextEnd st with
          | error e => simp [RelP]
          | ok w =>
            obtain ⟨id', st'⟩ := w
            dsimp only
            by_cases hm' : id' = noMatch
            · simp only [hm', if_true]
              cases dnsParse d with
              | none => exact protoHandle_rel h cfg _ ci none d
              | some m =>
                dsimp only
                cases dnsRepl ci m with
                | none => exact protoHandle_rel h cfg _ ci none d
                | some r => exact RelP.refl _
            · simp only [hm', if_false]
              exact protoHandle_rel h cfg _ ci none d
        · simp only [hm, if_false]
          exact protoHandle_rel h cfg _ ci none d

def RelU : Except Site (List Ev × ClientInfo × Option Bytes) → Except Site (List Ev × ClientInfo × Option Bytes) → Prop
  | .error e, .error e' => e = e'
  | .ok (evs, c, r), .ok (evs', c', r') => evs = evs' ∧ c = c' ∧ RelO r r'
  | _, _ => False

def RelT : Except Site (List Ev × ClientInfo × Table × Option Bytes) → Except Site (List Ev × ClientInfo × Table × Option Bytes) → Prop
  | .error e, .error e' => e = e'
  | .ok (evs, c, t, r), .ok (evs', c', t', r') => evs = evs' ∧ c = c' ∧ t = t' ∧ RelO r r'
  | _, _ => False

theorem RelT.refl (x : Except Site (List Ev × ClientInfo × Table × Option Bytes)) : RelT x x := by
  match x with
  | .error e => simp [RelT]
  | .ok (a, c, t, r) => simp [RelT, RelO.refl]

theorem udpRepl_rel (h : env.httpDate.length = env'.httpDate.length) (cfg : Cfg) (ci : ClientInfo) (p : Bytes) :
    RelU (udpRepl cfg env ci p) (udpRepl cfg env' ci p) := by
  unfold udpRepl
  dsimp only
  have := protoRepl_rel h cfg { ci with portSrc := some (rdBE (slice p 0 2)), portDst := some (rdBE (slice p 2 2)) } none (p.drop 8)
  revert this
  generalize protoRepl cfg env _ none (p.drop 8) = x
  generalize protoRepl cfg env' _ none (p.drop 8) = y
  match x, y with
  | .error e, .error e' => simp [RelP, RelU]
  | .error e, .ok v => simp [RelP]
  | .ok v, .error e => simp [RelP]
  | .ok (c, t, r), .ok (c', t', r') =>
    intro hr
    obtain ⟨hc, ht, ho⟩ := hr
    subst hc
    cases r <;> cases r' <;> simp [RelO] at ho <;> simp [RelU, RelO, ho]

theorem tcpRepl_rel (h : env.httpDate.length = env'.httpDate.length) (cfg : Cfg) (st : Table) (ci : ClientInfo) (p : Bytes) :
    RelT (tcpRepl cfg env st ci p) (tcpRepl cfg env' st ci p) := by
  have key := protoRepl_rel h cfg
  unfold tcpRepl
  grind (splits := 40) (gen := 20) [RelT, RelP, RelO]

theorem RelO_setU16 {r r' : Bytes} (k v v' : Nat) (h : r.length = r'.length) : (setU16 r k v).length = (setU16 r' k v').length :=
  setU16_len_congr h k v v'

theorem ipv4Repl_rel (h : env.httpDate.length = env'.httpDate.length) (cfg : Cfg) (st : Table) (ci : ClientInfo) (p : Bytes) :
    RelT (ipv4Repl cfg env st ci p) (ipv4Repl cfg env' st ci p) := by
  have kt := tcpRepl_rel h cfg
  have ku := udpRepl_rel h cfg
  have ks := @RelO_setU16
  unfold ipv4Repl
  grind (splits := 60) (gen := 20) [RelT, RelU, RelO]

theorem ipv6Repl_rel (h : env.httpDate.length = env'.httpDate.length) (cfg : Cfg) (st : Table) (ci : ClientInfo) (p : Bytes) :
    RelT (ipv6Repl cfg env st ci p) (ipv6Repl cfg env' st ci p) := by
  have kt := tcpRepl_rel h cfg
  have ku := udpRepl_rel h cfg
  have ks := @RelO_setU16
  unfold ipv6Repl
  grind (splits := 60) (gen := 20) [RelT, RelU, RelO]

def RelE : Except Site (List Ev × Table × Option Bytes) → Except Site (List Ev × Table × Option Bytes) → Prop
  | .error e, .error e' => e = e'
  | .ok (evs, t, r), .ok (evs', t', r') => evs = evs' ∧ t = t' ∧ RelO r r'
  | _, _ => False

theorem ethRepl_rel (h : env.httpDate.length = env'.httpDate.length) (cfg : Cfg) (st : Table) (f : Bytes) :
    RelE (ethRepl cfg env st f) (ethRepl cfg env' st f) := by
  have k4 := ipv4Repl_rel h cfg
  have k6 := ipv6Repl_rel h cfg
  unfold ethRepl
  grind (splits := 60) (gen := 20) [RelT, RelE, RelO]

/-- results of `reply()` under two clocks: the same error site, or a reply in both or in neither, of the same length -/
def RelOut : Except Site (Option Bytes) → Except Site (Option Bytes) → Prop
  | .error e, .error e' => e = e'
  | .ok r, .ok r' => RelO r r'
  | _, _ => False

/-- **The clock is not an input of the data path.** Whatever the wall clock says (the text of the HTTP `Date` header keeping its
    length), processing a frame leaves the same connection table, emits the same events, and either fails at the same site, or
    stays silent in both cases, or answers in both cases with replies of the same length. -/
theorem step_clock (h : env.httpDate.length = env'.httpDate.length) (cfg : Cfg) (st : Table) (f : Bytes) :
    (step cfg env st f).st = (step cfg env' st f).st ∧ (step cfg env st f).evs = (step cfg env' st f).evs ∧
    RelOut (step cfg env st f).out (step cfg env' st f).out := by
  have k := ethRepl_rel h cfg st f
  unfold step
  grind (splits := 20) [RelE, RelOut, RelO]

/-- a history processed while the clock runs: frame number `k` is handled at wall-clock reading `envs k` -/
def runAt (cfg : Cfg) (envs : Nat → Env) : Nat → Table → List Bytes → Table
  | _, st, [] => st
  | k, st, f :: fs => runAt cfg envs (k + 1) (step cfg (envs k) st f).st fs

/-- the connection table after any history does not depend on what the clock said at any of its frames -/
theorem run_clock (cfg : Cfg) (envs envs' : Nat → Env) (hl : ∀ i, (envs i).httpDate.length = (envs' i).httpDate.length)
    (fs : List Bytes) (st : Table) (k : Nat) :
    runAt cfg envs k st fs = runAt cfg envs' k st fs := by
  induction fs generalizing st k with
  | nil => simp [runAt]
  | cons f fs ih =>
    have e : (step cfg (envs k) st f).st = (step cfg (envs' k) st f).st := (step_clock (hl k) cfg st f).1
    simp only [runAt, e]
    exact ih _ _

theorem runAt_const (cfg : Cfg) (env : Env) (fs : List Bytes) (st : Table) (k : Nat) :
    runAt cfg (fun _ => env) k st fs = run cfg env st fs := by
  induction fs generalizing st k with
  | nil => simp [runAt, run]
  | cons f fs ih => simp only [runAt, run]; exact ih _ _

/-- non-vacuity: two different clock readings with date texts of the same length -/
example : ({ httpDate := List.replicate 31 65, unixSecs := 1 } : Env).httpDate.length =
          ({ httpDate := List.replicate 31 66, unixSecs := 99999 } : Env).httpDate.length := by simp

#print axioms protoRepl_rel
#print axioms udpRepl_rel
#print axioms tcpRepl_rel
#print axioms step_clock
#print axioms run_clock
#print axioms runAt_const

end Masscanned.Clock
