/-
  Thm/C14Judge — soundness of the run-time judge `Spec.judgeC14` (DNS fallback) with respect to the model.

  * `judgeC14_accepts_model`: a datagram (`tcb = none`).  Only hypothesis: the client info carries a
    destination address, and if it is an IPv4 one it has 4 bytes (`DstOk ci`; the judge compares the RDATA
    of the answer with `o.dst`).  Nothing is assumed about the transport number recorded in `ci`: if it is
    6 the judge abstains, otherwise the SYN-cookie gate is open by itself.
    The judge's precondition is "no PUBLISHED signature completed" (`Spec.refDatagram p = none`); the
    compiled matcher then identifies nothing either (`J3.k2_stream_none_of_pub`: its patterns are
    restrictions of the published ones — the shadow set K2 cannot make it identify MORE) except for the
    end-of-datagram quirk: a datagram of 23 / 27 bytes, one byte short of an ONC-RPC call, is handed to an
    ONC-RPC responder and the DNS fallback is NOT tried.  This is no false alarm, for two reasons proved
    here: such a datagram is never an IN/A query (`J3.oneShort_udp_not_query`, `oneShort_tcp_not_query`: the
    zero words of the ONC-RPC header are QDCOUNT = 0 with trailing bytes, resp. a first question of type 0),
    and the ONC-RPC responders never answer fewer than 40 / 44 bytes (`J3.rpc_udp_short`, `rpc_tcp_short`),
    which is what the judge demands when the datagram happens to be a truncated DNS message
    (`oneShortTruncated` below: 27 bytes, truncated, identified as ONC-RPC/TCP, silent, verdict ok and
    non-trivial).
  * `judgeC14_accepts_model_tcp`: whenever the client info says TCP (first segment, later segment, any
    `forced`) the judge abstains (`pass false`).
  * Sticky observations with a client info that is NOT TCP do not exist in the program (a control block
    belongs to a TCP flow); there the judge — which never looks at `forced` — would demand the DNS answer
    from whatever handler the sticky id selects: `judgeC14_sticky_udp_false` (latent, unreachable).

  No judge-vs-model discrepancy for C14 on observations the program can produce.
-/
import Masscanned.Proofs.J3.Judge
open Masscanned
namespace Masscanned.C14Judge
open Masscanned.Spec Masscanned.E2E Masscanned.J3

/-- the client info carries the destination address; an IPv4 one has 4 bytes -/
def DstOk (ci : ClientInfo) : Prop := ∃ ip, ci.ipDst = some ip ∧ ∀ a, ip = .v4 a → a.length = 4

example : DstOk C10E2E.ciUdp := ⟨_, rfl, by intro a h; cases h; rfl⟩
example : DstOk { ipDst := some (.v6 [0x20, 1, 0xd, 0xb8, 0, 0, 0, 0, 0, 0, 0, 0, 0, 0, 0, 1]) } :=
  ⟨_, rfl, by intro a h; cases h⟩

/-- **`judgeC14` accepts the model** (datagram) -/
theorem judgeC14_accepts_model (cfg : Cfg) (env : Env) (ci : ClientInfo) (p : Bytes) (hdst : DstOk ci)
    (ci' : ClientInfo) (tcb' : Option Tcb) (reply : Option Bytes)
    (h : protoRepl cfg env ci none p = .ok (ci', tcb', reply)) :
    (judgeC14 (obsOf ci p ci' reply)).ok = true := by
  rw [judgeC14_obs]
  split
  · rfl
  · rename_i htr
    have hg : Gate ci := by
      intro hc
      exact htr (by simp [hc.1])
    split
    · rfl
    · rename_i hnone
      have hpub : refDatagram p = none := by
        cases hr : refDatagram p with
        | none => rfl
        | some i => rw [hr] at hnone; simp at hnone
      rcases refDatagram_none_cases p hpub with hid | ⟨hid, hl, hm⟩ | ⟨hid, hl, hm⟩
      · -- nothing identified: DNS fallback
        have hr := reply_dns hg hid h
        cases hq : inAQuery p with
        | some q =>
          simp only
          obtain ⟨ip, hip, hv4⟩ := hdst
          rw [hip]
          simp only [Option.getD_some]
          cases ip with
          | v6 a => rfl
          | v4 a =>
            simp only
            obtain ⟨m, r, hm, hrr, hok⟩ := C14.dns_reply_faithful (ci := ci) hq hip (hv4 a rfl)
            rw [hr, hm]
            simp only [Option.bind_some, hrr, hok, if_true]
            rfl
        | none =>
          simp only
          split
          · rename_i hbad
            have : reply = none := by
              rw [hr]
              rcases hbad with hb | hb
              · exact C14.dns_non_ina_silent ci hb
              · rw [C14.dns_truncated_silent hb]; rfl
            rw [this]
            rfl
          · rfl
      · have hr := reply_oneShort hg (by omega) (.inl hid) h
        rw [oneShort_udp_not_query p hl hm, hr]
        simp only
        split <;> rfl
      · have hr := reply_oneShort hg (by omega) (.inr hid) h
        rw [oneShort_tcp_not_query p hl hm, hr]
        simp only
        split <;> rfl

/-- whenever the client info says TCP the judge abstains: first segment of a flow, later segments (any
    sticky id), whatever the reply -/
theorem judgeC14_accepts_model_tcp (ci : ClientInfo) (p : Bytes) (htcp : ci.transport = some 6)
    (ci' : ClientInfo) (reply : Option Bytes) (forced : Option Nat) :
    (judgeC14 (obsOf ci p ci' reply forced)).ok = true := by
  rw [judgeC14_obs]
  simp [htcp]
  rfl

/-- in particular: first segment of a TCP flow, and later segments through `protoHandle` -/
theorem judgeC14_accepts_model_first_segment (cfg : Cfg) (env : Env) (ci : ClientInfo) (p : Bytes)
    (htcp : ci.transport = some 6) (ci' : ClientInfo) (tcb' : Option Tcb) (reply : Option Bytes)
    (_h : protoRepl cfg env ci (some {}) p = .ok (ci', tcb', reply)) :
    (judgeC14 (obsOf ci p ci' reply)).ok = true :=
  judgeC14_accepts_model_tcp ci p htcp ci' reply none

theorem judgeC14_accepts_model_sticky (cfg : Cfg) (env : Env) (id : Nat) (ci : ClientInfo) (p : Bytes)
    (tcb : Option Tcb) (htcp : ci.transport = some 6) (ci' : ClientInfo) (tcb' : Option Tcb) (reply : Option Bytes)
    (_h : protoHandle cfg env id ci tcb p = .ok (ci', tcb', reply)) :
    (judgeC14 (obsOf ci p ci' reply (some id))).ok = true :=
  judgeC14_accepts_model_tcp ci p htcp ci' reply (some id)

/-- latent, unreachable: a sticky observation with a UDP client info — the judge ignores `forced` and demands
    the DNS answer from the SSH handler -/
theorem judgeC14_sticky_udp_false (cfg : Cfg) (env : Env) (tcb : Option Tcb) :
    protoHandle cfg env ID_SSH C10E2E.ciUdp tcb C14.q1 = .ok (C10E2E.ciUdp, tcb, none) ∧
    (judgeC14 (obsOf C10E2E.ciUdp C14.q1 C10E2E.ciUdp none (some ID_SSH))).ok = false := by
  refine ⟨?_, by decide +kernel⟩
  rw [handle_ssh, C18.sshRepl_eq]
  have : C18.sshLang C14.q1 = false := by decide +kernel
  rw [this]; rfl

/-! ### non-vacuity -/

/-- `www.example.com IN A` to 10.0.0.1: answered faithfully, verdict ok and non-trivial -/
example (cfg : Cfg) (env : Env) : ∃ ci' tcb' reply,
    protoRepl cfg env C10E2E.ciUdp none C14.q1 = .ok (ci', tcb', reply) ∧
    (judgeC14 (obsOf C10E2E.ciUdp C14.q1 ci' reply)).ok = true ∧
    (judgeC14 (obsOf C10E2E.ciUdp C14.q1 ci' reply)).nontrivial = true := by
  have hid : refDatagramK2 C14.q1 = none := by decide +kernel
  obtain ⟨r, hr⟩ := Option.isSome_iff_exists.mp
    (show ((dnsParse C14.q1).bind (dnsRepl C10E2E.ciUdp)).isSome = true by decide +kernel)
  have hm : protoRepl cfg env C10E2E.ciUdp none C14.q1 = .ok (C10E2E.ciUdp, none, some r) := by
    rw [model_none cfg env _ _ (by decide), hid]
    simp only [hr]
  refine ⟨_, _, _, hm, judgeC14_accepts_model cfg env _ _ ⟨_, rfl, by intro a h; cases h; rfl⟩ _ _ _ hm, ?_⟩
  have hv : (match (dnsParse C14.q1).bind (dnsRepl C10E2E.ciUdp) with
      | some r => (judgeC14 (obsOf C10E2E.ciUdp C14.q1 C10E2E.ciUdp (some r))).nontrivial
      | none => false) = true := by decide +kernel
  rw [hr] at hv
  exact hv

/-- `www.example.com IN TXT`: not answered, verdict ok and non-trivial -/
example (cfg : Cfg) (env : Env) : ∃ ci' tcb' reply,
    protoRepl cfg env C10E2E.ciUdp none (C14.q1.take 29 ++ [0, 16, 0, 1]) = .ok (ci', tcb', reply) ∧
    (judgeC14 (obsOf C10E2E.ciUdp (C14.q1.take 29 ++ [0, 16, 0, 1]) ci' reply)).ok = true ∧
    (judgeC14 (obsOf C10E2E.ciUdp (C14.q1.take 29 ++ [0, 16, 0, 1]) ci' reply)).nontrivial = true := by
  have hid : refDatagramK2 (C14.q1.take 29 ++ [0, 16, 0, 1]) = none := by decide +kernel
  have hr : (dnsParse (C14.q1.take 29 ++ [0, 16, 0, 1])).bind (dnsRepl C10E2E.ciUdp) = none := by decide +kernel
  have hm : protoRepl cfg env C10E2E.ciUdp none (C14.q1.take 29 ++ [0, 16, 0, 1]) = .ok (C10E2E.ciUdp, none, none) := by
    rw [model_none cfg env _ _ (by decide), hid]
    simp only [hr]
  exact ⟨_, _, _, hm, by decide +kernel, by decide +kernel⟩

/-- 27 bytes, one byte short of an ONC-RPC/TCP call AND a truncated DNS message: no published signature is
    completed, the compiled matcher hands it to the ONC-RPC/TCP responder, which is silent — as the judge
    demands (non-trivially) -/
def oneShortTruncated : Bytes :=
  [1, 1, 1, 1, 1, 1, 1, 1, 0, 0, 0, 0, 0, 0, 0, 1, 0, 1, 0x86, 0, 1, 1, 1, 1, 0, 0, 0]

theorem oneShort_truncated_witness (cfg : Cfg) (env : Env) :
    refDatagram oneShortTruncated = none ∧ rpcOneShort oneShortTruncated = true ∧
    refDatagramK2 oneShortTruncated = some ID_RPC_TCP ∧ dnsTruncated oneShortTruncated = true ∧
    protoRepl cfg env C10E2E.ciUdp none oneShortTruncated = .ok (C10E2E.ciUdp, none, none) ∧
    (judgeC14 (obsOf C10E2E.ciUdp oneShortTruncated C10E2E.ciUdp none)).ok = true ∧
    (judgeC14 (obsOf C10E2E.ciUdp oneShortTruncated C10E2E.ciUdp none)).nontrivial = true := by
  have hid : refDatagramK2 oneShortTruncated = some ID_RPC_TCP := by decide +kernel
  refine ⟨by decide +kernel, by decide +kernel, hid, by decide +kernel, ?_, by decide +kernel, by decide +kernel⟩
  have hnp := C16.rpc_no_panic cfg.ovf C10E2E.ciUdp (.v4 [10, 0, 0, 1]) 111 rfl rfl
  obtain ⟨s, r, hs, _⟩ := hnp.2.2.2.2 {} oneShortTruncated hnp.1
  have hr := rpc_tcp_short cfg.ovf C10E2E.ciUdp oneShortTruncated (by decide) s r hs
  subst hr
  rw [model_none cfg env _ _ (by decide), hid]
  simp only [protoHandle, ID_RPC_TCP, PROTO_HTTP, PROTO_STUN, PROTO_SSH, PROTO_GHOST, PROTO_RPC_TCP,
    Nat.reduceEqDiff, if_false, if_true]
  rw [hs]

end Masscanned.C14Judge

#print axioms Masscanned.C14Judge.judgeC14_accepts_model
#print axioms Masscanned.C14Judge.judgeC14_accepts_model_tcp
#print axioms Masscanned.C14Judge.judgeC14_accepts_model_first_segment
#print axioms Masscanned.C14Judge.judgeC14_accepts_model_sticky
#print axioms Masscanned.C14Judge.judgeC14_sticky_udp_false
#print axioms Masscanned.C14Judge.oneShort_truncated_witness
