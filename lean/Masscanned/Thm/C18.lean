/-
  C18 — SSH banner responder and Gh0st responder.

  SSH (`src/proto/ssh.rs`, model `Model/Ssh.lean`): the responder never panics (the checked `i -= 1` is
  unreachable), answers exactly the language `sshLang` = "SSH-" (digit | '.')* "-" rest, CR LF in rest,
  with exactly "SSH-2.0-1\r\n", and is silent otherwise.  `Spec.sshAnswered` (the property's own
  vocabulary) is that language restricted to the dispatcher's prefixes SSH-2.0 / SSH-1.99.

  Gh0st (`src/proto/ghost.rs`): the reply is a constant; the regenerated blob is a consistent frame
  (declared total length = frame length, zlib body inflates to the declared uncompressed length).
-/
import Masscanned.Proofs.C18.SpecLink
import Masscanned.Model.Dispatch
import Masscanned.Gen.GhostBlob
open Masscanned
namespace Masscanned.C18

/-! ### C18.1 no panic -/

/-- the parser loop with the checked look-behind equals the plain fold of the byte step: the
    `i -= 1` underflow site is never reached from a fresh state -/
theorem sshLoop_eq_fold (d : Bytes) : sshLoop (.pre 0) d 0 = .ok (d.foldl sshByte (.pre 0)) :=
  sshLoop_ok d _ 0 (by simp [lfSt])

theorem ssh_no_panic (d : Bytes) : ∃ s, sshLoop (.pre 0) d 0 = .ok s := ⟨_, sshLoop_eq_fold d⟩

/-- closed form of the responder -/
theorem sshRepl_eq (d : Bytes) : sshRepl d = .ok (if sshLang d = true then some sshBanner else none) := by
  unfold sshRepl
  rw [sshLoop_eq_fold]
  simp only [fold_pre_eob]

theorem ssh_never_error (d : Bytes) (e : Site) : sshRepl d ≠ .error e := by
  rw [sshRepl_eq]; simp

/-! ### C18.2 the answered language -/

/-- the recogniser `sshLang` is the explicit description: "SSH-" v "-" rest, every byte of `v` a digit
    or '.', CR LF somewhere in `rest` (arbitrary other bytes in `rest`, lone CRs included) -/
theorem sshLang_explicit (d : Bytes) :
    sshLang d = true ↔
      ∃ v rest, d = sshMagic ++ v ++ 45 :: rest ∧ (∀ b ∈ v, isDigit b = true ∨ b = 46) ∧
        [13, 10] <:+: rest :=
  sshLang_iff d

theorem ssh_answered_iff (d r : Bytes) :
    sshRepl d = .ok (some r) ↔ (r = sshBanner ∧ sshLang d = true) := by
  rw [sshRepl_eq]
  cases h : sshLang d <;> simp [eq_comm]

theorem ssh_silent_iff (d : Bytes) : sshRepl d = .ok none ↔ sshLang d = false := by
  rw [sshRepl_eq]
  cases h : sshLang d <;> simp

/-- any reply is exactly "SSH-2.0-1\r\n" -/
theorem ssh_reply_exact (d r : Bytes) (h : sshRepl d = .ok (some r)) :
    r = "SSH-2.0-1\r\n".toUTF8.toList :=
  ((ssh_answered_iff d r).1 h).1

theorem ssh_not_answered (d : Bytes) (h : sshLang d = false) : sshRepl d = .ok none :=
  (ssh_silent_iff d).2 h

/-- the property's first sentence in explicit form: version of digits and dots, then '-', then ANY software /
    comment bytes `sw` (spaces, lone CRs, LFs, … allowed), CR LF, then anything: answered with the banner -/
theorem ssh_ident_answered (v sw trailing : Bytes) (hv : ∀ b ∈ v, isDigit b = true ∨ b = 46) :
    sshRepl (sshMagic ++ v ++ 45 :: (sw ++ 13 :: 10 :: trailing)) = .ok (some "SSH-2.0-1\r\n".toUTF8.toList) := by
  rw [show "SSH-2.0-1\r\n".toUTF8.toList = sshBanner from rfl, ssh_answered_iff]
  refine ⟨rfl, (sshLang_iff _).2 ⟨v, _, rfl, hv, sw, trailing, ?_⟩⟩
  simp

/-! ### C18.3 connection to the Spec -/

theorem dispatcherPrefix_iff (d : Bytes) :
    dispatcherPrefix d = true ↔ "SSH-2.0".toUTF8.toList <+: d ∨ "SSH-1.99".toUTF8.toList <+: d := by
  rw [pfx20_eq, pfx199_eq]
  simp [dispatcherPrefix, List.isPrefixOf_iff_prefix]

theorem spec_answered_iff (d : Bytes) :
    Spec.sshAnswered d = true ↔ (dispatcherPrefix d = true ∧ sshLang d = true) := by
  rw [sshAnswered_eq, Bool.and_eq_true]

/-- an identification string in the Spec's language is answered with exactly the expected banner -/
theorem ssh_spec (d : Bytes) (h : Spec.sshAnswered d = true) :
    sshRepl d = .ok (some Spec.sshBannerExpected) :=
  (ssh_answered_iff d _).2 ⟨rfl, ((spec_answered_iff d).1 h).2⟩

/-- behind the dispatcher's prefix the Spec's language is exactly what is answered -/
theorem ssh_spec_iff (d : Bytes) (hp : dispatcherPrefix d = true) :
    Spec.sshAnswered d = true ↔ sshRepl d = .ok (some Spec.sshBannerExpected) := by
  rw [spec_answered_iff, ssh_answered_iff]
  simp [hp, Spec.sshBannerExpected, sshBanner]

/-- no CR LF after the version's dash (the first '-' after "SSH-"): silent -/
theorem ssh_unterminated_silent (v rest : Bytes) (hd : (45 : UInt8) ∉ v) (hr : ¬ [13, 10] <:+: rest) :
    sshRepl (sshMagic ++ v ++ 45 :: rest) = .ok none := by
  apply ssh_not_answered
  rw [sshLang_split v rest hd]
  have : crlfIn rest = false := by
    rw [← Bool.not_eq_true, crlfIn_iff]; exact hr
  simp [this]

/-- no CR LF anywhere: silent (whatever the rest looks like) -/
theorem ssh_no_crlf_silent (d : Bytes) (hr : ¬ [13, 10] <:+: d) : sshRepl d = .ok none := by
  apply ssh_not_answered
  rw [← Bool.not_eq_true, sshLang_iff]
  rintro ⟨v, rest, rfl, _, h⟩
  exact hr (h.trans ((List.suffix_cons _ _).isInfix.trans (List.suffix_append _ _).isInfix))

/-- a byte other than digit / '.' in the version (the bytes between "SSH-" and the first '-'): silent -/
theorem ssh_bad_version_silent (v rest : Bytes) (b : UInt8) (hd : (45 : UInt8) ∉ v) (hb : b ∈ v)
    (hbad : ¬ (isDigit b = true ∨ b = 46)) :
    sshRepl (sshMagic ++ v ++ 45 :: rest) = .ok none := by
  apply ssh_not_answered
  rw [sshLang_split v rest hd]
  have : v.all verCh = false := by
    rw [← Bool.not_eq_true, List.all_eq_true]
    intro h
    exact hbad (by simpa [verCh] using h b hb)
  simp [this]

/-- not starting with "SSH-": silent -/
theorem ssh_bad_magic_silent (d : Bytes) (h : ¬ sshMagic <+: d) : sshRepl d = .ok none := by
  apply ssh_not_answered
  rw [← List.isPrefixOf_iff_prefix, Bool.not_eq_true] at h
  simp [sshLang, h]

/-! non-vacuity: concrete banners are in the Spec's language and are answered -/

/-- evaluation helper for the examples (`Except` has no `DecidableEq`): the model returns `.ok r` -/
def okIs {α : Type} [DecidableEq α] (x : Except Site α) (r : α) : Bool :=
  match x with
  | .ok y => decide (y = r)
  | .error _ => false

theorem okIs_iff {α : Type} [DecidableEq α] {x : Except Site α} {r : α} (h : okIs x r = true) : x = .ok r := by
  cases x with
  | ok y => simpa [okIs] using h
  | error e => simp [okIs] at h

/-- "SSH-2.0-OpenSSH_8.1 foo\r\n" -/
def ex1 : Bytes := [83,83,72,45,50,46,48,45,79,112,101,110,83,83,72,95,56,46,49,32,102,111,111,13,10]
/-- "SSH-2.0-Open\rSSH x\ry\r\n" (lone CR inside the software string and inside the comment) -/
def ex2 : Bytes := [83,83,72,45,50,46,48,45,79,112,101,110,13,83,83,72,32,120,13,121,13,10]
/-- "SSH-1.99-Cisco-1.25\r\n" -/
def ex3 : Bytes := [83,83,72,45,49,46,57,57,45,67,105,115,99,111,45,49,46,50,53,13,10]

example : ex1 = "SSH-2.0-OpenSSH_8.1 foo\r\n".toUTF8.toList := by decide +kernel
example : ex2 = "SSH-2.0-Open\rSSH x\ry\r\n".toUTF8.toList := by decide +kernel
example : ex3 = "SSH-1.99-Cisco-1.25\r\n".toUTF8.toList := by decide +kernel
example : Spec.sshAnswered ex1 = true := by decide +kernel
example : sshRepl ex1 = .ok (some "SSH-2.0-1\r\n".toUTF8.toList) := okIs_iff (by decide +kernel)
example : Spec.sshAnswered ex2 = true := by decide +kernel
example : sshRepl ex2 = .ok (some "SSH-2.0-1\r\n".toUTF8.toList) := okIs_iff (by decide +kernel)
example : Spec.sshAnswered ex3 = true := by decide +kernel
example : sshRepl ex3 = .ok (some "SSH-2.0-1\r\n".toUTF8.toList) := okIs_iff (by decide +kernel)
/-- unterminated / bare LF / bad version / bad magic / CR LF only before the dash: silent -/
example : sshRepl "SSH-2.0-OpenSSH_8.1".toUTF8.toList = .ok none := okIs_iff (by decide +kernel)
example : sshRepl "SSH-2.0-OpenSSH_8.1\n".toUTF8.toList = .ok none := okIs_iff (by decide +kernel)
example : sshRepl "SSH-2.0-OpenSSH_8.1\r".toUTF8.toList = .ok none := okIs_iff (by decide +kernel)
example : sshRepl "SSH-2.x-OpenSSH_8.1\r\n".toUTF8.toList = .ok none := okIs_iff (by decide +kernel)
example : sshRepl "SSH_2.0-OpenSSH_8.1\r\n".toUTF8.toList = .ok none := okIs_iff (by decide +kernel)
example : sshRepl "SSH-2.0\r\n".toUTF8.toList = .ok none := okIs_iff (by decide +kernel)
example : sshRepl [] = .ok none := okIs_iff (by decide +kernel)
/-- the look-behind is exercised (CR then non-LF) and the loop still returns -/
example : sshLoop (.pre 0) "SSH-2.0-a\rb".toUTF8.toList 0 = .ok .software := okIs_iff (by decide +kernel)
/-- hypotheses of the silent corollaries are satisfiable -/
example : (45 : UInt8) ∉ ([50, 46, 48] : Bytes) ∧ ¬ [13, 10] <:+: ([97, 13, 98, 10] : Bytes) := by decide
example : (45 : UInt8) ∉ ([50, 120, 48] : Bytes) ∧ (120 : UInt8) ∈ ([50, 120, 48] : Bytes) ∧
    ¬ (isDigit 120 = true ∨ (120 : UInt8) = 46) := by decide

/-! ### C18.4 Gh0st -/

/-- the reply the implementation emits now (regenerated blob) is a consistent Gh0st frame: magic, declared total
    length = frame length, zlib body inflates (independent inflate) to the declared uncompressed length -/
theorem ghost_frame_ok : Spec.ghostFrameOk Gen.ghostReply = true := by decide +kernel

/-- the zlib body inflates to exactly the one null byte the source compresses -/
theorem ghost_inflates : Spec.zlibInflate (Gen.ghostReply.drop 13) = some [0] := by decide +kernel

/-- the Gh0st arm of the handler dispatch ignores payload, client info and control block -/
theorem ghost_reply_constant (cfg : Cfg) (env : Env) (ci : ClientInfo) (tcb : Option Tcb) (d : Bytes) :
    protoHandle cfg env PROTO_GHOST ci tcb d = .ok (ci, tcb, some Gen.ghostReply) := by
  simp [protoHandle, PROTO_GHOST, PROTO_HTTP, PROTO_STUN, PROTO_SSH]

/-- so every Gh0st-dispatched payload is answered with a consistent frame -/
theorem ghost_answer_frame_ok (cfg : Cfg) (env : Env) (ci : ClientInfo) (tcb : Option Tcb) (d : Bytes) :
    ∃ r, protoHandle cfg env PROTO_GHOST ci tcb d = .ok (ci, tcb, some r) ∧ Spec.ghostFrameOk r = true :=
  ⟨_, ghost_reply_constant cfg env ci tcb d, ghost_frame_ok⟩

/-- the SSH arm of the handler dispatch is `sshRepl` -/
theorem ssh_handle (cfg : Cfg) (env : Env) (ci : ClientInfo) (tcb : Option Tcb) (d : Bytes) :
    protoHandle cfg env PROTO_SSH ci tcb d =
      .ok (ci, tcb, if sshLang d = true then some sshBanner else none) := by
  simp [protoHandle, PROTO_HTTP, PROTO_STUN, PROTO_SSH, sshRepl_eq]

/-! end to end through the dispatcher `protoRepl` (smack tables of the real code) on concrete payloads: a payload
    starting with the Gh0st magic gets the frame, a banner gets the SSH banner -/

def cfgE : Cfg :=
  { mac := [2, 0, 0, 0, 0, 1], selfIps := none, deny := none, k0 := 0, k1 := 0, logger := .none, level := 0,
    ovf := false }
def envE : Env := { httpDate := [], unixSecs := 0 }
def ciE : ClientInfo := { transport := some 6, cookie := some 1 }
/-- "Gh0st" followed by arbitrary bytes -/
def ghE : Bytes := [71, 104, 48, 115, 116, 1, 2, 3, 255, 0]

example : protoRepl cfgE envE ciE none ghE = .ok (ciE, none, some Gen.ghostReply) := okIs_iff (by decide +kernel)
example : protoRepl cfgE envE ciE none ex1 = .ok (ciE, none, some sshBanner) := okIs_iff (by decide +kernel)
example : protoRepl cfgE envE ciE none ex3 = .ok (ciE, none, some sshBanner) := okIs_iff (by decide +kernel)

/-! ### C18.5 tests of the Spec's inflate (sanity of the judge, not of the implementation) -/

/-- test: fixed-Huffman block with a back-reference; Python `zlib.compress(b'abcabcabcabcabc')` -/
theorem test_inflate_fixed_backref :
    Spec.zlibInflate [0x78,0x9c,0x4b,0x4c,0x4a,0x4e,0x44,0x42,0x00,0x2d,0xf5,0x05,0xbf]
      = some "abcabcabcabcabc".toUTF8.toList := by decide +kernel

/-- test: stored block; Python `zlib.compressobj(0)` on b'hello' -/
theorem test_inflate_stored :
    Spec.zlibInflate [120, 1, 1, 5, 0, 250, 255, 104, 101, 108, 108, 111, 6, 44, 2, 21]
      = some "hello".toUTF8.toList := by decide +kernel

/-- test: maximal-length (258) overlapping match, distance 1; Python Z_FIXED on b'a'*300 + b'xyz' -/
theorem test_inflate_run :
    Spec.zlibInflate [120, 1, 75, 76, 28, 5, 196, 130, 138, 202, 42, 0, 48, 161, 115, 24]
      = some (List.replicate 300 97 ++ [120, 121, 122]) := by decide +kernel

/-- test: a corrupted Adler-32 (last byte 0xbf → 0xbe) is rejected -/
theorem test_inflate_bad_adler :
    Spec.zlibInflate [0x78,0x9c,0x4b,0x4c,0x4a,0x4e,0x44,0x42,0x00,0x2d,0xf5,0x05,0xbe] = none := by
  decide +kernel

/-- test: corrupted stored-block NLEN, bad header check bits, truncated stream, trailing garbage: rejected -/
theorem test_inflate_rejects :
    Spec.zlibInflate [120, 1, 1, 5, 0, 250, 254, 104, 101, 108, 108, 111, 6, 44, 2, 21] = none ∧
    Spec.zlibInflate [120, 2, 1, 5, 0, 250, 255, 104, 101, 108, 108, 111, 6, 44, 2, 21] = none ∧
    Spec.zlibInflate [0x78,0x9c,0x4b,0x4c,0x4a,0x4e,0x44] = none ∧
    Spec.zlibInflate [0x78,0x9c,0x4b,0x4c,0x4a,0x4e,0x44,0x42,0x00,0x2d,0xf5,0x05,0xbf,0x00] = none := by
  decide +kernel

/-- test: a frame with a wrong declared total length / wrong declared uncompressed length is rejected -/
theorem test_frame_rejects :
    Spec.ghostFrameOk [71, 104, 48, 115, 116, 23, 0, 0, 0, 1, 0, 0, 0, 120, 156, 99, 0, 0, 0, 1, 0, 1] = false ∧
    Spec.ghostFrameOk [71, 104, 48, 115, 116, 22, 0, 0, 0, 2, 0, 0, 0, 120, 156, 99, 0, 0, 0, 1, 0, 1] = false := by
  decide +kernel

end Masscanned.C18

open Masscanned.C18 in
#print axioms sshLoop_eq_fold
#print axioms Masscanned.C18.ssh_no_panic
#print axioms Masscanned.C18.ssh_never_error
#print axioms Masscanned.C18.sshLang_explicit
#print axioms Masscanned.C18.ssh_answered_iff
#print axioms Masscanned.C18.ssh_reply_exact
#print axioms Masscanned.C18.ssh_not_answered
#print axioms Masscanned.C18.ssh_ident_answered
#print axioms Masscanned.C18.dispatcherPrefix_iff
#print axioms Masscanned.C18.spec_answered_iff
#print axioms Masscanned.C18.ssh_spec
#print axioms Masscanned.C18.ssh_spec_iff
#print axioms Masscanned.C18.ssh_unterminated_silent
#print axioms Masscanned.C18.ssh_no_crlf_silent
#print axioms Masscanned.C18.ssh_bad_version_silent
#print axioms Masscanned.C18.ssh_bad_magic_silent
#print axioms Masscanned.C18.ghost_frame_ok
#print axioms Masscanned.C18.ghost_inflates
#print axioms Masscanned.C18.ghost_reply_constant
#print axioms Masscanned.C18.ghost_answer_frame_ok
#print axioms Masscanned.C18.ssh_handle
#print axioms Masscanned.C18.test_inflate_fixed_backref
#print axioms Masscanned.C18.test_inflate_stored
#print axioms Masscanned.C18.test_inflate_run
#print axioms Masscanned.C18.test_inflate_bad_adler
#print axioms Masscanned.C18.test_inflate_rejects
#print axioms Masscanned.C18.test_frame_rejects
