/-
  Thm/C05Judge — soundness of the run-time judge `Spec.judgeC05` with respect to the model:
  the judge never fails on an outcome the model can produce.

  The judge sorts a frame into the classes of Thm/C05 (ARP request for a handled address, other ARP
  operation, ARP request for an unhandled address, ICMPv4 echo request, other ICMPv4, ICMPv6 echo
  request, Neighbour Solicitation, other ICMPv6, code-0 echo/NS outside the handled addresses) and
  demands the reply / the silence that the theorems of Thm/C05 establish for the model.  The oversize
  ICMPv4 echo request on which the model panics (`C05.echo4_oversize_panics`) is excluded by `.ok`.
-/
import Masscanned.Thm.C05
import Masscanned.Spec.Judge
namespace Masscanned.C05Judge
open Masscanned

variable {cfg : Cfg} {env : Env} {st : Table} {f : Bytes} {o : Option Bytes}

private theorem some_of {ok : Bytes → Bool} (h : (step cfg env st f).out = .ok o)
    (he : ∃ r, (step cfg env st f).out = .ok (some r) ∧ ok r = true) : ∃ r, o = some r ∧ ok r = true := by
  obtain ⟨r, hr, hok⟩ := he
  rw [h] at hr
  have := Except.ok.inj hr
  subst this
  exact ⟨r, rfl, hok⟩

private theorem none_of (h : (step cfg env st f).out = .ok o) (he : (step cfg env st f).out = .ok none) :
    o = none := by
  rw [h] at he; exact Except.ok.inj he

/-- the ARP half of the judge -/
theorem judgeC05arp_accepts_model (hm : cfg.mac.length = 6) (h : (step cfg env st f).out = .ok o)
    (v : Spec.Verdict) (hv : Spec.judgeC05arp cfg f o = some v) : v.ok = true := by
  unfold Spec.judgeC05arp at hv
  split at hv
  · rename_i ha
    obtain ⟨r, rfl, hok⟩ := some_of h (C05.arp_request_reply hm ha)
    simp only [hok, if_true, Option.some.injEq] at hv
    rw [← hv]; rfl
  · split at hv
    · rename_i hc
      have := none_of h (C05.arp_other_ops_silent hc.1 hc.2.2)
      subst this
      simp only [Option.isNone_none, if_true, Option.some.injEq] at hv
      rw [← hv]; rfl
    · split at hv
      · rename_i hc
        have := none_of h (C05.arp_unhandled_silent hc.1 (by simpa using hc.2.2))
        subst this
        simp only [Option.isNone_none, if_true, Option.some.injEq] at hv
        rw [← hv]; rfl
      · cases hv

/-- `judgeC05` accepts every outcome of the model, for every configuration with a 6-byte MAC, every
    environment, table and frame. -/
theorem judgeC05_accepts_model (cfg : Cfg) (env : Env) (st : Table) (f : Bytes) (o : Option Bytes)
    (hm : cfg.mac.length = 6) (h : (step cfg env st f).out = .ok o) :
    (Spec.judgeC05 cfg f o).ok = true := by
  unfold Spec.judgeC05
  split
  · rename_i v hv
    exact judgeC05arp_accepts_model hm h v hv
  · simp only
    split
    · -- ICMPv4 echo request: answered (or the model panics, excluded by `h`)
      rename_i he
      rcases Nat.lt_or_ge 65515 (Spec.l4Bytes f).length with hbig | hsz
      · rw [C05.echo4_oversize_panics hbig he] at h; cases h
      · obtain ⟨r, rfl, hok⟩ := some_of h (C05.echo4_reply_partial hm hsz he)
        simp [hok, Spec.pass]
    · split
      · rename_i hc
        have := none_of h (C05.icmp4_other_silent hc)
        subst this; rfl
      · split
        · rename_i he
          obtain ⟨r, rfl, hok⟩ := some_of h (C05.echo6_reply hm he)
          simp [hok, Spec.pass]
        · split
          · rename_i he
            obtain ⟨r, rfl, hok⟩ := some_of h (C05.ns_gets_na hm he)
            simp [hok, Spec.pass]
          · split
            · rename_i hc
              have := none_of h (C05.icmp6_other_silent hc)
              subst this; rfl
            · split
              · -- deliverable ICMPv6, code 0, type 128 or 135, outside the handled addresses
                rename_i hne6 hnns hno hd
                have hcode : Spec.u8 (Spec.l4Bytes f) 1 = 0 ∧
                    (Spec.u8 (Spec.l4Bytes f) 0 = 128 ∨ Spec.u8 (Spec.l4Bytes f) 0 = 135) := by
                  have : Spec.u8 (Spec.l4Bytes f) 1 = 0 ∧
                      (¬ Spec.u8 (Spec.l4Bytes f) 0 = 128 → Spec.u8 (Spec.l4Bytes f) 0 = 135) := by
                    simpa [Spec.icmp6Other, hd] using hno
                  exact ⟨this.1, Decidable.or_iff_not_imp_left.mpr this.2⟩
                have hsil : (step cfg env st f).out = .ok none := by
                  rcases hcode.2 with h128 | h135
                  · apply C05.echo6_unhandled_silent hd h128 hcode.1
                    simpa [Spec.echo6Request, hd, h128, hcode.1] using hne6
                  · rcases Nat.lt_or_ge (Spec.l4Bytes f).length 24 with hlt | hge
                    · exact C05.ns_short_silent hd h135 hcode.1 hlt
                    · have hd24 : Spec.deliverable cfg f true 58 24 = true := by
                        simp only [Spec.deliverable, Bool.and_eq_true, decide_eq_true_eq] at hd ⊢
                        exact ⟨hd.1, hge⟩
                      apply C05.ns_unhandled_silent hd24 h135 hcode.1
                      simpa [Spec.nsRequest, hd24, h135, hcode.1] using hnns
                have := none_of h hsil
                subst this; rfl
              · rfl

/-! ### non-vacuity: the verdict is non-trivial on the model's answers to concrete ARP / echo / NS
    frames and on silences, and the judge can fail -/
section NonVacuity
open C05W

private def envJ : Env := { httpDate := [], unixSecs := 0 }

private def verdictOn (cfg : Cfg) (f : Bytes) : Bool :=
  match (step cfg envJ [] f).out with
  | .ok o => (Spec.judgeC05 cfg f o).ok && (Spec.judgeC05 cfg f o).nontrivial
  | .error _ => false

example : cfgS.mac.length = 6 := by decide
example : verdictOn cfgS (arpFrame 1 [10, 0, 0, 1]) = true := by decide +kernel   -- ARP request, answered
example : verdictOn cfgS (arpFrame 2 [10, 0, 0, 1]) = true := by decide +kernel   -- ARP reply, silent
example : verdictOn cfgS (arpFrame 1 [10, 0, 0, 9]) = true := by decide +kernel   -- unhandled, silent
example : verdictOn cfgS (icmp4Frame 8 0) = true := by decide +kernel             -- echo request
example : verdictOn cfgS (icmp4Frame 13 0) = true := by decide +kernel            -- timestamp, silent
example : verdictOn cfgS (icmp6Frame ip6Self 128 0) = true := by decide +kernel   -- echo6
example : verdictOn cfgS (nsFrame ip6Self 0) = true := by decide +kernel          -- NS → NA
example : verdictOn cfgS (nsFrame ip6Other 0) = true := by decide +kernel         -- NS, unhandled target
example : verdictOn cfgS nsShortFrame = true := by decide +kernel                 -- short NS
example : verdictOn cfgS (icmp6Frame ip6Self 133 0) = true := by decide +kernel   -- router solicitation
-- the judge can fail: an unanswered ARP request, an answered ARP reply
example : (Spec.judgeC05 cfgS (arpFrame 1 [10, 0, 0, 1]) none).ok = false := by decide +kernel
example : (Spec.judgeC05 cfgS (arpFrame 2 [10, 0, 0, 1]) (some [])).ok = false := by decide +kernel

end NonVacuity

end Masscanned.C05Judge

#print axioms Masscanned.C05Judge.judgeC05_accepts_model
#print axioms Masscanned.C05Judge.judgeC05arp_accepts_model
