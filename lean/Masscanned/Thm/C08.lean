/-
  C08 — isolation between flows.  The reply to a frame is a function of the configuration, the frame
  and, for a delivered TCP data segment, the table entry of the frame's 32-bit cookie; that entry is a
  function of the earlier delivered data segments with the SAME COOKIE.  Everything else (ARP, ICMP,
  ICMPv6, UDP, SYN / FIN / RST / bare ACK, frames dropped by the filters, data of other cookies), in
  any interleaving, changes neither whether nor how a frame is answered.  Per FLOW the statement holds
  under cookie injectivity (`noninterference_partial`) and is false without it (`c08_full_false`, K1).
  Vocabulary (`dataFrame`, `flowOf`, `trace`, `keep`, `own`, `ownAccepted`, `CookieInj`) is in
  Proofs/C08/{Frame,History}; `frameCookie`, `isTcpData` in Proofs/Run.  `env` (wall clock) is the same
  on both sides of every equation.
-/
import Masscanned.Proofs.C08.History
import Masscanned.Proofs.C08.Examples
open Masscanned
namespace Masscanned.C08

/-! ### C08.1 frame lemma -/

/-- a frame that is not a delivered TCP data segment: reply and events are the same against any two
    tables, and the table is returned unchanged -/
theorem step_frame_other (cfg : Cfg) (env : Env) (st st2 : Table) (f : Bytes) (h : dataFrame cfg f = false) :
    (step cfg env st f).out = (step cfg env st2 f).out ∧ (step cfg env st f).evs = (step cfg env st2 f).evs ∧
      (step cfg env st f).st = st :=
  step_other env st st2 h

/-- a delivered TCP data segment has a flow cookie (so `step_frame` applies to it) -/
theorem data_frame_has_cookie (cfg : Cfg) (f : Bytes) (h : dataFrame cfg f = true) :
    ∃ k, frameCookie cfg f = some k :=
  dataFrame_cookie h

/-- a frame whose flow cookie is `k` (every IP frame has one; only delivered TCP data segments use it):
    reply, events and the new entry at `k` depend on the table only through its entry at `k`, and
    every other entry is left as it was -/
theorem step_frame (cfg : Cfg) (env : Env) (st st2 : Table) (f : Bytes) (k : Nat)
    (hc : frameCookie cfg f = some k) (hk : st.get? k = st2.get? k) :
    (step cfg env st f).out = (step cfg env st2 f).out ∧ (step cfg env st f).evs = (step cfg env st2 f).evs ∧
      (step cfg env st f).st.get? k = (step cfg env st2 f).st.get? k ∧
      ∀ k', k' ≠ k → (step cfg env st f).st.get? k' = st.get? k' := by
  have h := step_key env hc hk
  exact ⟨h.1, h.2.1, h.2.2.1, fun k' hk' => (h.2.2.2 k' hk').1⟩

/-! ### C08.2 traffic that is not delivered TCP data is invisible -/

/-- removing (or inserting) one frame that is not a delivered TCP data segment anywhere in a history
    changes neither the final table nor the reply / events of any other frame; and that frame's own
    reply is the one it would get on the empty table -/
theorem non_tcp_traffic_is_invisible (cfg : Cfg) (env : Env) (st : Table) (h1 h2 : List Bytes) (g : Bytes)
    (hg : dataFrame cfg g = false) :
    run cfg env st (h1 ++ g :: h2) = run cfg env st (h1 ++ h2) ∧
    (trace cfg env st (h1 ++ g :: h2)).eraseIdx h1.length = trace cfg env st (h1 ++ h2) ∧
    (trace cfg env st (h1 ++ g :: h2))[h1.length]? = some (g, (step cfg env [] g).out, (step cfg env [] g).evs) := by
  have hs := step_other env (run cfg env st h1) [] hg
  refine ⟨?_, ?_, ?_⟩
  · rw [run_append, run_append]; simp only [run]; rw [hs.2.2]
  · rw [trace_append, trace_append]
    rw [List.eraseIdx_append_of_length_le (by rw [trace_length]; exact Nat.le_refl _), trace_length, Nat.sub_self]
    simp only [trace, List.eraseIdx_cons_zero]; rw [hs.2.2]
  · rw [trace_append, List.getElem?_append_right (by rw [trace_length]; exact Nat.le_refl _), trace_length, Nat.sub_self]
    simp only [trace, List.getElem?_cons_zero]; rw [hs.1, hs.2.1]

/-- all at once: the final table is the one of the sub-history of delivered TCP data segments, and
    these get the same replies and events with or without the rest of the traffic -/
theorem non_tcp_traffic_filter (cfg : Cfg) (env : Env) (st : Table) (fs : List Bytes) :
    run cfg env st (fs.filter (dataFrame cfg)) = run cfg env st fs ∧
    (trace cfg env st fs).filter (fun x => dataFrame cfg x.1) = trace cfg env st (fs.filter (dataFrame cfg)) :=
  ⟨run_filter_data cfg env st fs, trace_filter_data cfg env st fs⟩

/-- any interleaving: two histories with the same sub-sequence of delivered TCP data segments end in the
    same table and answer these segments identically -/
theorem interleaving_invariance (cfg : Cfg) (env : Env) (st : Table) (h h' : List Bytes)
    (e : h.filter (dataFrame cfg) = h'.filter (dataFrame cfg)) :
    run cfg env st h = run cfg env st h' ∧
    (trace cfg env st h).filter (fun x => dataFrame cfg x.1) = (trace cfg env st h').filter (fun x => dataFrame cfg x.1) := by
  rw [← run_filter_data, ← run_filter_data cfg env st h', trace_filter_data, trace_filter_data, e]
  exact ⟨rfl, rfl⟩

/-! ### C08.3 non-interference -/

/-- per COOKIE, unconditionally: the entry of cookie `k` after a history is the entry after the
    sub-history of the delivered data segments whose cookie is `k` -/
theorem table_entry_by_cookie (cfg : Cfg) (env : Env) (h : List Bytes) (k : Nat) :
    (run cfg env [] h).get? k = (run cfg env [] (h.filter (keep cfg k))).get? k :=
  run_key cfg env k [] [] h rfl

/-- per COOKIE, unconditionally: reply and events of a frame after a history are those after the
    sub-history of the delivered data segments that have the frame's cookie -/
theorem noninterference_cookie (cfg : Cfg) (env : Env) (h : List Bytes) (f : Bytes) (k : Nat)
    (hc : frameCookie cfg f = some k) :
    (step cfg env (run cfg env [] h) f).out = (step cfg env (run cfg env [] (h.filter (keep cfg k))) f).out ∧
    (step cfg env (run cfg env [] h) f).evs = (step cfg env (run cfg env [] (h.filter (keep cfg k))) f).evs := by
  have := step_key env hc (run_key cfg env k [] [] h rfl)
  exact ⟨this.1, this.2.1⟩

/-- a frame without a flow cookie (not IP) is answered the same after any history -/
theorem noninterference_no_cookie (cfg : Cfg) (env : Env) (h h' : List Bytes) (f : Bytes)
    (hd : dataFrame cfg f = false) :
    (step cfg env (run cfg env [] h) f).out = (step cfg env (run cfg env [] h') f).out ∧
    (step cfg env (run cfg env [] h) f).evs = (step cfg env (run cfg env [] h') f).evs := by
  have := step_other env (run cfg env [] h) (run cfg env [] h') hd
  exact ⟨this.1, this.2.1⟩

/-- per FLOW, under cookie injectivity on the history and the frame: reply and events of `f` after `h`
    are those after `h` restricted to the ACCEPTED (answered) delivered data segments of the flow
    (source IP, destination IP, source port, destination port) of `f` -/
theorem noninterference_partial (cfg : Cfg) (env : Env) (h : List Bytes) (f : Bytes)
    (hinj : CookieInj cfg (h ++ [f])) :
    (step cfg env (run cfg env [] h) f).out = (step cfg env (run cfg env [] (ownAccepted cfg env f [] h)) f).out ∧
    (step cfg env (run cfg env [] h) f).evs = (step cfg env (run cfg env [] (ownAccepted cfg env f [] h)) f).evs := by
  cases hd : dataFrame cfg f with
  | false => exact noninterference_no_cookie cfg env _ _ f hd
  | true =>
    obtain ⟨k, hc⟩ := dataFrame_cookie hd
    have := step_key env hc (run_ownAccepted cfg env f k [] [] h (keep_eq_own hinj hd hc) rfl)
    exact ⟨this.1, this.2.1⟩

/-- the same with the restriction to ALL delivered data segments of the flow of `f` (a plain filter):
    the unaccepted ones do not change the entry -/
theorem noninterference_partial_filter (cfg : Cfg) (env : Env) (h : List Bytes) (f : Bytes)
    (hinj : CookieInj cfg (h ++ [f])) :
    (step cfg env (run cfg env [] h) f).out = (step cfg env (run cfg env [] (h.filter (own cfg f))) f).out ∧
    (step cfg env (run cfg env [] h) f).evs = (step cfg env (run cfg env [] (h.filter (own cfg f))) f).evs := by
  cases hd : dataFrame cfg f with
  | false => exact noninterference_no_cookie cfg env _ _ f hd
  | true =>
    obtain ⟨k, hc⟩ := dataFrame_cookie hd
    rw [← List.filter_congr (keep_eq_own hinj hd hc)]
    exact noninterference_cookie cfg env h f k hc

/-! ### C08.4 the unrestricted per-flow statement is false (K1: the table is keyed by the 32-bit cookie) -/
open C07ex C08ex

/-- the collision: flows A (1.2.3.4:34624 → 10.0.0.1:80) and B (1.2.3.5:9175 → 10.0.0.1:80) are distinct,
    both frames are delivered TCP data segments, and under key (0,0) they have the same cookie; B's
    frame is silent after the empty history and answered after one accepted data frame of flow A -/
theorem c08_collision :
    flowOf frameA ≠ flowOf frameB ∧ dataFrame cfg0 frameA = true ∧ dataFrame cfg0 frameB = true ∧
    frameCookie cfg0 frameA = some 1983115675 ∧ frameCookie cfg0 frameB = some 1983115675 ∧
    ¬ CookieInj cfg0 ([frameA] ++ [frameB]) ∧
    accepted (step cfg0 env0 [] frameA).out = true ∧
    ownAccepted cfg0 env0 frameB [] [frameA] = [] ∧
    accepted (step cfg0 env0 (run cfg0 env0 [] []) frameB).out = false ∧
    accepted (step cfg0 env0 (run cfg0 env0 [] [frameA]) frameB).out = true := by
  decide +kernel

/-- the unrestricted statement (`noninterference_partial` without `CookieInj`) is false -/
theorem c08_full_false :
    ¬ ∀ (cfg : Cfg) (env : Env) (h : List Bytes) (f : Bytes),
      (step cfg env (run cfg env [] h) f).out = (step cfg env (run cfg env [] (ownAccepted cfg env f [] h)) f).out := by
  intro hall
  have h := hall cfg0 env0 [frameA] frameB
  have c := c08_collision
  rw [c.2.2.2.2.2.2.2.1] at h
  have h1 := c.2.2.2.2.2.2.2.2.1
  have h2 := c.2.2.2.2.2.2.2.2.2
  rw [h, h1] at h2
  cases h2

/-! ### non-vacuity -/

/-- `step_frame_other`: ARP, SYN, ICMP echo, UDP and a data segment to a foreign MAC are not delivered
    TCP data segments (three of them are answered) -/
example : [frameArp, frameSyn, frameIcmp, frameUdp, frameAForeign].map (dataFrame cfg0) = [false, false, false, false, false] ∧
    [frameArp, frameSyn, frameIcmp, frameUdp, frameAForeign].map (fun g => accepted (step cfg0 env0 [] g).out) =
      [true, true, true, false, false] := by
  decide +kernel

/-- `step_frame` on a delivered data segment: the hypotheses hold for `frameA2` (flow A, cookie
    1983115675) with two different tables that agree at that cookie, and the frame is answered -/
example : frameCookie cfg0 frameA2 = some 1983115675 ∧ dataFrame cfg0 frameA2 = true ∧
    (run cfg0 env0 [] [frameA]).get? 1983115675 = (run cfg0 env0 [] [frameC, frameA]).get? 1983115675 ∧
    run cfg0 env0 [] [frameA] ≠ run cfg0 env0 [] [frameC, frameA] ∧
    accepted (step cfg0 env0 (run cfg0 env0 [] [frameA]) frameA2).out = true := by
  decide +kernel

/-- `CookieInj` holds for a mixed two-flow history (ARP, SYN, data of A, ICMP, data of C, UDP, an
    undelivered copy of A's data, more data of A) followed by a data frame of flow A … -/
theorem hist_inj : CookieInj cfg0 (hist ++ [frameA2]) := by decide +kernel

/-- … whose restriction to the accepted data segments of flow A is `[frameA, frameA2]` … -/
theorem hist_own : ownAccepted cfg0 env0 frameA2 [] hist = [frameA, frameA2] := by decide +kernel

/-- … and `noninterference_partial` instantiated on it: the reply to `frameA2` after the 8-frame history
    is the reply after `[frameA, frameA2]` (and it is answered) -/
example :
    (step cfg0 env0 (run cfg0 env0 [] hist) frameA2).out = (step cfg0 env0 (run cfg0 env0 [] [frameA, frameA2]) frameA2).out ∧
    accepted (step cfg0 env0 (run cfg0 env0 [] [frameA, frameA2]) frameA2).out = true := by
  refine ⟨?_, by decide +kernel⟩
  have := (noninterference_partial cfg0 env0 hist frameA2 hist_inj).1
  rw [hist_own] at this
  exact this

/-- `interleaving_invariance`: `hist` and its data-segment sub-history `[frameA, frameC, frameA2]` -/
example : hist.filter (dataFrame cfg0) = [frameA, frameC, frameA2].filter (dataFrame cfg0) := by decide +kernel

#print axioms step_frame_other
#print axioms data_frame_has_cookie
#print axioms step_frame
#print axioms non_tcp_traffic_is_invisible
#print axioms non_tcp_traffic_filter
#print axioms interleaving_invariance
#print axioms table_entry_by_cookie
#print axioms noninterference_cookie
#print axioms noninterference_no_cookie
#print axioms noninterference_partial
#print axioms noninterference_partial_filter
#print axioms c08_collision
#print axioms c08_full_false
#print axioms hist_inj
#print axioms hist_own

end Masscanned.C08
