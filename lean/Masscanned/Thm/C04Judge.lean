/-
  Thm/C04Judge — soundness of the run-time judge `Spec.judgeC04` with respect to the model:
  the judge never fails on an outcome the model can produce (`C04.reply_wf` in `Thm/C04.lean`).
-/
import Masscanned.Thm.C04
import Masscanned.Spec.Judge
namespace Masscanned.C04Judge
open Masscanned

/-- `judgeC04` accepts every outcome of the model: silence trivially, a reply because it is
    well-formed (`reply_wf`).  No hypothesis beyond the 6-byte MAC; `.ok` only excludes the
    inputs on which the model reports a Rust panic. -/
theorem judgeC04_accepts_model (cfg : Cfg) (env : Env) (st : Table) (f : Bytes) (o : Option Bytes)
    (hm : cfg.mac.length = 6) (h : (step cfg env st f).out = .ok o) :
    (Spec.judgeC04 o).ok = true := by
  cases o with
  | none => rfl
  | some r =>
    have hw := reply_wf cfg env st f r hm h
    simp [Spec.judgeC04, hw, Spec.pass]

/-- the judge along a whole history -/
theorem judgeC04_accepts_model_run (cfg : Cfg) (env : Env) (fs : List Bytes) (f : Bytes)
    (o : Option Bytes) (hm : cfg.mac.length = 6)
    (h : (step cfg env (run cfg env [] fs) f).out = .ok o) : (Spec.judgeC04 o).ok = true :=
  judgeC04_accepts_model cfg env _ f o hm h

/-! ### non-vacuity: the verdict on the model's answer to a concrete SYN / echo / NS is non-trivial,
    and the judge can fail -/

example : c04Cfg.mac.length = 6 := by decide
example : (match (step c04Cfg c04Env [] c04SynReq).out with
    | .ok o => (Spec.judgeC04 o).ok && (Spec.judgeC04 o).nontrivial
    | .error _ => false) = true := by decide +kernel
example : (match (step c04Cfg c04Env [] c04NsReq).out with
    | .ok o => (Spec.judgeC04 o).ok && (Spec.judgeC04 o).nontrivial
    | .error _ => false) = true := by decide +kernel
example : (Spec.judgeC04 (some c04IcmpRep)).nontrivial = true := by decide +kernel
-- the judge is not constantly `ok`: one corrupted checksum byte is refused
example : (Spec.judgeC04 (some (c04IcmpRep.set 36 0))).ok = false := by decide +kernel

end Masscanned.C04Judge

#print axioms Masscanned.C04Judge.judgeC04_accepts_model
#print axioms Masscanned.C04Judge.judgeC04_accepts_model_run
