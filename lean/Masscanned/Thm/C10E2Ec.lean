/-
  Thm/C10E2Ec — property C10 (second half) END TO END at FRAME level, TCP, first data segment of a
  flow: a deliverable TCP frame (IPv4 or IPv6) with PSH and ACK set, whose flow has no entry in the
  connection table, whose acknowledgement number is the flow's SYN cookie + 1, and whose payload is a
  valid request of one of the stream protocols (class `ReqT`) yields exactly one reply frame:
  well-formed (C04), mirroring addresses and ports (C03, offset 0), carrying a PSH|ACK segment with
  sequence number = the peer's acknowledgement number, acknowledgement number = the peer's sequence
  number + payload length (mod 2^32), data offset 5, and as payload the application reply judged
  correct by the protocol's Spec predicate; the flow is appended to the table, identified.

  Composition of Proofs/C12/Delivery, Proofs/Tcp (`tcpRepl_data`, `ackno_iff`), Proofs/E2E/FrameTcp,
  Thm/C10E2E, Thm/C03, Proofs/E2E/WfCopy.
-/
import Masscanned.Thm.C10E2Eb
import Masscanned.Proofs.E2E.FrameTcp
open Masscanned
namespace Masscanned.C10E2E
open Masscanned.Spec Masscanned.E2E

/-- The valid first-segment requests of Thm/C10E2E as one class: `ReqT env dst dport p J id` — the TCP
    payload `p` sent to (`dst`, `dport`) is a valid request of protocol `id`; `J a` = "`a` is a correct
    answer". -/
inductive ReqT (env : Env) (dst : Ip) (dport : Nat) (p : Bytes) : (Bytes → Prop) → Nat → Prop
  | http (h : strictRequest p = true) (hd : ∀ b ∈ env.httpDate, b ≠ 10 ∧ b ≠ 13)
      (hl : Texts.httpFixedLen + env.httpDate.length ≤ 65495) :
      ReqT env dst dport p (fun a => a = httpReplyBytes env ∧ reply401Ok a = true) PROTO_HTTP
  | ssh (h : sshAnswered p = true) : ReqT env dst dport p (fun a => a = sshBannerExpected) PROTO_SSH
  | ghost (h : "Gh0st".toUTF8.toList.isPrefixOf p = true) :
      ReqT env dst dport p (fun a => a = Gen.ghostReply ∧ ghostFrameOk a = true) PROTO_GHOST
  | rpc (c : RpcCall) (hl : 4 ≤ p.length) (hc : parseCall (p.drop 4) = some c) (hv : c.rpcvers < 256)
      (hprog : inPortmapRange c.prog = true) (hproc : c.proc < 256)
      (h0 : nineBytes.contains (p.getD 0 1) = false) (hx : p.getD 4 1 ≠ 0) :
      ReqT env dst dport p
        (fun a => ∃ body, recordMarkOk a = some body ∧ rpcReplyOk c body dst dport = true) PROTO_RPC_TCP
  | smb1 (m : Bytes) (req : Smb1Req) (hn : nbtBody p = some m) (h1 : u8 p 1 = 0)
      (hr : smb1Request m = some req) :
      ReqT env dst dport p (fun a => smb1ReplyOk m req a = true) PROTO_SMB1
  | smb2 (m : Bytes) (req : Smb2Req) (hn : nbtBody p = some m) (h1 : u8 p 1 = 0)
      (hr : smb2Request m = some req)
      (hcommon : ∀ ds, req = .negotiate ds → ds.any smb2Supported.contains = true) :
      ReqT env dst dport p (fun a => smb2ReplyOk m req a = true) PROTO_SMB2

/-- application interface, first segment of a flow, all stream protocols in one statement -/
theorem app_of_reqT (cfg : Cfg) (env : Env) (ci : ClientInfo) (dst : Ip) (dport : Nat) (p : Bytes)
    (J : Bytes → Prop) (id : Nat) (hg : Gate ci) (hdst : ci.ipDst = some dst)
    (hpd : ci.portDst = some dport) (hdp : dport < 65536) (h : ReqT env dst dport p J id) :
    ∃ t a, protoRepl cfg env ci (some {}) p = .ok (ci, some t, some a) ∧ J a ∧ t.protoId = id ∧
      a.length ≤ 65495 := by
  cases h with
  | http h hd hl =>
    obtain ⟨t, r, hr, he, hok, hid⟩ := (http_e2e cfg env ci p hg hd h).2.2
    refine ⟨t, r, hr, ⟨he, hok⟩, hid, ?_⟩
    rw [he, C01.httpReply_length]; omega
  | ssh h =>
    obtain ⟨t, hr, hid⟩ := (ssh_e2e cfg env ci p hg h).2.2
    refine ⟨t, _, hr, rfl, hid, ?_⟩
    have : sshBannerExpected.length = 11 := by decide +kernel
    omega
  | ghost h =>
    obtain ⟨_, _, ⟨t, hr, hid⟩, hok⟩ := ghost_e2e cfg env ci p hg h
    refine ⟨t, _, hr, ⟨rfl, hok⟩, hid, ?_⟩
    rw [C01.ghost_len]; omega
  | rpc c hl hc hv hprog hproc h0 hx =>
    obtain ⟨_, _, t, r, body, hr, hmark, hok, hid, hlen⟩ :=
      rpc_e2e_tcp cfg env ci p c dst dport hg hl hc hv hprog hproc h0 hx hdst hpd hdp
    exact ⟨t, r, hr, ⟨body, hmark, hok⟩, hid, by omega⟩
  | smb1 m req hn h1 hr =>
    obtain ⟨t, r, hrep, hok, hid, hlen⟩ := (smb1_e2e cfg env ci p m req hg hn h1 hr).2.2
    exact ⟨t, r, hrep, hok, hid, by omega⟩
  | smb2 m req hn h1 hr hcommon =>
    obtain ⟨t, r, hrep, hok, hid, hlen⟩ := (smb2_e2e cfg env ci p m req hg hn h1 hr hcommon).2.2
    exact ⟨t, r, hrep, hok, hid, by omega⟩

/-- **TCP, frame level, first data segment of a flow** (`tcp_first_segment_e2e`) -/
theorem tcp_first_segment_e2e (v6 : Bool) {cfg : Cfg} {env : Env} {st : Table} {f : Bytes}
    (hm : cfg.mac.length = 6) (hd : deliverable cfg f v6 6 20 = true)
    (hfl : tcpFlagsOf (l4Bytes f) / 8 % 2 = 1 ∧ tcpFlagsOf (l4Bytes f) / 16 % 2 = 1)
    (hnew : st.get? (Fr.ckOf cfg v6 f) = none)
    (hack : be32 (l4Bytes f) 8 = (Fr.ckOf cfg v6 f + 1) % 4294967296)
    {J : Bytes → Prop} {id : Nat}
    (hreq : ReqT env (dstOf v6 f) (be16 (l4Bytes f) 2) (tcpPayload (l4Bytes f)) J id) :
    ∃ r tcb, (step cfg env st f).out = .ok (some r) ∧ frameWf r = true ∧ mirrors cfg f r 0 = true ∧
      tcpFlagsOf (l4Bytes r) = PSH + ACK ∧ u8 (l4Bytes r) 12 / 16 = 5 ∧
      be32 (l4Bytes r) 4 = be32 (l4Bytes f) 8 ∧
      be32 (l4Bytes r) 8 = (be32 (l4Bytes f) 4 + tcpDataLen (l4Bytes f)) % 4294967296 ∧
      J ((l4Bytes r).drop 20) ∧
      (step cfg env st f).st = st ++ [(Fr.ckOf cfg v6 f, tcb)] ∧ tcb.protoId = id := by
  obtain ⟨hlen, hety, hproto, h20, -, -⟩ := Fr.deliverable_facts hd
  have hg : Gate (Fr.ciTcp cfg v6 f) := by simp [Fr.ciTcp]
  obtain ⟨t, a, ha, hJ, hid, hal⟩ := app_of_reqT cfg env (Fr.ciTcp cfg v6 f) (dstOf v6 f)
    (be16 (l4Bytes f) 2) (tcpPayload (l4Bytes f)) J id hg rfl rfl (Br.be16_lt' _ _) hreq
  obtain ⟨r, hr⟩ : ∃ r, Fr.TcpFirstOut cfg env st f v6 (Fr.ciTcp cfg v6 f) (some t) a r := by
    cases v6 with
    | false => exact Fr.tcp_first_v4 hm hd hfl hnew hack ha hal
    | true => exact Fr.tcp_first_v6 hm hd hfl hnew hack ha (by omega)
  refine ⟨r, t, hr.out, WfC.reply_wf cfg env st f r hm hr.out, ?_, hr.flags, hr.doff, hr.seq, hr.ack,
    by rw [hr.payload]; exact hJ, hr.table, hid⟩
  have hne : be16 f 12 ≠ 0x0806 := by rw [hety]; cases v6 <;> decide
  have htu : isTcpUdp f = true := by simp [isTcpUdp, hproto]
  obtain ⟨k', hk'⟩ : ∃ k', mirrors cfg f r k' = true := by
    rcases C03.reply_port_rule cfg env st f r hm hr.out with h | ⟨h, -⟩
    · exact ⟨0, h⟩
    · exact ⟨_, h⟩
  have e1 := Br.mirrors_port cfg f r k' hk' hne htu
  have e2 := Br.be16_l4Bytes r 0 (by rw [hr.len]; omega)
  have e3 := Br.be16_l4Bytes f 2 (by omega)
  have hp0 := hr.sport
  rw [Nat.add_zero] at e2
  simp only [Fr.ciTcp, Option.getD_some] at hp0
  have key : (be16 f (l4Off f + 2) + k') % 65536 = be16 f (l4Off f + 2) % 65536 := by
    rw [← e1, ← e2, hp0, e3]
  rw [Br.mirrors_congr cfg f r 0 k' (by rw [Nat.add_zero, key]), hk']

end Masscanned.C10E2E

/-! ### non-vacuity -/
namespace Masscanned.C10E2E
open Masscanned.Spec Masscanned.E2E

/-- 10.0.0.1:1234 → 10.0.0.2:80, PSH|ACK, seq 2, ack = cookie + 1 = 0x5eafb981 (keys 0/0, as in
    Thm/C04's `c04DataReq`), payload "GET / HTTP/1.0\r\n\r\n" -/
def tcp4Get : Bytes :=
  [2, 0, 0, 0, 0, 1, 2, 0, 0, 0, 0, 9, 8, 0,
   0x45, 0, 0, 58, 0, 0, 0, 0, 64, 6, 0, 0, 10, 0, 0, 1, 10, 0, 0, 2,
   0x04, 0xd2, 0, 80, 0, 0, 0, 2, 94, 175, 185, 129, 0x50, 0x18, 0xff, 0xff, 0, 0, 0, 0] ++
  "GET / HTTP/1.0\r\n\r\n".toUTF8.toList

example : deliverable C18.cfgE tcp4Get false 6 20 = true ∧
    (tcpFlagsOf (l4Bytes tcp4Get) / 8 % 2 = 1 ∧ tcpFlagsOf (l4Bytes tcp4Get) / 16 % 2 = 1) ∧
    Fr.ckOf C18.cfgE false tcp4Get = 0x5eafb980 ∧
    be32 (l4Bytes tcp4Get) 8 = (Fr.ckOf C18.cfgE false tcp4Get + 1) % 4294967296 ∧
    tcpPayload (l4Bytes tcp4Get) = "GET / HTTP/1.0\r\n\r\n".toUTF8.toList ∧
    strictRequest "GET / HTTP/1.0\r\n\r\n".toUTF8.toList = true ∧
    Table.get? [] (Fr.ckOf C18.cfgE false tcp4Get) = none := by decide +kernel

example : ∃ r tcb, (step C18.cfgE envD [] tcp4Get).out = .ok (some r) ∧ frameWf r = true ∧
    mirrors C18.cfgE tcp4Get r 0 = true ∧ tcpFlagsOf (l4Bytes r) = PSH + ACK ∧ u8 (l4Bytes r) 12 / 16 = 5 ∧
    be32 (l4Bytes r) 4 = be32 (l4Bytes tcp4Get) 8 ∧
    be32 (l4Bytes r) 8 = (be32 (l4Bytes tcp4Get) 4 + tcpDataLen (l4Bytes tcp4Get)) % 4294967296 ∧
    ((l4Bytes r).drop 20 = httpReplyBytes envD ∧ reply401Ok ((l4Bytes r).drop 20) = true) ∧
    (step C18.cfgE envD [] tcp4Get).st = [] ++ [(Fr.ckOf C18.cfgE false tcp4Get, tcb)] ∧
    tcb.protoId = PROTO_HTTP := by
  have e : tcpPayload (l4Bytes tcp4Get) = "GET / HTTP/1.0\r\n\r\n".toUTF8.toList := by decide +kernel
  have hfit : Texts.httpFixedLen + envD.httpDate.length ≤ 65495 := by
    have := Texts.httpFixed_le
    have : envD.httpDate.length = 31 := by decide +kernel
    omega
  exact tcp_first_segment_e2e false (cfg := C18.cfgE) (env := envD) (st := []) (f := tcp4Get) (by decide)
    (by decide +kernel) (by decide +kernel) (by decide +kernel) (by decide +kernel)
    (by rw [e]; exact ReqT.http (env := envD) (by decide +kernel) (by decide +kernel) hfit)

#print axioms app_of_reqT
#print axioms tcp_first_segment_e2e

end Masscanned.C10E2E
