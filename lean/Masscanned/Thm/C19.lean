/-
  C19 — "Whether an application payload is answered, by which protocol, and with which bytes does not
  depend on the source or destination port numbers, nor on whether it travelled over IPv4 or IPv6.  The
  only exceptions are fields that by specification carry an endpoint address (STUN MAPPED-ADDRESS,
  portmapper addresses/ports and netids, DNS A RDATA) and wall-clock timestamps."

  Vocabulary (Proofs/C19/Defs.lean): `masked k r` blanks the endpoint fields of a reply of kind `k`,
  `sameReply k o o'` / `sameUpToEndpoint o o'` compare two optional replies up to those fields,
  `protoId tcb d` is the protocol identification (no client info), `respond` the responder call,
  `Endpoints ci` = addresses and ports present and well-formed, `bump ci n` = local port moved by `n`.
  Wall-clock timestamps come from `env`, which is the same on both sides of every statement.
  The DNS mask delimits the names of a reply label by label (`nameEnd`, as the repaired responder and
  RFC 1035 do; before the repair of the DNS dissectors it was "up to the first 0x00" — with that reading
  `dns_reply_masked` is false of the repaired responder for a query with a 0x00 inside a label, see the
  `a\0b` example below).
-/
import Masscanned.Proofs.C19.Handle
import Masscanned.Proofs.Bytes
open Masscanned
namespace Masscanned.C19

/-! ### 1. the relation -/

/-- replies without endpoint fields must be byte-identical -/
theorem sameAs_plain (r r' : Bytes) : sameAs .plain r r' = true ↔ r = r' := by
  simp [sameAs, masked]

theorem sameReply_plain (o o' : Option Bytes) : sameReply .plain o o' = true ↔ o = o' := by
  cases o <;> cases o' <;> simp [sameReply, sameAs_plain]

/-- answered or not is part of every `sameReply k` -/
theorem sameReply_isSome {k : Kind} {o o' : Option Bytes} (h : sameReply k o o' = true) : o.isSome = o'.isSome := by
  cases o <;> cases o' <;> simp_all [sameReply]

theorem sameUpToEndpoint_of_sameReply {k : Kind} {o o' : Option Bytes} (h : sameReply k o o' = true) :
    sameUpToEndpoint o o' = true := by
  unfold sameUpToEndpoint
  cases k <;> simp [h]

theorem sameUpToEndpoint_isSome {o o' : Option Bytes} (h : sameUpToEndpoint o o' = true) : o.isSome = o'.isSome := by
  unfold sameUpToEndpoint at h
  simp only [Bool.or_eq_true] at h
  rcases h with (((h | h) | h) | h) | h <;> exact sameReply_isSome h

/-! ### 2. identification -/

/-- **C19.2** `proto::repl` is: refuse cookie-less TCP; otherwise identify the protocol from the control block and
    the payload ALONE (`protoId tcb d` has no client-info argument) and call the responder. -/
theorem proto_repl_factors (cfg : Cfg) (env : Env) (ci : ClientInfo) (tcb : Option Tcb) (d : Bytes) :
    protoRepl cfg env ci tcb d =
      if cookieless ci then .ok (ci, tcb, none)
      else match protoId tcb d with
        | .error e => .error e
        | .ok (id, t) => respond cfg env id ci t d := protoRepl_eq cfg env ci tcb d

/-- the responder call is the handler of `id`, except for datagrams no signature matched: DNS is tried first -/
theorem respond_stream (cfg : Cfg) (env : Env) (id : Nat) (ci : ClientInfo) (t : Tcb) (d : Bytes) :
    respond cfg env id ci (some t) d = protoHandle cfg env id ci (some t) d := by
  simp [respond]

theorem respond_matched (cfg : Cfg) (env : Env) (id : Nat) (hid : id ≠ noMatch) (ci : ClientInfo)
    (tcb : Option Tcb) (d : Bytes) :
    respond cfg env id ci tcb d = protoHandle cfg env id ci tcb d := by
  simp [respond, hid]

theorem respond_datagram_nomatch (cfg : Cfg) (env : Env) (ci : ClientInfo) (d : Bytes) :
    respond cfg env noMatch ci none d =
      match (dnsParse d).bind (dnsRepl ci) with
      | some r => .ok (ci, none, some r)
      | none => .ok (ci, none, none) := by
  unfold respond
  rw [if_pos ⟨rfl, rfl⟩, handle_other cfg env noMatch (.inr (by decide))]
  rfl

/-- **C19.2** two client infos with the same transport protocol and both with / both without a cookie: both are
    refused, or both reach the responder call with the SAME id and the same control block -/
theorem id_independent (cfg : Cfg) (env : Env) {ci ci' : ClientInfo} (ht : ci.transport = ci'.transport)
    (hc : ci.cookie.isSome = ci'.cookie.isSome) (tcb : Option Tcb) (d : Bytes) :
    (cookieless ci ∧ cookieless ci' ∧
      protoRepl cfg env ci tcb d = .ok (ci, tcb, none) ∧ protoRepl cfg env ci' tcb d = .ok (ci', tcb, none)) ∨
    (∃ e, protoId tcb d = .error e ∧
      protoRepl cfg env ci tcb d = .error e ∧ protoRepl cfg env ci' tcb d = .error e) ∨
    (∃ id t, protoId tcb d = .ok (id, t) ∧ (t = none ↔ tcb = none) ∧
      protoRepl cfg env ci tcb d = respond cfg env id ci t d ∧
      protoRepl cfg env ci' tcb d = respond cfg env id ci' t d) := by
  have hcc := cookieless_congr ht hc
  rw [protoRepl_eq, protoRepl_eq]
  by_cases h : cookieless ci
  · have h' := hcc.mp h
    rw [if_pos h, if_pos h']
    exact .inl ⟨h, h', rfl, rfl⟩
  · have h' : ¬ cookieless ci' := fun x => h (hcc.mpr x)
    rw [if_neg h, if_neg h']
    right
    cases hp : protoId tcb d with
    | error e => exact .inl ⟨e, rfl, rfl, rfl⟩
    | ok v =>
      obtain ⟨id, t⟩ := v
      exact .inr ⟨id, t, rfl, protoId_none hp, rfl, rfl⟩

/-! ### 3. the reply -/

/-- the kind of endpoint field the reply to `d` may carry — from the control block and the payload alone -/
def replyKind (tcb : Option Tcb) (d : Bytes) : Kind :=
  match protoId tcb d with
  | .ok (id, _) => kindOf id
  | .error _ => .plain

/-- the whole of C19 at `proto::repl`, as one relation between the two outcomes -/
theorem app_related (cfg : Cfg) (env : Env) {ci ci' : ClientInfo} (h : Endpoints ci) (h' : Endpoints ci')
    (ht : ci.transport = ci'.transport) (hc : ci.cookie.isSome = ci'.cookie.isSome)
    (tcb : Option Tcb) (d : Bytes) :
    Related (replyKind tcb d) ci ci' (protoRepl cfg env ci tcb d) (protoRepl cfg env ci' tcb d) := by
  rcases id_independent cfg env ht hc tcb d with ⟨_, _, h1, h2⟩ | ⟨e, _, h1, h2⟩ | ⟨id, t, hp, _, h1, h2⟩
  · rw [h1, h2]; exact .same h h' _ _
  · rw [h1, h2]; exact .err e
  · rw [h1, h2]
    have : replyKind tcb d = kindOf id := by simp [replyKind, hp]
    rw [this]
    exact respond_related cfg env id h h' t d


/-- **C19.3** (answered case).  `ci`, `ci'`: arbitrary well-formed endpoints (IPv4 or IPv6 addresses, ports in
    [0, 65535]), same transport protocol, both with or both without a cookie.  If the payload `d` on control
    block `tcb` gives `(c1, t1, r1)` for `ci`, it gives `(c2, t1, r2)` for `ci'` — the SAME control block — and
    (a) answered or not is the same; (b) the same responder produced both (`respond … id …` for the one
    `id` of `protoId tcb d`, unless both were refused as cookie-less TCP); (c) the replies agree outside the
    endpoint fields of that responder's kind, hence `sameUpToEndpoint`; (e) the local port moved by the
    same `k`, nothing else of the client info changed. -/
theorem app_reply_independent (cfg : Cfg) (env : Env) {ci ci' : ClientInfo} (h : Endpoints ci)
    (h' : Endpoints ci') (ht : ci.transport = ci'.transport) (hc : ci.cookie.isSome = ci'.cookie.isSome)
    (tcb : Option Tcb) (d : Bytes) {c1 : ClientInfo} {t1 : Option Tcb} {r1 : Option Bytes}
    (hr : protoRepl cfg env ci tcb d = .ok (c1, t1, r1)) :
    ∃ c2 r2 k, protoRepl cfg env ci' tcb d = .ok (c2, t1, r2) ∧
      r1.isSome = r2.isSome ∧
      ((cookieless ci ∧ cookieless ci' ∧ r1 = none ∧ r2 = none) ∨
        ∃ id t, protoId tcb d = .ok (id, t) ∧ kindOf id = replyKind tcb d ∧
          respond cfg env id ci t d = .ok (c1, t1, r1) ∧ respond cfg env id ci' t d = .ok (c2, t1, r2)) ∧
      sameReply (replyKind tcb d) r1 r2 = true ∧
      sameUpToEndpoint r1 r2 = true ∧
      c1 = bump ci k ∧ c2 = bump ci' k := by
  rcases app_related cfg env h h' ht hc tcb d with ⟨e, h1, _⟩ | ⟨t, r, r', n, h1, h2, hs⟩
  · rw [hr] at h1; cases h1
  · rw [hr] at h1
    simp only [Except.ok.injEq, Prod.mk.injEq] at h1
    obtain ⟨rfl, rfl, rfl⟩ := h1
    refine ⟨_, r', n, h2, sameReply_isSome hs, ?_, hs, sameUpToEndpoint_of_sameReply hs, rfl, rfl⟩
    rcases id_independent cfg env ht hc tcb d with ⟨a, b, h3, h4⟩ | ⟨e, _, h3, _⟩ | ⟨id, t, hp, _, h3, h4⟩
    · left
      rw [hr] at h3; rw [h2] at h4
      simp only [Except.ok.injEq, Prod.mk.injEq] at h3 h4
      exact ⟨a, b, h3.2.2, h4.2.2⟩
    · rw [hr] at h3; cases h3
    · right
      refine ⟨id, t, hp, by simp [replyKind, hp], ?_, ?_⟩
      · rw [← h3, hr]
      · rw [← h4, h2]

/-- **C19.3** (panic case): an `Except.error` for one client info is the same error for the other — no panic
    of the application layer depends on addresses or ports (`rpcBuild`'s `.arith` needs an absent address or
    port, which `Endpoints` excludes and layers 3–4 never produce). -/
theorem app_error_independent (cfg : Cfg) (env : Env) {ci ci' : ClientInfo} (h : Endpoints ci)
    (h' : Endpoints ci') (ht : ci.transport = ci'.transport) (hc : ci.cookie.isSome = ci'.cookie.isSome)
    (tcb : Option Tcb) (d : Bytes) (e : Site) :
    protoRepl cfg env ci tcb d = .error e ↔ protoRepl cfg env ci' tcb d = .error e := by
  rcases app_related cfg env h h' ht hc tcb d with ⟨e', h1, h2⟩ | ⟨t, r, r', n, h1, h2, _⟩
  · rw [h1, h2]
  · rw [h1, h2]; simp

/-- the only panic an absent endpoint adds (why `Endpoints` is a hypothesis): a portmapper call answered
    without a contacted address -/
theorem rpcBuild_needs_endpoint (s : RpcSt) (ci : ClientInfo) (e : Site) (h : rpcBuild s ci = .error e)
    : ci.ipDst = none ∨ ci.portDst = none := by
  cases h1 : ci.ipDst with
  | none => exact .inl rfl
  | some ip =>
    cases h2 : ci.portDst with
    | none => exact .inr rfl
    | some port =>
      obtain ⟨r, _, ha, _, _⟩ := rpcBuild_related s h1 h2 h1 h2
      rw [ha] at h; cases h

/-! ### 4. per responder -/

/-- responders of kind `plain` (HTTP, SSH, SMB1, SMB2, ghost, and ids nobody handles): byte-identical reply,
    same control block, client info untouched up to the common bump -/
theorem plain_reply_ignores_endpoint (cfg : Cfg) (env : Env) (id : Nat) (hk : kindOf id = .plain)
    {ci ci' : ClientInfo} (h : Endpoints ci) (h' : Endpoints ci') (tcb : Option Tcb) (d : Bytes) :
    (∃ e, protoHandle cfg env id ci tcb d = .error e ∧ protoHandle cfg env id ci' tcb d = .error e) ∨
    (∃ t r, protoHandle cfg env id ci tcb d = .ok (ci, t, r) ∧ protoHandle cfg env id ci' tcb d = .ok (ci', t, r)) := by
  have hid : id ≠ PROTO_STUN := by intro hx; subst hx; simp [kindOf, PROTO_STUN] at hk
  rcases protoHandle_related cfg env id h h' tcb d with ⟨e, h1, h2⟩ | ⟨t, r, r', n, h1, h2, hs⟩
  · exact .inl ⟨e, h1, h2⟩
  · right
    rw [hk, sameReply_plain] at hs
    subst hs
    -- only STUN bumps: read the client info off one side
    have hci : ∀ (c : ClientInfo) (x : ClientInfo × Option Tcb × Option Bytes),
        protoHandle cfg env id c tcb d = .ok x → x.1 = c := by
      intro c x hx
      unfold protoHandle at hx
      rw [if_neg hid] at hx
      repeat' split at hx
      all_goals first
        | (cases hx; done)
        | (cases hx; rfl)
        | (dsimp only at hx; split at hx <;> first | (cases hx; done) | (cases hx; rfl))
    have e1 := hci ci _ h1
    have e2 := hci ci' _ h2
    simp only at e1 e2
    rw [e1] at h1; rw [e2] at h2
    exact ⟨t, r, h1, h2⟩

theorem http_reply_ignores_endpoint (cfg : Cfg) (env : Env) {ci ci' : ClientInfo} (h : Endpoints ci)
    (h' : Endpoints ci') (tcb : Option Tcb) (d : Bytes) :
    (∃ e, protoHandle cfg env PROTO_HTTP ci tcb d = .error e ∧ protoHandle cfg env PROTO_HTTP ci' tcb d = .error e) ∨
    (∃ t r, protoHandle cfg env PROTO_HTTP ci tcb d = .ok (ci, t, r) ∧
      protoHandle cfg env PROTO_HTTP ci' tcb d = .ok (ci', t, r)) :=
  plain_reply_ignores_endpoint cfg env _ (by decide) h h' tcb d

theorem ssh_reply_ignores_endpoint (cfg : Cfg) (env : Env) {ci ci' : ClientInfo} (h : Endpoints ci)
    (h' : Endpoints ci') (tcb : Option Tcb) (d : Bytes) :
    (∃ e, protoHandle cfg env PROTO_SSH ci tcb d = .error e ∧ protoHandle cfg env PROTO_SSH ci' tcb d = .error e) ∨
    (∃ t r, protoHandle cfg env PROTO_SSH ci tcb d = .ok (ci, t, r) ∧
      protoHandle cfg env PROTO_SSH ci' tcb d = .ok (ci', t, r)) :=
  plain_reply_ignores_endpoint cfg env _ (by decide) h h' tcb d

theorem ghost_reply_ignores_endpoint (cfg : Cfg) (env : Env) (ci ci' : ClientInfo) (tcb : Option Tcb) (d : Bytes) :
    protoHandle cfg env PROTO_GHOST ci tcb d = .ok (ci, tcb, some Gen.ghostReply) ∧
    protoHandle cfg env PROTO_GHOST ci' tcb d = .ok (ci', tcb, some Gen.ghostReply) := by
  constructor <;> simp [protoHandle, PROTO_GHOST, PROTO_HTTP, PROTO_STUN, PROTO_SSH]

theorem smb_reply_ignores_endpoint (cfg : Cfg) (env : Env) (ci ci' : ClientInfo) (tcb : Option Tcb) (d : Bytes) :
    (protoHandle cfg env PROTO_SMB1 ci tcb d = .ok (ci, tcb, smb1Repl env d) ∧
     protoHandle cfg env PROTO_SMB1 ci' tcb d = .ok (ci', tcb, smb1Repl env d)) ∧
    (protoHandle cfg env PROTO_SMB2 ci tcb d = .ok (ci, tcb, smb2Repl env d) ∧
     protoHandle cfg env PROTO_SMB2 ci' tcb d = .ok (ci', tcb, smb2Repl env d)) := by
  refine ⟨⟨?_, ?_⟩, ?_, ?_⟩ <;>
    simp [protoHandle, PROTO_GHOST, PROTO_HTTP, PROTO_STUN, PROTO_SSH, PROTO_RPC_TCP, PROTO_RPC_UDP, PROTO_SMB1,
      PROTO_SMB2]


/-- STUN: the same decision (answer or not, panic or not), the same port bump `n` (number of change-port
    requests), and two Binding Success Responses that differ only in the length field and in what follows
    the MAPPED-ADDRESS attribute type -/
theorem stun_reply_masked {ci ci' : ClientInfo} (h : Endpoints ci) (h' : Endpoints ci') (d : Bytes) :
    (∃ e, stunRepl ci d = .error e ∧ stunRepl ci' d = .error e) ∨
    (∃ n r r', stunRepl ci d = .ok (bump ci n, r) ∧ stunRepl ci' d = .ok (bump ci' n, r') ∧
      sameReply .stun r r' = true) := by
  obtain ⟨a, ha, hw⟩ := h.src
  obtain ⟨p, hp, _⟩ := h.sport
  obtain ⟨a', ha', hw'⟩ := h'.src
  obtain ⟨p', hp', _⟩ := h'.sport
  rw [stunRepl_eq ha hp, stunRepl_eq ha' hp']
  cases hd : stunDecision d with
  | error e => exact .inl ⟨e, rfl, rfl⟩
  | ok o =>
    right
    cases o with
    | none => exact ⟨0, none, none, by rw [bump_zero h], by rw [bump_zero h'], rfl⟩
    | some v =>
      obtain ⟨id, n⟩ := v
      have hid := stunDecision_id_length hd
      refine ⟨n, _, _, rfl, rfl, ?_⟩
      simp only [sameReply, sameAs, masked_stun id hid a hw p, masked_stun id hid a' hw' p']
      simp

/-- ONC-RPC: never a panic with endpoints present; over UDP the replies differ only in the results of a
    successful call; over TCP additionally in the length of the record mark; same parser state afterwards -/
theorem rpc_reply_masked (ovf : Bool) {ci ci' : ClientInfo} (h : Endpoints ci) (h' : Endpoints ci') (d : Bytes) :
    ((∃ e, rpcReplUdp ovf ci d = .error e ∧ rpcReplUdp ovf ci' d = .error e) ∨
     (∃ o o', rpcReplUdp ovf ci d = .ok o ∧ rpcReplUdp ovf ci' d = .ok o' ∧ sameReply .rpc o o' = true)) ∧
    ∀ s, ((∃ e, rpcReplTcp ovf s ci d = .error e ∧ rpcReplTcp ovf s ci' d = .error e) ∨
     (∃ s' o o', rpcReplTcp ovf s ci d = .ok (s', o) ∧ rpcReplTcp ovf s ci' d = .ok (s', o') ∧
        sameReply .rpcTcp o o' = true)) := by
  obtain ⟨a, ha, _⟩ := h.dst
  obtain ⟨p, hp, _⟩ := h.dport
  obtain ⟨a', ha', _⟩ := h'.dst
  obtain ⟨p', hp', _⟩ := h'.dport
  exact ⟨rpcReplUdp_related ovf ha hp ha' hp' d, fun s => rpcReplTcp_related ovf s ha hp ha' hp' d⟩

/-- DNS: answered or not is the same, and the answers differ only in RDLENGTH+RDATA of the answer records
    (4 address bytes over IPv4, none over IPv6) -/
theorem dns_reply_masked {ci ci' : ClientInfo} (h : Endpoints ci) (h' : Endpoints ci') (d : Bytes) :
    sameReply .dns ((dnsParse d).bind (dnsRepl ci)) ((dnsParse d).bind (dnsRepl ci')) = true := by
  obtain ⟨a, ha, hw⟩ := h.dst
  obtain ⟨a', ha', hw'⟩ := h'.dst
  exact dns_related ha hw ha' hw' d

/-! ### 5. transport layers -/

/-- **C19.5 (UDP)** `udp::repl` looks at the port numbers only to record them in the client info: whatever they
    are, the payload `p.drop 8` goes to `proto::repl` as a datagram (`tcb = none`), a panic there is a panic here,
    and the datagram is answered iff the application answers, with that answer as payload.  (No hypothesis on
    `p`: layer 3 only calls this with at least the 8 header bytes.) -/
theorem udp_hands_up_unconditionally (cfg : Cfg) (env : Env) (ci : ClientInfo) (p : Bytes) :
    let ci0 := { ci with portSrc := some (rdBE (slice p 0 2)), portDst := some (rdBE (slice p 2 2)) }
    (∀ e, protoRepl cfg env ci0 none (p.drop 8) = .error e → udpRepl cfg env ci p = .error e) ∧
    (∀ c t r, protoRepl cfg env ci0 none (p.drop 8) = .ok (c, t, r) →
      ∃ evs, udpRepl cfg env ci p = .ok (evs, c, r.map (fun r =>
        u16be (c.portDst.getD 0) ++ u16be (c.portSrc.getD 0) ++ u16be ((8 + r.length) % 65536) ++ [0, 0] ++ r))) := by
  intro ci0
  constructor
  · intro e he
    unfold udpRepl
    simp only
    rw [he]
  · intro c t r hr
    unfold udpRepl
    simp only
    rw [hr]
    cases r with
    | none => exact ⟨_, rfl⟩
    | some r => exact ⟨_, rfl⟩


/-- the SYN cookie of the flow a segment belongs to -/
def tcpCookieOf (cfg : Cfg) (ci : ClientInfo) (p : Bytes) : Nat :=
  match ci.ipSrc, ci.ipDst with
  | some s, some d => cookie cfg.k0 cfg.k1 s d (rdBE (slice p 0 2)) (rdBE (slice p 2 2))
  | _, _ => 0

/-- **C19.5 (TCP)** an accepted data segment (PSH and ACK set; its flow is in the table, or it acknowledges the
    SYN cookie of its own addresses and ports) has its payload handed to `proto::repl` with the flow's control
    block (a fresh one for a new flow), whatever the port numbers are: they only enter the client info and the
    cookie.  A panic there is a panic here; otherwise a segment is sent back carrying the application's reply
    (empty for a bare ACK) after the 20-byte header. -/
theorem tcp_hands_up_unconditionally (cfg : Cfg) (env : Env) (st : Table) (ci : ClientInfo) (p : Bytes)
    (hpsh : tcpFlags p / 8 % 2 = 1) (hack : tcpFlags p / 16 % 2 = 1)
    (ck : Nat) (hck : ck = tcpCookieOf cfg ci p)
    (hacc : st.get? ck ≠ none ∨ ck = (if rdBE (slice p 8 4) > 0 then rdBE (slice p 8 4) - 1 else 4294967295)) :
    (∀ e, protoRepl cfg env { ci with portSrc := some (rdBE (slice p 0 2)), portDst := some (rdBE (slice p 2 2)),
                                      cookie := some ck }
            (some ((st.get? ck).getD {})) (tcpPayload p) = .error e →
          tcpRepl cfg env st ci p = .error e) ∧
    (∀ c t r, protoRepl cfg env { ci with portSrc := some (rdBE (slice p 0 2)), portDst := some (rdBE (slice p 2 2)),
                                          cookie := some ck }
            (some ((st.get? ck).getD {})) (tcpPayload p) = .ok (c, t, r) →
      ∃ evs st' hdr, tcpRepl cfg env st ci p = .ok (evs, c, st', some (hdr ++ r.getD [])) ∧ hdr.length = 20) := by
  obtain ⟨m1, m2, is, id, tr, ps, pd, co⟩ := ci
  rcases is with _ | s <;> rcases id with _ | d <;> simp only [tcpCookieOf] at hck <;> subst hck <;>
  ( unfold tcpRepl
    simp only
    rw [if_pos ⟨hpsh, hack⟩]
    cases hg : Table.get? st _ with
    | none =>
      rw [hg] at hacc
      have hacc' := hacc.resolve_left (fun h => h rfl)
      simp only [Option.getD_none]
      rw [if_neg (by intro hne; exact hne hacc')]
      constructor
      · intro e he; rw [he]
      · intro c t r hr
        rw [hr]
        cases r with
        | none => exact ⟨_, _, _, rfl, tcpHdr_length _ _ _ _ _⟩
        | some r => exact ⟨_, _, _, rfl, tcpHdr_length _ _ _ _ _⟩
    | some tcb =>
      simp only [Option.getD_some]
      constructor
      · intro e he; rw [he]
      · intro c t r hr
        rw [hr]
        cases r with
        | none => exact ⟨_, _, _, rfl, tcpHdr_length _ _ _ _ _⟩
        | some r => exact ⟨_, _, _, rfl, tcpHdr_length _ _ _ _ _⟩ )


/-- **C19 at the UDP layer**: two datagrams with the same payload, arbitrary port numbers in their headers,
    arbitrary (IPv4 or IPv6) addresses: both panic alike, or both are answered / both dropped, and the
    payloads of the two answers agree up to the endpoint fields. -/
theorem udp_reply_independent (cfg : Cfg) (env : Env) {ci ci' : ClientInfo}
    (hs : ∃ a, ci.ipSrc = some a ∧ wfIp a) (hd : ∃ a, ci.ipDst = some a ∧ wfIp a)
    (hs' : ∃ a, ci'.ipSrc = some a ∧ wfIp a) (hd' : ∃ a, ci'.ipDst = some a ∧ wfIp a)
    (ht : ci.transport = ci'.transport) (hc : ci.cookie.isSome = ci'.cookie.isSome)
    {p p' : Bytes} (hl : 8 ≤ p.length) (hl' : 8 ≤ p'.length) (hpl : p.drop 8 = p'.drop 8) :
    (∃ e, udpRepl cfg env ci p = .error e ∧ udpRepl cfg env ci' p' = .error e) ∨
    (∃ evs c o evs' c' o', udpRepl cfg env ci p = .ok (evs, c, o) ∧ udpRepl cfg env ci' p' = .ok (evs', c', o') ∧
      o.isSome = o'.isSome ∧ sameUpToEndpoint (o.map (·.drop 8)) (o'.map (·.drop 8)) = true) := by
  have E := endpoints_of_udp hs hd p hl
  have E' := endpoints_of_udp hs' hd' p' hl'
  obtain ⟨u1, u2⟩ := udp_hands_up_unconditionally cfg env ci p
  obtain ⟨u1', u2'⟩ := udp_hands_up_unconditionally cfg env ci' p'
  rw [← hpl] at u1' u2'
  rcases app_related cfg env E E' ht hc none (p.drop 8) with ⟨e, h1, h2⟩ | ⟨t, r, r', n, h1, h2, hsame⟩
  · exact .inl ⟨e, u1 e h1, u1' e h2⟩
  · right
    obtain ⟨evs, he⟩ := u2 _ _ _ h1
    obtain ⟨evs', he'⟩ := u2' _ _ _ h2
    refine ⟨_, _, _, _, _, _, he, he', ?_, ?_⟩
    · have := sameReply_isSome hsame
      simpa using this
    · have hu := sameUpToEndpoint_of_sameReply hsame
      cases r <;> cases r' <;> simp_all [u16be]


/-! ### non-vacuity -/

def exCfg : Cfg :=
  { mac := [2, 0, 0, 0, 0, 1], selfIps := none, deny := none, k0 := 1, k1 := 2, logger := .none, level := 0, ovf := true }
/-- "Tue, 29 Sep 2026 10:00:00 +0000" -/
def exEnv : Env :=
  { httpDate := [84, 117, 101, 44, 32, 50, 57, 32, 83, 101, 112, 32, 50, 48, 50, 54, 32, 49, 48, 58, 48, 48, 58, 48, 48,
                 32, 43, 48, 48, 48, 48],
    unixSecs := 1790676000 }

/-- IPv4, ports (1000, 80) -/
def ciA (proto : Nat) : ClientInfo :=
  { ipSrc := some (.v4 [198, 51, 100, 9]), ipDst := some (.v4 [192, 0, 2, 7]), transport := some proto,
    portSrc := some 1000, portDst := some 80, cookie := if proto = 6 then some 7 else none }
/-- IPv6, ports (0, 65535) -/
def ciB (proto : Nat) : ClientInfo :=
  { ipSrc := some (.v6 [0x20, 1, 0xd, 0xb8, 0, 0, 0, 0, 0, 0, 0, 0, 0, 0, 0, 9]),
    ipDst := some (.v6 [0x20, 1, 0xd, 0xb8, 0, 0, 0, 0, 0, 0, 0, 0, 0, 0, 0, 7]), transport := some proto,
    portSrc := some 0, portDst := some 65535, cookie := if proto = 6 then some 0xdeadbeef else none }

/-- the hypotheses of `app_reply_independent` hold for this pair (over TCP and over UDP) -/
example (proto : Nat) : Endpoints (ciA proto) ∧ Endpoints (ciB proto) ∧
    (ciA proto).transport = (ciB proto).transport ∧ (ciA proto).cookie.isSome = (ciB proto).cookie.isSome :=
  ⟨⟨⟨_, rfl, by decide⟩, ⟨_, rfl, by decide⟩, ⟨_, rfl, by decide⟩, ⟨_, rfl, by decide⟩⟩,
   ⟨⟨_, rfl, by decide⟩, ⟨_, rfl, by decide⟩, ⟨_, rfl, by decide⟩, ⟨_, rfl, by decide⟩⟩, rfl,
   by unfold ciA ciB; split <;> rfl⟩

/-- `GET / HTTP/1.1\r\nHost: a\r\n\r\n` -/
def httpReq : Bytes :=
  [71, 69, 84, 32, 47, 32, 72, 84, 84, 80, 47, 49, 46, 49, 13, 10, 72, 111, 115, 116, 58, 32, 97, 13, 10, 13, 10]
/-- Binding Request with CHANGE-REQUEST (change port) -/
def stunReq : Bytes :=
  [0, 1, 0, 8, 0x21, 0x12, 0xa4, 0x42, 1, 2, 3, 4, 5, 6, 7, 8, 9, 10, 11, 12,   0, 3, 0, 4, 0, 0, 0, 2]
/-- portmapper (100000) version 4, procedure 3 (GETADDR), xid 0x11223344, null credentials and verifier -/
def rpcReq : Bytes :=
  [0x11, 0x22, 0x33, 0x44, 0, 0, 0, 0, 0, 0, 0, 2, 0, 1, 0x86, 0xa0, 0, 0, 0, 4, 0, 0, 0, 3,
   0, 0, 0, 0, 0, 0, 0, 0, 0, 0, 0, 0, 0, 0, 0, 0]
/-- `www.example.com IN A` -/
def dnsReq : Bytes :=
  [0x12, 0x34, 1, 0, 0, 1, 0, 0, 0, 0, 0, 0,
   3, 119, 119, 119, 7, 101, 120, 97, 109, 112, 108, 101, 3, 99, 111, 109, 0,   0, 1, 0, 1]

/-- both runs answer, by the responder of kind `k`, with the same control block; the replies are
    `sameReply k` and `sameUpToEndpoint`; they are byte-identical iff `identical` -/
def agree (k : Kind) (proto : Nat) (tcb : Option Tcb) (p : Bytes) (identical : Bool) : Bool :=
  match protoRepl exCfg exEnv (ciA proto) tcb p, protoRepl exCfg exEnv (ciB proto) tcb p with
  | .ok (_, t1, some r1), .ok (_, t2, some r2) =>
    decide (t1 = t2) && decide (replyKind tcb p = k) && sameReply k (some r1) (some r2) &&
    sameUpToEndpoint (some r1) (some r2) && (decide (r1 = r2) == identical)
  | _, _ => false

example : agree .plain 6 (some {}) httpReq true = true := by decide +kernel
example : agree .stun 17 none stunReq false = true := by decide +kernel
example : agree .rpc 17 none rpcReq false = true := by decide +kernel
example : agree .dns 17 none dnsReq false = true := by decide +kernel
/-- the same portmapper call behind a record mark over TCP -/
example : agree .rpcTcp 6 (some {}) ([0x80, 0, 0, 40] ++ rpcReq) false = true := by decide +kernel


/-- the two STUN replies: length 12 / 24, family 1 / 2, port 1000 / 0, 4 / 16 address bytes; local port
    80 → 81 and 65535 → 0 (the same bump 1, mod 2^16) -/
def stunRepA : Bytes :=
  [1, 1, 0, 12, 0x21, 0x12, 0xa4, 0x42, 1, 2, 3, 4, 5, 6, 7, 8, 9, 10, 11, 12,   0, 1, 0, 8, 0, 1, 3, 232, 198, 51, 100, 9]
def stunRepB : Bytes :=
  [1, 1, 0, 24, 0x21, 0x12, 0xa4, 0x42, 1, 2, 3, 4, 5, 6, 7, 8, 9, 10, 11, 12,
   0, 1, 0, 20, 0, 2, 0, 0, 0x20, 1, 0xd, 0xb8, 0, 0, 0, 0, 0, 0, 0, 0, 0, 0, 0, 9]

example : (protoRepl exCfg exEnv (ciA 17) none stunReq).toOption = some (bump (ciA 17) 1, none, some stunRepA) ∧
    (protoRepl exCfg exEnv (ciB 17) none stunReq).toOption = some (bump (ciB 17) 1, none, some stunRepB) ∧
    (bump (ciA 17) 1).portDst = some 81 ∧ (bump (ciB 17) 1).portDst = some 0 := by decide +kernel

/-- what is left of both after blanking: `01 01`, the transaction id, the attribute type -/
example : masked .stun stunRepA = some [1, 1, 0x21, 0x12, 0xa4, 0x42, 1, 2, 3, 4, 5, 6, 7, 8, 9, 10, 11, 12, 0, 1] ∧
    masked .stun stunRepB = masked .stun stunRepA := by decide +kernel

/-- the two DNS replies: RDLENGTH 4 + the IPv4 address, RDLENGTH 0 over IPv6 -/
def dnsRepA : Bytes :=
  [0x12, 0x34, 0x85, 0, 0, 1, 0, 1, 0, 0, 0, 0,
   3, 119, 119, 119, 7, 101, 120, 97, 109, 112, 108, 101, 3, 99, 111, 109, 0,   0, 1, 0, 1,
   3, 119, 119, 119, 7, 101, 120, 97, 109, 112, 108, 101, 3, 99, 111, 109, 0,   0, 1, 0, 1, 0, 0, 168, 192,
   0, 4, 192, 0, 2, 7]
def dnsRepB : Bytes := dnsRepA.take 58 ++ [0, 0]

example : (protoRepl exCfg exEnv (ciA 17) none dnsReq).toOption = some (ciA 17, none, some dnsRepA) ∧
    (protoRepl exCfg exEnv (ciB 17) none dnsReq).toOption = some (ciB 17, none, some dnsRepB) ∧
    masked .dns dnsRepA = some (dnsRepA.take 58) ∧ masked .dns dnsRepB = some (dnsRepA.take 58) := by
  decide +kernel

/-- a DNS query whose label contains 0x00 (`a\0b IN A`) sent to two IPv4 addresses: both replies echo the
    name `03 61 00 62 00`, the mask keeps header, question, owner name/type/class/TTL of the answer and
    blanks RDLENGTH+RDATA; the replies are `sameReply .dns` although they differ (in the RDATA only) -/
example :
    let q : Bytes := [0x12, 0x34, 1, 0, 0, 1, 0, 0, 0, 0, 0, 0,   3, 0x61, 0, 0x62, 0,   0, 1, 0, 1]
    let r1 := (dnsParse q).bind (dnsRepl { ipDst := some (.v4 [10, 0, 0, 1]) })
    let r2 := (dnsParse q).bind (dnsRepl { ipDst := some (.v4 [10, 0, 0, 2]) })
    r1.bind (masked .dns) = some
      [0x12, 0x34, 0x85, 0, 0, 1, 0, 1, 0, 0, 0, 0,   3, 0x61, 0, 0x62, 0,   0, 1, 0, 1,
       3, 0x61, 0, 0x62, 0,   0, 1, 0, 1, 0, 0, 168, 192] ∧
    r1 ≠ r2 ∧ sameReply .dns r1 r2 = true ∧ sameUpToEndpoint r1 r2 = true := by
  decide +kernel

/-- **negative checks**: the relation rejects a difference in ANY byte outside the blanked fields — here the
    last byte of the STUN transaction id, the attribute type, the message type; the DNS id, a byte of the owner
    name of the answer, its TTL; a changed RPC xid or accept_stat; and an answered/unanswered mismatch -/
example :
    sameUpToEndpoint (some stunRepA) (some (stunRepB.set 19 13)) = false ∧
    sameUpToEndpoint (some stunRepA) (some (stunRepB.set 21 2)) = false ∧
    sameUpToEndpoint (some stunRepA) (some (stunRepB.set 1 17)) = false ∧
    sameUpToEndpoint (some dnsRepA) (some (dnsRepB.set 1 0x35)) = false ∧
    sameUpToEndpoint (some dnsRepA) (some (dnsRepB.set 34 120)) = false ∧
    sameUpToEndpoint (some dnsRepA) (some (dnsRepB.set 57 193)) = false ∧
    sameUpToEndpoint (some dnsRepA) none = false ∧
    (match rpcReplUdp true (ciA 17) rpcReq, rpcReplUdp true (ciB 17) rpcReq with
     | .ok (some a), .ok (some b) =>
       sameUpToEndpoint (some a) (some b) && !sameUpToEndpoint (some a) (some (b.set 3 0x45)) &&
       !sameUpToEndpoint (some a) (some (b.set 23 1)) && !sameUpToEndpoint (some a) (some (b.take 24))
     | _, _ => false) = true := by decide +kernel

/-- … while a difference inside a blanked field is accepted (another mapped address; another RDATA) -/
example :
    sameUpToEndpoint (some stunRepA) (some (stunRepA.set 31 10)) = true ∧
    sameUpToEndpoint (some dnsRepA) (some (dnsRepA.set 63 8)) = true ∧
    stunRepA.set 31 10 ≠ stunRepA ∧ dnsRepA.set 63 8 ≠ dnsRepA := by decide +kernel

/-- transport layers: a UDP datagram from port 1000 to port 80 and one from port 0 to port 65535 carrying
    `stunReq`, one over IPv4 and one over IPv6 — hypotheses of `udp_reply_independent` -/
example : (8 ≤ ([3, 232, 0, 80, 0, 36, 0, 0] ++ stunReq).length ∧ 8 ≤ ([0, 0, 255, 255, 0, 36, 0, 0] ++ stunReq).length) ∧
    ([3, 232, 0, 80, 0, 36, 0, 0] ++ stunReq).drop 8 = ([0, 0, 255, 255, 0, 36, 0, 0] ++ stunReq).drop 8 ∧
    (match udpRepl exCfg exEnv (ciA 17) ([3, 232, 0, 80, 0, 36, 0, 0] ++ stunReq),
           udpRepl exCfg exEnv (ciB 17) ([0, 0, 255, 255, 0, 36, 0, 0] ++ stunReq) with
     | .ok (_, _, some a), .ok (_, _, some b) => decide (a.drop 8 = stunRepA) && decide (b.drop 8 = stunRepB)
     | _, _ => false) = true := by decide +kernel


/-- a first data segment (PSH|ACK, ports 1000 → 80, acknowledging cookie + 1) carrying `httpReq`, over IPv4 -/
def tcpSeg : Bytes :=
  [3, 232, 0, 80,  0, 0, 0, 1,  145, 226, 234, 134,  0x50, 0x18, 255, 255, 0, 0, 0, 0] ++ httpReq

/-- hypotheses of `tcp_hands_up_unconditionally` for `tcpSeg` on an empty table, and its conclusion computed:
    the segment sent back carries the HTTP reply -/
example : tcpFlags tcpSeg / 8 % 2 = 1 ∧ tcpFlags tcpSeg / 16 % 2 = 1 ∧
    tcpCookieOf exCfg (ciA 6) tcpSeg = 2447567493 ∧
    (2447567493 = if rdBE (slice tcpSeg 8 4) > 0 then rdBE (slice tcpSeg 8 4) - 1 else 4294967295) ∧
    tcpPayload tcpSeg = httpReq ∧
    (match tcpRepl exCfg exEnv [] (ciA 6) tcpSeg, protoRepl exCfg exEnv (ciA 6) (some {}) httpReq with
     | .ok (_, _, _, some seg), .ok (_, _, some r) => decide (seg.drop 20 = r)
     | _, _ => false) = true := by decide +kernel


/-- the hypothesis "both with or both without a cookie" is needed: TCP data without a cookie is refused before any
    protocol is looked at (unreachable: `tcp::repl` always sets the cookie before handing data up) -/
example : (match protoRepl exCfg exEnv (ciA 6) (some {}) httpReq,
                 protoRepl exCfg exEnv { ciA 6 with cookie := none } (some {}) httpReq with
     | .ok (_, _, some _), .ok (_, _, none) => true
     | _, _ => false) = true := by decide +kernel

end Masscanned.C19

#print axioms Masscanned.C19.sameAs_plain
#print axioms Masscanned.C19.sameReply_isSome
#print axioms Masscanned.C19.sameUpToEndpoint_of_sameReply
#print axioms Masscanned.C19.sameUpToEndpoint_isSome
#print axioms Masscanned.C19.proto_repl_factors
#print axioms Masscanned.C19.respond_stream
#print axioms Masscanned.C19.respond_matched
#print axioms Masscanned.C19.respond_datagram_nomatch
#print axioms Masscanned.C19.id_independent
#print axioms Masscanned.C19.app_related
#print axioms Masscanned.C19.app_reply_independent
#print axioms Masscanned.C19.app_error_independent
#print axioms Masscanned.C19.rpcBuild_needs_endpoint
#print axioms Masscanned.C19.plain_reply_ignores_endpoint
#print axioms Masscanned.C19.http_reply_ignores_endpoint
#print axioms Masscanned.C19.ssh_reply_ignores_endpoint
#print axioms Masscanned.C19.ghost_reply_ignores_endpoint
#print axioms Masscanned.C19.smb_reply_ignores_endpoint
#print axioms Masscanned.C19.stun_reply_masked
#print axioms Masscanned.C19.rpc_reply_masked
#print axioms Masscanned.C19.dns_reply_masked
#print axioms Masscanned.C19.udp_hands_up_unconditionally
#print axioms Masscanned.C19.tcp_hands_up_unconditionally
#print axioms Masscanned.C19.udp_reply_independent
