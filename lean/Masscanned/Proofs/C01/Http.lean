/-
  Proofs/C01/Http — the HTTP parser never panics from any state it can have stored in a control
  block (`HttpInv`), and stores such a state again.  Generic part: on a well-formed compiled table
  with at most one id per row, `search_next` on a non-empty input consumes between 1 and all bytes.
-/
import Masscanned.Proofs.C10.HttpTbl
import Masscanned.Model.Http
import Masscanned.Proofs.Texts.Reply
namespace Masscanned.C01
open Masscanned Masscanned.C10

/-! ### generic: bytes consumed by `innerMatch` / `searchNext` -/

theorem innerMatch_bounds {T : SmackTbl} {N : Nat} (w : WF T N) (d : Bytes) :
    ∀ row idx, row < N → (d = [] → row < T.matchLimit) →
    ∃ i row', T.innerMatch row d idx = .ok (i, row') ∧ row' < N ∧
      ((row' < T.matchLimit ∧ i = idx + d.length) ∨
       (T.matchLimit ≤ row' ∧ idx ≤ i ∧ i < idx + d.length)) := by
  induction d with
  | nil =>
    intro row idx hr hl
    exact ⟨idx, row, rfl, hr, Or.inl ⟨hl rfl, by simp⟩⟩
  | cons b t ih =>
    intro row idx hr _
    rw [innerMatch_cons T row b t idx (w.idx_lt hr (u8_lt_258 b))]
    have hlt := w.mstep_lt hr (u8_lt_258 b)
    split
    · rename_i hge
      exact ⟨idx, _, rfl, hlt, Or.inr ⟨hge, Nat.le_refl _, by simp⟩⟩
    · rename_i hge
      obtain ⟨i, row', h1, h2, h3⟩ := ih (mstep T row b.toNat) (idx + 1) hlt (fun _ => by omega)
      refine ⟨i, row', h1, h2, ?_⟩
      simp only [List.length_cons]
      rcases h3 with ⟨a, b⟩ | ⟨a, b, c⟩
      · exact Or.inl ⟨a, by omega⟩
      · exact Or.inr ⟨a, by omega, by omega⟩

/-- from a row (no pending match) on a non-empty input: never an error, between 1 and `|d|` bytes
    consumed, and the new state is again a plain row -/
theorem searchNext_bounds {T : SmackTbl} {N : Nat} (w : WF T N) (hc : ∀ r, r < N → T.cnt r ≤ 1)
    (row : Nat) (hr : row < N) (d : Bytes) (hd : d ≠ []) :
    ∃ id row' n, T.searchNext row d = .ok (id, row', n) ∧ row' < N ∧ 1 ≤ n ∧ n ≤ d.length := by
  have hN := w.N_lt
  have hrow : row % 16777216 = row := by omega
  have hcm : row / 16777216 = 0 := by omega
  have hpos : 0 < d.length := List.length_pos_iff.2 hd
  obtain ⟨i, row', him, hr', hcase⟩ := innerMatch_bounds w d row 0 hr (fun h => absurd h hd)
  have hml : row' < T.matchLen := Nat.lt_of_lt_of_le hr' w.N_le
  unfold SmackTbl.searchNext
  simp only [hrow, hcm, him, if_true, hml]
  have hmi := w.match_iff row' hr'
  by_cases hc0 : T.cnt row' = 0
  · simp only [hc0, ne_eq, not_true_eq_false, if_false]
    refine ⟨noMatch, row', i, rfl, hr', ?_, ?_⟩ <;>
      (rcases hcase with ⟨a, b⟩ | ⟨a, b, c⟩ <;> omega)
  · simp only [ne_eq, hc0, not_false_eq_true, if_true, hml]
    have h1 : T.cnt row' = 1 := by have := hc row' hr'; omega
    have hlen := w.ids_len row' hr'
    have hlt : T.cnt row' - 1 < (T.ids row').length := by omega
    rw [List.getElem?_eq_getElem hlt]
    refine ⟨(T.ids row')[T.cnt row' - 1], row', i + 1, ?_, hr', by omega, ?_⟩
    · simp [h1]
    · rcases hcase with ⟨a, b⟩ | ⟨a, b, c⟩ <;> omega

/-! ### the HTTP parser from any stored state -/

/-- what every parser state stored in a control block satisfies: while the verb has not been found
    (START / VERB), the stored matcher state is a row of the verb matcher's table -/
def HttpInv (s : HttpSt) : Prop :=
  (s.state = .start ∨ s.state = .verb) → s.smackState < Gen.HttpSmack.nrows

theorem httpInv_init : HttpInv {} := fun _ => by decide

theorem http_cnt_le_one (r : Nat) (hr : r < Gen.HttpSmack.nrows) : httpTbl.cnt r ≤ 1 := by
  have := (allBelow_iff _ _).mp http_cnt_le_one_check r hr
  simpa using this

theorem httpVerbLoop_ok (fuel : Nat) : ∀ (ps : HttpSt) (d : Bytes) (pos : Nat),
    ps.smackState < Gen.HttpSmack.nrows → d.length < fuel →
    ∃ ps', httpVerbLoop fuel ps d pos = .ok ps' ∧ ps'.smackState < Gen.HttpSmack.nrows := by
  induction fuel with
  | zero => intro ps d pos _ hf; omega
  | succ fuel ih =>
    intro ps d pos hs hf
    rw [httpVerbLoop]
    by_cases hd : d = []
    · simp only [hd, if_true]; exact ⟨ps, rfl, hs⟩
    · obtain ⟨id, st', n, hsn, hst', hn1, hn2⟩ :=
        searchNext_bounds http_wf http_cnt_le_one ps.smackState hs d hd
      simp only [hd, if_false, hsn]
      have h1 : ¬ n > d.length := by omega
      have h2 : ¬ pos + n = 0 := by omega
      simp only [h1, h2, if_false]
      have hl : (d.drop n).length < fuel := by rw [List.length_drop]; omega
      split
      · exact ⟨_, rfl, hst'⟩
      · split
        · split
          · exact ⟨_, rfl, hst'⟩
          · exact ih _ _ _ hst' hl
        · exact ih _ _ _ hst' hl

theorem httpByte_past (s : HSt) (b : UInt8) (h : s ≠ .start ∧ s ≠ .verb) :
    httpByte s b ≠ .start ∧ httpByte s b ≠ .verb := by
  cases s <;> simp only [httpByte] <;> (try exact h) <;> (repeat' split) <;> simp at h ⊢

theorem httpFold_past (d : Bytes) : ∀ s : HSt, (s ≠ .start ∧ s ≠ .verb) →
    httpFold s d ≠ .start ∧ httpFold s d ≠ .verb := by
  induction d with
  | nil => intro s h; exact h
  | cons b t ih => intro s h; exact ih _ (httpByte_past s b h)

/-- `http_parse` never panics from a stored state and leaves a storable state -/
theorem httpParse_inv (ps : HttpSt) (d : Bytes) (h : HttpInv ps) :
    ∃ ps', httpParse ps d = .ok ps' ∧ HttpInv ps' := by
  unfold httpParse
  have verbCase : (ps.state = .start ∨ ps.state = .verb) →
      ∃ ps', (if d = [] then Except.ok ps
        else httpVerbLoop (2 * d.length + 300) { ps with state := .verb } d 0) = .ok ps' ∧ HttpInv ps' := by
    intro hsv
    by_cases hd : d = []
    · simp only [hd, if_true]; exact ⟨ps, rfl, h⟩
    · simp only [hd, if_false]
      obtain ⟨ps', h1, h2⟩ := httpVerbLoop_ok (2 * d.length + 300) { ps with state := .verb } d 0 (h hsv)
        (by omega)
      exact ⟨ps', h1, fun _ => h2⟩
  split
  · exact verbCase (Or.inl (by assumption))
  · exact verbCase (Or.inr (by assumption))
  · rename_i s hs1 hs2
    refine ⟨_, rfl, ?_⟩
    intro hsv
    have := httpFold_past d ps.state ⟨hs1, hs2⟩
    simp only at hsv
    rcases hsv with e | e
    · exact absurd e this.1
    · exact absurd e this.2

/-! ### the reply -/

/-- length of the response: the generated text (`Texts.httpFixedLen` bytes, date excluded) plus the date -/
theorem httpReply_length (env : Env) :
    (httpReplyBytes env).length = Texts.httpFixedLen + env.httpDate.length := Texts.httpReply_length env

/-- the bound used by C01: the generated text has at most 2000 bytes (`Texts.httpFixed_le`) -/
theorem httpReply_length_le (env : Env) : (httpReplyBytes env).length ≤ 2000 + env.httpDate.length :=
  Texts.httpReply_length_le env

theorem httpRepl_ok (env : Env) (ps : HttpSt) (d : Bytes) (h : HttpInv ps) :
    ∃ ps' r, httpRepl env ps d = .ok (ps', r) ∧ HttpInv ps' ∧
      ∀ x, r = some x → x.length ≤ 2000 + env.httpDate.length := by
  obtain ⟨ps', h1, h2⟩ := httpParse_inv ps d h
  unfold httpRepl
  rw [h1]
  by_cases hc : ps'.state = .content
  · -- answered: the stored state is reset to the initial one
    refine ⟨{}, some (httpReplyBytes env), by simp only [hc, if_true], httpInv_init, ?_⟩
    intro x hx
    cases hx; exact httpReply_length_le env
  · exact ⟨ps', none, by simp only [hc, if_false], h2, fun x hx => by cases hx⟩

end Masscanned.C01
