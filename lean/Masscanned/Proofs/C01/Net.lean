/-
  Proofs/C01/Net — layers 2–4: no layer panics on a frame of at most 4096 bytes, and the table
  invariant is preserved.
-/
import Masscanned.Proofs.C01.App
import Masscanned.Proofs.Tcp
namespace Masscanned.C01
open Masscanned

/-- the table invariant: every control block satisfies `TcbInv` -/
def Inv (st : Table) : Prop := ∀ e ∈ st, TcbInv e.2

theorem inv_nil : Inv [] := fun _ h => by cases h

theorem inv_get {st : Table} {k : Nat} {t : Tcb} (h : Inv st) (hg : st.get? k = some t) : TcbInv t := by
  unfold Table.get? at hg
  cases hf : st.find? (·.1 = k) with
  | none => rw [hf] at hg; cases hg
  | some e =>
    rw [hf] at hg
    simp only [Option.map_some, Option.some.injEq] at hg
    subst hg
    exact h e (List.mem_of_find?_eq_some hf)

theorem inv_append {st : Table} {k : Nat} {v : Tcb} (h : Inv st) (hv : TcbInv v) : Inv (st ++ [(k, v)]) := by
  intro e he
  rcases List.mem_append.1 he with h1 | h1
  · exact h e h1
  · simp only [List.mem_singleton] at h1; subst h1; exact hv

theorem inv_set {st : Table} {k : Nat} {v : Tcb} (h : Inv st) (hv : TcbInv v) : Inv (st.set k v) := by
  unfold Table.set
  split
  · intro e he
    obtain ⟨e0, h0, rfl⟩ := List.mem_map.1 he
    split
    · exact hv
    · exact h e0 h0
  · exact inv_append h hv

/-- result predicate: no panic (unless the side condition `C` on the configuration/environment
    fails), and `P` holds of the result -/
def OkOr {α : Type} (C : Prop) (P : α → Prop) : Except Site α → Prop
  | .ok a => P a
  | .error _ => ¬ C

theorem OkOr.elim_ok {α : Type} {C : Prop} {P : α → Prop} {x : Except Site α} {a : α}
    (h : OkOr C P x) (e : x = .ok a) : P a := by subst e; exact h

theorem OkOr.elim_err {α : Type} {C : Prop} {P : α → Prop} {x : Except Site α} {s : Site}
    (h : OkOr C P x) (e : x = .error s) : ¬ C := by subst e; exact h

/-- what layer 3 guarantees about the client information handed to layer 4 -/
structure CiL3 (ci : ClientInfo) : Prop where
  dst : ∃ ip, ci.ipDst = some ip
  dstLen : ipLen16 ci.ipDst
  srcLen : ipLen16 ci.ipSrc

theorem rdBE_lt2 (b : Bytes) (h : b.length ≤ 2) : rdBE b < 65536 := by
  match b, h with
  | [], _ => simp [rdBE]
  | [x], _ => have := x.toNat_lt; simp [rdBE]; omega
  | [x, y], _ => have := x.toNat_lt; have := y.toNat_lt; simp [rdBE]; omega

theorem rdBE_slice2_lt (p : Bytes) (i : Nat) : rdBE (slice p i 2) < 65536 :=
  rdBE_lt2 _ (slice_len_le p i 2)

theorem protoRepl_not_error {cfg : Cfg} {env : Env} {ci : ClientInfo} {tcb : Option Tcb} {d : Bytes} {e : Site}
    (h : protoRepl cfg env ci tcb d = .error e) (hci : CiOk ci) (hl : d.length ≤ 65535)
    (ht : ∀ t, tcb = some t → TcbInv t) : False := by
  obtain ⟨_, _, _, h1, _⟩ := protoRepl_ok cfg env ci tcb d hci hl ht
  rw [h1] at h; cases h

theorem protoRepl_ok_elim {cfg : Cfg} {env : Env} {ci ci' : ClientInfo} {tcb tcb' : Option Tcb} {d : Bytes}
    {r : Option Bytes}
    (h : protoRepl cfg env ci tcb d = .ok (ci', tcb', r)) (hci : CiOk ci) (hl : d.length ≤ 65535)
    (ht : ∀ t, tcb = some t → TcbInv t) :
    (∀ t, tcb' = some t → TcbInv t) ∧ ∀ x, r = some x → x.length ≤ 7 * d.length + 2000 + env.httpDate.length := by
  obtain ⟨_, _, _, h1, h2, h3⟩ := protoRepl_ok cfg env ci tcb d hci hl ht
  rw [h1] at h
  simp only [Except.ok.injEq, Prod.mk.injEq] at h
  obtain ⟨rfl, rfl, rfl⟩ := h
  exact ⟨h2, h3⟩

theorem tcpPayload_le (p : Bytes) : (tcpPayload p).length ≤ p.length := by
  unfold tcpPayload
  dsimp only
  split <;> simp

theorem getD_inv {o : Option Tcb} {t : Tcb} (h : ∀ t', o = some t' → TcbInv t') (ht : TcbInv t) :
    TcbInv (o.getD t) := by
  cases o with
  | none => exact ht
  | some t' => exact h t' rfl

/-! ### UDP -/

theorem udpRepl_ok (cfg : Cfg) (env : Env) (ci : ClientInfo) (p : Bytes) (hci : CiL3 ci)
    (hp : p.length ≤ 65535) :
    OkOr True (fun x => ∀ r, x.2.2 = some r → r.length ≤ 8 + (7 * p.length + 2000 + env.httpDate.length))
      (udpRepl cfg env ci p) := by
  obtain ⟨ip, hip⟩ := hci.dst
  have hCi : CiOk { ci with portSrc := some (rdBE (slice p 0 2)), portDst := some (rdBE (slice p 2 2)) } :=
    ⟨⟨ip, _, hip, rfl, rdBE_slice2_lt p 2⟩, hci.dstLen, hci.srcLen⟩
  have hl : (p.drop 8).length ≤ 65535 := by simp; omega
  have hl' : (p.drop 8).length ≤ p.length := by simp
  unfold udpRepl
  dsimp only
  split
  · rename_i e heq
    exact (protoRepl_not_error heq hCi hl (fun _ h => by cases h)).elim
  · intro r hr; cases hr
  · rename_i ci' _ r heq
    obtain ⟨_, h3⟩ := protoRepl_ok_elim heq hCi hl (fun _ h => by cases h)
    intro x hx
    simp only [Option.some.injEq] at hx
    subst hx
    have := h3 r rfl
    simp only [List.length_append, List.length_cons, List.length_nil, u16be]
    omega

/-! ### TCP -/

theorem tcpHdr_len (a b c d e : Nat) : (tcpHdr a b c d e).length = 20 := by
  simp [tcpHdr, u16be, u32be]

theorem nodataRes_len (cfg : Cfg) (ci : ClientInfo) (p x : Bytes) (h : (nodataRes cfg ci p).2 = some x) :
    x.length = 20 := by
  unfold nodataRes at h
  repeat' split at h
  all_goals simp only [Option.some.injEq, reduceCtorEq] at h
  all_goals subst h; simp only [List.length_append, tcpHdr_len, List.length_nil]

theorem dataOut_len (p : Bytes) (ci' : ClientInfo) (r : Option Bytes) (x : Bytes) (n : Nat)
    (hr : ∀ y, r = some y → y.length ≤ n) (h : dataOut p ci' r = some x) : x.length ≤ 20 + n := by
  unfold dataOut at h
  split at h
  · rename_i y
    simp only [Option.some.injEq] at h
    subst h
    have := hr y rfl
    simp only [List.length_append, tcpHdr_len]
    omega
  · simp only [Option.some.injEq] at h
    subst h
    simp only [List.length_append, tcpHdr_len, List.length_nil]
    omega

theorem tcpRepl_ok (cfg : Cfg) (env : Env) (st : Table) (ci : ClientInfo) (p : Bytes) (hinv : Inv st)
    (hci : CiL3 ci) (hp : p.length ≤ 65535) :
    OkOr True (fun x => Inv x.2.2.1 ∧
        ∀ r, x.2.2.2 = some r → r.length ≤ 20 + (7 * p.length + 2000 + env.httpDate.length))
      (tcpRepl cfg env st ci p) := by
  obtain ⟨ip, hip⟩ := hci.dst
  have hCi : CiOk (tcpCi2 cfg ci p) :=
    ⟨⟨ip, _, hip, rfl, rdBE_slice2_lt p 2⟩, hci.dstLen, hci.srcLen⟩
  have hl' := tcpPayload_le p
  have hl : (tcpPayload p).length ≤ 65535 := by omega
  by_cases hd : tcpFlags p / 8 % 2 = 1 ∧ tcpFlags p / 16 % 2 = 1
  · rw [tcpRepl_data cfg env st ci p hd]
    have fin : ∀ (ci' : ClientInfo) (r : Option Bytes),
        (∀ x, r = some x → x.length ≤ 7 * (tcpPayload p).length + 2000 + env.httpDate.length) →
        ∀ y, dataOut p ci' r = some y → y.length ≤ 20 + (7 * p.length + 2000 + env.httpDate.length) := by
      intro ci' r h3 y hy
      have := dataOut_len p ci' r y _ h3 hy
      omega
    split
    · rename_i hget
      split
      · exact ⟨hinv, fun r hr => by cases hr⟩
      · split
        · rename_i e heq
          exact (protoRepl_not_error heq hCi hl (fun t h => by cases h; exact tcbInv_init)).elim
        · rename_i ci' tcb' r heq
          obtain ⟨h2, h3⟩ := protoRepl_ok_elim heq hCi hl (fun t h => by cases h; exact tcbInv_init)
          have hst : Inv (st ++ [(tcpCk cfg ci p, tcb'.getD {})]) :=
            inv_append hinv (getD_inv h2 tcbInv_init)
          split
          · exact ⟨hst, fin ci' _ h3⟩
          · exact ⟨hst, fin ci' _ h3⟩
    · rename_i tcb hget
      have htcb : TcbInv tcb := inv_get hinv hget
      split
      · rename_i e heq
        exact (protoRepl_not_error heq hCi hl (fun t h => by cases h; exact htcb)).elim
      · rename_i ci' tcb' r heq
        obtain ⟨h2, h3⟩ := protoRepl_ok_elim heq hCi hl (fun t h => by cases h; exact htcb)
        have hst : Inv (st.set (tcpCk cfg ci p) (tcb'.getD tcb)) := inv_set hinv (getD_inv h2 htcb)
        split
        · exact ⟨hst, fin ci' _ h3⟩
        · exact ⟨hst, fin ci' _ h3⟩
  · rw [tcpRepl_nodata cfg env st ci p hd]
    refine ⟨hinv, ?_⟩
    intro r hr
    have := nodataRes_len cfg ci p r hr
    omega

end Masscanned.C01
