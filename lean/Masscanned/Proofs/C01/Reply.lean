/-
  Proofs/C01/Reply — every application reply of the model is short: bounds on the length of the
  replies of the DNS, SMB, STUN, ONC-RPC responders (HTTP: Proofs/C01/Http).
-/
import Masscanned.Proofs.C16.Glue
import Masscanned.Model.Dispatch
import Masscanned.Proofs.DnsFix.Raw
namespace Masscanned.C01
open Masscanned

/-! ### DNS: at most 7 output bytes per input byte -/

/-- the label-wise question reader consumes exactly the name it returns plus 4 octets (type, class) -/
theorem dnsReadQ_len (d acc : Bytes) (q : DnsQ) (rest : Bytes) (h : dnsReadQ acc d = some (q, rest)) :
    q.name.length + 4 + rest.length = acc.length + d.length ∧ 1 ≤ q.name.length := by
  obtain ⟨n, t, hraw, hn, hd, ht, hr, _, _⟩ := DnsFix.dnsReadQ_some h
  have := hraw.length_pos
  rw [hn, hd, hr]
  simp only [List.length_append, List.length_drop]
  omega

def ipLen16 (o : Option Ip) : Prop := ∀ ip, o = some ip → ip.bytes.length ≤ 16

theorem dnsAnswer_len (o : Option Ip) (ho : ipLen16 o) (q : DnsQ) :
    (dnsAnswer o q).length ≤ q.name.length + 26 := by
  unfold dnsAnswer
  rcases o with _ | ip
  · simp only [List.length_append, List.length_cons, List.length_nil, u32be, u16be]; omega
  · have := ho ip rfl
    cases ip <;>
      simp only [Ip.bytes, List.length_append, List.length_cons, List.length_nil, u32be, u16be] at this ⊢ <;> omega

theorem dnsReadQs_len (o : Option Ip) (ho : ipLen16 o) : ∀ (n : Nat) (d : Bytes) (qs : List DnsQ) (rest : Bytes),
    dnsReadQs n d = some (qs, rest) →
    (qs.map (fun q => q.name ++ [0, 1, 0, 1])).flatten.length + (qs.map (dnsAnswer o)).flatten.length
      + 7 * rest.length ≤ 7 * d.length := by
  intro n
  induction n with
  | zero =>
    intro d qs rest h
    simp only [dnsReadQs, Option.some.injEq, Prod.mk.injEq] at h
    obtain ⟨rfl, rfl⟩ := h
    simp
  | succ n ih =>
    intro d qs rest h
    rw [dnsReadQs] at h
    split at h
    · cases h
    · rename_i q r1 hq
      split at h
      · cases h
      · rename_i qs' r2 hqs
        simp only [Option.some.injEq, Prod.mk.injEq] at h
        obtain ⟨rfl, rfl⟩ := h
        have h1 := dnsReadQ_len d [] q r1 hq
        have h2 := ih r1 qs' r2 hqs
        have h3 := dnsAnswer_len o ho q
        simp only [List.map_cons, List.flatten_cons, List.length_append, List.length_cons, List.length_nil] at h1 ⊢
        omega

theorem dns_reply_len (ci : ClientInfo) (hci : ipLen16 ci.ipDst) (d : Bytes) (m : DnsMsg) (r : Bytes)
    (hp : dnsParse d = some m) (hr : dnsRepl ci m = some r) : r.length ≤ 7 * d.length := by
  unfold dnsParse at hp
  split at hp
  · cases hp
  · rename_i hlen
    dsimp only at hp
    split at hp
    · cases hp
    · rename_i qs rest hqs
      split at hp
      · cases hp
      · split at hp
        · cases hp
        · simp only [Option.some.injEq] at hp
          subst hp
          have h := dnsReadQs_len ci.ipDst hci _ _ _ _ hqs
          unfold dnsRepl at hr
          split at hr
          · cases hr
          · split at hr
            · simp only [Option.some.injEq] at hr
              subst hr
              simp only [List.length_append, List.length_cons, List.length_nil, u16be, List.length_drop] at h ⊢
              omega
            · cases hr

/-! ### SMB -/

theorem slice_len_le (p : Bytes) (o n : Nat) : (slice p o n).length ≤ n := by
  simp [slice]; omega

theorem nbtWrap_len (r : Bytes) : (nbtWrap r).length = 4 + r.length := by
  simp [nbtWrap, u16be]; omega

theorem smb1Payload_len (env : Env) (c : Nat) (p r : Bytes) (h : smb1Payload env c p = some r) :
    r.length ≤ 400 := by
  have hb : SECURITY_BLOB_NEG_PROTO.length = 320 := by decide +kernel
  have hc : SECURITY_BLOB_CHALLENGE.length = 159 := by decide +kernel
  unfold smb1Payload at h
  split at h
  · split at h
    · cases h
    · split at h
      · cases h
        simp only [smb1NegotiateReply, List.length_append, List.length_cons, List.length_nil, u16le, u32le, u64le,
          zeros, List.length_replicate, hb]
        omega
      · cases h
  · split at h
    · split at h
      · cases h
      · dsimp only at h
        split at h
        · cases h
          simp only [smb1SessionSetupReply, nativeOs, List.length_append, List.length_cons, List.length_nil, u16le, hc]
          omega
        · cases h
    · cases h

theorem smb1Repl_len (env : Env) (d r : Bytes) (h : smb1Repl env d = some r) : r.length ≤ 600 := by
  unfold smb1Repl at h
  split at h
  · rename_i m hm
    cases h
    rw [nbtWrap_len]
    unfold smb1Message at hm
    split at hm
    · cases hm
    · dsimp only at hm
      split at hm
      · cases hm
      · split at hm
        · cases hm
        · rename_i body hb
          cases hm
          have := smb1Payload_len _ _ _ _ hb
          have := slice_len_le (d.drop 4) 12 2
          have := slice_len_le (d.drop 4) 24 2
          have := slice_len_le (d.drop 4) 26 2
          have := slice_len_le (d.drop 4) 28 2
          have := slice_len_le (d.drop 4) 30 2
          simp only [List.length_append, List.length_cons, List.length_nil, u16le, u32le, zeros,
            List.length_replicate]
          omega
  · cases h

theorem smb2Payload_len (env : Env) (c : Nat) (p r : Bytes) (h : smb2Payload env c p = some r) :
    r.length ≤ 400 := by
  have hb : SECURITY_BLOB_NEG_PROTO.length = 320 := by decide +kernel
  have hc : SECURITY_BLOB_CHALLENGE.length = 159 := by decide +kernel
  unfold smb2Payload at h
  split at h
  · split at h
    · cases h
    · dsimp only at h
      split at h
      · cases h
      · split at h
        · cases h
        · split at h
          · cases h
          · cases h
            have := slice_len_le p 12 16
            simp only [smb2NegotiateReply, List.length_append, List.length_cons, List.length_nil, u16le, u32le, u64le,
              hb]
            omega
  · split at h
    · split at h
      · cases h
      · dsimp only at h
        split at h
        · cases h
          simp only [smb2SessionSetupReply, List.length_append, List.length_cons, List.length_nil, u16le, hc]
          omega
        · cases h
    · cases h

theorem smb2Repl_len (env : Env) (d r : Bytes) (h : smb2Repl env d = some r) : r.length ≤ 600 := by
  unfold smb2Repl at h
  split at h
  · rename_i m hm
    cases h
    rw [nbtWrap_len]
    unfold smb2Message at hm
    split at hm
    · cases hm
    · dsimp only at hm
      split at hm
      · cases hm
      · split at hm
        · cases hm
        · rename_i body hb
          cases hm
          have := smb2Payload_len _ _ _ _ hb
          have := slice_len_le (d.drop 4) 24 8
          have := slice_len_le (d.drop 4) 32 8
          have := slice_len_le (d.drop 4) 40 8
          simp only [List.length_append, List.length_cons, List.length_nil, u16le, u32le, zeros,
            List.length_replicate]
          omega
  · cases h

/-! ### STUN -/

theorem stunParse_id (d : Bytes) (req : StunReq) (h : stunParse d = .ok (some req)) : req.id = slice d 4 16 := by
  unfold stunParse at h
  split at h
  · cases h
  · dsimp only at h
    split at h
    · cases h
    · split at h
      · cases h
      · split at h
        · cases h
        · cases h; rfl

theorem stunRepl_len (ci ci' : ClientInfo) (hci : ipLen16 ci.ipSrc) (d r : Bytes)
    (h : stunRepl ci d = .ok (ci', some r)) : r.length ≤ 44 := by
  unfold stunRepl at h
  split at h
  · cases h
  · cases h
  · rename_i req hp
    have hid := stunParse_id d req hp
    split at h
    · cases h
    · split at h
      · cases h
      · split at h
        · rename_i ip port hip _
          simp only [Except.ok.injEq, Prod.mk.injEq, Option.some.injEq] at h
          obtain ⟨-, rfl⟩ := h
          have h1 := slice_len_le d 4 16
          have h2 := hci ip hip
          rw [hid]
          cases ip <;>
            simp only [stunMapped, Ip.bytes, List.length_append, List.length_cons, List.length_nil, u16be] at h2 ⊢ <;>
            omega
        · cases h

/-! ### ONC-RPC -/

theorem rpcBuild_len (s : RpcSt) (ci : ClientInfo) (ip : Ip) (port : Nat) (r : Bytes)
    (hip : ci.ipDst = some ip) (hport : ci.portDst = some port) (hp : port < 65536)
    (h : rpcBuild s ci = .ok r) : r.length ≤ 1200 := by
  open Masscanned.C16 in
  by_cases hv : s.progVersion < 2 ∨ s.progVersion > 4
  · rw [build_mismatch s ci hv] at h; cases h; simp [replyHdr_length]
  by_cases h0 : s.procedure = 0
  · rw [build_null s ci hv h0] at h; cases h; simp [replyHdr_length]
  by_cases hpr : s.program = 100000
  · rw [build_portmap s ci ip port hip hport hv h0 hpr] at h
    by_cases h3 : s.procedure = 3
    · by_cases h2 : s.progVersion = 2
      · have : rpcPortmap s ip port = .ok ([0, 0, 0, 0] ++ u32be port) := by
          unfold rpcPortmap; simp [h3, h2]
        rw [this] at h; cases h
        simp [replyHdr_length, u32be_length]
      · have h34 : s.progVersion = 3 ∨ s.progVersion = 4 := by omega
        have : rpcPortmap s ip port = .ok ([0, 0, 0, 0] ++ xdrString (uaddr ip port)) := by
          unfold rpcPortmap; simp [h3, h2, h34]
        rw [this] at h; cases h
        have hl := uaddr_len ip port hp
        simp only [List.length_append, replyHdr_length, xdrString_length, List.length_cons, List.length_nil]
        omega
    by_cases h4 : s.procedure = 4
    · by_cases h2 : s.progVersion = 2
      · rw [portmap_dump2 s ip port h4 h2] at h; cases h
        simp [replyHdr_length, pmEntry_length]
      · have h34 : s.progVersion = 3 ∨ s.progVersion = 4 := by omega
        rw [portmap_dump34 s ip port h4 h34] at h; cases h
        have hl := uaddr_len ip port hp
        have hn : (netidOf ip).length ≤ 4 := by
          have : "tcp".toUTF8.toList.length = 3 := by decide +kernel
          have : "tcp6".toUTF8.toList.length = 4 := by decide +kernel
          unfold netidOf; split <;> omega
        have ho := Texts.rpcOwner_le
        simp only [List.length_append, replyHdr_length, rpcbEntry_length, List.length_cons, List.length_nil]
        omega
    · have : rpcPortmap s ip port = .ok ([0, 0, 0, 3] ++ []) := by
        unfold rpcPortmap; simp [h3, h4]
      rw [this] at h; cases h
      simp [replyHdr_length]
  · rw [build_other s ci hv h0 hpr] at h; cases h; simp [replyHdr_length]

end Masscanned.C01
