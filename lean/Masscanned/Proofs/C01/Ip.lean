/-
  Proofs/C01/Ip — layers 3 and 2 and `reply()`: on a frame of at most 4096 bytes no layer panics
  (provided the date text is at most 64 bytes and the MAC address has 6 bytes), and the table
  invariant is preserved unconditionally.
-/
import Masscanned.Proofs.C01.Net
namespace Masscanned.C01
open Masscanned

/-- side conditions on the opaque inputs: the RFC 2822 date text is short (it is 31 bytes long),
    the configured MAC address has 6 bytes (it is a `MacAddr` in the Rust code) -/
def Cond (cfg : Cfg) (env : Env) : Prop := env.httpDate.length ≤ 64 ∧ cfg.mac.length = 6

theorem setU16_len_le (pkt : Bytes) (off v : Nat) : (setU16 pkt off v).length ≤ pkt.length + off + 2 := by
  simp [setU16, u16be]; omega

theorem ipv4Payload_le (p : Bytes) : (ipv4Payload p).length ≤ p.length := by
  unfold ipv4Payload; dsimp only; split <;> simp; omega

theorem ipv6Payload_le (p : Bytes) : (ipv6Payload p).length ≤ p.length := by
  unfold ipv6Payload; dsimp only; split <;> simp; omega

theorem icmp4Repl_len (ci : ClientInfo) (p : Bytes) (evs : List Ev) (r : Bytes)
    (h : icmp4Repl ci p = (evs, some r)) : r.length ≤ p.length + 4 := by
  simp only [icmp4Repl] at h
  repeat' split at h
  all_goals simp only [Prod.mk.injEq, Option.some.injEq, reduceCtorEq, and_false] at h
  obtain ⟨-, rfl⟩ := h
  simp

theorem icmp6Repl_len (cfg : Cfg) (ci : ClientInfo) (p : Bytes) (evs : List Ev) (r : Bytes) (tgt : Option Bytes)
    (h : icmp6Repl cfg ci p = (evs, some (r, tgt))) : r.length ≤ p.length + 26 + cfg.mac.length := by
  simp only [icmp6Repl] at h
  repeat' split at h
  all_goals simp only [Prod.mk.injEq, Option.some.injEq, reduceCtorEq, and_false] at h
  · obtain ⟨-, rfl, -⟩ := h
    have := slice_len_le p 8 16
    simp only [List.length_append, List.length_cons, List.length_nil]
    omega
  all_goals
    obtain ⟨-, rfl, -⟩ := h
    simp; omega

theorem ciL3_v4 (ci : ClientInfo) (p : Bytes) (t : Option Nat) :
    CiL3 { ci with ipSrc := some (.v4 (slice p 12 4)), ipDst := some (.v4 (slice p 16 4)), transport := t } := by
  refine ⟨⟨_, rfl⟩, ?_, ?_⟩
  · intro ip h; cases h; have := slice_len_le p 16 4; simp only [Ip.bytes]; omega
  · intro ip h; cases h; have := slice_len_le p 12 4; simp only [Ip.bytes]; omega

theorem ciL3_v6 (ci : ClientInfo) (p : Bytes) (t : Option Nat) :
    CiL3 { ci with ipSrc := some (.v6 (slice p 8 16)), ipDst := some (.v6 (slice p 24 16)), transport := t } := by
  refine ⟨⟨_, rfl⟩, ?_, ?_⟩
  · intro ip h; cases h; have := slice_len_le p 24 16; simp only [Ip.bytes]; omega
  · intro ip h; cases h; have := slice_len_le p 8 16; simp only [Ip.bytes]; omega

/-! ### IPv4 -/

theorem ipv4Repl_ok (cfg : Cfg) (env : Env) (st : Table) (ci : ClientInfo) (p : Bytes) (hinv : Inv st)
    (hp : p.length ≤ 4096) :
    OkOr (Cond cfg env) (fun x => Inv x.2.2.1) (ipv4Repl cfg env st ci p) := by
  have hpl := ipv4Payload_le p
  unfold ipv4Repl
  dsimp only
  generalize ipv4Payload p = pl at *
  split
  · exact hinv
  split
  · exact hinv
  split
  · -- ICMP
    split
    · exact hinv
    split
    · exact hinv
    · rename_i evs r heq
      have h1 := icmp4Repl_len _ _ _ _ heq
      have h2 := setU16_len_le r 2 (csumPlain r)
      split
      · intro _; omega
      · exact hinv
  split
  · -- TCP
    split
    · exact hinv
    have hl4 := tcpRepl_ok cfg env st _ pl hinv (ciL3_v4 ci p (some (at8 p 9))) (by omega)
    split
    · rename_i e heq
      exact fun _ => hl4.elim_err heq trivial
    · rename_i evs ci' st' heq
      exact (hl4.elim_ok heq).1
    · rename_i evs ci' st' r heq
      obtain ⟨hi, hb⟩ := hl4.elim_ok heq
      have h1 := hb r rfl
      have h2 := setU16_len_le r 16 (csumPseudo (slice p 16 4) (slice p 12 4) 6 r)
      split
      · intro hc; have := hc.1; omega
      · exact hi
  split
  · -- UDP
    split
    · exact hinv
    have hl4 := udpRepl_ok cfg env _ pl (ciL3_v4 ci p (some (at8 p 9))) (by omega)
    split
    · rename_i e heq
      exact fun _ => hl4.elim_err heq trivial
    · exact hinv
    · rename_i evs ci' r heq
      have h1 := hl4.elim_ok heq r rfl
      have h2 := setU16_len_le r 6 (csumPseudo (slice p 16 4) (slice p 12 4) 17 r)
      split
      · intro hc; have := hc.1; omega
      · split
        · intro hc; have := hc.1; omega
        · exact hinv
  · exact hinv

/-! ### IPv6 -/

theorem ipv6Repl_ok (cfg : Cfg) (env : Env) (st : Table) (ci : ClientInfo) (p : Bytes) (hinv : Inv st)
    (hp : p.length ≤ 4096) :
    OkOr (Cond cfg env) (fun x => Inv x.2.2.1) (ipv6Repl cfg env st ci p) := by
  have hpl := ipv6Payload_le p
  unfold ipv6Repl
  dsimp only
  generalize ipv6Payload p = pl at *
  split
  · exact hinv
  split
  · exact hinv
  split
  · -- ICMPv6
    split
    · exact hinv
    split
    · exact hinv
    · rename_i evs r tgt heq
      have h1 := icmp6Repl_len _ _ _ _ _ _ heq
      have h2 := setU16_len_le r 2 (csumPseudo (slice p 8 16) (tgt.getD (slice p 24 16)) 58 r)
      split
      · intro hc; have := hc.2; omega
      · exact hinv
  split
  · -- TCP
    split
    · exact hinv
    have hl4 := tcpRepl_ok cfg env st _ pl hinv (ciL3_v6 ci p (some (at8 p 6))) (by omega)
    split
    · rename_i e heq
      exact fun _ => hl4.elim_err heq trivial
    · rename_i evs ci' st' heq
      exact (hl4.elim_ok heq).1
    · rename_i evs ci' st' r heq
      obtain ⟨hi, hb⟩ := hl4.elim_ok heq
      have h1 := hb r rfl
      have h2 := setU16_len_le r 16 (csumPseudo (slice p 24 16) (slice p 8 16) 6 r)
      split
      · intro hc; have := hc.1; omega
      · exact hi
  split
  · -- UDP
    split
    · exact hinv
    have hl4 := udpRepl_ok cfg env _ pl (ciL3_v6 ci p (some (at8 p 6))) (by omega)
    split
    · rename_i e heq
      exact fun _ => hl4.elim_err heq trivial
    · exact hinv
    · rename_i evs ci' r heq
      have h1 := hl4.elim_ok heq r rfl
      have h2 : ∀ v, (setU16 r 6 v).length ≤ r.length + 6 + 2 := fun v => setU16_len_le r 6 v
      split
      · have := h2 65535
        split
        · intro hc; have := hc.1; omega
        · exact hinv
      · have := h2 (csumPseudo (slice p 24 16) (slice p 8 16) 17 r)
        split
        · intro hc; have := hc.1; omega
        · exact hinv
  · exact hinv

/-! ### Ethernet and `reply()` -/

theorem ethRepl_ok (cfg : Cfg) (env : Env) (st : Table) (f : Bytes) (hinv : Inv st) (hf : f.length ≤ 4096) :
    OkOr (Cond cfg env) (fun x => Inv x.2.1) (ethRepl cfg env st f) := by
  have hl : (f.drop 14).length ≤ 4096 := by simp; omega
  unfold ethRepl
  dsimp only
  split
  · exact hinv
  split
  · split
    · exact hinv
    split <;> exact hinv
  split
  · split
    · exact hinv
    have h3 := ipv4Repl_ok cfg env st { macSrc := some (slice f 6 6), macDst := some (slice f 0 6) } (f.drop 14)
      hinv hl
    split
    · rename_i e heq; exact h3.elim_err heq
    · rename_i evs ci' st' heq; exact h3.elim_ok heq
    · rename_i evs ci' st' r heq; exact h3.elim_ok heq
  split
  · split
    · exact hinv
    have h3 := ipv6Repl_ok cfg env st { macSrc := some (slice f 6 6), macDst := some (slice f 0 6) } (f.drop 14)
      hinv hl
    split
    · rename_i e heq; exact h3.elim_err heq
    · rename_i evs ci' st' heq; exact h3.elim_ok heq
    · rename_i evs ci' st' r heq; exact h3.elim_ok heq
  · exact hinv

theorem step_ok (cfg : Cfg) (env : Env) (st : Table) (f : Bytes) (hinv : Inv st) (hf : f.length ≤ 4096) :
    Inv (step cfg env st f).st ∧ (Cond cfg env → ∃ o, (step cfg env st f).out = .ok o) := by
  have h2 := ethRepl_ok cfg env st f hinv hf
  unfold step
  split
  · exact ⟨hinv, fun _ => ⟨none, rfl⟩⟩
  · split
    · rename_i e heq
      exact ⟨hinv, fun hc => absurd hc (h2.elim_err heq)⟩
    · rename_i evs st' r heq
      exact ⟨h2.elim_ok heq, fun _ => ⟨r, rfl⟩⟩

end Masscanned.C01
