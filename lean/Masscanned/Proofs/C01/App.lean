/-
  Proofs/C01/App — `proto::repl` never panics on a payload of at most 65535 bytes from a control
  block satisfying `TcbInv`, stores such a control block again, and its reply is short.
-/
import Masscanned.Proofs.C01.Http
import Masscanned.Proofs.C01.Reply
import Masscanned.Proofs.C10.Proto
import Masscanned.Thm.C15
import Masscanned.Thm.C16
import Masscanned.Thm.C18
namespace Masscanned.C01
open Masscanned

/-- invariant of one control block: the protocol matcher state is a valid state of `protoTbl`
    (`row + pending * 2^24`, `row < nrows`, `pending ≤ cnt row`), and a stored parser state has the
    type of the identified protocol and is a reachable state of that parser -/
structure TcbInv (t : Tcb) : Prop where
  smack : C10.ValidState protoTbl Gen.ProtoSmack.nrows t.smackState
  http : ∀ s, t.protoState = some (.http s) → t.protoId = PROTO_HTTP ∧ HttpInv s
  rpc : ∀ s, t.protoState = some (.rpc s) → t.protoId = PROTO_RPC_TCP ∧ C16.RpcInv s

theorem tcbInv_init : TcbInv {} :=
  ⟨⟨0, 0, rfl, by decide, Nat.zero_le _⟩, fun _ h => (by cases h), fun _ h => (by cases h)⟩

/-- what layers 3/4 guarantee about the client information handed to `proto::repl` -/
structure CiOk (ci : ClientInfo) : Prop where
  dst : ∃ ip port, ci.ipDst = some ip ∧ ci.portDst = some port ∧ port < 65536
  dstLen : ipLen16 ci.ipDst
  srcLen : ipLen16 ci.ipSrc

theorem rpcReplTcp_len (ovf : Bool) (s s' : RpcSt) (ci : ClientInfo) (ip : Ip) (port : Nat) (d x : Bytes)
    (hip : ci.ipDst = some ip) (hport : ci.portDst = some port) (hp : port < 65536)
    (h : rpcReplTcp ovf s ci d = .ok (s', some x)) : x.length ≤ 1204 := by
  unfold rpcReplTcp at h
  split at h
  · cases h
  · split at h
    · split at h
      · cases h
      · rename_i resp hb
        simp only [Except.ok.injEq, Prod.mk.injEq, Option.some.injEq] at h
        obtain ⟨-, rfl⟩ := h
        have := rpcBuild_len _ ci ip port resp hip hport hp hb
        simp only [List.length_append, List.length_cons, List.length_nil]
        omega
    · cases h

theorem rpcReplUdp_len (ovf : Bool) (ci : ClientInfo) (ip : Ip) (port : Nat) (d x : Bytes)
    (hip : ci.ipDst = some ip) (hport : ci.portDst = some port) (hp : port < 65536)
    (h : rpcReplUdp ovf ci d = .ok (some x)) : x.length ≤ 1200 := by
  unfold rpcReplUdp at h
  split at h
  · cases h
  · split at h
    · split at h
      · cases h
      · rename_i resp hb
        simp only [Except.ok.injEq, Option.some.injEq] at h
        subst h
        exact rpcBuild_len _ ci ip port _ hip hport hp hb
    · cases h

theorem ghost_len : Gen.ghostReply.length = 22 := by decide +kernel
theorem sshBanner_len : sshBanner.length = 11 := by decide +kernel

/-- the handler call: no panic, control block invariant kept, reply of at most 2000 bytes plus the
    length of the (opaque) HTTP date text -/
theorem protoHandle_ok (cfg : Cfg) (env : Env) (id : Nat) (ci : ClientInfo) (tcb : Option Tcb) (d : Bytes)
    (hci : CiOk ci) (hl : d.length ≤ 65535)
    (ht : ∀ t, tcb = some t → TcbInv t ∧ t.protoId = id) :
    ∃ ci' tcb' r, protoHandle cfg env id ci tcb d = .ok (ci', tcb', r) ∧
      (∀ t, tcb' = some t → TcbInv t) ∧ ∀ x, r = some x → x.length ≤ 2000 + env.httpDate.length := by
  obtain ⟨ip, port, hip, hport, hp⟩ := hci.dst
  have keep : ∀ t, tcb = some t → TcbInv t := fun t h => (ht t h).1
  unfold protoHandle
  by_cases h1 : id = PROTO_HTTP
  · rw [if_pos h1]
    cases tcb with
    | none =>
      obtain ⟨ps', r, hr, _, hlen⟩ := httpRepl_ok env {} d httpInv_init
      simp only [hr]
      exact ⟨ci, none, r, rfl, fun _ h => (by cases h), fun x hx => by have := hlen x hx; omega⟩
    | some t =>
      obtain ⟨hinv, hid⟩ := ht t rfl
      have hok : ∀ s, HttpInv s → t.protoState ≠ none ∨ True →
          ∃ ci' tcb' r, (match httpRepl env s d with
            | .error e => (Except.error e : Except Site (ClientInfo × Option Tcb × Option Bytes))
            | .ok (s', r) => .ok (ci, some { t with protoState := some (.http s') }, r)) = .ok (ci', tcb', r) ∧
            (∀ t, tcb' = some t → TcbInv t) ∧ ∀ x, r = some x → x.length ≤ 2000 + env.httpDate.length := by
        intro s hs _
        obtain ⟨ps', r, hr, hi', hlen⟩ := httpRepl_ok env s d hs
        simp only [hr]
        refine ⟨ci, _, r, rfl, ?_, fun x hx => by have := hlen x hx; omega⟩
        intro t' ht'
        cases ht'
        refine ⟨hinv.smack, ?_, ?_⟩
        · intro s2 h2
          simp only [Option.some.injEq, PState.http.injEq] at h2
          subst h2
          exact ⟨by rw [hid, h1], hi'⟩
        · intro s2 h2; simp at h2
      cases hps : t.protoState with
      | none => simp only [hps]; exact hok {} httpInv_init (Or.inr trivial)
      | some ps =>
        cases ps with
        | http s => simp only [hps]; exact hok s (hinv.http s hps).2 (Or.inr trivial)
        | rpc s =>
          have := (hinv.rpc s hps).1
          rw [hid, h1] at this
          exact absurd this (by decide)
  rw [if_neg h1]
  by_cases h2 : id = PROTO_STUN
  · rw [if_pos h2]
    obtain ⟨⟨ci', r⟩, hx⟩ := C15.stun_no_panic ci d hl
    simp only [hx]
    refine ⟨ci', tcb, r, rfl, keep, ?_⟩
    intro x hr
    subst hr
    have := stunRepl_len ci ci' hci.srcLen d x hx
    omega
  rw [if_neg h2]
  by_cases h3 : id = PROTO_SSH
  · rw [if_pos h3]
    rw [C18.sshRepl_eq]
    simp only []
    refine ⟨ci, tcb, _, rfl, keep, ?_⟩
    intro x hx
    split at hx
    · cases hx; rw [sshBanner_len]; omega
    · cases hx
  rw [if_neg h3]
  by_cases h4 : id = PROTO_GHOST
  · rw [if_pos h4]
    exact ⟨ci, tcb, _, rfl, keep, fun x hx => by cases hx; rw [ghost_len]; omega⟩
  rw [if_neg h4]
  by_cases h5 : id = PROTO_RPC_TCP
  · rw [if_pos h5]
    obtain ⟨hinit, _, _, _, htcp⟩ := C16.rpc_no_panic cfg.ovf ci ip port hip hport
    cases tcb with
    | none =>
      obtain ⟨s', r, hr, _⟩ := htcp {} d hinit
      simp only [hr]
      refine ⟨ci, none, r, rfl, fun _ h => (by cases h), ?_⟩
      intro x hx; subst hx
      have := rpcReplTcp_len _ _ _ ci ip port d x hip hport hp hr
      omega
    | some t =>
      obtain ⟨hinv, hid⟩ := ht t rfl
      have hok : ∀ s, C16.RpcInv s →
          ∃ ci' tcb' r, (match rpcReplTcp cfg.ovf s ci d with
            | .error e => (Except.error e : Except Site (ClientInfo × Option Tcb × Option Bytes))
            | .ok (s', r) => .ok (ci, some { t with protoState := some (.rpc s') }, r)) = .ok (ci', tcb', r) ∧
            (∀ t, tcb' = some t → TcbInv t) ∧ ∀ x, r = some x → x.length ≤ 2000 + env.httpDate.length := by
        intro s hs
        obtain ⟨s', r, hr, hi'⟩ := htcp s d hs
        simp only [hr]
        refine ⟨ci, _, r, rfl, ?_, ?_⟩
        · intro t' ht'
          cases ht'
          refine ⟨hinv.smack, ?_, ?_⟩
          · intro s2 h2; simp at h2
          · intro s2 h2
            simp only [Option.some.injEq, PState.rpc.injEq] at h2
            subst h2
            exact ⟨by rw [hid, h5], hi'⟩
        · intro x hx; subst hx
          have := rpcReplTcp_len _ _ _ ci ip port d x hip hport hp hr
          omega
      cases hps : t.protoState with
      | none => simp only [hps]; exact hok {} hinit
      | some ps =>
        cases ps with
        | rpc s => simp only [hps]; exact hok s (hinv.rpc s hps).2
        | http s =>
          have := (hinv.http s hps).1
          rw [hid, h5] at this
          exact absurd this (by decide)
  rw [if_neg h5]
  by_cases h6 : id = PROTO_RPC_UDP
  · rw [if_pos h6]
    obtain ⟨_, _, _, hudp, _⟩ := C16.rpc_no_panic cfg.ovf ci ip port hip hport
    obtain ⟨r, hr⟩ := hudp d
    simp only [hr]
    refine ⟨ci, tcb, r, rfl, keep, ?_⟩
    intro x hx; subst hx
    have := rpcReplUdp_len _ ci ip port d x hip hport hp hr
    omega
  rw [if_neg h6]
  by_cases h7 : id = PROTO_SMB1
  · rw [if_pos h7]
    exact ⟨ci, tcb, _, rfl, keep, fun x hx => by have := smb1Repl_len env d x hx; omega⟩
  rw [if_neg h7]
  by_cases h8 : id = PROTO_SMB2
  · rw [if_pos h8]
    exact ⟨ci, tcb, _, rfl, keep, fun x hx => by have := smb2Repl_len env d x hx; omega⟩
  rw [if_neg h8]
  refine ⟨ci, _, none, rfl, ?_, fun x hx => by cases hx⟩
  intro t' ht'
  cases tcb with
  | none => cases ht'
  | some t =>
    simp only [Option.map_some, Option.some.injEq] at ht'
    subst ht'
    obtain ⟨hinv, hid⟩ := ht t rfl
    refine ⟨hinv.smack, ?_, ?_⟩
    · intro s hs
      exact absurd ((hinv.http s hs).1) (by rw [hid]; exact h1)
    · intro s hs
      exact absurd ((hinv.rpc s hs).1) (by rw [hid]; exact h5)

/-- `proto::repl`: no panic, invariant kept, reply bounded -/
theorem protoRepl_ok (cfg : Cfg) (env : Env) (ci : ClientInfo) (tcb : Option Tcb) (d : Bytes)
    (hci : CiOk ci) (hl : d.length ≤ 65535)
    (ht : ∀ t, tcb = some t → TcbInv t) :
    ∃ ci' tcb' r, protoRepl cfg env ci tcb d = .ok (ci', tcb', r) ∧
      (∀ t, tcb' = some t → TcbInv t) ∧ ∀ x, r = some x → x.length ≤ 7 * d.length + 2000 + env.httpDate.length := by
  unfold protoRepl
  split
  · exact ⟨ci, tcb, none, rfl, ht, fun x hx => by cases hx⟩
  · cases tcb with
    | some t =>
      have hinv := ht t rfl
      simp only []
      split
      · rename_i hnone
        obtain ⟨id, st', n, hsn, hv⟩ := C10.searchNext_total C10.proto_wf t.smackState d hinv.smack
        simp only [hsn]
        obtain ⟨ci', tcb', r, h1, h2, h3⟩ := protoHandle_ok cfg env id ci
          (some { t with protoId := id, smackState := st' }) d hci hl (by
            intro t' ht'
            cases ht'
            refine ⟨⟨hv, ?_, ?_⟩, rfl⟩
            · intro s hs
              have := (hinv.http s hs).1
              rw [hnone] at this
              exact absurd this (by decide)
            · intro s hs
              have := (hinv.rpc s hs).1
              rw [hnone] at this
              exact absurd this (by decide))
        exact ⟨ci', tcb', r, h1, h2, fun x hx => by have := h3 x hx; omega⟩
      · obtain ⟨ci', tcb', r, h1, h2, h3⟩ := protoHandle_ok cfg env t.protoId ci (some t) d hci hl (by
          intro t' ht'; cases ht'; exact ⟨hinv, rfl⟩)
        exact ⟨ci', tcb', r, h1, h2, fun x hx => by have := h3 x hx; omega⟩
    | none =>
      simp only []
      obtain ⟨id, st', n, hsn, hv⟩ := C10.searchNext_total C10.proto_wf baseState d
        ⟨0, 0, rfl, by decide, Nat.zero_le _⟩
      simp only [hsn]
      have tail : ∀ id' : Nat, ∃ ci' tcb' r,
          (match (if id' = noMatch then
                    match dnsParse d with
                    | some m => dnsRepl ci m
                    | none => none
                  else none) with
            | some r => (Except.ok (ci, none, some r) : Except Site (ClientInfo × Option Tcb × Option Bytes))
            | none => protoHandle cfg env id' ci none d) = .ok (ci', tcb', r) ∧
          (∀ t, tcb' = some t → TcbInv t) ∧ ∀ x, r = some x → x.length ≤ 7 * d.length + 2000 + env.httpDate.length := by
        intro id'
        have hh := protoHandle_ok cfg env id' ci none d hci hl (fun _ h => by cases h)
        split
        · rename_i r hr
          refine ⟨ci, none, some r, rfl, fun _ h => (by cases h), ?_⟩
          intro x hx
          have hxr : r = x := Option.some.inj hx
          subst hxr
          split at hr
          · split at hr
            · rename_i m hm
              have := dns_reply_len ci hci.dstLen d m r hm hr
              omega
            · cases hr
          · cases hr
        · obtain ⟨ci', tcb', r, h1, h2, h3⟩ := hh
          exact ⟨ci', tcb', r, h1, h2, fun x hx => by have := h3 x hx; omega⟩
      by_cases hidn : id = noMatch
      · obtain ⟨id', st2, he⟩ := C10.searchNextEnd_total C10.proto_wf st' hv
        simp only [hidn, if_true, he]
        exact tail id'
      · simp only [hidn, if_false]
        obtain ⟨ci', tcb', r, h1, h2, h3⟩ :=
          protoHandle_ok cfg env id ci none d hci hl (fun _ h => by cases h)
        exact ⟨ci', tcb', r, h1, h2, fun x hx => by have := h3 x hx; omega⟩

end Masscanned.C01
