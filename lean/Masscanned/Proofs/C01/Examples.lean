/-
  Proofs/C01/Examples — concrete configuration, environment and frames for the non-vacuity examples
  of C01: an HTTP request split over two TCP segments of one flow, an ONC-RPC call on another flow.
-/
import Masscanned.Proofs.C01.Ip
import Masscanned.Proofs.C16.Glue
namespace Masscanned.C01ex
open Masscanned

def cfgE : Cfg :=
  { mac := [2, 0, 0, 0, 0, 1], selfIps := some [.v4 [10, 0, 0, 1]], deny := some [.v4 [6, 6, 6, 6]],
    k0 := 0x0706050403020100, k1 := 0x0f0e0d0c0b0a0908, logger := .logfmt, level := 3, ovf := true }

/-- the release profile (wrapping arithmetic) -/
def cfgR : Cfg := { cfgE with ovf := false }

def envE : Env := { httpDate := "Tue, 29 Sep 2026 10:00:00 +0000".toUTF8.toList, unixSecs := 1790676000 }

def srcA : Bytes := [1, 2, 3, 4]
def srcB : Bytes := [1, 2, 3, 5]
def dstIp : Bytes := [10, 0, 0, 1]

/-- Ethernet/IPv4/TCP PSH|ACK segment acknowledging the flow's cookie + 1 (valid first data) -/
def dataFrame (cfg : Cfg) (src : Bytes) (sport dport : Nat) (payload : Bytes) : Bytes :=
  let ack := (cookie cfg.k0 cfg.k1 (.v4 src) (.v4 dstIp) sport dport + 1) % 4294967296
  cfg.mac ++ [2, 0, 0, 0, 0, 9] ++ [8, 0] ++
  ([0x45, 0] ++ u16be (40 + payload.length) ++ [0, 0, 0x40, 0, 64, 6, 0, 0] ++ src ++ dstIp) ++
  (u16be sport ++ u16be dport ++ u32be 1 ++ u32be ack ++ [0x50, 0x18, 255, 255, 0, 0, 0, 0]) ++ payload

/-- "GET / HT" -/
def http1 : Bytes := [71, 69, 84, 32, 47, 32, 72, 84]
/-- "TP/1.0\r\n\r\n" -/
def http2 : Bytes := [84, 80, 47, 49, 46, 48, 13, 10, 13, 10]

def fA1 : Bytes := dataFrame cfgE srcA 40000 80 http1
def fA2 : Bytes := dataFrame cfgE srcA 40000 80 http2
/-- portmapper GETPORT v2 over TCP (record-marked) -/
def fB : Bytes := dataFrame cfgE srcB 40001 111 (C16.tcpMsg (C16.mkCall 0x11111111 100000 2 3))
/-- STUN binding request over UDP -/
def fStun : Bytes :=
  cfgE.mac ++ [2, 0, 0, 0, 0, 9] ++ [8, 0] ++
  ([0x45, 0] ++ u16be 48 ++ [0, 0, 0x40, 0, 64, 17, 0, 0] ++ srcA ++ dstIp) ++
  (u16be 5000 ++ u16be 3478 ++ u16be 28 ++ [0, 0]) ++ ([0, 1, 0, 0] ++ List.replicate 16 7)

def hist : List Bytes := [fA1, fStun, fB, fA2]

/-- flow C: the signature "GET /" arrives in two segments ("GET", then " /"), then "GE": the control
    block stores a match row of the protocol matcher and a FAIL state of the HTTP parser -/
def srcC : Bytes := [1, 2, 3, 6]
def fC1 : Bytes := dataFrame cfgE srcC 40002 80 [71, 69, 84]
def fC2 : Bytes := dataFrame cfgE srcC 40002 80 [32, 47]
def fC3 : Bytes := dataFrame cfgE srcC 40002 80 [71, 69]
def histC : List Bytes := [fC1, fC2, fC3]

/-- summary of a table: (protocol id, kind of stored parser state: 0 none, 1 HTTP, 2 RPC) -/
def summary (st : Table) : List (Nat × Nat) :=
  st.map (fun e => (e.2.protoId, match e.2.protoState with | none => 0 | some (.http _) => 1 | some (.rpc _) => 2))

def outLen (o : Except Site (Option Bytes)) : Option Nat :=
  match o with
  | .ok (some r) => some r.length
  | .ok none => some 0
  | .error _ => none

end Masscanned.C01ex
