/-
  Proofs/Bytes — bridging lemmas between the model's readers (`rdBE (slice p i n)`, `at8`)
  and the spec's readers (`Spec.be16/be32/u8`), and the fields of `tcpHdr`.
-/
import Masscanned.Model.Net
import Masscanned.Spec.L4
namespace Masscanned

theorem at8_eq_u8 (p : Bytes) (i : Nat) : at8 p i = Spec.u8 p i := rfl

theorem tcpFlags_eq_spec (p : Bytes) : tcpFlags p = Spec.tcpFlagsOf p := rfl

theorem u8_lt (p : Bytes) (i : Nat) : Spec.u8 p i < 256 := by
  unfold Spec.u8; exact (p.getD i 0).toNat_lt

theorem be16_lt (p : Bytes) (i : Nat) : Spec.be16 p i < 65536 := by
  have := u8_lt p i; have := u8_lt p (i + 1); unfold Spec.be16; omega

theorem be32_lt (p : Bytes) (i : Nat) : Spec.be32 p i < 4294967296 := by
  have := be16_lt p i; have := be16_lt p (i + 2); unfold Spec.be32; omega

theorem tcpFlags_lt (p : Bytes) : tcpFlags p < 512 := by
  have := u8_lt p 13; unfold tcpFlags; rw [at8_eq_u8, at8_eq_u8]; omega

theorem u8_drop (p : Bytes) (i j : Nat) : Spec.u8 (p.drop i) j = Spec.u8 p (i + j) := by
  simp [Spec.u8, List.getD_eq_getElem?_getD]

theorem rdBE_slice2 (p : Bytes) (i : Nat) (h : i + 2 ≤ p.length) :
    rdBE (slice p i 2) = Spec.be16 p i := by
  have e0 : Spec.u8 p i = Spec.u8 (p.drop i) 0 := by rw [u8_drop]; rfl
  have e1 : Spec.u8 p (i + 1) = Spec.u8 (p.drop i) 1 := by rw [u8_drop]
  unfold Spec.be16 slice
  rw [e0, e1]
  have hl : (p.drop i).length ≥ 2 := by simp; omega
  generalize p.drop i = q at hl
  match q, hl with
  | a :: b :: t, _ => simp [rdBE, Spec.u8]

theorem rdBE_slice4 (p : Bytes) (i : Nat) (h : i + 4 ≤ p.length) :
    rdBE (slice p i 4) = Spec.be32 p i := by
  have e0 : Spec.u8 p i = Spec.u8 (p.drop i) 0 := by rw [u8_drop]; rfl
  have e1 : Spec.u8 p (i + 1) = Spec.u8 (p.drop i) 1 := by rw [u8_drop]
  have e2 : Spec.u8 p (i + 2) = Spec.u8 (p.drop i) 2 := by rw [u8_drop]
  have e3 : Spec.u8 p (i + 2 + 1) = Spec.u8 (p.drop i) 3 := by rw [u8_drop]
  unfold Spec.be32 Spec.be16 slice
  rw [e0, e1, e2, e3]
  have hl : (p.drop i).length ≥ 4 := by simp; omega
  generalize p.drop i = q at hl
  match q, hl with
  | a :: b :: c :: d :: t, _ =>
    simp [rdBE, Spec.u8]
    have := a.toNat_lt; have := b.toNat_lt; have := c.toNat_lt; have := d.toNat_lt
    omega

theorem slice_eq_sub (p : Bytes) (i n : Nat) : slice p i n = Spec.sub p i n := rfl

theorem byte_toNat (n : Nat) : (byte n).toNat = n % 256 := by
  simp [byte]

/-! ### fields of a reply header -/

theorem tcpHdr_length (a b s k f : Nat) : (tcpHdr a b s k f).length = 20 := by
  simp [tcpHdr, u16be, u32be]

theorem tcpHdr_append_length (a b s k f : Nat) (pl : Bytes) :
    (tcpHdr a b s k f ++ pl).length = 20 + pl.length := by
  simp [tcpHdr_length]

theorem tcpHdr_flags (a b s k f : Nat) (pl : Bytes) (hf : f < 256) :
    Spec.tcpFlagsOf (tcpHdr a b s k f ++ pl) = f := by
  simp [tcpHdr, u16be, u32be, Spec.tcpFlagsOf, Spec.u8, byte_toNat]
  omega

theorem tcpHdr_seq (a b s k f : Nat) (pl : Bytes) :
    Spec.be32 (tcpHdr a b s k f ++ pl) 4 = s % 4294967296 := by
  simp [tcpHdr, u16be, u32be, Spec.be32, Spec.be16, Spec.u8, byte_toNat]
  omega

theorem tcpHdr_ack (a b s k f : Nat) (pl : Bytes) :
    Spec.be32 (tcpHdr a b s k f ++ pl) 8 = k % 4294967296 := by
  simp [tcpHdr, u16be, u32be, Spec.be32, Spec.be16, Spec.u8, byte_toNat]
  omega

theorem tcpPayload_length (p : Bytes) : (tcpPayload p).length = Spec.tcpDataLen p := by
  unfold tcpPayload Spec.tcpDataLen
  rw [at8_eq_u8]
  dsimp only
  split <;> simp

end Masscanned
