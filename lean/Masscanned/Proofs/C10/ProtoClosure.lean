/-
  Proofs/C10/ProtoClosure — the kernel-checked facts about the compiled protocol matcher
  `Gen.ProtoSmack.tbl` (regenerated from the running code on every run):
  range facts, and closure of the row annotation `annN` against `Spec.sigsK2`.
  `annN` is only a witness; regenerate it with `#eval annHex protoTbl sigsK2` if the table changes.
-/
import Masscanned.Gen.ProtoAnn
import Masscanned.Proofs.C10.Check
import Masscanned.Model.Dispatch
namespace Masscanned.C10
open Masscanned Masscanned.Spec

set_option maxRecDepth 100000

/-- row ↦ (position, alive signature indices), 128 bits per row (see `Check.annOf`) -/

theorem proto_wfCheck : wfCheck protoTbl Gen.ProtoSmack.nrows = true := by decide +kernel

theorem proto_rows_a : okRows protoTbl sigsK2 annN 0 10 = true := by decide +kernel
theorem proto_rows_b : okRows protoTbl sigsK2 annN 10 40 = true := by decide +kernel
theorem proto_rows_c : okRows protoTbl sigsK2 annN 50 40 = true := by decide +kernel
theorem proto_rows_d : okRows protoTbl sigsK2 annN 90 40 = true := by decide +kernel
theorem proto_rows_e : okRows protoTbl sigsK2 annN 130 40 = true := by decide +kernel

theorem proto_cnt_le_one_check :
    allBelow (fun r => Nat.ble (protoTbl.cnt r) 1) Gen.ProtoSmack.nrows = true := by decide +kernel

theorem proto_matchLimit : protoTbl.matchLimit = 170 := by decide

theorem proto_init : decodeR sigsK2 (annOf annN baseState) = sigsK2 := by decide +kernel

theorem proto_rout_init : rout sigsK2 = none := by decide +kernel

theorem sigsK2_ids : ∀ g ∈ sigsK2, 1 ≤ g.id ∧ g.id ≤ 8 := by decide +kernel

/-- the annotation of the protocol matcher, as reference states -/
def protoAR (row : Nat) : RState := decodeR sigsK2 (annOf annN row)

theorem proto_wf : WF protoTbl Gen.ProtoSmack.nrows := wf_of_check _ _ proto_wfCheck

theorem proto_closed : Closed protoTbl protoAR := by
  apply closed_of_okRows protoTbl sigsK2 annN [(0, 10), (10, 40), (50, 40), (90, 40), (130, 40)]
  · intro p hp
    simp only [List.mem_cons, List.not_mem_nil, or_false] at hp
    rcases hp with rfl | rfl | rfl | rfl | rfl
    · exact proto_rows_a
    · exact proto_rows_b
    · exact proto_rows_c
    · exact proto_rows_d
    · exact proto_rows_e
  · intro row hr
    rw [proto_matchLimit] at hr
    by_cases h1 : row < 10
    · exact ⟨(0, 10), by simp, by simp, by simpa using h1⟩
    by_cases h2 : row < 50
    · exact ⟨(10, 40), by simp, by simp; omega, by simp; omega⟩
    by_cases h3 : row < 90
    · exact ⟨(50, 40), by simp, by simp; omega, by simp; omega⟩
    by_cases h4 : row < 130
    · exact ⟨(90, 40), by simp, by simp; omega, by simp; omega⟩
    · exact ⟨(130, 40), by simp, by simp; omega, by simp; omega⟩

end Masscanned.C10
