/-
  Proofs/C10/ProtoClosure — the kernel-checked facts about the compiled protocol matcher
  `Gen.ProtoSmack.tbl` (regenerated from the running code on every run):
  range facts, and closure of the row annotation `annN` against `Spec.sigsK2`.
  Nothing here depends on the number of rows or the match limit of the compiled table.
  `annN` is only a witness; regenerate it with `#eval annHex protoTbl sigsK2` if the table changes.
-/
import Masscanned.Gen.ProtoAnn
import Masscanned.Proofs.C10.Check
import Masscanned.Model.Dispatch
namespace Masscanned.C10
open Masscanned Masscanned.Spec

set_option maxRecDepth 100000

/-- row ↦ (position, alive signature indices), 128 bits per row (see `Check.annOf`) -/

theorem proto_wfCheck : wfCheck protoTbl Gen.ProtoSmack.nrows = true := by decide +kernel

/-- the non-match rows are checked in blocks (one kernel evaluation each, to keep every lemma fast);
    the block bounds are computed from the generated `matchLimit`, no row count is written down:
    blocks of 40 rows up to row 250, one last block for whatever is left -/
abbrev ML : Nat := protoTbl.matchLimit

theorem proto_rows_a : okRows protoTbl sigsK2 annN 0 (min 10 ML) = true := by decide +kernel
theorem proto_rows_b : okRows protoTbl sigsK2 annN 10 (min 40 (ML - 10)) = true := by decide +kernel
theorem proto_rows_c : okRows protoTbl sigsK2 annN 50 (min 40 (ML - 50)) = true := by decide +kernel
theorem proto_rows_d : okRows protoTbl sigsK2 annN 90 (min 40 (ML - 90)) = true := by decide +kernel
theorem proto_rows_e : okRows protoTbl sigsK2 annN 130 (min 40 (ML - 130)) = true := by decide +kernel
theorem proto_rows_f : okRows protoTbl sigsK2 annN 170 (min 40 (ML - 170)) = true := by decide +kernel
theorem proto_rows_g : okRows protoTbl sigsK2 annN 210 (min 40 (ML - 210)) = true := by decide +kernel
theorem proto_rows_h : okRows protoTbl sigsK2 annN 250 (ML - 250) = true := by decide +kernel

theorem proto_cnt_le_one_check :
    allBelow (fun r => Nat.ble (protoTbl.cnt r) 1) Gen.ProtoSmack.nrows = true := by decide +kernel

theorem proto_base_lt : baseState < protoTbl.matchLimit := by decide

theorem proto_init : decodeR sigsK2 (annOf annN baseState) = sigsK2 := by decide +kernel

theorem proto_rout_init : rout sigsK2 = none := by decide +kernel

theorem sigsK2_ids : ∀ g ∈ sigsK2, 1 ≤ g.id ∧ g.id ≤ 8 := by decide +kernel

/-- the annotation of the protocol matcher, as reference states -/
def protoAR (row : Nat) : RState := decodeR sigsK2 (annOf annN row)

theorem proto_wf : WF protoTbl Gen.ProtoSmack.nrows := wf_of_check _ _ proto_wfCheck

theorem proto_closed : Closed protoTbl protoAR := by
  apply closed_of_okRows protoTbl sigsK2 annN
    [(0, min 10 ML), (10, min 40 (ML - 10)), (50, min 40 (ML - 50)), (90, min 40 (ML - 90)),
     (130, min 40 (ML - 130)), (170, min 40 (ML - 170)), (210, min 40 (ML - 210)), (250, ML - 250)]
  · intro p hp
    simp only [List.mem_cons, List.not_mem_nil, or_false] at hp
    rcases hp with rfl | rfl | rfl | rfl | rfl | rfl | rfl | rfl
    · exact proto_rows_a
    · exact proto_rows_b
    · exact proto_rows_c
    · exact proto_rows_d
    · exact proto_rows_e
    · exact proto_rows_f
    · exact proto_rows_g
    · exact proto_rows_h
  · intro row hr
    have hr' : row < ML := hr
    by_cases h1 : row < 10
    · exact ⟨(0, min 10 ML), by simp, by simp, by simp only; omega⟩
    by_cases h2 : row < 50
    · exact ⟨(10, min 40 (ML - 10)), by simp, by simp only; omega, by simp only; omega⟩
    by_cases h3 : row < 90
    · exact ⟨(50, min 40 (ML - 50)), by simp, by simp only; omega, by simp only; omega⟩
    by_cases h4 : row < 130
    · exact ⟨(90, min 40 (ML - 90)), by simp, by simp only; omega, by simp only; omega⟩
    by_cases h5 : row < 170
    · exact ⟨(130, min 40 (ML - 130)), by simp, by simp only; omega, by simp only; omega⟩
    by_cases h6 : row < 210
    · exact ⟨(170, min 40 (ML - 170)), by simp, by simp only; omega, by simp only; omega⟩
    by_cases h7 : row < 250
    · exact ⟨(210, min 40 (ML - 210)), by simp, by simp only; omega, by simp only; omega⟩
    · exact ⟨(250, ML - 250), by simp, by simp only; omega, by simp only; omega⟩

end Masscanned.C10
