/-
  Proofs/C10/HttpTbl — kernel-checked range facts of the compiled HTTP verb/field matcher
  `Gen.HttpSmack.tbl` (regenerated from the running code on every run).
-/
import Masscanned.Proofs.C10.Check
import Masscanned.Model.Http
namespace Masscanned.C10
open Masscanned

set_option maxRecDepth 100000

theorem http_wfCheck : wfCheck httpTbl Gen.HttpSmack.nrows = true := by decide +kernel

theorem http_cnt_le_one_check :
    allBelow (fun r => Nat.ble (httpTbl.cnt r) 1) Gen.HttpSmack.nrows = true := by decide +kernel

theorem http_wf : WF httpTbl Gen.HttpSmack.nrows := wf_of_check _ _ http_wfCheck

end Masscanned.C10
