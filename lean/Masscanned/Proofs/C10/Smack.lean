/-
  Proofs/C10/Smack — generic facts about `SmackTbl.searchNext` / `searchNextEnd`:
  table well-formedness (range facts) ⇒ totality; incremental search = one-shot search;
  closure of a row annotation ⇒ the search computes the reference run.
-/
import Masscanned.Model.Smack
import Masscanned.Proofs.C10.Ref
namespace Masscanned.C10
open Masscanned Masscanned.Spec

/-- one transition of the compiled table on character `c` (0..255 bytes, 257 = end anchor) -/
def mstep (T : SmackTbl) (row c : Nat) : Nat := T.trans (row * 2 ^ T.rowShift + T.c2s c)

/-- range facts of a compiled table with `N` rows -/
structure WF (T : SmackTbl) (N : Nat) : Prop where
  transLen_eq : T.transLen = N * 2 ^ T.rowShift
  c2s_lt : ∀ c, c < 258 → T.c2s c < 2 ^ T.rowShift
  trans_lt : ∀ k, k < T.transLen → T.trans k < N
  N_le : N ≤ T.matchLen
  N_lt : N < 16777216
  ids_len : ∀ r, r < N → (T.ids r).length = T.cnt r
  cnt_lt : ∀ r, r < N → T.cnt r < 255
  match_iff : ∀ r, r < N → (T.cnt r ≠ 0 ↔ T.matchLimit ≤ r)
  ids_ne : ∀ r, r < N → ∀ id ∈ T.ids r, id ≠ noMatch

theorem WF.idx_lt {T : SmackTbl} {N : Nat} (w : WF T N) {row c : Nat} (hr : row < N) (hc : c < 258) :
    row * 2 ^ T.rowShift + T.c2s c < T.transLen := by
  have h1 := w.c2s_lt c hc
  rw [w.transLen_eq]
  calc row * 2 ^ T.rowShift + T.c2s c < row * 2 ^ T.rowShift + 2 ^ T.rowShift := by omega
    _ = (row + 1) * 2 ^ T.rowShift := by rw [Nat.add_mul, Nat.one_mul]
    _ ≤ N * 2 ^ T.rowShift := Nat.mul_le_mul_right _ hr

theorem WF.mstep_lt {T : SmackTbl} {N : Nat} (w : WF T N) {row c : Nat} (hr : row < N) (hc : c < 258) :
    mstep T row c < N := w.trans_lt _ (w.idx_lt hr hc)

theorem u8_lt_258 (b : UInt8) : b.toNat < 258 := by have := b.toNat_lt; omega

/-! ### innerMatch -/

theorem innerMatch_cons (T : SmackTbl) (row : Nat) (b : UInt8) (t : Bytes) (idx : Nat)
    (hk : row * 2 ^ T.rowShift + T.c2s b.toNat < T.transLen) :
    T.innerMatch row (b :: t) idx =
      if mstep T row b.toNat ≥ T.matchLimit then .ok (idx, mstep T row b.toNat)
      else T.innerMatch (mstep T row b.toNat) t (idx + 1) := by
  simp only [SmackTbl.innerMatch, hk, if_true, mstep]
  rfl

theorem innerMatch_total {T : SmackTbl} {N : Nat} (w : WF T N) (d : Bytes) :
    ∀ row idx, row < N → ∃ i row', T.innerMatch row d idx = .ok (i, row') ∧ row' < N := by
  induction d with
  | nil => intro row idx hr; exact ⟨idx, row, rfl, hr⟩
  | cons b t ih =>
    intro row idx hr
    rw [innerMatch_cons T row b t idx (w.idx_lt hr (u8_lt_258 b))]
    have hlt := w.mstep_lt hr (u8_lt_258 b)
    split
    · exact ⟨idx, _, rfl, hlt⟩
    · exact ih _ _ hlt

/-- a valid search state: a row of the table and a number of pending matches of that row -/
def ValidState (T : SmackTbl) (N : Nat) (st : Nat) : Prop :=
  ∃ row p, st = row + p * 16777216 ∧ row < N ∧ p ≤ T.cnt row

theorem searchNext_total {T : SmackTbl} {N : Nat} (w : WF T N) (st : Nat) (d : Bytes)
    (hv : ValidState T N st) :
    ∃ id st' n, T.searchNext st d = .ok (id, st', n) ∧ ValidState T N st' := by
  obtain ⟨row, p, hst, hr, hp⟩ := hv
  have hN := w.N_lt
  have hrow : st % 16777216 = row := by omega
  have hcm : st / 16777216 = p := by omega
  clear hst
  unfold SmackTbl.searchNext
  simp only [hrow, hcm]
  by_cases hp0 : p = 0
  · subst hp0
    obtain ⟨i, row', him, hr'⟩ := innerMatch_total w d row 0 hr
    have hml : row' < T.matchLen := Nat.lt_of_lt_of_le hr' w.N_le
    simp only [him, if_true, hml]
    by_cases hc : T.cnt row' = 0
    · simp only [hc, ne_eq, not_true_eq_false, if_false]
      exact ⟨noMatch, row', i, rfl, row', 0, by omega, hr', by omega⟩
    · simp only [ne_eq, hc, not_false_eq_true, if_true, hml]
      have hlen := w.ids_len row' hr'
      have hlt : T.cnt row' - 1 < (T.ids row').length := by omega
      rw [List.getElem?_eq_getElem hlt]
      exact ⟨_, _, _, rfl, row', T.cnt row' - 1, rfl, hr', by omega⟩
  · have hml : row < T.matchLen := Nat.lt_of_lt_of_le hr w.N_le
    simp only [hp0, if_false, ne_eq, not_false_eq_true, if_true, hml]
    have hlen := w.ids_len row hr
    have hlt : p - 1 < (T.ids row).length := by omega
    rw [List.getElem?_eq_getElem hlt]
    exact ⟨_, _, _, rfl, row, p - 1, rfl, hr, by omega⟩

theorem searchNextEnd_total {T : SmackTbl} {N : Nat} (w : WF T N) (st : Nat)
    (hv : ValidState T N st) :
    ∃ id st', T.searchNextEnd st = .ok (id, st') := by
  obtain ⟨row, p, hst, hr, hp⟩ := hv
  have hN := w.N_lt
  have hrow : st % 16777216 = row := by omega
  have hcm : st / 16777216 = p := by omega
  clear hst
  unfold SmackTbl.searchNextEnd
  simp only [hrow, hcm]
  have hml : row < T.matchLen := Nat.lt_of_lt_of_le hr w.N_le
  by_cases h255 : p = 255
  · simp only [h255, if_true]; exact ⟨_, _, rfl⟩
  · simp only [h255, if_false]
    by_cases hp0 : p = 0
    · subst hp0
      have hk := w.idx_lt hr (show charAnchorEnd < 258 by decide)
      have hr' : T.trans (row * 2 ^ T.rowShift + T.c2s charAnchorEnd) < N := w.trans_lt _ hk
      have hml' := Nat.lt_of_lt_of_le hr' w.N_le
      simp only [ne_eq, not_true_eq_false, if_false, hk, if_true, hml']
      by_cases hc : T.cnt (T.trans (row * 2 ^ T.rowShift + T.c2s charAnchorEnd)) = 0
      · simp only [hc, if_true]; exact ⟨_, _, rfl⟩
      · simp only [hc, if_false]
        have hlen := w.ids_len _ hr'
        have hlt : T.cnt (T.trans (row * 2 ^ T.rowShift + T.c2s charAnchorEnd)) - 1 <
            (T.ids (T.trans (row * 2 ^ T.rowShift + T.c2s charAnchorEnd))).length := by omega
        rw [List.getElem?_eq_getElem hlt]
        exact ⟨_, _, rfl⟩
    · simp only [ne_eq, hp0, not_false_eq_true, if_true, hml]
      have hlen := w.ids_len row hr
      have hlt : p - 1 < (T.ids row).length := by omega
      rw [List.getElem?_eq_getElem hlt]
      exact ⟨_, _, rfl⟩

/-! ### incremental search = one-shot search -/

theorem innerMatch_idx (T : SmackTbl) (d : Bytes) : ∀ row idx i row',
    T.innerMatch row d 0 = .ok (i, row') → T.innerMatch row d idx = .ok (idx + i, row') := by
  suffices h : ∀ row j idx i row', T.innerMatch row d j = .ok (i, row') →
      T.innerMatch row d (idx + j) = .ok (idx + i, row') by
    intro row idx i row' hh; simpa using h row 0 idx i row' hh
  induction d with
  | nil =>
    intro row j idx i row' h
    simp only [SmackTbl.innerMatch] at h ⊢
    cases h; rfl
  | cons b t ih =>
    intro row j idx i row' h
    simp only [SmackTbl.innerMatch] at h ⊢
    split at h
    · rw [if_pos (by assumption)]
      split at h
      · rw [if_pos (by assumption)]; cases h; rfl
      · rw [if_neg (by assumption)]
        have := ih _ (j + 1) idx i row' h
        rwa [Nat.add_assoc]
    · cases h

theorem innerMatch_append (T : SmackTbl) (a b : Bytes) : ∀ row idx i row',
    T.innerMatch row a idx = .ok (i, row') → row' < T.matchLimit →
    i = idx + a.length ∧ T.innerMatch row (a ++ b) idx = T.innerMatch row' b (idx + a.length) := by
  induction a with
  | nil =>
    intro row idx i row' h _
    simp only [SmackTbl.innerMatch] at h
    cases h
    exact ⟨rfl, rfl⟩
  | cons x t ih =>
    intro row idx i row' h hlt
    simp only [SmackTbl.innerMatch, List.cons_append] at h ⊢
    split at h
    · rw [if_pos (by assumption)]
      split at h
      · cases h; omega
      · rw [if_neg (by assumption)]
        obtain ⟨h1, h2⟩ := ih _ _ _ _ h hlt
        refine ⟨by simp only [List.length_cons]; omega, ?_⟩
        rw [h2]; simp only [List.length_cons]; congr 1; omega
    · cases h

/-- `searchNext` result with the consumed count shifted -/
def shiftN (k : Nat) : Except Site (Nat × Nat × Nat) → Except Site (Nat × Nat × Nat)
  | .ok (id, st, n) => .ok (id, st, k + n)
  | .error e => .error e

theorem searchNext_append {T : SmackTbl} {N : Nat} (w : WF T N) (row : Nat) (hr : row < N)
    (a b : Bytes) (st' n : Nat) (h : T.searchNext row a = .ok (noMatch, st', n)) :
    st' < T.matchLimit ∧ st' < N ∧ n = a.length ∧
      T.searchNext row (a ++ b) = shiftN a.length (T.searchNext st' b) := by
  have hN := w.N_lt
  have hrow : row % 16777216 = row := by omega
  have hcm : row / 16777216 = 0 := by omega
  obtain ⟨i, row', him, hr'⟩ := innerMatch_total w a row 0 hr
  have hml : row' < T.matchLen := Nat.lt_of_lt_of_le hr' w.N_le
  unfold SmackTbl.searchNext at h
  simp only [hrow, hcm, if_true, him, hml] at h
  by_cases hc : T.cnt row' = 0
  · simp only [hc, ne_eq, not_true_eq_false, if_false] at h
    simp only [Except.ok.injEq, Prod.mk.injEq, true_and] at h
    obtain ⟨rfl, rfl⟩ := h
    have hnm : row' < T.matchLimit := by
      have := w.match_iff row' hr'
      omega
    obtain ⟨h1, h2⟩ := innerMatch_append T a b row 0 i row' him hnm
    refine ⟨hnm, hr', by omega, ?_⟩
    have hrow' : row' % 16777216 = row' := by omega
    have hcm' : row' / 16777216 = 0 := by omega
    unfold SmackTbl.searchNext
    simp only [hrow, hcm, hrow', hcm', if_true, h2, Nat.zero_add]
    obtain ⟨j, r2, him2, hr2⟩ := innerMatch_total w b row' 0 hr'
    rw [innerMatch_idx T b row' a.length j r2 him2, him2]
    have hml2 : r2 < T.matchLen := Nat.lt_of_lt_of_le hr2 w.N_le
    simp only [hml2, if_true]
    by_cases hc2 : T.cnt r2 = 0
    · simp only [hc2, ne_eq, not_true_eq_false, if_false, shiftN]
    · simp only [ne_eq, hc2, not_false_eq_true, if_true, hml2]
      cases (T.ids r2)[T.cnt r2 - 1]? with
      | none => rfl
      | some id => simp only [shiftN, Nat.add_assoc]
  · simp only [ne_eq, hc, not_false_eq_true, if_true, hml] at h
    have hlen := w.ids_len row' hr'
    have hlt : T.cnt row' - 1 < (T.ids row').length := by omega
    rw [List.getElem?_eq_getElem hlt] at h
    simp only [Except.ok.injEq, Prod.mk.injEq] at h
    exact absurd h.1 (w.ids_ne row' hr' _ (List.getElem_mem hlt))

theorem innerMatch_append_match (T : SmackTbl) (a b : Bytes) : ∀ row idx i row',
    row < T.matchLimit → T.innerMatch row a idx = .ok (i, row') → T.matchLimit ≤ row' →
    T.innerMatch row (a ++ b) idx = .ok (i, row') := by
  induction a with
  | nil =>
    intro row idx i row' hr h hge
    simp only [SmackTbl.innerMatch] at h
    cases h
    omega
  | cons x t ih =>
    intro row idx i row' hr h hge
    simp only [SmackTbl.innerMatch, List.cons_append] at h ⊢
    split at h
    · rw [if_pos (by assumption)]
      split at h
      · rw [if_pos (by assumption)]; exact h
      · rw [if_neg (by assumption)]
        exact ih _ _ _ _ (by omega) h hge
    · cases h

/-- the search stops at the first match: bytes after it do not matter -/
theorem searchNext_append_match {T : SmackTbl} {N : Nat} (w : WF T N) (row : Nat) (hr : row < N)
    (hnm : row < T.matchLimit) (a b : Bytes) (id st' n : Nat)
    (h : T.searchNext row a = .ok (id, st', n)) (hid : id ≠ noMatch) :
    T.searchNext row (a ++ b) = .ok (id, st', n) := by
  have hN := w.N_lt
  have hrow : row % 16777216 = row := by omega
  have hcm : row / 16777216 = 0 := by omega
  obtain ⟨i, row', him, hr'⟩ := innerMatch_total w a row 0 hr
  have hml : row' < T.matchLen := Nat.lt_of_lt_of_le hr' w.N_le
  unfold SmackTbl.searchNext at h ⊢
  simp only [hrow, hcm, if_true, him, hml] at h ⊢
  by_cases hc : T.cnt row' = 0
  · simp only [hc, ne_eq, not_true_eq_false, if_false] at h
    simp only [Except.ok.injEq, Prod.mk.injEq] at h
    exact absurd h.1.symm hid
  · have hge : T.matchLimit ≤ row' := (w.match_iff row' hr').mp hc
    rw [innerMatch_append_match T a b row 0 i row' hnm him hge]
    simp only [hml, if_true]
    exact h

/-! ### closure of a row annotation ⇒ the search computes the reference run -/

/-- `AR` annotates every non-match row with a reference state so that one table step and one
    reference step agree (outputs, and annotation of the successor row). -/
structure Closed (T : SmackTbl) (AR : Nat → RState) : Prop where
  nonmatch : ∀ row, row < T.matchLimit → T.cnt row = 0 ∧ row < T.matchLen ∧ row < 16777216
  step : ∀ row, row < T.matchLimit → ∀ b : UInt8,
    row * 2 ^ T.rowShift + T.c2s b.toNat < T.transLen ∧
    (T.matchLimit ≤ mstep T row b.toNat →
      ∃ id, rout (rstep (AR row) b) = some id ∧ T.ids (mstep T row b.toNat) = [id] ∧
        T.cnt (mstep T row b.toNat) = 1 ∧ mstep T row b.toNat < T.matchLen ∧
        mstep T row b.toNat < 16777216) ∧
    (mstep T row b.toNat < T.matchLimit →
      rout (rstep (AR row) b) = none ∧ AR (mstep T row b.toNat) = rstep (AR row) b)
  endc : ∀ row, row < T.matchLimit →
    row * 2 ^ T.rowShift + T.c2s charAnchorEnd < T.transLen ∧
    mstep T row charAnchorEnd < T.matchLen ∧
    ((T.cnt (mstep T row charAnchorEnd) = 0 ∧ refEndL (AR row) [] = none) ∨
     ∃ id, T.cnt (mstep T row charAnchorEnd) = 1 ∧ T.ids (mstep T row charAnchorEnd) = [id] ∧
       refEndL (AR row) [] = some id)

theorem sim_innerMatch {T : SmackTbl} {AR : Nat → RState} (c : Closed T AR) (s : Bytes) :
    ∀ row idx, row < T.matchLimit →
    match refRun (AR row) s with
    | some (n, i) => ∃ row', T.innerMatch row s idx = .ok (idx + n - 1, row') ∧
        T.ids row' = [i] ∧ T.cnt row' = 1 ∧ row' < T.matchLen ∧ row' < 16777216
    | none => ∃ row', T.innerMatch row s idx = .ok (idx + s.length, row') ∧
        row' < T.matchLimit ∧ AR row' = s.foldl rstep (AR row) := by
  induction s with
  | nil =>
    intro row idx hr
    simp only [refRun]
    exact ⟨row, rfl, hr, rfl⟩
  | cons b t ih =>
    intro row idx hr
    obtain ⟨hk, hm, hn⟩ := c.step row hr b
    rw [innerMatch_cons T row b t idx hk]
    simp only [refRun]
    by_cases hge : T.matchLimit ≤ mstep T row b.toNat
    · obtain ⟨id, h1, h2, h3, h4, h5⟩ := hm hge
      simp only [h1, ge_iff_le, hge, if_true]
      exact ⟨_, by simp, h2, h3, h4, h5⟩
    · have hlt : mstep T row b.toNat < T.matchLimit := by omega
      obtain ⟨h1, h2⟩ := hn hlt
      simp only [h1, ge_iff_le, hge, if_false]
      have := ih (mstep T row b.toNat) (idx + 1) hlt
      rw [h2] at this
      cases hrr : refRun (rstep (AR row) b) t with
      | some ni =>
        obtain ⟨n, i⟩ := ni
        rw [hrr] at this
        obtain ⟨row', e1, e2⟩ := this
        refine ⟨row', ?_, e2⟩
        rw [e1]
        have : 1 ≤ n := by
          cases t with
          | nil => simp [refRun] at hrr
          | cons x t' =>
            simp only [refRun] at hrr
            split at hrr
            · cases hrr; omega
            · cases hx : refRun (rstep (rstep (AR row) b) x) t' with
              | none => rw [hx] at hrr; simp at hrr
              | some y => rw [hx] at hrr; simp at hrr; omega
        congr 2; omega
      | none =>
        rw [hrr] at this
        obtain ⟨row', e1, e2, e3⟩ := this
        refine ⟨row', ?_, e2, ?_⟩
        · rw [e1]; simp only [List.length_cons]; congr 2; omega
        · rw [e3]; rfl

def idOf : Option Nat → Nat
  | some i => i
  | none => noMatch

/-- stream search from an annotated non-match row -/
theorem sim_searchNext {T : SmackTbl} {AR : Nat → RState} (c : Closed T AR) (s : Bytes)
    (row : Nat) (hr : row < T.matchLimit) :
    match refRun (AR row) s with
    | some (n, i) => ∃ st, T.searchNext row s = .ok (i, st, n)
    | none => ∃ row', T.searchNext row s = .ok (noMatch, row', s.length) ∧
        row' < T.matchLimit ∧ AR row' = s.foldl rstep (AR row) := by
  obtain ⟨_, _, h24⟩ := c.nonmatch row hr
  have hrow : row % 16777216 = row := by omega
  have hcm : row / 16777216 = 0 := by omega
  have hs := sim_innerMatch c s row 0 hr
  unfold SmackTbl.searchNext
  simp only [hrow, hcm, if_true]
  cases hrr : refRun (AR row) s with
  | some ni =>
    obtain ⟨n, i⟩ := ni
    rw [hrr] at hs
    obtain ⟨row', e1, e2, e3, e4, e5⟩ := hs
    have hn : 1 ≤ n := by
      cases s with
      | nil => simp [refRun] at hrr
      | cons x t' =>
        simp only [refRun] at hrr
        split at hrr
        · cases hrr; omega
        · cases hx : refRun (rstep (AR row) x) t' with
          | none => rw [hx] at hrr; simp at hrr
          | some y => rw [hx] at hrr; simp at hrr; omega
    simp only [e1, e4, if_true, e3, ne_eq, Nat.succ_ne_zero, not_false_eq_true, e2, Nat.sub_self,
      List.getElem?_cons_zero, Nat.zero_mul, Nat.add_zero, Nat.zero_add]
    refine ⟨row', ?_⟩
    congr 3; omega
  | none =>
    rw [hrr] at hs
    obtain ⟨row', e1, e2, e3⟩ := hs
    obtain ⟨hc0, hml, _⟩ := c.nonmatch row' e2
    simp only [e1, hml, if_true, hc0, ne_eq, not_true_eq_false, if_false, Nat.zero_add]
    exact ⟨row', rfl, e2, e3⟩

/-- end of datagram from an annotated non-match row -/
theorem sim_searchNextEnd {T : SmackTbl} {AR : Nat → RState} (c : Closed T AR)
    (row : Nat) (hr : row < T.matchLimit) :
    ∃ st, T.searchNextEnd row = .ok (idOf (refEndL (AR row) []), st) := by
  obtain ⟨_, _, h24⟩ := c.nonmatch row hr
  have hrow : row % 16777216 = row := by omega
  have hcm : row / 16777216 = 0 := by omega
  obtain ⟨hk, hml, hcase⟩ := c.endc row hr
  unfold SmackTbl.searchNextEnd
  unfold mstep at hml hcase
  simp only [hrow, hcm, Nat.reduceEqDiff, if_false, ne_eq, not_true_eq_false, hk, if_true, hml]
  rcases hcase with ⟨h0, hn⟩ | ⟨id, h1, h2, h3⟩
  · simp only [h0, if_true, hn, idOf]; exact ⟨_, rfl⟩
  · simp only [h1, Nat.succ_ne_zero, if_false, h2, Nat.sub_self, List.getElem?_cons_zero, h3, idOf]
    exact ⟨_, rfl⟩

end Masscanned.C10
