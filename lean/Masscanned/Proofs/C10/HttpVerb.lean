/-
  Proofs/C10/HttpVerb — the HTTP matcher `Gen.HttpSmack.tbl` returns id 0 (Verb) from the base
  state exactly after one of the nine method names, case-insensitively.  `annH` is a witness
  re-checked by the kernel; regenerate with `#eval annHexV httpTbl lowerB verbsL`.
-/
import Masscanned.Gen.HttpAnn
import Masscanned.Proofs.C10.HttpLang
namespace Masscanned.C10
open Masscanned Masscanned.Spec

set_option maxRecDepth 100000


theorem http_rows_check : allBelow (okRowV httpTbl lowerB verbsL annH) httpTbl.matchLimit = true := by
  decide +kernel

theorem http_vclosed : VClosed httpTbl lowerB (fun row => decodeR verbsL (annOf annH row)) :=
  vclosed_of_check _ _ _ _ http_rows_check

theorem http_init : decodeR verbsL (annOf annH baseState) = verbsL := by decide +kernel
theorem http_unanchored_dead : decodeR verbsL (annOf annH unanchoredState) = [] := by decide +kernel
theorem http_rout_init : rout verbsL = none := by decide +kernel
theorem http_base_lt : baseState < httpTbl.matchLimit ∧ baseState < Gen.HttpSmack.nrows ∧
    unanchoredState < httpTbl.matchLimit ∧ unanchoredState < Gen.HttpSmack.nrows := by decide

theorem httpMethodNames_eq : httpMethodNames =
    [[103, 101, 116], [112, 117, 116], [112, 111, 115, 116], [104, 101, 97, 100],
     [100, 101, 108, 101, 116, 101], [99, 111, 110, 110, 101, 99, 116],
     [111, 112, 116, 105, 111, 110, 115], [116, 114, 97, 99, 101], [112, 97, 116, 99, 104]] := by
  decide +kernel

theorem verbsL_eq : verbsL =
    ([[103, 101, 116], [112, 117, 116], [112, 111, 115, 116], [104, 101, 97, 100],
     [100, 101, 108, 101, 116, 101], [99, 111, 110, 110, 101, 99, 116],
     [111, 112, 116, 105, 111, 110, 115], [116, 114, 97, 99, 101], [112, 97, 116, 99, 104]] : List Bytes).map
      fun v => { id := 0, pat := v.map SymX.lit, endAnchored := false } := by
  unfold verbsL; rw [httpMethodNames_eq]

theorem refRun_verb (v : Bytes) (hv : v ∈ httpMethodNames) (rest : Bytes) :
    refRun verbsL (v ++ rest) = some (v.length, 0) := by
  rw [verbsL_eq]
  rw [httpMethodNames_eq] at hv
  simp only [List.mem_cons, List.not_mem_nil, or_false] at hv
  rcases hv with rfl | rfl | rfl | rfl | rfl | rfl | rfl | rfl | rfl <;> rfl

theorem prefixMatchX_lits (v s : Bytes) (h : prefixMatchX (v.map SymX.lit) s = true) :
    s.take v.length = v := by
  induction v generalizing s with
  | nil => rfl
  | cons a t ih =>
    cases s with
    | nil => simp [prefixMatchX] at h
    | cons b bs =>
      simp only [List.map_cons, prefixMatchX, symMatchX, Bool.and_eq_true, decide_eq_true_eq] at h
      simp only [List.length_cons, List.take_succ_cons, h.1, ih bs h.2]

theorem http_verb_language' (d : Bytes) (n : Nat) :
    (∃ st, httpTbl.searchNext baseState d = .ok (0, st, n)) ↔
      (n ≤ d.length ∧ (d.take n).map lowerB ∈ httpMethodNames) := by
  rw [simV_searchNext http_wf http_vclosed d baseState http_base_lt.1 http_base_lt.2.1 n, http_init]
  constructor
  · intro h
    obtain ⟨h1, _, h3, _⟩ := refRun_pos verbsL _ http_rout_init n 0 h
    rw [List.length_map] at h1
    refine ⟨h1, ?_⟩
    unfold completedAtL at h3
    cases hf : verbsL.find? _ with
    | none => rw [hf] at h3; cases h3
    | some g =>
      have hg := List.mem_of_find?_eq_some hf
      have hp := List.find?_some hf
      simp only [Bool.and_eq_true, decide_eq_true_eq] at hp
      unfold verbsL at hg
      rw [List.mem_map] at hg
      obtain ⟨v, hv, rfl⟩ := hg
      simp only [List.length_map] at hp
      have := prefixMatchX_lits v _ hp.2
      rw [hp.1.1.2, ← List.map_take] at this
      rw [this]; exact hv
  · rintro ⟨h1, h2⟩
    have hl : ((d.take n).map lowerB).length = n := by simp [List.length_take, Nat.min_eq_left h1]
    have hsplit : d.map lowerB = (d.take n).map lowerB ++ (d.drop n).map lowerB := by
      rw [← List.map_append, List.take_append_drop]
    rw [hsplit, refRun_verb _ h2, hl]

theorem http_unanchored_never_verb (d : Bytes) (st n : Nat) :
    httpTbl.searchNext unanchoredState d ≠ .ok (0, st, n) := by
  intro h
  have := (simV_searchNext http_wf http_vclosed d unanchoredState http_base_lt.2.2.1 http_base_lt.2.2.2 n).mp ⟨st, h⟩
  rw [http_unanchored_dead, refRun_dead] at this
  cases this

end Masscanned.C10
