/-
  Proofs/C10/HttpLang — when does the HTTP verb/field matcher `Gen.HttpSmack.tbl` return id 0
  (Verb)?  One-sided variant of the closure argument of Proofs/C10/Smack + Check: the row
  annotation tracks only the nine method names (case-folded); the table may also stop on other
  ids (fields, ':' and LF), which is allowed as long as no method name is still alive there.
-/
import Masscanned.Proofs.C10.HttpTbl
namespace Masscanned.C10
open Masscanned Masscanned.Spec

/-! ### generic part -/

/-- one-sided closure for the patterns tracked by the annotation `AR` (bytes folded by `fold`) -/
structure VClosed (T : SmackTbl) (fold : UInt8 → UInt8) (AR : Nat → RState) : Prop where
  nonmatch : ∀ row, row < T.matchLimit → T.cnt row = 0 ∧ row < T.matchLen ∧ row < 16777216
  step : ∀ row, row < T.matchLimit → ∀ b : UInt8,
    row * 2 ^ T.rowShift + T.c2s b.toNat < T.transLen ∧
    (∀ i, rout (rstep (AR row) (fold b)) = some i →
      T.matchLimit ≤ mstep T row b.toNat ∧ T.ids (mstep T row b.toNat) = [i] ∧
        T.cnt (mstep T row b.toNat) = 1 ∧ mstep T row b.toNat < T.matchLen ∧
        mstep T row b.toNat < 16777216) ∧
    (rout (rstep (AR row) (fold b)) = none →
      (mstep T row b.toNat < T.matchLimit → AR (mstep T row b.toNat) = rstep (AR row) (fold b)) ∧
      (T.matchLimit ≤ mstep T row b.toNat →
        rstep (AR row) (fold b) = [] ∧ ∀ id ∈ T.ids (mstep T row b.toNat), id ≠ 0))

theorem refRun_dead (s : Bytes) : refRun [] s = none := by
  induction s with
  | nil => rfl
  | cons b t ih =>
    simp only [refRun]
    have h1 : rstep [] b = [] := rfl
    rw [h1]
    have h2 : rout [] = none := rfl
    rw [h2, ih]
    rfl

theorem refRun_pos_n (R : RState) (s : Bytes) (n i : Nat) (h : refRun R s = some (n, i)) : 1 ≤ n := by
  cases s with
  | nil => simp [refRun] at h
  | cons x t =>
    simp only [refRun] at h
    split at h
    · cases h; omega
    · cases hx : refRun (rstep R x) t with
      | none => rw [hx] at h; simp at h
      | some y => rw [hx] at h; simp at h; omega

theorem simV_innerMatch {T : SmackTbl} {fold : UInt8 → UInt8} {AR : Nat → RState}
    (c : VClosed T fold AR) (d : Bytes) : ∀ row idx, row < T.matchLimit →
    match refRun (AR row) (d.map fold) with
    | some (n, i) => ∃ row', T.innerMatch row d idx = .ok (idx + n - 1, row') ∧
        T.ids row' = [i] ∧ T.cnt row' = 1 ∧ row' < T.matchLen ∧ row' < 16777216
    | none => ∃ j row', T.innerMatch row d idx = .ok (j, row') ∧
        (row' < T.matchLimit ∨ (T.matchLimit ≤ row' ∧ ∀ id ∈ T.ids row', id ≠ 0)) := by
  induction d with
  | nil =>
    intro row idx hr
    simp only [List.map_nil, refRun]
    exact ⟨idx, row, rfl, .inl hr⟩
  | cons b t ih =>
    intro row idx hr
    obtain ⟨hk, hsome, hnone⟩ := c.step row hr b
    rw [innerMatch_cons T row b t idx hk]
    simp only [List.map_cons, refRun]
    cases ho : rout (rstep (AR row) (fold b)) with
    | some i =>
      obtain ⟨h1, h2, h3, h4, h5⟩ := hsome i ho
      simp only [ge_iff_le, h1, if_true]
      exact ⟨_, by simp, h2, h3, h4, h5⟩
    | none =>
      obtain ⟨hlt, hge⟩ := hnone ho
      simp only
      by_cases hm : T.matchLimit ≤ mstep T row b.toNat
      · obtain ⟨hdead, hids⟩ := hge hm
        simp only [ge_iff_le, hm, if_true, hdead, refRun_dead, Option.map_none]
        exact ⟨idx, _, rfl, .inr ⟨hm, hids⟩⟩
      · have hlt' : mstep T row b.toNat < T.matchLimit := by omega
        simp only [ge_iff_le, hm, if_false]
        have := ih (mstep T row b.toNat) (idx + 1) hlt'
        rw [hlt hlt'] at this
        cases hrr : refRun (rstep (AR row) (fold b)) (t.map fold) with
        | some ni =>
          obtain ⟨n, i⟩ := ni
          rw [hrr] at this
          obtain ⟨row', e1, e2⟩ := this
          have := refRun_pos_n _ _ _ _ hrr
          refine ⟨row', ?_, e2⟩
          rw [e1]; congr 2; omega
        | none =>
          rw [hrr] at this
          exact this

/-- id 0 is returned from an annotated non-match row exactly when the annotation's reference run
    over the folded input completes, and then after the same number of bytes -/
theorem simV_searchNext {T : SmackTbl} {N : Nat} {fold : UInt8 → UInt8} {AR : Nat → RState}
    (w : WF T N) (c : VClosed T fold AR) (d : Bytes) (row : Nat) (hr : row < T.matchLimit) (hN : row < N)
    (n : Nat) :
    (∃ st, T.searchNext row d = .ok (0, st, n)) ↔ refRun (AR row) (d.map fold) = some (n, 0) := by
  obtain ⟨_, _, h24⟩ := c.nonmatch row hr
  have hrow : row % 16777216 = row := by omega
  have hcm : row / 16777216 = 0 := by omega
  have hs := simV_innerMatch c d row 0 hr
  unfold SmackTbl.searchNext
  simp only [hrow, hcm, if_true]
  cases hrr : refRun (AR row) (d.map fold) with
  | some ni =>
    obtain ⟨n', i⟩ := ni
    rw [hrr] at hs
    obtain ⟨row', e1, e2, e3, e4, e5⟩ := hs
    have hn := refRun_pos_n _ _ _ _ hrr
    simp only [e1, e4, if_true, e3, ne_eq, Nat.succ_ne_zero, not_false_eq_true, e2, Nat.sub_self,
      List.getElem?_cons_zero, Nat.zero_mul, Nat.add_zero, Nat.zero_add]
    constructor
    · rintro ⟨st, h⟩
      simp only [Except.ok.injEq, Prod.mk.injEq] at h
      obtain ⟨rfl, _, rfl⟩ := h
      congr 2; omega
    · intro h
      simp only [Option.some.injEq, Prod.mk.injEq] at h
      obtain ⟨rfl, rfl⟩ := h
      exact ⟨row', by congr 3; omega⟩
  | none =>
    rw [hrr] at hs
    obtain ⟨j, row', e1, e2⟩ := hs
    obtain ⟨j2, row2, e3, hr2⟩ := innerMatch_total w d row 0 hN
    rw [e1] at e3
    simp only [Except.ok.injEq, Prod.mk.injEq] at e3
    obtain ⟨rfl, rfl⟩ := e3
    have hml : row' < T.matchLen := Nat.lt_of_lt_of_le hr2 w.N_le
    simp only [e1, hml, if_true]
    constructor
    · rintro ⟨st, h⟩
      exfalso
      by_cases hc : T.cnt row' = 0
      · simp only [hc, ne_eq, not_true_eq_false, if_false, Except.ok.injEq, Prod.mk.injEq] at h
        exact absurd h.1 (by decide)
      · simp only [ne_eq, hc, not_false_eq_true, if_true, hml] at h
        have hlen := w.ids_len row' hr2
        have hlt : T.cnt row' - 1 < (T.ids row').length := by omega
        rw [List.getElem?_eq_getElem hlt] at h
        simp only [Except.ok.injEq, Prod.mk.injEq] at h
        rcases e2 with e2 | ⟨_, e2⟩
        · have := (w.match_iff row' hr2).mp hc; omega
        · exact e2 _ (List.getElem_mem hlt) h.1
    · intro h; cases h

/-! ### the checker -/

def okByteV (T : SmackTbl) (fold : UInt8 → UInt8) (annN k : Nat) (heads : List Head) (row n : Nat) : Bool :=
  let idx := row * 2 ^ T.rowShift + T.c2s n
  let row' := T.trans idx
  let hs := heads.filter (headOK (fold (UInt8.ofNat n)))
  let out := (hs.find? (·.2.2.1)).map (·.2.2.2)
  Nat.blt idx T.transLen &&
  (match out with
   | some id => Nat.ble T.matchLimit row' && T.ids row' == [id] && T.cnt row' == 1 &&
       Nat.blt row' T.matchLen && Nat.blt row' 16777216
   | none =>
     (match Nat.ble T.matchLimit row' with
      | true => hs.isEmpty && (T.ids row').all (· != 0)
      | false =>
        (match hs.isEmpty with
         | true => field annN row' / 256 == 0
         | false => field annN row' == encSt (k + 1) (hs.map (·.1)) && Nat.blt (k + 1) 256 &&
             (hs.all fun h => Nat.blt h.1 31) && Nat.ble hs.length 24)))

def okRowV (T : SmackTbl) (fold : UInt8 → UInt8) (L : List SigX) (annN row : Nat) : Bool :=
  let st := annOf annN row
  T.cnt row == 0 && Nat.blt row T.matchLen && Nat.blt row 16777216 &&
  allBelow (okByteV T fold annN st.1 (st.2.map (headOf L st.1)) row) 256

theorem vclosed_of_check (T : SmackTbl) (fold : UInt8 → UInt8) (L : List SigX) (annN : Nat)
    (h : allBelow (okRowV T fold L annN) T.matchLimit = true) :
    VClosed T fold (fun row => decodeR L (annOf annN row)) := by
  rw [allBelow_iff] at h
  refine ⟨?_, ?_⟩
  · intro row hr
    have := h row hr
    simp only [okRowV, Bool.and_eq_true, beq_iff_eq, Nat.blt_eq] at this
    exact ⟨this.1.1.1, this.1.1.2, this.1.2⟩
  · intro row hr b
    have hrow := h row hr
    simp only [okRowV, Bool.and_eq_true, allBelow_iff] at hrow
    have hb := hrow.2 b.toNat b.toNat_lt
    generalize hst : annOf annN row = st at hb
    obtain ⟨k, al⟩ := st
    simp only [okByteV, UInt8.ofNat_toNat, Bool.and_eq_true, Nat.blt_eq] at hb
    obtain ⟨hidx, hb⟩ := hb
    have hstep := rstep_decodeR L k (fold b) al
    have hsub := heads_sub L k (fold b) al
    generalize hhs : (al.map (headOf L k)).filter (headOK (fold b)) = hs at hb hstep hsub
    have hout : rout (rstep (decodeR L (k, al)) (fold b)) = (hs.find? (·.2.2.1)).map (·.2.2.2) := by
      rw [hstep, rout_decodeR, map_headOf_of_sub L k hs hsub]
    refine ⟨hidx, ?_, ?_⟩
    · intro i hi
      rw [hout] at hi
      rw [hi] at hb
      simp only [Bool.and_eq_true, beq_iff_eq, Nat.blt_eq, Nat.ble_eq] at hb
      exact ⟨hb.1.1.1.1, hb.1.1.1.2, hb.1.1.2, hb.1.2, hb.2⟩
    · intro hn
      rw [hout] at hn
      rw [hn] at hb
      simp only at hb
      constructor
      · intro hlt
        have hble : Nat.ble T.matchLimit (mstep T row b.toNat) = false := by
          cases hx : Nat.ble T.matchLimit (mstep T row b.toNat) with
          | false => rfl
          | true => rw [Nat.ble_eq] at hx; omega
        unfold mstep at hble
        rw [hble] at hb
        show decodeR L (annOf annN (mstep T row b.toNat)) = rstep (decodeR L (k, al)) (fold b)
        rw [hstep]
        unfold mstep
        cases he : hs.isEmpty with
        | true =>
          rw [he] at hb
          simp only [beq_iff_eq] at hb
          have hnil : hs = [] := by simpa using he
          have : (annOf annN (T.trans (row * 2 ^ T.rowShift + T.c2s b.toNat))).2 = [] := by
            simp only [annOf, hb]; rfl
          rw [hnil]
          simp only [decodeR, this, List.map_nil, List.filterMap_nil]
        | false =>
          rw [he] at hb
          simp only [Bool.and_eq_true, beq_iff_eq, Nat.blt_eq, Nat.ble_eq, List.all_eq_true] at hb
          obtain ⟨⟨⟨h1, h2⟩, h3⟩, h4⟩ := hb
          rw [annOf_of_field annN _ (k + 1) (hs.map (·.1)) h1 h2
            (by intro i hi; rw [List.mem_map] at hi; obtain ⟨x, hx, rfl⟩ := hi; exact h3 x hx)
            (by simpa using h4)]
      · intro hge
        have hble : Nat.ble T.matchLimit (mstep T row b.toNat) = true := by rw [Nat.ble_eq]; exact hge
        unfold mstep at hble
        rw [hble] at hb
        simp only [Bool.and_eq_true, List.all_eq_true, bne_iff_ne, ne_eq] at hb
        have hnil : hs = [] := by simpa using hb.1
        refine ⟨?_, hb.2⟩
        show rstep (decodeR L (k, al)) (fold b) = []
        rw [hstep, hnil]; rfl

/-- computing the annotation (witness only; `#eval annHexV httpTbl lowerB verbsL` regenerates it) -/
def annRoundV (T : SmackTbl) (fold : UInt8 → UInt8) (L : List SigX) (arr : Array (Option IState)) :
    Array (Option IState) :=
  (List.range T.matchLimit).foldl (fun arr row =>
    match arr.getD row none with
    | none => arr
    | some (k, al) =>
      (List.range 256).foldl (fun arr n =>
        let row' := mstep T row n
        if row' < T.matchLimit then
          match arr.getD row' none with
          | some _ => arr
          | none =>
            let al' := ((al.map (headOf L k)).filter (headOK (fold (UInt8.ofNat n)))).map (·.1)
            if al'.isEmpty then arr else arr.setIfInBounds row' (some (k + 1, al'))
        else arr) arr) arr

def annHexV (T : SmackTbl) (fold : UInt8 → UInt8) (L : List SigX) : String :=
  let init : Array (Option IState) := (Array.replicate T.matchLimit none).setIfInBounds 0 (some (0, List.range L.length))
  let arr := (List.range 40).foldl (fun a _ => annRoundV T fold L a) init
  let n := arr.toList.zipIdx.foldl (fun acc (e, i) =>
    match e with
    | some (k, al) => acc + encSt k al * 2 ^ (128 * i)
    | none => acc) 0
  "0x" ++ String.ofList (Nat.toDigits 16 n)

/-! ### the HTTP instance -/

/-- ASCII lower-casing, as done by the case-insensitive matcher -/
def lowerB (b : UInt8) : UInt8 := if 65 ≤ b ∧ b ≤ 90 then b + 32 else b

/-- the nine method names of `Spec.httpVerbs`, lower-cased -/
def httpMethodNames : List Bytes := httpVerbs.map fun v => v.toUTF8.toList.map lowerB

def verbsL : List SigX := httpMethodNames.map fun v => { id := 0, pat := v.map SymX.lit, endAnchored := false }

end Masscanned.C10
