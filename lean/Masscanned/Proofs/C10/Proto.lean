/-
  Proofs/C10/Proto — consequences of the kernel-checked closure for the protocol matcher, and
  the factorisation of `protoRepl` through an identification function that does not see the
  client information.
-/
import Masscanned.Proofs.C10.ProtoClosure
import Masscanned.Proofs.C10.Shadow
namespace Masscanned.C10
open Masscanned Masscanned.Spec

/-- identification of a datagram, as in `proto::repl`: `search_next` from the base state, then
    `search_next_end` if nothing matched -/
def datagramIdent (d : Bytes) : Except Site Nat :=
  match protoTbl.searchNext baseState d with
  | .error e => .error e
  | .ok (id, st, _) =>
    if id = noMatch then
      match protoTbl.searchNextEnd st with
      | .error e => .error e
      | .ok (id', _) => .ok id'
    else .ok id

/-- identification step of `proto::repl`: id and new control block; no client information, no
    configuration -/
def identify (tcb : Option Tcb) (d : Bytes) : Except Site (Nat × Option Tcb) :=
  match tcb with
  | some t =>
    if t.protoId = PROTO_NONE then
      match protoTbl.searchNext t.smackState d with
      | .error e => .error e
      | .ok (id, st, _) => .ok (id, some { t with protoId := id, smackState := st })
    else .ok (t.protoId, some t)
  | none =>
    match datagramIdent d with
    | .error e => .error e
    | .ok id => .ok (id, none)

theorem protoRepl_factors (cfg : Cfg) (env : Env) (ci : ClientInfo) (tcb : Option Tcb) (d : Bytes) :
    protoRepl cfg env ci tcb d =
      if ci.transport = some 6 ∧ ci.cookie = none then .ok (ci, tcb, none)
      else
        match identify tcb d with
        | .error e => .error e
        | .ok (id, tcb') =>
          match (if tcb = none ∧ id = noMatch then (dnsParse d).bind (dnsRepl ci) else none) with
          | some r => .ok (ci, none, some r)
          | none => protoHandle cfg env id ci tcb' d := by
  unfold protoRepl
  split
  · rfl
  · cases tcb with
    | some t =>
      simp only [identify, reduceCtorEq, false_and, if_false]
      split
      · cases protoTbl.searchNext t.smackState d with
        | error e => rfl
        | ok r => rfl
      · rfl
    | none =>
      simp only [identify, datagramIdent, true_and]
      cases protoTbl.searchNext baseState d with
      | error e => rfl
      | ok r =>
        obtain ⟨id, st, n⟩ := r
        simp only
        by_cases hid : id = noMatch
        · simp only [hid, if_true]
          cases protoTbl.searchNextEnd st with
          | error e => rfl
          | ok r2 =>
            obtain ⟨id', st2⟩ := r2
            simp only
            by_cases h2 : id' = noMatch
            · simp only [h2, if_true]
              cases dnsParse d with
              | none => rfl
              | some m => rfl
            · simp only [h2, if_false]
        · simp only [hid, if_false]

/-! ### the stream search from the base state -/

theorem protoAR_base : protoAR baseState = sigsK2 := proto_init

theorem proto_stream_core (s : Bytes) :
    match refRun sigsK2 s with
    | some (n, i) => ∃ st, protoTbl.searchNext baseState s = .ok (i, st, n)
    | none => ∃ row', protoTbl.searchNext baseState s = .ok (noMatch, row', s.length) ∧
        row' < protoTbl.matchLimit ∧ protoAR row' = s.foldl rstep sigsK2 := by
  have h := sim_searchNext proto_closed s baseState proto_base_lt
  rw [protoAR_base] at h
  exact h

theorem refStreamK2_eq_refRun (s : Bytes) : refStreamK2 s = (refRun sigsK2 s).map (·.2) := by
  rw [refStreamK2_eq, refStreamL_eq_refRun _ _ proto_rout_init]

theorem id_ne_noMatch_of_mem (i : Nat) (h : ∃ g ∈ sigsK2, g.id = i) : 1 ≤ i ∧ i ≤ 8 ∧ i ≠ noMatch := by
  obtain ⟨g, hg, rfl⟩ := h
  have := sigsK2_ids g hg
  refine ⟨this.1, this.2, ?_⟩
  unfold noMatch
  omega

theorem proto_stream (s : Bytes) :
    ∃ st n, protoTbl.searchNext baseState s = .ok (idOf (refStreamK2 s), st, n) ∧
      (∀ i, refStreamK2 s = some i → 1 ≤ n ∧ n ≤ s.length ∧ completedAtK2 s n = some i ∧
        ∀ m, m < n → completedAtK2 s m = none) ∧
      (refStreamK2 s = none → n = s.length ∧ st < protoTbl.matchLimit) := by
  have h := proto_stream_core s
  rw [refStreamK2_eq_refRun]
  cases hr : refRun sigsK2 s with
  | some ni =>
    obtain ⟨n, i⟩ := ni
    rw [hr] at h
    obtain ⟨st, hst⟩ := h
    refine ⟨st, n, hst, ?_, by simp⟩
    intro j hj
    simp only [Option.map_some, Option.some.injEq] at hj
    subst hj
    obtain ⟨h1, h2, h3, h4⟩ := refRun_pos sigsK2 s proto_rout_init n i hr
    exact ⟨h2, h1, h3, h4⟩
  | none =>
    rw [hr] at h
    obtain ⟨row', h1, h2, _⟩ := h
    exact ⟨row', s.length, h1, by simp, fun _ => ⟨rfl, h2⟩⟩

theorem proto_datagram (s : Bytes) : datagramIdent s = .ok (idOf (refDatagramK2 s)) := by
  have h := proto_stream_core s
  unfold datagramIdent refDatagramK2
  rw [refStreamK2_eq_refRun]
  cases hr : refRun sigsK2 s with
  | some ni =>
    obtain ⟨n, i⟩ := ni
    rw [hr] at h
    obtain ⟨st, hst⟩ := h
    obtain ⟨_, _, h3, _⟩ := refRun_pos sigsK2 s proto_rout_init n i hr
    have hne := (id_ne_noMatch_of_mem i (completedAtL_mem _ _ _ _ h3)).2.2
    simp only [hst, hne, if_false, Option.map_some, idOf]
  | none =>
    rw [hr] at h
    obtain ⟨row', h1, h2, h3⟩ := h
    obtain ⟨st2, hend⟩ := sim_searchNextEnd proto_closed row' h2
    rw [h3, ← refEndL_foldl, ← refEndK2_eq] at hend
    simp only [h1, if_true, hend, Option.map_none]

theorem refDatagramK2_id (s : Bytes) (i : Nat) (h : refDatagramK2 s = some i) : 1 ≤ i ∧ i ≤ 8 ∧ i ≠ noMatch := by
  unfold refDatagramK2 at h
  cases hr : refStreamK2 s with
  | some j =>
    rw [hr] at h
    cases h
    rw [refStreamK2_eq_refRun] at hr
    cases hrr : refRun sigsK2 s with
    | none => rw [hrr] at hr; cases hr
    | some ni =>
      obtain ⟨n, i'⟩ := ni
      rw [hrr] at hr
      simp only [Option.map_some, Option.some.injEq] at hr
      subst hr
      obtain ⟨_, _, h3, _⟩ := refRun_pos sigsK2 s proto_rout_init n i' hrr
      exact id_ne_noMatch_of_mem _ (completedAtL_mem _ _ _ _ h3)
  | none =>
    rw [hr] at h
    exact id_ne_noMatch_of_mem i (refEndL_mem _ _ _ (by rw [← refEndK2_eq]; exact h))

/-! ### TCP: any segmentation -/

/-- the incremental identification over TCP segments: search each segment from the row left by
    the previous one, until a signature is completed; returns (id, matcher state) -/
def feedSegs (st : Nat) : List Bytes → Except Site (Nat × Nat)
  | [] => .ok (noMatch, st)
  | a :: rest =>
    match protoTbl.searchNext st a with
    | .error e => .error e
    | .ok (id, st', _) => if id = noMatch then feedSegs st' rest else .ok (id, st')

theorem proto_matchLimit_le : protoTbl.matchLimit ≤ Gen.ProtoSmack.nrows := by decide

theorem feedSegs_eq (segs : List Bytes) : ∀ st, st < protoTbl.matchLimit →
    feedSegs st segs =
      match protoTbl.searchNext st segs.flatten with
      | .error e => .error e
      | .ok (id, st', _) => .ok (id, st') := by
  induction segs with
  | nil =>
    intro st hst
    have hN : st < Gen.ProtoSmack.nrows := Nat.lt_of_lt_of_le hst proto_matchLimit_le
    have h24 := proto_wf.N_lt
    have hc : protoTbl.cnt st = 0 := by
      have := proto_wf.match_iff st hN
      omega
    have hml : st < protoTbl.matchLen := Nat.lt_of_lt_of_le hN proto_wf.N_le
    have hrow : st % 16777216 = st := by omega
    have hcm : st / 16777216 = 0 := by omega
    simp only [feedSegs, List.flatten_nil, SmackTbl.searchNext, hrow, hcm, SmackTbl.innerMatch, if_true, hml,
      hc, ne_eq, not_true_eq_false, if_false]
  | cons a rest ih =>
    intro st hst
    have hN : st < Gen.ProtoSmack.nrows := Nat.lt_of_lt_of_le hst proto_matchLimit_le
    obtain ⟨id, st', n, hsn, _⟩ := searchNext_total proto_wf st a ⟨st, 0, by omega, hN, by omega⟩
    simp only [feedSegs, hsn, List.flatten_cons]
    by_cases hid : id = noMatch
    · subst hid
      obtain ⟨h1, _, _, h4⟩ := searchNext_append proto_wf st hN a rest.flatten st' n hsn
      rw [if_pos rfl, ih st' h1, h4]
      cases protoTbl.searchNext st' rest.flatten with
      | error e => rfl
      | ok r => rfl
    · rw [if_neg hid, searchNext_append_match proto_wf st hN hst a rest.flatten id st' n hsn hid]

end Masscanned.C10
