/-
  Proofs/C10/Ref — the reference identification (`Spec.refStreamK2`, `Spec.refEndK2`) as a
  deterministic automaton over *residual* signature lists (Brzozowski style): the state after a
  prefix `w` is the list of signatures whose first `|w|` symbols match `w`, each with the rest of
  its pattern.  Generic in the signature list.
-/
import Masscanned.Spec.SignaturesK2
namespace Masscanned.C10
open Masscanned Masscanned.Spec

abbrev RState := List SigX

def rstepOne (b : UInt8) (g : SigX) : Option SigX :=
  match g.pat with
  | [] => none
  | p :: ps => if symMatchX p b then some { g with pat := ps } else none

/-- consume one byte -/
def rstep (R : RState) (b : UInt8) : RState := R.filterMap (rstepOne b)

/-- a non-end-anchored signature is complete -/
def rout (R : RState) : Option Nat := (R.find? fun g => !g.endAnchored && g.pat.isEmpty).map (·.id)

def completedAtL (L : List SigX) (s : Bytes) (n : Nat) : Option Nat :=
  (L.find? (fun g => !g.endAnchored && g.pat.length = n && n ≤ s.length && prefixMatchX g.pat s)).map (·.id)

def refStreamL (L : List SigX) (s : Bytes) : Option Nat :=
  (List.range (s.length + 1)).findSome? (completedAtL L s)

def refEndL (L : List SigX) (s : Bytes) : Option Nat :=
  (L.find? (fun g =>
    (g.endAnchored && g.pat.length = s.length && prefixMatchX g.pat s) || oneShortOf g s)).map (·.id)

theorem completedAtK2_eq (s : Bytes) (n : Nat) : completedAtK2 s n = completedAtL sigsK2 s n := rfl
theorem refStreamK2_eq (s : Bytes) : refStreamK2 s = refStreamL sigsK2 s := rfl
theorem refEndK2_eq (s : Bytes) : refEndK2 s = refEndL sigsK2 s := rfl

/-- the reference run: number of bytes consumed up to and including the completing one, and the id -/
def refRun : RState → Bytes → Option (Nat × Nat)
  | _, [] => none
  | R, b :: t =>
    match rout (rstep R b) with
    | some i => some (1, i)
    | none => (refRun (rstep R b) t).map fun (n, i) => (n + 1, i)

/-! ### `find?` through `filterMap` -/

theorem find?_filterMap_map {α β γ : Type} (f : α → Option β) (p : α → Bool) (q : β → Bool)
    (h : α → γ) (h' : β → γ) (L : List α)
    (hnone : ∀ a, f a = none → p a = false)
    (hsome : ∀ a b, f a = some b → q b = p a ∧ h' b = h a) :
    ((L.filterMap f).find? q).map h' = (L.find? p).map h := by
  induction L with
  | nil => rfl
  | cons a L ih =>
    cases hf : f a with
    | none =>
      have := hnone a hf
      simp only [List.filterMap_cons, hf, List.find?_cons, this]
      exact ih
    | some b =>
      obtain ⟨h1, h2⟩ := hsome a b hf
      simp only [List.filterMap_cons, hf, List.find?_cons, h1]
      cases hp : p a with
      | true => simp [h2]
      | false => simpa using ih

theorem completedAtL_zero (L : List SigX) (s : Bytes) : completedAtL L s 0 = rout L := by
  unfold completedAtL rout
  congr 2
  funext g
  cases hp : g.pat with
  | nil => simp [prefixMatchX]
  | cons p ps => simp

theorem completedAtL_succ (L : List SigX) (b : UInt8) (t : Bytes) (n : Nat) :
    completedAtL L (b :: t) (n + 1) = completedAtL (rstep L b) t n := by
  unfold completedAtL rstep
  symm
  apply find?_filterMap_map
  · intro g hg
    unfold rstepOne at hg
    cases hp : g.pat with
    | nil => simp
    | cons p ps =>
      rw [hp] at hg
      simp only at hg
      split at hg
      · cases hg
      · rename_i hm
        simp [prefixMatchX, hm]
  · intro g g' hg
    unfold rstepOne at hg
    cases hp : g.pat with
    | nil => rw [hp] at hg; cases hg
    | cons p ps =>
      rw [hp] at hg
      simp only at hg
      split at hg
      · rename_i hm
        cases hg
        simp [prefixMatchX, hm]
      · cases hg

theorem refStreamL_nil (L : List SigX) : refStreamL L [] = rout L := by
  unfold refStreamL
  simp [List.range_succ, completedAtL_zero]

theorem refStreamL_cons (L : List SigX) (b : UInt8) (t : Bytes) :
    refStreamL L (b :: t) = match rout L with
      | some i => some i
      | none => refStreamL (rstep L b) t := by
  unfold refStreamL
  rw [List.length_cons, List.range_succ_eq_map, List.findSome?_cons, completedAtL_zero]
  cases rout L with
  | some i => rfl
  | none =>
    simp only [List.findSome?_map]
    congr 1
    funext n
    exact completedAtL_succ L b t n

theorem refStreamL_eq_refRun (L : List SigX) (s : Bytes) (h0 : rout L = none) :
    refStreamL L s = (refRun L s).map (·.2) := by
  induction s generalizing L with
  | nil => simp [refStreamL_nil, h0, refRun]
  | cons b t ih =>
    rw [refStreamL_cons, h0]
    simp only [refRun]
    cases hr : rout (rstep L b) with
    | some i =>
      cases t with
      | nil => simp [refStreamL_nil, hr]
      | cons c t' => simp [refStreamL_cons, hr]
    | none =>
      rw [ih _ hr]
      cases refRun (rstep L b) t <;> simp

/-- position information: the reported length is the least completed prefix length -/
theorem refRun_pos (L : List SigX) (s : Bytes) (h0 : rout L = none) (n i : Nat)
    (h : refRun L s = some (n, i)) :
    n ≤ s.length ∧ 1 ≤ n ∧ completedAtL L s n = some i ∧ ∀ m, m < n → completedAtL L s m = none := by
  induction s generalizing L n i with
  | nil => simp [refRun] at h
  | cons b t ih =>
    simp only [refRun] at h
    cases hr : rout (rstep L b) with
    | some j =>
      rw [hr] at h
      simp only [Option.some.injEq, Prod.mk.injEq] at h
      obtain ⟨rfl, rfl⟩ := h
      refine ⟨by simp, by omega, ?_, ?_⟩
      · rw [completedAtL_succ, completedAtL_zero, hr]
      · intro m hm
        have : m = 0 := by omega
        subst this
        rw [completedAtL_zero, h0]
    | none =>
      rw [hr] at h
      cases hrr : refRun (rstep L b) t with
      | none => rw [hrr] at h; simp at h
      | some ni =>
        obtain ⟨n', i'⟩ := ni
        rw [hrr] at h
        simp only [Option.map_some, Option.some.injEq, Prod.mk.injEq] at h
        obtain ⟨rfl, rfl⟩ := h
        obtain ⟨h1, h2, h3, h4⟩ := ih (rstep L b) hr n' i' hrr
        refine ⟨by simp; omega, by omega, ?_, ?_⟩
        · rw [completedAtL_succ]; exact h3
        · intro m hm
          cases m with
          | zero => rw [completedAtL_zero, h0]
          | succ m' => rw [completedAtL_succ]; exact h4 m' (by omega)

/-! ### end of datagram -/

theorem refEndL_cons (L : List SigX) (b : UInt8) (t : Bytes) :
    refEndL L (b :: t) = refEndL (rstep L b) t := by
  unfold refEndL rstep
  symm
  apply find?_filterMap_map
  · intro g hg
    unfold rstepOne at hg
    cases hp : g.pat with
    | nil => simp [oneShortOf, hp]
    | cons p ps =>
      rw [hp] at hg
      simp only at hg
      split at hg
      · cases hg
      · rename_i hm
        cases ps with
        | nil => simp [oneShortOf, hp, prefixMatchX, hm]
        | cons p2 ps' => simp [oneShortOf, hp, prefixMatchX, hm]
  · intro g g' hg
    unfold rstepOne at hg
    cases hp : g.pat with
    | nil => rw [hp] at hg; cases hg
    | cons p ps =>
      rw [hp] at hg
      simp only at hg
      split at hg
      · rename_i hm
        cases hg
        cases ps with
        | nil => cases t <;> simp [oneShortOf, hp, prefixMatchX, hm]
        | cons p2 ps' => simp [oneShortOf, hp, prefixMatchX, hm, List.getLast?_cons_cons]
      · cases hg

theorem refEndL_foldl (L : List SigX) (s : Bytes) : refEndL L s = refEndL (s.foldl rstep L) [] := by
  induction s generalizing L with
  | nil => rfl
  | cons b t ih => rw [refEndL_cons, ih]; rfl

/-- ids reported by the reference are ids of the list -/
theorem completedAtL_mem (L : List SigX) (s : Bytes) (n i : Nat) (h : completedAtL L s n = some i) :
    ∃ g ∈ L, g.id = i := by
  unfold completedAtL at h
  cases hf : L.find? _ with
  | none => rw [hf] at h; simp at h
  | some g =>
    rw [hf] at h
    simp at h
    exact ⟨g, List.mem_of_find?_eq_some hf, h⟩

theorem refEndL_mem (L : List SigX) (s : Bytes) (i : Nat) (h : refEndL L s = some i) :
    ∃ g ∈ L, g.id = i := by
  unfold refEndL at h
  cases hf : L.find? _ with
  | none => rw [hf] at h; simp at h
  | some g =>
    rw [hf] at h
    simp at h
    exact ⟨g, List.mem_of_find?_eq_some hf, h⟩

end Masscanned.C10
