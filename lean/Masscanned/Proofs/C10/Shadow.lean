/-
  Proofs/C10/Shadow — the shadow-aware reference (`Spec.refStreamK2`, `Spec.refDatagramK2`)
  differs from the published reference (`Spec.refStream`, `Spec.refDatagram`) only on
  `Spec.shadowed` inputs (resp. on the one-byte-short RPC datagrams).
-/
import Masscanned.Spec.SignaturesK2
namespace Masscanned.C10
open Masscanned Masscanned.Spec

theorem find?_congr_mem {α : Type} (p q : α → Bool) (l : List α) (h : ∀ x ∈ l, p x = q x) :
    l.find? p = l.find? q := by
  induction l with
  | nil => rfl
  | cons a t ih =>
    simp only [List.find?_cons, h a (by simp)]
    rw [ih (fun x hx => h x (by simp [hx]))]

theorem prefixMatchX_ofSym (p : List Sym) (s : Bytes) :
    prefixMatchX (p.map SymX.ofSym) s = prefixMatch p s := by
  induction p generalizing s with
  | nil => rfl
  | cons a t ih =>
    cases s with
    | nil => rfl
    | cons b bs =>
      simp only [List.map_cons, prefixMatchX, prefixMatch, ih]
      cases a <;> rfl

/-- replacing a wildcard by "any byte except `l`" -/
theorem prefixMatchX_set (P : List SymX) (i : Nat) (l : List UInt8) (d : UInt8) (s : Bytes)
    (h : P[i]? = some .any) :
    prefixMatchX (P.set i (.anyExcept l)) s = (prefixMatchX P s && !(l.contains (s.getD i d))) := by
  induction P generalizing i s with
  | nil => simp at h
  | cons p ps ih =>
    cases s with
    | nil => cases i <;> simp [prefixMatchX]
    | cons b t =>
      cases i with
      | zero =>
        simp only [List.getElem?_cons_zero, Option.some.injEq] at h
        subst h
        simp only [List.set_cons_zero, prefixMatchX, symMatchX, List.getD_cons_zero, Bool.true_and]
        rw [Bool.and_comm]
      | succ j =>
        simp only [List.getElem?_cons_succ] at h
        simp only [List.set_cons_succ, prefixMatchX, List.getD_cons_succ, ih j t h, Bool.and_assoc]

/-- classification of the published signatures with respect to the shadowing -/
theorem shadow_cases : ∀ g ∈ sigs,
    (g.pat = patStunMagic ∧ shadowPat g = (patStunMagic.map SymX.ofSym).set 2 (.anyExcept [0])) ∨
    (g.pat = anyN 4 ++ rpcCall ∧
      shadowPat g = (((anyN 4 ++ rpcCall).map SymX.ofSym).set 0 (.anyExcept nineBytes)).set 4 (.anyExcept [0])) ∨
    (g.pat = rpcCall ∧ shadowPat g = (rpcCall.map SymX.ofSym).set 0 (.anyExcept nineBytes)) ∨
    (shadowPat g = g.pat.map SymX.ofSym) := by decide +kernel

theorem shadowPat_length : ∀ g ∈ sigs, (shadowPat g).length = g.pat.length := by decide +kernel

theorem not_shadowed_iff (s : Bytes) (h : shadowed s = false) :
    (prefixMatch patStunMagic s = true → ([0] : List UInt8).contains (s.getD 2 1) = false) ∧
    (prefixMatch (anyN 4 ++ rpcCall) s = true →
      nineBytes.contains (s.getD 0 1) = false ∧ ([0] : List UInt8).contains (s.getD 4 1) = false) ∧
    (prefixMatch rpcCall s = true → nineBytes.contains (s.getD 0 1) = false) := by
  unfold shadowed at h
  simp only [Bool.or_eq_false_iff, Bool.and_eq_false_iff, decide_eq_false_iff_not] at h
  obtain ⟨⟨h1, h2⟩, h3⟩ := h
  refine ⟨?_, ?_, ?_⟩
  · intro hp
    rcases h1 with h1 | h1
    · rw [hp] at h1; cases h1
    · simp only [List.contains_cons, List.contains_nil, Bool.or_false, beq_eq_false_iff_ne, ne_eq]
      exact fun e => h1 e
  · intro hp
    rcases h2 with h2 | h2
    · rw [hp] at h2; cases h2
    · refine ⟨h2.1, ?_⟩
      simp only [List.contains_cons, List.contains_nil, Bool.or_false, beq_eq_false_iff_ne, ne_eq]
      exact fun e => h2.2 e
  · intro hp
    rcases h3 with h3 | h3
    · rw [hp] at h3; cases h3
    · exact h3

theorem prefixMatchX_shadow (s : Bytes) (h : shadowed s = false) :
    ∀ g ∈ sigs, prefixMatchX (shadowPat g) s = prefixMatch g.pat s := by
  obtain ⟨h1, h2, h3⟩ := not_shadowed_iff s h
  intro g hg
  rcases shadow_cases g hg with ⟨e1, e2⟩ | ⟨e1, e2⟩ | ⟨e1, e2⟩ | e
  · rw [e2, e1, prefixMatchX_set _ 2 [0] 1 s (by decide), prefixMatchX_ofSym]
    cases hp : prefixMatch patStunMagic s with
    | false => rfl
    | true => rw [h1 hp]; rfl
  · rw [e2, e1, prefixMatchX_set _ 4 [0] 1 s (by decide), prefixMatchX_set _ 0 nineBytes 1 s (by decide),
      prefixMatchX_ofSym]
    cases hp : prefixMatch (anyN 4 ++ rpcCall) s with
    | false => rfl
    | true => rw [(h2 hp).1, (h2 hp).2]; rfl
  · rw [e2, e1, prefixMatchX_set _ 0 nineBytes 1 s (by decide), prefixMatchX_ofSym]
    cases hp : prefixMatch rpcCall s with
    | false => rfl
    | true => rw [h3 hp]; rfl
  · rw [e, prefixMatchX_ofSym]

theorem completedAtK2_eq_of_not_shadowed (s : Bytes) (h : shadowed s = false) (n : Nat) :
    completedAtK2 s n = completedAt s n := by
  unfold completedAtK2 completedAt sigsK2
  rw [List.find?_map, Option.map_map]
  have : ∀ x ∈ sigs,
      ((fun g : SigX => !g.endAnchored && decide (g.pat.length = n) && decide (n ≤ s.length) && prefixMatchX g.pat s) ∘
        fun g : Sig => ({ id := g.id, pat := shadowPat g, endAnchored := g.endAnchored } : SigX)) x =
      (fun g : Sig => !g.endAnchored && decide (g.pat.length = n) && decide (n ≤ s.length) && prefixMatch g.pat s) x := by
    intro g hg
    simp only [Function.comp, shadowPat_length g hg, prefixMatchX_shadow s h g hg]
  rw [find?_congr_mem _ _ _ this]
  rfl

theorem refStreamK2_eq_of_not_shadowed (s : Bytes) (h : shadowed s = false) :
    refStreamK2 s = refStream s := by
  unfold refStreamK2 refStream
  congr 1
  funext n
  exact completedAtK2_eq_of_not_shadowed s h n

theorem refEndK2_eq_of_not_shadowed (s : Bytes) (h : shadowed s = false) (hq : rpcOneShort s = false) :
    refEndK2 s = refEnd s := by
  unfold refEndK2 refEnd
  have hq' : ∀ g ∈ sigs, oneShortOf { id := g.id, pat := shadowPat g, endAnchored := g.endAnchored } s = false := by
    unfold rpcOneShort sigsK2 at hq
    rw [List.any_map, List.any_eq_false] at hq
    intro g hg
    simpa using hq g hg
  unfold sigsK2
  rw [List.find?_map, Option.map_map]
  have : ∀ x ∈ sigs,
      ((fun g : SigX => (g.endAnchored && decide (g.pat.length = s.length) && prefixMatchX g.pat s) || oneShortOf g s) ∘
        fun g : Sig => ({ id := g.id, pat := shadowPat g, endAnchored := g.endAnchored } : SigX)) x =
      (fun g : Sig => g.endAnchored && decide (g.pat.length = s.length) && prefixMatch g.pat s) x := by
    intro g hg
    simp only [Function.comp, shadowPat_length g hg, prefixMatchX_shadow s h g hg, hq' g hg, Bool.or_false]
  rw [find?_congr_mem _ _ _ this]
  rfl

theorem refDatagramK2_eq_of_not_shadowed (s : Bytes) (h : shadowed s = false) (hq : rpcOneShort s = false) :
    refDatagramK2 s = refDatagram s := by
  unfold refDatagramK2 refDatagram
  rw [refStreamK2_eq_of_not_shadowed s h, refEndK2_eq_of_not_shadowed s h hq]
  rfl

end Masscanned.C10
