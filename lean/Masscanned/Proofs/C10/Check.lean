/-
  Proofs/C10/Check — executable, kernel-friendly checkers for a compiled table:
  `wfCheck` (range facts) and `okRows` (closure of a Nat-encoded row annotation against a
  signature list), with their soundness theorems.  The annotation maps a non-match row to an
  index-level reference state (position `k`, list of still-alive signature indices).
-/
import Masscanned.Proofs.C10.Smack
namespace Masscanned.C10
open Masscanned Masscanned.Spec

def allBelow (f : Nat → Bool) : Nat → Bool
  | 0 => true
  | n + 1 => f n && allBelow f n

theorem allBelow_iff (f : Nat → Bool) (n : Nat) : allBelow f n = true ↔ ∀ i, i < n → f i = true := by
  induction n with
  | zero => simp [allBelow]
  | succ n ih =>
    simp only [allBelow, Bool.and_eq_true, ih]
    constructor
    · rintro ⟨h1, h2⟩ i hi
      by_cases h : i = n
      · subst h; exact h1
      · exact h2 i (by omega)
    · intro h
      exact ⟨h n (by omega), fun i hi => h i (by omega)⟩

/-! ### range facts -/

def wfCheck (T : SmackTbl) (N : Nat) : Bool :=
  T.transLen == N * 2 ^ T.rowShift &&
  allBelow (fun c => Nat.blt (T.c2s c) (2 ^ T.rowShift)) 258 &&
  allBelow (fun k => Nat.blt (T.trans k) N) T.transLen &&
  Nat.ble N T.matchLen && Nat.blt N 16777216 &&
  allBelow (fun r => (T.ids r).length == T.cnt r && Nat.blt (T.cnt r) 255 &&
    ((T.cnt r != 0) == Nat.ble T.matchLimit r) && (T.ids r).all (· != noMatch)) N

theorem wf_of_check (T : SmackTbl) (N : Nat) (h : wfCheck T N = true) : WF T N := by
  simp only [wfCheck, Bool.and_eq_true, allBelow_iff, beq_iff_eq, Nat.blt_eq, Nat.ble_eq] at h
  obtain ⟨⟨⟨⟨⟨h1, h2⟩, h3⟩, h4⟩, h5⟩, h6⟩ := h
  refine ⟨h1, h2, h3, h4, h5, fun r hr => (h6 r hr).1.1.1, fun r hr => (h6 r hr).1.1.2, ?_, ?_⟩
  · intro r hr
    have := (h6 r hr).1.2
    by_cases hc : T.cnt r = 0
    · simp only [hc, bne_self_eq_false] at this
      have : ¬ T.matchLimit ≤ r := by
        intro hle; rw [← Nat.ble_eq] at hle; rw [hle] at this; cases this
      simp [hc, this]
    · have hb : (T.cnt r != 0) = true := by simp [hc]
      rw [hb] at this
      have : T.matchLimit ≤ r := by rw [← Nat.ble_eq]; exact this.symm
      simp [hc, this]
  · intro r hr id hid
    have := (h6 r hr).2
    rw [List.all_eq_true] at this
    simpa using this id hid

/-! ### index-level reference states and their Nat encoding -/

abbrev IState := Nat × List Nat

def decodeR (L : List SigX) (st : IState) : RState :=
  st.2.filterMap fun i => L[i]?.map fun g => { g with pat := g.pat.drop st.1 }

def encAl : List Nat → Nat
  | [] => 0
  | i :: t => (i + 1) + 32 * encAl t

def decAl : Nat → Nat → List Nat
  | 0, _ => []
  | f + 1, n => if n = 0 then [] else (n % 32 - 1) :: decAl f (n / 32)

theorem decAl_encAl (al : List Nat) : ∀ f, (∀ i ∈ al, i < 31) → al.length ≤ f → decAl f (encAl al) = al := by
  induction al with
  | nil => intro f _ _; cases f <;> simp [decAl, encAl]
  | cons i t ih =>
    intro f hb hl
    cases f with
    | zero => simp at hl
    | succ f =>
      have hi : i < 31 := hb i (by simp)
      have e : encAl (i :: t) = i + 1 + 32 * encAl t := rfl
      have h0 : encAl (i :: t) ≠ 0 := by omega
      have h1 : encAl (i :: t) % 32 - 1 = i := by omega
      have h2 : encAl (i :: t) / 32 = encAl t := by omega
      show (if encAl (i :: t) = 0 then [] else (encAl (i :: t) % 32 - 1) :: decAl f (encAl (i :: t) / 32)) = i :: t
      rw [if_neg h0, h1, h2, ih f (fun j hj => hb j (by simp [hj])) (by simpa using hl)]

def field (annN row : Nat) : Nat := (annN >>> (128 * row)) % 2 ^ 128
def annOf (annN row : Nat) : IState := (field annN row % 256, decAl 24 (field annN row / 256))
def encSt (k : Nat) (al : List Nat) : Nat := k + 256 * encAl al

theorem annOf_of_field (annN row k : Nat) (al : List Nat) (h : field annN row = encSt k al)
    (hk : k < 256) (hb : ∀ i ∈ al, i < 31) (hl : al.length ≤ 24) : annOf annN row = (k, al) := by
  unfold annOf
  rw [h]
  unfold encSt
  have h1 : (k + 256 * encAl al) % 256 = k := by omega
  have h2 : (k + 256 * encAl al) / 256 = encAl al := by omega
  rw [h1, h2, decAl_encAl al 24 hb hl]

/-! ### per-row heads -/

abbrev Head := Nat × Option SymX × Bool × Nat

def headOf (L : List SigX) (k i : Nat) : Head :=
  match L[i]? with
  | some g => (i, g.pat[k]?, !g.endAnchored && Nat.ble g.pat.length (k + 1), g.id)
  | none => (i, none, false, 0)

def headOK (b : UInt8) (h : Head) : Bool :=
  match h.2.1 with
  | some p => symMatchX p b
  | none => false

theorem rstep_decodeR (L : List SigX) (k : Nat) (b : UInt8) (al : List Nat) :
    rstep (decodeR L (k, al)) b =
      decodeR L (k + 1, (((al.map (headOf L k)).filter (headOK b)).map (·.1))) := by
  induction al with
  | nil => rfl
  | cons i t ih =>
    simp only [decodeR, rstep] at ih ⊢
    simp only [List.map_cons, List.filter_cons, List.filterMap_cons]
    cases hL : L[i]? with
    | none =>
      simp only [Option.map_none, headOf, hL, headOK]
      exact ih
    | some g =>
      simp only [Option.map_some, List.filterMap_cons, headOf, hL, headOK]
      cases hk : g.pat[k]? with
      | none =>
        have hlen : g.pat.length ≤ k := by
          rcases Nat.lt_or_ge k g.pat.length with h | h
          · rw [List.getElem?_eq_getElem h] at hk; cases hk
          · exact h
        simp only [rstepOne, List.drop_eq_nil_of_le hlen]
        exact ih
      | some p =>
        have hlt : k < g.pat.length := by
          rcases Nat.lt_or_ge k g.pat.length with h | h
          · exact h
          · rw [List.getElem?_eq_none h] at hk; cases hk
        have hp : g.pat[k] = p := by
          rw [List.getElem?_eq_getElem hlt] at hk; exact Option.some.inj hk
        have hd : g.pat.drop k = p :: g.pat.drop (k + 1) := by
          rw [List.drop_eq_getElem_cons hlt, hp]
        simp only [rstepOne, hd]
        by_cases hm : symMatchX p b = true
        · simp only [hm, if_true, List.map_cons, List.filterMap_cons, hL, Option.map_some]
          rw [ih]
        · simp only [hm, Bool.false_eq_true, if_false]
          exact ih

theorem headOf_fst (L : List SigX) (k i : Nat) : (headOf L k i).1 = i := by
  unfold headOf; cases L[i]? <;> rfl

theorem rout_decodeR (L : List SigX) (k : Nat) (al : List Nat) :
    rout (decodeR L (k + 1, al)) = ((al.map (headOf L k)).find? (·.2.2.1)).map (·.2.2.2) := by
  induction al with
  | nil => rfl
  | cons i t ih =>
    simp only [decodeR, rout] at ih ⊢
    simp only [List.map_cons, List.filterMap_cons, List.find?_cons]
    cases hL : L[i]? with
    | none =>
      simp only [Option.map_none, headOf, hL]
      exact ih
    | some g =>
      simp only [Option.map_some, List.find?_cons, headOf, hL]
      have : (List.drop (k + 1) g.pat).isEmpty = Nat.ble g.pat.length (k + 1) := by
        rw [Bool.eq_iff_iff]
        simp [List.isEmpty_iff, List.drop_eq_nil_iff, Nat.ble_eq]
      rw [this]
      cases (!g.endAnchored && Nat.ble g.pat.length (k + 1)) with
      | true => rfl
      | false => exact ih

theorem map_headOf_of_sub (L : List SigX) (k : Nat) (hs : List Head)
    (h : ∀ x ∈ hs, headOf L k x.1 = x) : (hs.map (·.1)).map (headOf L k) = hs := by
  induction hs with
  | nil => rfl
  | cons x t ih =>
    simp only [List.map_cons]
    rw [h x (by simp), ih (fun y hy => h y (by simp [hy]))]

theorem heads_sub (L : List SigX) (k : Nat) (b : UInt8) (al : List Nat) :
    ∀ x ∈ (al.map (headOf L k)).filter (headOK b), headOf L k x.1 = x := by
  intro x hx
  rw [List.mem_filter, List.mem_map] at hx
  obtain ⟨⟨i, _, rfl⟩, _⟩ := hx
  rw [headOf_fst]

/-! ### the closure checker -/

def okByte (T : SmackTbl) (annN k : Nat) (heads : List Head) (row n : Nat) : Bool :=
  let idx := row * 2 ^ T.rowShift + T.c2s n
  let row' := T.trans idx
  let hs := heads.filter (headOK (UInt8.ofNat n))
  let out := (hs.find? (·.2.2.1)).map (·.2.2.2)
  Nat.blt idx T.transLen &&
  (match Nat.ble T.matchLimit row' with
   | true =>
     (match out with
      | some id => T.ids row' == [id] && T.cnt row' == 1 && Nat.blt row' T.matchLen && Nat.blt row' 16777216
      | none => false)
   | false =>
     out.isNone &&
     (match hs.isEmpty with
      | true => field annN row' / 256 == 0
      | false => field annN row' == encSt (k + 1) (hs.map (·.1)) && Nat.blt (k + 1) 256 &&
          (hs.all fun h => Nat.blt h.1 31) && Nat.ble hs.length 24))

def okEnd (T : SmackTbl) (L : List SigX) (st : IState) (row : Nat) : Bool :=
  let idx := row * 2 ^ T.rowShift + T.c2s charAnchorEnd
  let row' := T.trans idx
  Nat.blt idx T.transLen && Nat.blt row' T.matchLen &&
  (match refEndL (decodeR L st) [] with
   | none => T.cnt row' == 0
   | some id => T.cnt row' == 1 && T.ids row' == [id])

def okRow (T : SmackTbl) (L : List SigX) (annN row : Nat) : Bool :=
  let st := annOf annN row
  T.cnt row == 0 && Nat.blt row T.matchLen && Nat.blt row 16777216 &&
  allBelow (okByte T annN st.1 (st.2.map (headOf L st.1)) row) 256 &&
  okEnd T L st row

/-- rows `lo .. lo+n-1` -/
def okRows (T : SmackTbl) (L : List SigX) (annN lo n : Nat) : Bool :=
  allBelow (fun r => okRow T L annN (lo + r)) n

theorem decodeR_nil (L : List SigX) (k : Nat) : decodeR L (k, []) = [] := rfl

theorem closed_of_check (T : SmackTbl) (L : List SigX) (annN : Nat)
    (h : ∀ row, row < T.matchLimit → okRow T L annN row = true) :
    Closed T (fun row => decodeR L (annOf annN row)) := by
  refine ⟨?_, ?_, ?_⟩
  · intro row hr
    have := h row hr
    simp only [okRow, Bool.and_eq_true, beq_iff_eq, Nat.blt_eq] at this
    exact ⟨this.1.1.1.1, this.1.1.1.2, this.1.1.2⟩
  · intro row hr b
    have hrow := h row hr
    simp only [okRow, Bool.and_eq_true, allBelow_iff] at hrow
    have hb := hrow.1.2 b.toNat b.toNat_lt
    generalize hst : annOf annN row = st at hb
    obtain ⟨k, al⟩ := st
    simp only [okByte, UInt8.ofNat_toNat, Bool.and_eq_true, Nat.blt_eq] at hb
    obtain ⟨hidx, hb⟩ := hb
    have hstep := rstep_decodeR L k b al
    have hsub := heads_sub L k b al
    generalize hhs : (al.map (headOf L k)).filter (headOK b) = hs at hb hstep hsub
    have hout : rout (rstep (decodeR L (k, al)) b) = (hs.find? (·.2.2.1)).map (·.2.2.2) := by
      rw [hstep, rout_decodeR, map_headOf_of_sub L k hs hsub]
    refine ⟨hidx, ?_, ?_⟩
    · intro hge
      have hble : Nat.ble T.matchLimit (mstep T row b.toNat) = true := by rw [Nat.ble_eq]; exact hge
      unfold mstep at hble
      rw [hble] at hb
      simp only at hb
      cases ho : (hs.find? (·.2.2.1)).map (·.2.2.2) with
      | none => rw [ho] at hb; cases hb
      | some id =>
        rw [ho] at hb
        simp only [Bool.and_eq_true, beq_iff_eq, Nat.blt_eq] at hb
        exact ⟨id, by rw [hout, ho], hb.1.1.1, hb.1.1.2, hb.1.2, hb.2⟩
    · intro hlt
      have hble : Nat.ble T.matchLimit (mstep T row b.toNat) = false := by
        cases hx : Nat.ble T.matchLimit (mstep T row b.toNat) with
        | false => rfl
        | true => rw [Nat.ble_eq] at hx; omega
      unfold mstep at hble
      rw [hble] at hb
      simp only [Bool.and_eq_true, Option.isNone_iff_eq_none] at hb
      obtain ⟨ho, hb⟩ := hb
      refine ⟨by rw [hout, ho], ?_⟩
      show decodeR L (annOf annN (mstep T row b.toNat)) = rstep (decodeR L (k, al)) b
      rw [hstep]
      unfold mstep
      cases he : hs.isEmpty with
      | true =>
        rw [he] at hb
        simp only [beq_iff_eq] at hb
        have hnil : hs = [] := by simpa using he
        have : (annOf annN (T.trans (row * 2 ^ T.rowShift + T.c2s b.toNat))).2 = [] := by
          simp only [annOf, hb]; rfl
        rw [hnil]
        simp only [decodeR, this, List.map_nil, List.filterMap_nil]
      | false =>
        rw [he] at hb
        simp only [Bool.and_eq_true, beq_iff_eq, Nat.blt_eq, Nat.ble_eq, List.all_eq_true] at hb
        obtain ⟨⟨⟨h1, h2⟩, h3⟩, h4⟩ := hb
        rw [annOf_of_field annN _ (k + 1) (hs.map (·.1)) h1 h2
          (by intro i hi; rw [List.mem_map] at hi; obtain ⟨x, hx, rfl⟩ := hi; exact h3 x hx)
          (by simpa using h4)]
  · intro row hr
    have hrow := h row hr
    simp only [okRow, Bool.and_eq_true] at hrow
    have he := hrow.2
    simp only [okEnd, Bool.and_eq_true, Nat.blt_eq] at he
    obtain ⟨⟨h1, h2⟩, h3⟩ := he
    refine ⟨h1, h2, ?_⟩
    unfold mstep
    cases hre : refEndL (decodeR L (annOf annN row)) [] with
    | none =>
      rw [hre] at h3
      simp only [beq_iff_eq] at h3
      exact Or.inl ⟨h3, rfl⟩
    | some id =>
      rw [hre] at h3
      simp only [Bool.and_eq_true, beq_iff_eq] at h3
      exact Or.inr ⟨id, h3.1, h3.2, rfl⟩

theorem closed_of_okRows (T : SmackTbl) (L : List SigX) (annN : Nat) (blocks : List (Nat × Nat))
    (hb : ∀ p ∈ blocks, okRows T L annN p.1 p.2 = true)
    (hcover : ∀ row, row < T.matchLimit → ∃ p ∈ blocks, p.1 ≤ row ∧ row < p.1 + p.2) :
    Closed T (fun row => decodeR L (annOf annN row)) := by
  apply closed_of_check
  intro row hr
  obtain ⟨p, hp, h1, h2⟩ := hcover row hr
  have := hb p hp
  unfold okRows at this
  rw [allBelow_iff] at this
  have := this (row - p.1) (by omega)
  rwa [show p.1 + (row - p.1) = row by omega] at this

/-! ### computing an annotation (not used in proofs: the annotation is only a witness that the
    kernel re-checks; use `#eval annHex T L` to regenerate the literal when the table changes) -/

def annRound (T : SmackTbl) (L : List SigX) (arr : Array (Option IState)) : Array (Option IState) :=
  (List.range T.matchLimit).foldl (fun arr row =>
    match arr.getD row none with
    | none => arr
    | some (k, al) =>
      (List.range 256).foldl (fun arr n =>
        let row' := mstep T row n
        if row' < T.matchLimit then
          match arr.getD row' none with
          | some _ => arr
          | none => arr.setIfInBounds row'
              (some (k + 1, ((al.map (headOf L k)).filter (headOK (UInt8.ofNat n))).map (·.1)))
        else arr) arr) arr

def annCompute (T : SmackTbl) (L : List SigX) : Nat :=
  let init : Array (Option IState) := (Array.replicate T.matchLimit none).setIfInBounds 0 (some (0, List.range L.length))
  let arr := (List.range 40).foldl (fun a _ => annRound T L a) init
  arr.toList.zipIdx.foldl (fun acc (e, i) =>
    match e with
    | some (k, al) => acc + encSt k al * 2 ^ (128 * i)
    | none => acc) 0

def annHex (T : SmackTbl) (L : List SigX) : String := "0x" ++ String.ofList (Nat.toDigits 16 (annCompute T L))

end Masscanned.C10
