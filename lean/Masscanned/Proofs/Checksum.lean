/-
  Proofs/Checksum — helper lemmas relating the model's Internet-checksum helpers
  (`sumWords`, `fold16`, `finalize`, `setU16`) to the spec's vocabulary (`Spec.wsum`, `Spec.ones`,
  `Spec.csumOk`).
-/
import Masscanned.Model.Checksum
import Masscanned.Spec.Wire
namespace Masscanned
open Spec

/-! ### folding -/

theorem fold16_lt (x : Nat) : fold16 x < 65536 := by
  fun_induction fold16 x <;> omega

theorem fold16_mod (x : Nat) : fold16 x % 65535 = x % 65535 := by
  fun_induction fold16 x <;> omega

theorem fold16_pos (x : Nat) (h : 0 < x) : 0 < fold16 x := by
  fun_induction fold16 x <;> omega

theorem fold16_zero : fold16 0 = 0 := by
  unfold fold16; simp

theorem fold16_of_lt (x : Nat) (h : x < 65536) : fold16 x = x := by
  unfold fold16; simp [h]

theorem finalize_lt (s : Nat) : finalize s < 65536 := by
  unfold finalize; omega

/-- the folding definition agrees with the spec's modular definition -/
theorem fold16_ones (n : Nat) : fold16 n = ones n := by
  have h1 := fold16_lt n
  have h2 := fold16_mod n
  unfold ones
  split
  · subst n; exact fold16_zero
  · have h3 := fold16_pos n (by omega)
    split <;> omega

theorem sumWords_wsum (b : Bytes) : sumWords b = wsum b := by
  fun_induction sumWords b <;> simp_all [wsum]

/-- writing the complement of the folded sum makes the total fold to 0xFFFF -/
theorem fold16_add_finalize (s : Nat) : fold16 (s + finalize s) = 65535 := by
  unfold finalize
  have h1 := fold16_lt s
  have h2 := fold16_mod s
  have h4 := fold16_lt (s + (65535 - fold16 s))
  have h5 := fold16_mod (s + (65535 - fold16 s))
  by_cases hs : s = 0
  · subst s; rw [fold16_zero]; exact fold16_of_lt _ (by omega)
  · have h3 := fold16_pos s (by omega)
    have h6 := fold16_pos (s + (65535 - fold16 s)) (by omega)
    omega

theorem ones_add_finalize (s : Nat) : ones (s + finalize s) = 65535 := by
  rw [← fold16_ones]; exact fold16_add_finalize s

/-- `finalize` is 0 exactly when the folded sum is 0xFFFF; writing 0xFFFF instead keeps the block valid -/
theorem ones_add_ffff_of_finalize_zero (s : Nat) (h : finalize s = 0) : ones (s + 65535) = 65535 := by
  unfold finalize at h
  have h1 := fold16_lt s
  have h2 := fold16_mod s
  unfold ones
  split
  · omega
  · split <;> omega

/-! ### word sums -/

theorem wsum_append_even (a b : Bytes) (h : a.length % 2 = 0) : wsum (a ++ b) = wsum a + wsum b := by
  fun_induction wsum a
  · simp
  · simp at h
  · rename_i x y t ih
    simp only [List.length_cons] at h
    have := ih (by omega)
    simp only [List.cons_append, wsum, this]
    omega

theorem byte_toNat (n : Nat) : (byte n).toNat = n % 256 := by
  simp [byte]

theorem wsum_u16be (v : Nat) (h : v < 65536) : wsum (u16be v) = v := by
  simp only [u16be, wsum, byte_toNat]
  omega

theorem setU16_length (pkt : Bytes) (off v : Nat) (h : off + 2 ≤ pkt.length) :
    (setU16 pkt off v).length = pkt.length := by
  simp [setU16, u16be]; omega

/-- inserting a 16-bit value into a zeroed field at an even offset adds it to the word sum -/
theorem wsum_setU16 (pkt : Bytes) (off v : Nat) (heven : off % 2 = 0) (hlen : off + 2 ≤ pkt.length)
    (h0 : pkt.getD off 0 = 0) (h1 : pkt.getD (off + 1) 0 = 0) (hv : v < 65536) :
    wsum (setU16 pkt off v) = wsum pkt + v := by
  have hsplit : pkt = pkt.take off ++ ([0, 0] ++ pkt.drop (off + 2)) := by
    conv => lhs; rw [← List.take_append_drop off pkt]
    congr 1
    rw [List.drop_eq_getElem_cons (by omega), List.drop_eq_getElem_cons (i := off + 1) (by omega)]
    have hh0 : off < pkt.length := by omega
    have hh1 : off + 1 < pkt.length := by omega
    simp only [List.getD_eq_getElem?_getD, List.getElem?_eq_getElem hh0, List.getElem?_eq_getElem hh1,
      Option.getD_some] at h0 h1
    simp [h0, h1]
  have htl : (pkt.take off).length % 2 = 0 := by
    rw [List.length_take]; omega
  have e1 : wsum (setU16 pkt off v) = wsum (pkt.take off) + (v + wsum (pkt.drop (off + 2))) := by
    unfold setU16
    rw [List.append_assoc, wsum_append_even _ _ htl, wsum_append_even _ _ (by simp [u16be]),
      wsum_u16be v hv]
  have e2 : wsum pkt = wsum (pkt.take off) + (0 + wsum (pkt.drop (off + 2))) := by
    conv => lhs; rw [hsplit]
    rw [wsum_append_even _ _ htl, wsum_append_even _ _ (by simp)]
    simp [wsum]
  omega

/-- the general "insert the checksum" lemma: `pre` is the (even-length) pseudo-header (or `[]`) -/
theorem csumOk_insert (pre pkt : Bytes) (off : Nat) (hpre : pre.length % 2 = 0)
    (heven : off % 2 = 0) (hlen : off + 2 ≤ pkt.length)
    (h0 : pkt.getD off 0 = 0) (h1 : pkt.getD (off + 1) 0 = 0) :
    csumOk (pre ++ setU16 pkt off (finalize (wsum pre + wsum pkt))) = true := by
  unfold csumOk
  rw [wsum_append_even _ _ hpre, wsum_setU16 pkt off _ heven hlen h0 h1 (finalize_lt _), ← Nat.add_assoc,
    ones_add_finalize]
  simp

/-- variant for UDP over IPv6: a computed checksum of 0 is transmitted as 0xFFFF -/
theorem csumOk_insert_ffff (pre pkt : Bytes) (off : Nat) (hpre : pre.length % 2 = 0)
    (heven : off % 2 = 0) (hlen : off + 2 ≤ pkt.length)
    (h0 : pkt.getD off 0 = 0) (h1 : pkt.getD (off + 1) 0 = 0)
    (hz : finalize (wsum pre + wsum pkt) = 0) :
    csumOk (pre ++ setU16 pkt off 65535) = true := by
  unfold csumOk
  rw [wsum_append_even _ _ hpre, wsum_setU16 pkt off _ heven hlen h0 h1 (by omega), ← Nat.add_assoc,
    ones_add_ffff_of_finalize_zero _ hz]
  simp

theorem csumOk_insert_plain (pkt : Bytes) (off : Nat)
    (heven : off % 2 = 0) (hlen : off + 2 ≤ pkt.length)
    (h0 : pkt.getD off 0 = 0) (h1 : pkt.getD (off + 1) 0 = 0) :
    csumOk (setU16 pkt off (csumPlain pkt)) = true := by
  have := csumOk_insert [] pkt off (by simp) heven hlen h0 h1
  simpa [csumPlain, sumWords_wsum, wsum] using this

end Masscanned
