/-
  Proofs/J3/Ident — what an identification by the compiled matcher (`Spec.refStreamK2` /
  `Spec.refDatagramK2`, which it equals on all inputs) says about the payload, per protocol id; and the
  passage from the PUBLISHED reference (`Spec.refStream` / `Spec.refDatagram`, used by the judges through
  `Spec.refOf`) to the shadow-aware one for the signatures that the shadow set K2 does not touch.
-/
import Masscanned.Proofs.J3.Obs
namespace Masscanned.J3
open Masscanned Masscanned.Spec Masscanned.E2E Masscanned.C10

/-! ### tables of facts about the two signature lists (kernel-checked) -/

theorem k2_http : ∀ g ∈ sigsK2, g.id = ID_HTTP →
    httpMethods.any (fun m => g.pat == (m ++ [32, 47]).map SymX.lit) = true := by decide +kernel

theorem k2_ssh : ∀ g ∈ sigsK2, g.id = ID_SSH →
    g.pat = C18.pfx20.map SymX.lit ∨ g.pat = C18.pfx199.map SymX.lit := by decide +kernel

theorem k2_rpc_udp : ∀ g ∈ sigsK2, g.id = ID_RPC_UDP →
    g.pat = patRpc (.anyExcept nineBytes) ∧ g.endAnchored = false := by decide +kernel

/-- only STUN and the two ONC-RPC signatures can be reported at the end of a datagram -/
theorem k2_end_ids : ∀ g ∈ sigsK2, (g.endAnchored = true ∨ g.pat.getLast? = some .any) →
    g.id = ID_STUN ∨ g.id = ID_RPC_TCP ∨ g.id = ID_RPC_UDP := by decide +kernel

theorem pub_smb : ∀ g ∈ sigsPub, (g.id = ID_SMB1 → g.pat = patSmb 255) ∧ (g.id = ID_SMB2 → g.pat = patSmb 254) := by
  decide +kernel

/-! ### inversions -/

/-- an id other than STUN / ONC-RPC found on a datagram was found by the stream search -/
theorem k2_stream_of_datagram (p : Bytes) (i : Nat) (h : refDatagramK2 p = some i)
    (h2 : i ≠ ID_STUN) (h5 : i ≠ ID_RPC_TCP) (h6 : i ≠ ID_RPC_UDP) : refStreamK2 p = some i := by
  unfold refDatagramK2 at h
  cases hs : refStreamK2 p with
  | some j => rw [hs] at h; exact h
  | none =>
    rw [hs] at h
    simp only at h
    rw [refEndK2_eq] at h
    obtain ⟨g, hg, hid, hcase⟩ := refEndL_inv _ _ _ h
    have := k2_end_ids g hg (by
      rcases hcase with ⟨ha, _⟩ | ho
      · exact .inl ha
      · simp only [oneShortOf, Bool.and_eq_true, decide_eq_true_eq] at ho
        exact .inr ho.1.1.2)
    rw [hid] at this
    rcases this with e | e | e
    · exact absurd e h2
    · exact absurd e h5
    · exact absurd e h6

/-- identified as HTTP: the payload starts with an upper-case method, SP, "/" -/
theorem k2_http_inv (p : Bytes) (h : refStreamK2 p = some ID_HTTP) :
    ∃ m ∈ httpMethods, ∃ r, p = m ++ 32 :: r ∧ r.head? = some 47 := by
  rw [refStreamK2_eq] at h
  obtain ⟨g, hg, hid, _, hm⟩ := refStreamL_inv _ _ _ h
  have := k2_http g hg hid
  rw [List.any_eq_true] at this
  obtain ⟨m, hmem, he⟩ := this
  rw [beq_iff_eq] at he
  rw [he, pmX_lits, List.isPrefixOf_iff_prefix] at hm
  obtain ⟨t, ht⟩ := hm
  exact ⟨m, hmem, 47 :: t, by rw [← ht]; simp, rfl⟩

/-- identified as SSH: the payload starts with "SSH-2.0" or "SSH-1.99" -/
theorem k2_ssh_inv (p : Bytes) (h : refStreamK2 p = some ID_SSH) : C18.dispatcherPrefix p = true := by
  rw [refStreamK2_eq] at h
  obtain ⟨g, hg, hid, _, hm⟩ := refStreamL_inv _ _ _ h
  unfold C18.dispatcherPrefix
  rcases k2_ssh g hg hid with e | e
  · rw [e, pmX_lits] at hm; simp [hm]
  · rw [e, pmX_lits] at hm; simp [hm]

/-- identified as ONC-RPC/UDP (stream search or end-of-datagram quirk): the first byte is none of the
    nine shadowed values 00 'C' 'D' 'G' 'H' 'O' 'P' 'S' 'T' -/
theorem k2_rpc_udp_head (p : Bytes) (h : refDatagramK2 p = some ID_RPC_UDP) :
    ∃ b t, p = b :: t ∧ nineBytes.contains b = false := by
  have key : ∀ P : List SymX, prefixMatchX (.anyExcept nineBytes :: P) p = true →
      ∃ b t, p = b :: t ∧ nineBytes.contains b = false := by
    intro P hm
    cases p with
    | nil => simp [prefixMatchX] at hm
    | cons b t =>
      simp only [prefixMatchX, symMatchX, Bool.and_eq_true, Bool.not_eq_true'] at hm
      exact ⟨b, t, rfl, hm.1⟩
  unfold refDatagramK2 at h
  cases hs : refStreamK2 p with
  | some j =>
    rw [hs] at h
    simp only [Option.some.injEq] at h
    subst h
    rw [refStreamK2_eq] at hs
    obtain ⟨g, hg, hid, _, hm⟩ := refStreamL_inv _ _ _ hs
    rw [(k2_rpc_udp g hg hid).1] at hm
    exact key _ hm
  | none =>
    rw [hs] at h
    simp only at h
    rw [refEndK2_eq] at h
    obtain ⟨g, hg, hid, hcase⟩ := refEndL_inv _ _ _ h
    obtain ⟨e, ea⟩ := k2_rpc_udp g hg hid
    rcases hcase with ⟨ha, _⟩ | ho
    · rw [ea] at ha; cases ha
    · simp only [oneShortOf, e, Bool.and_eq_true] at ho
      exact key _ ho.2

/-! ### published reference → shadow-aware reference, for SMB -/

theorem smb_pub_to_K2 (p : Bytes) :
    (refStream p = some ID_SMB1 → refStreamK2 p = some ID_SMB1) ∧
    (refStream p = some ID_SMB2 → refStreamK2 p = some ID_SMB2) := by
  obtain ⟨a1, _, a2, _⟩ := sig_smb
  constructor
  · intro h
    rw [refStream_eq_pub] at h
    obtain ⟨g, hg, hid, _, hm⟩ := refStreamL_inv _ _ _ h
    rw [(pub_smb g hg).1 hid] at hm
    rw [refStreamK2_eq]
    exact refStreamL_of_firstX sigsK2 17 _ p a1 (firstX_K2 17 (by omega) (by omega) (by omega)) hm
  · intro h
    rw [refStream_eq_pub] at h
    obtain ⟨g, hg, hid, _, hm⟩ := refStreamL_inv _ _ _ h
    rw [(pub_smb g hg).2 hid] at hm
    rw [refStreamK2_eq]
    exact refStreamL_of_firstX sigsK2 18 _ p a2 (firstX_K2 18 (by omega) (by omega) (by omega)) hm

/-- the published datagram reference reports SMB only through the stream rule -/
theorem refDatagram_smb (p : Bytes) (i : Nat) (hi : i = ID_SMB1 ∨ i = ID_SMB2) (h : refDatagram p = some i) :
    refStream p = some i := by
  unfold refDatagram at h
  cases hs : refStream p with
  | some j => rw [hs] at h; exact h
  | none =>
    rw [hs] at h
    simp only at h
    rw [refEnd_eq_pub] at h
    cases hf : sigsPub.find? (fun g => g.endAnchored && decide (g.pat.length = p.length) && prefixMatchX g.pat p) with
    | none => rw [hf] at h; cases h
    | some g =>
      rw [hf] at h
      simp only [Option.map_some, Option.some.injEq] at h
      have hp := List.find?_some hf
      simp only [Bool.and_eq_true] at hp
      have : ∀ g ∈ sigsPub, g.endAnchored = true → g.id = ID_STUN := by decide +kernel
      have := this g (List.mem_of_find?_eq_some hf) hp.1.1
      rw [h] at this
      rcases hi with e | e <;> rw [e] at this <;> cases this

end Masscanned.J3
