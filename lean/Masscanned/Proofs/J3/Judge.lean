/-
  Proofs/J3/Judge — per-judge helper lemmas for Thm/C13Judge, C14Judge, C17Judge, C18Judge: the pieces of
  each judge's case analysis that are not the main statement.
-/
import Masscanned.Proofs.J3.Reply
import Masscanned.Proofs.J3.Dns
namespace Masscanned.J3
open Masscanned Masscanned.Spec Masscanned.E2E Masscanned.C10

/-! ### C18 -/

/-- the judge's `sshIdent` (identification string without the dispatcher's version prefix) is the language
    the SSH responder answers -/
theorem sshIdent_eq (p : Bytes) : sshIdent p = C18.sshLang p := by
  unfold sshIdent C18.sshLang
  rw [ssh4_eq]
  show (_ && (match spanP (fun b => digit b || b = DOT) (p.drop 4) with
    | (_, r) => match r with
      | 45 :: rest => hasCRLF rest
      | _ => false)) = _
  have key : (match spanP (fun b => digit b || b = DOT) (p.drop 4) with
    | (_, r) => match r with
      | 45 :: rest => hasCRLF rest
      | _ => false) = C18.verTail (p.drop 4) := C18.span_verTail _
  rw [key]

/-- not starting with "SSH-": not an identification string -/
theorem sshIdent_of_not_magic {r : Bytes} (h : sshMagic.isPrefixOf r = false) : sshIdent r = false := by
  rw [sshIdent_eq]; unfold C18.sshLang; rw [h]; rfl

/-- four arbitrary bytes followed by a zero byte (an ONC-RPC reply: xid, then message type `00 00 00 01`): not an
    identification string, even when the xid spells "SSH-" — the version field cannot contain 0x00 -/
theorem sshIdent_xid_zero (x0 x1 x2 x3 : UInt8) (t : Bytes) : sshIdent (x0 :: x1 :: x2 :: x3 :: 0 :: t) = false := by
  rw [sshIdent_eq]; unfold C18.sshLang
  have : C18.verTail ((x0 :: x1 :: x2 :: x3 :: 0 :: t).drop 4) = false := by
    simp [C18.verTail, C18.verCh, isDigit]
  rw [this, Bool.and_false]

/-- the banner of the SSH responder is a complete identification string -/
theorem sshIdent_banner : sshIdent sshBannerExpected = true := by decide +kernel

/-- no handler but the SSH one produces a complete SSH identification string, whatever the payload and the
    control block — no fact about the matcher (in particular not the shadow set K2) is used -/
theorem handle_not_banner {cfg : Cfg} {env : Env} {i : Nat} {ci ci' : ClientInfo} {tcb tcb' : Option Tcb} {p r : Bytes}
    (hi : i ≠ ID_SSH) (h : protoHandle cfg env i ci tcb p = .ok (ci', tcb', some r)) : sshIdent r = false := by
  rcases C12.protoHandle_reply h with ⟨_, hr⟩ | ⟨_, hr⟩ | ⟨e, _⟩ | ⟨_, hr⟩ | ⟨_, hr⟩ | ⟨_, hr⟩ | ⟨_, hr⟩ | ⟨_, hr⟩
  · obtain ⟨rest, rfl⟩ := C12.http_shape hr
    exact sshIdent_of_not_magic (by simp [C12.httpHead, sshMagic, List.isPrefixOf])
  · obtain ⟨tid, ip, port, _, rfl⟩ := C12.stun_shape hr
    exact sshIdent_of_not_magic (by simp [sshMagic, List.isPrefixOf])
  · exact absurd e hi
  · rw [hr]; decide +kernel
  · obtain ⟨m0, m1, m2, m3, x0, x1, x2, x3, x, t, hm, rfl⟩ := C12.rpc_tcp_shape hr
    apply sshIdent_of_not_magic
    simp only [sshMagic, List.cons_append, List.isPrefixOf, Bool.and_eq_false_iff, beq_eq_false_iff_ne, ne_eq]
    left; rintro rfl; revert hm; decide
  · obtain ⟨x0, x1, x2, x3, x, t, rfl⟩ := C12.rpc_udp_shape hr
    exact sshIdent_xid_zero x0 x1 x2 x3 _
  · obtain ⟨l2, l3, cmd, rest, _, _, rfl⟩ := C12.smb1_shape hr
    exact sshIdent_of_not_magic (by simp [sshMagic, List.isPrefixOf])
  · obtain ⟨l2, l3, c0, c1, rest, _, rfl⟩ := C12.smb2_shape hr
    exact sshIdent_of_not_magic (by simp [sshMagic, List.isPrefixOf])

/-- **origin of a banner-shaped reply on a fresh flow**: a reply of the model that is a complete SSH
    identification string comes from the SSH responder on a payload identified as SSH -/
theorem reply_banner_cases {cfg : Cfg} {env : Env} {ci ci' : ClientInfo} {tcb tcb' : Option Tcb} {p r : Bytes}
    (ht : FreshTcb tcb) (h : protoRepl cfg env ci tcb p = .ok (ci', tcb', some r)) :
    (refStreamK2 p = some ID_SSH ∧ sshRepl p = .ok (some r)) ∨ sshIdent r = false := by
  by_cases hg : Gate ci
  · rcases ht with rfl | rfl
    · rw [model_none cfg env ci p hg] at h
      cases hid : refDatagramK2 p with
      | none =>
        rw [hid] at h
        simp only at h
        cases hm : dnsParse p with
        | none => rw [hm] at h; cases h
        | some m =>
          rw [hm] at h
          simp only [Option.bind_some] at h
          cases hr : dnsRepl ci m with
          | none => rw [hr] at h; cases h
          | some r' =>
            rw [hr] at h
            simp only [Except.ok.injEq, Prod.mk.injEq, Option.some.injEq] at h
            exact .inr (sshIdent_of_not_magic (dns_notSH ⟨ci, p, m, hm, by rw [hr, h.2.2]⟩).1)
      | some i =>
        rw [hid] at h
        simp only at h
        by_cases hi : i = ID_SSH
        · subst hi
          exact .inl ⟨k2_stream_of_datagram p _ hid (by decide) (by decide) (by decide), (ssh_arm h).1⟩
        · exact .inr (handle_not_banner hi h)
    · obtain ⟨st, hst⟩ := model_fresh cfg env ci p hg
      rw [hst] at h
      cases hid : refStreamK2 p with
      | none => rw [hid] at h; cases h
      | some i =>
        rw [hid] at h
        simp only at h
        by_cases hi : i = ID_SSH
        · subst hi; exact .inl ⟨rfl, (ssh_arm h).1⟩
        · exact .inr (handle_not_banner hi h)
  · rw [model_gate cfg env ci tcb p hg] at h
    cases h

/-! ### C13 -/

/-- a reply of the HTTP responder from a fresh parser state -/
theorem http_fresh_reply {env : Env} {p r : Bytes} {s : HttpSt} (h : httpRepl env {} p = .ok (s, some r)) :
    r = httpReplyBytes env := by
  obtain ⟨s', o, hl, hcase⟩ := C13.http_language env p
  rw [hl] at h
  simp only [Except.ok.injEq, Prod.mk.injEq] at h
  rcases hcase with ⟨_, ho⟩ | ⟨_, ho⟩
  · rw [ho] at h; exact (Option.some.inj h.2).symm
  · rw [ho] at h; cases h.2

/-- a reply that looks like HTTP comes from the HTTP responder, on a payload identified as HTTP -/
theorem http_class_origin {cfg : Cfg} {env : Env} {ci ci' : ClientInfo} {tcb tcb' : Option Tcb} {p r : Bytes}
    (ht : FreshTcb tcb) (h : protoRepl cfg env ci tcb p = .ok (ci', tcb', some r)) (hc : classify r = .http) :
    refStreamK2 p = some ID_HTTP ∧ ∃ s, httpRepl env {} p = .ok (s, some r) := by
  rcases reply_cases ht h with hh | ⟨_, hh⟩ | hn
  · exact hh
  · exfalso
    have := ((C18.ssh_answered_iff p r).1 hh).1
    rw [this] at hc
    revert hc; decide +kernel
  · exact absurd hc (notSH_classify hn).2

/-- a handler of a known protocol hands the control block back with the same protocol id -/
theorem protoHandle_keeps_id {cfg : Cfg} {env : Env} {i : Nat} {ci ci' : ClientInfo} {t0 t : Tcb} {p : Bytes}
    {r : Option Bytes} (hi : 1 ≤ i ∧ i ≤ 8)
    (h : protoHandle cfg env i ci (some t0) p = .ok (ci', some t, r)) : t.protoId = t0.protoId := by
  unfold protoHandle at h
  repeat' split at h
  all_goals (try dsimp only at h)
  all_goals (repeat' split at h)
  all_goals first
    | (cases h; done)
    | (simp only [Except.ok.injEq, Prod.mk.injEq, Option.some.injEq] at h; simp_all; done)
    | (simp only [Except.ok.injEq, Prod.mk.injEq, Option.some.injEq] at h; obtain ⟨_, h2, _⟩ := h; subst h2; simp_all; done)
    | (exfalso; simp only [PROTO_HTTP, PROTO_STUN, PROTO_SSH, PROTO_GHOST, PROTO_RPC_TCP, PROTO_RPC_UDP, PROTO_SMB1,
        PROTO_SMB2] at *; omega)

/-- the sticky protocol id a flow carries after its first segment (what the harness reads with its `P` op and
    passes to the judges as `forced`) is the id the compiled matcher finds on that segment -/
theorem sticky_id_of_first {cfg : Cfg} {env : Env} {ci ci' : ClientInfo} {t : Tcb} {p : Bytes} {r : Option Bytes}
    (hg : Gate ci) (h : protoRepl cfg env ci (some {}) p = .ok (ci', some t, r)) :
    t.protoId = (refStreamK2 p).getD PROTO_NONE := by
  obtain ⟨st, hst⟩ := model_fresh cfg env ci p hg
  rw [hst] at h
  cases hid : refStreamK2 p with
  | none =>
    rw [hid] at h
    simp only [Except.ok.injEq, Prod.mk.injEq, Option.some.injEq] at h
    rw [← h.2.1]; rfl
  | some i =>
    rw [hid] at h
    simp only at h
    have hk := refDatagramK2_id p i (refDatagramK2_of_stream p i hid)
    exact protoHandle_keeps_id ⟨hk.1, hk.2.1⟩ h

theorem methods_heads : ∀ m ∈ httpMethods, 3 ≤ m.length ∧ m.take 2 ≠ [83, 83] ∧ m.take 2 ≠ [71, 104] ∧
    m.head? ≠ some 0 := by decide +kernel

/-! ### C17 -/

/-- the judge's verdict once `refOf` says SMB1 -/
def smb1Branch (m : Bytes) (reply : Option Bytes) : Verdict :=
  match smb1Request m with
  | some req =>
    (match reply with
     | some r => if smb1ReplyOk m req r then pass true else failv "SMB1 response inconsistent"
     | none => failv "SMB1 request not answered")
  | none =>
    if smb1MustIgnore m then (if reply.isNone then pass true else failv "SMB1 response flag / other command answered")
    else pass false

/-- the judge's verdict once `refOf` says SMB2 -/
def smb2Branch (m : Bytes) (reply : Option Bytes) : Verdict :=
  match smb2Request m with
  | some req =>
    if smb2NoCommonDialect m then (if reply.isNone then pass true else failv "SMB2 negotiate without a supported dialect answered")
    else
      (match reply with
       | some r => if smb2ReplyOk m req r then pass true else failv "SMB2 response inconsistent"
       | none => failv "SMB2 request not answered")
  | none =>
    if smb2MustIgnore m then (if reply.isNone then pass true else failv "SMB2 response flag / other command answered")
    else pass false

theorem judgeC17_branches (ci : ClientInfo) (p : Bytes) (ci' : ClientInfo) (reply : Option Bytes)
    (forced : Option Nat) :
    judgeC17 (obsOf ci p ci' reply forced) =
      match nbtBody p with
      | none => pass false
      | some m =>
        if refOf (obsOf ci p ci' reply forced) = some ID_SMB1 then smb1Branch m reply
        else if refOf (obsOf ci p ci' reply forced) = some ID_SMB2 then smb2Branch m reply
        else pass false := rfl

/-- the SMB1 responder's own answer passes the SMB1 branch -/
theorem smb1Branch_ok (env : Env) (p m : Bytes) (hn : nbtBody p = some m) :
    (smb1Branch m (smb1Repl env p)).ok = true := by
  unfold smb1Branch
  cases hr : smb1Request m with
  | some req =>
    obtain ⟨r, hrep, hok⟩ := C17.smb1_reply env p m req hn hr
    simp only [hrep, hok, if_true]
    rfl
  | none =>
    simp only
    cases hi : smb1MustIgnore m with
    | true =>
      rw [C17.smb1_must_ignore_silent env p m (C17.nbtBody_eq hn) hi]
      rfl
    | false => rfl

/-- the SMB2 responder's own answer passes the SMB2 branch -/
theorem smb2Branch_ok (env : Env) (p m : Bytes) (hn : nbtBody p = some m) :
    (smb2Branch m (smb2Repl env p)).ok = true := by
  unfold smb2Branch
  cases hr : smb2Request m with
  | some req =>
    simp only
    cases hnc : smb2NoCommonDialect m with
    | true =>
      rw [C17.smb2_no_common_dialect_silent env p m hn hnc]
      rfl
    | false =>
      have hcommon : ∀ ds, req = .negotiate ds → ds.any smb2Supported.contains = true := by
        intro ds hds
        subst hds
        unfold smb2NoCommonDialect at hnc
        rw [hr] at hnc
        simpa using hnc
      obtain ⟨r, hrep, hok⟩ := C17.smb2_reply env p m req hn hr hcommon
      simp only [hrep, hok, Bool.false_eq_true, if_false, if_true]
      rfl
  | none =>
    simp only
    cases hi : smb2MustIgnore m with
    | true =>
      rw [C17.smb2_must_ignore_silent env p m (C17.nbtBody_eq hn) hi]
      rfl
    | false => rfl

/-- on a fresh flow a payload whose first completed PUBLISHED signature is an SMB one is answered by that
    SMB responder -/
theorem smb_fresh_reply {cfg : Cfg} {env : Env} {ci ci' : ClientInfo} {tcb tcb' : Option Tcb} {p : Bytes}
    {reply : Option Bytes} (ht : FreshTcb tcb) (hg : Gate ci)
    (h : protoRepl cfg env ci tcb p = .ok (ci', tcb', reply)) :
    (refStream p = some ID_SMB1 → reply = smb1Repl env p) ∧ (refStream p = some ID_SMB2 → reply = smb2Repl env p) := by
  constructor
  · intro hid
    obtain ⟨h1, st, h2⟩ := dispatch_both cfg env ci p ID_SMB1 hg ((smb_pub_to_K2 p).1 hid)
    rcases ht with rfl | rfl
    · rw [h1, handle_smb1] at h; simp only [Except.ok.injEq, Prod.mk.injEq] at h; exact h.2.2.symm
    · rw [h2, handle_smb1] at h; simp only [Except.ok.injEq, Prod.mk.injEq] at h; exact h.2.2.symm
  · intro hid
    obtain ⟨h1, st, h2⟩ := dispatch_both cfg env ci p ID_SMB2 hg ((smb_pub_to_K2 p).2 hid)
    rcases ht with rfl | rfl
    · rw [h1, handle_smb2] at h; simp only [Except.ok.injEq, Prod.mk.injEq] at h; exact h.2.2.symm
    · rw [h2, handle_smb2] at h; simp only [Except.ok.injEq, Prod.mk.injEq] at h; exact h.2.2.symm

/-- `refOf` of a non-sticky observation says SMB only if the stream reference does -/
theorem refOf_smb (ci : ClientInfo) (p : Bytes) (ci' : ClientInfo) (reply : Option Bytes) (i : Nat)
    (hi : i = ID_SMB1 ∨ i = ID_SMB2) (h : refOf (obsOf ci p ci' reply) = some i) : refStream p = some i := by
  rw [refOf_obs] at h
  simp only at h
  split at h
  · exact h
  · exact refDatagram_smb p i hi h

/-! ### C14 -/

/-- datagram identified by nothing: the reply is the DNS fallback's -/
theorem reply_dns {cfg : Cfg} {env : Env} {ci ci' : ClientInfo} {tcb' : Option Tcb} {p : Bytes}
    {reply : Option Bytes} (hg : Gate ci) (hid : refDatagramK2 p = none)
    (h : protoRepl cfg env ci none p = .ok (ci', tcb', reply)) : reply = (dnsParse p).bind (dnsRepl ci) := by
  rw [model_none cfg env ci p hg, hid] at h
  simp only at h
  cases hb : (dnsParse p).bind (dnsRepl ci) with
  | none => rw [hb] at h; simp only [Except.ok.injEq, Prod.mk.injEq] at h; exact h.2.2.symm
  | some r => rw [hb] at h; simp only [Except.ok.injEq, Prod.mk.injEq] at h; exact h.2.2.symm

/-- datagram one byte short of an ONC-RPC call: handed to an ONC-RPC responder, which stays silent -/
theorem reply_oneShort {cfg : Cfg} {env : Env} {ci ci' : ClientInfo} {tcb' : Option Tcb} {p : Bytes}
    {reply : Option Bytes} (hg : Gate ci) (hl : p.length < 40)
    (hid : refDatagramK2 p = some ID_RPC_UDP ∨ refDatagramK2 p = some ID_RPC_TCP)
    (h : protoRepl cfg env ci none p = .ok (ci', tcb', reply)) : reply = none := by
  rw [model_none cfg env ci p hg] at h
  rcases hid with hid | hid
  · rw [hid] at h
    simp only at h
    rw [handle_rpc_udp] at h
    cases hq : rpcReplUdp cfg.ovf ci p with
    | error e => rw [hq] at h; cases h
    | ok o =>
      rw [hq] at h
      simp only [Except.ok.injEq, Prod.mk.injEq] at h
      rw [← h.2.2]
      exact rpc_udp_short cfg.ovf ci p hl o hq
  · rw [hid] at h
    simp only [protoHandle, ID_RPC_TCP, PROTO_HTTP, PROTO_STUN, PROTO_SSH, PROTO_GHOST, PROTO_RPC_TCP,
      Nat.reduceEqDiff, if_false, if_true] at h
    cases hq : rpcReplTcp cfg.ovf {} ci p with
    | error e => rw [hq] at h; cases h
    | ok x =>
      obtain ⟨s, o⟩ := x
      rw [hq] at h
      simp only [Except.ok.injEq, Prod.mk.injEq] at h
      rw [← h.2.2]
      exact rpc_tcp_short cfg.ovf ci p (by omega) s o hq

end Masscanned.J3
