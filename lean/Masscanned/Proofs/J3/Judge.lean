/-
  Proofs/J3/Judge — per-judge helper lemmas for Thm/C13Judge, C14Judge, C17Judge, C18Judge: the pieces of
  each judge's case analysis that are not the main statement.
-/
import Masscanned.Proofs.J3.Reply
import Masscanned.Proofs.J3.Dns
namespace Masscanned.J3
open Masscanned Masscanned.Spec Masscanned.E2E Masscanned.C10

/-! ### C18 -/

/-- the judge's `sshIdent` (identification string without the dispatcher's version prefix) is the language
    the SSH responder answers -/
theorem sshIdent_eq (p : Bytes) : sshIdent p = C18.sshLang p := by
  unfold sshIdent C18.sshLang
  rw [ssh4_eq]
  show (_ && (match spanP (fun b => digit b || b = DOT) (p.drop 4) with
    | (_, r) => match r with
      | 45 :: rest => hasCRLF rest
      | _ => false)) = _
  have key : (match spanP (fun b => digit b || b = DOT) (p.drop 4) with
    | (_, r) => match r with
      | 45 :: rest => hasCRLF rest
      | _ => false) = C18.verTail (p.drop 4) := C18.span_verTail _
  rw [key]

theorem http_head_not_ssh (rest : Bytes) : classify (C12.httpHead ++ rest) ≠ .ssh := by
  intro hc
  have := classify_ssh_imp _ hc
  simp [C12.httpHead, sshMagic, List.isPrefixOf] at this

/-! ### C13 -/

/-- a reply of the HTTP responder from a fresh parser state -/
theorem http_fresh_reply {env : Env} {p r : Bytes} {s : HttpSt} (h : httpRepl env {} p = .ok (s, some r)) :
    r = httpReplyBytes env := by
  obtain ⟨s', o, hl, hcase⟩ := C13.http_language env p
  rw [hl] at h
  simp only [Except.ok.injEq, Prod.mk.injEq] at h
  rcases hcase with ⟨_, ho⟩ | ⟨_, ho⟩
  · rw [ho] at h; exact (Option.some.inj h.2).symm
  · rw [ho] at h; cases h.2

/-- a reply that looks like HTTP comes from the HTTP responder, on a payload identified as HTTP -/
theorem http_class_origin {cfg : Cfg} {env : Env} {ci ci' : ClientInfo} {tcb tcb' : Option Tcb} {p r : Bytes}
    (ht : FreshTcb tcb) (h : protoRepl cfg env ci tcb p = .ok (ci', tcb', some r)) (hc : classify r = .http) :
    refStreamK2 p = some ID_HTTP ∧ ∃ s, httpRepl env {} p = .ok (s, some r) := by
  rcases reply_cases ht h with hh | ⟨_, hh⟩ | hn
  · exact hh
  · exfalso
    have := ((C18.ssh_answered_iff p r).1 hh).1
    rw [this] at hc
    revert hc; decide +kernel
  · exact absurd hc (notSH_classify hn).2

/-! ### C17 -/

/-- the judge's verdict once `refOf` says SMB1 -/
def smb1Branch (m : Bytes) (reply : Option Bytes) : Verdict :=
  match smb1Request m with
  | some req =>
    (match reply with
     | some r => if smb1ReplyOk m req r then pass true else failv "SMB1 response inconsistent"
     | none => failv "SMB1 request not answered")
  | none =>
    if smb1MustIgnore m then (if reply.isNone then pass true else failv "SMB1 response flag / other command answered")
    else pass false

/-- the judge's verdict once `refOf` says SMB2 -/
def smb2Branch (m : Bytes) (reply : Option Bytes) : Verdict :=
  match smb2Request m with
  | some req =>
    if smb2NoCommonDialect m then (if reply.isNone then pass true else failv "SMB2 negotiate without a supported dialect answered")
    else
      (match reply with
       | some r => if smb2ReplyOk m req r then pass true else failv "SMB2 response inconsistent"
       | none => failv "SMB2 request not answered")
  | none =>
    if smb2MustIgnore m then (if reply.isNone then pass true else failv "SMB2 response flag / other command answered")
    else pass false

theorem judgeC17_branches (ci : ClientInfo) (p : Bytes) (ci' : ClientInfo) (reply : Option Bytes)
    (forced : Option Nat) :
    judgeC17 (obsOf ci p ci' reply forced) =
      match nbtBody p with
      | none => pass false
      | some m =>
        if refOf (obsOf ci p ci' reply forced) = some ID_SMB1 then smb1Branch m reply
        else if refOf (obsOf ci p ci' reply forced) = some ID_SMB2 then smb2Branch m reply
        else pass false := rfl

/-- the SMB1 responder's own answer passes the SMB1 branch -/
theorem smb1Branch_ok (env : Env) (p m : Bytes) (hn : nbtBody p = some m) :
    (smb1Branch m (smb1Repl env p)).ok = true := by
  unfold smb1Branch
  cases hr : smb1Request m with
  | some req =>
    obtain ⟨r, hrep, hok⟩ := C17.smb1_reply env p m req hn hr
    simp only [hrep, hok, if_true]
    rfl
  | none =>
    simp only
    cases hi : smb1MustIgnore m with
    | true =>
      rw [C17.smb1_must_ignore_silent env p m (C17.nbtBody_eq hn) hi]
      rfl
    | false => rfl

/-- the SMB2 responder's own answer passes the SMB2 branch -/
theorem smb2Branch_ok (env : Env) (p m : Bytes) (hn : nbtBody p = some m) :
    (smb2Branch m (smb2Repl env p)).ok = true := by
  unfold smb2Branch
  cases hr : smb2Request m with
  | some req =>
    simp only
    cases hnc : smb2NoCommonDialect m with
    | true =>
      rw [C17.smb2_no_common_dialect_silent env p m hn hnc]
      rfl
    | false =>
      have hcommon : ∀ ds, req = .negotiate ds → ds.any smb2Supported.contains = true := by
        intro ds hds
        subst hds
        unfold smb2NoCommonDialect at hnc
        rw [hr] at hnc
        simpa using hnc
      obtain ⟨r, hrep, hok⟩ := C17.smb2_reply env p m req hn hr hcommon
      simp only [hrep, hok, Bool.false_eq_true, if_false, if_true]
      rfl
  | none =>
    simp only
    cases hi : smb2MustIgnore m with
    | true =>
      rw [C17.smb2_must_ignore_silent env p m (C17.nbtBody_eq hn) hi]
      rfl
    | false => rfl

/-- on a fresh flow a payload whose first completed PUBLISHED signature is an SMB one is answered by that
    SMB responder -/
theorem smb_fresh_reply {cfg : Cfg} {env : Env} {ci ci' : ClientInfo} {tcb tcb' : Option Tcb} {p : Bytes}
    {reply : Option Bytes} (ht : FreshTcb tcb) (hg : Gate ci)
    (h : protoRepl cfg env ci tcb p = .ok (ci', tcb', reply)) :
    (refStream p = some ID_SMB1 → reply = smb1Repl env p) ∧ (refStream p = some ID_SMB2 → reply = smb2Repl env p) := by
  constructor
  · intro hid
    obtain ⟨h1, st, h2⟩ := dispatch_both cfg env ci p ID_SMB1 hg ((smb_pub_to_K2 p).1 hid)
    rcases ht with rfl | rfl
    · rw [h1, handle_smb1] at h; simp only [Except.ok.injEq, Prod.mk.injEq] at h; exact h.2.2.symm
    · rw [h2, handle_smb1] at h; simp only [Except.ok.injEq, Prod.mk.injEq] at h; exact h.2.2.symm
  · intro hid
    obtain ⟨h1, st, h2⟩ := dispatch_both cfg env ci p ID_SMB2 hg ((smb_pub_to_K2 p).2 hid)
    rcases ht with rfl | rfl
    · rw [h1, handle_smb2] at h; simp only [Except.ok.injEq, Prod.mk.injEq] at h; exact h.2.2.symm
    · rw [h2, handle_smb2] at h; simp only [Except.ok.injEq, Prod.mk.injEq] at h; exact h.2.2.symm

/-- `refOf` of a non-sticky observation says SMB only if the stream reference does -/
theorem refOf_smb (ci : ClientInfo) (p : Bytes) (ci' : ClientInfo) (reply : Option Bytes) (i : Nat)
    (hi : i = ID_SMB1 ∨ i = ID_SMB2) (h : refOf (obsOf ci p ci' reply) = some i) : refStream p = some i := by
  rw [refOf_obs] at h
  simp only at h
  split at h
  · exact h
  · exact refDatagram_smb p i hi h

/-! ### C14 -/

/-- datagram identified by nothing: the reply is the DNS fallback's -/
theorem reply_dns {cfg : Cfg} {env : Env} {ci ci' : ClientInfo} {tcb' : Option Tcb} {p : Bytes}
    {reply : Option Bytes} (hg : Gate ci) (hid : refDatagramK2 p = none)
    (h : protoRepl cfg env ci none p = .ok (ci', tcb', reply)) : reply = (dnsParse p).bind (dnsRepl ci) := by
  rw [model_none cfg env ci p hg, hid] at h
  simp only at h
  cases hb : (dnsParse p).bind (dnsRepl ci) with
  | none => rw [hb] at h; simp only [Except.ok.injEq, Prod.mk.injEq] at h; exact h.2.2.symm
  | some r => rw [hb] at h; simp only [Except.ok.injEq, Prod.mk.injEq] at h; exact h.2.2.symm

/-- datagram one byte short of an ONC-RPC call: handed to an ONC-RPC responder, which stays silent -/
theorem reply_oneShort {cfg : Cfg} {env : Env} {ci ci' : ClientInfo} {tcb' : Option Tcb} {p : Bytes}
    {reply : Option Bytes} (hg : Gate ci) (hl : p.length < 40)
    (hid : refDatagramK2 p = some ID_RPC_UDP ∨ refDatagramK2 p = some ID_RPC_TCP)
    (h : protoRepl cfg env ci none p = .ok (ci', tcb', reply)) : reply = none := by
  rw [model_none cfg env ci p hg] at h
  rcases hid with hid | hid
  · rw [hid] at h
    simp only at h
    rw [handle_rpc_udp] at h
    cases hq : rpcReplUdp cfg.ovf ci p with
    | error e => rw [hq] at h; cases h
    | ok o =>
      rw [hq] at h
      simp only [Except.ok.injEq, Prod.mk.injEq] at h
      rw [← h.2.2]
      exact rpc_udp_short cfg.ovf ci p hl o hq
  · rw [hid] at h
    simp only [protoHandle, ID_RPC_TCP, PROTO_HTTP, PROTO_STUN, PROTO_SSH, PROTO_GHOST, PROTO_RPC_TCP,
      Nat.reduceEqDiff, if_false, if_true] at h
    cases hq : rpcReplTcp cfg.ovf {} ci p with
    | error e => rw [hq] at h; cases h
    | ok x =>
      obtain ⟨s, o⟩ := x
      rw [hq] at h
      simp only [Except.ok.injEq, Prod.mk.injEq] at h
      rw [← h.2.2]
      exact rpc_tcp_short cfg.ovf ci p (by omega) s o hq

end Masscanned.J3
