/-
  Proofs/J3/Stream — "stream" mode of the harness (`judge_lines`, meta mode `stream`): a complete HTTP
  request is cut into TCP segments after its signature; the observation for segment `k` carries the
  CUMULATIVE byte stream of the flow so far and the reply to segment `k`.  From C11
  (`http_seg_indep_partial`): that reply is the reply the unsegmented cumulative stream gets as first
  segment of a fresh flow.
-/
import Masscanned.Proofs.J3.Reply
import Masscanned.Thm.C11
namespace Masscanned.J3
open Masscanned Masscanned.Spec Masscanned.C11

theorem feed_take (cfg : Cfg) (env : Env) (ci : ClientInfo) : ∀ (all : List Bytes) (t t' : Tcb)
    (rs : List (Option Bytes)), feed cfg env ci t all = .ok (t', rs) →
    ∀ j, ∃ t'', feed cfg env ci t (all.take j) = .ok (t'', rs.take j) := by
  intro all
  induction all with
  | nil =>
    intro t t' rs h j
    rw [feed_nil] at h
    simp only [Except.ok.injEq, Prod.mk.injEq] at h
    rw [← h.2]
    exact ⟨t, by simp [feed_nil]⟩
  | cons d ds ih =>
    intro t t' rs h j
    cases j with
    | zero => exact ⟨t, by simp [feed_nil]⟩
    | succ j =>
      obtain ⟨c1, t1, r, rs', hp, hf, hrs⟩ := feed_cons_inv h
      obtain ⟨t'', ht''⟩ := ih (t1.getD t) t' rs' hf j
      refine ⟨t'', ?_⟩
      rw [List.take_succ_cons, feed_cons, hp]
      simp only [ht'', hrs, List.take_succ_cons]

/-- the reply to segment `k` of a flow whose first segment contains the HTTP signature is the reply of the
    unsegmented cumulative stream -/
theorem stream_reply (cfg : Cfg) (env : Env) (ci : ClientInfo) (m : Bytes) (hm : m ∈ httpMethods)
    (a' : Bytes) (segs : List Bytes) (t : Tcb) (rs : List (Option Bytes))
    (hfeed : feed cfg env ci {} ((m ++ 32 :: 47 :: a') :: segs) = .ok (t, rs)) (k : Nat) (hk : k ≤ segs.length) :
    ∃ R, unseg cfg env ci (((m ++ 32 :: 47 :: a') :: segs).take (k + 1)).flatten = .ok R ∧ rs[k]? = some R := by
  obtain ⟨t2, rs2, R, hf2, hlen, hun, htrig⟩ := http_seg_indep_partial cfg env ci m hm a' (segs.take k)
  obtain ⟨t'', ht''⟩ := feed_take cfg env ci _ _ _ _ hfeed (k + 1)
  rw [List.take_succ_cons] at ht'' ⊢
  rw [hf2] at ht''
  simp only [Except.ok.injEq, Prod.mk.injEq] at ht''
  have hrs2 : rs2[k]? = rs[k]? := by
    rw [ht''.2, List.getElem?_take]; simp
  have hl : ((m ++ 32 :: 47 :: a') :: segs.take k).length = k + 1 := by
    simp [List.length_take, Nat.min_eq_left hk]
  refine ⟨R, hun, ?_⟩
  rw [← hrs2]
  cases htr : trig cfg env ci ((m ++ 32 :: 47 :: a') :: segs.take k).flatten with
  | none =>
    rw [htr] at htrig
    obtain ⟨hR, hall⟩ := htrig
    rw [hR]
    exact hall k (by omega)
  | some n =>
    rw [htr] at htrig
    obtain ⟨_, _, hn, hall⟩ := htrig
    refine (hall k (by omega)).2 ?_
    have : endOff ((m ++ 32 :: 47 :: a') :: segs.take k) k = ((m ++ 32 :: 47 :: a') :: segs.take k).flatten.length := by
      unfold endOff
      rw [List.take_of_length_le (by omega)]
    omega

end Masscanned.J3
