/-
  Proofs/J3/Stream — "stream" mode of the harness (`judge_lines`, meta mode `stream`): a complete HTTP
  request is cut into TCP segments after its signature; the observation for segment `k` carries the
  CUMULATIVE byte stream of the flow so far and the reply to segment `k`.  From C11
  (`http_seg_indep_partial`): that reply is the reply the unsegmented cumulative stream gets as first
  segment of a fresh flow — up to and including the first answered segment (afterwards the parser starts
  over and the harness no longer judges the flow in this mode).
-/
import Masscanned.Proofs.J3.Reply
import Masscanned.Thm.C11
namespace Masscanned.J3
open Masscanned Masscanned.Spec Masscanned.C11

theorem feed_take (cfg : Cfg) (env : Env) (ci : ClientInfo) : ∀ (all : List Bytes) (t t' : Tcb)
    (rs : List (Option Bytes)), feed cfg env ci t all = .ok (t', rs) →
    ∀ j, ∃ t'', feed cfg env ci t (all.take j) = .ok (t'', rs.take j) := by
  intro all
  induction all with
  | nil =>
    intro t t' rs h j
    rw [feed_nil] at h
    simp only [Except.ok.injEq, Prod.mk.injEq] at h
    rw [← h.2]
    exact ⟨t, by simp [feed_nil]⟩
  | cons d ds ih =>
    intro t t' rs h j
    cases j with
    | zero => exact ⟨t, by simp [feed_nil]⟩
    | succ j =>
      obtain ⟨c1, t1, r, rs', hp, hf, hrs⟩ := feed_cons_inv h
      obtain ⟨t'', ht''⟩ := ih (t1.getD t) t' rs' hf j
      refine ⟨t'', ?_⟩
      rw [List.take_succ_cons, feed_cons, hp]
      simp only [ht'', hrs, List.take_succ_cons]

/-- the reply to segment `k` of a flow whose first segment contains the HTTP signature is the reply of the
    unsegmented cumulative stream — AS LONG AS NO EARLIER SEGMENT HAS BEEN ANSWERED (`hprev`): `http::repl`
    resets the stored parser state after a reply, the segments after the answered one belong to the next
    request (`C11.http_later_segments_not_repeated`; the harness stops judging the flow in stream mode once
    it has been answered).  Without `hprev` the statement is false since the repair of `http::repl`:
    `C13Judge.judgeC13_stream_after_answer_false`. -/
theorem stream_reply (cfg : Cfg) (env : Env) (ci : ClientInfo) (m : Bytes) (hm : m ∈ httpMethods)
    (a' : Bytes) (segs : List Bytes) (t : Tcb) (rs : List (Option Bytes))
    (hfeed : feed cfg env ci {} ((m ++ 32 :: 47 :: a') :: segs) = .ok (t, rs)) (k : Nat) (hk : k ≤ segs.length)
    (hprev : ∀ j, j < k → rs[j]? = some none) :
    ∃ R, unseg cfg env ci (((m ++ 32 :: 47 :: a') :: segs).take (k + 1)).flatten = .ok R ∧ rs[k]? = some R := by
  obtain ⟨t2, rs2, R, hf2, hlen, hun, htrig⟩ := http_seg_indep_partial cfg env ci m hm a' (segs.take k)
  obtain ⟨t'', ht''⟩ := feed_take cfg env ci _ _ _ _ hfeed (k + 1)
  rw [List.take_succ_cons] at ht'' ⊢
  rw [hf2] at ht''
  simp only [Except.ok.injEq, Prod.mk.injEq] at ht''
  have hrs2 : ∀ j, j ≤ k → rs2[j]? = rs[j]? := by
    intro j hj
    rw [ht''.2, List.getElem?_take]
    simp only [ite_eq_left_iff]
    intro h; omega
  have hl : ((m ++ 32 :: 47 :: a') :: segs.take k).length = k + 1 := by
    simp [List.length_take, Nat.min_eq_left hk]
  refine ⟨R, hun, ?_⟩
  rw [← hrs2 k (Nat.le_refl _)]
  cases htr : trig cfg env ci ((m ++ 32 :: 47 :: a') :: segs.take k).flatten with
  | none =>
    rw [htr] at htrig
    obtain ⟨hR, hall⟩ := htrig
    rw [hR]
    exact hall k (by omega)
  | some n =>
    rw [htr] at htrig
    obtain ⟨hRne, hpos, hn, hall⟩ := htrig
    obtain ⟨k', hk', hb, he⟩ := exists_segment _ n hpos hn
    have hk'R := (hall k' hk').2 hb he
    by_cases hlt : k' < k
    · exfalso
      rw [hrs2 k' (by omega), hprev k' hlt] at hk'R
      simp only [Option.some.injEq] at hk'R
      exact hRne hk'R.symm
    · have : k' = k := by omega
      subst this
      exact hk'R

end Masscanned.J3
