/-
  Proofs/J3/Dns — for the judge of C14: a datagram that completes no PUBLISHED signature
  (`Spec.refDatagram p = none`, the judge's precondition) is not identified by the compiled matcher
  either — except for the end-of-datagram quirk (23 / 27 bytes, one byte short of an ONC-RPC call), where
  it goes to an ONC-RPC responder, which stays silent; and such a datagram is never an IN/A query.
-/
import Masscanned.Proofs.J3.RpcShort
namespace Masscanned.J3
open Masscanned Masscanned.Spec Masscanned.E2E Masscanned.C10

/-! ### the published set is the compiled matcher's set with the exclusions forgotten -/

def wkSym : SymX → SymX
  | .anyExcept _ => .any
  | x => x

def wkSig (g : SigX) : SigX := { g with pat := g.pat.map wkSym }

theorem pub_eq_wk : sigsPub = sigsK2.map wkSig := by decide +kernel

theorem pmX_wk (P : List SymX) (s : Bytes) (h : prefixMatchX P s = true) : prefixMatchX (P.map wkSym) s = true := by
  induction P generalizing s with
  | nil => rfl
  | cons a t ih =>
    cases s with
    | nil => simp [prefixMatchX] at h
    | cons b bs =>
      simp only [prefixMatchX, Bool.and_eq_true] at h
      simp only [List.map_cons, prefixMatchX, Bool.and_eq_true]
      refine ⟨?_, ih bs h.2⟩
      cases a with
      | lit c => exact h.1
      | any => rfl
      | anyExcept l => rfl

theorem wk_mem {g : SigX} (h : g ∈ sigsK2) : wkSig g ∈ sigsPub := by
  rw [pub_eq_wk]; exact List.mem_map_of_mem h

/-- a matching non-end-anchored signature: the stream reference reports something -/
theorem refStreamL_isSome (L : List SigX) (g : SigX) (s : Bytes) (hg : g ∈ L) (hna : g.endAnchored = false)
    (hm : prefixMatchX g.pat s = true) : refStreamL L s ≠ none := by
  intro hnone
  unfold refStreamL at hnone
  rw [List.findSome?_eq_none_iff] at hnone
  have hlen := pmX_length _ _ hm
  have := hnone g.pat.length (by simp; omega)
  unfold completedAtL at this
  rw [Option.map_eq_none_iff, List.find?_eq_none] at this
  have := this g hg
  simp [hna, hm, hlen] at this

/-- no published signature completed ⇒ none completed for the compiled matcher -/
theorem k2_stream_none_of_pub (p : Bytes) (h : refStream p = none) : refStreamK2 p = none := by
  cases hs : refStreamK2 p with
  | none => rfl
  | some i =>
    exfalso
    rw [refStreamK2_eq] at hs
    obtain ⟨g, hg, _, hna, hm⟩ := refStreamL_inv _ _ _ hs
    rw [refStream_eq_pub] at h
    exact refStreamL_isSome sigsPub (wkSig g) p (wk_mem hg) hna (pmX_wk _ _ hm) h

/-! ### the one-byte-short forms -/

def patU23 : List SymX := (patRpc (.anyExcept nineBytes)).dropLast
def patT27 : List SymX := patRpcTcpK2.dropLast

theorem k2_oneShort_sigs : ∀ g ∈ sigsK2, g.endAnchored = false → g.pat.getLast? = some .any →
    (g.id = ID_RPC_UDP ∧ g.pat.length = 24 ∧ g.pat.dropLast = patU23) ∨
    (g.id = ID_RPC_TCP ∧ g.pat.length = 28 ∧ g.pat.dropLast = patT27) := by decide +kernel

theorem k2_endAnchored_pub : ∀ g ∈ sigsK2, g.endAnchored = true → wkSig g = g := by decide +kernel

/-- **what the compiled matcher does with a datagram that completes no published signature** -/
theorem refDatagram_none_cases (p : Bytes) (h : refDatagram p = none) :
    refDatagramK2 p = none ∨
    (refDatagramK2 p = some ID_RPC_UDP ∧ p.length = 23 ∧ prefixMatchX patU23 p = true) ∨
    (refDatagramK2 p = some ID_RPC_TCP ∧ p.length = 27 ∧ prefixMatchX patT27 p = true) := by
  have hs : refStream p = none := by
    unfold refDatagram at h
    cases hs : refStream p with
    | none => rfl
    | some i => rw [hs] at h; cases h
  have he : refEnd p = none := by
    unfold refDatagram at h; rw [hs] at h; exact h
  have hk := k2_stream_none_of_pub p hs
  unfold refDatagramK2
  rw [hk]
  simp only
  cases hq : refEndK2 p with
  | none => exact .inl rfl
  | some i =>
    right
    rw [refEndK2_eq] at hq
    obtain ⟨g, hg, hid, hcase⟩ := refEndL_inv _ _ _ hq
    rcases hcase with ⟨ha, hl, hm⟩ | ho
    · -- an end-anchored form: it is a published one too
      exfalso
      rw [refEnd_eq_pub, Option.map_eq_none_iff, List.find?_eq_none] at he
      have := he g (by rw [← k2_endAnchored_pub g hg ha]; exact wk_mem hg)
      simp [ha, hl, hm] at this
    · simp only [oneShortOf, Bool.and_eq_true, Bool.not_eq_true', decide_eq_true_eq] at ho
      obtain ⟨⟨⟨hna, hlast⟩, hlen⟩, hm⟩ := ho
      rcases k2_oneShort_sigs g hg hna hlast with ⟨e, l, d⟩ | ⟨e, l, d⟩
      · exact .inl ⟨by rw [← hid, e], by omega, by rw [← d]; exact hm⟩
      · exact .inr ⟨by rw [← hid, e], by omega, by rw [← d]; exact hm⟩

/-! ### such a datagram is not an IN/A query -/

theorem inAQuery_inv {p : Bytes} {q : DMsg} (h : inAQuery p = some q) :
    parseDns p = some q ∧ q.an = [] ∧ q.rest = [] ∧ ∀ x ∈ q.qd, x.qtype = 1 := by
  unfold inAQuery at h
  split at h
  · cases h
  · rename_i m hp
    split at h
    · rename_i hc
      cases h
      obtain ⟨_, han, _, _, hrest, hall⟩ := hc
      refine ⟨hp, by simpa using han, by simpa using hrest, ?_⟩
      intro x hx
      have := List.all_eq_true.mp hall x hx
      simp only [decide_eq_true_eq] at this
      exact this.1
    · cases h

/-- the questions of an IN/A query fill the message behind the header exactly -/
theorem inAQuery_questions {p : Bytes} {q : DMsg} (h : inAQuery p = some q) :
    12 ≤ p.length ∧ readQuestions (be16 p 4) (p.drop 12) = some (q.qd, []) ∧ ∀ x ∈ q.qd, x.qtype = 1 := by
  obtain ⟨hp, han, hrest, hall⟩ := inAQuery_inv h
  obtain ⟨hl, _, _, _, _, _, hanl, r, hqs, hrr⟩ := C14.parseDns_some hp
  rw [han] at hanl
  simp only [List.length_nil] at hanl
  rw [← hanl] at hrr
  simp only [readRRs, Option.some.injEq, Prod.mk.injEq] at hrr
  rw [hrest] at hrr
  rw [hrr.2] at hqs
  exact ⟨hl, hqs, hall⟩

theorem oneShort_udp_not_query (p : Bytes) (hl : p.length = 23) (hm : prefixMatchX patU23 p = true) :
    inAQuery p = none := by
  cases hq : inAQuery p with
  | none => rfl
  | some q =>
    exfalso
    obtain ⟨_, hqs, _⟩ := inAQuery_questions hq
    rw [pmX_eq] at hm
    simp only [patU23, patRpc, List.dropLast, pmFrom, sym_lit, Bool.and_eq_true, decide_eq_true_eq,
      Nat.zero_add, Nat.reduceAdd, UInt8.reduceToNat] at hm
    obtain ⟨_, _, _, _, _, h4, h5, _⟩ := hm
    have : be16 p 4 = 0 := by simp only [be16, Nat.reduceAdd]; omega
    rw [this] at hqs
    simp only [readQuestions, Option.some.injEq, Prod.mk.injEq] at hqs
    have := congrArg List.length hqs.2
    simp at this
    omega

theorem oneShort_tcp_not_query (p : Bytes) (hl : p.length = 27) (hm : prefixMatchX patT27 p = true) :
    inAQuery p = none := by
  cases hq : inAQuery p with
  | none => rfl
  | some q =>
    exfalso
    obtain ⟨_, hqs, hall⟩ := inAQuery_questions hq
    rw [pmX_eq] at hm
    simp only [patT27, patRpcTcpK2, patRpc, List.cons_append, List.nil_append, List.dropLast, pmFrom, sym_lit,
      Bool.and_eq_true, decide_eq_true_eq, Nat.zero_add, Nat.reduceAdd, UInt8.reduceToNat] at hm
    obtain ⟨_, _, _, _, _, _, _, _, _, _, _, _, _, h12, h13, h14, _⟩ := hm
    cases hk : be16 p 4 with
    | zero =>
      rw [hk] at hqs
      simp only [readQuestions, Option.some.injEq, Prod.mk.injEq] at hqs
      have := congrArg List.length hqs.2
      simp at this
      omega
    | succ k =>
      rw [hk] at hqs
      have hd : p.drop 12 = 0 :: p.drop 13 := by
        have h12' : 12 < p.length := by omega
        rw [List.drop_eq_getElem_cons h12']
        congr 1
        have : u8 p 12 = (p[12]).toNat := by
          simp [u8, List.getD_eq_getElem?_getD, List.getElem?_eq_getElem h12']
        rw [this] at h12
        exact UInt8.toNat_inj.mp h12
      unfold readQuestions at hqs
      have hrq : readQuestion (p.drop 12) =
          some ({ name := [0], qtype := be16 (p.drop 13) 0, qclass := be16 (p.drop 13) 2 }, (p.drop 13).drop 4) := by
        unfold readQuestion
        rw [hd]
        simp only [List.length_cons, readName, if_true, List.length_nil, List.nil_append]
        simp only [show (0 + 1 ≤ 255) = True by simp, if_true]
        rw [if_neg (by simp; omega)]
      rw [hrq] at hqs
      simp only at hqs
      cases hrest : readQuestions k ((p.drop 13).drop 4) with
      | none => rw [hrest] at hqs; cases hqs
      | some x =>
        rw [hrest] at hqs
        simp only [Option.some.injEq, Prod.mk.injEq] at hqs
        have := hall _ (by rw [← hqs.1]; exact List.mem_cons_self)
        simp only [u8_drop', be16, Nat.reduceAdd, Nat.add_zero] at this
        omega

end Masscanned.J3
