/-
  Proofs/J3/Obs — the observation the run-time judges (`Spec/JudgeApp.lean`) see when the program's
  behaviour IS the model's: `obsOf`, built exactly as `Main.judgeApp` builds an `AppObs` from a driver
  line (transport flag, addresses, ports, payload, reply, port after the call, sticky id), and the
  case analysis of `protoRepl` on a fresh flow by the shadow-aware reference identification.
-/
import Masscanned.Thm.C10E2E
import Masscanned.Proofs.C12.Shapes
import Masscanned.Spec.JudgeApp
namespace Masscanned.J3
open Masscanned Masscanned.Spec Masscanned.E2E Masscanned.C10

/-- the observation of one call of `proto::repl`: `ci` is the client info handed to the call, `p` the
    payload, `ci'` / `reply` the client info and the reply it returned; `forced` is the sticky id of a
    later TCP segment (read from the program's table), `none` for a datagram or a first segment.
    (`Main.judgeApp`: `tcp := tr == "tcp"`, ports `toNat?.getD 0`, `portAfter := ci'.portDst.getD 0`.) -/
def obsOf (ci : ClientInfo) (p : Bytes) (ci' : ClientInfo) (reply : Option Bytes) (forced : Option Nat := none) :
    AppObs :=
  { tcp := decide (ci.transport = some 6),
    src := ci.ipSrc.getD default, dst := ci.ipDst.getD default,
    sport := ci.portSrc.getD 0, dport := ci.portDst.getD 0,
    payload := p, reply := reply, portAfter := ci'.portDst.getD 0, forced := forced }

/-! ### the judges on such an observation, projections reduced (all by `rfl`) -/

theorem refOf_obs (ci : ClientInfo) (p : Bytes) (ci' : ClientInfo) (reply : Option Bytes) (forced : Option Nat) :
    refOf (obsOf ci p ci' reply forced) =
      match forced with
      | some i => some i
      | none => if decide (ci.transport = some 6) = true then refStream p else refDatagram p := rfl

theorem judgeC18_obs (ci : ClientInfo) (p : Bytes) (ci' : ClientInfo) (reply : Option Bytes) (forced : Option Nat) :
    judgeC18 (obsOf ci p ci' reply forced) =
      if forced = some ID_SSH then
        (if sshAnswered p then
           (if reply = some sshBannerExpected then pass true else failv "SSH identification string on an SSH flow not answered with SSH-2.0-1")
         else if !sshIdent p then
           (match reply with
            | some r => if sshIdent r then failv "SSH banner sent for a malformed / unterminated identification string (later segment)" else pass true
            | none => pass true)
         else pass false)
      else if forced.isSome then pass false
      else if "Gh0st".toUTF8.toList.isPrefixOf p then
        match reply with
        | some r => if ghostFrameOk r then pass true else failv "Gh0st frame inconsistent (total length / inflated length)"
        | none => failv "Gh0st magic not answered"
      else if sshAnswered p then
        (if reply = some sshBannerExpected then pass true else failv "SSH identification string not answered with SSH-2.0-1")
      else
        match reply with
        | some r => if sshIdent r then failv "SSH banner sent for a malformed / unterminated identification string" else pass ("SSH-".toUTF8.toList.isPrefixOf p)
        | none => pass ("SSH-".toUTF8.toList.isPrefixOf p) := rfl

theorem judgeC13_obs (ci : ClientInfo) (p : Bytes) (ci' : ClientInfo) (reply : Option Bytes) (forced : Option Nat) :
    judgeC13 (obsOf ci p ci' reply forced) =
      let isHttp : Bool := match reply with | some r => classify r = .http | none => false
      if strictRequest p then
        match reply with
        | some r => if reply401Ok r then pass true else failv "401 response malformed (status line / WWW-Authenticate / Content-Length vs body)"
        | none => failv "complete HTTP request not answered"
      else if !relaxedRequest p then
        (if isHttp then failv "HTTP response to an unknown method / malformed or unterminated request" else pass ((stripMethod p).isSome || p.length ≥ 4))
      else
        match reply with
        | some r => if isHttp ∧ !reply401Ok r then failv "401 response malformed" else pass true
        | none => pass false := rfl

theorem judgeC14_obs (ci : ClientInfo) (p : Bytes) (ci' : ClientInfo) (reply : Option Bytes) (forced : Option Nat) :
    judgeC14 (obsOf ci p ci' reply forced) =
      if decide (ci.transport = some 6) = true then pass false else
      if (refDatagram p).isSome then pass false else
      match inAQuery p with
      | some q =>
        (match ci.ipDst.getD default with
         | .v4 a =>
           (match reply with
            | some r => if dnsReplyOk q r a then pass true else failv "DNS response is not the faithful IN/A answer"
            | none => failv "IN/A query not answered")
         | .v6 _ => pass false)
      | none =>
        if hasNonInA p ∨ dnsTruncated p then
          (if reply.isNone then pass true else failv "DNS message with a non-IN/A question or truncated was answered")
        else pass false := rfl

theorem judgeC17_obs (ci : ClientInfo) (p : Bytes) (ci' : ClientInfo) (reply : Option Bytes) (forced : Option Nat) :
    judgeC17 (obsOf ci p ci' reply forced) =
      match nbtBody p with
      | none => pass false
      | some m =>
        if refOf (obsOf ci p ci' reply forced) = some ID_SMB1 then
          (match smb1Request m with
           | some req =>
             (match reply with
              | some r => if smb1ReplyOk m req r then pass true else failv "SMB1 response inconsistent"
              | none => failv "SMB1 request not answered")
           | none =>
             if smb1MustIgnore m then (if reply.isNone then pass true else failv "SMB1 response flag / other command answered")
             else pass false)
        else if refOf (obsOf ci p ci' reply forced) = some ID_SMB2 then
          (match smb2Request m with
           | some req =>
             if smb2NoCommonDialect m then (if reply.isNone then pass true else failv "SMB2 negotiate without a supported dialect answered")
             else
               (match reply with
                | some r => if smb2ReplyOk m req r then pass true else failv "SMB2 response inconsistent"
                | none => failv "SMB2 request not answered")
           | none =>
             if smb2MustIgnore m then (if reply.isNone then pass true else failv "SMB2 response flag / other command answered")
             else pass false)
        else pass false := rfl

/-! ### `proto::repl` on a fresh flow, by identification -/

/-- a datagram: handler of the id the compiled matcher finds, else the DNS fallback -/
theorem model_none (cfg : Cfg) (env : Env) (ci : ClientInfo) (p : Bytes) (hg : Gate ci) :
    protoRepl cfg env ci none p =
      match refDatagramK2 p with
      | some i => protoHandle cfg env i ci none p
      | none =>
        match (dnsParse p).bind (dnsRepl ci) with
        | some r => .ok (ci, none, some r)
        | none => .ok (ci, none, none) := by
  cases h : refDatagramK2 p with
  | some i => exact dispatch_datagram_K2 cfg env ci p i hg h
  | none =>
    have hid := proto_datagram p
    rw [h] at hid
    rw [protoRepl_factors, if_neg hg]
    simp only [identify, hid, idOf, true_and, if_true]
    cases (dnsParse p).bind (dnsRepl ci) with
    | some r => rfl
    | none => simp only [C10.protoHandle_noMatch, Option.map_none]

/-- first segment of a TCP flow: handler of the id found on the stream, else nothing -/
theorem model_fresh (cfg : Cfg) (env : Env) (ci : ClientInfo) (p : Bytes) (hg : Gate ci) :
    ∃ st, protoRepl cfg env ci (some {}) p =
      match refStreamK2 p with
      | some i => protoHandle cfg env i ci (some { ({} : Tcb) with protoId := i, smackState := st }) p
      | none => .ok (ci, some { ({} : Tcb) with protoId := PROTO_NONE, smackState := st }, none) := by
  cases h : refStreamK2 p with
  | some i => exact dispatch_stream_K2 cfg env ci {} p i hg rfl rfl h
  | none =>
    obtain ⟨st, n, hsn, _, _⟩ := proto_stream p
    rw [h] at hsn
    refine ⟨st, ?_⟩
    rw [protoRepl_factors, if_neg hg]
    simp only [identify, if_true, hsn, idOf, reduceCtorEq, false_and, if_false, C10.protoHandle_noMatch,
      Option.map_some]

/-- the SYN-cookie gate closed: nothing -/
theorem model_gate (cfg : Cfg) (env : Env) (ci : ClientInfo) (tcb : Option Tcb) (p : Bytes) (hg : ¬ Gate ci) :
    protoRepl cfg env ci tcb p = .ok (ci, tcb, none) := by
  unfold protoRepl
  rw [if_pos (Classical.not_not.mp hg)]

/-- a later segment of a flow whose control block carries a sticky protocol id: the handler of that id -/
theorem model_sticky (cfg : Cfg) (env : Env) (ci : ClientInfo) (t : Tcb) (p : Bytes) (hg : Gate ci)
    (hid : t.protoId ≠ PROTO_NONE) :
    protoRepl cfg env ci (some t) p = protoHandle cfg env t.protoId ci (some t) p := by
  unfold protoRepl
  rw [if_neg hg]
  simp only [hid, if_false]

/-- client infos as the UDP / TCP layers hand them over, and a TCP one without SYN cookie (never produced by
    `tcp::repl`, see `C11.flowCi_hasCookie`) -/
def ciNoCookie : ClientInfo := { C10E2E.ciUdp with transport := some 6 }

end Masscanned.J3
