/-
  Proofs/J3/Reply — origin of a reply of the model on a fresh flow (datagram, or first segment of a
  TCP flow): it comes from the HTTP responder on a payload identified as HTTP, from the SSH responder
  on a payload identified as SSH, or it starts with neither "SSH-" nor "HTTP/1." (`NotSH`).
-/
import Masscanned.Proofs.J3.Shape
namespace Masscanned.J3
open Masscanned Masscanned.Spec Masscanned.E2E Masscanned.C10

/-- the reply of a handler other than HTTP / SSH, given what identified the payload -/
theorem handle_notSH {cfg : Cfg} {env : Env} {i : Nat} {ci ci' : ClientInfo} {tcb tcb' : Option Tcb} {p r : Bytes}
    (hid : refDatagramK2 p = some i)
    (h : protoHandle cfg env i ci tcb p = .ok (ci', tcb', some r)) :
    (i = ID_HTTP ∧ C12.IsHttp r) ∨ (i = ID_SSH ∧ r = sshBanner) ∨ NotSH r := by
  rcases C12.protoHandle_reply h with ⟨e, hr⟩ | ⟨_, hr⟩ | ⟨e, hr⟩ | ⟨_, hr⟩ | ⟨_, hr⟩ | ⟨e, hr⟩ | ⟨_, hr⟩ | ⟨_, hr⟩
  · exact .inl ⟨e, hr⟩
  · obtain ⟨tid, ip, port, _, rfl⟩ := C12.stun_shape hr
    exact .inr (.inr (notSH_of_head 1 _ (by decide) (by decide)))
  · exact .inr (.inl ⟨e, hr⟩)
  · rw [hr]
    exact .inr (.inr ⟨by decide +kernel, by decide +kernel⟩)
  · obtain ⟨m0, m1, m2, m3, x0, x1, x2, x3, x, t, hm, rfl⟩ := C12.rpc_tcp_shape hr
    refine .inr (.inr (notSH_of_head m0 _ ?_ ?_)) <;> (rintro rfl; revert hm; decide)
  · subst e
    obtain ⟨b, t, rfl, hb⟩ := k2_rpc_udp_head p hid
    have hh : rpcReplUdp cfg.ovf ci (b :: t) = .ok (some r) := by
      have := handle_rpc_udp cfg env ci tcb (b :: t)
      rw [show PROTO_RPC_UDP = ID_RPC_UDP from rfl, this] at h
      cases hq : rpcReplUdp cfg.ovf ci (b :: t) with
      | error e => rw [hq] at h; cases h
      | ok o =>
        rw [hq] at h
        simp only [Except.ok.injEq, Prod.mk.injEq] at h
        rw [h.2.2]
    obtain ⟨t', rfl⟩ := rpc_udp_head cfg.ovf ci b t r hh
    refine .inr (.inr (notSH_of_head b _ ?_ ?_)) <;> (rintro rfl; revert hb; decide)
  · obtain ⟨l2, l3, cmd, rest, _, _, rfl⟩ := C12.smb1_shape hr
    exact .inr (.inr (notSH_of_head 0 _ (by decide) (by decide)))
  · obtain ⟨l2, l3, c0, c1, rest, _, rfl⟩ := C12.smb2_shape hr
    exact .inr (.inr (notSH_of_head 0 _ (by decide) (by decide)))

/-- no handler but the HTTP one produces something that starts with "HTTP/1." — whatever the payload and the
    control block (used for sticky flows, where the shadow set does not help: the ONC-RPC reply has zero
    bytes where "HTTP/1." has "/1.") -/
theorem handle_not_http {cfg : Cfg} {env : Env} {i : Nat} {ci ci' : ClientInfo} {tcb tcb' : Option Tcb} {p r : Bytes}
    (hi : i ≠ ID_HTTP) (h : protoHandle cfg env i ci tcb p = .ok (ci', tcb', some r)) :
    http7.isPrefixOf r = false := by
  rcases C12.protoHandle_reply h with ⟨e, _⟩ | ⟨_, hr⟩ | ⟨_, hr⟩ | ⟨_, hr⟩ | ⟨_, hr⟩ | ⟨_, hr⟩ | ⟨_, hr⟩ | ⟨_, hr⟩
  · exact absurd e hi
  · obtain ⟨tid, ip, port, _, rfl⟩ := C12.stun_shape hr
    simp [http7, List.isPrefixOf]
  · rw [hr]; decide +kernel
  · rw [hr]; decide +kernel
  · obtain ⟨m0, m1, m2, m3, x0, x1, x2, x3, x, t, hm, rfl⟩ := C12.rpc_tcp_shape hr
    simp only [http7, List.cons_append, List.isPrefixOf, Bool.and_eq_false_iff, beq_eq_false_iff_ne, ne_eq]
    left; rintro rfl; revert hm; decide
  · obtain ⟨x0, x1, x2, x3, x, t, rfl⟩ := C12.rpc_udp_shape hr
    simp [http7, List.isPrefixOf]
  · obtain ⟨l2, l3, cmd, rest, _, _, rfl⟩ := C12.smb1_shape hr
    simp [http7, List.isPrefixOf]
  · obtain ⟨l2, l3, c0, c1, rest, _, rfl⟩ := C12.smb2_shape hr
    simp [http7, List.isPrefixOf]

theorem dns_notSH {r : Bytes} (h : C12.IsDns r) : NotSH r := by
  obtain ⟨i0, i1, fl, q0, q1, rest, hfl, rfl, _⟩ := C12.dns_shape h
  constructor
  · simp only [sshMagic, List.cons_append, List.isPrefixOf, Bool.and_eq_false_iff, beq_eq_false_iff_ne, ne_eq]
    right; right; left
    rintro rfl; revert hfl; decide
  · simp only [http7, List.cons_append, List.isPrefixOf, Bool.and_eq_false_iff, beq_eq_false_iff_ne, ne_eq]
    right; right; left
    rintro rfl; revert hfl; decide

/-- what the HTTP responder said, from a reply of the HTTP arm on a fresh flow -/
theorem http_arm_none {cfg : Cfg} {env : Env} {ci ci' : ClientInfo} {tcb' : Option Tcb} {p : Bytes} {o : Option Bytes}
    (h : protoHandle cfg env ID_HTTP ci none p = .ok (ci', tcb', o)) :
    ∃ s, httpRepl env {} p = .ok (s, o) ∧ ci' = ci := by
  rw [handle_http_none] at h
  cases hq : httpRepl env {} p with
  | error e => rw [hq] at h; cases h
  | ok x =>
    obtain ⟨s, o'⟩ := x
    rw [hq] at h
    simp only [Except.ok.injEq, Prod.mk.injEq] at h
    exact ⟨s, by rw [h.2.2], h.1.symm⟩

theorem http_arm_fresh {cfg : Cfg} {env : Env} {ci ci' : ClientInfo} {tcb' : Option Tcb} {p : Bytes} {st : Nat}
    {o : Option Bytes}
    (h : protoHandle cfg env ID_HTTP ci (some { ({} : Tcb) with protoId := ID_HTTP, smackState := st }) p =
      .ok (ci', tcb', o)) :
    ∃ s, httpRepl env {} p = .ok (s, o) ∧ ci' = ci := by
  rw [handle_http_fresh] at h
  cases hq : httpRepl env {} p with
  | error e => rw [hq] at h; cases h
  | ok x =>
    obtain ⟨s, o'⟩ := x
    rw [hq] at h
    simp only [Except.ok.injEq, Prod.mk.injEq] at h
    exact ⟨s, by rw [h.2.2], h.1.symm⟩

theorem ssh_arm {cfg : Cfg} {env : Env} {ci ci' : ClientInfo} {tcb tcb' : Option Tcb} {p : Bytes} {o : Option Bytes}
    (h : protoHandle cfg env ID_SSH ci tcb p = .ok (ci', tcb', o)) : sshRepl p = .ok o ∧ ci' = ci := by
  rw [handle_ssh] at h
  cases hq : sshRepl p with
  | error e => rw [hq] at h; cases h
  | ok x =>
    rw [hq] at h
    simp only [Except.ok.injEq, Prod.mk.injEq] at h
    exact ⟨by rw [h.2.2], h.1.symm⟩

/-- `tcb = none` (datagram) or `tcb = some {}` (first segment of a TCP flow) -/
def FreshTcb (tcb : Option Tcb) : Prop := tcb = none ∨ tcb = some {}

/-- **origin of a reply on a fresh flow** -/
theorem reply_cases {cfg : Cfg} {env : Env} {ci ci' : ClientInfo} {tcb tcb' : Option Tcb} {p r : Bytes}
    (ht : FreshTcb tcb) (h : protoRepl cfg env ci tcb p = .ok (ci', tcb', some r)) :
    (refStreamK2 p = some ID_HTTP ∧ ∃ s, httpRepl env {} p = .ok (s, some r)) ∨
    (refStreamK2 p = some ID_SSH ∧ sshRepl p = .ok (some r)) ∨ NotSH r := by
  by_cases hg : Gate ci
  · rcases ht with rfl | rfl
    · rw [model_none cfg env ci p hg] at h
      cases hid : refDatagramK2 p with
      | none =>
        rw [hid] at h
        simp only at h
        cases hm : dnsParse p with
        | none => rw [hm] at h; cases h
        | some m =>
          rw [hm] at h
          simp only [Option.bind_some] at h
          cases hr : dnsRepl ci m with
          | none => rw [hr] at h; cases h
          | some r' =>
            rw [hr] at h
            simp only [Except.ok.injEq, Prod.mk.injEq, Option.some.injEq] at h
            exact .inr (.inr (dns_notSH ⟨ci, p, m, hm, by rw [hr, h.2.2]⟩))
      | some i =>
        rw [hid] at h
        simp only at h
        rcases handle_notSH hid h with ⟨rfl, _⟩ | ⟨rfl, _⟩ | hn
        · obtain ⟨s, hs, _⟩ := http_arm_none h
          exact .inl ⟨k2_stream_of_datagram p _ hid (by decide) (by decide) (by decide), s, hs⟩
        · exact .inr (.inl ⟨k2_stream_of_datagram p _ hid (by decide) (by decide) (by decide), (ssh_arm h).1⟩)
        · exact .inr (.inr hn)
    · obtain ⟨st, hst⟩ := model_fresh cfg env ci p hg
      rw [hst] at h
      cases hid : refStreamK2 p with
      | none => rw [hid] at h; cases h
      | some i =>
        rw [hid] at h
        simp only at h
        rcases handle_notSH (refDatagramK2_of_stream p i hid) h with ⟨rfl, _⟩ | ⟨rfl, _⟩ | hn
        · obtain ⟨s, hs, _⟩ := http_arm_fresh h
          exact .inl ⟨rfl, s, hs⟩
        · exact .inr (.inl ⟨rfl, (ssh_arm h).1⟩)
        · exact .inr (.inr hn)
  · rw [model_gate cfg env ci tcb p hg] at h
    cases h

end Masscanned.J3
